/-
  Model of the handler chain: `context.go: Next, Abort, AbortThen, AbortWithStatus, IsAborted`,
  the chain that `dispatch.go: handleHTTPRequest` hands to `Next()`, and the registration-time handler
  limit of `route.go: Route.Use` / `router.go: appendGroupInfo`.

  Go side (current code, with the F11 repair):

      const abortIndex int8 = 63
      func (c *Context) Abort()          { c.index = abortIndex }
      func (c *Context) IsAborted() bool { return c.index >= abortIndex }
      func (c *Context) Next() {
          last := int8(len(c.handlers)) - 1
          for c.index < last {
              c.index++
              c.handlers[c.index](c)
          }
      }

  `c.index` is an `int8` that starts at -1 (`Reset`).  The model keeps the cursor as an `Int` and applies
  `wrap8` wherever the Go code converts to / increments an `int8`, so nothing is assumed about the
  cursor staying in range: it is a theorem (Lemmas/Chain.lean) that for chains of at most 63 handlers no
  wrap ever happens.

  Handlers are data: a handler is the list of the actions it performs (`Act`).  The correspondence engine
  `chain` (go/harness/engine_chain.go) builds real closures from the same action lists.  Everything a
  handler does that somebody can observe is appended to one per-request event trace (`Ev`): the response
  writer is kept abstract here (status / write events; the writer itself is property C08) and the status
  that ends up committed is a fold over the trace (`finalStatus`) that mirrors `responseWriter`.

  Core Lean only (linked into the driver).
-/
namespace Rux.Chain

/-- `abortIndex` (context.go).  `C05_limit_ok` proves it equal to the constant extracted from the source. -/
def abortIndex : Int := 63

/-- conversion to `int8` / `int8` overflow: two's complement wrap-around -/
def wrap8 (x : Int) : Int := (x + 128) % 256 - 128

/-- what a handler can do (one constructor per call the harness closure makes) -/
inductive Act
  | emit (t : Nat)              -- append a mark to the trace (stands for any work of the handler)
  | next                        -- c.Next()
  | abort                       -- c.Abort()
  | abortThen                   -- c.AbortThen()
  | abortWithStatus (c : Nat)   -- c.AbortWithStatus(c)          = Resp.WriteHeader(c); Abort()
  | abortWithMsg (c : Nat)      -- c.AbortWithStatus(c, "msg")   = http.Error(Resp, msg, c); Abort()
  | isAborted (t : Nat)         -- record c.IsAborted()
  | setStatus (c : Nat)         -- c.SetStatus(c)                = writer.WriteHeader(c)
  | write (t : Nat)             -- c.Resp.Write(chunk t)
  deriving Repr, DecidableEq

abbrev Handler := List Act

/-- the per-request event trace; `h` is always the position of the acting handler in the chain -/
inductive Ev
  | enter (h : Nat)                    -- handler h starts
  | leave (h : Nat)                    -- handler h returns
  | mark (h t : Nat)                   -- `emit t`
  | aborted (h t : Nat) (b : Bool)     -- `isAborted t` saw `b`
  | abort (h : Nat)                    -- h called one of Abort / AbortThen / AbortWithStatus
  | status (h c : Nat)                 -- h called WriteHeader(c) on the rux writer (SetStatus, AbortWithStatus)
  | write (h t : Nat)                  -- h wrote a chunk of the body
  deriving Repr, DecidableEq

/-- the handler an event belongs to -/
def Ev.handler : Ev → Nat
  | .enter h | .leave h | .mark h _ | .aborted h _ _ | .abort h | .status h _ | .write h _ => h

def Ev.isAbort : Ev → Bool
  | .abort _ => true
  | _ => false

def Ev.isEnter : Ev → Bool
  | .enter _ => true
  | _ => false

def Ev.isStatus : Ev → Bool
  | .status _ _ => true
  | _ => false

def Ev.isWrite : Ev → Bool
  | .write _ _ => true
  | _ => false

/-- cursor and trace of the running request (`Context.index` + what the handlers recorded) -/
structure St where
  idx : Int
  trace : List Ev
  deriving Repr, DecidableEq

/-- a run ends normally, with a Go panic (index out of range on `c.handlers[c.index]`), or the model's
    fuel is used up (only possible when the Go loop would not terminate within that many steps) -/
inductive Res
  | ok (st : St)
  | panic
  | fuel
  deriving Repr, DecidableEq

/-- the body of one handler closure: its actions in order.  `nx` is what a `c.Next()` call does. -/
def runActs (nx : St → Res) (i : Nat) : List Act → St → Res
  | [], st => .ok st
  | .emit t :: rest, st => runActs nx i rest { st with trace := st.trace ++ [.mark i t] }
  | .isAborted t :: rest, st =>
    runActs nx i rest { st with trace := st.trace ++ [.aborted i t (decide (st.idx ≥ abortIndex))] }
  | .abort :: rest, st => runActs nx i rest { idx := abortIndex, trace := st.trace ++ [.abort i] }
  | .abortThen :: rest, st => runActs nx i rest { idx := abortIndex, trace := st.trace ++ [.abort i] }
  | .abortWithStatus c :: rest, st =>
    runActs nx i rest { idx := abortIndex, trace := st.trace ++ [.status i c, .abort i] }
  | .abortWithMsg c :: rest, st =>
    runActs nx i rest { idx := abortIndex, trace := st.trace ++ [.status i c, .write i 0, .abort i] }
  | .setStatus c :: rest, st => runActs nx i rest { st with trace := st.trace ++ [.status i c] }
  | .write t :: rest, st => runActs nx i rest { st with trace := st.trace ++ [.write i t] }
  | .next :: rest, st =>
    match nx st with
    | .ok st' => runActs nx i rest st'
    | r => r

/-- `Context.Next()`.  One unit of fuel per loop iteration / nesting level. -/
def next (hs : List Handler) : Nat → St → Res
  | 0, _ => .fuel
  | f + 1, st =>
    -- last := int8(len(c.handlers)) - 1
    let last := wrap8 (wrap8 hs.length - 1)
    if st.idx < last then
      -- c.index++
      let j := wrap8 (st.idx + 1)
      -- c.handlers[c.index](c)
      if 0 ≤ j then
        match hs[j.toNat]? with
        | none => .panic
        | some h =>
          match runActs (next hs f) j.toNat h { idx := j, trace := st.trace ++ [.enter j.toNat] } with
          | .ok st2 => next hs f { st2 with trace := st2.trace ++ [.leave j.toNat] }
          | r => r
      else .panic
    else .ok st

/-- a whole request: `Reset` puts the cursor at -1, `handleHTTPRequest` calls `Next()` once.
    `hs.length + 1` units of fuel are always enough within the limit (`next_eq_onion`). -/
def serve (hs : List Handler) : Res := next hs (hs.length + 1) ⟨-1, []⟩

/-! ### the response status (abstract writer: `response_wirter.go`, details are C08's) -/

/-- `responseWriter.status` and the status committed to the underlying writer, if any -/
structure W where
  status : Nat := 0
  committed : Option Nat := none
  deriving Repr, DecidableEq

/-- `ensureWriteHeader`: the first call commits the recorded status (200 when none was recorded) -/
def W.ensure (w : W) : W :=
  match w.committed with
  | some _ => w
  | none => let s := if w.status = 0 then 200 else w.status; ⟨s, some s⟩

/-- `WriteHeader(c)` only records (`status > 0 && w.status != status`); `Write` commits first -/
def W.step (w : W) : Ev → W
  | .status _ c => if c > 0 ∧ w.status ≠ c then { w with status := c } else w
  | .write _ _ => w.ensure
  | _ => w

def W.run (w : W) (tr : List Ev) : W := tr.foldl W.step w

/-- the status the client sees: `handleHTTPRequest` ends with `ensureWriteHeader()` -/
def finalStatus (tr : List Ev) : Nat := (((W.run {} tr).ensure).committed).getD 0

/-! ### the specification: onion order -/

/-- accumulator while reading the actions of one handler: its trace so far, whether it has already
    let the rest of the chain run (a `Next()` that did something), whether the request is aborted -/
structure Acc where
  tr : List Ev
  started : Bool
  ab : Bool
  deriving Repr, DecidableEq

def Act.isAbort : Act → Bool
  | .abort | .abortThen | .abortWithStatus _ | .abortWithMsg _ => true
  | _ => false

/-- what one action of handler `i` other than `Next()` appends to the trace, given whether the request
    is already aborted, and whether it is aborted afterwards -/
def ownEv (i : Nat) (ab : Bool) : Act → List Ev × Bool
  | .emit t => ([.mark i t], ab)
  | .isAborted t => ([.aborted i t ab], ab)
  | .abort => ([.abort i], true)
  | .abortThen => ([.abort i], true)
  | .abortWithStatus c => ([.status i c, .abort i], true)
  | .abortWithMsg c => ([.status i c, .write i 0, .abort i], true)
  | .setStatus c => ([.status i c], ab)
  | .write t => ([.write i t], ab)
  | .next => ([], ab)

/-- one action of handler `i`; `R` = what the rest of the chain does when it is allowed to run -/
def specStep (i : Nat) (R : List Ev × Bool) (acc : Acc) (a : Act) : Acc :=
  if a = .next then
    -- the rest of the chain runs inside the FIRST Next() that is not preceded by an abort;
    -- every other Next() does nothing
    if !acc.started && !acc.ab then { tr := acc.tr ++ R.1, started := true, ab := R.2 } else acc
  else { acc with tr := acc.tr ++ (ownEv i acc.ab a).1, ab := (ownEv i acc.ab a).2 }

/-- The onion: handler `i` is entered, performs its actions — the rest of the chain runs inside its first
    effective `Next()` —, leaves; if it neither called `Next()` nor aborted, the rest of the chain follows
    it.  Result: the trace and whether the request is aborted at the end.
    Structural recursion over the handler list; no cursor, no fuel. -/
def onion : Nat → List Handler → List Ev × Bool
  | _, [] => ([], false)
  | i, h :: rest =>
    let R := onion (i + 1) rest
    let acc := h.foldl (specStep i R) ⟨[], false, false⟩
    if !acc.started && !acc.ab then ([Ev.enter i] ++ acc.tr ++ [.leave i] ++ R.1, R.2)
    else ([Ev.enter i] ++ acc.tr ++ [.leave i], acc.ab)

/-! #### the same thing in closed form (`onion_cons` in Lemmas/Chain.lean: `onion i (h :: rest) =
  onionStep i h (onion (i+1) rest)`) -/

/-- events of a stretch of actions during which `Next()` has no effect; also: aborted afterwards? -/
def flat (i : Nat) : Bool → List Act → List Ev × Bool
  | ab, [] => ([], ab)
  | ab, a :: rest =>
    ((ownEv i ab a).1 ++ (flat i (ownEv i ab a).2 rest).1, (flat i (ownEv i ab a).2 rest).2)

/-- split a handler at its first effective `Next()`: the first one that is not preceded by an abort -/
def splitNext : List Act → Option (List Act × List Act)
  | [] => none
  | a :: rest =>
    if a = .next then some ([], rest)
    else if a.isAbort then none
    else (splitNext rest).map (fun pq => (a :: pq.1, pq.2))

/-- handler `i` in front of a rest-of-chain `R` -/
def onionStep (i : Nat) (h : Handler) (R : List Ev × Bool) : List Ev × Bool :=
  match splitNext h with
  | some (pre, post) =>
    -- `h = pre ++ Next() :: post`: the rest of the chain runs inside that `Next()`, then `post`
    -- (where every further `Next()` does nothing) runs to its end
    ([Ev.enter i] ++ (flat i false pre).1 ++ R.1 ++ (flat i R.2 post).1 ++ [.leave i], (flat i R.2 post).2)
  | none =>
    if (flat i false h).2 then
      -- aborted before any `Next()`: nobody else starts
      ([Ev.enter i] ++ (flat i false h).1 ++ [.leave i], true)
    else
      -- returned without `Next()` and without aborting: the rest of the chain follows
      ([Ev.enter i] ++ (flat i false h).1 ++ [.leave i] ++ R.1, R.2)

/-- an event with the sampled `IsAborted()` value erased (to compare what a handler DID) -/
def Ev.erase : Ev → Ev
  | .aborted h t _ => .aborted h t false
  | e => e

/-- the events of handler `j` in a trace -/
def proj (j : Nat) (tr : List Ev) : List Ev := tr.filter (fun e => e.handler = j)

/-- everything handler `i` with actions `h` does when it runs to its end, each action once, in order -/
def shape (i : Nat) (h : Handler) : List Ev := ((flat i false h).1).map Ev.erase

/-- handlers entered, in order -/
def enters : List Ev → List Nat
  | [] => []
  | .enter j :: rest => j :: enters rest
  | _ :: rest => enters rest

/-- handlers left, in order -/
def leaves : List Ev → List Nat
  | [] => []
  | .leave j :: rest => j :: leaves rest
  | _ :: rest => leaves rest

/-- the cursor value that corresponds to a point of the onion for handler `i` of a chain of `s` -/
def idxOf (s i : Nat) (started ab : Bool) : Int :=
  if ab then abortIndex else if started then (s : Int) - 1 else i

/-! ### a trace validator (used to state and prove the C04 / C05 clauses)

  `check` reads a trace from left to right and keeps: has an abort happened, the stack of handlers that
  have started and not yet returned (innermost first), and the position of the next handler to start.
  It accepts an event only when
  * `enter j`: nothing has aborted, and `j` is exactly the next handler in list order;
  * `leave j`: `j` is the innermost running handler (last in, first out);
  * any other event of handler `j`: `j` is the innermost running handler, and an `IsAborted()` sample
    shows exactly "an abort has happened before". -/
structure CSt where
  ab : Bool
  stack : List Nat
  nxt : Nat
  deriving Repr, DecidableEq

def checkStep (s : CSt) : Ev → Option CSt
  | .enter j => if s.ab = false ∧ j = s.nxt then some { s with stack := j :: s.stack, nxt := s.nxt + 1 } else none
  | .leave j =>
    match s.stack with
    | top :: below => if top = j then some { s with stack := below } else none
    | [] => none
  | .abort j => if s.stack.head? = some j then some { s with ab := true } else none
  | .aborted j _ b => if s.stack.head? = some j ∧ b = s.ab then some s else none
  | .mark j _ => if s.stack.head? = some j then some s else none
  | .status j _ => if s.stack.head? = some j then some s else none
  | .write j _ => if s.stack.head? = some j then some s else none

def check (s : CSt) : List Ev → Option CSt
  | [] => some s
  | e :: rest =>
    match checkStep s e with
    | some s' => check s' rest
    | none => none

/-- Last in, first out: `enter` pushes, `leave j` must close the innermost running handler, and every
    other event must belong to the innermost running handler.  Returns the stack at the end. -/
def nest : List Nat → List Ev → Option (List Nat)
  | stk, [] => some stk
  | stk, .enter j :: rest => nest (j :: stk) rest
  | stk, .leave j :: rest =>
    match stk with
    | top :: below => if top = j then nest below rest else none
    | [] => none
  | stk, e :: rest => if stk.head? = some e.handler then nest stk rest else none

/-! ### registration-time handler limit (`route.go: Route.Use`, `router.go: appendGroupInfo`) -/

/-- `Route.Use(mw...)` on a route that already has `cur` middleware: panics ("too many handlers") when
    `cur + add >= abortIndex`, otherwise the route has `cur + add` middleware. -/
def routeUse (cur add : Nat) : Option Nat :=
  if ((cur + add : Nat) : Int) ≥ abortIndex then none else some (cur + add)

/-- `appendGroupInfo` for a route with `cur` middleware registered inside groups that contribute `grp`
    middleware: the group handlers are put in front; the size is only tested when `grp > 0`. -/
def groupAttach (grp cur : Nat) : Option Nat :=
  if grp > 0 then (if ((grp + cur : Nat) : Int) ≥ abortIndex then none else some (grp + cur)) else some cur

/-! ### a concrete chain for the non-vacuity examples of Props/C05 -/

/-- abort after Next() in the 2nd of 5 handlers, with two handlers suspended (0 and 1); handler 1 calls
    Next() again after the abort; handlers 2–4 had already run inside the first Next() -/
def demoAbort : List Handler :=
  [[.emit 1, .next, .isAborted 2, .emit 3],
   [.emit 4, .next, .abortWithStatus 403, .next, .isAborted 5, .emit 6],
   [.isAborted 7, .next, .emit 8],
   [.emit 9],
   [.emit 10]]

end Rux.Chain
