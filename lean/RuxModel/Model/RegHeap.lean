import RuxModel.Model.Reg
/-
  Slice-level refinement of the registration model (DESIGN.md §4: "slices that may alias").

  Go slices are `(array, len, cap)` over a heap of backing arrays.  `append` writes IN PLACE when
  `len + n ≤ cap` and otherwise allocates a new array whose capacity is ANY number `≥ len + n`
  (the growth policy `Pol` is a parameter; theorems quantify over it).  The interpreter below mirrors
  the slice operations of the code literally:

    Router.Use      r.currentGroupHandlers = append(r.currentGroupHandlers, middles...)   (or r.handlers)
    Group           len(middles) > 0:  len(prev) > 0 ? append(current, middles...) : middles   (ALIASES the argument)
                    … callback …;  r.currentGroupHandlers = prevHandlers                      (a saved SLICE)
    appendGroupInfo len(group) > 0:  route.handlers = combineHandlers(group, route.handlers)  (make + copy)
    Route.Use       r.handlers = append(r.handlers, middleware...)

  Every call materialises its variadic argument as a slice of an array OF ITS OWN (with any spare
  capacity — the policy decides): the model does not cover callers that hand sub-slices of one
  array to several calls (see known finding F17).
  `NotFound`/`NotAllowed` only store their argument; nothing in rux writes through it, so these two
  stay plain lists here.  Core Lean only.
-/
namespace Rux.Reg

abbrev Heap := List (List H)

structure Slice where
  arr : Nat
  len : Nat
  cap : Nat
  deriving DecidableEq, Repr

/-- the nil slice -/
def Slice.nil : Slice := ⟨0, 0, 0⟩

/-- growth policy: spare capacity of the array allocated when the heap holds `k` arrays, and what
    the spare cells contain -/
structure Pol where
  extra : Nat → Nat
  junk : H

def cells (h : Heap) (a : Nat) : List H := (h[a]?).getD []

/-- what a slice shows -/
def read (h : Heap) (s : Slice) : List H := (cells h s.arr).take s.len

/-- a new array holding `xs`, with the spare capacity the policy chooses -/
def alloc (pol : Pol) (h : Heap) (xs : List H) : Heap × Slice :=
  (h ++ [xs ++ List.replicate (pol.extra h.length) pol.junk],
   ⟨h.length, xs.length, xs.length + pol.extra h.length⟩)

/-- `make(HandlersChain, n)` + copy: capacity exactly `n` -/
def allocExact (h : Heap) (xs : List H) : Heap × Slice :=
  (h ++ [xs], ⟨h.length, xs.length, xs.length⟩)

def writeAt (cs : List H) (off : Nat) (xs : List H) : List H :=
  cs.take off ++ xs ++ cs.drop (off + xs.length)

/-- Go's `append(s, xs...)` -/
def appendS (pol : Pol) (h : Heap) (s : Slice) (xs : List H) : Heap × Slice :=
  if s.len + xs.length ≤ s.cap then
    (h.set s.arr (writeAt (cells h s.arr) s.len xs), { s with len := s.len + xs.length })
  else alloc pol h (read h s ++ xs)

/-- the variadic argument of a call: nil when there are no arguments, else a slice of a fresh array -/
def argSlice (pol : Pol) (h : Heap) (xs : List H) : Heap × Slice :=
  if xs = [] then (h, Slice.nil) else alloc pol h xs

structure HRoute where
  id : Nat
  main : H
  name : Bytes
  methods : List Bytes
  path : Bytes
  handlers : Slice
  deriving DecidableEq, Repr

structure HS where
  heap : Heap
  pfx : Bytes
  grp : Slice           -- currentGroupHandlers
  globals : Slice       -- handlers
  noRoute : List H
  noAllowed : List H
  routes : List HRoute
  deriving DecidableEq, Repr

def HS.init : HS := ⟨[], [], Slice.nil, Slice.nil, [], [], []⟩

/-! ### the interpreter on slices -/

/-- `Route.Use(mw...)` on the route's handler slice `s` -/
def hRouteUse (pol : Pol) (limit : Nat) (h : Heap) (s : Slice) (mw : List H) : Except Err (Heap × Slice) :=
  if s.len + mw.length ≥ limit then .error .tooMany else
  let a := argSlice pol h mw
  .ok (appendS pol a.1 s (read a.1 a.2))

def hRouteUses (pol : Pol) (limit : Nat) (h : Heap) (s : Slice) : List (List H) → Except Err (Heap × Slice)
  | [] => .ok (h, s)
  | mw :: rest =>
    match hRouteUse pol limit h s mw with
    | .ok r => hRouteUses pol limit r.1 r.2 rest
    | .error e => .error e

/-- `appendGroupInfo`, the handler part: `combineHandlers` copies into an array of exactly the
    combined size -/
def hAttach (limit : Nat) (h : Heap) (grp s : Slice) : Except Err (Heap × Slice) :=
  if grp.len > 0 then
    if grp.len + s.len ≥ limit then .error .tooMany
    else .ok (allocExact h (read h grp ++ read h s))
  else .ok (h, s)

def hAddRoute (pol : Pol) (cfg : Cfg) (st : HS) (d : RouteDef) : Except Err HS :=
  match hRouteUses pol cfg.limit st.heap Slice.nil d.pre with
  | .error e => .error e
  | .ok r0 =>
    match hAttach cfg.limit r0.1 st.grp r0.2 with
    | .error e => .error e
    | .ok r1 =>
      match hRouteUses pol cfg.limit r1.1 r1.2 d.post with
      | .error e => .error e
      | .ok r2 =>
        .ok { st with heap := r2.1
                      routes := st.routes ++
                        [{ id := d.id, main := d.main, name := d.name, methods := d.methods
                           path := storedPath cfg st.pfx d.path, handlers := r2.2 }] }

def hAddRoutes (pol : Pol) (cfg : Cfg) (st : HS) : List RouteDef → Except Err HS
  | [] => .ok st
  | d :: rest =>
    match hAddRoute pol cfg st d with
    | .ok st1 => hAddRoutes pol cfg st1 rest
    | .error e => .error e

/-- `Router.Use` -/
def hUse (pol : Pol) (st : HS) (hs : List H) : HS :=
  let a := argSlice pol st.heap hs
  if st.pfx ≠ [] then
    let r := appendS pol a.1 st.grp (read a.1 a.2)
    { st with heap := r.1, grp := r.2 }
  else
    let r := appendS pol a.1 st.globals (read a.1 a.2)
    { st with heap := r.1, globals := r.2 }

/-- `Group`, before the callback -/
def hEnter (pol : Pol) (cfg : Cfg) (st : HS) (pfx : Bytes) (mws : List H) : HS :=
  let a := argSlice pol st.heap mws
  if a.2.len > 0 then
    if st.grp.len > 0 then
      let r := appendS pol a.1 st.grp (read a.1 a.2)
      { st with heap := r.1, pfx := st.pfx ++ cfg.fmt pfx, grp := r.2 }
    else { st with heap := a.1, pfx := st.pfx ++ cfg.fmt pfx, grp := a.2 }     -- the argument itself
  else { st with heap := a.1, pfx := st.pfx ++ cfg.fmt pfx }

/-- `Group`, after the callback: the saved prefix and the saved SLICE are put back -/
def HS.leave (saved : HS) (st : HS) : HS :=
  { st with pfx := saved.pfx, grp := saved.grp }

mutual
def hexec (pol : Pol) (cfg : Cfg) (st : HS) : Stmt → Except Err HS
  | .use hs => .ok (hUse pol st hs)
  | .route d => hAddRoute pol cfg st d
  | .group p mws body =>
    match hexecList pol cfg (hEnter pol cfg st p mws) body with
    | .ok st2 => .ok (st.leave st2)
    | .error e => .error e
  | .controller p mws body =>
    match hexecList pol cfg (hEnter pol cfg st p mws) body with
    | .ok st2 => .ok (st.leave st2)
    | .error e => .error e
  | .resource rd mws =>
    if rd.kind ≠ .ptrStruct then .error .badController else
    match hAddRoutes pol cfg (hEnter pol cfg st (rd.base ++ rd.resName) mws) (restRoutes rd) with
    | .ok st2 => .ok (st.leave st2)
    | .error e => .error e
  | .notFound hs => .ok { st with noRoute := hs }
  | .notAllowed hs => .ok { st with noAllowed := hs }
def hexecList (pol : Pol) (cfg : Cfg) (st : HS) : List Stmt → Except Err HS
  | [] => .ok st
  | s :: rest =>
    match hexec pol cfg st s with
    | .ok st1 => hexecList pol cfg st1 rest
    | .error e => .error e
end

/-! ### what the slices show: the abstraction to the list-level state -/

def HRoute.abs (h : Heap) (r : HRoute) : Route :=
  { id := r.id, main := r.main, name := r.name, methods := r.methods, path := r.path
    handlers := read h r.handlers }

def HS.abs (st : HS) : RS :=
  { pfx := st.pfx, grp := read st.heap st.grp, globals := read st.heap st.globals
    noRoute := st.noRoute, noAllowed := st.noAllowed
    routes := st.routes.map (HRoute.abs st.heap) }

end Rux.Reg
