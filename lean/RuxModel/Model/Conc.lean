import RuxModel.Go.Bytes
import RuxModel.Model.Cache
/-
  Model `Conc` (property C03): interleaving semantics of several in-flight requests.

  Mirrors, of the CURRENT code in /repo:
    dispatch.go    ServeHTTP (ctxPool.Get, Init, handleHTTPRequest, ctxPool.Put),
                   handleHTTPRequest (QuickMatch, chain selection route / 405 / 404, the per-request chain
                   assembled in a FRESH slice from r.handlers, route.handlers, route.handler, Next, commit)
    parse_match.go QuickMatch (primary match, HEAD->GET, fallback route, findAllowedMethods),
                   match (stable table, cache Get, dynamic search, cacheDynamicRoute = cache Set)
    route_cache.go Get / Set as ATOMIC steps (both take the write lock)
    context.go     Init/Reset, Next (the cursor loop), Abort, Set/Get, Params
    response_wirter.go  WriteHeader (lazy), Write, ensureWriteHeader

  Shared state  = the registered handler arrays (a heap of arrays; slices are (array, len, cap) views, so
                  spare capacity and aliasing are expressible), the Router/Route slice headers, the route
                  cache, the context pool.
  Local state   = one request: program counter, its own pooled Context (params, data, cursor, OWN chain),
                  the call stack of handler frames, its trace and its response recorder.
  A step        = one atomic action of one request.  The only steps that touch mutable shared state are
                  pool Get/Put (sync.Pool) and cache Get/Set (the mutex).  Everything between two handler
                  boundaries is local, so it is split into the finest steps (one per action / loop turn):
                  more interleavings, never fewer.
  The routing tables are abstract: `stable` and `dyn` are PURE functions of the key (method ++ path);
  the table model that refines them is built elsewhere (C01/C07).
  Not modelled: panics inside handlers (C09), OnError, int8 overflow of the cursor itself (C05; the
  `int8(len(handlers))` conversion IS modelled), interceptAll / useEncodedPath / formatPath (requests
  carry normalised paths), Context.Errors.
  Core Lean only.
-/
namespace Rux.Conc

/-! ### byte-string constants -/

def mGET : Bytes := [71, 69, 84]
def mHEAD : Bytes := [72, 69, 65, 68]
def mOPTIONS : Bytes := [79, 80, 84, 73, 79, 78, 83]
/-- "/*" -/
def fallbackSuffix : Bytes := [47, 42]
/-- "404 page not found\n" -/
def text404 : Bytes := [52, 48, 52, 32, 112, 97, 103, 101, 32, 110, 111, 116, 32, 102, 111, 117, 110, 100, 10]
/-- "Method not allowed\n" -/
def text405 : Bytes := [77, 101, 116, 104, 111, 100, 32, 110, 111, 116, 32, 97, 108, 108, 111, 119, 101, 100, 10]
/-- ", " -/
def commaSpace : Bytes := [44, 32]
/-- "_currentRouteName" -/
def kRouteName : Bytes := [95, 99, 117, 114, 114, 101, 110, 116, 82, 111, 117, 116, 101, 78, 97, 109, 101]
/-- "_currentRoutePath" -/
def kRoutePath : Bytes := [95, 99, 117, 114, 114, 101, 110, 116, 82, 111, 117, 116, 101, 80, 97, 116, 104]

/-- Go string comparison `a <= b` (byte-wise lexicographic) -/
def bytesLe : Bytes → Bytes → Bool
  | [], _ => true
  | _ :: _, [] => false
  | a :: as, b :: bs => if a < b then true else if b < a then false else bytesLe as bs

def insertSorted (x : Bytes) : List Bytes → List Bytes
  | [] => [x]
  | y :: ys => if bytesLe x y then x :: y :: ys else y :: insertSorted x ys

/-- `sort.Strings` -/
def sortBytes : List Bytes → List Bytes
  | [] => []
  | x :: xs => insertSorted x (sortBytes xs)

/-! ### handlers as data -/

/-- a cell of a handler array -/
inductive H where
  | nil                -- zero value (the spare capacity of an array)
  | user (id : Nat)    -- a registered handler; its behaviour is `Cfg.prog id`
  | d404               -- internal404Handler
  | d405               -- internal405Handler
  deriving DecidableEq, Repr

abbrev Params := List (Bytes × Bytes)

/-- what the route cache stores for a key: the route (a copy of it) and the matched params -/
abbrev CVal := Nat × Params

/-- handler actions (the harness builds real closures from the same lists) -/
inductive Act where
  | park                        -- scheduling boundary: the harness parks the goroutine here
  | emit (t : Nat)              -- trace event
  | next                        -- c.Next()
  | abort                       -- c.Abort()
  | seeParams                   -- record c.Params
  | setParam (k v : Bytes)      -- c.Params[k] = v   (when the map is not nil)
  | setData (k v : Bytes)       -- c.Set(k, v)
  | seeData (k : Bytes)         -- record c.Get(k)
  | setStatus (code : Nat)      -- c.SetStatus(code)
  | write (b : Bytes)           -- c.Resp.Write(b)
  | allow405                    -- body of internal405Handler
  deriving DecidableEq, Repr

inductive Ev where
  | enter (id : Nat)
  | tag (t : Nat)
  | params (p : Option Params)
  | data (k : Bytes) (v : Option Bytes)
  deriving DecidableEq, Repr

/-! ### heap slices -/

/-- a Go slice: a view (array, len, cap) -/
structure Slice where
  arr : Nat
  len : Nat
  cap : Nat
  deriving DecidableEq, Repr

/-- array id ↦ cells (the length of the cell list is the capacity of the array) -/
abbrev Heap := List (List H)

/-- the elements a slice shows -/
def readSlice (h : Heap) (s : Slice) : List H := ((h[s.arr]?).getD []).take s.len

/-- Go `append(s, xs...)` on a heap slice, as the code did BEFORE the fix of F10a: it writes into the spare
    capacity of the array of `s` when the result fits, else it allocates (here: exact capacity).  The model of
    the current code never calls it on a shared slice; it is kept so that the defect is expressible
    (see the examples in Props/C03.lean). -/
def appendInPlace (h : Heap) (s : Slice) (xs : List H) : Heap × Slice :=
  if s.len + xs.length ≤ s.cap then
    let cells := (h[s.arr]?).getD []
    let cells' := cells.take s.len ++ xs ++ cells.drop (s.len + xs.length)
    (h.set s.arr cells', { s with len := s.len + xs.length })
  else
    (h ++ [readSlice h s ++ xs], { arr := h.length, len := s.len + xs.length, cap := s.len + xs.length })

structure Route where
  name : Bytes
  mws : Slice      -- route.handlers (group + route middleware)
  main : H         -- route.handler
  deriving DecidableEq, Repr

/-- what registration leaves behind and no request may write -/
structure Static where
  heap : Heap
  glob : Slice          -- Router.handlers
  noRoute : Slice       -- Router.noRoute
  noAllowed : Slice     -- Router.noAllowed
  routes : List Route
  deriving DecidableEq, Repr

/-- the fields of a pooled `*Context` (with its embedded responseWriter) -/
structure Ctx where
  params : Option Params
  data : List (Bytes × Bytes)
  allowed : List Bytes          -- data[CTXAllowedMethods]
  index : Int
  chain : List H                -- c.handlers: the request's OWN slice
  status : Nat                  -- writer.status
  length : Int                  -- writer.length, -1 = noWritten
  deriving DecidableEq, Repr

/-- `&Context{index: -1}` -/
def Ctx.new : Ctx := ⟨none, [], [], -1, [], 0, 0⟩

/-- `Init`: writer.reset + Reset.  Every field is assigned. -/
def Ctx.init (c : Ctx) : Ctx :=
  { c with status := 0, length := -1, index := -1, data := [], allowed := [], params := none, chain := [] }

def Ctx.pristine : Ctx := ⟨none, [], [], -1, [], 0, -1⟩

structure Shared where
  static : Static
  cache : Cache Bytes CVal
  pool : List Ctx
  deriving Repr

/-- immutable configuration: the routing tables as pure functions, handler programs, options -/
structure Cfg where
  stable : Bytes → Option Nat          -- stableRoutes[key]
  dyn : Bytes → Option CVal            -- result of the regular + irregular search for key
  prog : Nat → List Act
  caching : Bool
  fallback : Bool                      -- handleFallbackRoute
  mna : Bool                           -- handleMethodNotAllowed
  methods : List Bytes                 -- anyMethods
  pick : List Ctx → Nat                -- which pooled context sync.Pool hands out (none if out of range)

/-! ### local state -/

inductive Stage where
  | primary                                                   -- match(method, path)
  | headGet                                                   -- HEAD: match(GET, path)
  | allow (found : List Bytes) (m : Bytes) (todo : List Bytes) -- findAllowedMethods: match(m, path)
  deriving DecidableEq, Repr

inductive Sel where
  | route (r : Nat)
  | notAllowed
  | notFound
  deriving DecidableEq, Repr

inductive Pc where
  | fresh                                  -- before ctxPool.Get
  | probe (st : Stage)                     -- `match`: stable table, then cache.Get        (atomic)
  | got (st : Stage) (res : Option CVal)   -- hit: clone the params; miss: dynamic search + cache.Set (atomic)
  | assemble (sel : Sel)                   -- build the chain in a fresh slice, SetHandlers, enter Next
  | running                                -- inside ctx.Next()
  | done
  | crashed                                -- a Go panic (index / nil func); unreachable from registration
  deriving DecidableEq, Repr

inductive Frame where
  | loop                         -- an active `for c.index < last` of some Next() call
  | body (rest : List Act)       -- a handler invocation, remaining actions
  deriving DecidableEq, Repr

structure Local where
  meth : Bytes
  path : Bytes
  pc : Pc
  ctx : Ctx
  stack : List Frame
  trace : List Ev
  outStatus : Nat               -- status seen by the underlying writer, 0 = header not committed
  body : Bytes
  allowHdr : Option Bytes
  deriving DecidableEq, Repr

def Local.fresh (meth path : Bytes) : Local :=
  ⟨meth, path, .fresh, Ctx.new, [], [], 0, [], none⟩

def Local.isFinal (l : Local) : Bool :=
  match l.pc with
  | .done => true
  | .crashed => true
  | _ => false

def stageMeth (l : Local) : Stage → Bytes
  | .primary => l.meth
  | .headGet => mGET
  | .allow _ m _ => m

/-- the table / cache key of a lookup: method ++ path -/
def keyOf (l : Local) (st : Stage) : Bytes := stageMeth l st ++ l.path

/-! ### QuickMatch control flow (local) -/

def nextAllow (l : Local) (found todo : List Bytes) : Local :=
  match todo with
  | m :: t => { l with pc := .probe (.allow found m t) }
  | [] =>
    if found.isEmpty then { l with pc := .assemble .notFound }
    else { l with pc := .assemble .notAllowed, ctx := { l.ctx with allowed := found } }

/-- neither the method nor (for HEAD) GET matched: fallback route, allowed methods, not found -/
def afterMatch (cfg : Cfg) (l : Local) : Local :=
  match (if cfg.fallback then cfg.stable (l.meth ++ fallbackSuffix) else none) with
  | some r => { l with pc := .assemble (.route r) }
  | none =>
    if cfg.mna then nextAllow l [] (cfg.methods.filter (fun m => !decide (m = l.meth)))
    else { l with pc := .assemble .notFound }

def onFound (l : Local) (st : Stage) (r : Nat) (ps : Option Params) : Local :=
  match st with
  | .primary => { l with pc := .assemble (.route r), ctx := { l.ctx with params := ps } }
  | .headGet => { l with pc := .assemble (.route r), ctx := { l.ctx with params := ps } }
  | .allow found m todo => nextAllow l (found ++ [m]) todo

def onNone (cfg : Cfg) (l : Local) (st : Stage) : Local :=
  match st with
  | .primary => if l.meth = mHEAD then { l with pc := .probe .headGet } else afterMatch cfg l
  | .headGet => afterMatch cfg l
  | .allow found _ todo => nextAllow l found todo

/-! ### chain assembly (reads shared slices, writes only the request's own chain) -/

def defaultOr (h : Heap) (s : Slice) (d : H) : List H :=
  if s.len = 0 then [d] else readSlice h s

def assemble (s : Static) (l : Local) (sel : Sel) : Local :=
  let g := readSlice s.heap s.glob
  match sel with
  | .route r =>
    match s.routes[r]? with
    | none => { l with pc := .crashed }
    | some rt =>
      let chain := g ++ readSlice s.heap rt.mws ++ (if rt.main = .nil then [] else [rt.main])
      { l with pc := .running, stack := [.loop],
               ctx := { l.ctx with chain := chain, data := [(kRouteName, rt.name), (kRoutePath, l.path)] } }
  | .notAllowed =>
    { l with pc := .running, stack := [.loop],
             ctx := { l.ctx with chain := g ++ defaultOr s.heap s.noAllowed .d405 } }
  | .notFound =>
    { l with pc := .running, stack := [.loop],
             ctx := { l.ctx with chain := g ++ defaultOr s.heap s.noRoute .d404 } }

/-! ### running the chain -/

/-- `int8(n)` -/
def wrap8 (n : Nat) : Int := (((n + 128) % 256 : Nat) : Int) - 128

def progOf (cfg : Cfg) : H → List Act
  | .nil => []
  | .user id => cfg.prog id
  | .d404 => [.setStatus 404, .write text404]
  | .d405 => [.allow405]

def enterEv : H → List Ev
  | .user id => [.enter id]
  | _ => []

def upsert (k v : Bytes) : List (Bytes × Bytes) → List (Bytes × Bytes)
  | [] => [(k, v)]
  | (k', v') :: t => if k' = k then (k, v) :: t else (k', v') :: upsert k v t

def lookupB (k : Bytes) : List (Bytes × Bytes) → Option Bytes
  | [] => none
  | (k', v') :: t => if k' = k then some v' else lookupB k t

/-- responseWriter.WriteHeader: only records the status -/
def setStatus (l : Local) (code : Nat) : Local :=
  if code > 0 ∧ l.ctx.status ≠ code then { l with ctx := { l.ctx with status := code } } else l

/-- responseWriter.ensureWriteHeader -/
def ensureHeader (l : Local) : Local :=
  if l.ctx.length = -1 then
    let st := if l.ctx.status = 0 then 200 else l.ctx.status
    { l with ctx := { l.ctx with status := st, length := 0 },
             outStatus := if l.outStatus = 0 then st else l.outStatus }
  else l

/-- responseWriter.Write -/
def writeBody (l : Local) (b : Bytes) : Local :=
  let l1 := ensureHeader l
  { l1 with body := l1.body ++ b, ctx := { l1.ctx with length := l1.ctx.length + b.length } }

def joinBytes (sep : Bytes) : List Bytes → Bytes
  | [] => []
  | [x] => x
  | x :: y :: t => x ++ sep ++ joinBytes sep (y :: t)

/-- one action of a handler (the frame holding the remaining actions is already on the stack) -/
def exec (l : Local) : Act → Local
  | .park => l
  | .emit t => { l with trace := l.trace ++ [.tag t] }
  | .next => { l with stack := .loop :: l.stack }
  | .abort => { l with ctx := { l.ctx with index := 63 } }
  | .seeParams => { l with trace := l.trace ++ [.params l.ctx.params] }
  | .setParam k v =>
    match l.ctx.params with
    | some ps => { l with ctx := { l.ctx with params := some (upsert k v ps) } }
    | none => l
  | .setData k v => { l with ctx := { l.ctx with data := upsert k v l.ctx.data } }
  | .seeData k => { l with trace := l.trace ++ [.data k (lookupB k l.ctx.data)] }
  | .setStatus code => setStatus l code
  | .write b => writeBody l b
  | .allow405 =>
    let l1 := { l with allowHdr := some (joinBytes commaSpace (sortBytes l.ctx.allowed)) }
    if l.meth = mOPTIONS then setStatus l1 200
    else writeBody (setStatus l1 405) text405

/-- one step inside `ctx.Next()` (the stack is not empty) -/
def stepRun (cfg : Cfg) (l : Local) : Local :=
  match l.stack with
  | [] => l
  | .loop :: below =>
    let last := wrap8 l.ctx.chain.length - 1
    if l.ctx.index < last then
      let idx := l.ctx.index + 1
      if idx < 0 then { l with pc := .crashed }
      else
        match l.ctx.chain[idx.toNat]? with
        | none => { l with pc := .crashed }
        | some .nil => { l with pc := .crashed }
        | some h =>
          { l with ctx := { l.ctx with index := idx }, stack := .body (progOf cfg h) :: .loop :: below,
                   trace := l.trace ++ enterEv h }
    else { l with stack := below }
  | .body [] :: below => { l with stack := below }
  | .body (a :: as) :: below => exec { l with stack := .body as :: below } a

/-- `ctx.Next()` returned to handleHTTPRequest: commit the header; ServeHTTP then puts the context back -/
def finish (l : Local) : Local := { ensureHeader l with pc := .done }

/-! ### the step function -/

def takeCtx (cfg : Cfg) (pool : List Ctx) : Ctx :=
  match pool[cfg.pick pool]? with
  | some c => c
  | none => Ctx.new

/-- one atomic step of one request -/
def step (cfg : Cfg) (sh : Shared) (l : Local) : Shared × Local :=
  match l.pc with
  | .fresh =>
    ({ sh with pool := sh.pool.eraseIdx (cfg.pick sh.pool) },
     { l with ctx := (takeCtx cfg sh.pool).init, pc := .probe .primary })
  | .probe st =>
    match cfg.stable (keyOf l st) with
    | some r => (sh, onFound l st r none)
    | none =>
      if cfg.caching then
        ({ sh with cache := (sh.cache.get (keyOf l st)).2 }, { l with pc := .got st (sh.cache.get (keyOf l st)).1 })
      else (sh, { l with pc := .got st none })
  | .got st (some v) => (sh, onFound l st v.1 (some v.2))
  | .got st none =>
    match cfg.dyn (keyOf l st) with
    | some v =>
      ((if cfg.caching then { sh with cache := sh.cache.set (keyOf l st) v } else sh),
       onFound l st v.1 (some v.2))
    | none => (sh, onNone cfg l st)
  | .assemble sel => (sh, assemble sh.static l sel)
  | .running =>
    match l.stack with
    | [] => ({ sh with pool := (finish l).ctx :: sh.pool }, finish l)
    | _ :: _ => (sh, stepRun cfg l)
  | .done => (sh, l)
  | .crashed => (sh, l)

/-- the same step as seen by a request that is alone with the immutable part of the router: lookups are
    answered by the pure tables, nothing else of the shared state is consulted -/
def stepPure (cfg : Cfg) (s : Static) (l : Local) : Local :=
  match l.pc with
  | .fresh => { l with ctx := Ctx.pristine, pc := .probe .primary }
  | .probe st =>
    match cfg.stable (keyOf l st) with
    | some r => onFound l st r none
    | none => { l with pc := .got st none }
  | .got st _ =>
    match cfg.dyn (keyOf l st) with
    | some v => onFound l st v.1 (some v.2)
    | none => onNone cfg l st
  | .assemble sel => assemble s l sel
  | .running =>
    match l.stack with
    | [] => finish l
    | _ :: _ => stepRun cfg l
  | .done => l
  | .crashed => l

/-- forget what the cache answered (hit or miss): the only part of a local state that may depend on the
    other requests, and only until the request's next step -/
def norm (l : Local) : Local :=
  match l.pc with
  | .got st _ => { l with pc := .got st none }
  | _ => l

/-! ### schedules -/

/-- run a schedule (a list of request ids); every occurrence of `i` is one atomic step of request `i` -/
def run (cfg : Cfg) (n : Nat) : List (Fin n) → Shared × (Fin n → Local) → Shared × (Fin n → Local)
  | [], st => st
  | i :: rest, (sh, ls) =>
    let r := step cfg sh (ls i)
    run cfg n rest (r.1, fun j => if j = i then r.2 else ls j)

def iter {α : Type} (f : α → α) : Nat → α → α
  | 0, a => a
  | k + 1, a => iter f k (f a)

def count {n : Nat} (i : Fin n) (sch : List (Fin n)) : Nat := (sch.filter (· = i)).length

/-! ### access sets (part of the step definition) -/

inductive Loc where
  | cell (arr idx : Nat)     -- a cell of a registered handler array
  | hdrGlob                  -- Router.handlers (slice header)
  | hdrNoRoute               -- Router.noRoute
  | hdrNoAllowed             -- Router.noAllowed
  | route (r : Nat)          -- the fields of a registered Route
  | tables                   -- stableRoutes / regularRoutes / irregularRoutes
  | cache                    -- the cachedRoutes object (list + index), guarded by its mutex
  | pool                     -- the sync.Pool of contexts
  deriving DecidableEq, Repr

structure Access where
  write : Bool
  loc : Loc
  deriving DecidableEq, Repr

def rd (l : Loc) : Access := ⟨false, l⟩
def wr (l : Loc) : Access := ⟨true, l⟩

def sliceCells (s : Slice) : List Access := (List.range s.len).map (fun i => rd (.cell s.arr i))

/-- the shared locations a step touches -/
def accesses (cfg : Cfg) (sh : Shared) (l : Local) : List Access :=
  match l.pc with
  | .fresh => [wr .pool]
  | .probe st =>
    match cfg.stable (keyOf l st) with
    | some _ => [rd .tables]
    | none => if cfg.caching then [rd .tables, wr .cache] else [rd .tables]
  | .got _ (some _) => []
  | .got st none =>
    match cfg.dyn (keyOf l st) with
    | some v => if cfg.caching then [rd .tables, rd (.route v.1), wr .cache] else [rd .tables, rd (.route v.1)]
    | none => [rd .tables]
  | .assemble sel =>
    rd .hdrGlob :: sliceCells sh.static.glob ++
      (match sel with
       | .route r =>
         match sh.static.routes[r]? with
         | some rt => rd (.route r) :: sliceCells rt.mws
         | none => []
       | .notAllowed => rd .hdrNoAllowed :: sliceCells sh.static.noAllowed
       | .notFound => rd .hdrNoRoute :: sliceCells sh.static.noRoute)
  | .running =>
    match l.stack with
    | [] => [wr .pool]
    | _ :: _ => []
  | .done => []
  | .crashed => []

/-! ### macro steps (what the deterministic scheduler of the harness can do) -/

/-- the request waits at a `park` action -/
def atPark (l : Local) : Bool :=
  match l.pc, l.stack with
  | .running, .body (.park :: _) :: _ => true
  | _, _ => false

def runUntilPark (cfg : Cfg) : Nat → Shared → Local → Shared × Local
  | 0, sh, l => (sh, l)
  | f + 1, sh, l =>
    if l.isFinal || atPark l then (sh, l)
    else
      let r := step cfg sh l
      runUntilPark cfg f r.1 r.2

/-- release a parked (or new) request and let it run to its next `park` or to the end -/
def advance (cfg : Cfg) (fuel : Nat) (sh : Shared) (l : Local) : Shared × Local :=
  if atPark l then
    let r := step cfg sh l
    runUntilPark cfg fuel r.1 r.2
  else runUntilPark cfg fuel sh l

end Rux.Conc
