import RuxModel.Model.Table
/-
  Model of URL building for named routes: extends.go: BuildRequestURL.Build, route.go: ToURL / BuildURL,
  and the name index (router.go: appendRoute, route.go: NewNamedRoute, NamedTo).
  Core Lean only.
-/
namespace Rux

/-- `Build`: arguments whose key contains a brace are path parameters, the others query parameters -/
def isParamKey (k : Bytes) : Bool := (Bytes.indexByte k 0x7B).isSome || (Bytes.indexByte k 0x7D).isSome

def splitArgs (args : List (Bytes × Bytes)) : List (Bytes × Bytes) × List (Bytes × Bytes) :=
  (args.filter fun kv => isParamKey kv.1, args.filter fun kv => !isParamKey kv.1)

/-- latest binding of a key (`M` is a map: a later duplicate key overwrites) -/
def argGet (args : List (Bytes × Bytes)) (k : Bytes) : Bytes :=
  match args.reverse.find? fun kv => kv.1 = k with
  | some kv => kv.2
  | none => []

/-- the (old, new) pairs of the single-pass replacer: every `{…}` of the path in path order,
    looked up under `{name}` (regex stripped) -/
def buildPairs (path : Bytes) (params : List (Bytes × Bytes)) : List (Bytes × Bytes) :=
  (findVars (path.length + 1) path).map fun str =>
    let v := parseVar str
    let key := if v.hasRegex then wrapBraces v.name else str
    (str, argGet params key)

/-- the path of the built URL -/
def buildPath (path : Bytes) (params : List (Bytes × Bytes)) : Bytes :=
  let pairs := buildPairs path params
  if pairs.isEmpty then path else replaceAll pairs (path.length + 1) path

/-! ### the name index -/

abbrev Names := List (Bytes × Nat)

/-- registering a route that carries a name (AddNamed, NewNamedRoute + AddRoute): the name is trimmed,
    an empty name registers nothing, a later registration under the same name wins -/
def nameRoute (ns : Names) (name : Bytes) (id : Nat) : Names :=
  let n := Bytes.trimSpace name
  if n.isEmpty then ns else (n, id) :: ns.filter fun kv => kv.1 ≠ n

def getRoute (ns : Names) (name : Bytes) : Option Nat := (ns.find? fun kv => kv.1 = name).map (·.2)

end Rux
