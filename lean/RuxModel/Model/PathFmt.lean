import RuxModel.Go.Bytes
/-
  Path normalisation as used by the route table model: `Router.formatPath` (router.go) and
  `simpleFmtPath` (utils.go), as total functions following the current code.
  (The `Except`-valued version whose totality is a theorem, and the C11 theorems, are in
  Model/Path.lean / Props/C11.lean.)
  Core Lean only.
-/
namespace Rux

/-- `strings.TrimRightFunc(s, c == '/' || unicode.IsSpace(c))` -/
def trimRightSlashSpace (s : Bytes) : Bytes := Bytes.trimRightSpaceOrByte 0x2F s

/-- `Router.formatPath` -/
def fmtPath (strict : Bool) (path : Bytes) : Bytes :=
  if path = [] ∨ path = [0x2F] then [0x2F] else
  let p1 := Bytes.trimSpace path
  let p2 := if !strict && Bytes.hasSuffix p1 [0x2F] then trimRightSlashSpace p1 else p1
  if p2 = [] ∨ p2 = [0x2F] then [0x2F] else
  match p2 with
  | [] => [0x2F]
  | c :: rest =>
    if c ≠ 0x2F then 0x2F :: p2
    else
      match rest with
      | 0x2F :: _ => 0x2F :: Bytes.trimLeftByte 0x2F p2
      | _ => p2

/-- `simpleFmtPath` -/
def simpleFmt (path : Bytes) : Bytes :=
  let p := Bytes.trimSpace path
  if p = [] then [0x2F] else 0x2F :: Bytes.trimLeftByte 0x2F p

end Rux
