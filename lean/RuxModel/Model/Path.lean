import RuxModel.Go.Bytes
import RuxModel.Go.Panic
/-
  Path normalisation of rux (router.go `Router.formatPath`, utils.go `simpleFmtPath`), the
  registration pipeline that uses it (route.go `NewRoute`, router.go `Group`, `appendGroupInfo`),
  lookup of static routes (parse_match.go `QuickMatch`/`match`, first tier only) and the choice of the
  request path in dispatch.go.  Mirrors the CURRENT code of /repo (after the fixes of F3, F14, F16).

  Go strings are byte lists; `path[0]`, `path[1]` are explicit partial accesses (`List.get?`-style), the
  out-of-range case is `Panic.index`, so that "formatPath never panics" is a theorem (Props/C11.lean),
  not a property of the definition.
-/
namespace Rux
namespace Path

open Bytes

def slash : Nat := 0x2F

/-- Go's `s[i]` on a string: panics when out of range -/
def byteAt (s : Bytes) (i : Nat) : Except Panic Nat :=
  match s[i]? with
  | some b => .ok b
  | none => .error .index

/--
```go
func (r *Router) formatPath(path string) string {
	if path == "" || path == "/" { return "/" }
	path = strings.TrimSpace(path)
	if !r.strictLastSlash && strings.HasSuffix(path, "/") {
		path = strings.TrimRightFunc(path, func(c rune) bool { return c == '/' || unicode.IsSpace(c) })
	}
	if path == "" || path == "/" { return "/" }
	if path[0] != '/' { return "/" + path }
	if path[1] == '/' { return "/" + strings.TrimLeft(path, "/") }
	return path
}
```
-/
def formatPath (strict : Bool) (path : Bytes) : Except Panic Bytes :=
  if path = [] ∨ path = [slash] then .ok [slash] else
  let p := trimSpace path
  let p := if !strict && hasSuffix p [slash] then trimRightSpaceOrByte slash p else p
  if p = [] ∨ p = [slash] then .ok [slash] else
  do
    let c0 ← byteAt p 0
    if c0 ≠ slash then return slash :: p
    let c1 ← byteAt p 1
    if c1 = slash then return slash :: trimLeftByte slash p
    return p

/--
```go
func simpleFmtPath(path string) string {
	path = strings.TrimSpace(path)
	if path == "" { return "/" }
	return "/" + strings.TrimLeft(path, "/")
}
```
-/
def simpleFmtPath (path : Bytes) : Bytes :=
  let p := trimSpace path
  if p = [] then [slash] else slash :: trimLeftByte slash p

/-! ### registration: `NewRoute`, `Group`, `appendGroupInfo` -/

/-- `Router.Group`: `r.currentGroupPrefix = prevPrefix + r.formatPath(prefix)` -/
def groupPrefix (strict : Bool) (prev g : Bytes) : Except Panic Bytes := do
  let f ← formatPath strict g
  return prev ++ f

/-- the prefix in effect inside nested groups `gs` (outermost first), starting from `""` -/
def nestedPrefix (strict : Bool) : Bytes → List Bytes → Except Panic Bytes
  | prev, [] => .ok prev
  | prev, g :: gs => do
    let p ← groupPrefix strict prev g
    nestedPrefix strict p gs

/-- `NewRoute` (`path: simpleFmtPath(path)`) followed by `appendGroupInfo`:
```go
	path := r.formatPath(route.path)
	if r.currentGroupPrefix != "" { path = r.formatPath(r.currentGroupPrefix + path) }
	route.path = path
``` -/
def storedPath (strict : Bool) (prefix_ p : Bytes) : Except Panic Bytes := do
  let path ← formatPath strict (simpleFmtPath p)
  if prefix_ ≠ [] then formatPath strict (prefix_ ++ path) else return path

/-! ### the static table and lookup -/

/-- `isFixedPath`: no `{` and no `[` -/
def isFixedPath (s : Bytes) : Bool := (indexByte s 0x7B).isNone && (indexByte s 0x5B).isNone

/-- the static tier `stableRoutes map[string]*Route` as an association list keyed by method ++ path.
    A later registration under the same key replaces the earlier one (map assignment): the newest entry
    is in front and lookup takes the first hit. -/
abbrev Table := List (Bytes × Nat)

def Table.add (t : Table) (method path : Bytes) (id : Nat) : Table := (method ++ path, id) :: t

def Table.find (t : Table) (key : Bytes) : Option Nat :=
  match t with
  | [] => none
  | (k, id) :: rest => if k = key then some id else Table.find rest key

structure Router where
  strict : Bool := false
  useEncoded : Bool := false
  /-- `r.interceptAll` (already `TrimSpace`d by the option) -/
  intercept : Bytes := []
  /-- `r.currentGroupPrefix` -/
  prefix_ : Bytes := []
  stable : Table := []

/-- `rux.InterceptAll(path)`: `r.interceptAll = strings.TrimSpace(path)` -/
def Router.setIntercept (r : Router) (p : Bytes) : Router := { r with intercept := trimSpace p }

/-- register a static route for one method; answers the stored path (`Route.Path()`).
    Only fixed paths are in the fragment (dynamic routes: C01/C13). -/
def Router.addStatic (r : Router) (method p : Bytes) (id : Nat) : Except Panic (Router × Bytes) := do
  let path ← storedPath r.strict r.prefix_ p
  return ({ r with stable := r.stable.add method path id }, path)

/-- a registration program: static routes, each inside its own nesting of groups `gs` (outermost first);
    `Group` saves the prefix, extends it, runs the body and restores it -/
def Router.regAll (r : Router) : List (List Bytes × Bytes × Bytes × Nat) → Except Panic Router
  | [] => .ok r
  | (gs, m, p, id) :: rest => do
    let pre ← nestedPrefix r.strict r.prefix_ gs
    let (r', _) ← ({ r with prefix_ := pre }).addStatic m p id
    Router.regAll { r' with prefix_ := r.prefix_ } rest

/-- `QuickMatch` restricted to the static tier (no HEAD fallback, no fallback route, no 405 handling —
    those are C06): the intercept path replaces the request path, `formatPath`, `stableRoutes[method+path]`. -/
def Router.matchStatic (r : Router) (method path : Bytes) : Except Panic (Option Nat) := do
  let path := if r.intercept ≠ [] then r.intercept else path
  let path ← formatPath r.strict path
  return r.stable.find (method ++ path)

/-- `Router.Match`: `r.QuickMatch(strings.ToUpper(method), path)` (ASCII method names) -/
def Router.matchApi (r : Router) (method path : Bytes) : Except Panic (Option Nat) :=
  r.matchStatic (toUpper method) path

/-- dispatch.go: `path := ctx.Req.URL.Path; if r.useEncodedPath { path = ctx.Req.URL.EscapedPath() }`.
    `urlPath` / `escapedPath` are those of `ctx.Req.URL` at the moment `handleHTTPRequest` runs, i.e. AFTER any
    rewrite by a wrapping handler (`http.StripPrefix`, a `WrapHTTPHandlers` pre handler) or before a
    re-dispatch (`HandleContext`); nothing else of the request (`RequestURI`, `Host`, …) takes part. -/
def Router.requestPath (r : Router) (urlPath escapedPath : Bytes) : Bytes :=
  if r.useEncoded then escapedPath else urlPath

def Router.serveStatic (r : Router) (method urlPath escapedPath : Bytes) : Except Panic (Option Nat) :=
  r.matchStatic method (r.requestPath urlPath escapedPath)

end Path
end Rux
