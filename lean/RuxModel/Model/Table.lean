import RuxModel.Model.Pattern
import RuxModel.Model.PathFmt
import RuxModel.Model.Cache
/-
  Model of the route table: registration (router.go: appendRoute, route.go: NewRoute, goodInfo,
  utils.go: formatMethods) and lookup (parse_match.go: match, QuickMatch, findAllowedMethods,
  cacheDynamicRoute), including the LRU cache of dynamic matches and the router options.
  Maps are association lists (insertion order irrelevant for lookups by key).
  Core Lean only.
-/
namespace Rux

abbrev Params := List (Bytes × Bytes)

structure RouteM where
  id : Nat
  name : Bytes
  methods : List Bytes
  path : Bytes                  -- stored (formatted) path
  static : Bool
  info : RouteInfo              -- meaningful for dynamic routes only
  deriving Repr

structure Opts where
  strict : Bool := false
  fallback : Bool := false
  notAllowed : Bool := false
  caching : Bool := false
  cap : Nat := 1000
  intercept : Bytes := []
  deriving Repr

structure RouterM where
  opts : Opts
  stable : List (Bytes × RouteM)            -- key = method ++ path; the first binding of a key is the live one
  regular : List (Bytes × List RouteM)      -- key = method ++ first segment
  irregular : List (Bytes × List RouteM)    -- key = method
  cache : Cache Bytes (RouteM × Params)
  counter : Nat
  deriving Repr

def emptyInfo : RouteInfo :=
  { regexStr := [], start := [], first := [], names := [], spath := [], levels := [], runeSens := false }

def RouterM.new (o : Opts) : RouterM :=
  { opts := o, stable := [], regular := [], irregular := [], cache := Cache.empty o.cap, counter := 0 }

/-! ### registration -/

def methodGET : Bytes := [71, 69, 84]        -- "GET"
def methodHEAD : Bytes := [72, 69, 65, 68]   -- "HEAD"
def anyMethodsB : List Bytes := Facts.anyMethodsB

/-- `formatMethodsWithDefault(methods, GET)`; `none` when a name has non-ASCII bytes
    (`strings.ToUpper` is Unicode aware there; outside the model) -/
def formatMethods (ms : List Bytes) : Option (List Bytes) :=
  if ms.isEmpty then some [methodGET] else
  if ms.any (fun m => m.any (· ≥ 0x80)) then none else
  some ((ms.map Bytes.trimSpace).filter (fun m => !m.isEmpty) |>.map Bytes.toUpper)

def alistSet {V : Type} (l : List (Bytes × V)) (k : Bytes) (v : V) : List (Bytes × V) :=
  (k, v) :: l.filter (fun kv => kv.1 ≠ k)

def alistGet {V : Type} (l : List (Bytes × V)) (k : Bytes) : Option V :=
  (l.find? (fun kv => kv.1 = k)).map (·.2)

/-- append to the list stored under `k` (creating it) -/
def alistAppend (l : List (Bytes × List RouteM)) (k : Bytes) (r : RouteM) : List (Bytes × List RouteM) :=
  match alistGet l k with
  | some rs => alistSet l k (rs ++ [r])
  | none => alistSet l k [r]

/-- literal text every instance of the pattern starts with -/
def firstLit (ls : Levels) : Bytes :=
  match ls with
  | (.lit l :: _) :: _ => l
  | _ => []

/-- what the lookup tiers rely on, checked when a dynamic route is registered:
    one variable name per capturing group; the literal prefix `start` and the first-segment key `first`
    really are a prefix of every instance of the pattern. (The correspondence engine shows that the
    check never fails for patterns of the documented grammar; a failing check makes the model answer
    `unsupported` instead of guessing.) -/
def routeOK (info : RouteInfo) : Bool :=
  let fl := firstLit info.levels
  (info.names.length == levelsVars info.levels) &&
  Bytes.hasPrefix fl info.start &&
  (info.first.isEmpty ||
    (Bytes.hasPrefix fl ([0x2F] ++ info.first ++ [0x2F]) && !info.first.contains 0x2F))

/-- the table-insertion half of `appendRoute` -/
def insertRoute (rt : RouterM) (route : RouteM) : RouterM :=
  if route.static then
    { rt with stable := route.methods.foldl (fun st m => alistSet st (m ++ route.path) route) rt.stable,
              counter := rt.counter + route.methods.length }
  else if !route.info.first.isEmpty then
    { rt with regular := route.methods.foldl (fun t m => alistAppend t (m ++ route.info.first) route) rt.regular,
              counter := rt.counter + route.methods.length }
  else
    { rt with irregular := route.methods.foldl (fun t m => alistAppend t m route) rt.irregular,
              counter := rt.counter + route.methods.length }

inductive Prepared where
  | ok (route : RouteM)
  | reject (why : Reject)
  | unsupported
  deriving Repr

/-- the checking / compiling half of `Router.Add(path, handler, methods...)` at top level (no group):
    NewRoute, goodInfo, formatPath, parseParamRoute. `gv`: the global path variables at this registration -/
def prepare (gv : GVars) (strict : Bool) (id : Nat) (name : Bytes) (rawMethods : List Bytes) (rawPath : Bytes)
    (nilHandler : Bool) : Prepared :=
  match formatMethods rawMethods with
  | none => .unsupported
  | some methods =>
  -- goodInfo
  if nilHandler then .reject .handler else
  if methods.isEmpty then .reject .methods else
  if methods.any (fun m => !anyMethodsB.contains m) then .reject .method else
  -- NewRoute + appendGroupInfo
  let path := fmtPath strict (simpleFmt rawPath)
  if isFixedPath path then
    .ok { id := id, name := name, methods := methods, path := path, static := true, info := emptyInfo }
  else
    match compileRouteIn gv path with
    | .unsupported => .unsupported
    | .reject why => .reject why
    | .ok info =>
      if routeOK info then
        .ok { id := id, name := name, methods := methods, path := path, static := false, info := info }
      else .unsupported

inductive RegResult where
  | ok (rt : RouterM) (route : RouteM)
  | reject (why : Reject)
  | unsupported
  deriving Repr

def register (gv : GVars) (rt : RouterM) (id : Nat) (name : Bytes) (rawMethods : List Bytes) (rawPath : Bytes)
    (nilHandler : Bool) : RegResult :=
  match prepare gv rt.opts.strict id name rawMethods rawPath nilHandler with
  | .ok route => .ok (insertRoute rt route) route
  | .reject why => .reject why
  | .unsupported => .unsupported

/-- the table built from a list of prepared routes, in registration order -/
def build (o : Opts) (rs : List RouteM) : RouterM := rs.foldl insertRoute (RouterM.new o)

/-! ### lookup -/

/-- `Route.matchRegex` with the literal-prefix pre-filter of the regular tier -/
def routeMatch (r : RouteM) (path : Bytes) : Option Params :=
  (matchPat r.info.levels path).map fun caps => mkParams r.info.names caps

def firstMatch (rs : List RouteM) (path : Bytes) (useStart : Bool) : Option (RouteM × Params) :=
  rs.findSome? fun r =>
    if useStart && !Bytes.hasPrefix path r.info.start then none
    else (routeMatch r path).map fun ps => (r, ps)

/-- the list stored under a key; a missing key is an empty list (`rs, ok := m[key]; if ok {range rs}`) -/
def listAt (l : List (Bytes × List RouteM)) (k : Bytes) : List RouteM := (alistGet l k).getD []

/-- the regular tier: routes keyed by method ++ first path segment -/
def regTier (rt : RouterM) (method path : Bytes) : Option (RouteM × Params) :=
  match Bytes.indexByte (path.drop 1) 0x2F with
  | some pos =>
    if pos > 0 then firstMatch (listAt rt.regular (method ++ (path.drop 1).take pos)) path true
    else none
  | none => none

/-- the irregular tier: the residual dynamic routes of the method -/
def irrTier (rt : RouterM) (method path : Bytes) : Option (RouteM × Params) :=
  firstMatch (listAt rt.irregular method) path false

/-- the dynamic tiers (no cache) -/
def dynMatch (rt : RouterM) (method path : Bytes) : Option (RouteM × Params) :=
  match regTier rt method path with
  | some x => some x
  | none => irrTier rt method path

/-- `Router.match`: static → cache → regular → irregular; a dynamic match is stored under method++path.
    Returns (route, params, served from cache?) and the new cache. -/
def matchM (rt : RouterM) (method path : Bytes) : Option (RouteM × Params × Bool) × RouterM :=
  match alistGet rt.stable (method ++ path) with
  | some r => (some (r, [], false), rt)
  | none =>
    let key := method ++ path
    let (hit, cache1) := if rt.opts.caching then rt.cache.get key else (none, rt.cache)
    match hit with
    | some (r, ps) => (some (r, ps, true), { rt with cache := cache1 })
    | none =>
      match dynMatch rt method path with
      | some (r, ps) =>
        let cache2 := if rt.opts.caching then cache1.set key (r, ps) else cache1
        (some (r, ps, false), { rt with cache := cache2 })
      | none => (none, { rt with cache := cache1 })

/-- `findAllowedMethods`: every other supported method under which the path matches (source order) -/
def findAllowed (rt : RouterM) (method path : Bytes) : List Bytes × RouterM :=
  anyMethodsB.foldl (fun (acc : List Bytes × RouterM) m =>
    if m = method then acc
    else
      let (res, rt') := matchM acc.2 m path
      (if res.isSome then acc.1 ++ [m] else acc.1, rt')) ([], rt)

inductive MatchResult where
  | route (r : RouteM) (ps : Params) (fromCache : Bool)
  | fallback (r : RouteM)
  | allowed (ms : List Bytes)
  | notFound
  deriving Repr

def slashStar : Bytes := [0x2F, 0x2A]

/-- the last two fallbacks of `QuickMatch`: the `/*` route of the method, then method-not-allowed -/
def tailMatch (rt : RouterM) (method path : Bytes) : MatchResult × RouterM :=
  match (if rt.opts.fallback then alistGet rt.stable (method ++ slashStar) else none) with
  | some r => (.fallback r, rt)
  | none =>
    if rt.opts.notAllowed then
      let res := findAllowed rt method path
      if res.1.isEmpty then (.notFound, res.2) else (.allowed res.1, res.2)
    else (.notFound, rt)

/-- for HEAD requests, attempt fallback to GET; then the remaining fallbacks -/
def headMatch (rt : RouterM) (method path : Bytes) : MatchResult × RouterM :=
  if method = methodHEAD then
    match matchM rt methodGET path with
    | (some (r, ps, c), rt2) => (.route r ps c, rt2)
    | (none, rt2) => tailMatch rt2 method path
  else tailMatch rt method path

/-- `Router.QuickMatch` -/
def quickMatch (rt : RouterM) (method path0 : Bytes) : MatchResult × RouterM :=
  let path := fmtPath rt.opts.strict (if rt.opts.intercept.isEmpty then path0 else rt.opts.intercept)
  match matchM rt method path with
  | (some (r, ps, c), rt1) => (.route r ps c, rt1)
  | (none, rt1) => headMatch rt1 method path

/-! ### specification of route selection (what C01 demands) -/

/-- lookup without the cache: static table, then the dynamic tiers -/
def lookupPure (rt : RouterM) (m q : Bytes) : Option (RouteM × Params) :=
  match alistGet rt.stable (m ++ q) with
  | some r => some (r, [])
  | none => dynMatch rt m q

def isStaticFor (m q : Bytes) (r : RouteM) : Bool := r.static && r.methods.contains m && (r.path == q)
def isRegularFor (m : Bytes) (r : RouteM) : Bool := !r.static && !r.info.first.isEmpty && r.methods.contains m
def isIrregularFor (m : Bytes) (r : RouteM) : Bool := !r.static && r.info.first.isEmpty && r.methods.contains m

/-- an exact static path beats every dynamic pattern (the latest registration of a static key is the live
    one); among dynamic patterns those with a literal first segment come first; inside each group the
    earliest registered route whose pattern matches wins -/
def specSelect (rs : List RouteM) (m q : Bytes) : Option (RouteM × Params) :=
  match (rs.filter (isStaticFor m q)).getLast? with
  | some r => some (r, [])
  | none =>
    match firstMatch (rs.filter (isRegularFor m)) q false with
    | some x => some x
    | none => firstMatch (rs.filter (isIrregularFor m)) q false

/-- one route definition as given to `Router.Add` -/
structure RouteDef where
  id : Nat
  name : Bytes
  methods : List Bytes
  path : Bytes
  nilHandler : Bool
  /-- the global path variables in force when this definition is registered (`rux.SetGlobalVar` may be
      called between two registrations); default: the map of the source text -/
  gvars : GVars := Facts.globalVarsB

/-- register a list of definitions in order; `none` as soon as one is rejected or unsupported -/
def registerAll (rt : RouterM) : List RouteDef → Option (RouterM × List RouteM)
  | [] => some (rt, [])
  | d :: ds =>
    match register d.gvars rt d.id d.name d.methods d.path d.nilHandler with
    | .ok rt' route =>
      match registerAll rt' ds with
      | some (rt'', rs) => some (rt'', route :: rs)
      | none => none
    | _ => none


end Rux
