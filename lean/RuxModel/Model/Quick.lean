import RuxModel.Model.Table
/-
  The stateless specification of `Router.QuickMatch`: the fallback order of C06 stated outright,
  in terms of the pure lookup only (no cache, no mutation).
  Core Lean only.
-/
namespace Rux

/-- what a caller of `QuickMatch` / `ServeHTTP` can observe of the result -/
inductive Obs where
  | route (r : RouteM) (ps : Params)
  | allowed (ms : List Bytes)
  | notFound

def MatchResult.obs : MatchResult → Obs
  | .route r ps _ => .route r ps
  | .fallback r => .route r []
  | .allowed ms => .allowed ms
  | .notFound => .notFound

/-- the other supported methods under which the path matches, in source order -/
def allowedPure (rt : RouterM) (method path : Bytes) : List Bytes :=
  anyMethodsB.filter fun m => !(decide (m = method)) && (lookupPure rt m path).isSome

def tailPure (rt : RouterM) (method path : Bytes) : Obs :=
  match (if rt.opts.fallback then alistGet rt.stable (method ++ slashStar) else none) with
  | some r => .route r []
  | none =>
    if rt.opts.notAllowed then
      if (allowedPure rt method path).isEmpty then .notFound else .allowed (allowedPure rt method path)
    else .notFound

def headPure (rt : RouterM) (method path : Bytes) : Obs :=
  if method = methodHEAD then
    match lookupPure rt methodGET path with
    | some (r, ps) => .route r ps
    | none => tailPure rt method path
  else tailPure rt method path

/-- C06, stated outright: direct match; else (for HEAD) the matching GET route; else the `/*` route of the
    method when fallback handling is on; else the other methods that match when method-not-allowed
    handling is on; else not found.  With `InterceptAll(p)` the path looked up is `p` whatever was
    requested. -/
def quickPure (rt : RouterM) (method path0 : Bytes) : Obs :=
  let path := fmtPath rt.opts.strict (if rt.opts.intercept.isEmpty then path0 else rt.opts.intercept)
  match lookupPure rt method path with
  | some (r, ps) => .route r ps
  | none => headPure rt method path

/-- the canonical reading of a cache / table key: method = the bytes before the first '/' -/
def splitKey (k : Bytes) : Bytes × Bytes := (k.takeWhile (· ≠ 0x2F), k.dropWhile (· ≠ 0x2F))

/-- what a cache entry under key `k` must hold: the dynamic match of the (method, path) the key stands for,
    provided no static route has that key -/
def dynK (rt : RouterM) (k : Bytes) : Option (RouteM × Params) :=
  if (alistGet rt.stable k).isSome then none else dynMatch rt (splitKey k).1 (splitKey k).2

/-! ### from the observation to the response (dispatch.go: handleHTTPRequest, internal404/405Handler) -/

def bytesLt : Bytes → Bytes → Bool
  | [], [] => false
  | [], _ :: _ => true
  | _ :: _, [] => false
  | a :: s, b :: t => if a < b then true else if a > b then false else bytesLt s t

def insertSorted (x : Bytes) : List Bytes → List Bytes
  | [] => [x]
  | y :: t => if bytesLt y x then y :: insertSorted x t else x :: y :: t

/-- `sort.Strings` -/
def sortBytes (l : List Bytes) : List Bytes := l.foldr insertSorted []

inductive Chain where
  | route (r : RouteM) (ps : Params)     -- global middleware ++ route middleware ++ main handler
  | notAllowed (allow : List Bytes)      -- global middleware ++ NotAllowed handlers, CTXAllowedMethods = allow
  | notFound                             -- global middleware ++ NotFound handlers

/-- which handler chain `handleHTTPRequest` runs -/
def chainOf : Obs → Chain
  | .route r ps => .route r ps
  | .allowed ms => .notAllowed ms
  | .notFound => .notFound

def methodOPTIONS : Bytes := [79, 80, 84, 73, 79, 78, 83]

/-- the default handlers: (status, Allow header, body kind) -/
inductive DefaultResp where
  | status404
  | status405 (allow : Bytes)
  | options200 (allow : Bytes)
  deriving DecidableEq

def defaultResp (method : Bytes) : Chain → Option DefaultResp
  | .route _ _ => none
  | .notFound => some .status404
  | .notAllowed ms =>
    let allow := Bytes.join [0x2C, 0x20] (sortBytes ms)
    if method = methodOPTIONS then some (.options200 allow) else some (.status405 allow)

end Rux
