import RuxModel.Go.Bytes
/-
  Model of request-data binding (C18): `/repo/pkg/binding/*.go`, `/repo/context_binding.go`.

  What is modelled, following the CODE (not what it "should" do):

  * `binding.Auto` (binding.go): the method test `method != "POST" && method != "PUT" && method != "PATCH"`
    (exact, case-sensitive byte comparison), then four `strings.Contains(cType, marker)` tests on the RAW
    `Content-Type` header value IN THIS ORDER: "/x-www-form-urlencoded", "/form-data", "/json", "/xml";
    anything else is the error "cannot auto binding request data".                     → `autoSource`
  * what each branch reads:
      query      `r.URL.Query()`  (= `url.ParseQuery(RawQuery)` with the error dropped)
      form       `r.ParseForm()` (error returned), then `r.PostForm` — the BODY only, never the query string;
                 `ParseForm` fails when the BODY *or the URL query* is malformed, or the header does not parse
      multipart  `r.ParseMultipartForm(DefaultMaxMemory)` (error returned), then `r.PostForm`
      json/xml   `r.Body` through `encoding/json` / `encoding/xml`
  * every decoder ends in `binding.Validate(ptr)`, which is the identity when `binding.Validator == nil`
    (`DisableValidator()`) and `Validator.Validate(ptr)` otherwise.      → `decodeUrlValues`, `bindJSON`, `bindXML`
  * the single binders `Form.Bind` (reads `r.Form` = PostForm merged with the URL query), `Query.Bind`,
    `Header.Bind`, `JSON.Bind`, `XML.Bind`; the `Context` shortcuts are these functions applied to `c.Req`
    (`Bind` = `AutoBind` = `Auto`; `ShouldBind b` = `b.Bind`; `MustBind b` panics with the error of `b.Bind`;
    `BindForm/BindJSON/BindXML`).
  * `net/url`: `QueryEscape`, `QueryUnescape`, `ParseQuery`, `Values.Encode` (percent-encoding codec).

  PARAMETERS (third-party / stdlib code that is NOT modelled; contracts are only sampled by the `bind` engine):
  `formam` (`decodeValues`), `encoding/json` (`decodeJSON`), `encoding/xml` (`decodeXML`), the validator
  (`validator`), `mime.ParseMediaType` (`mclass`), `mime/multipart` (`multipartValues`).
  Assumption: the request has not been parsed before (`r.Form`, `r.PostForm`, `r.MultipartForm` are nil) and
  `r.Body` is non-nil (net/http guarantees this for server requests: a request without a body arrives with
  `r.Body == http.NoBody`).  No function of the package looks at the dynamic type of `r.Body`, compares it
  with `http.NoBody` or reads `Content-Length`: the body is an `io.Reader`, its BYTES are all that counts
  (`BodyCarrier.content`).  In particular a POST/PUT/PATCH without a body is still bound from the source its
  Content-Type names (empty JSON/XML text = decoder error, empty form), never from the URL query.

  Core Lean only — this file is linked into the driver executable.
-/
namespace Rux.Bind
open Rux

/-! ### `strings.Contains` -/

/-- `strings.Contains(s, sub)` on bytes -/
def containsSub (sub : Bytes) : Bytes → Bool
  | [] => sub.isEmpty
  | b :: t => Bytes.hasPrefix (b :: t) sub || containsSub sub t

/-! ### source selection of `binding.Auto` -/

inductive Source where
  | query | form | multipart | json | xml | unsupported
  deriving DecidableEq, Repr

def mPOST : Bytes := [0x50, 0x4F, 0x53, 0x54]
def mPUT : Bytes := [0x50, 0x55, 0x54]
def mPATCH : Bytes := [0x50, 0x41, 0x54, 0x43, 0x48]

/-- "/x-www-form-urlencoded" -/
def markUrlenc : Bytes :=
  [0x2F, 0x78, 0x2D, 0x77, 0x77, 0x77, 0x2D, 0x66, 0x6F, 0x72, 0x6D, 0x2D, 0x75, 0x72, 0x6C, 0x65, 0x6E,
   0x63, 0x6F, 0x64, 0x65, 0x64]
/-- "/form-data" -/
def markFormData : Bytes := [0x2F, 0x66, 0x6F, 0x72, 0x6D, 0x2D, 0x64, 0x61, 0x74, 0x61]
/-- "/json" -/
def markJson : Bytes := [0x2F, 0x6A, 0x73, 0x6F, 0x6E]
/-- "/xml" -/
def markXml : Bytes := [0x2F, 0x78, 0x6D, 0x6C]

/-- the four markers in the order `Auto` tests them -/
def markers : List Bytes := [markUrlenc, markFormData, markJson, markXml]

#guard mPOST == Bytes.ofString "POST" && mPUT == Bytes.ofString "PUT" && mPATCH == Bytes.ofString "PATCH"
#guard markUrlenc == Bytes.ofString "/x-www-form-urlencoded" && markFormData == Bytes.ofString "/form-data"
#guard markJson == Bytes.ofString "/json" && markXml == Bytes.ofString "/xml"

/-- the negation of `method != "POST" && method != "PUT" && method != "PATCH"` -/
def bodyMethod (m : Bytes) : Bool := m == mPOST || m == mPUT || m == mPATCH

/-- which source `binding.Auto` reads for this method and this raw `Content-Type` value -/
def autoSource (method ctype : Bytes) : Source :=
  if !bodyMethod method then .query
  else if containsSub markUrlenc ctype then .form
  else if containsSub markFormData ctype then .multipart
  else if containsSub markJson ctype then .json
  else if containsSub markXml ctype then .xml
  else .unsupported

/-! ### percent-encoding (`net/url`, mode `encodeQueryComponent`) -/

/-- bytes `QueryEscape` leaves alone: `a-z A-Z 0-9 - _ . ~` -/
def unreserved (b : Nat) : Bool :=
  (0x30 ≤ b && b ≤ 0x39) || (0x41 ≤ b && b ≤ 0x5A) || (0x61 ≤ b && b ≤ 0x7A) ||
  b = 0x2D || b = 0x5F || b = 0x2E || b = 0x7E

/-- "0123456789ABCDEF"[n] -/
def upperHex (n : Nat) : Nat := if n < 10 then 0x30 + n else 0x37 + n

/-- `url.QueryEscape` on one byte -/
def escapeByte (b : Nat) : Bytes :=
  if unreserved b then [b]
  else if b = 0x20 then [0x2B]
  else [0x25, upperHex ((b / 16) % 16), upperHex (b % 16)]

/-- `url.QueryEscape` -/
def escape (s : Bytes) : Bytes := s.flatMap escapeByte

/-- `unhex` of net/url (`none` where `ishex` is false) -/
def unhex (c : Nat) : Option Nat :=
  if 0x30 ≤ c ∧ c ≤ 0x39 then some (c - 0x30)
  else if 0x61 ≤ c ∧ c ≤ 0x66 then some (c - 0x61 + 10)
  else if 0x41 ≤ c ∧ c ≤ 0x46 then some (c - 0x41 + 10)
  else none

/-- `url.QueryUnescape`; `none` = `EscapeError` (a `%` not followed by two hex digits, anywhere) -/
def unescape : Bytes → Option Bytes
  | [] => some []
  | c :: t =>
    if c = 0x25 then
      match t with
      | a :: b :: t' =>
        match unhex a, unhex b with
        | some x, some y => (unescape t').map (fun r => (x * 16 + y) :: r)
        | _, _ => none
      | _ => none
    else if c = 0x2B then (unescape t).map (fun r => 0x20 :: r)
    else (unescape t).map (fun r => c :: r)

/-! ### `url.Values`, `url.ParseQuery`, `Values.Encode` -/

/-- `url.Values` = `map[string][]string` as an association list with distinct keys -/
abbrev Vals := List (Bytes × List Bytes)

/-- `m[k]` (nil when absent) -/
def valsGet (m : Vals) (k : Bytes) : List Bytes := (m.lookup k).getD []

/-- `m[k] = append(m[k], v)` -/
def valsAdd : Vals → Bytes → Bytes → Vals
  | [], k, v => [(k, [v])]
  | (k', vs) :: t, k, v => if k' = k then (k', vs ++ [v]) :: t else (k', vs) :: valsAdd t k v

def valsOfPairs (ps : List (Bytes × Bytes)) : Vals := ps.foldl (fun m p => valsAdd m p.1 p.2) []

/-- `strings.Cut(s, string(c))`: text before and after the first `c` (`(s, [])` when there is none) -/
def cutByte (c : Nat) : Bytes → Bytes × Bytes
  | [] => ([], [])
  | b :: t => if b = c then ([], t) else let r := cutByte c t; (b :: r.1, r.2)

/-- one `&`-separated piece of a query: `none` = skipped silently (empty), `some none` = skipped with an
    error (contains `;`, or a bad escape in key or value), `some (some (k, v))` = a pair -/
def parseSeg (seg : Bytes) : Option (Option (Bytes × Bytes)) :=
  if seg.contains 0x3B then some none
  else if seg.isEmpty then none
  else
    let kv := cutByte 0x3D seg
    match unescape kv.1, unescape kv.2 with
    | some k, some v => some (some (k, v))
    | _, _ => some none

/-- the pairs of a query string in order, and whether `ParseQuery` reports an error -/
def parseSegs : List Bytes → List (Bytes × Bytes) × Bool
  | [] => ([], false)
  | seg :: rest =>
    let r := parseSegs rest
    match parseSeg seg with
    | none => r
    | some none => (r.1, true)
    | some (some p) => (p :: r.1, r.2)

def parsePairs (q : Bytes) : List (Bytes × Bytes) × Bool := parseSegs (Bytes.splitOnByte 0x26 q)

/-- `url.ParseQuery`: the values that were parsed (bad pieces are skipped) and whether an error is returned -/
def parseQuery (q : Bytes) : Vals × Bool :=
  let r := parsePairs q
  (valsOfPairs r.1, r.2)

/-- `k1=v1&k2=v2…` with both sides escaped (what `Values.Encode` writes for a sequence of pairs) -/
def encodePairs (ps : List (Bytes × Bytes)) : Bytes :=
  Bytes.join [0x26] (ps.map fun p => escape p.1 ++ [0x3D] ++ escape p.2)

/-- byte-wise lexicographic `≤` (Go string comparison) -/
def lexLe : Bytes → Bytes → Bool
  | [], _ => true
  | _ :: _, [] => false
  | a :: s, b :: t => if a < b then true else if b < a then false else lexLe s t

def insertEntry (e : Bytes × List Bytes) : Vals → Vals
  | [] => [e]
  | x :: t => if lexLe e.1 x.1 then e :: x :: t else x :: insertEntry e t

/-- the entries in the order `Values.Encode` visits them (`slices.Sort(keys)`; insertion sort, so that it is
    structurally recursive) -/
def sortVals (m : Vals) : Vals := m.foldr insertEntry []

def flattenVals (m : Vals) : List (Bytes × Bytes) := m.flatMap fun e => e.2.map fun v => (e.1, v)

/-- `url.Values.Encode` -/
def encode (m : Vals) : Bytes := encodePairs (flattenVals (sortVals m))

/-- `copyValues(dst, src)` of net/http: `dst[k] = append(dst[k], vs...)` -/
def mergeVals (dst src : Vals) : Vals :=
  src.foldl (fun m e => e.2.foldl (fun m v => valsAdd m e.1 v) m) dst

/-! ### the decode-then-validate pipeline, codecs as parameters -/

/-- struct tag a `url.Values` decoder is run with (`FormTagName`, `QueryTagName`, `HeaderTagName`) -/
inductive Tag where
  | form | query | header
  deriving DecidableEq, Repr

/-- errors of the rux/net-http part; `codec` carries the error of a parameter (decoder or validator) -/
inductive BErr (ε : Type) where
  | badQuery          -- url.ParseQuery error surfaced by ParseForm (bad escape, `;`) — body or URL query
  | mime              -- mime.ParseMediaType error surfaced by ParseForm
  | notMultipart      -- http.ErrNotMultipart
  | missingBoundary   -- http.ErrMissingBoundary
  | noBinder          -- "cannot auto binding request data, content-type: …"
  | codec (e : ε)
  deriving DecidableEq, Repr

/-- third-party code as parameters -/
structure Codecs (Val ε : Type) where
  /-- `formam.NewDecoder(TagName: tag).Decode(values, ptr)` -/
  decodeValues : Tag → Vals → Except ε Val
  /-- `json.NewDecoder(body).Decode(ptr)` -/
  decodeJSON : Bytes → Except ε Val
  /-- `xml.NewDecoder(body).Decode(ptr)` -/
  decodeXML : Bytes → Except ε Val
  /-- `binding.Validator`: `none` after `DisableValidator()` -/
  validator : Option (Val → Except ε Unit)

/-- what `mime.ParseMediaType(Content-Type or "application/octet-stream")` says (net/http parameter) -/
inductive MediaClass where
  | urlenc               -- no error, media type "application/x-www-form-urlencoded"
  | multipart            -- no error, "multipart/form-data" with a boundary parameter
  | multipartNoBoundary  -- no error, "multipart/form-data" without boundary
  | other                -- no error, any other media type
  | bad                  -- ParseMediaType returned an error
  deriving DecidableEq, Repr

/-- how `r.Body` delivers the body to a handler -/
inductive BodyCarrier where
  /-- any `io.ReadCloser` that yields `content` and then `io.EOF` -/
  | reader (content : Bytes)
  /-- `http.NoBody` (server: `Content-Length: 0` / no body; client: `NewRequest(m, url, nil)` or an empty reader) -/
  | noBody
  deriving DecidableEq, Repr

/-- what binding reads from `r.Body` -/
def BodyCarrier.content : BodyCarrier → Bytes
  | .reader b => b
  | .noBody => []

structure Request (ε : Type) where
  method : Bytes
  /-- `r.Header.Get("Content-Type")` -/
  ctype : Bytes
  /-- `r.URL.RawQuery` -/
  rawQuery : Bytes
  body : Bytes
  /-- `r.Header` as a map (including Content-Type when set) -/
  header : Vals
  mclass : MediaClass
  /-- `multipart.Reader.ReadForm(body).Value`, or its error (parameter) -/
  multipartValues : Except ε Vals

variable {Val ε : Type}

/-- `binding.Validate(ptr)` -/
def validate (c : Codecs Val ε) (v : Val) : Except (BErr ε) Val :=
  match c.validator with
  | none => .ok v
  | some f =>
    match f v with
    | .ok _ => .ok v
    | .error e => .error (.codec e)

/-- `binding.DecodeUrlValues(values, ptr, tag)` -/
def decodeUrlValues (c : Codecs Val ε) (tag : Tag) (vals : Vals) : Except (BErr ε) Val :=
  match c.decodeValues tag vals with
  | .error e => .error (.codec e)
  | .ok v => validate c v

/-- `decodeJSON(r.Body, ptr)` -/
def bindJSON (c : Codecs Val ε) (body : Bytes) : Except (BErr ε) Val :=
  match c.decodeJSON body with
  | .error e => .error (.codec e)
  | .ok v => validate c v

/-- `decodeXML(r.Body, ptr)` -/
def bindXML (c : Codecs Val ε) (body : Bytes) : Except (BErr ε) Val :=
  match c.decodeXML body with
  | .error e => .error (.codec e)
  | .ok v => validate c v

/-- `r.URL.Query()` -/
def urlQuery (r : Request ε) : Vals := (parseQuery r.rawQuery).1

/-- the result of `r.ParseForm()` on a fresh request -/
structure Parsed (ε : Type) where
  postForm : Vals
  form : Vals
  err : Option (BErr ε)

/-- `net/http.(*Request).ParseForm` (with `parsePostForm`) -/
def parseForm (r : Request ε) : Parsed ε :=
  let post : Vals × Option (BErr ε) :=
    if bodyMethod r.method then
      match r.mclass with
      | .urlenc => let p := parseQuery r.body; (p.1, if p.2 then some .badQuery else none)
      | .bad => ([], some .mime)
      | _ => ([], none)
    else ([], none)
  let q := parseQuery r.rawQuery
  let err := match post.2 with
    | some e => some e
    | none => if q.2 then some .badQuery else none
  { postForm := post.1, form := mergeVals post.1 q.1, err := err }

/-- `r.PostForm` after `r.ParseMultipartForm(DefaultMaxMemory)`, or the error it returns -/
def parseMultipart (r : Request ε) : Except (BErr ε) Vals :=
  let p := parseForm r
  if r.ctype.isEmpty then .error .notMultipart
  else match r.mclass with
    | .multipart =>
      match r.multipartValues with
      | .error e => .error (.codec e)
      | .ok mv =>
        match p.err with
        | some e => .error e
        | none => .ok (mergeVals p.postForm mv)
    | .multipartNoBoundary => .error .missingBoundary
    | _ => .error .notMultipart

/-- `binding.Auto(r, ptr)` = `binding.Bind` = `Context.Bind` = `Context.AutoBind` -/
def auto (c : Codecs Val ε) (r : Request ε) : Except (BErr ε) Val :=
  match autoSource r.method r.ctype with
  | .query => decodeUrlValues c .query (urlQuery r)
  | .form =>
    let p := parseForm r
    match p.err with
    | some e => .error e
    | none => decodeUrlValues c .form p.postForm
  | .multipart =>
    match parseMultipart r with
    | .error e => .error e
    | .ok post => decodeUrlValues c .form post
  | .json => bindJSON c r.body
  | .xml => bindXML c r.body
  | .unsupported => .error .noBinder

/-- `binding.Form.Bind(r, ptr)` = `Context.BindForm`: reads `r.Form` (body AND query) -/
def formBind (c : Codecs Val ε) (r : Request ε) : Except (BErr ε) Val :=
  let p := parseForm r
  match p.err with
  | some e => .error e
  | none => decodeUrlValues c .form p.form

/-- `binding.Query.Bind` -/
def queryBind (c : Codecs Val ε) (r : Request ε) : Except (BErr ε) Val :=
  decodeUrlValues c .query (urlQuery r)

/-- `binding.Header.Bind` -/
def headerBind (c : Codecs Val ε) (r : Request ε) : Except (BErr ε) Val :=
  decodeUrlValues c .header r.header

/-- the entry points of the package and of `Context` (`MustBind` variants return the same `Except`;
    its `.error e` stands for `panic(e)`) -/
inductive Api where
  | auto | form | query | header | json | xml
  deriving DecidableEq, Repr

def bindWith (c : Codecs Val ε) (r : Request ε) : Api → Except (BErr ε) Val
  | .auto => auto c r
  | .form => formBind c r
  | .query => queryBind c r
  | .header => headerBind c r
  | .json => bindJSON c r.body
  | .xml => bindXML c r.body

end Rux.Bind
