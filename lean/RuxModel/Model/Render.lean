import RuxModel.Model.Writer
/-
  Model of the response helpers (context_render.go) and of the renderers of pkg/render
  (render.go, json.go, xml.go) on top of the writer model.

  Every helper is its sequence of writer operations plus the Content-Type decision.
  Parameters (not modelled, see the trusted base of C19):
    * the encoders: `Enc` is the result of encoding/json resp. encoding/xml on the value given
      (`ok bytes` without the trailing newline that json.Encoder adds, or `error`);
    * the answers `(accepted, err)` of the underlying writer to the coming writes: `Script`
      (exhausted script = everything is accepted);
    * for Stream: what the io.Reader returns, read by read.

  Core Lean only (linked into the driver).
-/
namespace Rux
namespace Render
open Writer

/-! ### documented content types (goutil/netutil/httpctype) and MIME names -/

def ctText : Bytes := ascii "text/plain; charset=utf-8"
def ctHTML : Bytes := ascii "text/html; charset=utf-8"
def ctJSON : Bytes := ascii "application/json; charset=utf-8"
def ctJSONP : Bytes := ascii "application/javascript; charset=utf-8"
def ctXML : Bytes := ascii "application/xml; charset=utf-8"

def mimeJSON : Bytes := ascii "application/json"
def mimeHTML : Bytes := ascii "text/html"
def mimeText : Bytes := ascii "text/plain"
def mimeXML : Bytes := ascii "application/xml"
def mimeXML2 : Bytes := ascii "text/xml"

/-- encoding/xml `Header` -/
def xmlHeader : Bytes := ascii "<?xml version=\"1.0\" encoding=\"UTF-8\"?>\n"

/-! ### state: the writer, the scripted answers of the underlying writer, `c.Errors` -/

abbrev Script := List (Nat × Bool)

structure St where
  w : W
  script : Script
  errs : Nat              -- len(c.Errors)
  deriving DecidableEq, Repr

def St.fresh (ct : Option Bytes) (script : Script) : St := ⟨W.fresh ct, script, 0⟩

def St.op (s : St) (o : Op) : St := { s with w := step s.w o }

def St.ops (s : St) (os : List Op) : St := { s with w := run s.w os }

/-- result of one `Write` as its caller sees it -/
structure WRes where
  st : St
  err : Bool      -- the underlying writer returned an error
  short : Bool    -- it accepted fewer bytes than given

/-- one `Write(b)` through `responseWriter`; the underlying writer's answer is the next script entry,
    clamped to the io.Writer contract (`n ≤ len b`) -/
def write (s : St) (b : Bytes) : WRes :=
  match s.script with
  | [] => ⟨{ s with w := step s.w (.write b b.length false) }, false, false⟩
  | (acc, err) :: rest =>
    let n := min acc b.length
    ⟨{ s with w := step s.w (.write b n err), script := rest }, err, n < b.length⟩

/-- the encoder's verdict on the value (a parameter) -/
inductive Enc
  | ok (b : Bytes)
  | error
  deriving DecidableEq, Repr

/-! ### pkg/render: every renderer returns an error flag; none of them overrides a Content-Type -/

/-- `render.Blob(w, ct, data)` (Text, Plain, TextBytes, HTML, HTMLBytes are instances) -/
def rBlob (ct : Bytes) (data : Bytes) (s : St) : St × Bool :=
  let s1 := s.op (.setCTIfAbsent ct)
  if data.isEmpty then (s1, false) else
  let r := write s1 data
  (r.st, r.err)

/-- `JSONRenderer.Render`: content type, then json.Encoder.Encode = marshal (may fail, nothing written)
    and ONE Write of the encoding + "\n" whose error is returned (a short write without error is not) -/
def rJSON (e : Enc) (s : St) : St × Bool :=
  let s1 := s.op (.setCTIfAbsent ctJSON)
  match e with
  | .error => (s1, true)
  | .ok b =>
    let r := write s1 (b ++ [10])
    (r.st, r.err)

/-- `JSONPRenderer.Render`: content type, Write(callback + "("), Encode, Write(");") — each step
    returns early on error -/
def rJSONP (cb : Bytes) (e : Enc) (s : St) : St × Bool :=
  let s1 := s.op (.setCTIfAbsent ctJSONP)
  let r1 := write s1 (cb ++ [40])
  if r1.err then (r1.st, true) else
  match e with
  | .error => (r1.st, true)
  | .ok b =>
    let r2 := write r1.st (b ++ [10])
    if r2.err then (r2.st, true) else
    let r3 := write r2.st [41, 59]
    (r3.st, r3.err)

/-- `XMLRenderer.Render`: content type, Write(xml.Header), xml.Encoder.Encode = marshal into a
    bufio.Writer (may fail) and Flush: ONE Write of the encoding when it is non-empty (encodings below
    the 4096-byte buffer), error OR short write reported -/
def rXML (e : Enc) (s : St) : St × Bool :=
  let s1 := s.op (.setCTIfAbsent ctXML)
  let r1 := write s1 xmlHeader
  if r1.err then (r1.st, true) else
  match e with
  | .error => (r1.st, true)
  | .ok b =>
    if b.isEmpty then (r1.st, false) else
    let r2 := write r1.st b
    (r2.st, r2.err || r2.short)

/-- `ViewRenderer.Render` -/
def rView (s : St) : St × Bool := (s.op (.setCTIfAbsent ctHTML), false)

/-! #### content negotiation: `render.Auto` -/

/-- `httpreq.ParseAccept`: split at ',', cut at the first ';', trim, drop empty entries -/
def parseAccept (h : Bytes) : List Bytes :=
  if h.isEmpty then [] else
  (Bytes.splitOnByte 44 h).filterMap fun part =>
    let p := Bytes.trimSpace ((Bytes.splitOnByte 59 part).headD [])
    if p.isEmpty then none else some p

inductive Kind | json | html | text | xml
  deriving DecidableEq, Repr

/-- the `switch accept` of `Auto` -/
def kindOf (t : Bytes) : Option Kind :=
  if t = mimeJSON then some .json
  else if t = mimeHTML then some .html
  else if t = mimeText then some .text
  else if t = mimeXML ∨ t = mimeXML2 then some .xml
  else none

/-- dynamic type of the value as `responseText` distinguishes it -/
inductive Val
  | str (b : Bytes)
  | bytes (b : Bytes)
  | other
  deriving DecidableEq, Repr

/-- the encoders' verdicts `Auto` may need for one value -/
structure Encs where
  json : Enc      -- json.Encoder (without the trailing newline)
  xml : Enc       -- xml.Encoder
  marshal : Enc   -- json.Marshal (used by responseText for values that are neither string nor []byte)

/-- `responseText` -/
def rText (v : Val) (es : Encs) (s : St) : St × Bool :=
  match v with
  | .str b => rBlob ctText b s
  | .bytes b => rBlob ctText b s
  | .other =>
    match es.marshal with
    | .error => (s, true)
    | .ok b => rBlob ctText b s

def rKind (k : Kind) (v : Val) (es : Encs) (s : St) : St × Bool :=
  match k with
  | .json => rJSON es.json s
  | .html => (s, false)          -- `case MIMEHTML: handled = true` — nothing is rendered
  | .text => rText v es s
  | .xml => rXML es.xml s

/-- the loop of `Auto`: the first listed type with a case in the switch is rendered, the rest is
    not looked at; `none` = "not supported Accept type" -/
def autoLoop (v : Val) (es : Encs) (s : St) : List Bytes → Option (St × Bool)
  | [] => none
  | t :: rest =>
    match kindOf t with
    | some k => some (rKind k v es s)
    | none => autoLoop v es s rest

/-- `render.Auto(w, r, obj)` with `accept` = the request's Accept header -/
def rAuto (accept : Bytes) (v : Val) (es : Encs) (s : St) : St × Bool :=
  let accepts := parseAccept accept
  let accepts := if accepts.isEmpty then [mimeText] else accepts
  match autoLoop v es s accepts with
  | some r => r
  | none => (s, true)

/-! ### context_render.go -/

/-- outcome of a Context helper -/
structure Res where
  st : St
  panicked : Bool

/-- `c.Respond(status, obj, renderer)`: SetStatus, render, AddError on error -/
def respond (status : Int) (r : St → St × Bool) (s : St) : Res :=
  let s1 := s.op (.setStatus status)
  let (s2, err) := r s1
  ⟨if err then { s2 with errs := s2.errs + 1 } else s2, false⟩

/-- `c.ShouldRender(status, obj, renderer)`: the error is returned instead -/
def shouldRender (status : Int) (r : St → St × Bool) (s : St) : St × Bool :=
  r (s.op (.setStatus status))

/-- `c.Blob(status, ct, data)`: WriteHeader, Header().Set (overrides!), WriteBytes when non-empty
    (panics when the underlying writer fails).  Text, HTML, HTMLString, JSONBytes are instances. -/
def blob (status : Int) (ct : Bytes) (data : Bytes) (s : St) : Res :=
  let s1 := (s.op (.setStatus status)).op (.setCT ct)
  if data.isEmpty then ⟨s1, false⟩ else
  let r := write s1 data
  ⟨r.st, r.err⟩

def text (status : Int) (data : Bytes) : St → Res := blob status ctText data
def html (status : Int) (data : Bytes) : St → Res := blob status ctHTML data
def jsonBytes (status : Int) (data : Bytes) : St → Res := blob status ctJSON data

def json (status : Int) (e : Enc) : St → Res := respond status (rJSON e)
def jsonp (status : Int) (cb : Bytes) (e : Enc) : St → Res := respond status (rJSONP cb e)
def xml (status : Int) (e : Enc) : St → Res := respond status (rXML e)

/-- `c.NoContent()` -/
def noContent (s : St) : Res := ⟨s.op (.setStatus 204), false⟩

/-- what one `Read` of the stream's reader returns besides the data -/
inductive RErr | none | eof | fail
  deriving DecidableEq, Repr

/-- `io.Copy(c.Resp, r)` (neither side has ReadFrom/WriteTo): every non-empty read is written at once;
    a failing or short write stops with an error; `io.EOF` stops without; any other read error stops
    with it; a reader that has nothing more to say answers `(0, io.EOF)` -/
def copy : List (Bytes × RErr) → St → St × Bool
  | [], s => (s, false)
  | (d, re) :: rest, s =>
    let r : WRes := if d.isEmpty then ⟨s, false, false⟩ else write s d
    if r.err || r.short then (r.st, true) else
    match re with
    | .eof => (r.st, false)
    | .fail => (r.st, true)
    | .none => copy rest r.st

/-- `c.Stream(status, ct, reader)` -/
def stream (status : Int) (ct : Bytes) (reads : List (Bytes × RErr)) (s : St) : Res :=
  let s1 := (s.op (.setStatus status)).op (.setCT ct)
  let (s2, err) := copy reads s1
  ⟨if err then { s2 with errs := s2.errs + 1 } else s2, false⟩

/-- the underlying writer's answer to a coming write of `n` bytes -/
def scriptHead (sc : Script) (n : Nat) : Nat × Bool :=
  match sc with
  | [] => (n, false)
  | (acc, err) :: _ => (min acc n, err)

/-- run the writer operations of a net/http helper; its (at most one) write consumes a script entry -/
def viaOps (ops : List Op) (s : St) : Res :=
  let wrote := ops.any fun o => match o with | .write _ _ _ => true | _ => false
  ⟨{ s with w := run s.w ops, script := if wrote then s.script.tail else s.script }, false⟩

/-- `c.Redirect(url[, code])` (net/http.Redirect; `body` = its HTML text, a parameter) -/
def redirect (m : Meth) (code : Option Int) (body : Bytes) (s : St) : Res :=
  let (acc, err) := scriptHead s.script body.length
  viaOps (actOps m s.w.ctype (.redirect code body acc err)) s

/-- `c.HTTPError(msg, code)` (net/http.Error) -/
def httpError (code : Int) (msg : Bytes) (s : St) : Res :=
  let (acc, err) := scriptHead s.script (msg ++ [10]).length
  viaOps (actOps .get s.w.ctype (.httpError code msg acc err)) s

/-- the end of the request: the header commit of dispatch -/
def St.finish (s : St) : W := ensure s.w

end Render
end Rux
