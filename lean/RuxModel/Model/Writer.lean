import RuxModel.Go.Bytes
/-
  Model of rux's `responseWriter` (response_wirter.go), of the helpers that drive it
  (context.go: SetStatus, SetHeader, WriteBytes, AbortWithStatus; context_render.go: HTTPError, Redirect;
  net/http: Error, Redirect) and of the commit points of dispatch.go (end of `handleHTTPRequest`,
  the `OnPanic` path, `OnError`).

  The underlying `http.ResponseWriter` is an event log.  What the underlying writer answers to a
  `Write` (accepted byte count, error or not) is an INPUT of the write operation — short writes and
  failing writes are ordinary values of that input.

  Core Lean only (linked into the driver).
-/
namespace Rux
namespace Writer

/-- ASCII literal as bytes (reduces by `decide`/`rfl`, unlike `String.toUTF8`). -/
def ascii (s : String) : Bytes := s.toList.map Char.toNat

/-! ### the underlying writer: an event log -/

/-- calls received by the underlying `http.ResponseWriter` -/
inductive Ev
  | wh (code : Int)                           -- WriteHeader(code)
  | w (b : Bytes) (acc : Nat) (err : Bool)    -- Write(b) answered (acc, err)
  | fl                                        -- Flush()
  deriving DecidableEq, Repr

def Ev.isWH : Ev → Bool
  | .wh _ => true
  | _ => false

/-- the bytes of the body the client gets from one event: the accepted prefix of a write -/
def Ev.body : Ev → Bytes
  | .w b acc _ => b.take acc
  | _ => []

/-- `responseWriter` + the part of the underlying writer the model needs -/
structure W where
  status : Int            -- responseWriter.status
  length : Int            -- responseWriter.length, -1 = noWritten
  ctype : Option Bytes    -- underlying Header()["Content-Type"] (none = key absent)
  sent : Option (Option Bytes)  -- the Content-Type at the moment WriteHeader reached the underlying
                                -- writer (what net/http puts on the wire); none = nothing committed yet
  log : List Ev           -- calls the underlying writer has received so far
  deriving DecidableEq, Repr

/-- `reset(w2)`: state at the beginning of a request; `ct` = a Content-Type that is already present on
    the underlying writer (set by an outer http.Handler). -/
def W.fresh (ct : Option Bytes) : W := ⟨0, -1, ct, none, []⟩

/-- `Written()` -/
def W.written (w : W) : Bool := w.length != -1

/-- `ensureWriteHeader()` -/
def ensure (w : W) : W :=
  if w.length = -1 then
    let st := if w.status = 0 then 200 else w.status
    { w with status := st, length := 0, sent := some w.ctype, log := w.log ++ [.wh st] }
  else w

/-- operations that reach the writer -/
inductive Op
  | setStatus (c : Int)                          -- responseWriter.WriteHeader(c)  (= c.SetStatus(c))
  | setCT (v : Bytes)                            -- Header().Set("Content-Type", v)
  | setCTIfAbsent (v : Bytes)                    -- pkg/render writeContentType(w, v)
  | setHeader                                    -- any other header: does not touch the writer state
  | write (b : Bytes) (acc : Nat) (err : Bool)   -- responseWriter.Write(b); underlying answers (acc, err)
  | flush                                        -- responseWriter.Flush()
  deriving DecidableEq, Repr

def step (w : W) : Op → W
  | .setStatus c => if c > 0 ∧ w.status ≠ c then { w with status := c } else w
  | .setCT v => { w with ctype := some v }
  | .setCTIfAbsent v => match w.ctype with
      | some _ => w
      | none => { w with ctype := some v }
  | .setHeader => w
  | .write b acc err =>
      let w' := ensure w
      { w' with length := w'.length + acc, log := w'.log ++ [.w b acc err] }
  | .flush =>
      let w' := ensure w
      { w' with log := w'.log ++ [.fl] }

def run (w : W) (ops : List Op) : W := ops.foldl step w

/-- a whole request seen from the writer: fresh writer, the operations, the commit at the end of dispatch -/
def finish (ct : Option Bytes) (ops : List Op) : W := ensure (run (W.fresh ct) ops)

/-- the body the client receives: accepted prefixes, in order -/
def bodyOf (log : List Ev) : Bytes := log.flatMap Ev.body

/-! ### helpers: each one is a sequence of writer operations -/

inductive Meth | get | head | other
  deriving DecidableEq, Repr

def ctTextPlain : Bytes := ascii "text/plain; charset=utf-8"
def ctTextHtml : Bytes := ascii "text/html; charset=utf-8"

/-- net/http `Error(w, msg, code)`: Del Content-Length, Set Content-Type, Set X-Content-Type-Options,
    WriteHeader(code), one `Write(msg + "\n")` (fmt.Fprintln) whose result is ignored. -/
def httpErrorOps (code : Int) (msg : Bytes) (acc : Nat) (err : Bool) : List Op :=
  [.setHeader, .setCT ctTextPlain, .setHeader, .setStatus code, .write (msg ++ [10]) acc err]

/-- net/http `Redirect(w, r, url, code)`: `hadCT` is read first; Location; Content-Type for GET/HEAD when
    none was there; WriteHeader(code); the little HTML body (a parameter: it is net/http's text) for GET
    when no Content-Type was there. -/
def redirectOps (m : Meth) (hadCT : Bool) (code : Int) (body : Bytes) (acc : Nat) (err : Bool) : List Op :=
  [.setHeader] ++
  (if !hadCT && (m == .get || m == .head) then [.setCT ctTextHtml] else []) ++
  [.setStatus code] ++
  (if !hadCT && m == .get then [.write body acc err] else [])

/-- what a handler (or the OnPanic / OnError handler) can do to the response -/
inductive Act
  | op (o : Op)
  | httpError (code : Int) (msg : Bytes) (acc : Nat) (err : Bool)        -- http.Error / c.HTTPError
  | redirect (code : Option Int) (body : Bytes) (acc : Nat) (err : Bool) -- c.Redirect(url[, code]); default 301
  | writeBytes (b : Bytes) (acc : Nat) (err : Bool)                      -- c.WriteBytes / c.WriteString: panics on error
  | abort (code : Int) (msg : Option (Bytes × Nat × Bool))               -- c.AbortWithStatus(code[, msg])
  | addError                                                             -- c.AddError(non-nil)
  | panic                                                                -- the handler panics
  deriving DecidableEq, Repr

/-- the writer operations an action issues (depends on the request method and on whether a
    Content-Type is present at that moment, because http.Redirect does) -/
def actOps (m : Meth) (ct : Option Bytes) : Act → List Op
  | .op o => [o]
  | .httpError code msg acc err => httpErrorOps code msg acc err
  | .redirect code body acc err => redirectOps m ct.isSome (code.getD 301) body acc err
  | .writeBytes b acc err => [.write b acc err]
  | .abort code none => [.setStatus code]
  | .abort code (some (msg, acc, err)) => httpErrorOps code msg acc err
  | .addError => []
  | .panic => []

/-- does the action end in a Go panic (after its writer operations)? -/
def actPanics : Act → Bool
  | .writeBytes _ _ err => err
  | .panic => true
  | _ => false

def actAborts : Act → Bool
  | .abort _ _ => true
  | _ => false

/-! ### one request through `handleHTTPRequest`

  The chain has `k ≥ 1` handlers; handler `i < k-1` runs its "pre" actions, calls `c.Next()`, runs its
  "post" actions; the last handler has one block only.  In time order the blocks are numbered
  `0 … 2k-2` ("sites"): site `i ≤ k-1` is the pre block of handler `i`, site `2k-2-i` its post block.
  `AbortWithStatus` in the pre block of handler `i` stops every deeper handler: the sites strictly
  between `i` and `2k-2-i` never run (context.go `Next`, `Abort`).
-/

inductive Site
  | chain (i : Nat)   -- a block of the handler chain
  | onError           -- Router.OnError (runs after the chain when Errors is non-empty)
  | onPanic           -- Router.OnPanic (runs when a panic reached handleHTTPRequest)
  deriving DecidableEq, Repr

structure Cfg where
  k : Nat               -- number of handlers in the chain (global + route middleware + main handler)
  meth : Meth
  hasOnPanic : Bool
  hasOnError : Bool
  ct : Option Bytes     -- Content-Type already on the underlying writer when the request starts
  deriving DecidableEq, Repr

structure Req where
  w : W
  skip : Option (Nat × Nat)   -- sites strictly inside (lo, hi) are cut off by an Abort
  errors : Nat                -- len(c.Errors)
  panicked : Bool             -- a panic has unwound the chain (or OnError)
  escaped : Bool              -- the panic left ServeHTTP: no OnPanic, or OnPanic panicked itself
  trace : List Op             -- ghost: every writer operation issued so far, in order
  deriving DecidableEq, Repr

def Req.init (c : Cfg) : Req := ⟨W.fresh c.ct, none, 0, false, false, []⟩

/-- does a block run at all, given what happened before it? -/
def Req.runs (c : Cfg) (r : Req) : Site → Bool
  | .chain i =>
      !r.panicked && !r.escaped &&
      (match r.skip with
       | some (lo, hi) => !(lo < i && i < hi)
       | none => true)
  | .onError => c.hasOnError && !r.panicked && !r.escaped && r.errors > 0
  | .onPanic => c.hasOnPanic && r.panicked && !r.escaped

inductive Ans
  | skipped
  | ok
  | wrote (n : Nat) (err : Bool)
  | panicked
  deriving DecidableEq, Repr

def actAns : Act → Ans
  | .op (.write _ acc err) => .wrote acc err
  | a => if actPanics a then .panicked else .ok

/-- the cut an `AbortWithStatus` in block `s` installs (only the first one matters; a post block or the
    last handler cuts nothing) -/
def Req.newSkip (c : Cfg) (r : Req) (s : Site) (a : Act) : Option (Nat × Nat) :=
  match s, actAborts a, r.skip with
  | .chain i, true, none => if i + 1 < c.k then some (i, 2 * c.k - 2 - i) else none
  | _, _, sk => sk

/-- one action of one block -/
def Req.act (c : Cfg) (r : Req) (s : Site) (a : Act) : Req × Ans :=
  if r.runs c s then
    let ops := actOps c.meth r.w.ctype a
    ({ w := run r.w ops,
       trace := r.trace ++ ops,
       errors := if a = .addError then r.errors + 1 else r.errors,
       skip := r.newSkip c s a,
       -- a panic unwinds the chain; in the OnPanic handler, or without one, it leaves ServeHTTP
       panicked := r.panicked || actPanics a,
       escaped := r.escaped || (actPanics a && (s == .onPanic || !c.hasOnPanic)) },
     actAns a)
  else (r, .skipped)

def Req.acts (c : Cfg) (r : Req) : List (Site × Act) → Req
  | [] => r
  | (s, a) :: rest => Req.acts c (r.act c s a).1 rest

/-- the end of `handleHTTPRequest`: the header commit, unless the panic escaped -/
def Req.finish (r : Req) : W := if r.escaped then r.w else ensure r.w

/-- a whole request: configuration + the actions of its blocks in time order -/
def serve (c : Cfg) (prog : List (Site × Act)) : Req := Req.acts c (Req.init c) prog

end Writer
end Rux
