import RuxModel.Go.Bytes
/-
  Model of the "gates" of rux (property C20):

    §1  `Request.BasicAuth` / `net/http.parseBasicAuth`        (header parser; differential test only)
    §2  `pkg/handlers/middlewares.go: HTTPBasicAuth`            (decision function + the handler's effects)
    §3  `pkg/handlers/handlers.go: HTTPMethodOverrideHandler`   (pure function on method / form / header)
    §4  `dispatch.go: Router.WrapHTTPHandlers`                  (the right-to-left index loop)
    §5  a small handler-chain model: `Context.Next` with the cursor, `Abort`, handlers as action lists;
        `middleware.go: WrapHTTPHandler / WrapHTTPHandlerFunc / WrapH / WrapHF / HTTPHandler /
        HTTPHandlerFunc` are handlers without `next` and without `abort`
    §6  the response a chain trace produces (lazy status, first body write commits)

  Everything mirrors the code as it IS.  Core Lean only (linked into the driver).
-/
namespace Rux.Gates

/-! ### byte-string constants (written as numbers so that `decide` can evaluate them) -/

/-- `"Basic "` -/
def basicPrefix : Bytes := [66, 97, 115, 105, 99, 32]
/-- `"POST"` -/
def POST : Bytes := [80, 79, 83, 84]
/-- `"PUT"` -/
def PUT : Bytes := [80, 85, 84]
/-- `"PATCH"` -/
def PATCH : Bytes := [80, 65, 84, 67, 72]
/-- `"DELETE"` -/
def DELETE : Bytes := [68, 69, 76, 69, 84, 69]
/-- `"username"` -/
def kUsername : Bytes := [117, 115, 101, 114, 110, 97, 109, 101]
/-- `"password"` -/
def kPassword : Bytes := [112, 97, 115, 115, 119, 111, 114, 100]
/-- `"WWW-Authenticate"` -/
def hWWWAuth : Bytes := [87, 87, 87, 45, 65, 117, 116, 104, 101, 110, 116, 105, 99, 97, 116, 101]
/-- ``Basic realm="THE REALM"`` -/
def challenge : Bytes :=
  [66, 97, 115, 105, 99, 32, 114, 101, 97, 108, 109, 61, 34, 84, 72, 69, 32, 82, 69, 65, 76, 77, 34]
/-- `"Unauthorized\n"` (what `http.Error(w, "Unauthorized", 401)` writes) -/
def unauthorizedBody : Bytes := [85, 110, 97, 117, 116, 104, 111, 114, 105, 122, 101, 100, 10]

/-! ## §1  `Request.BasicAuth`

```go
auth := r.Header.Get("Authorization");  if auth == "" { return "", "", false }
const prefix = "Basic "
if len(auth) < len(prefix) || !ascii.EqualFold(auth[:len(prefix)], prefix) { return "", "", false }
c, err := base64.StdEncoding.DecodeString(auth[len(prefix):]);  if err != nil { return … false }
username, password, ok = strings.Cut(string(c), ":")
```
`base64.StdEncoding` (padded, non-strict) skips every `\r` and `\n` of its input. -/

/-- `ascii.lower` -/
def lower (b : Nat) : Nat := if 65 ≤ b ∧ b ≤ 90 then b + 32 else b

/-- `ascii.EqualFold` -/
def equalFold (s t : Bytes) : Bool := s.length = t.length && s.map lower == t.map lower

/-- value of a character of the standard base64 alphabet -/
def b64val (c : Nat) : Option Nat :=
  if 65 ≤ c ∧ c ≤ 90 then some (c - 65)
  else if 97 ≤ c ∧ c ≤ 122 then some (c - 71)
  else if 48 ≤ c ∧ c ≤ 57 then some (c + 4)
  else if c = 43 then some 62
  else if c = 47 then some 63
  else none

/-- character of a 6-bit value -/
def b64chr (v : Nat) : Nat :=
  if v < 26 then v + 65 else if v < 52 then v + 71 else if v < 62 then v - 4 else if v = 62 then 43 else 47

/-- padded standard decoding of a string without line breaks; a final quantum may be `xx==` or `xxx=`,
    its unused low bits are ignored (the encoding is not "strict") -/
def b64decodeCore : List Nat → Option Bytes
  | [] => some []
  | [a, b, 61, 61] =>
    match b64val a, b64val b with
    | some x, some y => some [(x * 4 + y / 16) % 256]
    | _, _ => none
  | [a, b, c, 61] =>
    match b64val a, b64val b, b64val c with
    | some x, some y, some z => some [(x * 4 + y / 16) % 256, ((y % 16) * 16 + z / 4) % 256]
    | _, _, _ => none
  | a :: b :: c :: d :: rest =>
    match b64val a, b64val b, b64val c, b64val d, b64decodeCore rest with
    | some x, some y, some z, some w, some r =>
      some ((x * 4 + y / 16) % 256 :: ((y % 16) * 16 + z / 4) % 256 :: ((z % 4) * 64 + w) % 256 :: r)
    | _, _, _, _, _ => none
  | _ => none

/-- `base64.StdEncoding.DecodeString` (`none` = error) -/
def b64decode (s : Bytes) : Option Bytes :=
  b64decodeCore (s.filter fun c => !(c = 10 || c = 13))

/-- `base64.StdEncoding.EncodeToString` (used by the round-trip theorem and by `SetBasicAuth`) -/
def b64encode : Bytes → Bytes
  | [] => []
  | [a] => [b64chr (a / 4), b64chr ((a % 4) * 16), 61, 61]
  | [a, b] => [b64chr (a / 4), b64chr ((a % 4) * 16 + b / 16), b64chr ((b % 16) * 4), 61]
  | a :: b :: c :: rest =>
    b64chr (a / 4) :: b64chr ((a % 4) * 16 + b / 16) :: b64chr ((b % 16) * 4 + c / 64) :: b64chr (c % 64)
      :: b64encode rest

/-- `strings.Cut(s, ":")` -/
def cutColon (s : Bytes) : Option (Bytes × Bytes) :=
  match Bytes.indexByte s 58 with
  | none => none
  | some i => some (s.take i, s.drop (i + 1))

/-- `parseBasicAuth` -/
def parseBasicAuth (auth : Bytes) : Option (Bytes × Bytes) :=
  if auth.length < basicPrefix.length || !equalFold (auth.take basicPrefix.length) basicPrefix then none
  else
    match b64decode (auth.drop basicPrefix.length) with
    | none => none
    | some c => cutColon c

/-- `Request.BasicAuth`: `none` header = no `Authorization` header (Go's `Header.Get` gives `""`) -/
def requestBasicAuth (hdr : Option Bytes) : Option (Bytes × Bytes) :=
  match hdr with
  | none => none
  | some a => if a = [] then none else parseBasicAuth a

/-- `Request.SetBasicAuth` -/
def setBasicAuth (u p : Bytes) : Bytes := basicPrefix ++ b64encode (u ++ [58] ++ p)

/-! ## §2  `HTTPBasicAuth` -/

/-- `accounts[user]` — the configured map as an association list (first binding of a key counts; the
    harness builds the Go map accordingly) -/
def lookup (u : Bytes) : List (Bytes × Bytes) → Option Bytes
  | [] => none
  | (k, v) :: t => if k = u then some v else lookup u t

inductive AuthOutcome
  | pass
  | deny401 (challenge : Bytes)
  | deny403
  deriving Repr, DecidableEq

/-- the decision of the middleware; `creds` is what `c.Req.BasicAuth()` returned (`none` = `ok == false`) -/
def authDecide (accounts : List (Bytes × Bytes)) : Option (Bytes × Bytes) → AuthOutcome
  | none => .deny401 challenge
  | some (u, p) =>
    if accounts.length > 0 then
      match lookup u accounts with
      | some srcPwd => if srcPwd ≠ p then .deny403 else .pass
      | none => .deny403
    else .pass

/-! ## §3  `HTTPMethodOverrideHandler` -/

/-- `(r.Method, r.FormValue("_method"), r.Header.Get("X-HTTP-Method-Override"))` ↦ the method the inner
    handler sees and the value recorded under `OriginalMethodContextKey` (`none` = nothing recorded).
    `strings.ToUpper` is modelled by ASCII upper-casing: the two agree whenever either result is one of
    `PUT`, `PATCH`, `DELETE` (no non-ASCII rune upper-cases to a letter of these words). -/
def methodOverride (method form hdr : Bytes) : Bytes × Option Bytes :=
  if method = POST then
    let om := form
    let om := if om = [] then hdr else om
    let om := if om ≠ [] then Bytes.toUpper om else om
    if om = PUT ∨ om = PATCH ∨ om = DELETE then (om, some POST) else (method, none)
  else (method, none)

/-- `r.FormValue(key)` for a request that carries the key at most once in an urlencoded body and at most
    once in the query string: `r.Form` lists body values before query values and the first one is returned,
    even when it is empty. -/
def formValue (body query : Option Bytes) : Bytes :=
  match body with
  | some b => b
  | none => query.getD []

/-- how the request body carries the form field (each at most once) -/
inductive FormBody where
  | absent                      -- no body
  | urlenc (v : Bytes)          -- `application/x-www-form-urlencoded` body
  | multipart (v : Bytes)       -- a field of a `multipart/form-data` body (`mime/multipart` is a parameter)
  deriving DecidableEq, Repr

/-- `r.FormValue(key)` over all three carriers of a form field.  `FormValue` runs `ParseMultipartForm`, which
    first runs `ParseForm` (`r.Form` = urlencoded body values, then query values) and then APPENDS the values
    of the multipart form: precedence urlencoded body > query string > multipart body (net/http documents
    exactly this order).  So a multipart field stands behind the query value the way a query value stands
    behind an urlencoded body value. -/
def formValueOf : FormBody → Option Bytes → Bytes
  | .absent, query => formValue none query
  | .urlenc b, query => formValue (some b) query
  | .multipart b, query => formValue query (some b)

/-! ## §4 `Router.WrapHTTPHandlers`

```go
var wrapped http.Handler
max := len(preHandlers);  lst := make([]int, max)
for i := range lst {
    current := max - i - 1
    if i == 0 { wrapped = preHandlers[current](r) } else { wrapped = preHandlers[current](wrapped) }
}
return wrapped
```
`none` is the nil `http.Handler`. -/

def wrapStep {α : Type} (pre : List (α → α)) (r : α) (wrapped : Option α) (i : Nat) : Option α :=
  match pre[pre.length - i - 1]? with
  | none => wrapped                      -- unreachable for i < len (Go would panic: index out of range)
  | some w => if i = 0 then some (w r) else wrapped.map w

def wrapHTTPHandlers {α : Type} (pre : List (α → α)) (r : α) : Option α :=
  (List.range pre.length).foldl (wrapStep pre r) none

/-! ### what generic `http.Handler`s do, as functions from the request to the trace they produce -/

structure Req where
  method : Bytes
  form : Bytes               -- `FormValue("_method")`
  hdr : Bytes                -- `Header.Get("X-HTTP-Method-Override")`
  orig : Option Bytes        -- `Context().Value(OriginalMethodContextKey)`
  deriving Repr, DecidableEq

inductive WEv
  | enter (k : Nat)
  | leave (k : Nat)
  | served (method : Bytes) (orig : Option Bytes)     -- the router ran and saw this request
  deriving Repr, DecidableEq

abbrev HH := Req → List WEv

/-- a wrapper that records entering, calls the inner handler, records leaving -/
def traceW (k : Nat) : HH → HH := fun h r => [WEv.enter k] ++ h r ++ [WEv.leave k]

/-- a wrapper that answers by itself and never calls the inner handler -/
def blockW (k : Nat) : HH → HH := fun _ _ => [WEv.enter k, WEv.leave k]

/-- `HTTPMethodOverrideHandler` as a wrapper -/
def overrideW : HH → HH := fun h r =>
  let res := methodOverride r.method r.form r.hdr
  h { r with method := res.1, orig := match res.2 with | some o => some o | none => r.orig }

/-- the router at the bottom -/
def routerH : HH := fun r => [WEv.served r.method r.orig]

inductive WSpec
  | trace (k : Nat)
  | block (k : Nat)
  | override
  deriving Repr, DecidableEq

def WSpec.toW : WSpec → HH → HH
  | .trace k => traceW k
  | .block k => blockW k
  | .override => overrideW

/-! ## §5  the handler chain

Handlers are action lists.  `Context.Next` (after the fix for F11):
```go
last := int8(len(c.handlers)) - 1
for c.index < last { c.index++; c.handlers[c.index](c) }
```
`Abort` sets the cursor to `abortIndex = 63`.  Recursion through `next`/`run` is cut by fuel
(`none` = out of fuel; the lemmas show that enough fuel always exists). -/

/-- an effect a handler has on the response / the context -/
inductive Out
  | mark (t : Nat)                 -- a trace mark of the test handler
  | status (code : Nat)            -- `c.Resp.WriteHeader(code)`
  | header (k v : Bytes)           -- `c.SetHeader(k, v)`
  | body (b : Bytes)               -- `c.Resp.Write(b)`
  | set (k v : Bytes)              -- `c.Set(k, v)`
  deriving Repr, DecidableEq

inductive Act
  | emit (o : Out)
  | next
  | abort
  deriving Repr, DecidableEq

abbrev Handler := List Act

inductive Ev
  | enter (h : Nat)
  | leave (h : Nat)
  | out (h : Nat) (o : Out)
  deriving Repr, DecidableEq

structure St where
  idx : Int
  trace : List Ev
  deriving Repr, DecidableEq

def abortIndex : Int := 63

mutual
def next (hs : List Handler) (fuel : Nat) (st : St) : Option St :=
  match fuel with
  | 0 => none
  | f+1 =>
    if st.idx < (hs.length : Int) - 1 then
      let j := st.idx + 1
      if 0 ≤ j then
        match hs[j.toNat]? with
        | none => none
        | some h =>
          match run hs f j.toNat h { idx := j, trace := st.trace ++ [.enter j.toNat] } with
          | none => none
          | some st2 => next hs f { st2 with trace := st2.trace ++ [.leave j.toNat] }
      else none
    else some st
termination_by (fuel, 0)
def run (hs : List Handler) (fuel : Nat) (i : Nat) (acts : List Act) (st : St) : Option St :=
  match acts with
  | [] => some st
  | .emit o :: rest => run hs fuel i rest { st with trace := st.trace ++ [.out i o] }
  | .abort :: rest => run hs fuel i rest { st with idx := abortIndex }
  | .next :: rest =>
    match next hs fuel st with
    | none => none
    | some st' => run hs fuel i rest st'
termination_by (fuel, acts.length)
end

/-- a request: `ctx.index = -1`, `ctx.Next()` -/
def serve (hs : List Handler) (fuel : Nat) : Option (List Ev) :=
  (next hs fuel ⟨-1, []⟩).map (·.trace)

/-- `c.AbortWithStatus(code)` without a message -/
def abortWithStatus (code : Nat) : List Act := [.emit (.status code), .abort]

/-- `c.AbortWithStatus(code, msg)`: `http.Error` writes the status and the message, then `Abort` -/
def abortWithStatusMsg (code : Nat) (msgLine : Bytes) : List Act :=
  [.emit (.status code), .emit (.body msgLine), .abort]

/-- the body of `HTTPBasicAuth(accounts)` for a request whose `BasicAuth()` returned `creds`,
    statement by statement (the 403 branch does NOT return: the two `c.Set` calls still happen) -/
def basicAuthHandler (accounts : List (Bytes × Bytes)) (creds : Option (Bytes × Bytes)) : Handler :=
  match creds with
  | none => [.emit (.header hWWWAuth challenge)] ++ abortWithStatusMsg 401 unauthorizedBody
  | some (user, pwd) =>
    (if accounts.length > 0 then
       match lookup user accounts with
       | some srcPwd => if srcPwd ≠ pwd then abortWithStatus 403 else []
       | none => abortWithStatus 403
     else []) ++ [.emit (.set kUsername user), .emit (.set kPassword pwd)]

/-- `WrapHTTPHandler(gh)` / `WrapHTTPHandlerFunc(hf)` and their aliases: the generic handler gets
    `(c.Resp, c.Req)` only, so all it can do is produce response effects — no `Next`, no `Abort` -/
def wrapHTTPHandler (effects : List Out) : Handler := effects.map Act.emit

/-! ## §6  the response produced by a trace (rux `responseWriter`: the status is recorded lazily, the
first body write — or the end of the request — commits it together with the headers set so far) -/

structure Resp where
  status : Nat := 0                          -- recorded, 0 = none
  committed : Option Nat := none             -- the status the client got
  headers : List (Bytes × Bytes) := []       -- live header map (last `Set` first)
  sent : List (Bytes × Bytes) := []          -- header map at commit time
  body : Bytes := []
  data : List (Bytes × Bytes) := []          -- `c.Set` (last first)
  deriving Repr, DecidableEq

def Resp.step (r : Resp) : Out → Resp
  | .mark _ => r
  | .status c => if c > 0 then { r with status := c } else r
  | .header k v => { r with headers := (k, v) :: r.headers }
  | .set k v => { r with data := (k, v) :: r.data }
  | .body b =>
    match r.committed with
    | some _ => { r with body := r.body ++ b }
    | none => { r with committed := some (if r.status = 0 then 200 else r.status), sent := r.headers,
                       body := r.body ++ b }

def outsOf : List Ev → List Out
  | [] => []
  | .out _ o :: t => o :: outsOf t
  | _ :: t => outsOf t

def respOf (tr : List Ev) : Resp := (outsOf tr).foldl Resp.step {}

/-- status the client sees (`ensureWriteHeader` at the end of the request) -/
def Resp.finalStatus (r : Resp) : Nat :=
  match r.committed with
  | some c => c
  | none => if r.status = 0 then 200 else r.status

/-- response header the client sees -/
def Resp.finalHeader (r : Resp) (k : Bytes) : Option Bytes :=
  match r.committed with
  | some _ => lookup k r.sent
  | none => lookup k r.headers

/-- did any handler with chain position `> i` start? -/
def ranAfter (i : Nat) (tr : List Ev) : Bool :=
  tr.any fun e => match e with | .enter h => decide (i < h) | _ => false

end Rux.Gates
