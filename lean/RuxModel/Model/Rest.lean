import RuxModel.Model.Reg
/-
  C16: the documented REST table and a lookup for tables of REST shape.

  `docTable` is the table in the doc comment of `Router.Resource` (and in the statement of C16).
  `lookup` mirrors `Router.match` for routes whose variables are all `{id}` (= `[^/]+`): the static
  table first (a map keyed by method+path: the LAST registration of a key is the one stored), then the
  dynamic routes in registration order; `resolve` adds the HEAD → GET fallback and the 405/404
  decision of `QuickMatch` (fallback route and intercept are not used by the `rest` engine).
  The general lookup is the table model's business (C01/C06); this one only has to be right for the
  routes `Resource` registers, which is what the `rest` correspondence engine samples.
  Core Lean only.
-/
namespace Rux.Reg

/-- Methods / Path / Action / Route name — the doc comment of `Resource`, path and name as suffixes
    behind `/resource` and `resource_` -/
def docTable : List (Action × List String × String × String) :=
  [ (.aIndex,  ["GET"],          "",           "index"),
    (.aCreate, ["GET"],          "/create",    "create"),
    (.aStore,  ["POST"],         "",           "store"),
    (.aShow,   ["GET"],          "/{id}",      "show"),
    (.aEdit,   ["GET"],          "/{id}/edit", "edit"),
    (.aUpdate, ["PUT", "PATCH"], "/{id}",      "update"),
    (.aDelete, ["DELETE"],       "/{id}",      "delete") ]

/-- (methods, path, name) -/
abbrev Triple := List Bytes × Bytes × Bytes

def Route.triple (r : Route) : Triple := (r.methods, r.path, r.name)

/-- the documented rows of the actions `S` for a resource reachable under `G` with name `res` -/
def docRows (G res : Bytes) (S : List Action) : List Triple :=
  (docTable.filter fun row => decide (row.1 ∈ S)).map fun row =>
    (row.2.1.map ascii, G ++ ascii row.2.2.1, res ++ ascii "_" ++ ascii row.2.2.2)

/-- what the path functions must do with the four relative paths `Resource` uses, below the
    group prefix `G` (hypothesis of `C16_exact`; `restPaths_clean` discharges it for the driver's
    functions and every clean `G`) -/
structure RestPaths (cfg : Cfg) (G : Bytes) : Prop where
  root : storedPath cfg G (ascii "/") = G
  create : storedPath cfg G (ascii "/create/") = G ++ ascii "/create"
  item : storedPath cfg G (ascii "{id}/") = G ++ ascii "/{id}"
  edit : storedPath cfg G (ascii "{id}/edit/") = G ++ ascii "/{id}/edit"

/-! ### lookup in a table of REST shape -/

/-- `isFixedPath` -/
def isFixed (p : Bytes) : Bool := !p.contains 123 && !p.contains 91

def idSeg : Bytes := ascii "{id}"

/-- segment-wise match; `{id}` stands for one non-empty segment -/
def matchSegs : List Bytes → List Bytes → Bool
  | [], [] => true
  | ps :: pt, s :: t => (if ps = idSeg then !s.isEmpty else ps == s) && matchSegs pt t
  | _, _ => false

def matchPat (pat path : Bytes) : Bool :=
  matchSegs (Bytes.splitOnByte 47 pat) (Bytes.splitOnByte 47 path)

/-- `Router.match`: static table, then dynamic routes in registration order -/
def lookup (routes : List Route) (m path : Bytes) : Option Route :=
  match (routes.filter fun r => isFixed r.path && r.methods.contains m && r.path == path).getLast? with
  | some r => some r
  | none => (routes.filter fun r => !isFixed r.path && r.methods.contains m && matchPat r.path path).head?

def nineMethods : List Bytes :=
  ["GET", "POST", "PUT", "PATCH", "DELETE", "OPTIONS", "HEAD", "CONNECT", "TRACE"].map ascii

inductive Outcome where
  | served (r : Route)
  | notAllowed (allowed : List Bytes)
  | notFound

/-- `QuickMatch` without fallback route and intercept; `path` is already formatted -/
def resolve (opt405 : Bool) (routes : List Route) (m path : Bytes) : Outcome :=
  match lookup routes m path with
  | some r => .served r
  | none =>
    match (if m = ascii "HEAD" then lookup routes (ascii "GET") path else none) with
    | some r => .served r
    | none =>
      let alm := nineMethods.filter fun x => x != m && (lookup routes x path).isSome
      if opt405 && !alm.isEmpty then .notAllowed alm else .notFound

end Rux.Reg
