import RuxModel.Go.Bytes
/-
  Model of the registration scope of rux: `router.go: Group / Controller / Resource / Add / AddRoute /
  appendGroupInfo`, `middleware.go: Router.Use / combineHandlers`, `route.go: NewRoute / Route.Use`
  (with the handler limit), `router.go: NotFound / NotAllowed`, and of the chain assembled at request
  time in `dispatch.go: handleHTTPRequest`.

  A registration *program* is a tree of statements (`Stmt`, nested through `List Stmt`); the
  interpreter `exec`/`execList` mirrors the code: `Group` SAVES the current prefix and group
  handlers, EXTENDS them, runs the callback and RESTORES the saved values; `Use` extends the group
  list when a prefix is set and the global list otherwise; a route copies prefix and group handlers
  at registration (`appendGroupInfo`) and its own `Use` calls append to its own list.

  Handlers are tags (`Nat`); the harness builds closures that record their tag.
  `formatPath` / `simpleFmtPath` are PARAMETERS (`Cfg.fmt`, `Cfg.sfmt`; modelled by the path worker);
  theorems state as explicit hypotheses what they need from them.  `cleanFmt`/`cleanSfmt` below are
  executable instances that are exact on white-space-free paths (used by the driver).
  Go panics are explicit: `Except Err`.

  The slice-aliasing refinement (backing arrays, capacities, growth policy) is `Model/RegHeap.lean`.
  Core Lean only.
-/
namespace Rux.Reg

/-- a handler is identified by its tag -/
abbrev H := Nat

/-- the bytes of an ASCII string literal (unlike `String.toUTF8` this reduces in the kernel, so facts
    about the literals used below can be proved by `decide`) -/
def ascii (s : String) : Bytes := s.toList.map Char.toNat

/-- panics of the registration code (both are `panic(msg)` in Go) -/
inductive Err where
  | tooMany          -- "too many handlers(number: %d)": Route.Use, appendGroupInfo
  | badController    -- Resource: "controller must type ptr" / "controller must type struct"
  deriving DecidableEq, Repr

/-- what the model takes from elsewhere -/
structure Cfg where
  fmt : Bytes → Bytes     -- `Router.formatPath` (whatever the slash mode of the router is)
  sfmt : Bytes → Bytes    -- `simpleFmtPath`
  limit : Nat             -- `abortIndex`

/-! ### routes -/

/-- the arguments of one route registration.
    `pre`:  `Route.Use` calls made BEFORE the route is attached (`NewRoute(..).Use(..)`, `Router.Any`)
    `post`: `Route.Use` calls made AFTER it was attached (`r.GET(p, h, mws...)` is `Add` followed by
            `.Use(mws...)`; `Resource` calls `route.Use(uses[name]...)`; later calls by the user) -/
structure RouteDef where
  id : Nat
  main : H
  name : Bytes
  methods : List Bytes
  path : Bytes
  pre : List (List H)
  post : List (List H)
  deriving DecidableEq, Repr

/-- a registered route: what `Route.Path()`, `Route.Handlers()`, `Route.Handler()` … return -/
structure Route where
  id : Nat
  main : H
  name : Bytes
  methods : List Bytes
  path : Bytes
  handlers : List H
  deriving DecidableEq, Repr

/-! ### REST actions (`rux.go: RESTFulActions`, `router.go: Resource`) -/

inductive Action where
  | aIndex | aCreate | aStore | aShow | aEdit | aUpdate | aDelete
  deriving DecidableEq, Repr

namespace Action
def all : List Action := [aIndex, aCreate, aStore, aShow, aEdit, aUpdate, aDelete]

/-- position in `all`, used to derive route ids -/
def idx : Action → Nat
  | aIndex => 0 | aCreate => 1 | aStore => 2 | aShow => 3 | aEdit => 4 | aUpdate => 5 | aDelete => 6

/-- Go method name of the action -/
def goName : Action → String
  | aIndex => "Index" | aCreate => "Create" | aStore => "Store" | aShow => "Show"
  | aEdit => "Edit" | aUpdate => "Update" | aDelete => "Delete"

/-- `strings.ToLower(name)` -/
def lname : Action → String
  | aIndex => "index" | aCreate => "create" | aStore => "store" | aShow => "show"
  | aEdit => "edit" | aUpdate => "update" | aDelete => "delete"

/-- `RESTFulActions[name]` -/
def methods : Action → List String
  | aIndex => ["GET"] | aCreate => ["GET"] | aStore => ["POST"] | aShow => ["GET"]
  | aEdit => ["GET"] | aUpdate => ["PUT", "PATCH"] | aDelete => ["DELETE"]

/-- the path handed to `AddNamed` inside the resource group (`Resource`, the if-chain on `name`) -/
def relPath : Action → String
  | aIndex => "/" | aStore => "/"
  | aCreate => "/create/"
  | aEdit => "{id}/edit/"
  | aShow => "{id}/" | aUpdate => "{id}/" | aDelete => "{id}/"
end Action

/-- what `reflect` sees of the controller argument -/
inductive CtrlKind where
  | ptrStruct      -- pointer to struct: accepted
  | nonPtr         -- "controller must type ptr"
  | ptrNonStruct   -- "controller must type struct"
  deriving DecidableEq, Repr

/-- the arguments of one `Resource(basePath, controller, middles...)` call (without `middles`) -/
structure ResDef where
  kind : CtrlKind
  base : Bytes                      -- basePath
  resName : Bytes                   -- `strings.ToLower(ct.Elem().Name())`
  impl : List Action                -- actions the controller's method set has (with type func(*Context))
  uses : List (Action × List H)     -- `Uses()` (absent = `[]`); first binding of an action counts
  order : List Action               -- iteration order of the map `RESTFulActions` in this call
  rid : Nat                         -- route id / main handler tag of action `a` is `rid + a.idx`
  deriving DecidableEq, Repr

/-- the `AddNamed(..)` + `route.Use(..)` calls `Resource` makes inside its group, in iteration order -/
def restRoutes (rd : ResDef) : List RouteDef :=
  (rd.order.filter (fun a => decide (a ∈ rd.impl))).map fun a =>
    { id := rd.rid + a.idx
      main := rd.rid + a.idx
      name := rd.resName ++ ascii "_" ++ ascii a.lname
      methods := a.methods.map ascii
      path := ascii a.relPath
      pre := []
      post := match rd.uses.lookup a with
        | some hs => [hs]
        | none => [] }

/-! ### programs -/

inductive Stmt where
  | use (hs : List H)                                             -- `r.Use(hs...)`
  | route (d : RouteDef)                                          -- `r.GET/…/Add/AddNamed/AddRoute/Any`
  | group (pfx : Bytes) (mws : List H) (body : List Stmt)         -- `r.Group(pfx, func(){body}, mws...)`
  | controller (pfx : Bytes) (mws : List H) (body : List Stmt)    -- `r.Controller(pfx, c, mws...)`, body = `c.AddRoutes(r)`
  | resource (rd : ResDef) (mws : List H)                         -- `r.Resource(base, c, mws...)`
  | notFound (hs : List H)                                        -- `r.NotFound(hs...)`
  | notAllowed (hs : List H)                                      -- `r.NotAllowed(hs...)`

/-- the registration-time scope and the router-wide handler lists: `Router` minus the route tables -/
structure Scope where
  pfx : Bytes             -- currentGroupPrefix
  grp : List H            -- currentGroupHandlers
  globals : List H        -- handlers
  noRoute : List H
  noAllowed : List H
  deriving DecidableEq, Repr

structure RS extends Scope where
  routes : List Route     -- every route ever attached, in registration order
  deriving DecidableEq, Repr

def Scope.init : Scope := ⟨[], [], [], [], []⟩
def RS.init : RS := ⟨Scope.init, []⟩

/-! ### the interpreter (mirrors the Go code) -/

/-- `Route.Use`: the limit test, then `append` -/
def routeUse (limit : Nat) (hs mw : List H) : Except Err (List H) :=
  if hs.length + mw.length ≥ limit then .error .tooMany else .ok (hs ++ mw)

def routeUses (limit : Nat) (hs : List H) : List (List H) → Except Err (List H)
  | [] => .ok hs
  | mw :: rest =>
    match routeUse limit hs mw with
    | .ok hs' => routeUses limit hs' rest
    | .error e => .error e

/-- `appendGroupInfo`, the path part -/
def storedPath (cfg : Cfg) (pfx path : Bytes) : Bytes :=
  let p0 := cfg.fmt (cfg.sfmt path)          -- NewRoute: simpleFmtPath; appendGroupInfo: formatPath
  if pfx ≠ [] then cfg.fmt (pfx ++ p0) else p0

/-- `appendGroupInfo`, the handler part: `combineHandlers` only when there are group handlers,
    then the limit test -/
def attachHandlers (limit : Nat) (grp hs : List H) : Except Err (List H) :=
  if grp ≠ [] then
    if (grp ++ hs).length ≥ limit then .error .tooMany else .ok (grp ++ hs)
  else .ok hs

/-- `NewRoute(..)` + `pre` uses, `AddRoute` (→ `appendGroupInfo`), `post` uses -/
def addRoute (cfg : Cfg) (st : RS) (d : RouteDef) : Except Err RS :=
  match routeUses cfg.limit [] d.pre with
  | .error e => .error e
  | .ok h0 =>
    match attachHandlers cfg.limit st.grp h0 with
    | .error e => .error e
    | .ok h1 =>
      match routeUses cfg.limit h1 d.post with
      | .error e => .error e
      | .ok h2 =>
        .ok { st with routes := st.routes ++
                [{ id := d.id, main := d.main, name := d.name, methods := d.methods,
                   path := storedPath cfg st.pfx d.path, handlers := h2 }] }

def addRoutes (cfg : Cfg) (st : RS) : List RouteDef → Except Err RS
  | [] => .ok st
  | d :: rest =>
    match addRoute cfg st d with
    | .ok st1 => addRoutes cfg st1 rest
    | .error e => .error e

/-- `Router.Use` -/
def useScope (sc : Scope) (hs : List H) : Scope :=
  if sc.pfx ≠ [] then { sc with grp := sc.grp ++ hs } else { sc with globals := sc.globals ++ hs }

/-- `Group`, before the callback: extend prefix and group handlers -/
def enterScope (cfg : Cfg) (sc : Scope) (pfx : Bytes) (mws : List H) : Scope :=
  { sc with
    pfx := sc.pfx ++ cfg.fmt pfx
    grp := if mws ≠ [] then (if sc.grp ≠ [] then sc.grp ++ mws else mws) else sc.grp }

def RS.enter (cfg : Cfg) (st : RS) (pfx : Bytes) (mws : List H) : RS :=
  { st with toScope := enterScope cfg st.toScope pfx mws }

/-- `Group`, after the callback: "revert" -/
def RS.leave (saved : RS) (st : RS) : RS :=
  { st with pfx := saved.pfx, grp := saved.grp }

mutual
def exec (cfg : Cfg) (st : RS) : Stmt → Except Err RS
  | .use hs => .ok { st with toScope := useScope st.toScope hs }
  | .route d => addRoute cfg st d
  | .group p mws body =>
    match execList cfg (st.enter cfg p mws) body with
    | .ok st2 => .ok (st.leave st2)
    | .error e => .error e
  | .controller p mws body =>
    match execList cfg (st.enter cfg p mws) body with
    | .ok st2 => .ok (st.leave st2)
    | .error e => .error e
  | .resource rd mws =>
    if rd.kind ≠ .ptrStruct then .error .badController else
    match addRoutes cfg (st.enter cfg (rd.base ++ rd.resName) mws) (restRoutes rd) with
    | .ok st2 => .ok (st.leave st2)
    | .error e => .error e
  | .notFound hs => .ok { st with noRoute := hs }
  | .notAllowed hs => .ok { st with noAllowed := hs }
def execList (cfg : Cfg) (st : RS) : List Stmt → Except Err RS
  | [] => .ok st
  | s :: rest =>
    match exec cfg st s with
    | .ok st1 => execList cfg st1 rest
    | .error e => .error e
end

/-! ### the denotation: lexical scoping, no mutation, no restore

  `den sc s` = the routes statement `s` registers when it stands in scope `sc`, and the scope in
  which the NEXT statement of the same body stands.  A group denotes its body in the extended scope
  and hands on the scope it was given (only the router-wide lists can have changed). -/

/-- the route a registration produces in scope `sc` (total: the limit is a separate condition) -/
def mkRoute (cfg : Cfg) (sc : Scope) (d : RouteDef) : Route :=
  { id := d.id, main := d.main, name := d.name, methods := d.methods
    path := storedPath cfg sc.pfx d.path
    handlers := sc.grp ++ d.pre.flatten ++ d.post.flatten }

/-- what survives a group: the router-wide lists of the inner scope, prefix and group handlers of the outer -/
def Scope.after (outer inner : Scope) : Scope :=
  { inner with pfx := outer.pfx, grp := outer.grp }

mutual
def den (cfg : Cfg) (sc : Scope) : Stmt → List Route × Scope
  | .use hs => ([], useScope sc hs)
  | .route d => ([mkRoute cfg sc d], sc)
  | .group p mws body =>
    let r := denList cfg (enterScope cfg sc p mws) body
    (r.1, sc.after r.2)
  | .controller p mws body =>
    let r := denList cfg (enterScope cfg sc p mws) body
    (r.1, sc.after r.2)
  | .resource rd mws =>
    ((restRoutes rd).map (mkRoute cfg (enterScope cfg sc (rd.base ++ rd.resName) mws)), sc)
  | .notFound hs => ([], { sc with noRoute := hs })
  | .notAllowed hs => ([], { sc with noAllowed := hs })
def denList (cfg : Cfg) (sc : Scope) : List Stmt → List Route × Scope
  | [] => ([], sc)
  | s :: rest =>
    let r1 := den cfg sc s
    let r2 := denList cfg r1.2 rest
    (r1.1 ++ r2.1, r2.2)
end

-- no `Resource` call with a controller that is not a pointer to a struct
mutual
def okCtrl : Stmt → Bool
  | .group _ _ body => okCtrlList body
  | .controller _ _ body => okCtrlList body
  | .resource rd _ => decide (rd.kind = .ptrStruct)
  | _ => true
def okCtrlList : List Stmt → Bool
  | [] => true
  | s :: rest => okCtrl s && okCtrlList rest
end

/-! ### reference semantics with explicit nesting (`ScopeSpec` of DESIGN.md)

  The scope is the STACK of enclosing groups (innermost first): their prefix arguments and, per
  group, its middleware followed by the `Use` calls made directly in it so far.  A route's handlers
  are the levels from the outermost to the innermost, then its own middleware; `Use` outside every
  group is global.  Nothing is saved or restored: a group's body is denoted in the pushed scope. -/
namespace Spec

structure LScope where
  pfxs : List Bytes          -- prefix arguments of the enclosing groups, innermost first
  lv : List (List H)         -- per enclosing group (innermost first): its middleware ++ its `Use` calls so far
  globals : List H
  noRoute : List H
  noAllowed : List H
  deriving DecidableEq, Repr

def LScope.init : LScope := ⟨[], [], [], [], []⟩

/-- group middleware in effect, outermost group first -/
def LScope.groupHandlers (ls : LScope) : List H := ls.lv.reverse.flatten

/-- the concatenated (formatted) prefixes, outermost group first -/
def LScope.fullPrefix (cfg : Cfg) (ls : LScope) : Bytes := (ls.pfxs.reverse.map cfg.fmt).flatten

def mkRouteL (cfg : Cfg) (ls : LScope) (d : RouteDef) : Route :=
  { id := d.id, main := d.main, name := d.name, methods := d.methods
    path := storedPath cfg (ls.fullPrefix cfg) d.path
    handlers := ls.groupHandlers ++ d.pre.flatten ++ d.post.flatten }

def useL (ls : LScope) (hs : List H) : LScope :=
  match ls.lv with
  | [] => { ls with globals := ls.globals ++ hs }
  | l :: outer => { ls with lv := (l ++ hs) :: outer }

def push (ls : LScope) (p : Bytes) (mws : List H) : LScope :=
  { ls with pfxs := p :: ls.pfxs, lv := mws :: ls.lv }

def pop (outer inner : LScope) : LScope :=
  { inner with pfxs := outer.pfxs, lv := outer.lv }

mutual
def denote (cfg : Cfg) (ls : LScope) : Stmt → List Route × LScope
  | .use hs => ([], useL ls hs)
  | .route d => ([mkRouteL cfg ls d], ls)
  | .group p mws body =>
    let r := denoteList cfg (push ls p mws) body
    (r.1, pop ls r.2)
  | .controller p mws body =>
    let r := denoteList cfg (push ls p mws) body
    (r.1, pop ls r.2)
  | .resource rd mws => ((restRoutes rd).map (mkRouteL cfg (push ls (rd.base ++ rd.resName) mws)), ls)
  | .notFound hs => ([], { ls with noRoute := hs })
  | .notAllowed hs => ([], { ls with noAllowed := hs })
def denoteList (cfg : Cfg) (ls : LScope) : List Stmt → List Route × LScope
  | [] => ([], ls)
  | s :: rest =>
    let r1 := denote cfg ls s
    let r2 := denoteList cfg r1.2 rest
    (r1.1 ++ r2.1, r2.2)
end

end Spec

/-! ### router-wide lists, read off the program text -/

/-- the arguments of the `Use` calls that stand outside every group, in program order -/
def topUses : List Stmt → List H
  | [] => []
  | .use hs :: rest => hs ++ topUses rest
  | _ :: rest => topUses rest

-- the argument of the last `NotFound` / `NotAllowed` call anywhere in the program (they are router-wide)
mutual
def lastNF (cur : List H) : Stmt → List H
  | .notFound hs => hs
  | .group _ _ body => lastNFList cur body
  | .controller _ _ body => lastNFList cur body
  | _ => cur
def lastNFList (cur : List H) : List Stmt → List H
  | [] => cur
  | s :: rest => lastNFList (lastNF cur s) rest
end

mutual
def lastNA (cur : List H) : Stmt → List H
  | .notAllowed hs => hs
  | .group _ _ body => lastNAList cur body
  | .controller _ _ body => lastNAList cur body
  | _ => cur
def lastNAList (cur : List H) : List Stmt → List H
  | [] => cur
  | s :: rest => lastNAList (lastNA cur s) rest
end


/-! ### the chain assembled at request time (`dispatch.go: handleHTTPRequest`) -/

/-- how a request resolved (the lookup itself is the table model's business) -/
inductive Resolved where
  | found (r : Route)
  | notAllowed        -- `len(allowed) > 0`
  | notFound

/-- `chain = r.handlers ++ handlers ++ [mainHandler]`, built when the request arrives;
    `d404`/`d405` are the tags of `internal404Handler` / `internal405Handler` -/
def chain (d404 d405 : H) (sc : Scope) : Resolved → List H
  | .found r => sc.globals ++ r.handlers ++ [r.main]
  | .notAllowed => sc.globals ++ (if sc.noAllowed.length = 0 then [d405] else sc.noAllowed)
  | .notFound => sc.globals ++ (if sc.noRoute.length = 0 then [d404] else sc.noRoute)

/-- `namedRoutes[name]`: the last route attached under a non-empty name -/
def namedRoute (st : RS) (name : Bytes) : Option Route :=
  if name = [] then none else (st.routes.filter (fun r => decide (r.name = name))).getLast?

/-! ### executable path functions for white-space-free paths

  Exact copies of `formatPath` (default slash mode) and `simpleFmtPath` on strings WITHOUT white
  space (there `TrimSpace` is the identity and the trailing `TrimRightFunc` cuts slashes only). -/

def cleanFmt (s : Bytes) : Bytes :=
  if s = [] ∨ s = [47] then [47] else
  let t := Bytes.trimRightByte 47 s
  if t = [] then [47] else 47 :: Bytes.trimLeftByte 47 t

def cleanSfmt (s : Bytes) : Bytes :=
  if s = [] then [47] else 47 :: Bytes.trimLeftByte 47 s

def cleanCfg (limit : Nat) : Cfg := ⟨cleanFmt, cleanSfmt, limit⟩

/-- "clean non-root": starts with exactly one `/`, is longer than `/`, does not end in `/` -/
def CleanPath (s : Bytes) : Prop :=
  ∃ c rest, s = 47 :: c :: rest ∧ c ≠ 47 ∧ (c :: rest).getLast? ≠ some 47

end Rux.Reg
