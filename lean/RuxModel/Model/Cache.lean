/-
  Model of `route_cache.go: cachedRoutes` — a recency-ordered association list with a capacity.

  Go side: `container/list` (front = most recent) + `map[string]*list.Element`.
  The refinement "doubly linked list + hash index = this sequence" is trusted and sampled by the
  `lru` correspondence engine (which also reads the key order through the verif accessor).
  Core Lean only.
-/
namespace Rux

/-- remove every entry with key `k` -/
def rmKey {K V : Type} [DecidableEq K] (k : K) (l : List (K × V)) : List (K × V) :=
  l.filter (fun x => !decide (x.1 = k))

/-- recency-ordered association list, most recent first -/
structure Cache (K V : Type) where
  cap : Nat
  items : List (K × V)
  deriving Repr

namespace Cache
variable {K V : Type} [DecidableEq K]

def empty (cap : Nat) : Cache K V := ⟨cap, []⟩

/-- `Len` -/
def len (c : Cache K V) : Nat := c.items.length

/-- `Get`: on a hit the element is moved to the front -/
def get (c : Cache K V) (k : K) : Option V × Cache K V :=
  match c.items.find? (fun x => decide (x.1 = k)) with
  | some kv => (some kv.2, { c with items := kv :: rmKey k c.items })
  | none => (none, c)

/-- `Has` is `Get` without the value (it also refreshes the entry, as the code does) -/
def has (c : Cache K V) (k : K) : Bool × Cache K V :=
  ((c.get k).1.isSome, (c.get k).2)

/-- `Set`: replace + move to front, or push front and evict the back element when over capacity -/
def set (c : Cache K V) (k : K) (v : V) : Cache K V :=
  if c.items.any (fun x => decide (x.1 = k)) then
    { c with items := (k, v) :: rmKey k c.items }
  else
    let items := (k, v) :: c.items
    if items.length > c.cap then { c with items := items.dropLast } else { c with items := items }

/-- `Delete`: returns whether the key was present -/
def delete (c : Cache K V) (k : K) : Bool × Cache K V :=
  (c.items.any (fun x => decide (x.1 = k)), { c with items := rmKey k c.items })

def keys (c : Cache K V) : List K := c.items.map (·.1)

/-- the pure map view: latest binding of a key -/
def lookup (c : Cache K V) (k : K) : Option V :=
  (c.items.find? (fun x => decide (x.1 = k))).map (·.2)

end Cache

/-! ### operations as data (for histories) -/

inductive CacheOp (K V : Type) where
  | set (k : K) (v : V)
  | get (k : K)
  | has (k : K)
  | del (k : K)
  | len
  deriving Repr

inductive CacheOut (V : Type) where
  | unit
  | val (v : Option V)
  | bool (b : Bool)
  | nat (n : Nat)
  deriving Repr, DecidableEq

namespace Cache
variable {K V : Type} [DecidableEq K]

def step (c : Cache K V) : CacheOp K V → Cache K V × CacheOut V
  | .set k v => (c.set k v, .bool true)
  | .get k => ((c.get k).2, .val (c.get k).1)
  | .has k => ((c.has k).2, .bool (c.has k).1)
  | .del k => ((c.delete k).2, .bool (c.delete k).1)
  | .len => (c, .nat c.len)

def run (c : Cache K V) : List (CacheOp K V) → Cache K V
  | [] => c
  | op :: ops => run (c.step op).1 ops

def outputs (c : Cache K V) : List (CacheOp K V) → List (CacheOut V)
  | [] => []
  | op :: ops => (c.step op).2 :: outputs (c.step op).1 ops

end Cache
end Rux
