import RuxModel.Go.Bytes
import RuxModel.Generated.Facts
/-
  Model of `Router.ServeHTTP` / `handleHTTPRequest` (dispatch.go), `Context.Init/Reset/Set/AddError/Abort/
  Next` (context.go), `responseWriter` (response_wirter.go), `ctxPool` (router.go) and the in-chain
  `PanicsHandler` (pkg/handlers/middlewares.go) — exactly as far as the properties C09 (panic containment)
  and C10 (pristine pooled context) need it.  Core Lean only (linked into the driver).

  What is modelled, following the CURRENT code:
  * a `Ctx` record with every field of the Go `Context` struct and a `Writer` record with every field of
    `responseWriter`; `newCtx` is `ctxPool.New` (`&Context{index: -1, router: router}`: everything else is
    Go's zero value — `Resp == nil`, `writer.length == 0`, NOT `-1`), `init` is `Init` (= `writer.reset`,
    `Req = r`, `Reset`);
  * handlers are data: lists of actions; a panic is an explicit result (`Stop.panic v`) that unwinds
    through all nested `Next()` frames, the state changes made before it persist;
  * the repaired `Next` loop `for c.index < last { c.index++; c.handlers[c.index](c) }` as a structural
    recursion over the remaining handlers.  The cursor is kept in the context and read by the loop guard,
    `Abort` and `IsAborted` exactly as in the code.  `loop i hs` walks the list of remaining handlers until it
    reaches position `c.index+1` and runs that one (the cursor can be ahead of the list position after a
    recovered panic or an `Abort`).  Only when the cursor has moved BACKWARDS (`Abort` in a handler at a
    position above 63, i.e. a chain of more than 64 handlers — outside the documented limit) the model
    stops with `Stop.off` ("outside the modelled fragment"; the driver answers `unsupported`) instead of
    silently doing something else.  No 8-bit wrap-around is modelled: the driver refuses chains of more
    than 127 handlers (registration refuses them much earlier);
  * `handleHTTPRequest`: deferred recover only when `OnPanic` is set (store the value under
    `CTXRecoverResult`, run the hook, `ensureWriteHeader`), the request prelude (`Params`, route name/path or
    allowed methods), the chain, `OnError` when `Errors` is non-empty, `ensureWriteHeader`;
  * `ServeHTTP`: `pool.Get` (ANY pooled context or a new one), `Init`, dispatch, `pool.Put` — the `Put` is
    not reached when the panic propagates;
  * the underlying `http.ResponseWriter`s are identities plus one event log (`WEv`) that records which
    writer received which call.

  NOT modelled: route matching (a request says which chain it hits; the `panic`/`ctx` engines register real
  routes and send real URLs, so a difference shows up as an `obs` difference), response headers, `Flush`,
  `Hijack`, write errors, the spare capacity that `Errors[:0]` / `handlers[:0]` keep, `HandleContext`,
  `panic(nil)`.  `OnPanic`/`OnError` handlers are lists of simple actions (no `Next()`).
-/
namespace Rux.Dispatch

/-! ### values -/

/-- a panic value: `panic("…")`, `panic(errors.New("…"))`, `panic(n)`, or a Go runtime error
    (assignment to an entry of a nil map, index out of range) -/
inductive PVal
  | str (b : Bytes)
  | err (b : Bytes)
  | int (n : Int)
  | rtNilMap
  | rtIndex
  deriving DecidableEq, Repr

/-- what `Context.data` holds in this model -/
inductive Val
  | str (b : Bytes)
  | strs (l : List Bytes)
  | pv (v : PVal)
  deriving DecidableEq, Repr

/-- `Context.Resp` (`nil`, `&c.writer`, or some other writer installed by a handler) -/
inductive RespRef
  | nil
  | own
  | alt (id : Nat)
  deriving DecidableEq, Repr

/-- `Context.Req` (`nil`, the request given to `ServeHTTP`, or another one installed by a handler) -/
inductive ReqRef
  | nil
  | orig (r : Nat)
  | alt (id : Nat)
  deriving DecidableEq, Repr

/-- `responseWriter`: `Writer` (identity of the underlying `http.ResponseWriter`), `status`, `length` -/
structure Writer where
  under : Option Nat
  status : Int
  length : Int
  deriving DecidableEq, Repr

/-- receiver of a call on an `http.ResponseWriter` below rux: the writer wrapped by `c.writer`
    or a writer that a handler put into `c.Resp` -/
inductive Target
  | under (w : Option Nat)
  | alt (id : Nat)
  deriving DecidableEq, Repr

/-- calls received by the writers below rux -/
inductive WEv
  | wh (t : Target) (code : Int)
  | wr (t : Target) (b : Bytes)
  deriving DecidableEq, Repr

/-! ### handlers as data -/

/-- actions without `Next()` (all an `OnPanic` / `OnError` handler may do in this model) -/
inductive SAct
  | emit (t : Nat)                 -- leave a mark in the trace
  | panic (v : PVal)               -- `panic(v)` (for the runtime values: provoke that runtime error)
  | set (k v : Bytes)              -- `c.Set(k, v)`
  | addError (e : Bytes)           -- `c.AddError(errors.New(e))`
  | setParam (k v : Bytes)         -- `c.Params[k] = v`  (runtime panic when `Params` is nil)
  | abort                          -- `c.Abort()`
  | setStatus (code : Int)         -- `c.SetStatus(code)`          (→ `c.writer.WriteHeader`)
  | write (b : Bytes)              -- `c.WriteBytes(b)`            (→ `c.Resp.Write`)
  | respWH (code : Int)            -- `c.Resp.WriteHeader(code)`   (what `PanicsHandler`, `http.Error` do)
  | replaceResp (id : Nat)         -- `c.Resp = <other writer id>`
  | replaceReq (id : Nat)          -- `c.Req = <other request id>`
  | get (k : Bytes)                -- `c.Get(k)` into the trace
  | dump                           -- everything a handler can read from the context, into the trace
  deriving DecidableEq, Repr

inductive Act
  | s (a : SAct)
  | next                           -- `c.Next()`
  deriving DecidableEq, Repr

inductive Handler
  | acts (l : List Act)            -- a user handler: leaves `enter`/`leave` in the trace
  | builtin (l : List SAct)        -- one of rux's own handlers (default 404/405): the same actions, no trace marks
  | panicsHandler                  -- `handlers.PanicsHandler()`
  deriving DecidableEq, Repr

/-! ### the context -/

abbrev Params := Option (List (Bytes × Bytes))      -- `nil` map vs. a map
abbrev Data := List (Bytes × Val)                   -- `nil` and empty map are not distinguished

/-- every field of the Go struct `Context` (names as in `Facts.contextFields`) -/
structure Ctx where
  req : ReqRef
  resp : RespRef
  writer : Writer
  params : Params
  errors : List Bytes
  index : Int
  router : Nat
  data : Data
  handlers : List Handler
  deriving DecidableEq, Repr

/-- `ctxPool.New`: `&Context{index: -1, router: router}` -/
def newCtx (rid : Nat) : Ctx :=
  { req := .nil, resp := .nil, writer := { under := none, status := 0, length := 0 },
    params := none, errors := [], index := -1, router := rid, data := [], handlers := [] }

def noWritten : Int := Facts.noWritten
def abortIndex : Int := Facts.abortIndex

/-- `responseWriter.reset` -/
def Writer.reset (_w : Writer) (w2 : Nat) : Writer :=
  { status := 0, length := noWritten, under := some w2 }

/-- `Context.Reset` -/
def Ctx.reset (c : Ctx) : Ctx :=
  { c with index := -1, data := [], resp := .own, params := none, handlers := [], errors := [] }

/-- `Context.Init(w, r)` -/
def Ctx.init (c : Ctx) (w r : Nat) : Ctx :=
  Ctx.reset { c with writer := c.writer.reset w, req := .orig r }

/-- what a handler can read from its context: `Data()`, `Params`, `Errors`, `IsAborted()`, `StatusCode()`,
    `Length()`, `Resp`, `Req`, `RawWriter()`, `Router()` -/
structure Obs where
  data : Data
  params : Params
  errors : List Bytes
  aborted : Bool
  status : Int
  length : Int
  resp : RespRef
  req : ReqRef
  raw : Option Nat
  router : Nat
  deriving DecidableEq, Repr

def Ctx.isAborted (c : Ctx) : Bool := decide (c.index ≥ abortIndex)

def Ctx.observe (c : Ctx) : Obs :=
  { data := c.data, params := c.params, errors := c.errors, aborted := c.isAborted,
    status := c.writer.status, length := c.writer.length, resp := c.resp, req := c.req,
    raw := c.writer.under, router := c.router }

/-! ### assoc-list maps (`map[string]…`) -/

def mapSet {α : Type} (m : List (Bytes × α)) (k : Bytes) (v : α) : List (Bytes × α) :=
  match m with
  | [] => [(k, v)]
  | (k', v') :: t => if k' = k then (k, v) :: t else (k', v') :: mapSet t k v

def mapGet {α : Type} (m : List (Bytes × α)) (k : Bytes) : Option α :=
  match m with
  | [] => none
  | (k', v') :: t => if k' = k then some v' else mapGet t k

/-! ### trace and run state -/

/-- where an action runs: handler `i` of the chain, the `OnPanic` hook, the `OnError` handler -/
inductive Pos
  | h (i : Nat)
  | hook
  | onErr
  deriving DecidableEq, Repr

inductive TEv
  | enter (i : Nat)                         -- handler `i` of the chain starts
  | leave (i : Nat)                         -- handler `i` returns normally
  | mark (p : Pos) (t : Nat)
  | panicked (p : Pos) (v : PVal)           -- a panic starts here
  | got (p : Pos) (k : Bytes) (v : Option Val)
  | obs (p : Pos) (o : Obs)
  | hookEnter | hookLeave
  | errEnter | errLeave
  deriving DecidableEq, Repr

structure St where
  ctx : Ctx
  trace : List TEv
  log : List WEv
  deriving DecidableEq, Repr

def St.ev (st : St) (e : TEv) : St := { st with trace := st.trace ++ [e] }

/-- `responseWriter.ensureWriteHeader` -/
def ensureWH (st : St) : St :=
  let w := st.ctx.writer
  if w.length = noWritten then
    let s := if w.status = 0 then 200 else w.status
    { st with ctx := { st.ctx with writer := { w with status := s, length := 0 } },
              log := st.log ++ [.wh (.under w.under) s] }
  else st

/-- `responseWriter.WriteHeader(code)`: only records the status -/
def ownWriteHeader (st : St) (code : Int) : St :=
  let w := st.ctx.writer
  if code > 0 ∧ w.status ≠ code then
    { st with ctx := { st.ctx with writer := { w with status := code } } }
  else st

/-- `responseWriter.Write(b)` on a writer that accepts everything -/
def ownWrite (st : St) (b : Bytes) : St :=
  let st1 := ensureWH st
  let w := st1.ctx.writer
  { st1 with ctx := { st1.ctx with writer := { w with length := w.length + b.length } },
             log := st1.log ++ [.wr (.under w.under) b] }

/-- `c.Resp.WriteHeader(code)` called at position `p` -/
def respWriteHeader (p : Pos) (st : St) (code : Int) : St × Option PVal :=
  match st.ctx.resp with
  | .own => (ownWriteHeader st code, none)
  | .alt id => ({ st with log := st.log ++ [.wh (.alt id) code] }, none)
  | .nil => (st.ev (.panicked p .rtNilMap), some .rtNilMap)   -- nil interface: runtime error (not reachable after `Init`)

/-- `c.Set(k, v)` -/
def Ctx.set (c : Ctx) (k : Bytes) (v : Val) : Ctx := { c with data := mapSet c.data k v }

/-- one simple action at position `p`; `some v` = it panicked with `v` -/
def stepS (p : Pos) (a : SAct) (st : St) : St × Option PVal :=
  match a with
  | .emit t => (st.ev (.mark p t), none)
  | .panic v => (st.ev (.panicked p v), some v)
  | .set k v => ({ st with ctx := st.ctx.set k (.str v) }, none)
  | .addError e => ({ st with ctx := { st.ctx with errors := st.ctx.errors ++ [e] } }, none)
  | .setParam k v =>
    match st.ctx.params with
    | none => (st.ev (.panicked p .rtNilMap), some .rtNilMap)
    | some m => ({ st with ctx := { st.ctx with params := some (mapSet m k v) } }, none)
  | .abort => ({ st with ctx := { st.ctx with index := abortIndex } }, none)
  | .setStatus code => (ownWriteHeader st code, none)
  | .write b =>
    match st.ctx.resp with
    | .own => (ownWrite st b, none)
    | .alt id => ({ st with log := st.log ++ [.wr (.alt id) b] }, none)
    | .nil => (st.ev (.panicked p .rtNilMap), some .rtNilMap)
  | .respWH code => respWriteHeader p st code
  | .replaceResp id => ({ st with ctx := { st.ctx with resp := .alt id } }, none)
  | .replaceReq id => ({ st with ctx := { st.ctx with req := .alt id } }, none)
  | .get k => (st.ev (.got p k (mapGet st.ctx.data k)), none)
  | .dump => (st.ev (.obs p st.ctx.observe), none)

/-- a list of simple actions (the body of an `OnPanic` / `OnError` handler) -/
def runS (p : Pos) : List SAct → St → St × Option PVal
  | [], st => (st, none)
  | a :: rest, st =>
    match stepS p a st with
    | (st', none) => runS p rest st'
    | r => r

/-! ### the handler chain -/

/-- why a run stopped early: a Go panic in flight, or the model left its fragment -/
inductive Stop
  | panic (v : PVal)
  | off
  deriving DecidableEq, Repr

abbrev Out := St × Option Stop

/-- `int8(len(c.handlers)) - 1` -/
def St.last (st : St) : Int := (st.ctx.handlers.length : Int) - 1

/-- the body of handler `i`; `k` is `c.Next()` as seen from this handler -/
def runActs (k : St → Out) (i : Nat) : List Act → St → Out
  | [], st => (st, none)
  | .next :: rest, st =>
    match k st with
    | (st', none) => runActs k i rest st'
    | r => r
  | .s a :: rest, st =>
    match stepS (.h i) a st with
    | (st', none) => runActs k i rest st'
    | (st', some v) => (st', some (.panic v))

/-- `Context.Next()` entered when `hs` are the handlers from position `i` on:
    `for c.index < last { c.index++; c.handlers[c.index](c) }` -/
def loop : Nat → List Handler → St → Out
  | _, [], st => if st.ctx.index < st.last then (st, some .off) else (st, none)
  | i, h :: rest, st =>
    if st.ctx.index < st.last then
      if st.ctx.index + 1 = (i : Int) then
        let st1 : St := { st with ctx := { st.ctx with index := st.ctx.index + 1 } }
        match h with
        | .acts l =>
          match runActs (loop (i + 1) rest) i l (st1.ev (.enter i)) with
          | (st2, none) => loop (i + 1) rest (st2.ev (.leave i))
          | r => r
        | .builtin l =>
          match runS (.h i) l st1 with
          | (st2, none) => loop (i + 1) rest st2
          | (st2, some v) => (st2, some (.panic v))
        | .panicsHandler =>
          -- `defer func() { if err := recover(); err != nil { c.Resp.WriteHeader(500) } }(); c.Next()`
          match loop (i + 1) rest st1 with
          | (st2, none) => loop (i + 1) rest st2
          | (st2, some (.panic _)) =>
            match respWriteHeader (.h i) st2 500 with
            | (st3, none) => loop (i + 1) rest st3       -- recovered: the handler returns, the caller's loop goes on
            | (st3, some v) => (st3, some (.panic v))    -- a panic inside the deferred function
          | r => r
      else if st.ctx.index + 1 > (i : Int) then
        loop (i + 1) rest st      -- the cursor is ahead (after a recovered panic or an `Abort`): walk on to `handlers[c.index+1]`
      else (st, some .off)        -- the cursor moved backwards
    else (st, none)

/-! ### requests and `handleHTTPRequest` -/

/-- which branch of `handleHTTPRequest` a request takes, with what it stores before the chain runs -/
inductive Kind
  | route (params : Params) (name path : Bytes)
  | notAllowed (allowed : List Bytes)
  | notFound
  deriving DecidableEq, Repr

/-- one request: identities of the `http.ResponseWriter` and `*http.Request`, the branch, and the complete
    chain (global ++ route/405/404 handlers ++ main handler) -/
structure Req where
  w : Nat
  r : Nat
  kind : Kind
  chain : List Handler
  deriving DecidableEq, Repr

/-- the router as far as dispatch reads it -/
structure Cfg where
  rid : Nat
  hook : Option (List SAct)       -- `OnPanic`
  onError : Option (List SAct)    -- `OnError`
  deriving DecidableEq, Repr

def ctxKey (name : String) : Bytes := Bytes.ofString ((Facts.ctxKeys.lookup name).getD "")

def keyRecover : Bytes := ctxKey "CTXRecoverResult"
def keyAllowed : Bytes := ctxKey "CTXAllowedMethods"
def keyRouteName : Bytes := ctxKey "CTXCurrentRouteName"
def keyRoutePath : Bytes := ctxKey "CTXCurrentRoutePath"

/-- what `handleHTTPRequest` stores in the context before the chain -/
def prelude (k : Kind) (c : Ctx) : Ctx :=
  match k with
  | .route ps name path => (({ c with params := ps }).set keyRouteName (.str name)).set keyRoutePath (.str path)
  | .notAllowed al => c.set keyAllowed (.strs al)
  | .notFound => c

/-- the state in which `ctx.Next()` is called -/
def start (rq : Req) (c : Ctx) : St :=
  { ctx := { prelude rq.kind c with handlers := rq.chain }, trace := [], log := [] }

/-- `if r.OnError != nil && len(ctx.Errors) > 0 { r.OnError(ctx) }` -/
def runOnError (cfg : Cfg) (st : St) : St × Option PVal :=
  match cfg.onError with
  | none => (st, none)
  | some eh =>
    if st.ctx.errors = [] then (st, none) else
    match runS .onErr eh (st.ev .errEnter) with
    | (st', none) => (st'.ev .errLeave, none)
    | r => r

/-- the part of `handleHTTPRequest` below the `defer` -/
def body (cfg : Cfg) (rq : Req) (c : Ctx) : Out :=
  match loop 0 rq.chain (start rq c) with
  | (st1, none) =>
    match runOnError cfg st1 with
    | (st2, none) => (ensureWH st2, none)
    | (st2, some v) => (st2, some (.panic v))
  | r => r

/-- the state in which the `OnPanic` hook starts: `ctx.Set(CTXRecoverResult, ret)` -/
def hookStart (v : PVal) (st : St) : St :=
  ({ st with ctx := st.ctx.set keyRecover (.pv v) }).ev .hookEnter

/-- `handleHTTPRequest(ctx)` -/
def handleRequest (cfg : Cfg) (rq : Req) (c : Ctx) : Out :=
  match cfg.hook with
  | none => body cfg rq c
  | some hk =>
    match body cfg rq c with
    | (st, some (.panic v)) =>
      match runS .hook hk (hookStart v st) with
      | (st', none) => (ensureWH (st'.ev .hookLeave), none)
      | (st', some v') => (st', some (.panic v'))     -- a panic in the deferred function replaces the first one
    | r => r

/-! ### `ServeHTTP` and the pool -/

inductive Outcome
  | returned
  | stopped (s : Stop)
  deriving DecidableEq, Repr

/-- everything observable of one `ServeHTTP` call -/
structure Result where
  outcome : Outcome
  trace : List TEv
  log : List WEv
  deriving DecidableEq, Repr

def Result.ofOut (o : Out) : Result :=
  { outcome := match o.2 with | none => .returned | some s => .stopped s, trace := o.1.trace, log := o.1.log }

/-- `sync.Pool.Get`: ANY pooled value (`pick = some n`, `n` in range) or `New()` -/
def poolGet (rid : Nat) (pool : List Ctx) (pick : Option Nat) : Ctx × List Ctx :=
  match pick with
  | none => (newCtx rid, pool)
  | some n =>
    match pool[n]? with
    | some c => (c, pool.eraseIdx n)
    | none => (newCtx rid, pool)

/-- `ServeHTTP`: get, `Init`, dispatch, and `Put` only when dispatch returned -/
def serve (cfg : Cfg) (pool : List Ctx) (pick : Option Nat) (rq : Req) : Result × List Ctx :=
  let (c, pool') := poolGet cfg.rid pool pick
  let o := handleRequest cfg rq (c.init rq.w rq.r)
  (Result.ofOut o, match o.2 with | none => o.1.ctx :: pool' | some _ => pool')

/-- the same request as the first one on a freshly built router -/
def serveFresh (cfg : Cfg) (rq : Req) : Result := (serve cfg [] none rq).1

/-- a history: requests (each with the pool's choice) and arbitrary losses from the pool (GC) -/
inductive Step
  | req (pick : Option Nat) (rq : Req)
  | drop (n : Nat)
  deriving DecidableEq, Repr

def runHist (cfg : Cfg) : List Ctx → List Step → List Result × List Ctx
  | pool, [] => ([], pool)
  | pool, .drop n :: rest => runHist cfg (pool.eraseIdx n) rest
  | pool, .req pick rq :: rest =>
    let (res, pool') := serve cfg pool pick rq
    let (more, pool'') := runHist cfg pool' rest
    (res :: more, pool'')

/-- a history in which the router is reconfigured between requests (`OnPanic` / `OnError` replaced or removed) -/
def runHistCfg : List Ctx → List (Cfg × Option Nat × Req) → List Result
  | _, [] => []
  | pool, (cfg, pick, rq) :: rest =>
    let (res, pool') := serve cfg pool pick rq
    res :: runHistCfg pool' rest

/-- the requests of a history, in order -/
def Step.reqs : List Step → List Req
  | [] => []
  | .drop _ :: rest => Step.reqs rest
  | .req _ rq :: rest => rq :: Step.reqs rest

/-! ### the router's tables as far as the chain assembly reads them -/

structure Route where
  handlers : List Handler         -- group ++ route middleware
  main : Handler
  deriving DecidableEq, Repr

/-- `http.NotFound(c.Resp, c.Req)` -/
def default404 : Handler :=
  .builtin [.respWH 404, .write (Bytes.ofString "404 page not found\n")]

/-- `internal405Handler` for a method other than OPTIONS: `http.Error(c.Resp, "Method not allowed", 405)` -/
def default405 : Handler :=
  .builtin [.respWH 405, .write (Bytes.ofString "Method not allowed\n")]

/-- the chain of a request: `r.handlers ++ handlers (++ mainHandler)` with the default 404/405 chains -/
def assemble (globals : List Handler) (noRoute noAllowed : List Handler) : Option Route → Kind → List Handler
  | some rt, .route _ _ _ => globals ++ rt.handlers ++ [rt.main]
  | _, .notAllowed _ => globals ++ (if noAllowed.isEmpty then [default405] else noAllowed)
  | _, _ => globals ++ (if noRoute.isEmpty then [default404] else noRoute)

end Rux.Dispatch
