import RuxModel.Model.Regex
import RuxModel.Generated.Facts
/-
  Model of route pattern compilation and matching:
    parse_match.go: parseParamRoute;  utils.go: quotePointChar, checkAndParseOptional, isFixedPath,
    getGlobalVar;  route.go: goodRegexString, goodRegexGroups, matchRegex.

  The model follows the string rewriting of the code step by step up to the regexp source text
  (`regexStr`, compared verbatim with `route.regex.String()` by the correspondence engine), then reads
  that text back as a structured pattern: levels of segments
        segs₀ (?: segs₁ (?: segs₂ )? )?
  where a segment is a literal byte string or a capturing group around a variable regex.
  Core Lean only.
-/
namespace Rux

/-! ### `varRegex = {[^/]+}` : FindAllString -/

/-- index of the last `}` at position ≥ 1 of a `/`-free region -/
def lastCloseIdx (region : Bytes) : Option Nat :=
  let idxs := (List.range region.length).filter fun k => k ≥ 1 && region[k]? = some 0x7D
  idxs.getLast?

/-- all non-overlapping leftmost matches of `{[^/]+}` -/
def findVars : Nat → Bytes → List Bytes
  | 0, _ => []
  | _ + 1, [] => []
  | fuel + 1, b :: t =>
    if b = 0x7B then
      let region := t.takeWhile (· ≠ 0x2F)
      match lastCloseIdx region with
      | some k => (0x7B :: region.take (k + 1)) :: findVars fuel (t.drop (k + 1))
      | none => findVars fuel t
    else findVars fuel t

/-! ### `strings.NewReplacer(pairs...).Replace` (generic algorithm, non-empty olds) -/

/-- first pair (in argument order) whose old string is a prefix of `s` -/
def firstPair (pairs : List (Bytes × Bytes)) (s : Bytes) : Option (Bytes × Bytes) :=
  pairs.find? fun p => !p.1.isEmpty && Bytes.hasPrefix s p.1

def replaceAll (pairs : List (Bytes × Bytes)) : Nat → Bytes → Bytes
  | 0, s => s
  | _ + 1, [] => []
  | fuel + 1, b :: t =>
    match firstPair pairs (b :: t) with
    | some (old, new) => new ++ replaceAll pairs fuel ((b :: t).drop old.length)
    | none => b :: replaceAll pairs fuel t

/-! ### global path variables, from the source -/

/-- the package-level map `globalVars` as it stands at one registration: (name, regex); the first binding of a
    name is the live one (`rux.SetGlobalVar` puts a new binding in front) -/
abbrev GVars := List (Bytes × Bytes)

/-- `getGlobalVar(name, anyMatch)` -/
def globalVarIn (gv : GVars) (name : Bytes) : Bytes :=
  match gv.find? fun kv => kv.1 = name with
  | some kv => kv.2
  | none => Facts.anyMatchB

/-- with the map of the source text (nobody called `SetGlobalVar`) -/
def globalVar (name : Bytes) : Bytes := globalVarIn Facts.globalVarsB name

/-! ### structured pattern -/

inductive Seg where
  | lit (b : Bytes)
  | var (re : Re)
  deriving Repr, DecidableEq

abbrev Levels := List (List Seg)

def segVars (segs : List Seg) : Nat := (segs.filter fun s => match s with | .var _ => true | _ => false).length

def levelsVars (ls : Levels) : Nat := (ls.map segVars).sum

/-- matches of a segment list against a prefix of `s`, in backtracking priority order:
    (captured substrings, remaining suffix) -/
def matchSegs : List Seg → Bytes → List (List Bytes × Bytes)
  | [], s => [([], s)]
  | .lit l :: rest, s => if Bytes.hasPrefix s l then matchSegs rest (s.drop l.length) else []
  | .var re :: rest, s =>
    (prefixLens re s).flatMap fun n =>
      (matchSegs rest (s.drop n)).map fun cr => (s.take n :: cr.1, cr.2)

/-- full matches of `segs₀(?:segs₁(?:…)?)?` against the whole of `s`, in priority order.
    An absent optional level contributes empty captures (Go reports "" for unmatched groups). -/
def matchLevels : Levels → Bytes → List (List Bytes)
  | [], s => if s = [] then [[]] else []
  | [segs], s => (matchSegs segs s).filterMap fun cr => if cr.2 = [] then some cr.1 else none
  | segs :: l2 :: rest, s =>
    (matchSegs segs s).flatMap fun cr =>
      (matchLevels (l2 :: rest) cr.2).map (cr.1 ++ ·) ++
        (if cr.2 = [] then [cr.1 ++ List.replicate (levelsVars (l2 :: rest)) []] else [])

/-- `Route.matchRegex`: the captures of the first match, if any -/
def matchPat (ls : Levels) (s : Bytes) : Option (List Bytes) := (matchLevels ls s).head?

/-! ### reading the regexp source text back as levels -/

inductive PatErr where
  | unsupported      -- outside the modelled fragment: the model does not know what Go does
  deriving Repr, DecidableEq

/-- split `inner)rest` at the `)` that closes a group opened just before `inner`
    (tracks nesting, escapes and bracket classes) -/
def splitGroup : Nat → Bytes → Nat → Bool → Bytes → Option (Bytes × Bytes)
  | 0, _, _, _, _ => none
  | _ + 1, [], _, _, _ => none
  | fuel + 1, b :: t, depth, inClass, acc =>
    if b = 0x5C then
      match t with
      | e :: t' => splitGroup fuel t' depth inClass (e :: b :: acc)
      | [] => none
    else if inClass then
      splitGroup fuel t depth (b ≠ 0x5D) (b :: acc)
    else if b = 0x5B then splitGroup fuel t depth true (b :: acc)
    else if b = 0x28 then splitGroup fuel t (depth + 1) false (b :: acc)
    else if b = 0x29 then
      if depth = 0 then some (acc.reverse, t) else splitGroup fuel t (depth - 1) false (b :: acc)
    else splitGroup fuel t depth false (b :: acc)

def pushLit (b : Nat) : List Seg → List Seg
  | .lit l :: rest => .lit (l ++ [b]) :: rest      -- segments are kept in reverse order while parsing
  | segs => .lit [b] :: segs

/-- is `s` exactly `k` copies of `)?` -/
def isClosers : Nat → Bytes → Bool
  | 0, s => s.isEmpty
  | k + 1, 0x29 :: 0x3F :: rest => isClosers k rest
  | _ + 1, _ => false

/-- parse the regexp text between `^` and `$`. `cur` = segments of the current level (reversed),
    `done` = finished levels (reversed). -/
def parseLevels : Nat → Bytes → List Seg → List (List Seg) → Option Levels
  | 0, _, _, _ => none
  | fuel + 1, s, cur, done =>
    match s with
    | [] => if done.isEmpty then some [cur.reverse] else none
    | 0x5C :: e :: rest =>
      if e = 0x2E then parseLevels fuel rest (pushLit e cur) done else none
    | 0x28 :: 0x3F :: 0x3A :: rest =>                         -- optional level opens
      parseLevels fuel rest [] (cur.reverse :: done)
    | 0x28 :: 0x3F :: _ => none
    | 0x28 :: rest =>                                         -- capturing group: a variable
      match splitGroup (rest.length + 1) rest 0 false [] with
      | some (inner, rest') =>
        match parseRe inner with
        | some re => parseLevels fuel rest' (.var re :: cur) done
        | none => none
      | none => none
    | 0x29 :: 0x3F :: rest =>                                 -- all optional levels close together at the end
      if isClosers done.length (0x29 :: 0x3F :: rest) then some ((cur.reverse :: done).reverse) else none
    | b :: rest =>
      -- bytes ≥ 0x80 are literal (the text is valid UTF-8, checked by `finish`)
      if ReParse.isMeta b then none else parseLevels fuel rest (pushLit b cur) done

/-! ### parseParamRoute -/

/-- why a definition is rejected (the code panics at registration) -/
inductive Reject where
  | handler | methods | method | optional | varRegex | groups | compile | options | limit
  deriving Repr, DecidableEq

structure RouteInfo where
  regexStr : Bytes          -- text between `^` and `$`
  start : Bytes
  first : Bytes
  names : List Bytes
  spath : Bytes
  levels : Levels
  runeSens : Bool
  deriving Repr

inductive Compiled where
  | ok (info : RouteInfo)
  | reject (why : Reject)
  | unsupported
  deriving Repr

/-- `checkAndParseOptional`: `none` = panic -/
def checkAndParseOptional (path : Bytes) : Option Bytes :=
  let noClosed := Bytes.trimRightByte 0x5D path
  let optionalNum := path.length - noClosed.length
  if optionalNum ≠ Bytes.countByte noClosed 0x5B then none
  else some (replaceAll [([0x5B], [0x28, 0x3F, 0x3A]), ([0x5D], [0x29, 0x3F])] (path.length + 1) path)

/-- `goodRegexString`: false = panic (message panic or index panic, both reject the route) -/
def goodRegexString (v : Bytes) : Bool :=
  match Bytes.indexByte v 0x28 with
  | none => true
  | some pos =>
    match v[pos + 1]? with
    | some c => c = 0x3F
    | none => false           -- v[pos+1] out of range: index panic

structure VarInfo where
  str : Bytes      -- the matched text `{...}`
  name : Bytes
  regex : Bytes
  hasRegex : Bool

def parseVarIn (gv : GVars) (str : Bytes) : VarInfo :=
  let nv := (str.drop 1).dropLast
  match Bytes.indexByte nv 0x3A with
  | some pos =>
    if pos > 0 then
      { str := str, name := Bytes.trimSpace (nv.take pos), regex := Bytes.trimSpace (nv.drop (pos + 1)), hasRegex := true }
    else { str := str, name := nv, regex := globalVarIn gv nv, hasRegex := false }
  | none => { str := str, name := nv, regex := globalVarIn gv nv, hasRegex := false }

def parseVar (str : Bytes) : VarInfo := parseVarIn Facts.globalVarsB str

def wrapBraces (n : Bytes) : Bytes := [0x7B] ++ n ++ [0x7D]
def wrapParens (v : Bytes) : Bytes := [0x28] ++ v ++ [0x29]

def allRuneSens (ls : Levels) : Bool :=
  ls.any fun segs => segs.any fun s => match s with | .var re => re.runeSensitive | _ => false

/-- `regexp.NumSubexp` of a regexp source text that compiles: unescaped `(` outside bracket classes that
    are not followed by `?` (or are followed by `?P<` / `?<name`: named groups capture too) -/
def countGroups : Bytes → Nat → Nat      -- state 0 = outside a class, 1 = class just opened, 2 = inside a class
  | [], _ => 0
  | 0x5C :: _ :: rest, st => countGroups rest (if st = 0 then 0 else 2)
  | b :: rest, 1 => if b = 0x5E then countGroups rest 1 else countGroups rest 2   -- a leading `]` is a literal
  | b :: rest, 2 => countGroups rest (if b = 0x5D then 0 else 2)
  | 0x5B :: rest, _ => countGroups rest 1
  | 0x28 :: 0x3F :: 0x50 :: 0x3C :: rest, _ => 1 + countGroups rest 0
  | 0x28 :: 0x3F :: 0x3C :: c :: rest, _ =>
      (if c = 0x3D ∨ c = 0x21 then 0 else 1) + countGroups rest 0
  | 0x28 :: 0x3F :: rest, _ => countGroups rest 0
  | 0x28 :: rest, _ => 1 + countGroups rest 0
  | _ :: rest, _ => countGroups rest 0

/-- compile step: a pattern whose number of capturing groups differs from the number of variable names
    is rejected whether or not the text compiles (MustCompile panics, or goodRegexGroups does) -/
def finish (regexStr start first spath : Bytes) (names : List Bytes) : Compiled :=
  if !Bytes.validUTF8 regexStr then .reject .compile else        -- MustCompile: "invalid UTF-8"
  if countGroups regexStr 0 ≠ names.length then .reject .groups else
  match parseLevels (regexStr.length + 2) regexStr [] [] with
  | none => .unsupported
  | some ls =>
    if levelsVars ls ≠ names.length then .reject .groups      -- goodRegexGroups (NumSubexp ≠ len(matches))
    else .ok { regexStr := regexStr, start := start, first := first, names := names, spath := spath,
               levels := ls, runeSens := allRuneSens ls }

/-- `parseParamRoute` for a (formatted, non-fixed) route path; `gv` = the global path variables in force when
    the route is registered (a plain `{name}` is resolved through them at that moment, once) -/
def compileRouteIn (gv : GVars) (path : Bytes) : Compiled :=
  let ss := findVars (path.length + 1) path
  if ss.isEmpty then
    -- no vars, but contains optional char
    match checkAndParseOptional (Bytes.quoteDots path) with
    | none => .reject .optional
    | some regexStr => finish regexStr [] [] [] []
  else
    let vars := ss.map (parseVarIn gv)
    if vars.any fun v => !goodRegexString v.regex then .reject .varRegex else
    let names := vars.map (·.name)
    let rawVar := (vars.filter (·.hasRegex)).map fun v => (v.str, wrapBraces v.name)
    let varRe := vars.map fun v =>
      if v.hasRegex then (wrapBraces v.name, wrapParens v.regex) else (v.str, wrapParens v.regex)
    let path1 := if rawVar.isEmpty then path else replaceAll rawVar (path.length + 1) path
    let spath := if rawVar.isEmpty then [] else path1
    let argPos := (Bytes.indexByte path1 0x7B).getD 0     -- Go: -1 when absent; then start = path[0:-1] panics
    let optPos := Bytes.indexByte path1 0x5B
    match Bytes.indexByte path1 0x7B with
    | none => .unsupported                                  -- every var was rewritten away (name without braces?): not modelled
    | some _ =>
    let minPos := match optPos with
      | some o => if o > 0 ∧ argPos > o then o else argPos
      | none => argPos
    let start0 := path1.take minPos
    let firstSeg : Bytes :=
      if start0.length > 1 then
        match Bytes.indexByte (start0.drop 1) 0x2F with
        | some pos => if pos > 0 then (start0.drop 1).take pos else []
        | none => []
      else []
    let start : Bytes :=
      if start0.length > 1 then
        if !firstSeg.isEmpty ∧ start0.length - firstSeg.length = 2 then [] else start0
      else []
    let path2 := Bytes.quoteDots path1
    let path3? := match optPos with
      | some o => if o > 0 then checkAndParseOptional path2 else some path2
      | none => some path2
    match path3? with
    | none => .reject .optional
    | some path3 =>
      let regexStr := replaceAll varRe (path3.length + 1) path3
      finish regexStr start firstSeg spath names

/-- with the global variables of the source text -/
def compileRoute (path : Bytes) : Compiled := compileRouteIn Facts.globalVarsB path

/-- `isFixedPath` -/
def isFixedPath (s : Bytes) : Bool := (Bytes.indexByte s 0x7B).isNone && (Bytes.indexByte s 0x5B).isNone

/-- params as an association list in capture order; a later duplicate name overwrites an earlier one -/
def mkParams : List Bytes → List Bytes → List (Bytes × Bytes)
  | n :: ns, v :: vs =>
    let rest := mkParams ns vs
    if rest.any (fun kv => kv.1 = n) then rest else (n, v) :: rest
  | _, _ => []

end Rux
