import RuxModel.Drv.Common
import RuxModel.Model.Conc
import RuxModel.Generated.Facts
/-
  driver engine `conc` (C03): the interleaving model behind the line protocol.

  setup ops (answer `ok`, everything before the first `adv`/`end`):
    opt cache <cap> | opt mna | opt fallback
    prog <hid> <acts>            acts: `-` or comma list of  P | E<n> | N | A | SP | WP:<k>:<v> | SD:<k>:<v> |
                                 GD:<k> | ST<n> | W:<hex> | CP
                                 (`CP`: the handler keeps a `Context.Copy()`. Nothing the request itself or any
                                 other request can observe depends on it, so it is no step of the model: the
                                 token is dropped here; the harness checks the kept copy with an oracle)
    use <hids>                   one `Router.Use` call
    group <gid> <prefix> <hids> <usehids>      group middleware (Group argument, then Use inside the group)
    route <rid> <gid|-> <methods> <pattern> <name> <main> <usecalls>   usecalls: `-` or `h.h/h` (one `/` part per Use)
                                 (`RR`: the handler replaces c.Resp by a transparent wrapper and does not put the
                                 old writer back; like `CP` it is no step of the model, the token is dropped; the
                                 harness checks that no other request ever finds that wrapper in its context)
    notfound <hids> | notallowed <hids>
    onpanic <hid>                the OnPanic hook; together with the action `X` (panic) of a prog it is outside this
                                 model (Model/Conc: "not modelled: panics inside handlers"): the whole case is
                                 answered `unsupported`, the harness checks it with its oracles (solo run, no two
                                 in-flight requests on one pooled context)
    caps <len>:<cap> <len>:<cap>,...   length and capacity of Router.handlers and of every route.handlers, as the
                                 harness reads them from a scratch router (the lengths must be the model's)
    tbl stable <key> <rid> | tbl dyn <key> <rid> <params>    the pure tables, `params` = `-` or `k:v,k:v`
    tblend <n>                   the tables are complete: n `tbl` lines (a case that lost one is not well formed)
    req <i> <method> <path>
  schedule ops:
    adv <i>     release request i until its next park / its end; answer
                `<phase> <status> <body> <allow> <trace> ;; <cache keys, most recent first>`
    end         run every unfinished request to its end (in id order); answer all outcomes, `|` separated
  A case that is not well formed (dangling ids, setup after the schedule started, ...) is answered `unsupported`.
-/
namespace Rux.Drv.ConcE
open Rux.Drv
open Rux.Conc

structure ConcRoute where
  name : Bytes
  mws : List H
  main : H
  cap : Nat

structure ConcState where
  caching : Bool := false
  cacheCap : Nat := 0
  mna : Bool := false
  fallback : Bool := false
  progs : List (Nat × List Act) := []
  glob : List H := []
  globCap : Nat := 0
  groups : List (Nat × List H) := []
  routes : List ConcRoute := []
  noRoute : List H := []
  noAllowed : List H := []
  stable : List (Bytes × Nat) := []
  dyn : List (Bytes × CVal) := []
  reqs : List Local := []
  tblDone : Bool := false
  sh : Option Shared := none
  bad : Bool := false

def parseHids (s : String) : Option (List H) :=
  (parseNatList s).map (·.map H.user)

def parsePair (s : String) : Option (Bytes × Bytes) :=
  match s.splitOn ":" with
  | [k, v] =>
    match Bytes.ofHex k, Bytes.ofHex v with
    | some k, some v => some (k, v)
    | _, _ => none
  | _ => none

def parseParams (s : String) : Option Params :=
  if s = "-" then some [] else (s.splitOn ",").mapM parsePair

def parseAct (s : String) : Option Act :=
  if s = "P" then some .park
  else if s = "N" then some .next
  else if s = "A" then some .abort
  else if s = "SP" then some .seeParams
  else if s.startsWith "WP:" then
    match s.splitOn ":" with
    | [_, k, v] =>
      match Bytes.ofHex k, Bytes.ofHex v with
      | some k, some v => some (.setParam k v)
      | _, _ => none
    | _ => none
  else if s.startsWith "SD:" then
    match s.splitOn ":" with
    | [_, k, v] =>
      match Bytes.ofHex k, Bytes.ofHex v with
      | some k, some v => some (.setData k v)
      | _, _ => none
    | _ => none
  else if s.startsWith "GD:" then (Bytes.ofHex (s.drop 3).toString).map .seeData
  else if s.startsWith "ST" then (s.drop 2).toString.toNat?.map .setStatus
  else if s.startsWith "W:" then (Bytes.ofHex (s.drop 2).toString).map .write
  else if s.startsWith "E" then (s.drop 1).toString.toNat?.map .emit
  else none

def parseActs (s : String) : Option (List Act) :=
  if s = "-" then some [] else ((s.splitOn ",").filter (fun t => t ≠ "CP" && t ≠ "RR")).mapM parseAct

def parseLenCap (s : String) : Option (Nat × Nat) :=
  match s.splitOn ":" with
  | [l, c] =>
    match l.toNat?, c.toNat? with
    | some l, some c => some (l, c)
    | _, _ => none
  | _ => none

def parseUseCalls (s : String) : Option (List H) :=
  if s = "-" then some []
  else ((s.splitOn "/").mapM (fun (part : String) => ((part.splitOn ".").mapM String.toNat?))).map
    (fun ls => ls.flatten.map H.user)

/-! ### printing -/

def sortParams : Params → Params
  | [] => []
  | kv :: t => ins kv (sortParams t)
where
  ins (kv : Bytes × Bytes) : Params → Params
    | [] => [kv]
    | y :: ys => if bytesLe kv.1 y.1 then kv :: y :: ys else y :: ins kv ys

def showParams (p : Option Params) : String :=
  match p with
  | none => "pnil"
  | some ps => "p[" ++ String.intercalate "&" ((sortParams ps).map fun kv => kv.1.toHex ++ "=" ++ kv.2.toHex) ++ "]"

def showEv : Ev → String
  | .enter id => s!"e{id}"
  | .tag t => s!"t{t}"
  | .params p => showParams p
  | .data k v => "d" ++ k.toHex ++ "=" ++ (match v with | some v => v.toHex | none => "nil")

def showTrace (t : List Ev) : String :=
  if t.isEmpty then "-" else String.intercalate "." (t.map showEv)

def showPhase (l : Local) : String :=
  match l.pc with
  | .done => "done"
  | .crashed => "crashed"
  | .fresh => "new"
  | _ => if atPark l then "parked" else "stuck"

def showLocal (l : Local) : String :=
  s!"{showPhase l} {l.outStatus} {l.body.toHex} " ++
    (match l.allowHdr with | some a => a.toHex | none => "~") ++ " " ++ showTrace l.trace

def showKeys (sh : Shared) : String := hexList sh.cache.keys

/-! ### building the model state -/

def lookupNat {α : Type} (k : Nat) : List (Nat × α) → Option α
  | [] => none
  | (k', v) :: t => if k' = k then some v else lookupNat k t

def lookupKey {α : Type} (k : Bytes) : List (Bytes × α) → Option α
  | [] => none
  | (k', v) :: t => if k' = k then some v else lookupKey k t

def pad (cells : List H) (cap : Nat) : List H := cells ++ List.replicate (cap - cells.length) H.nil

def ConcState.cfg (s : ConcState) : Cfg :=
  { stable := fun k => lookupKey k s.stable,
    dyn := fun k => lookupKey k s.dyn,
    prog := fun id => (lookupNat id s.progs).getD [],
    caching := s.caching, fallback := s.fallback, mna := s.mna,
    methods := Rux.Facts.anyMethods.map Bytes.ofString,
    pick := fun _ => 0 }

/-- arrays: 0 = Router.handlers, 1 = noRoute, 2 = noAllowed, 3 + r = route r -/
def ConcState.static (s : ConcState) : Static :=
  { heap := [pad s.glob s.globCap, s.noRoute, s.noAllowed] ++ s.routes.map (fun r => pad r.mws r.cap),
    glob := ⟨0, s.glob.length, max s.globCap s.glob.length⟩,
    noRoute := ⟨1, s.noRoute.length, s.noRoute.length⟩,
    noAllowed := ⟨2, s.noAllowed.length, s.noAllowed.length⟩,
    routes := (s.routes.zipIdx).map (fun (r, i) =>
      { name := r.name, mws := ⟨3 + i, r.mws.length, max r.cap r.mws.length⟩, main := r.main }) }

def ConcState.shared (s : ConcState) : Shared :=
  match s.sh with
  | some sh => sh
  | none => ⟨s.static, Cache.empty s.cacheCap, []⟩

/-- every id the tables mention exists -/
def ConcState.wellFormed (s : ConcState) : Bool :=
  s.tblDone && s.stable.all (fun kv => kv.2 < s.routes.length) && s.dyn.all (fun kv => kv.2.1 < s.routes.length) &&
  s.glob.length ≤ max s.globCap s.glob.length

def fuel : Nat := 200000

def setReq (reqs : List Local) (i : Nat) (l : Local) : List Local := reqs.set i l

def finishAll (cfg : Cfg) : List Local → Nat → Shared → List Local → Shared × List Local
  | [], _, sh, acc => (sh, acc.reverse)
  | l :: t, i, sh, acc =>
    let r := endOne cfg 64 sh l
    finishAll cfg t (i + 1) r.1 (r.2 :: acc)
where
  /-- release the request again and again until it is final (a request parks finitely often) -/
  endOne (cfg : Cfg) : Nat → Shared → Local → Shared × Local
    | 0, sh, l => (sh, l)
    | n + 1, sh, l =>
      if l.isFinal then (sh, l)
      else
        let r := advance cfg fuel sh l
        endOne cfg n r.1 r.2

def setup (s : ConcState) (f : ConcState → Option ConcState) : ConcState × String :=
  if s.bad || s.sh.isSome then ({ s with bad := true }, "unsupported")
  else
    match f s with
    | some s' => (s', "ok")
    | none => ({ s with bad := true }, "unsupported")

def concStep (s : ConcState) : List String → ConcState × String
  | ["opt", "cache", cap] => setup s fun s => cap.toNat?.map fun n => { s with caching := true, cacheCap := n }
  | ["opt", "mna"] => setup s fun s => some { s with mna := true }
  | ["opt", "fallback"] => setup s fun s => some { s with fallback := true }
  | ["prog", hid, acts] =>
    setup s fun s => do
      let id ← hid.toNat?
      let as ← parseActs acts
      pure { s with progs := (id, as) :: s.progs }
  | ["use", hids] => setup s fun s => (parseHids hids).map fun hs => { s with glob := s.glob ++ hs }
  | ["group", gid, _prefix, hids, usehids] =>
    setup s fun s => do
      let g ← gid.toNat?
      let a ← parseHids hids
      let b ← parseHids usehids
      pure { s with groups := (g, a ++ b) :: s.groups }
  | ["route", rid, gid, _methods, _pattern, name, main, usecalls] =>
    setup s fun s => do
      let r ← rid.toNat?
      if r ≠ s.routes.length then none
      let gm ← (if gid = "-" then some [] else gid.toNat?.bind fun g => lookupNat g s.groups)
      let nm ← Bytes.ofHex name
      let m ← main.toNat?
      let us ← parseUseCalls usecalls
      pure { s with routes := s.routes ++ [{ name := nm, mws := gm ++ us, main := .user m, cap := 0 }] }
  | ["onpanic", _] => ({ s with bad := true }, "unsupported")
  | ["notfound", hids] => setup s fun s => (parseHids hids).map fun hs => { s with noRoute := hs }
  | ["notallowed", hids] => setup s fun s => (parseHids hids).map fun hs => { s with noAllowed := hs }
  | ["caps", g, rs] =>
    let r := setup s fun s => do
      let (gl, gc) ← parseLenCap g
      let rc ← (if rs = "-" then some [] else (rs.splitOn ",").mapM parseLenCap)
      if rc.length ≠ s.routes.length then none
      if gl ≠ s.glob.length || gc < gl then none
      if !((s.routes.zip rc).all fun (r, lc) => r.mws.length = lc.1 && lc.1 ≤ lc.2) then none
      pure { s with globCap := gc, routes := (s.routes.zip rc).map fun (r, lc) => { r with cap := lc.2 } }
    (r.1, if r.2 = "ok" then "ok ;; caps-agree" else r.2)
  | ["tbl", "stable", key, rid] =>
    let r := setup s fun s => do
      let k ← Bytes.ofHex key
      let r ← rid.toNat?
      pure { s with stable := s.stable ++ [(k, r)] }
    (r.1, if r.2 = "ok" then "ok ;; tbl-agree" else r.2)
  | ["tbl", "dyn", key, rid, params] =>
    let r := setup s fun s => do
      let k ← Bytes.ofHex key
      let r ← rid.toNat?
      let ps ← parseParams params
      pure { s with dyn := s.dyn ++ [(k, (r, ps))] }
    (r.1, if r.2 = "ok" then "ok ;; tbl-agree" else r.2)
  | ["tblend", n] =>
    setup s fun s => do
      let k ← n.toNat?
      if s.stable.length + s.dyn.length ≠ k then none
      pure { s with tblDone := true }
  | ["req", i, meth, path] =>
    setup s fun s => do
      let n ← i.toNat?
      if n ≠ s.reqs.length then none
      let p ← Bytes.ofHex path
      pure { s with reqs := s.reqs ++ [Local.fresh (Bytes.ofString meth) p] }
  | ["adv", i] =>
    if s.bad || !s.wellFormed then ({ s with bad := true }, "unsupported")
    else
      match i.toNat? with
      | none => (s, "bad-op")
      | some n =>
        match s.reqs[n]? with
        | none => ({ s with bad := true }, "unsupported")
        | some l =>
          let r := advance s.cfg fuel s.shared l
          ({ s with sh := some r.1, reqs := setReq s.reqs n r.2 }, showLocal r.2 ++ " ;; " ++ showKeys r.1)
  | ["end"] =>
    if s.bad || !s.wellFormed then ({ s with bad := true }, "unsupported")
    else
      let r := finishAll s.cfg s.reqs 0 s.shared []
      ({ s with sh := some r.1, reqs := r.2 },
       (if r.2.isEmpty then "-" else String.intercalate " | " (r.2.map showLocal)) ++ " ;; " ++ showKeys r.1)
  | ["timeoutmw"] =>
    -- a case of its own (go/harness/engine_conc_timeout.go): a handler that overruns the deadline of handlers.Timeout
    -- and a quick request served meanwhile, with plain handlers and with the static file handlers.  Whatever the
    -- middleware does about the deadline, every handler's bytes reach the response of ITS request: the slow request
    -- answers 200 with its complete body (the 504 comes after the commit and is dropped), the quick one its own body —
    -- also after the slow handler has finished.
    let one := "slow=200:736c6f772d726573756c74 fast=200:66617374 fast-afterwards=200:66617374"
    -- third part: a handler that panics after the deadline, with an OnPanic hook answering 500 "recovered": the
    -- client sees exactly the hook's answer
    (s, s!"plain {one} | static {one} | panic 500:7265636f7665726564")
  | _ => (s, "bad-op")

def concEngine : Engine := { σ := ConcState, init := {}, step := concStep }

end Rux.Drv.ConcE

namespace Rux.Drv
export ConcE (concEngine)
end Rux.Drv
