import RuxModel.Go.Bytes
/-
  Line-protocol plumbing shared by all driver engines.
  One request line in, one answer line out.  Byte strings are hex encoded (`-` = empty).
-/
namespace Rux.Drv

/-- an engine: a model state and a step function on tokenised lines -/
structure Engine where
  σ : Type
  init : σ
  step : σ → List String → σ × String

def tokens (line : String) : List String :=
  (line.splitOn " ").filter (· ≠ "")

def hexList (l : List Bytes) : String :=
  if l.isEmpty then "-" else String.intercalate "," (l.map Bytes.toHex)

def parseHexList (s : String) : Option (List Bytes) :=
  if s = "-" then some [] else (s.splitOn ",").mapM Bytes.ofHex

def natList (l : List Nat) : String :=
  if l.isEmpty then "-" else String.intercalate "," (l.map toString)

def parseNatList (s : String) : Option (List Nat) :=
  if s = "-" then some [] else (s.splitOn ",").mapM (·.toNat?)

end Rux.Drv
