import RuxModel.Drv.Common
import RuxModel.Go.Rt
/- driver engine `gostr`: the `strings` functions of Go/Bytes.lean behind the line protocol, so that the
   harness can compare each of them with the real Go function on generated strings. Stateless. -/
namespace Rux.Drv.GoStrE
open Rux.Drv
open Rux.Bytes

def optNat (o : Option Nat) : String := match o with | some n => toString n | none => "-1"

def goStrStep (u : Unit) : List String → Unit × String
  | ["trimspace", s] =>
    match ofHex s with | some s => (u, toHex (trimSpace s)) | none => (u, "bad-op")
  | ["trimleftspace", s] =>
    match ofHex s with | some s => (u, toHex (trimLeftSpace s)) | none => (u, "bad-op")
  | ["trimrightspace", s] =>
    match ofHex s with | some s => (u, toHex (trimRightSpace s)) | none => (u, "bad-op")
  | ["trimleft", s, c] =>
    match ofHex s, c.toNat? with | some s, some c => (u, toHex (trimLeftByte c s)) | _, _ => (u, "bad-op")
  | ["trimright", s, c] =>
    match ofHex s, c.toNat? with | some s, some c => (u, toHex (trimRightByte c s)) | _, _ => (u, "bad-op")
  | ["trimrightfunc", s, c] =>
    match ofHex s, c.toNat? with | some s, some c => (u, toHex (trimRightSpaceOrByte c s)) | _, _ => (u, "bad-op")
  | ["hasprefix", s, p] =>
    match ofHex s, ofHex p with | some s, some p => (u, boolStr (hasPrefix s p)) | _, _ => (u, "bad-op")
  | ["hassuffix", s, p] =>
    match ofHex s, ofHex p with | some s, some p => (u, boolStr (hasSuffix s p)) | _, _ => (u, "bad-op")
  | ["indexbyte", s, c] =>
    match ofHex s, c.toNat? with | some s, some c => (u, optNat (indexByte s c)) | _, _ => (u, "bad-op")
  | ["count", s, c] =>
    match ofHex s, c.toNat? with | some s, some c => (u, toString (countByte s c)) | _, _ => (u, "bad-op")
  | ["split", s, c] =>
    match ofHex s, c.toNat? with
    | some s, some c => (u, String.intercalate "," ((splitOnByte c s).map toHex))
    | _, _ => (u, "bad-op")
  | ["join", sep, l] =>
    match ofHex sep, parseHexList l with | some sep, some l => (u, toHex (join sep l)) | _, _ => (u, "bad-op")
  | ["toupper", s] =>
    match ofHex s with | some s => (u, toHex (toUpper s)) | none => (u, "bad-op")
  | ["quotedots", s] =>
    match ofHex s with | some s => (u, toHex (quoteDots s)) | none => (u, "bad-op")
  -- the counterparts that the Go→Lean translator uses (Go/Rt.lean)
  | ["index", s, p] =>
    match ofHex s, ofHex p with | some s, some p => (u, toString (GoRt.index s p)) | _, _ => (u, "bad-op")
  | ["contains", s, p] =>
    match ofHex s, ofHex p with | some s, some p => (u, boolStr (GoRt.contains s p)) | _, _ => (u, "bad-op")
  | ["splitn2", s, c] =>
    match ofHex s, c.toNat? with
    | some s, some c => (u, String.intercalate "," ((GoRt.splitN2 s c).map toHex))
    | _, _ => (u, "bad-op")
  | ["slice", s, lo, hi] =>
    match ofHex s, lo.toInt?, hi.toInt? with
    | some s, some lo, some hi =>
      (u, match GoRt.slice s lo hi with | .ok r => toHex r | .error _ => "panic:index")
    | _, _, _ => (u, "bad-op")
  | ["wrap8", x] =>
    match x.toInt? with | some x => (u, toString (GoRt.wrap8 x)) | none => (u, "bad-op")
  | _ => (u, "bad-op")

def goStrEngine : Engine := { σ := Unit, init := (), step := goStrStep }

end Rux.Drv.GoStrE

namespace Rux.Drv
export GoStrE (goStrEngine)
end Rux.Drv
