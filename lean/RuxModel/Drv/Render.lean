import RuxModel.Drv.Common
import RuxModel.Drv.Writer
import RuxModel.Model.Render
/-
  driver engine `render` (C19): the response helpers of one request after the other.

    req <GET|HEAD|POST> <accept-hex|none> <ct-hex|none> [<wkind>]   -> ok
        (<wkind> 0..7: which optional interfaces the harness's underlying writer has / real-server round trip;
         the model's underlying writer is the event log in every case, so the token is only validated)
    <helper> <args…>                                         -> skipped | ok|panic ret=<0|1|-> errs=<n> ;; len= st= ct=
    end                                                      -> done|escaped <log> sent=<ct at commit> errs=<n> ;; len= st= ct=

  value tokens are ignored by the model: the encoders' verdicts come with the line (`err` | hex).
-/
namespace Rux.Drv.RenderE
open Rux.Drv
open Rux.Drv.WriterE
open Rux.Writer Rux.Render

structure RenderSt where
  meth : Meth
  accept : Bytes
  ct0 : Option Bytes
  st : St
  dead : Bool          -- a helper panicked: the handler is gone, the panic leaves ServeHTTP
  deriving Repr

def RenderSt.init : RenderSt := ⟨.get, [], none, St.fresh none [], false⟩

def parseScript (s : String) : Option Script :=
  if s = "-" then some [] else
  (s.splitOn ",").mapM fun e =>
    match e.splitOn ":" with
    | [a, b] => do
      let a ← a.toNat?
      let b ← parseBool b
      pure (a, b)
    | _ => none

def parseEnc (s : String) : Option Enc :=
  if s = "err" then some .error else (Bytes.ofHex s).map .ok

def parseReads (s : String) : Option (List (Bytes × RErr)) :=
  if s = "-" then some [] else
  (s.splitOn ",").mapM fun e =>
    match e.splitOn ":" with
    | [d, k] => do
      let d ← Bytes.ofHex d
      let k ← (if k = "n" then some RErr.none else if k = "f" then some RErr.eof
               else if k = "x" then some RErr.fail else none)
      pure (d, k)
    | _ => none

/-- the content type of the named shortcuts of pkg/render (`blob` takes the one given) -/
def rblobCT (kind : String) (ct : Bytes) : Option Bytes :=
  if kind = "blob" then some ct
  else if kind = "text" ∨ kind = "plain" ∨ kind = "textbytes" then some ctText
  else if kind = "html" ∨ kind = "htmlbytes" then some ctHTML
  else none

inductive HRes
  | ctx (r : Res)                 -- Context helper
  | ret (s : St) (err : Bool)     -- pkg/render function / ShouldRender: returns the error

def parseHelper (m : Meth) (accept : Bytes) (st : St) : List String → Option HRes
  | ["status", code] => (intOfStr? code).map fun c => .ctx ⟨st.op (.setStatus c), false⟩
  | ["hdr", k, v] => do
      let k ← Bytes.ofHex k
      let v ← Bytes.ofHex v
      pure (.ctx ⟨st.op (if isContentType k then .setCT v else .setHeader), false⟩)
  | ["text", code, d, sc, _via] => do
      let c ← intOfStr? code; let d ← Bytes.ofHex d; let sc ← parseScript sc
      pure (.ctx (text c d { st with script := sc }))
  | ["html", code, d, sc, _via] => do
      let c ← intOfStr? code; let d ← parseData d; let sc ← parseScript sc
      pure (.ctx (html c d { st with script := sc }))
  | ["jsonbytes", code, d, sc] => do
      let c ← intOfStr? code; let d ← parseData d; let sc ← parseScript sc
      pure (.ctx (jsonBytes c d { st with script := sc }))
  | ["blob", code, ct, d, sc] => do
      let c ← intOfStr? code; let ct ← Bytes.ofHex ct; let d ← parseData d; let sc ← parseScript sc
      pure (.ctx (blob c ct d { st with script := sc }))
  | ["stream", code, ct, reads, sc, _rk] => do
      let c ← intOfStr? code; let ct ← Bytes.ofHex ct; let rs ← parseReads reads; let sc ← parseScript sc
      pure (.ctx (stream c ct rs { st with script := sc }))
  | ["json", code, _val, e, sc] => do
      let c ← intOfStr? code; let e ← parseEnc e; let sc ← parseScript sc
      pure (.ctx (json c e { st with script := sc }))
  | ["jsonp", code, cb, _val, e, sc] => do
      let c ← intOfStr? code; let cb ← Bytes.ofHex cb; let e ← parseEnc e; let sc ← parseScript sc
      pure (.ctx (jsonp c cb e { st with script := sc }))
  | ["xml", code, _val, e, sc, _indent] => do
      let c ← intOfStr? code; let e ← parseEnc e; let sc ← parseScript sc
      pure (.ctx (xml c e { st with script := sc }))
  | ["nocontent"] => some (.ctx (noContent st))
  | ["redirect", code, _url, body, sc] => do
      let c ← (if code = "d" then some none else (intOfStr? code).map some)
      let b ← Bytes.ofHex body; let sc ← parseScript sc
      pure (.ctx (redirect m c b { st with script := sc }))
  | ["httperror", code, msg, sc] => do
      let c ← intOfStr? code; let msg ← Bytes.ofHex msg; let sc ← parseScript sc
      pure (.ctx (httpError c msg { st with script := sc }))
  | ["rblob", kind, ct, d, sc] => do
      let ct ← Bytes.ofHex ct; let ct ← rblobCT kind ct; let d ← parseData d; let sc ← parseScript sc
      let r := rBlob ct d { st with script := sc }
      pure (.ret r.1 r.2)
  | ["rjson", _variant, _val, e, sc] => do
      let e ← parseEnc e; let sc ← parseScript sc
      let r := rJSON e { st with script := sc }
      pure (.ret r.1 r.2)
  | ["rjsonp", cb, _val, e, sc] => do
      let cb ← Bytes.ofHex cb; let e ← parseEnc e; let sc ← parseScript sc
      let r := rJSONP cb e { st with script := sc }
      pure (.ret r.1 r.2)
  | ["rxml", _variant, _val, e, sc] => do
      let e ← parseEnc e; let sc ← parseScript sc
      let r := rXML e { st with script := sc }
      pure (.ret r.1 r.2)
  | ["rview"] => let r := rView st; some (.ret r.1 r.2)
  | ["should", code, _val, e, sc] => do
      let c ← intOfStr? code; let e ← parseEnc e; let sc ← parseScript sc
      let r := shouldRender c (rJSON e) { st with script := sc }
      pure (.ret r.1 r.2)
  | ["auto", _val, vk, vd, ej, ex, em, sc] => do
      let vd ← Bytes.ofHex vd
      let v ← (if vk = "s" then some (Val.str vd) else if vk = "b" then some (Val.bytes vd)
               else if vk = "o" then some Val.other else none)
      let ej ← parseEnc ej; let ex ← parseEnc ex; let em ← parseEnc em; let sc ← parseScript sc
      let r := rAuto accept v ⟨ej, ex, em⟩ { st with script := sc }
      pure (.ret r.1 r.2)
  | _ => none

def reqStep (s : RenderSt) (m accept ct : String) : RenderSt × String :=
  match parseMeth m, parseCT accept, parseCT ct with
  | some m, some a, some ct => (⟨m, a.getD [], ct, St.fresh ct [], false⟩, "ok")
  | _, _, _ => (s, "bad-op")

def renderStep (s : RenderSt) : List String → RenderSt × String
  | ["req", m, accept, ct] => reqStep s m accept ct
  | ["req", m, accept, ct, wkind] =>
    match wkind.toNat? with
    | some k => if k ≤ 7 then reqStep s m accept ct else (s, "bad-op")
    | none => (s, "bad-op")
  | ["end"] =>
    let f := if s.dead then s.st.w else s.st.finish
    ({ s with st := St.fresh s.ct0 [], dead := false },
     s!"{if s.dead then "escaped" else "done"} {logStr f.log} sent={sentStr f.sent} errs={s.st.errs} ;; len={f.length} st={f.status} ct={ctStr f.ctype}")
  | toks =>
    match parseHelper s.meth s.accept s.st toks with
    | none => (s, "bad-op")
    | some h =>
      if s.dead then (s, "skipped") else
      match h with
      | .ctx r =>
        let w := r.st.w
        ({ s with st := r.st, dead := r.panicked },
         s!"{if r.panicked then "panic" else "ok"} ret=- errs={r.st.errs} ;; len={w.length} st={w.status} ct={ctStr w.ctype}")
      | .ret st err =>
        let w := st.w
        ({ s with st := st },
         s!"ok ret={boolStr err} errs={st.errs} ;; len={w.length} st={w.status} ct={ctStr w.ctype}")

def renderEngine : Engine := { σ := RenderSt, init := RenderSt.init, step := renderStep }

end Rux.Drv.RenderE

namespace Rux.Drv
export RenderE (renderEngine)
end Rux.Drv
