import RuxModel.Drv.Common
import RuxModel.Model.Cache
/- driver engine `lru`: the cache model behind the line protocol -/
namespace Rux.Drv.LruE
open Rux.Drv

def lruStep (c : Cache Bytes Nat) : List String → Cache Bytes Nat × String
  | ["new", cap] =>
    match cap.toNat? with
    | some n => (Cache.empty n, "ok")
    | none => (c, "bad-op")
  | ["set", k, v] =>
    match Bytes.ofHex k, v.toNat? with
    | some k, some v => (c.set k v, "ok")
    | _, _ => (c, "bad-op")
  | ["get", k] =>
    match Bytes.ofHex k with
    | some k =>
      let r := c.get k
      (r.2, match r.1 with | some v => s!"some {v}" | none => "none")
    | none => (c, "bad-op")
  | ["has", k] =>
    match Bytes.ofHex k with
    | some k => let r := c.has k; (r.2, boolStr r.1)
    | none => (c, "bad-op")
  -- rget / rhas: the same calls, made while another goroutine is inside a read section of the cache's lock.
  -- The history is the same sequential history, so the model does what it does for get / has.
  | ["rget", k] =>
    match Bytes.ofHex k with
    | some k =>
      let r := c.get k
      (r.2, match r.1 with | some v => s!"some {v}" | none => "none")
    | none => (c, "bad-op")
  | ["rhas", k] =>
    match Bytes.ofHex k with
    | some k => let r := c.has k; (r.2, boolStr r.1)
    | none => (c, "bad-op")
  | ["del", k] =>
    match Bytes.ofHex k with
    | some k => let r := c.delete k; (r.2, boolStr r.1)
    | none => (c, "bad-op")
  | ["len"] => (c, toString c.len)
  | ["keys"] => (c, hexList c.keys)
  | _ => (c, "bad-op")

def lruEngine : Engine := { σ := Cache Bytes Nat, init := Cache.empty 0, step := lruStep }

end Rux.Drv.LruE

namespace Rux.Drv
export LruE (lruEngine)
end Rux.Drv
