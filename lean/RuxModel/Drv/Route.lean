import RuxModel.Drv.Common
import RuxModel.Model.Table
import RuxModel.Model.Quick
import RuxModel.Model.URLBuild
/-
  driver engine `route`: registration + lookup + dispatch status of the route table model.

    new <mask> <cap> <intercept>     mask: 1 strict, 2 fallback, 4 notAllowed, 8 caching,
                                           16 custom NotFound, 32 custom NotAllowed, 256 / 512: NotFound() /
                                           NotAllowed() called with an EMPTY list afterwards (the defaults again)
    reg <id> <methods|-> <path> <nil>  -> ok <stored path> ;; <tier> <start> <first> <regex> <names>
                                        | reject | unsupported
    q <method> <path>                -> route <id> <params> | allowed <methods> | none
    serve <method> <path>            -> <status> <allow> <body>
    ckeys                            -> cache keys, most recent first
    reopt                            -> ok | reject          (WithOptions after the routes exist)
    wopt <mask> <cap|-> <form>       -> ok | reject          one more WithOptions(...) call: mask bits 1 strict, 2 fallback,
                                                             4 notAllowed, 8 caching are switched ON, cap (if given) is
                                                             MaxNumCaches; legal only while no route exists. The options in
                                                             force are the accumulated ones, the capacity the LAST one given.
                                                             <form> (which option functions, in which order) is for the
                                                             implementation side only.
    new: mask bit 128 (UseEncodedPath) is for the implementation side only: the path of a `serve` op is then the
         escaped path of the request, which is the path the router looks up
    rereg <id>                       -> reject | noroute | unsupported    Router.AddRoute with the SAME route value that
                                               `reg <id>` registered: a dynamic route with variables is refused (its variable
                                               names were appended a second time: "vars: 2n, groups: n") and nothing changes
    gvar <name> <regex>              -> ok     rux.SetGlobalVar(name, regex) is in force for the registrations that
                                               follow in this case (a plain `{name}` is resolved when its route is registered)
-/
namespace Rux.Drv.RouteE
open Rux.Drv

structure RouteSt where
  rt : RouterM
  customNF : Bool
  customNA : Bool
  tainted : Bool          -- an `unsupported` registration happened: the model no longer knows the table
  runeSens : Bool         -- some route's regex may behave differently on runes than on bytes
  names : Names := []     -- the name index (C15)
  mwIds : List Nat := []  -- routes registered with a route middleware (it writes `M<id>;` before Next())
  routes : List RouteM := []   -- registered routes by id (for BuildURL)
  raRegs : List RouteM := []   -- routes registered by `reg` ops, newest first (for `rereg`)
  gvars : GVars := []          -- `gvar` ops of this case, newest first (they shadow the map of the source text)

/-- the global path variables in force now -/
def RouteSt.gv (st : RouteSt) : GVars := st.gvars ++ Facts.globalVarsB

def RouteSt.init : RouteSt := { rt := RouterM.new {}, customNF := false, customNA := false, tainted := false, runeSens := false }

/-- the model is at byte level: skip non-ASCII paths when a rune-sensitive regex is registered -/
def RouteSt.skip (st : RouteSt) (p : Bytes) : Bool :=
  st.tainted || (st.runeSens && (p.any (· ≥ 0x80) || st.rt.opts.intercept.any (· ≥ 0x80))) ||
  -- the executable matcher enumerates match lengths: very long paths against dynamic routes are left to the
  -- implementation-side oracle (no panic) only
  (p.length > 600 && (!st.rt.regular.isEmpty || !st.rt.irregular.isEmpty))

def bit (mask k : Nat) : Bool := (mask / k) % 2 = 1

def insertParam (x : Bytes × Bytes) : List (Bytes × Bytes) → List (Bytes × Bytes)
  | [] => [x]
  | y :: t => if bytesLt y.1 x.1 then y :: insertParam x t else x :: y :: t

def paramsStr (ps : Params) : String :=
  if ps.isEmpty then "-" else
  String.intercalate "," ((ps.foldr insertParam []).map fun kv => Bytes.toHex kv.1 ++ "=" ++ Bytes.toHex kv.2)

/-- body written by the harness handler of route `id`: `R<id>:` then `k=v;` sorted by key -/
def routeBody (id : Nat) (ps : Params) : Bytes :=
  Bytes.ofString s!"R{id}:" ++
    ((ps.foldr insertParam []).flatMap fun kv => kv.1 ++ [0x3D] ++ kv.2 ++ [0x3B])

def parseKVs (s : String) : Option (List (Bytes × Bytes)) :=
  if s = "-" then some [] else
  (s.splitOn ",").mapM fun kv =>
    match kv.splitOn "=" with
    | [k, v] => match Bytes.ofHex k, Bytes.ofHex v with
      | some k, some v => some (k, v)
      | _, _ => none
    | _ => none

def kvStr (l : List (Bytes × Bytes)) : String :=
  if l.isEmpty then "-" else
  String.intercalate "," (l.map fun kv => Bytes.toHex kv.1 ++ "=" ++ Bytes.toHex kv.2)

/-- query parameters as `url.Values.Encode` orders them: by key, values of one key in insertion order -/
def insertKV (x : Bytes × Bytes) : List (Bytes × Bytes) → List (Bytes × Bytes)
  | [] => [x]
  | y :: t => if bytesLt x.1 y.1 then x :: y :: t else y :: insertKV x t

def sortKVs (l : List (Bytes × Bytes)) : List (Bytes × Bytes) := l.foldl (fun acc x => insertKV x acc) []

def mwPrefix (st : RouteSt) (id : Nat) : Bytes :=
  if st.mwIds.contains id then Bytes.ofString s!"M{id};" else []

def tierOf (r : RouteM) : String :=
  if r.static then "S" else if r.info.first.isEmpty then "I" else "R"

def matchObs : MatchResult → String
  | .route r ps _ => s!"route {r.id} {paramsStr ps}"
  | .fallback r => s!"route {r.id} -"
  | .allowed ms => s!"allowed {hexList (sortBytes ms)}"
  | .notFound => "none"

def routeStep (st : RouteSt) : List String → RouteSt × String
  | ["new", mask, cap, icpt] =>
    match mask.toNat?, cap.toNat?, Bytes.ofHex icpt with
    | some m, some c, some ic =>
      -- the harness passes the capacity to rux only together with the caching switch (CachingWithNum)
      let o : Opts := { strict := bit m 1, fallback := bit m 2, notAllowed := bit m 4, caching := bit m 8,
                        cap := if bit m 8 then c else 1000, intercept := Bytes.trimSpace ic }
      ({ rt := RouterM.new o, customNF := bit m 16 && !bit m 256, customNA := bit m 32 && !bit m 512, tainted := false, runeSens := false }, "ok")
    | _, _, _ => (st, "bad-op")
  | ["reg", id, ms, path, nilh] =>
    if st.tainted then (st, "unsupported") else
    match id.toNat?, parseHexList ms, Bytes.ofHex path with
    | some id, some ms, some path =>
      match register st.gv st.rt id [] ms path (nilh = "1") with
      | .ok rt' r =>
        let st := if nilh = "3" || nilh = "4" then { st with mwIds := id :: st.mwIds } else st
        let internal :=
          if r.static then "S" else
          s!"{tierOf r} {Bytes.toHex r.info.start} {Bytes.toHex r.info.first} {Bytes.toHex r.info.regexStr} {hexList r.info.names}"
        ({ st with rt := rt', raRegs := r :: st.raRegs, runeSens := st.runeSens || (!r.static && r.info.runeSens) }, s!"ok {Bytes.toHex r.path} ;; {internal}")
      | .reject _ => (st, "reject")
      | .unsupported => ({ st with tainted := true }, "unsupported")
    | _, _, _ => (st, "bad-op")
  | ["reopt"] => (st, if st.tainted then "unsupported" else if st.rt.counter > 0 then "reject" else "ok")
  | ["wopt", mask, cap, _form] =>
    if st.tainted then (st, "unsupported") else
    match mask.toNat?, (if cap = "-" then some none else cap.toNat?.map some) with
    | some m, some c =>
      if st.rt.counter > 0 then (st, "reject") else
      let o := st.rt.opts
      let o' : Opts := { o with strict := o.strict || bit m 1, fallback := o.fallback || bit m 2,
                                notAllowed := o.notAllowed || bit m 4, caching := o.caching || bit m 8,
                                cap := c.getD o.cap }
      -- no route exists: the tables and the cache are empty; the cache is re-created with the capacity in force
      ({ st with rt := RouterM.new o' }, "ok")
    | _, _ => (st, "bad-op")
  | ["q", m, p] =>
    match Bytes.ofHex m, Bytes.ofHex p with
    | some m, some p =>
      if st.skip p then ({ st with tainted := st.tainted || st.rt.opts.caching }, "unsupported") else
      let (res, rt') := quickMatch st.rt m p
      ({ st with rt := rt' }, matchObs res)
    | _, _ => (st, "bad-op")
  | ["serve", m, p] =>
    match Bytes.ofHex m, Bytes.ofHex p with
    | some m, some p =>
      if st.skip p then ({ st with tainted := st.tainted || st.rt.opts.caching }, "unsupported") else
      let (res, rt') := quickMatch st.rt m p
      let st' := { st with rt := rt' }
      match res with
      | .route r ps _ => (st', s!"200 - {Bytes.toHex (mwPrefix st r.id ++ routeBody r.id ps)}")
      | .fallback r => (st', s!"200 - {Bytes.toHex (mwPrefix st r.id ++ routeBody r.id [])}")
      | .allowed ms =>
        let sorted := sortBytes ms
        if st.customNA then
          (st', s!"405 - {Bytes.toHex (Bytes.ofString "NA:" ++ Bytes.join [0x2C] sorted)}")
        else
          let allow := Bytes.join [0x2C, 0x20] sorted
          if m = Bytes.ofString "OPTIONS" then (st', s!"200 {Bytes.toHex allow} -")
          else (st', s!"405 {Bytes.toHex allow} {Bytes.toHex (Bytes.ofString "Method not allowed\n")}")
      | .notFound =>
        if st.customNF then (st', s!"404 - {Bytes.toHex (Bytes.ofString "NF")}")
        else (st', s!"404 - {Bytes.toHex (Bytes.ofString "404 page not found\n")}")
    | _, _ => (st, "bad-op")
  | ["regn", id, name, ms, path, api] =>
    if st.tainted then (st, "unsupported") else
    match id.toNat?, Bytes.ofHex name, parseHexList ms, Bytes.ofHex path with
    | some id, some name, some ms, some path =>
      match register st.gv st.rt id name ms path false with
      | .ok rt' r =>
        let _ := api
        ({ st with rt := rt', names := nameRoute st.names name id, routes := r :: st.routes,
                   runeSens := st.runeSens || (!r.static && r.info.runeSens) }, s!"ok {Bytes.toHex r.path}")
      | .reject _ => ({ st with tainted := true }, "unsupported")   -- a rejected named route may leave its name behind
      | .unsupported => ({ st with tainted := true }, "unsupported")
    | _, _, _, _ => (st, "bad-op")
  | ["rename", id, name] =>
    if st.tainted then (st, "unsupported") else
    match id.toNat?, Bytes.ofHex name with
    | some id, some name =>
      if st.routes.any (fun r => r.id = id) then ({ st with names := nameRoute st.names name id }, "ok")
      else (st, "ok")
    | _, _ => (st, "bad-op")
  | ["getroute", name] =>
    if st.tainted then (st, "unsupported") else
    match Bytes.ofHex name with
    | some name => (st, match getRoute st.names name with | some id => toString id | none => "none")
    | none => (st, "bad-op")
  | ["buildq", name, args, _style, _expect] =>
    if st.tainted then (st, "unsupported") else
    match Bytes.ofHex name, parseKVs args with
    | some name, some args =>
      match getRoute st.names name with
      | none => (st, "panic")
      | some id =>
        match st.routes.find? (fun r => r.id = id) with
        | none => (st, "bad-op")
        | some r =>
          let (params, queries) := splitArgs args
          let path := buildPath r.path params
          if st.skip path then ({ st with tainted := st.tainted || st.rt.opts.caching }, "unsupported") else
          let (res, rt') := quickMatch st.rt methodGET path
          ({ st with rt := rt' }, s!"{Bytes.toHex path} {kvStr (sortKVs queries)} {matchObs res}")
    | _, _ => (st, "bad-op")
  | ["rereg", id] =>
    if st.tainted then (st, "unsupported") else
    match id.toNat? with
    | some id =>
      match st.raRegs.find? (fun r => r.id = id) with
      | none => (st, "noroute")
      | some r =>
        -- parseParamRoute appends the variable names to the route value once more before goodRegexGroups compares
        -- their number with the capturing groups: n + n ≠ n for n ≥ 1, the registration is refused and no table changes.
        -- (a static route or a dynamic one without variables would be accepted a second time; a `gvar` op may have
        -- changed what a plain variable compiles to: neither is modelled)
        if !r.static && !r.info.names.isEmpty && st.gvars.isEmpty then (st, "reject")
        else ({ st with tainted := true }, "unsupported")
    | none => (st, "bad-op")
  | ["gvar", name, re] =>
    match Bytes.ofHex name, Bytes.ofHex re with
    | some name, some re => ({ st with gvars := (name, re) :: st.gvars }, "ok")
    | _, _ => (st, "bad-op")
  | ["ckeys"] =>
    if st.tainted then (st, "unsupported") else
    (st, if st.rt.opts.caching then hexList st.rt.cache.keys else "off")
  | _ => (st, "bad-op")

def routeEngine : Engine := { σ := RouteSt, init := RouteSt.init, step := routeStep }

end Rux.Drv.RouteE

namespace Rux.Drv
export RouteE (routeEngine)
end Rux.Drv
