import RuxModel.Drv.Common
import RuxModel.Model.Writer
/-
  driver engine `writer` (C08): one request after the other through the model of handleHTTPRequest.

    chain <k> <GET|HEAD|POST> <onpanic> <onerror> <ct-hex|none> ...   -> ok        (first line; extra tokens ignored)
    <action> <site> <args…>   site = 0 … 2k-2 | E | P                 -> skipped | ok … | wrote n err … | panic …
    fwd <site> <prog> | nest <site> <prog>   site = 0 … 2k-2          -> skipped | ok …      (see `wxStep` below)
    end [hc]                                                          -> <escaped> <log> len=<Length()> ;; st=<StatusCode()>
                                       (`hc`: the harness enters through Router.HandleContext instead of ServeHTTP;
                                        both run handleHTTPRequest, the model is the same)

  Sites must come in time order (chain blocks ascending, then E, then P); anything else is `bad-order`.
-/
namespace Rux.Drv.WriterE
open Rux.Drv
open Rux.Writer

structure WriterSt where
  cfg : Cfg
  req : Req
  rank : Nat          -- rank of the last site seen in the current request
  deriving Repr

def defaultCfg : Cfg := ⟨1, .get, false, false, none⟩

def WriterSt.init : WriterSt := ⟨defaultCfg, Req.init defaultCfg, 0⟩

def parseBool (s : String) : Option Bool :=
  if s = "1" then some true else if s = "0" then some false else none

def parseData (s : String) : Option Bytes :=
  if s = "nil" then some [] else Bytes.ofHex s

def parseMeth (s : String) : Option Meth :=
  if s = "GET" then some .get else if s = "HEAD" then some .head else if s = "POST" then some .other else none

def parseCT (s : String) : Option (Option Bytes) :=
  if s = "none" then some none else (Bytes.ofHex s).map some

/-- ASCII lower-casing -/
def lower (s : Bytes) : Bytes := s.map fun b => if 65 ≤ b ∧ b ≤ 90 then b + 32 else b

/-- `Header.Set(key, …)` stores under the canonical key; for keys made of letters, digits and `-`
    that is `Content-Type` exactly when the key equals it ignoring ASCII case -/
def isContentType (key : Bytes) : Bool := lower key = ascii "content-type"

/-- the answer of the underlying writer is clamped to the io.Writer contract (`n ≤ len`) on both sides -/
def clamp (acc : Nat) (b : Bytes) : Nat := min acc b.length

def parseAct : List String → Option Act
  | ["status", code, _via] => (intOfStr? code).map fun c => .op (.setStatus c)
  | ["hdr", k, v] => do
      let k ← Bytes.ofHex k
      let v ← Bytes.ofHex v
      pure (if isContentType k then .op (.setCT v) else .op .setHeader)
  | ["write", d, acc, err, _via] => do
      let b ← parseData d
      let acc ← acc.toNat?
      let err ← parseBool err
      pure (.op (.write b (clamp acc b) err))
  | ["flush"] => some (.op .flush)
  | ["error", code, msg, acc, err, _via] => do
      let c ← intOfStr? code
      let m ← Bytes.ofHex msg
      let acc ← acc.toNat?
      let err ← parseBool err
      pure (.httpError c m (clamp acc (m ++ [10])) err)
  | ["redirect", code, _url, body, acc, err] => do
      let c ← (if code = "d" then some none else (intOfStr? code).map some)
      let b ← Bytes.ofHex body
      let acc ← acc.toNat?
      let err ← parseBool err
      pure (.redirect c b (clamp acc b) err)
  | ["wbytes", d, acc, err, _via] => do
      let b ← parseData d
      let acc ← acc.toNat?
      let err ← parseBool err
      pure (.writeBytes b (clamp acc b) err)
  | ["abort", code, "nomsg"] => (intOfStr? code).map fun c => .abort c none
  | ["abort", code, "msg", msg, acc, err] => do
      let c ← intOfStr? code
      let m ← Bytes.ofHex msg
      let acc ← acc.toNat?
      let err ← parseBool err
      pure (.abort c (some (m, clamp acc (m ++ [10]), err)))
  | ["adderr"] => some .addError
  | ["panic"] => some .panic
  | _ => none

def parseSite (k : Nat) (s : String) : Option (Site × Nat) :=
  if s = "E" then some (.onError, 2 * k) else
  if s = "P" then some (.onPanic, 2 * k + 1) else
  match s.toNat? with
  | some i => if i + 2 ≤ 2 * k then some (.chain i, i) else none
  | none => none

def evStr : Ev → String
  | .wh c => s!"wh:{c}"
  | .w b acc err => s!"w:{b.toHex}:{acc}:{boolStr err}"
  | .fl => "f"

def logStr (l : List Ev) : String :=
  if l.isEmpty then "-" else String.intercalate "," (l.map evStr)

def ctStr : Option Bytes → String
  | none => "none"
  | some v => v.toHex

def sentStr : Option (Option Bytes) → String
  | none => "-"
  | some c => ctStr c

def stateStr (w : W) : String := s!"len={w.length} ;; st={w.status} ct={ctStr w.ctype}"

/-! ### `fwd` / `nest`: a handler hands the request to another dispatch

  `<prog>` = `-` or comma separated `s<code>` (SetStatus) | `w<hex>` (a write the underlying writer accepts in full) |
  `f` (Flush): what the main handler of the other dispatch does.

  * `fwd`: `Router.HandleContext(c)` with the running context, forwarded to a route whose chain has the same length.
    `Reset` keeps the writer, so the operations of `<prog>` act on the same writer; the end of the forwarded
    `handleHTTPRequest` commits (`ensure`); `Reset` emptied `c.Errors`; the cursor is left at the end of the chain:
    like an `Abort`, a forward in the block before `Next()` cuts the deeper handlers off.
  * `nest`: `WrapHTTPHandler(inner)(c)`: the inner router wraps `c.Resp` in a writer of its own (`W.fresh`, sharing the
    header map); every call that inner writer makes on the writer below it (its log) is an operation on the outer writer:
    `WriteHeader(c)` = `setStatus c`, `Write` = `write`, `Flush` = `flush`; the end of the inner chain commits the inner
    writer (`ensure`), i.e. hands its status to the outer one. -/

def parseProgOp (t : String) : Option Op :=
  if t = "f" then some .flush else
  match t.toList with
  | 's' :: rest => (intOfStr? (String.ofList rest)).map .setStatus
  | 'w' :: rest => (Bytes.ofHex (String.ofList rest)).map fun b => .write b b.length false
  | _ => none

def parseProg (s : String) : Option (List Op) :=
  if s = "-" then some [] else (s.splitOn ",").mapM parseProgOp

/-- a call received from the inner writer, as an operation on the outer writer -/
def outerOp : Ev → Op
  | .wh c => .setStatus c
  | .w b acc err => .write b acc err
  | .fl => .flush

/-- one operation on the inner writer; its new calls reach the outer writer -/
def nestStep (p : W × W) (o : Op) : W × W :=
  let inn' := step p.1 o
  (inn', run p.2 ((inn'.log.drop p.1.log.length).map outerOp))

def nestRun (w : W) (ops : List Op) : W :=
  let p := ops.foldl nestStep (W.fresh w.ctype, w)
  let inn' := ensure p.1
  run p.2 ((inn'.log.drop p.1.log.length).map outerOp)

def wxStep (s : WriterSt) (nest : Bool) (site prog : String) : WriterSt × String :=
  match parseSite s.cfg.k site, parseProg prog with
  | some (.chain i, rk), some ops =>
    if rk < s.rank then (s, "bad-order") else
    let r := s.req
    if r.runs s.cfg (.chain i) then
      let r' : Req :=
        if nest then { r with w := nestRun r.w ops }
        else { r with w := ensure (run r.w ops), trace := r.trace ++ ops, errors := 0,
                      skip := r.newSkip s.cfg (.chain i) (.abort 0 none) }
      ({ s with req := r', rank := rk }, "ok " ++ stateStr r'.w)
    else ({ s with rank := rk }, "skipped")
  | _, _ => (s, "bad-op")

def writerStep (s : WriterSt) : List String → WriterSt × String
  | "chain" :: k :: m :: op :: oe :: ct :: _ =>
    match k.toNat?, parseMeth m, parseBool op, parseBool oe, parseCT ct with
    | some k, some m, some op, some oe, some ct =>
      if 1 ≤ k ∧ k ≤ 30 then
        let c : Cfg := ⟨k, m, op, oe, ct⟩
        (⟨c, Req.init c, 0⟩, "ok")
      else (s, "bad-op")
    | _, _, _, _, _ => (s, "bad-op")
  | "end" :: via =>
    -- `hf`: the single handler of the chain used as an http.Handler (HandlerFunc.ServeHTTP): a chain of one, no hooks
    if via = [] ∨ via = ["hc"] ∨ (via = ["hf"] ∧ s.cfg.k = 1 ∧ s.cfg.hasOnPanic = false ∧ s.cfg.hasOnError = false) then
      let f := s.req.finish
      ({ s with req := Req.init s.cfg, rank := 0 },
       s!"{boolStr s.req.escaped} {logStr f.log} len={f.length} ;; st={f.status} ct={ctStr f.ctype} sent={sentStr f.sent}")
    else (s, "bad-op")
  | ["fwd", site, prog] => wxStep s false site prog
  | ["nest", site, prog] => wxStep s true site prog
  | kind :: site :: rest =>
    match parseSite s.cfg.k site, parseAct (kind :: rest) with
    | some (st, rk), some a =>
      if rk < s.rank then (s, "bad-order") else
      let (r', ans) := s.req.act s.cfg st a
      let s' := { s with req := r', rank := rk }
      match ans with
      | .skipped => (s', "skipped")
      | .ok => (s', "ok " ++ stateStr r'.w)
      | .wrote n err => (s', s!"wrote {n} {boolStr err} " ++ stateStr r'.w)
      | .panicked => (s', "panic " ++ stateStr r'.w)
    | _, _ => (s, "bad-op")
  | _ => (s, "bad-op")

def writerEngine : Engine := { σ := WriterSt, init := WriterSt.init, step := writerStep }

end Rux.Drv.WriterE

namespace Rux.Drv
export WriterE (writerEngine)
end Rux.Drv
