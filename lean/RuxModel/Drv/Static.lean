import RuxModel.Drv.Common
import RuxModel.Model.Clean
/-
  driver engines for C17
    `clean`  : path.Clean / utf8.ValidString / path.Base / filepath.Split against the Go functions
    `static` : the Static* handlers end to end against a sandbox tree
-/
namespace Rux.Drv.StaticE
open Rux.Drv
open Rux.Clean

/-! ### engine `clean` -/

def cleanStep (u : Unit) : List String → Unit × String
  | ["clean", s] =>
    match Bytes.ofHex s with
    | some b => (u, Bytes.toHex (cleanRooted b))
    | none => (u, "bad-op")
  | ["cleanabs", s] =>
    match Bytes.ofHex s with
    | some (0x2F :: t) => (u, Bytes.toHex (cleanAbs (0x2F :: t)))
    | some _ => (u, "unsupported")
    | none => (u, "bad-op")
  | ["utf8", s] =>
    match Bytes.ofHex s with
    | some b => (u, boolStr (validUtf8 b))
    | none => (u, "bad-op")
  | ["base", s] =>
    match Bytes.ofHex s with
    | some b => (u, Bytes.toHex (base b))
    | none => (u, "bad-op")
  | ["split", s] =>
    match Bytes.ofHex s with
    | some b => let r := splitLast b; (u, Bytes.toHex r.1 ++ " " ++ Bytes.toHex r.2)
    | none => (u, "bad-op")
  | ["dotdot", s] =>
    match Bytes.ofHex s with
    | some b => (u, boolStr (containsDotDot b))
    | none => (u, "bad-op")
  | _ => (u, "bad-op")

def cleanEngine : Engine := { σ := Unit, init := (), step := cleanStep }

/-! ### engine `static` -/

/-- the sandbox in the model: base directory, the served tree below `base/www`, a secret next to the
    root in a directory whose name has the root's name as a prefix, and one in the parent -/
def symBase : Bytes := Bytes.ofString "/srv/box"
def symRoot : Bytes := symBase ++ Bytes.ofString "/www"
def secrets : List Bytes :=
  [symBase ++ Bytes.ofString "/secret.css",
   symBase ++ Bytes.ofString "/www-private/secret.css",
   symBase ++ Bytes.ofString "/www-private/index.html"]
def outsideDirs : List Bytes :=
  [Bytes.ofString "/", Bytes.ofString "/srv", symBase, symBase ++ Bytes.ofString "/www-private"]

structure StaticState where
  files : List Bytes := []     -- full paths
  dirs : List Bytes := []      -- full paths
  mount : Option Mount := none
  viaSym : Bool := false       -- `viasym` seen, the next mount consumes it
  symMount : Bool := false     -- the root of the current mount was handed to rux as a symbolic link
  more : List (Mount × Bool) := []   -- further mounts on the same router (`addmount`), each with its link flag

def StaticState.look (s : StaticState) (full : Bytes) : Node :=
  if full ∈ s.files ∨ full ∈ secrets then .file
  else if full ∈ s.dirs ∨ full = symRoot ∨ full ∈ outsideDirs then .dir
  else .none

/-- a full path as the harness names it: relative to the sandbox root, or marked as outside -/
def relName (full : Bytes) : String :=
  if full = symRoot then Bytes.toHex [0x2F]
  else if Bytes.hasPrefix full (symRoot ++ [0x2F]) then Bytes.toHex (full.drop symRoot.length)
  else "OUTSIDE:" ++ Bytes.toHex full

def servedStr : Served → String
  | .nothing => "-"
  | .file f => "file:" ++ relName f
  | .listing f => "list:" ++ relName f

/-- the proper ancestors of a path ("/a/b/c" ↦ "/a", "/a/b") -/
def properAncestors (p : Bytes) : List Bytes :=
  (List.range p.length).filterMap fun i => if 0 < i ∧ p[i]? = some 0x2F then some (p.take i) else none

/-- Outside the modelled fragment: the root is a symbolic link whose destination lies below a regular FILE
    ("…/a.css/x").  Resolving the link itself then fails with ENOTDIR, which `http.Dir.Open` cannot turn into
    "not found" (`mapOpenError` stats the link and gets the same error): the answer is 500 where a missing path
    gives 404.  Without the link the same root is answered with 404 (modelled). -/
def StaticState.linkBelowFile (s : StaticState) (m : Mount) : Bool :=
  s.symMount && (properAncestors m.target).any (· ∈ s.files)

/-- the first stage of `serve`: does the route of the mount match the request at all? -/
def mountMatches (m : Mount) (q : Req) : Bool :=
  let p1 := formatPath m.strict (if m.enc then q.esc else q.path)
  match m.kind with
  | .dir | .fs => (capture m.pfx none p1).isSome
  | .files => (capture m.pfx (some m.exts) p1).isSome
  | .file => p1 = formatPath m.strict m.pfx

/-- the literal text every path matched by the route of the mount starts with -/
def mountKey (m : Mount) : Bytes :=
  match m.kind with
  | .file => formatPath m.strict m.pfx
  | _ => routeStatic m.pfx

/-- no path can be matched by the routes of both mounts: then it does not matter in which order the router
    tries them (regular before irregular routes, first path segment, registration order) -/
def mountsDisjoint (a b : Mount) : Bool :=
  !Bytes.hasPrefix (mountKey a) (mountKey b) && !Bytes.hasPrefix (mountKey b) (mountKey a)

def parseKind : String → Option Kind
  | "dir" => some .dir
  | "fs" => some .fs
  | "files" => some .files
  | "file" => some .file
  | _ => none

def okRel (p : Bytes) : Bool :=
  match p with
  | 0x2F :: _ :: _ => cleanAbs p = p
  | _ => false

def staticStep (s : StaticState) : List String → StaticState × String
  | ["tree", fs, ds] =>
    match parseHexList fs, parseHexList ds with
    | some fl, some dl =>
      if fl.all okRel && dl.all okRel then
        ({ files := fl.map (symRoot ++ ·), dirs := dl.map (symRoot ++ ·), mount := none, viaSym := s.viaSym }, "ok")
      else (s, "bad-op")
    | _, _ => (s, "bad-op")
  | ["mount", kind, enc, pfx, exts, target] =>
    match parseKind kind, Bytes.ofHex pfx, parseHexList exts, Bytes.ofHex target with
    | some k, some p, some es, some t =>
      let s := { s with symMount := s.viaSym, viaSym := false, more := [] }
      if t ≠ [] ∧ ¬ okRel t then ({ s with mount := none }, "unsupported") else
      -- flags: bit 0 UseEncodedPath, bit 1 EnableCaching (no effect on what a request observes), bit 2 StrictLastSlash,
      -- bits 3,4 CachingWithNum(1..3) (no effect either)
      let fl := enc.toNat?.getD 0
      let m : Mount := { kind := k, enc := fl % 2 = 1, strict := (fl / 4) % 2 = 1, pfx := p, exts := es,
                         target := symRoot ++ t }
      if m.supported then ({ s with mount := some m }, "ok")
      else ({ s with mount := none }, "unsupported")
    | _, _, _, _ => (s, "bad-op")
  | ["req", _target, path, raw, esc] =>
    match s.mount, Bytes.ofHex path, Bytes.ofHex raw, Bytes.ofHex esc with
    | none, some _, some _, some _ => (s, "unsupported")
    | some m, some p, some r, some e =>
      if p.length > 200 ∨ e.length > 600 then (s, "unsupported") else
      if s.more ≠ [] then
        -- several mounts whose routes are pairwise disjoint: the one that matches answers, otherwise no route
        let q : Req := { path := p, raw := r, esc := e }
        match ((m, s.symMount) :: s.more).find? (fun ms => mountMatches ms.1 q) with
        | none => (s, "4 - ;; 404 -")
        | some (mm, sym) =>
          if sym && (properAncestors mm.target).any (· ∈ s.files) then (s, "unsupported") else
          let resp := serve s.look mm q
          let names := if mm.kind = .fs then hexList resp.names else "-"
          (s, s!"{resp.status / 100} {servedStr resp.served} ;; {resp.status} {names}")
      else
      if s.linkBelowFile m then (s, "unsupported") else
      let resp := serve s.look m { path := p, raw := r, esc := e }
      let names := if m.kind = .fs then hexList resp.names else "-"
      (s, s!"{resp.status / 100} {servedStr resp.served} ;; {resp.status} {names}")
    | _, _, _, _ => (s, "bad-op")
  | ["addmount", kind, _flags, pfx, exts, target] =>
    -- one more Static* call on the router of the current mount (router options stay)
    match s.mount, parseKind kind, Bytes.ofHex pfx, parseHexList exts, Bytes.ofHex target with
    | none, some _, some _, some _, some _ => ({ s with viaSym := false }, "unsupported")
    | some m0, some k, some p, some es, some t =>
      let sym := s.viaSym
      let s := { s with viaSym := false }
      let m : Mount := { kind := k, enc := m0.enc, strict := m0.strict, pfx := p, exts := es, target := symRoot ++ t }
      if (t = [] ∨ okRel t) ∧ m.supported ∧ ((m0 :: s.more.map (·.1)).all (mountsDisjoint m)) then
        ({ s with more := s.more ++ [(m, sym)] }, "ok")
      else ({ s with mount := none, more := [] }, "unsupported")
    | _, _, _, _, _ => (s, "bad-op")
  | ["rawbad", _] => (s, "rejected")
  | ["viasym"] =>
    -- the root of the next mount is handed to rux as a symbolic link whose destination is the mount's target
    -- (which may be missing: a dangling link).  `http.Dir(link).Open(name)` opens `link/name` on every request
    -- and the operating system follows the link, so the mount behaves exactly like one on the destination
    -- (one exception, answered `unsupported`: `StaticState.linkBelowFile`).
    ({ s with viaSym := true }, "ok")
  | ["grow", fs, ds] =>
    -- further files and directories appear in the tree; the mount stays (a root that was missing when the
    -- handler was registered is looked up again on every request, like everything else)
    match parseHexList fs, parseHexList ds with
    | some fl, some dl =>
      if fl.all okRel && dl.all okRel then
        ({ s with files := s.files ++ fl.map (symRoot ++ ·), dirs := s.dirs ++ dl.map (symRoot ++ ·) }, "ok")
      else (s, "bad-op")
    | _, _ => (s, "bad-op")
  | ["sibling", m, regex] =>
    -- the application registers `<METHOD> <prefix>/{file[:regex]}` for POST, PUT or DELETE before the next mount.
    -- Every request of this engine is a GET: `match` looks at the routes of the request's method only (and HEAD→GET,
    -- the fallback route and the 405 list are not reached by a GET), so the model state is untouched.
    if (m = "POST" ∨ m = "PUT" ∨ m = "DELETE") ∧ (regex = "-" ∨ (Bytes.ofHex regex).isSome) then (s, "ok") else (s, "bad-op")
  | ["gvar", name, regex] =>
    -- `rux.SetGlobalVar(name, regex)` before the next mount.  `parseParamRoute` consults the global vars only
    -- for a route var WITHOUT inline regex; the routes of the four static handlers are `pfx/{file:.+}`,
    -- `pfx/{file:.+\.(?:exts)}` and a prefix of the modelled fragment (`Mount.supported` → `okPrefix`: no `{`), so no
    -- definition, whatever its name and value, changes `capture`: the model state is untouched.
    match Bytes.ofHex name, Bytes.ofHex regex with
    | some (_ :: _), some _ => (s, "ok")
    | _, _ => (s, "bad-op")
  | _ => (s, "bad-op")

def staticEngine : Engine := { σ := StaticState, init := {}, step := staticStep }

end Rux.Drv.StaticE

namespace Rux.Drv
export StaticE (cleanEngine staticEngine)
end Rux.Drv
