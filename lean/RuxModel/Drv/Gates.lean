import RuxModel.Drv.Common
import RuxModel.Model.Gates
/-
  driver engine `gates` (C20) — stateless, one op per line:

    parse <hdr>                                   -> none | some <u> <p>
    auth  <accounts> <hdr>                        -> pass|deny401|deny403 ran=<0|1> status=<n> www=<hex|~> user=<hex|~> pwd=<hex|~>
    authc <accounts> <u>:<p> | ~                  -> same (credentials given directly, header built by SetBasicAuth)
    ovr   <mode> <method> <hdr> <body> <query>    -> kept|rewritten method=<hex> orig=<hex|~>
    wrap  <specs> <times> <method> <hdr> <body> <query>
                                                  -> calls=<times> <trace>|<trace>…   (n = 0:  "n0 ;; nil")
    chain <nglobal> <handlers> <hdr>              -> st<status> trace=<…> www=<hex|~> ;; body=<hex>

  `<hdr>`, `<body>`, `<query>`: `~` = absent, otherwise a hex byte string (`-` = present and empty).
  `<body>` says how the body carries the `_method` form field: a bare hex string = urlencoded body;
  `M<hex>` = a `multipart/form-data` body whose only part is the field; `N<hex>` = a multipart body of a
  file-upload form (another field before, a file part after the field).
  `<accounts>`: `-` or `u:p,u:p,…` (hex).  `<specs>`: `-` or `t<k>,x<k>,o,…`.
  `<handlers>`: handlers joined by `/`, each `K,act,act,…` with K ∈ H | W0 W1 W2 | F0 F1 F2 | A
  (for `A` the acts are the account pairs), acts `m<n>` mark, `n` Next, `a` Abort, `s<code>` WriteHeader,
  `b<hex>` Write.
-/
namespace Rux.Drv.GatesE
open Rux.Drv
open Rux.Gates

def optHex (s : String) : Option (Option Bytes) :=
  if s = "~" then some none else (Bytes.ofHex s).map some

/-- the `<body>` token -/
def optBody (s : String) : Option FormBody :=
  if s = "~" then some .absent
  else if s.startsWith "M" || s.startsWith "N" then (Bytes.ofHex (s.drop 1).copy).map .multipart
  else (Bytes.ofHex s).map .urlenc

def showOpt : Option Bytes → String
  | none => "~"
  | some b => Bytes.toHex b

def parsePair (s : String) : Option (Bytes × Bytes) :=
  match s.splitOn ":" with
  | [a, b] =>
    match Bytes.ofHex a, Bytes.ofHex b with
    | some x, some y => some (x, y)
    | _, _ => none
  | _ => none

def parseAccounts (s : String) : Option (List (Bytes × Bytes)) :=
  if s = "-" then some [] else (s.splitOn ",").mapM parsePair

def fuel : Nat := 100000

/-- the answer of the `auth` ops: chain `[HTTPBasicAuth(accounts), main]`, main reads username/password -/
def authAnswer (accounts : List (Bytes × Bytes)) (creds : Option (Bytes × Bytes)) : String :=
  match serve [basicAuthHandler accounts creds, [.emit (.mark 1)]] fuel with
  | none => "fuel"
  | some tr =>
    let r := respOf tr
    let ran := ranAfter 0 tr
    let user := if ran then lookup kUsername r.data else none
    let pwd := if ran then lookup kPassword r.data else none
    let outcome := match authDecide accounts creds with
      | .pass => "pass" | .deny401 _ => "deny401" | .deny403 => "deny403"
    s!"{outcome} ran={boolStr ran} status={r.finalStatus} www={showOpt (r.finalHeader hWWWAuth)} user={showOpt user} pwd={showOpt pwd}"

def parseWSpec (s : String) : Option WSpec :=
  if s = "o" then some .override
  else if s.startsWith "t" then (s.drop 1).toNat?.map .trace
  else if s.startsWith "x" then (s.drop 1).toNat?.map .block
  else none

def parseWSpecs (s : String) : Option (List WSpec) :=
  if s = "-" then some [] else (s.splitOn ",").mapM parseWSpec

def showWEv : WEv → String
  | .enter k => s!"e{k}"
  | .leave k => s!"l{k}"
  | .served m o => s!"S{Bytes.toHex m}:{showOpt o}"

def showWTrace (t : List WEv) : String := String.intercalate "." (t.map showWEv)

def parseAct (s : String) : Option Act :=
  if s = "n" then some .next
  else if s = "a" then some .abort
  else if s.startsWith "m" then (s.drop 1).toNat?.map fun n => .emit (.mark n)
  else if s.startsWith "s" then (s.drop 1).toNat?.map fun n => .emit (.status n)
  else if s.startsWith "b" then (Bytes.ofHex (s.drop 1).copy).map fun b => .emit (.body b)
  else none

def isEffect : Act → Bool
  | .emit _ => true
  | _ => false

/-- one handler of the `chain` op; `creds` is what `BasicAuth()` returns for this request -/
def parseHandler (creds : Option (Bytes × Bytes)) (s : String) : Option Handler :=
  match s.splitOn "," with
  | [] => none
  | k :: rest =>
    if k = "A" then
      (rest.mapM parsePair).map fun accounts => basicAuthHandler accounts creds
    else if k = "H" then rest.mapM parseAct
    else if k = "W0" ∨ k = "W1" ∨ k = "W2" ∨ k = "F0" ∨ k = "F1" ∨ k = "F2" then
      match rest.mapM parseAct with
      | some acts =>
        -- a generic http.Handler has no access to Next / Abort
        if acts.all isEffect then
          some (wrapHTTPHandler (acts.filterMap fun a => match a with | .emit o => some o | _ => none))
        else none
      | none => none
    else none

def showEv : Ev → Option String
  | .enter h => some s!"e{h}"
  | .leave h => some s!"l{h}"
  | .out h (.mark t) => some s!"o{h}m{t}"
  | .out _ _ => none

def gatesStep (_ : Unit) : List String → Unit × String
  | ["parse", h] =>
    match optHex h with
    | some hdr =>
      ((), match requestBasicAuth hdr with
           | none => "none"
           | some (u, p) => s!"some {Bytes.toHex u} {Bytes.toHex p}")
    | none => ((), "bad-op")
  | ["auth", acc, h] =>
    match parseAccounts acc, optHex h with
    | some accounts, some hdr => ((), authAnswer accounts (requestBasicAuth hdr))
    | _, _ => ((), "bad-op")
  | ["authc", acc, c] =>
    match parseAccounts acc with
    | some accounts =>
      if c = "~" then ((), authAnswer accounts none)
      else
        match parsePair c with
        | some (u, p) =>
          -- SetBasicAuth joins with ':' — a user name containing ':' is split elsewhere by the parser
          if u.contains 58 then ((), "unsupported") else ((), authAnswer accounts (some (u, p)))
        | none => ((), "bad-op")
    | none => ((), "bad-op")
  | ["ovr", _mode, m, h, b, q] =>
    match Bytes.ofHex m, optHex h, optBody b, optHex q with
    | some method, some hdr, some body, some query =>
      let r := methodOverride method (formValueOf body query) (hdr.getD [])
      let cls := if r.1 = method then "kept" else "rewritten"
      ((), s!"{cls} method={Bytes.toHex r.1} orig={showOpt r.2}")
    | _, _, _, _ => ((), "bad-op")
  | ["wrap", specs, times, m, h, b, q] =>
    match parseWSpecs specs, times.toNat?, Bytes.ofHex m, optHex h, optBody b, optHex q with
    | some ws, some n, some method, some hdr, some body, some query =>
      let req : Req := { method := method, form := formValueOf body query, hdr := hdr.getD [], orig := none }
      match wrapHTTPHandlers (ws.map WSpec.toW) routerH with
      | none => ((), "n0 ;; nil")
      | some hh =>
        ((), s!"calls={n} " ++ String.intercalate "|" ((List.range n).map fun _ => showWTrace (hh req)))
    | _, _, _, _, _, _ => ((), "bad-op")
  | ["chain", ng, hs, h] =>
    match ng.toNat?, optHex h with
    | some nglobal, some hdr =>
      let creds := requestBasicAuth hdr
      match (hs.splitOn "/").mapM (parseHandler creds) with
      | some handlers =>
        if nglobal + 1 > handlers.length then ((), "bad-op") else
        match serve handlers fuel with
        | none => ((), "fuel")
        | some tr =>
          let r := respOf tr
          let t := String.intercalate "." (tr.filterMap showEv)
          ((), s!"st{r.finalStatus} trace={t} www={showOpt (r.finalHeader hWWWAuth)} ;; body={Bytes.toHex r.body}")
      | none => ((), "bad-op")
    | _, _ => ((), "bad-op")
  | _ => ((), "bad-op")

def gatesEngine : Engine := { σ := Unit, init := (), step := gatesStep }

end Rux.Drv.GatesE

namespace Rux.Drv
export GatesE (gatesEngine)
end Rux.Drv
