import RuxModel.Drv.Common
import RuxModel.Model.Dispatch
/-
  driver engine `dispatch`: the dispatch model (Model/Dispatch.lean) behind the line protocol.
  Serves the Go engines `panic` (C09) and `ctx` (C10).

  ops
    new <caching 0|1> <methodNotAllowed 0|1>     a new router (the model has no route cache: `caching` is ignored,
                                                 which is exactly the claim that it must not be observable)
    use <H>                                      global middleware
    route <id> <s|d1|d2|ir> <ng> <H>+            GET route; the first <ng> handlers are group middleware (then the
                                                 route lives in the group `/g`), the last handler is the main handler
    notfound <H>+ | notallowed <H>+              custom 404 / 405 chains
    onerror <SH> | onpanic <SH> | nopanic        OnError / OnPanic handlers (simple actions only)
    serve r <id> <v1> <v2>                       GET the URL of route <id> with these variable values
    serve na <id> <v1> <v2>                      POST the same URL (405 when enabled, else 404)
    serve nf <k>                                 GET a URL nobody registered
    serveh …                                     the same three forms; the harness enters through Router.HandleContext
                                                 with a context it prepared itself (Init) instead of ServeHTTP.
                                                 Both run handleHTTPRequest on an initialised context: same model step.
    nilpanic                                     (implementation only) panic(nil) with a hook; the model answers `unsupported`
  handler  H  = PH | - | act,act,…      act = em:<t> nx pn:<pv> st:<k>:<v> ae:<e> sp:<k>:<v> ab ss:<code> wr:<b>
                                              wh:<code> rr:<id> rq:<id> gt:<k> dp kc  (<k> <v> <e> <b> hex)
              `kc` (the handler keeps a `Context.Copy()`), `qv` (reads and edits its copy of the URL query), `cx` (a
              request context cancelled when the handler returns) are nothing the request can observe: the tokens are dropped
              here, the harness checks the kept copy with an oracle
              `sh:<id>` (route handlers only: `c.SetHandlers(route <id>.Handlers())`) replaces the chain the request
              is running; that is outside the model: the token is dropped, and a request to a route with such a handler
              is answered `unsupported` (the harness checks it with the fresh-router oracle only). Every OTHER request
              is answered as always: a later request must not notice what became of the pooled context.
              `aw:<code>` = `c.AbortWithStatus(code)` = `c.Resp.WriteHeader(code); c.Abort()`: for the model `wh:<code>,ab`;
              `am:<code>:<msg>` = `c.AbortWithStatus(code, msg)` = `http.Error(c.Resp, msg, code); c.Abort()`: WriteHeader
              and one Write of `msg + "\n"` on `c.Resp` (response headers are not modelled): `wh:<code>,wr:<msg 0a>,ab`
              `jp:0` / `jp:1` = `c.JSONP(200, "cb", v)` with a value that encodes / whose MarshalJSON panics: for the model
              `ss:200,wr:"cb(",wr:<json>,wr:");"` and `ss:200,wr:"cb(",pn:s.<"mj">`
              `hj` (route handlers only: the handler hijacks the connection) and `nr:<n>` (anywhere: the handler or hook
              serves a nested request through the router while it runs) are outside the model as well: the tokens are
              dropped; a request to a route with such a handler is answered `unsupported`, and after a `use` /
              `notfound` / `notallowed` / `onerror` / `onpanic` line with `nr` every request is (the harness checks
              these with its oracles: pooled-context identity, fresh-router twin).
  panic value pv = s.<hex> | e.<hex> | i.<int> | rn | ri | h.<name>.<hex> | w.<name>.<hex>
              (h/w: an error sentinel of net/http, io, context, bare or wrapped; for the model an error with that text)
  answer to serve:  <ret | panic:<pv> | unsupported> t=<trace> l=<writer log> ;; pr=0
-/
namespace Rux.Drv.DispatchE
open Rux.Drv
open Rux.Dispatch

/-! ### printing -/

def encPVal : PVal → String
  | .str b => "s." ++ b.toHex
  | .err b => "e." ++ b.toHex
  | .int n => "i." ++ toString n
  | .rtNilMap => "rn"
  | .rtIndex => "ri"

def encVal : Val → String
  | .str b => "S" ++ b.toHex
  | .strs l => "L" ++ String.intercalate "/" (l.map Bytes.toHex)
  | .pv (.str b) => "S" ++ b.toHex      -- a recovered string is a string (Go cannot tell the two apart either)
  | .pv v => "P" ++ encPVal v

/-- bytewise lexicographic `<` (what `sort.Strings` uses) -/
def bytesLt : Bytes → Bytes → Bool
  | [], [] => false
  | [], _ :: _ => true
  | _ :: _, [] => false
  | a :: s, b :: t => if a < b then true else if b < a then false else bytesLt s t

def insertKV {α : Type} (x : Bytes × α) : List (Bytes × α) → List (Bytes × α)
  | [] => [x]
  | y :: t => if bytesLt y.1 x.1 then y :: insertKV x t else x :: y :: t

def sortKV {α : Type} (l : List (Bytes × α)) : List (Bytes × α) := l.foldr insertKV []

def encMap {α : Type} (f : α → String) (m : List (Bytes × α)) : String :=
  String.intercalate "+" ((sortKV m).map fun kv => kv.1.toHex ++ "=" ++ f kv.2)

def encPos : Pos → String
  | .h i => toString i
  | .hook => "h"
  | .onErr => "o"

/-- `cur` = identity of the current request's writer / request, `rid` = the router -/
def encObs (cur rid : Nat) (o : Obs) : String :=
  "d{" ++ encMap encVal o.data ++ "}p{" ++
  (match o.params with | none => "nil" | some m => encMap Bytes.toHex m) ++ "}e{" ++
  String.intercalate "+" (o.errors.map Bytes.toHex) ++ "}a" ++ boolStr o.aborted ++
  "s" ++ toString o.status ++ "l" ++ toString o.length ++
  "r" ++ (match o.resp with | .nil => "n" | .own => "o" | .alt id => "a" ++ toString id) ++
  "q" ++ (match o.req with | .nil => "n" | .orig r => (if r = cur then "o" else "x") | .alt id => "a" ++ toString id) ++
  "w" ++ (match o.raw with | none => "n" | some w => if w = cur then "o" else "x") ++
  "R" ++ boolStr (o.router = rid)

def encTEv (cur rid : Nat) : TEv → String
  | .enter i => "E" ++ toString i
  | .leave i => "L" ++ toString i
  | .mark p t => "M" ++ encPos p ++ "." ++ toString t
  | .panicked p v => "P" ++ encPos p ++ "." ++ encPVal v
  | .got p k v => "G" ++ encPos p ++ "." ++ k.toHex ++ "=" ++ (match v with | none => "none" | some x => encVal x)
  | .obs p o => "D" ++ encPos p ++ "." ++ encObs cur rid o
  | .hookEnter => "HE"
  | .hookLeave => "HL"
  | .errEnter => "OE"
  | .errLeave => "OL"

def encTarget (cur : Nat) : Target → String
  | .under none => "n"
  | .under (some w) => if w = cur then "u" else "x"
  | .alt id => "a" ++ toString id

def encWEv (cur : Nat) : WEv → String
  | .wh t c => "WH:" ++ encTarget cur t ++ ":" ++ toString c
  | .wr t b => "W:" ++ encTarget cur t ++ ":" ++ b.toHex

def encList (l : List String) : String := if l.isEmpty then "-" else String.intercalate "," l

def encResult (cur rid : Nat) (r : Result) : String :=
  (match r.outcome with
   | .returned => "ret"
   | .stopped (.panic v) => "panic:" ++ encPVal v
   | .stopped .off => "unsupported") ++
  " t=" ++ encList (r.trace.map (encTEv cur rid)) ++ " l=" ++ encList (r.log.map (encWEv cur))

/-! ### parsing -/

def parsePVal (s : String) : Option PVal :=
  if s = "rn" then some .rtNilMap
  else if s = "ri" then some .rtIndex
  else match s.splitOn "." with
    | ["s", h] => (Bytes.ofHex h).map .str
    | ["e", h] => (Bytes.ofHex h).map .err
    | ["i", n] => (intOfStr? n).map .int
    | ["h", _, h] => (Bytes.ofHex h).map .err
    | ["w", _, h] => (Bytes.ofHex h).map .err
    | _ => none

def parseSAct (s : String) : Option SAct :=
  match s.splitOn ":" with
  | ["em", t] => t.toNat?.map .emit
  | ["pn", v] => (parsePVal v).map .panic
  | ["st", k, v] => do some (.set (← Bytes.ofHex k) (← Bytes.ofHex v))
  | ["ae", e] => (Bytes.ofHex e).map .addError
  | ["sp", k, v] => do some (.setParam (← Bytes.ofHex k) (← Bytes.ofHex v))
  | ["ab"] => some .abort
  | ["ss", c] => (intOfStr? c).map .setStatus
  | ["wr", b] => (Bytes.ofHex b).map .write
  | ["wh", c] => (intOfStr? c).map .respWH
  | ["rr", id] => id.toNat?.map .replaceResp
  | ["rq", id] => id.toNat?.map .replaceReq
  | ["gt", k] => (Bytes.ofHex k).map .get
  | ["dp"] => some .dump
  | _ => none

def parseAct (s : String) : Option Act :=
  if s = "nx" then some .next else (parseSAct s).map .s

/-- the action tokens of a handler without the `kc` tokens (not a step of the model) -/
def isSH (t : String) : Bool :=
  match t.splitOn ":" with
  | ["sh", n] => n.toNat?.isSome && n.length ≤ 6 && n.all Char.isDigit
  | _ => false

/-- the handler token contains a `sh:<id>` action -/
def hasSH (s : String) : Bool := (s.splitOn ",").any isSH

/-- `AbortWithStatus(code[, msg])` as the calls it makes -/
def expandAbort (t : String) : List String :=
  match t.splitOn ":" with
  | ["aw", c] => ["wh:" ++ c, "ab"]
  | ["am", c, m] => ["wh:" ++ c, "wr:" ++ (if m = "-" then "" else m) ++ "0a", "ab"]
  -- `c.JSONP(200, "cb", v)` = SetStatus(200), then the JSONP renderer on c.Resp: `cb(`, the encoding + "\n", `);`
  -- (v = {"n":1}); with a value whose MarshalJSON panics ("mj") the helper dies after the first write
  -- `c.Render(200, view, nil)`: the view that renders is sent with c.HTML (c.Resp.WriteHeader + one write), the failing view
  -- returns its error before anything is sent
  | ["rd", "0"] => ["wh:200", "wr:3c703e6f6b3c2f703e"]
  | ["rd", "1"] => []
  | ["jp", "0"] => ["ss:200", "wr:636228", "wr:7b226e223a317d0a", "wr:293b"]
  | ["jp", "1"] => ["ss:200", "wr:636228", "pn:s.6d6a"]
  | _ => [t]

def isNR (t : String) : Bool :=
  match t.splitOn ":" with
  | ["nr", n] => n.toNat?.isSome && n.length ≤ 6 && n.all Char.isDigit
  | _ => false

def hasNR (s : String) : Bool := (s.splitOn ",").any isNR

def hasHJ (s : String) : Bool := (s.splitOn ",").any (· = "hj")

def actToks (s : String) : List String :=
  ((s.splitOn ",").filter (fun t => t ≠ "kc" && t ≠ "qv" && t ≠ "cx" && !isSH t && !isNR t && t ≠ "hj")).flatMap expandAbort

def parseSHandler (s : String) : Option (List SAct) :=
  if s = "-" then some [] else (actToks s).mapM parseSAct

def parseHandler (s : String) : Option Handler :=
  if s = "PH" then some .panicsHandler
  else if s = "-" then some (.acts [])
  else ((actToks s).mapM parseAct).map .acts

/-! ### state -/

inductive Shape | s | d1 | d2 | ir
  deriving DecidableEq

structure RouteInfo where
  id : Nat
  shape : Shape
  grouped : Bool
  route : Route

structure DState where
  started : Bool := false      -- a `new` op has been seen (everything else is `bad-op` before)
  mna : Bool := false
  globals : List Handler := []
  routes : List RouteInfo := []
  noRoute : List Handler := []
  noAllowed : List Handler := []
  cfg : Cfg := { rid := 0, hook := none, onError := none }
  pool : List Ctx := []
  seq : Nat := 0
  shRoutes : List Nat := []    -- routes with a `sh` / `hj` / `nr` action in one of their handlers (outside the model)
  nestedAll : Bool := false    -- a global / 404 / 405 / hook handler serves nested requests: every request is outside

def parseShape : String → Option Shape
  | "s" => some .s | "d1" => some .d1 | "d2" => some .d2 | "ir" => some .ir | _ => none

def str (s : String) : Bytes := Bytes.ofString s

/-- the request path of route `ri` with variable values `v1`, `v2` (same scheme as engine_dispatch.go) -/
def routePath (ri : RouteInfo) (v1 v2 : Bytes) : Bytes :=
  let g := if ri.grouped then str "/g" else []
  let n := str (toString ri.id)
  g ++ match ri.shape with
    | .s => str "/s" ++ n
    | .d1 => str "/d" ++ n ++ str "/" ++ v1
    | .d2 => str "/e" ++ n ++ str "/" ++ v1 ++ str "/x/" ++ v2
    | .ir => str "/" ++ v1 ++ str "/i" ++ n

def routeParams (ri : RouteInfo) (v1 v2 : Bytes) : Params :=
  match ri.shape with
  | .s => none
  | .d1 => some [(str "p", v1)]
  | .d2 => some [(str "p", v1), (str "q", v2)]
  | .ir => some [(str "p", v1)]

def maxChain : Nat := 127

def doServe (s : DState) (rt : Option Route) (k : Kind) : DState × String :=
  let chain := assemble s.globals s.noRoute s.noAllowed rt k
  let cur := s.seq + 1
  if chain.length > maxChain then ({ s with seq := cur }, "unsupported") else
  let rq : Req := { w := cur, r := cur, kind := k, chain := chain }
  -- the model's answer does not depend on which pooled context is taken (theorem C10_history); take the newest
  let (res, pool') := serve s.cfg s.pool (some 0) rq
  -- internal part: `pr` = "a context lost by a propagated panic was handed out again" — never, in the model
  ({ s with seq := cur, pool := pool' }, encResult cur s.cfg.rid res ++ " ;; pr=0")

def dispatchStep' (s : DState) : List String → DState × String
  | ["use", h] =>
    match parseHandler h with
    | some h => ({ s with globals := s.globals ++ [h] }, "ok")
    | none => (s, "bad-op")
  | "route" :: id :: shape :: ng :: hs =>
    match id.toNat?, parseShape shape, ng.toNat?, hs.mapM parseHandler with
    | some id, some sh, some ng, some hs =>
      match hs.getLast? with
      | some main =>
        if ng < hs.length then
          ({ s with routes := { id := id, shape := sh, grouped := ng > 0,
                                route := { handlers := hs.dropLast, main := main } } ::
                              s.routes.filter (·.id ≠ id) }, "ok")
        else (s, "bad-op")
      | none => (s, "bad-op")
    | _, _, _, _ => (s, "bad-op")
  | "notfound" :: hs =>
    match hs.mapM parseHandler with
    | some hs => ({ s with noRoute := hs }, "ok")
    | none => (s, "bad-op")
  | "notallowed" :: hs =>
    match hs.mapM parseHandler with
    | some hs => ({ s with noAllowed := hs }, "ok")
    | none => (s, "bad-op")
  | ["onerror", h] =>
    match parseSHandler h with
    | some h => ({ s with cfg := { s.cfg with onError := some h } }, "ok")
    | none => (s, "bad-op")
  | ["onpanic", h] =>
    match parseSHandler h with
    | some h => ({ s with cfg := { s.cfg with hook := some h } }, "ok")
    | none => (s, "bad-op")
  | ["nopanic"] => ({ s with cfg := { s.cfg with hook := none } }, "ok")
  | ["serve", "nf", _] => doServe s none .notFound
  | ["serve", kind, id, v1, v2] =>
    match id.toNat?, Bytes.ofHex v1, Bytes.ofHex v2 with
    | some id, some v1, some v2 =>
      match s.routes.find? (·.id = id) with
      | some ri =>
        if kind = "r" then
          doServe s (some ri.route) (.route (routeParams ri v1 v2) [] (routePath ri v1 v2))
        else if kind = "na" then
          if s.mna then doServe s none (.notAllowed [str "GET"]) else doServe s none .notFound
        else (s, "bad-op")
      | none => (s, "bad-op")
    | _, _, _ => (s, "bad-op")
  | _ => (s, "bad-op")

/-- `sh` actions: legal in `route` lines only; a request to such a route is outside the model -/
def dispatchStepSH (s : DState) (toks : List String) : DState × String :=
  match toks with
  | "route" :: id :: _ :: _ :: hs =>
    let r := dispatchStep' s toks
    if r.2 = "ok" && hs.any (fun h => hasSH h || hasNR h || hasHJ h) then
      match id.toNat? with
      | some i => ({ r.1 with shRoutes := i :: r.1.shRoutes }, "ok")
      | none => r
    else r
  | ["serve", "r", id, v1, v2] =>
    if s.nestedAll then ({ s with seq := s.seq + 1 }, "unsupported") else
    match id.toNat?, Bytes.ofHex v1, Bytes.ofHex v2 with
    | some i, some _, some _ =>
      if s.shRoutes.contains i && (s.routes.any (·.id = i)) then ({ s with seq := s.seq + 1 }, "unsupported")
      else dispatchStep' s toks
    | _, _, _ => dispatchStep' s toks
  | "serve" :: _ => if s.nestedAll then ({ s with seq := s.seq + 1 }, "unsupported") else dispatchStep' s toks
  | _ =>
    if (toks.drop 1).any (fun h => hasSH h || hasHJ h) then (s, "bad-op")
    else
      let r := dispatchStep' s toks
      if r.2 = "ok" && (toks.drop 1).any hasNR then ({ r.1 with nestedAll := true }, "ok") else r

def dispatchStep (s : DState) : List String → DState × String
  | ["new", _caching, mna] => ({ started := true, mna := mna = "1" }, "ok")
  | ["nilpanic"] => (s, "unsupported")     -- panic(nil) is outside the model (known finding K-C09-panicnil)
  | "serveh" :: rest => if s.started then dispatchStepSH s ("serve" :: rest) else (s, "bad-op")
  | toks => if s.started then dispatchStepSH s toks else (s, "bad-op")

def dispatchEngine : Engine := { σ := DState, init := {}, step := dispatchStep }

end Rux.Drv.DispatchE

namespace Rux.Drv
export DispatchE (dispatchEngine)
end Rux.Drv
