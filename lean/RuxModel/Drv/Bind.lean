import RuxModel.Drv.Common
import RuxModel.Model.Bind
/-
  driver engine `bind` (C18): the binding model behind the line protocol.

    src  <method> <ctype>                         -> query|form|multipart|json|xml|unsupported
    bind <api> <validator> <method> <ctype> <mclass> <rawquery> <body> <hdr> <jdec> <xdec> <mpv>
                                                  -> ok <V> <Q> | err | panic:err | unsupported
    bindc <carrier> <api> … (the 11 fields of bind)  -> the same answer: `<carrier>` ∈ rd | nobody | nop | newreq | wire
                                                  says how `r.Body` delivers `<body>` (`nobody` = `http.NoBody`,
                                                  which demands an empty `<body>`); the model's `Request.body` is
                                                  the byte content, whatever carries it
    tbind <type> <api> <validator> … (the other 9 fields of bind)
                                                  -> the answer of bind for a struct type with the same two fields:
                                                  `<type>` ∈ an | am | ln | pn (no rules) | ar | lr | pr (the rules
                                                  of the bind op on V); `<validator>` ∈ off | std | keep, where keep
                                                  = "enabled, and it is the validator earlier ops of the case used".
                                                  The model is a function of this request and this type only: no
                                                  earlier bind can change the answer
    esc <s> -> s <hex>   unesc <s> -> ok <hex> | err
    pq <s>  -> v <vals> <0|1>                     (`url.ParseQuery`: values sorted by key, error flag)
    enc <pairs> -> s <hex>                        (`url.Values.Encode` of the map built from the pairs)
    rt <format> <api> <type> <payload>            -> eq        (the statement demands equality; sampled)

  The test struct of the `bind` op has two string fields `V` (tags "v") and `Q` (tags "q"); its value is the
  pair of their byte strings.  The codecs, PARAMETERS of the model, are instantiated from the op line:
    * `<jdec>`, `<xdec>`: what `encoding/json` / `encoding/xml` make of `<body>`: `!` = error,
      `?` = unknown (the answer is `unsupported` if the model needs it), `<V>:<Q>` = the decoded fields;
    * `<mpv>`: the `Value` map `mime/multipart` reads from `<body>`: `!`, `?`, or `k:v,k:v` pairs;
    * `<mclass>`: the verdict of `mime.ParseMediaType`: urlenc | mpart | mpartnb | other | bad;
    * formam on `{V, Q}`: first value of key `v` / `q`; any other key is an "unknown field" error; keys that
      formam treats specially (`.`, `[`, the Go field names `V`, `Q`) are outside the modelled fragment;
    * validator (`<validator>` ≠ off): `V ≠ "" ∧ V ≠ "bad"` (`validate:"required|notIn:bad"`).
-/
namespace Rux.Drv.BindE
open Rux.Drv
open Rux.Bind

def sourceStr : Source → String
  | .query => "query" | .form => "form" | .multipart => "multipart"
  | .json => "json" | .xml => "xml" | .unsupported => "unsupported"

/-- value of the test struct -/
abbrev V2 := Bytes × Bytes

def kV : Bytes := [0x76]
def kQ : Bytes := [0x71]
def kVup : Bytes := [0x56]
def kQup : Bytes := [0x51]
def kContentType : Bytes := [0x43, 0x6F, 0x6E, 0x74, 0x65, 0x6E, 0x74, 0x2D, 0x54, 0x79, 0x70, 0x65]
def sBad : Bytes := [0x62, 0x61, 0x64]

/-- formam on the two-field struct; the error `true` means "outside the modelled fragment" -/
def miniFormam (vals : Vals) : Except Bool V2 :=
  let keys := vals.map (·.1)
  if keys.any (fun k => k = kVup || k = kQup || k.contains 0x2E || k.contains 0x5B) then .error true
  else if keys.any (fun k => !(k = kV || k = kQ)) then .error false
  else if vals.any (fun e => e.2.isEmpty) then .error true
  else .ok ((valsGet vals kV).headD [], (valsGet vals kQ).headD [])

/-- a body-decoder verdict from the op line -/
inductive Verdict where
  | fails | unknown | value (v : V2)

def parseVerdict (s : String) : Option Verdict :=
  if s = "!" then some .fails
  else if s = "?" then some .unknown
  else match s.splitOn ":" with
    | [a, b] => match Bytes.ofHex a, Bytes.ofHex b with
      | some x, some y => some (.value (x, y))
      | _, _ => none
    | _ => none

def Verdict.toExcept : Verdict → Except Bool V2
  | .fails => .error false
  | .unknown => .error true
  | .value v => .ok v

def parsePairList (s : String) : Option (List (Bytes × Bytes)) :=
  if s = "-" then some []
  else (s.splitOn ",").mapM fun kv =>
    match kv.splitOn ":" with
    | [a, b] => match Bytes.ofHex a, Bytes.ofHex b with
      | some x, some y => some (x, y)
      | _, _ => none
    | _ => none

def parseMultipartVerdict (s : String) : Option (Except Bool Vals) :=
  if s = "!" then some (.error false)
  else if s = "?" then some (.error true)
  else (parsePairList s).map fun ps => .ok (valsOfPairs ps)

def parseMClass : String → Option MediaClass
  | "urlenc" => some .urlenc
  | "mpart" => some .multipart
  | "mpartnb" => some .multipartNoBoundary
  | "other" => some .other
  | "bad" => some .bad
  | _ => none

/-- `<api>` → (entry point, does it panic on error) -/
def parseApi (s : String) : Option (Api × Bool) :=
  match s.splitOn "." with
  | ["auto"] => some (.auto, false)
  | ["pkgbind"] => some (.auto, false)
  | ["pkgmust"] => some (.auto, true)
  | ["ctxbind"] => some (.auto, false)
  | ["ctxauto"] => some (.auto, false)
  | [b, how] =>
    let must := how = "must"
    if !(["bind", "should", "must", "ctx", "name", "vals", "bytes"].contains how) then none else
    match b with
    | "form" => some (if how = "vals" then .query else .form, must)
    | "query" => some (.query, must)
    | "header" => some (.header, must)
    | "json" => some (.json, must)
    | "xml" => some (.xml, must)
    | _ => none
  | _ => none

def validatorRule (v : V2) : Except Bool Unit :=
  if v.1.isEmpty || v.1 = sBad then .error false else .ok ()

def valsStr (m : Vals) : String :=
  if m.isEmpty then "-" else
  String.intercalate "," ((sortVals m).map fun e =>
    Bytes.toHex e.1 ++ ":" ++ String.intercalate "/" (e.2.map Bytes.toHex))

/-- the ways a request delivers its body; none of them is visible to binding (`BodyCarrier.content`) -/
def parseCarrier (carrier body : String) : Option (Bytes → BodyCarrier) :=
  if carrier = "nobody" then (if body = "-" then some (fun _ => .noBody) else none)
  else if ["rd", "nop", "newreq", "wire", "chunk"].contains carrier then some .reader
  else none

/-- the `bind` op (fields after the op name); `carry` says how the body bytes are delivered -/
def bindOp (carry : Bytes → BodyCarrier) : List String → String
  | [api, val, m, ct, mc, rq, body, hdr, jd, xd, mpv] =>
    match parseApi api, Bytes.ofHex m, Bytes.ofHex ct, parseMClass mc, Bytes.ofHex rq, Bytes.ofHex body,
        parsePairList hdr, parseVerdict jd, parseVerdict xd, parseMultipartVerdict mpv with
    | some (api, must), some m, some ct, some mc, some rq, some body, some hdr, some jd, some xd, some mpv =>
      -- `offcnt`: validation was switched off (DisableValidator) and a validator of the application installed afterwards:
      -- a validator is configured
      if !(["off", "std", "cnt", "offcnt"].contains val) then "bad-op" else
      let c : Codecs V2 Bool := {
        decodeValues := fun _ vals => miniFormam vals
        decodeJSON := fun _ => jd.toExcept
        decodeXML := fun _ => xd.toExcept
        validator := if val = "off" then none else some validatorRule }
      let header : Vals :=
        valsOfPairs ((if ct.isEmpty then [] else [(kContentType, ct)]) ++ hdr)
      let r : Request Bool := {
        method := m, ctype := ct, rawQuery := rq, body := (carry body).content, header := header,
        mclass := mc, multipartValues := mpv }
      match bindWith c r api with
      | .ok v => s!"ok {Bytes.toHex v.1} {Bytes.toHex v.2}"
      | .error (.codec true) => "unsupported"
      | .error _ => if must then "panic:err" else "err"
    | _, _, _, _, _, _, _, _, _, _ => "bad-op"
  | _ => "bad-op"

/-- `<type>` of the `tbind` op ↦ does the struct type declare the rules (`validate:"required|notIn:bad"` on V) -/
def vtRules : String → Option Bool
  | "an" | "am" | "ln" | "pn" => some false
  | "ar" | "lr" | "pr" => some true
  | _ => none

/-- the `tbind` op: `binding.Validate` of a struct type without rules passes always (= no validator); an enabled
    validator is the rule of the type, whatever it has been asked before -/
def vtBindOp : List String → String
  | typ :: api :: val :: rest =>
    match vtRules typ with
    | some rules =>
      if !(["off", "std", "keep"].contains val) then "bad-op"
      else bindOp .reader (api :: (if rules && val != "off" then "std" else "off") :: rest)
    | none => "bad-op"
  | _ => "bad-op"

def bindStep : List String → String
  | ["src", m, ct] =>
    match Bytes.ofHex m, Bytes.ofHex ct with
    | some m, some ct => sourceStr (autoSource m ct)
    | _, _ => "bad-op"
  | "bind" :: rest => bindOp .reader rest
  | "tbind" :: rest => vtBindOp rest
  | "bindc" :: carrier :: rest =>
    match parseCarrier carrier (rest.getD 6 "") with
    | some carry => bindOp carry rest
    | none => "bad-op"
  | ["esc", s] =>
    match Bytes.ofHex s with
    | some s => "s " ++ Bytes.toHex (escape s)
    | none => "bad-op"
  | ["unesc", s] =>
    match Bytes.ofHex s with
    | some s => match unescape s with
      | some r => "ok " ++ Bytes.toHex r
      | none => "err"
    | none => "bad-op"
  | ["pq", s] =>
    match Bytes.ofHex s with
    | some s => let r := parseQuery s; "v " ++ valsStr r.1 ++ " " ++ boolStr r.2
    | none => "bad-op"
  | ["enc", ps] =>
    match parsePairList ps with
    | some ps => "s " ++ Bytes.toHex (encode (valsOfPairs ps))
    | none => "bad-op"
  | ["rt", _, _, _, _] => "eq"
  | _ => "bad-op"

def bindEngine : Engine := { σ := Unit, init := (), step := fun _ l => ((), bindStep l) }

end Rux.Drv.BindE

namespace Rux.Drv
export BindE (bindEngine)
end Rux.Drv
