import RuxModel.Drv.Common
import RuxModel.Model.Reg
import RuxModel.Model.Rest
import RuxModel.Model.PathFmt
/-
  driver engine `reg`: registration programs (C12, C04 chain assembly, C16 through `resource`).

  Program lines are BUFFERED (answer `ok`) and executed by `run` with the model's `execList` on the
  parsed statement tree — the very function the theorems of Props/C12 are about:

    new <opts> [<cache>]                         reset; <opts> is a bit mask: 1 = router built with HandleMethodNotAllowed,
                                                 2 = with StrictLastSlash (the model then formats with `fmtPath true` / `simpleFmt` of
                                                 Model/PathFmt.lean - the full formatPath - instead of the white-space-free `cleanFmt`);
                                                 <cache> (0..65535): 0 = no route cache, 1000 = EnableCaching, n = CachingWithNum(n).
                                                 The model has no cache: the lookup is cache-transparent (C07_transparent), so the
                                                 answer to a repeated serve/probe line is the answer to the first one.
    buf <bid> <tags>                             a caller-side array shared by later arguments
    use <arg>
    route <id> <kind> <name> <methods> <path> <pre> <post>
    group <prefix> <arg>   …   end
    controller <prefix> <arg>   …   end
    resource <rid> <kind> <base> <resname> <implmask> <usesmask> <arg>
                                                 <kind> = ptr | val | ptrint | ptrptr | same  (same: Go side registers ONE controller value
                                                 per <rid> again and again, also across `new`; for the model a registration like any other)
    notfound <arg> | notallowed <arg>
    run                                          -> ok <#routes> ;; <pfx> <#grp> <#globals>  |  panic:msg
    info <id>                                    -> route <path> <name> <methods> <handler tags>
    serve <id> <method>                          -> served|notallowed|notfound <chain: tags in start order> for a request to route <id>
    miss                                         -> the chain of a request that matches nothing
    routes                                       -> every (methods,path,name), sorted
    named                                        -> name=path of every named route, sorted
    probe <method> <path>                        -> chain of an arbitrary request, ` allow=<methods>` for a 405
                                                    (lookup of Model/Rest.lean: only for tables of REST shape, engine `rest`)

  <arg>  = `-` | tags[`+`spare] | `@`bid`:`lo`:`hi      (spare capacity only matters on the Go side)
  <pre>/<post> = `-` | call(`/`call)*,  call = [`~`] (`e` (a Use call without arguments) | <arg>)
                 `~` in <post>: the Go side makes this Route.Use call at the end of the run
  paths, prefixes, names: hex.   A stray `end` is ignored, open groups are closed by `run`.
-/
namespace Rux.Drv.RegE
open Rux.Drv
open Rux.Reg

structure RegSt where
  opt405 : Bool
  bufs : List (Nat × List H)
  lines : List (List String)      -- buffered program lines, newest first
  st : Option RS                  -- `none` after a panic: the router is in no defined state
  strict : Bool := false          -- the router was built with StrictLastSlash
  fb : Bool := false              -- the router was built with HandleFallbackRoute

def RegSt.init : RegSt := { opt405 := false, bufs := [], lines := [], st := some RS.init }

/-- option mask of `new`: bit 1 HandleMethodNotAllowed, bit 2 StrictLastSlash, bit 4 HandleFallbackRoute -/
def optMask (o : String) : Nat := (o.toNat?).getD 0
def RegSt.fresh (o : String) : RegSt :=
  { RegSt.init with opt405 := optMask o % 2 = 1, strict := (optMask o / 2) % 2 = 1, fb := (optMask o / 4) % 2 = 1 }

/-- `QuickMatch`'s fallback step: with HandleFallbackRoute, a request that matched nothing (also not as HEAD→GET) is
    answered by the route stored as `<method>/*` in the static table (the last one registered), BEFORE the 405 step -/
def fbRoute (fb : Bool) (routes : List Route) (m : Bytes) : Option Route :=
  if fb then (routes.filter fun r => isFixed r.path && r.methods.contains m && r.path == ascii "/*").getLast? else none

def regLimit : Nat := 63
def regCfg : Cfg := cleanCfg regLimit
/-- StrictLastSlash routers: `formatPath` with the strict flag (trailing slashes are kept) -/
def regCfgOf (strict : Bool) : Cfg := if strict then ⟨fmtPath true, simpleFmt, regLimit⟩ else regCfg
/-- the request path as `QuickMatch` formats it -/
def reqFmt (strict : Bool) (p : Bytes) : Bytes := if strict then fmtPath true p else cleanFmt p

def parseArg (bufs : List (Nat × List H)) (s : String) : Option (List H) :=
  if s = "-" then some []
  else if s.startsWith "@" then
    match (((s.drop 1).toString).splitOn ":").map (·.toNat?) with
    | [some b, some lo, some hi] =>
      match bufs.lookup b with
      | some cells => if lo ≤ hi ∧ hi ≤ cells.length then some ((cells.drop lo).take (hi - lo)) else none
      | none => none
    | _ => none
  else
    match s.splitOn "+" with
    | [t] => parseNatList t
    | [t, sp] => if sp.toNat?.isSome then parseNatList t else none
    | _ => none

def parseUses (bufs : List (Nat × List H)) (s : String) : Option (List (List H)) :=
  if s = "-" then some []
  else (s.splitOn "/").mapM fun c =>
    -- `~call`: the harness makes this `Route.Use` call only after the rest of the program has run;
    -- for the lists it is the same append
    let c := if c.startsWith "~" then (c.drop 1).toString else c
    if c = "e" then some [] else parseArg bufs c

def parseMethods (s : String) : List Bytes :=
  -- `formatMethodsWithDefault`: no method = GET
  if s = "-" then [Bytes.ofString "GET"] else (s.splitOn ",").map Bytes.ofString

/-- the registration API used on the Go side restricts the shape of the `Use` calls -/
def kindOk (kind : String) (methods : List Bytes) (pre post : List (List H)) : Bool :=
  match kind with
  | "verb" => pre.isEmpty && !post.isEmpty && methods.length == 1   -- r.GET(path, h, mws...)
  | "add" => pre.isEmpty                                            -- r.Add(path, h, methods...)
  | "named" => pre.isEmpty                                          -- r.AddNamed(name, path, h, methods...)
  | "any" => pre.length == 1 && post.isEmpty                        -- r.Any(path, h, mws...)
  | "pre" => true                                                   -- NewRoute(..).Use(..)…; r.AddRoute(route)
  | _ => false

def anyMethodsB : List Bytes :=
  ["GET", "POST", "PUT", "PATCH", "DELETE", "OPTIONS", "HEAD", "CONNECT", "TRACE"].map Bytes.ofString

def actionsOfMask (m : Nat) : List Action :=
  Action.all.filter fun a => (m / 2 ^ a.idx) % 2 == 1

/-- a line that is a complete statement -/
def parseSimple (bufs : List (Nat × List H)) : List String → Option Stmt
  | ["use", a] => (parseArg bufs a).map Stmt.use
  | ["notfound", a] => (parseArg bufs a).map Stmt.notFound
  | ["notallowed", a] => (parseArg bufs a).map Stmt.notAllowed
  | ["route", id, kind, name, ms, path, pre, post] =>
    match id.toNat?, Bytes.ofHex name, Bytes.ofHex path, parseUses bufs pre, parseUses bufs post with
    | some id, some name, some path, some pre, some post =>
      let methods := if kind = "any" then anyMethodsB else parseMethods ms
      if kindOk kind methods pre post then
        some (.route { id := id, main := id, name := name, methods := methods, path := path, pre := pre, post := post })
      else none
    | _, _, _, _, _ => none
  | ["resource", rid, kind, base, res, impl, uses, a] =>
    match rid.toNat?, Bytes.ofHex base, Bytes.ofHex res, impl.toNat?, uses.toNat?, parseArg bufs a with
    | some rid, some base, some res, some impl, some uses, some mws =>
      let k := if kind = "ptr" then some CtrlKind.ptrStruct else if kind = "val" then some .nonPtr
               -- `ptrptr`: a pointer to a pointer to the struct — what it points to is not a struct
               else if kind = "ptrint" ∨ kind = "ptrptr" then some .ptrNonStruct
               -- `same`: the harness hands the controller VALUE of an earlier `resource <rid> same` line to
               -- Resource again (other base path / other router). Resource only reads the controller and
               -- the map its Uses() returns: every registration is the registration of a fresh controller.
               else if kind = "same" then some .ptrStruct else none
      k.map fun k => .resource
        { kind := k, base := base, resName := res, impl := actionsOfMask impl
          -- `Uses()` of the generated controllers: action a ↦ the single handler tagged rid + 10 + a.idx
          uses := (actionsOfMask uses).map fun a => (a, [rid + 10 + a.idx])
          order := Action.all, rid := rid } mws
    | _, _, _, _, _, _ => none
  | _ => none

/-- block structure: `group`/`controller` … `end`; returns the statements and the unread lines.
    `none` = a line that cannot be parsed. -/
def parseBlock (bufs : List (Nat × List H)) : Nat → Bool → List (List String) → Option (List Stmt × List (List String))
  | 0, _, _ => some ([], [])
  | _ + 1, _, [] => some ([], [])
  | fuel + 1, top, l :: rest =>
    match l with
    | ["end"] =>
      if top then parseBlock bufs fuel top rest        -- stray `end`: ignored
      else some ([], rest)
    | [kw, p, a] =>
      if kw = "group" ∨ kw = "controller" then
        match Bytes.ofHex p, parseArg bufs a, parseBlock bufs fuel false rest with
        | some p, some mws, some (body, rest') =>
          match parseBlock bufs fuel top rest' with
          | some (more, rest'') =>
            some ((if kw = "group" then Stmt.group p mws body else Stmt.controller p mws body) :: more, rest'')
          | none => none
        | _, _, _ => none
      else none
    | _ =>
      match parseSimple bufs l, parseBlock bufs fuel top rest with
      | some s, some (more, rest') => some (s :: more, rest')
      | _, _ => none

def isProgLine : List String → Bool
  | kw :: _ => ["use", "notfound", "notallowed", "route", "resource", "group", "controller", "end"].contains kw
  | [] => false

/-- does this buffered line parse on its own? (so that `bad-op` is answered at the line itself) -/
def lineOk (bufs : List (Nat × List H)) : List String → Bool
  | ["end"] => true
  | [kw, p, a] =>
    if kw = "group" ∨ kw = "controller" then (Bytes.ofHex p).isSome && (parseArg bufs a).isSome
    else false
  | l => (parseSimple bufs l).isSome

def routeById (st : RS) (id : Nat) : Option Route :=
  (st.routes.filter (fun r => r.id == id)).getLast?

def bytesToString (b : Bytes) : String := String.ofList (b.map Char.ofNat)

def methodsStr (ms : List Bytes) : String :=
  if ms.isEmpty then "-" else String.intercalate "," (ms.map bytesToString)

/-- insertion sort on strings (canonical order of what came out of a Go map) -/
def insertStr (s : String) : List String → List String
  | [] => [s]
  | a :: t => if s ≤ a then s :: a :: t else a :: insertStr s t

def sortStrs (l : List String) : List String := l.foldr insertStr []

def d404 : H := 404
def d405 : H := 405

/-- answer of a request: how it resolved and the chain that runs -/
def chainAns (st : RS) (res : Resolved) : String :=
  let kind := match res with
    | .found _ => "served"
    | .notAllowed => "notallowed"
    | .notFound => "notfound"
  kind ++ " " ++ natList (chain d404 d405 st.toScope res)

partial def regStep (s : RegSt) : List String → RegSt × String
  | ["new", o] => (RegSt.fresh o, "ok")
  | ["new", o, c] =>
    match c.toNat? with
    | some n => if n < 65536 then (RegSt.fresh o, "ok") else (s, "bad-op")
    | none => (s, "bad-op")
  | ["buf", b, tags] =>
    match b.toNat?, parseNatList tags with
    | some b, some t => ({ s with bufs := (b, t) :: s.bufs }, "ok")
    | _, _ => (s, "bad-op")
  | ["run"] =>
    match s.st with
    | none => ({ s with lines := [] }, "skipped")
    | some st =>
      let ls := s.lines.reverse
      match parseBlock s.bufs (ls.length + 1) true ls with
      | none => ({ s with lines := [] }, "bad-op")
      | some (prog, _) =>
        match execList (regCfgOf s.strict) st prog with
        | .ok st' =>
          ({ s with lines := [], st := some st' },
           s!"ok {st'.routes.length} ;; {Bytes.toHex st'.pfx} {st'.grp.length} {st'.globals.length}")
        | .error _ => ({ s with lines := [], st := none }, "panic:msg")
  | ["info", id] =>
    match s.st, id.toNat? with
    | none, _ => (s, "skipped")
    | some st, some id =>
      match routeById st id with
      | some r => (s, s!"route {Bytes.toHex r.path} {Bytes.toHex r.name} {methodsStr r.methods} {natList r.handlers}")
      | none => (s, "none")
    | _, none => (s, "bad-op")
  | ["serve", id, m] =>
    match s.st, id.toNat? with
    | none, _ => (s, "skipped")
    | some st, some id =>
      match routeById st id with
      | some r =>
        let mb := Bytes.ofString m
        let res :=
          if r.methods.contains mb then Resolved.found r
          else if m = "HEAD" ∧ r.methods.contains (Bytes.ofString "GET") then Resolved.found r
          else match fbRoute s.fb st.routes mb with
            | some f => Resolved.found f
            | none => if s.opt405 then Resolved.notAllowed else Resolved.notFound
        (s, chainAns st res)
      | none => (s, "none")
    | _, none => (s, "bad-op")
  | ["miss"] =>
    match s.st with
    | none => (s, "skipped")
    | some _ => regStep s ["probe", "GET", Bytes.toHex (ascii "/no/such/route")]
  | ["routes"] =>
    match s.st with
    | none => (s, "skipped")
    | some st =>
      let ts := st.routes.map fun r => s!"{methodsStr r.methods}:{Bytes.toHex r.path}:{Bytes.toHex r.name}"
      (s, "triples " ++ (if ts.isEmpty then "-" else String.intercalate " " (sortStrs ts).eraseDups))
  | ["named"] =>
    match s.st with
    | none => (s, "skipped")
    | some st =>
      let names := (st.routes.map (·.name)).filter (· ≠ [])
      let ts := names.filterMap fun n => (namedRoute st n).map fun r => s!"{Bytes.toHex n}={Bytes.toHex r.path}"
      (s, "names " ++ (if ts.isEmpty then "-" else String.intercalate " " (sortStrs ts).eraseDups))
  | ["probeq", m, p] =>
    -- the raw request target: `%2F` / `%2f` are slashes of the decoded path the router matches on
    match Bytes.ofHex p with
    | some raw =>
      let rec dec : Nat → Bytes → Bytes
        | 0, _ => []
        | _, [] => []
        | n + 1, 0x25 :: 0x32 :: c :: rest => if c = 0x46 ∨ c = 0x66 then 0x2F :: dec n rest else 0x25 :: dec n (0x32 :: c :: rest)
        | n + 1, b :: rest => b :: dec n rest
      regStep s ["probe", m, Bytes.toHex (dec (raw.length + 1) raw)]
    | none => (s, "bad-op")
  | ["probe", m, p] =>
    match s.st, Bytes.ofHex p with
    | none, _ => (s, "skipped")
    | some st, some p =>
      let out :=
        match resolve false st.routes (ascii m) (reqFmt s.strict p) with
        | .served r => Outcome.served r
        | _ =>
          match fbRoute s.fb st.routes (ascii m) with
          | some f => Outcome.served f
          | none => resolve s.opt405 st.routes (ascii m) (reqFmt s.strict p)
      match out with
      | .served r => (s, chainAns st (.found r))
      | .notAllowed alm =>
        -- the Allow header is written by the built-in 405 handler only
        (s, chainAns st .notAllowed ++
              (if st.noAllowed.isEmpty then " allow=" ++ String.intercalate "," (sortStrs (alm.map bytesToString)) else ""))
      | .notFound => (s, chainAns st .notFound)
    | _, none => (s, "bad-op")
  | l =>
    if isProgLine l then
      if lineOk s.bufs l then ({ s with lines := l :: s.lines }, "ok") else (s, "bad-op")
    else (s, "bad-op")

def regEngine : Engine := { σ := RegSt, init := RegSt.init, step := regStep }

end Rux.Drv.RegE

namespace Rux.Drv
export RegE (regEngine)
end Rux.Drv
