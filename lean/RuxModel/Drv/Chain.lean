import RuxModel.Drv.Common
import RuxModel.Model.Chain
/-
  driver engine `chain`: the handler-chain model behind the line protocol.

    new                         -> ok            forget all handlers
    g <acts>                    -> ok            add a global middleware        (Router.Use)
    p <acts>                    -> ok            add a group middleware         (Group(..., mw) / Use inside)
    r <acts>                    -> ok            add a route middleware         (GET(.., mw...) / Route.Use)
    m <acts>                    -> ok            set the main handler
    serve <variant>             -> ok|ab <trace> st=<status> ;; idx=<cursor>     (ab: somebody aborted)
                                   chain = g ++ p ++ r ++ [m]; `variant` only selects HOW the harness
                                   registers the same chain on the real router (ignored here)
    servef <variant> <k>        -> the same answer as `serve`: the harness serves the request over a connection
                                   whose writes fail from the k-th on. No action of these chains looks at the
                                   result of a write (`http.Error`, used by AbortWithStatus(c, msg), ignores it),
                                   so a broken connection changes nothing the property talks about.
    lim <g1> <g2> <pre> <u> <v> -> accept <n> | reject <step>
                                   NewRoute.Use(pre) ; AddRoute inside groups with g1 + g2 middleware ;
                                   route.Use(u)

  <acts>: comma separated, `-` = none:  e<t> emit, n Next(), a Abort(), t AbortThen(), s<c> AbortWithStatus(c),
          x<c> AbortWithStatus(c, msg), i<t> record IsAborted(), c<c> SetStatus(c), w<t> write chunk t,
          b<t> marker t; the real handler additionally swaps c.Resp for a transparent buffering writer until it returns
          R Next() called by a recovery middleware (defer/recover around it); nothing panics in these chains, so it is `n`
  <trace>: comma separated: E<h> L<h> M<h>.<t> P<h>.<t>.<0|1> A<h> S<h>.<c> W<h>.<t>
-/
namespace Rux.Drv.ChainE
open Rux.Drv
open Rux.Chain

structure ChainSt where
  g : List Handler := []
  p : List Handler := []
  r : List Handler := []
  m : Option Handler := none

def parseAct (s : String) : Option Act :=
  match s.toList with
  | ['n'] => some .next
  | ['R'] => some .next
  | ['a'] => some .abort
  | ['t'] => some .abortThen
  | c :: rest =>
    match (String.ofList rest).toNat? with
    | none => none
    | some k =>
      if c = 'e' then some (.emit k)
      else if c = 'b' then some (.emit k)   -- marker; the real handler also wraps c.Resp transparently
      else if c = 's' then some (.abortWithStatus k)
      else if c = 'x' then some (.abortWithMsg k)
      else if c = 'i' then some (.isAborted k)
      else if c = 'c' then some (.setStatus k)
      else if c = 'w' then some (.write k)
      else none
  | [] => none

def parseActs (s : String) : Option Handler :=
  if s = "-" then some [] else (s.splitOn ",").mapM parseAct

def evStr : Ev → String
  | .enter h => s!"E{h}"
  | .leave h => s!"L{h}"
  | .mark h t => s!"M{h}.{t}"
  | .aborted h t b => s!"P{h}.{t}.{if b then 1 else 0}"
  | .abort h => s!"A{h}"
  | .status h c => s!"S{h}.{c}"
  | .write h t => s!"W{h}.{t}"

def traceStr (tr : List Ev) : String :=
  if tr.isEmpty then "-" else String.intercalate "," (tr.map evStr)

def chainServe (s : ChainSt) : String :=
  match s.m with
  | none => "no-main"
  | some m =>
    let hs := s.g ++ s.p ++ s.r ++ [m]
    if (hs.length : Int) ≤ abortIndex then
      match serve hs with
      | .ok st =>
        let kind := if st.trace.any Ev.isAbort then "ab" else "ok"
        s!"{kind} {traceStr st.trace} st={finalStatus st.trace} ;; idx={st.idx}"
      | .panic => "panic:index"
      | .fuel => "hang"
    else "unsupported"

def chainLim (g1 g2 pre u : Nat) : String :=
  match routeUse 0 pre with
  | none => "reject use1"
  | some c1 =>
    match groupAttach (g1 + g2) c1 with
    | none => "reject attach"
    | some c2 =>
      match routeUse c2 u with
      | none => "reject use2"
      | some c3 => s!"accept {c3}"

def chainStep (s : ChainSt) : List String → ChainSt × String
  | ["new"] => ({}, "ok")
  | ["g", a] => match parseActs a with | some h => ({ s with g := s.g ++ [h] }, "ok") | none => (s, "bad-op")
  | ["p", a] => match parseActs a with | some h => ({ s with p := s.p ++ [h] }, "ok") | none => (s, "bad-op")
  | ["r", a] => match parseActs a with | some h => ({ s with r := s.r ++ [h] }, "ok") | none => (s, "bad-op")
  | ["m", a] => match parseActs a with | some h => ({ s with m := some h }, "ok") | none => (s, "bad-op")
  | ["serve", v] => match v.toNat? with | some _ => (s, chainServe s) | none => (s, "bad-op")
  | ["servef", v, k] =>
    match v.toNat?, k.toNat? with
    | some _, some _ => if k.length ≤ 6 then (s, chainServe s) else (s, "bad-op")
    | _, _ => (s, "bad-op")
  | ["lim", g1, g2, pre, u, v] =>
    match g1.toNat?, g2.toNat?, pre.toNat?, u.toNat?, v.toNat? with
    | some g1, some g2, some pre, some u, some _ => (s, chainLim g1 g2 pre u)
    | _, _, _, _, _ => (s, "bad-op")
  | _ => (s, "bad-op")

def chainEngine : Engine := { σ := ChainSt, init := {}, step := chainStep }

end Rux.Drv.ChainE

namespace Rux.Drv
export ChainE (chainEngine)
end Rux.Drv
