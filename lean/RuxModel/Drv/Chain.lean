import RuxModel.Drv.Common
import RuxModel.Model.Chain
/-
  driver engine `chain`: the handler-chain model behind the line protocol.

    new                         -> ok            forget all handlers
    g <acts>                    -> ok            add a global middleware        (Router.Use)
    p <acts>                    -> ok            add a group middleware         (Group(..., mw) / Use inside)
    r <acts>                    -> ok            add a route middleware         (GET(.., mw...) / Route.Use)
    m <acts>                    -> ok            set the main handler
    serve <variant>             -> ok|ab <trace> st=<status> ;; idx=<cursor>     (ab: somebody aborted)
                                   chain = g ++ p ++ r ++ [m]; `variant` only selects HOW the harness
                                   registers the same chain on the real router (ignored here)
    servef <variant> <k>        -> the same answer as `serve`: the harness serves the request over a connection
                                   whose writes fail from the k-th on. No action of these chains looks at the
                                   result of a write (`http.Error`, used by AbortWithStatus(c, msg), ignores it),
                                   so a broken connection changes nothing the property talks about.
    serveh <variant>            -> the same answer as `serve`: the harness enters through Router.HandleContext with a
                                   context it prepared itself (Init); both entry points run the same chain
    lim <g1> <g2> <pre> <u> <v> -> accept <n> | reject <step>
                                   NewRoute.Use(pre) ; AddRoute inside groups with g1 + g2 middleware ;
                                   route.Use(u)

  <acts>: comma separated, `-` = none:  e<t> emit, n Next(), a Abort(), t AbortThen(), s<c> AbortWithStatus(c),
          x<c> AbortWithStatus(c, msg), i<t> record IsAborted(), c<c> SetStatus(c), w<t> write chunk t,
          b<t> marker t; the real handler additionally swaps c.Resp for a transparent buffering writer until it returns
          R Next() called by a recovery middleware (defer/recover around it); nothing panics in these chains, so it is `n`
          W<t> / Y<t> the chunk written through io.WriteString(c.Resp, ..) / io.Copy(c.Resp, strings.NewReader(..)):
          for the model a write like `w<t>`
          d    c.Router().HandleContext(c) from inside the handler: the context is dispatched again (same request, so the
               same chain: Reset, chain from the start, header commit), then the handler goes on. Only the first `d` of a
               request re-dispatches (events D<h> … C<h>), a later one does nothing (event X<h>). Interpreted by
               `xNext` below (the cursor semantics of Model/Chain with the re-entry added); chains without `d` go through
               the model functions the theorems talk about, as before. `d` together with `b` is answered `unsupported`.
  <trace>: comma separated: E<h> L<h> M<h>.<t> P<h>.<t>.<0|1> A<h> S<h>.<c> W<h>.<t>
-/
namespace Rux.Drv.ChainE
open Rux.Drv
open Rux.Chain

def parseAct (s : String) : Option Act :=
  match s.toList with
  | ['n'] => some .next
  | ['R'] => some .next
  | ['a'] => some .abort
  | ['t'] => some .abortThen
  | c :: rest =>
    match (String.ofList rest).toNat? with
    | none => none
    | some k =>
      if c = 'e' then some (.emit k)
      else if c = 'b' then some (.emit k)   -- marker; the real handler also wraps c.Resp transparently
      else if c = 'k' then some (.emit k)   -- marker; the real handler also derives a request context it cancels on return
      else if c = 'q' then some (.emit k)   -- marker; the real handler also records an error (no OnError handler is installed)
      else if c = 's' then some (.abortWithStatus k)
      else if c = 'x' then some (.abortWithMsg k)
      else if c = 'i' then some (.isAborted k)
      else if c = 'c' then some (.setStatus k)
      else if c = 'w' then some (.write k)
      else if c = 'W' then some (.write k)  -- io.WriteString(c.Resp, chunk)
      else if c = 'Y' then some (.write k)  -- io.Copy(c.Resp, strings.NewReader(chunk))
      else none
  | [] => none

/-- an action of the protocol: an action of the model, or the re-dispatch `d` -/
inductive XAct
  | base (a : Act)
  | redis

abbrev XHandler := List XAct

def parseXAct (s : String) : Option XAct :=
  if s = "d" then some .redis else (parseAct s).map .base

def parseActs (s : String) : Option XHandler :=
  if s = "-" then some [] else (s.splitOn ",").mapM parseXAct

/-- the handler as the model's action list, when it does not re-dispatch -/
def toBase : XHandler → Option Handler
  | [] => some []
  | .base a :: rest => (toBase rest).map (a :: ·)
  | .redis :: _ => none

/-- the handler token contains the buffering-wrapper marker `b<t>` -/
def hasWrap (s : String) : Bool := (s.splitOn ",").any (·.startsWith "b")

structure ChainSt where
  g : List XHandler := []
  p : List XHandler := []
  r : List XHandler := []
  m : Option XHandler := none
  wrap : Bool := false     -- some handler swaps c.Resp for a buffering writer (`b`)

def evStr : Ev → String
  | .enter h => s!"E{h}"
  | .leave h => s!"L{h}"
  | .mark h t => s!"M{h}.{t}"
  | .aborted h t b => s!"P{h}.{t}.{if b then 1 else 0}"
  | .abort h => s!"A{h}"
  | .status h c => s!"S{h}.{c}"
  | .write h t => s!"W{h}.{t}"

def traceStr (tr : List Ev) : String :=
  if tr.isEmpty then "-" else String.intercalate "," (tr.map evStr)

/-- no handler of the chain aborts (beyond the handler limit an abort moves the cursor BACKWARDS and the Go loop does
    not terminate, so such a chain cannot be run on the implementation) -/
def abortFree (hs : List Handler) : Bool :=
  hs.all fun h => h.all fun a => match a with
    | .abort | .abortThen | .abortWithStatus _ | .abortWithMsg _ => false
    | _ => true

def chainServeBase (hs : List Handler) : String :=
    -- within the limit of C05, or (C04 speaks about every request) a longer chain that still fits the 8-bit cursor
    -- and in which nobody aborts: the model follows the cursor arithmetic exactly (wrap8), so it is answered too
    if (hs.length : Int) ≤ abortIndex ∨ (hs.length ≤ 127 ∧ abortFree hs) then
      match serve hs with
      | .ok st =>
        let kind := if st.trace.any Ev.isAbort then "ab" else "ok"
        s!"{kind} {traceStr st.trace} st={finalStatus st.trace} ;; idx={st.idx}"
      | .panic => "panic:index"
      | .fuel => "hang"
    else "unsupported"

/-! ### chains with a re-dispatch (`d`)

  `Router.HandleContext(c)` called by handler `i` while it runs: `c.Reset()` (cursor back to -1),
  `handleHTTPRequest` (the request is the same, so the same chain is put into the context and `Next()` runs it from
  the start; at the end `ensureWriteHeader()` commits the header), `ctxPool.Put`. The cursor keeps the value the
  re-entered chain left, and every `Next()` loop that is still running in the suspended handlers goes on from there.
  The interpreter below is `Chain.next` / `Chain.runActs` (same cursor arithmetic, the effect of every other action
  is taken from `Chain.runActs` itself) with that one step added. -/

inductive XEv
  | ev (e : Ev)
  | start (h : Nat)    -- handler h calls HandleContext
  | done (h : Nat)     -- … it returned (the header is committed now)
  | skip (h : Nat)     -- a `d` that does nothing (the request has re-dispatched before)

structure XSt where
  idx : Int
  used : Bool
  trace : List XEv

inductive XRes
  | ok (st : XSt)
  | panic
  | fuel

/-- an action other than `Next()` / `d`: what `Chain.runActs` does with it -/
def xBase (i : Nat) (a : Act) (st : XSt) : XSt :=
  match runActs (fun s => .ok s) i [a] ⟨st.idx, []⟩ with
  | .ok s => { st with idx := s.idx, trace := st.trace ++ s.trace.map .ev }
  | _ => st

/-- the body of handler `i`; `nx` = `c.Next()`, `disp` = `handleHTTPRequest` on the context after `Reset` -/
def xRunActs (nx disp : XSt → XRes) (i : Nat) : List XAct → XSt → XRes
  | [], st => .ok st
  | .base .next :: rest, st =>
    match nx st with
    | .ok st' => xRunActs nx disp i rest st'
    | r => r
  | .base a :: rest, st => xRunActs nx disp i rest (xBase i a st)
  | .redis :: rest, st =>
    if st.used then xRunActs nx disp i rest { st with trace := st.trace ++ [.skip i] }
    else
      match disp { idx := -1, used := true, trace := st.trace ++ [.start i] } with
      | .ok st' => xRunActs nx disp i rest { st' with trace := st'.trace ++ [.done i] }
      | r => r

/-- `Context.Next()` (as `Chain.next`); one unit of fuel per loop iteration / nesting level -/
def xNext (hs : List XHandler) : Nat → XSt → XRes
  | 0, _ => .fuel
  | f + 1, st =>
    let last := wrap8 (wrap8 hs.length - 1)
    if st.idx < last then
      let j := wrap8 (st.idx + 1)
      if 0 ≤ j then
        match hs[j.toNat]? with
        | none => .panic
        | some h =>
          match xRunActs (xNext hs f) (xNext hs f) j.toNat h
                  { st with idx := j, trace := st.trace ++ [.ev (.enter j.toNat)] } with
          | .ok st2 => xNext hs f { st2 with trace := st2.trace ++ [.ev (.leave j.toNat)] }
          | r => r
      else .panic
    else .ok st

def xEvStr : XEv → String
  | .ev e => evStr e
  | .start h => s!"D{h}"
  | .done h => s!"C{h}"
  | .skip h => s!"X{h}"

/-- the status the client sees: as `finalStatus`, the return of a re-dispatch is a commit point -/
def xFinalStatus (tr : List XEv) : Nat :=
  let w : W := tr.foldl (fun w e => match e with | .ev e => W.step w e | .done _ => w.ensure | _ => w) {}
  (w.ensure.committed).getD 0

def chainServeX (hs : List XHandler) : String :=
    if (hs.length : Int) ≤ abortIndex then
      -- every handler starts at most twice (once per dispatch), at most two dispatches
      match xNext hs (2 * hs.length + 4) ⟨-1, false, []⟩ with
      | .ok st =>
        let kind := if st.trace.any (fun e => match e with | .ev e => e.isAbort | _ => false) then "ab" else "ok"
        let t := if st.trace.isEmpty then "-" else String.intercalate "," (st.trace.map xEvStr)
        s!"{kind} {t} st={xFinalStatus st.trace} ;; idx={st.idx}"
      | .panic => "panic:index"
      | .fuel => "hang"
    else "unsupported"

def chainServe (s : ChainSt) : String :=
  match s.m with
  | none => "no-main"
  | some m =>
    let hs := s.g ++ s.p ++ s.r ++ [m]
    match hs.mapM toBase with
    | some b => chainServeBase b
    | none => if s.wrap then "unsupported" else chainServeX hs

def chainLim (g1 g2 pre u : Nat) : String :=
  match routeUse 0 pre with
  | none => "reject use1"
  | some c1 =>
    match groupAttach (g1 + g2) c1 with
    | none => "reject attach"
    | some c2 =>
      match routeUse c2 u with
      | none => "reject use2"
      | some c3 => s!"accept {c3}"

def chainStep (s : ChainSt) : List String → ChainSt × String
  | ["new"] => ({}, "ok")
  | ["g", a] => match parseActs a with | some h => ({ s with g := s.g ++ [h], wrap := s.wrap || hasWrap a }, "ok") | none => (s, "bad-op")
  | ["p", a] => match parseActs a with | some h => ({ s with p := s.p ++ [h], wrap := s.wrap || hasWrap a }, "ok") | none => (s, "bad-op")
  | ["r", a] => match parseActs a with | some h => ({ s with r := s.r ++ [h], wrap := s.wrap || hasWrap a }, "ok") | none => (s, "bad-op")
  | ["m", a] => match parseActs a with | some h => ({ s with m := some h, wrap := s.wrap || hasWrap a }, "ok") | none => (s, "bad-op")
  | ["serve", v] => match v.toNat? with | some _ => (s, chainServe s) | none => (s, "bad-op")
  | ["serveh", v] => match v.toNat? with | some _ => (s, chainServe s) | none => (s, "bad-op")
  | ["servef", v, k] =>
    match v.toNat?, k.toNat? with
    | some _, some _ => if k.length ≤ 6 then (s, chainServe s) else (s, "bad-op")
    | _, _ => (s, "bad-op")
  | ["lim", g1, g2, pre, u, v] =>
    match g1.toNat?, g2.toNat?, pre.toNat?, u.toNat?, v.toNat? with
    | some g1, some g2, some pre, some u, some _ => (s, chainLim g1 g2 pre u)
    | _, _, _, _, _ => (s, "bad-op")
  | _ => (s, "bad-op")

def chainEngine : Engine := { σ := ChainSt, init := {}, step := chainStep }

end Rux.Drv.ChainE

namespace Rux.Drv
export ChainE (chainEngine)
end Rux.Drv
