import RuxModel.Drv.Common
import RuxModel.Model.Path
/- driver engine `path` (C11): registration of static routes at top level and inside (nested) groups,
   lookup through `Match` and through `ServeHTTP`, under both slash modes / path choices.

   new <strict> <enc> <intercept>      fresh router (`-` = no InterceptAll option)
   group <prefix> / end                enter / leave `Router.Group`
   reg <method> <path> <id>            answers the stored path (`Route.Path()`)
   match <method> <path>               answers the id of the route found, or `none`
   serve <method> <mode> <raw> <urlpath> <escaped>
                                       request through ServeHTTP; `URL.Path` and `URL.EscapedPath()` as
                                       net/url produced them are part of the op line, the model chooses
   rserve <method> <kind> <arg> <target> <urlpath> <escaped>
                                       request whose URL was rewritten before the router runs (StripPrefix,
                                       a WrapHTTPHandlers pre handler, HandleContext re-dispatch): `<urlpath>`
                                       and `<escaped>` are those of the URL THE ROUTER SEES; the original request
                                       target (`Request.RequestURI`) plays no part in the model -/
namespace Rux.Drv.PathE
open Rux.Drv
open Rux.Bytes Rux.Path

structure PathSt where
  r : Router := {}
  /-- saved prefixes of the enclosing groups -/
  stack : List Bytes := []

def resId (o : Option Nat) : String := match o with | some i => toString i | none => "none"

def pathStep (s : PathSt) : List String → PathSt × String
  | ["new", st, enc, ic] =>
    match ofHex ic with
    | some ic =>
      if s.stack ≠ [] then (s, "bad-op") else
      let r : Router := { strict := st = "1", useEncoded := enc = "1" }
      ({ r := r.setIntercept ic, stack := [] }, "ok")
    | none => (s, "bad-op")
  | ["group", g] =>
    match ofHex g with
    | some g =>
      match groupPrefix s.r.strict s.r.prefix_ g with
      | .ok p => ({ r := { s.r with prefix_ := p }, stack := s.r.prefix_ :: s.stack }, s!"ok ;; {toHex p}")
      | .error e => (s, e.cls)
    | none => (s, "bad-op")
  | ["end"] =>
    match s.stack with
    | p :: rest => ({ r := { s.r with prefix_ := p }, stack := rest }, s!"ok ;; {toHex p}")
    | [] => (s, "bad-op")
  | ["reg", m, p, id] =>
    match ofHex m, ofHex p, id.toNat? with
    | some m, some p, some id =>
      -- fragment: static paths, method names that `formatMethods` leaves alone (upper-case ASCII letters)
      if !isFixedPath (simpleFmtPath p) || m.isEmpty || !m.all (fun b => 65 ≤ b && b ≤ 90) then (s, "unsupported") else
      match s.r.addStatic m p id with
      | .ok (r, stored) => ({ s with r := r }, toHex stored)
      | .error e => (s, e.cls)
    | _, _, _ => (s, "bad-op")
  | ["match", m, p] =>
    match ofHex m, ofHex p with
    | some m, some p =>
      if !m.all (fun b => b < 128) then (s, "unsupported") else
      match s.r.matchApi m p with
      | .ok o => (s, resId o)
      | .error e => (s, e.cls)
    | _, _ => (s, "bad-op")
  | ["serve", m, _mode, _raw, up, ep] =>
    match ofHex m, ofHex up, ofHex ep with
    | some m, some up, some ep =>
      match s.r.serveStatic m up ep with
      | .ok o => (s, resId o)
      | .error e => (s, e.cls)
    | _, _, _ => (s, "bad-op")
  | ["rserve", m, kind, arg, target, up, ep] =>
    match ofHex m, ofHex arg, ofHex target, ofHex up, ofHex ep with
    | some m, some _, some _, some up, some ep =>
      if kind ≠ "s" ∧ kind ≠ "w" ∧ kind ≠ "c" then (s, "bad-op") else
      match s.r.serveStatic m up ep with
      | .ok o => (s, resId o)
      | .error e => (s, e.cls)
    | _, _, _, _, _ => (s, "bad-op")
  | _ => (s, "bad-op")

def pathEngine : Engine := { σ := PathSt, init := {}, step := pathStep }

end Rux.Drv.PathE

namespace Rux.Drv
export PathE (pathEngine)
end Rux.Drv
