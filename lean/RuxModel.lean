import RuxModel.Go.Bytes
