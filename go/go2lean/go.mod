module ruxverif/go2lean

go 1.19
