// go2lean: translates selected functions of /repo (package rux and sub-packages) from Go source into Lean 4
// definitions (RuxModel/Generated/Code.lean), on every check run.  The hand-written models in RuxModel/Model
// are tied to these generated definitions by theorems (RuxModel/Tie/*.lean): when the Go source of one of
// the translated functions changes its meaning, the generated definition changes and the tie theorem no
// longer checks.
//
// The translator covers a small imperative subset of Go (see DESIGN.md section 0.8):
//   types       int, int8 (two's-complement wrap made explicit), bool, string and []byte (byte lists),
//               byte/rune, []string, configured struct types (selected fields), configured opaque types
//   statements  := / = / op= / ++ / -- on locals and on fields of the receiver, if/else with init, switch on a
//               value, return (also with named results), panic, `for .. range` over a list, expression
//               statements that call translated functions or configured external operations, defer/lock
//               statements that the configuration declares irrelevant
//   expressions constants (folded by go/types), arithmetic, comparisons, short-circuit && / || (the right
//               operand's run-time panics stay conditional), len, string indexing and slicing (explicit
//               `Except Panic`), calls of `strings.*` functions that have a counterpart in the Lean prelude
// Anything else makes the function "untranslatable": the generated definition gets the type
// `GoRt.Untranslatable` with the reason, so that every theorem about it stops checking.
//
// Standard library only (go/parser, go/types with the source importer; works offline).
package main

import (
	"bytes"
	"crypto/sha256"
	"encoding/json"
	"flag"
	"fmt"
	"go/ast"
	"go/constant"
	"go/importer"
	"go/parser"
	"go/printer"
	"go/token"
	"go/types"
	"os"
	"path/filepath"
	"regexp"
	"sort"
	"strings"
)

// ---------------------------------------------------------------------------------------------------
// Lean-side types

type T struct {
	Kind string // int int8 bool str byte strlist struct opaque unit tuple
	Lean string
}

var (
	tInt     = T{"int", "Int"}
	tInt8    = T{"int8", "Int"}
	tBool    = T{"bool", "Bool"}
	tStr     = T{"str", "Bytes"}
	tByte    = T{"byte", "Nat"}
	tStrList = T{"strlist", "List Bytes"}
	tUnit    = T{"unit", "Unit"}
	tBad     = T{"bad", "?"}
)

func (t T) zero() string {
	switch t.Kind {
	case "int", "int8":
		return "(0 : Int)"
	case "bool":
		return "false"
	case "str":
		return "([] : Bytes)"
	case "byte":
		return "(0 : Nat)"
	case "strlist":
		return "([] : List Bytes)"
	case "opaque", "struct":
		return "default"
	}
	return "()"
}

// ---------------------------------------------------------------------------------------------------
// packages

type pkgInfo struct {
	dir   string
	fset  *token.FileSet
	files []*ast.File
	info  *types.Info
	pkg   *types.Package
	src   map[string][]byte
}

func loadPkg(repo, rel, name string) (*pkgInfo, error) {
	dir := filepath.Join(repo, rel)
	fset := token.NewFileSet()
	pkgs, err := parser.ParseDir(fset, dir, func(fi os.FileInfo) bool {
		return !strings.HasSuffix(fi.Name(), "_test.go") && fi.Name() != "verif_hooks.go"
	}, parser.ParseComments)
	if err != nil {
		return nil, err
	}
	p := pkgs[name]
	if p == nil {
		return nil, fmt.Errorf("package %s not found in %s", name, dir)
	}
	var names []string
	for n := range p.Files {
		names = append(names, n)
	}
	sort.Strings(names)
	pi := &pkgInfo{dir: dir, fset: fset}
	for _, n := range names {
		pi.files = append(pi.files, p.Files[n])
	}
	pi.info = &types.Info{Types: map[ast.Expr]types.TypeAndValue{}, Uses: map[*ast.Ident]types.Object{},
		Defs: map[*ast.Ident]types.Object{}, Selections: map[*ast.SelectorExpr]*types.Selection{}}
	conf := types.Config{Importer: importer.ForCompiler(fset, "source", nil), Error: func(error) {}}
	old, _ := os.Getwd()
	_ = os.Chdir(dir) // the source importer resolves module imports relative to the working directory
	pi.pkg, _ = conf.Check(name, fset, pi.files, pi.info)
	_ = os.Chdir(old)
	return pi, nil
}

func (p *pkgInfo) findFunc(recv, name string) *ast.FuncDecl {
	for _, f := range p.files {
		for _, d := range f.Decls {
			fd, ok := d.(*ast.FuncDecl)
			if !ok || fd.Name.Name != name {
				continue
			}
			r := ""
			if fd.Recv != nil && len(fd.Recv.List) == 1 {
				t := fd.Recv.List[0].Type
				if st, ok := t.(*ast.StarExpr); ok {
					t = st.X
				}
				if id, ok := t.(*ast.Ident); ok {
					r = id.Name
				}
			}
			if r == recv {
				return fd
			}
		}
	}
	// a package-level `var name T = func(...) {...}` (e.g. the built-in fallback handlers) is translated like the
	// function `func name(...) {...}`
	if recv == "" {
		for _, f := range p.files {
			for _, d := range f.Decls {
				gd, ok := d.(*ast.GenDecl)
				if !ok || gd.Tok != token.VAR {
					continue
				}
				for _, sp := range gd.Specs {
					vs, ok := sp.(*ast.ValueSpec)
					if !ok {
						continue
					}
					for i, n := range vs.Names {
						if n.Name == name && i < len(vs.Values) {
							if lit, ok := vs.Values[i].(*ast.FuncLit); ok {
								return &ast.FuncDecl{Name: n, Type: lit.Type, Body: lit.Body}
							}
						}
					}
				}
			}
		}
	}
	return nil
}

func (p *pkgInfo) findStruct(name string) *ast.StructType {
	for _, f := range p.files {
		for _, d := range f.Decls {
			gd, ok := d.(*ast.GenDecl)
			if !ok {
				continue
			}
			for _, s := range gd.Specs {
				ts, ok := s.(*ast.TypeSpec)
				if ok && ts.Name.Name == name {
					if st, ok := ts.Type.(*ast.StructType); ok {
						return st
					}
				}
			}
		}
	}
	return nil
}

func (p *pkgInfo) text(n ast.Node) string {
	var b bytes.Buffer
	_ = printer.Fprint(&b, p.fset, n)
	return b.String()
}

// ---------------------------------------------------------------------------------------------------
// configuration (see config.go)

type FieldSpec struct {
	Go     string // Go field name
	GoType string // expected Go type text (checked against the declaration)
	Lean   string // Lean field name
	T      T
}

type StructSpec struct {
	Pkg    string
	Go     string
	Lean   string // name of the Lean structure
	Params string // its parameters, e.g. "(γ : Type)" ("" = none)
	LeanT  string // the type expression used for values, e.g. "Ctx γ" ("" = Lean)
	Derive string // deriving clause ("" = DecidableEq, Repr, Inhabited)
	OptIn  bool   // the Go type is this struct only in functions that list it in UseStructs (elsewhere it is opaque)
	// Setters: emit `def <Lean>.set_<field>`; functions with FnSpec.Setters use them instead of `{ c with f := v }`
	// (a structure update elaborates to the constructor applied to every projection of `c`, so unfolding a
	// definition copies `c` once per field; the setter keeps one copy)
	Setters bool
	// External: a struct of another module (e.g. net/url.URL): the fields are taken from the configuration as they are
	External bool
	Fields []FieldSpec
	Extra  []string // extra Lean fields "name : Type := default"
	// Defaults: Lean field name -> default value of a modelled field (so that structure literals written before the
	// field was modelled keep their meaning)
	Defaults map[string]string
}

// Ext describes a call that is not translated but modelled: `callee` is the printed callee expression with
// the receiver variable replaced by `$` (e.g. "$.Writer.WriteHeader").
type Ext struct {
	Callee string
	// Value: Lean term of the call's value (placeholders %1.. = arguments, $ = receiver); "" = no value
	Value string
	T     T
	// Results for multi-value calls: Lean terms and types
	Values []string
	Ts     []T
	// Effect: Lean term for the new receiver ("" = none)
	Effect string
	// InlineArg > 0: argument number InlineArg of the call is a function literal without parameters that the callee
	// invokes exactly once: Stmts are emitted, then the body of the literal in place, then After
	InlineArg int
	After     []string
	// Stmts: Lean do-statements emitted for the call before its value is used (%t = a fresh name, shared by
	// Stmts, Value and Values of this call)
	Stmts []string
	// MayPanic: Value is of type Except Panic _
	MayPanic bool
	// Ignore: the statement is dropped (locks, debug output); recorded in the output as a comment
	Ignore bool
}

type TypeCase struct {
	Ctor string
	T    T
	// Bind: the Lean name the constructor's field gets when the Go switch binds no variable (`switch x.(type)`); the
	// configuration maps the type assertions `x.(T)` inside the clause to it
	Bind string
}

type FnSpec struct {
	Pkg    string // "" = package rux
	Recv   string
	Func   string
	Lean   string   // Lean name inside namespace Rux.Gen
	Extra  []string // extra Lean parameters "(name : Type)" appended after the Go parameters
	Exts   []Ext
	NoRecv bool // the receiver is not used by the translation (omit it)
	Mutates bool // the receiver is updated through modelled operations the syntactic pre-pass does not see
	Types   map[string]T // per-function overrides of the opaque type table
	MutParams []string   // parameters that modelled operations update (pointer parameters)
	// DeferRecover: the function starts with `[if cond {] defer func() { if ret := recover(); ret != nil { … } }() [}]`.
	// The rest of the body is translated as a nested block whose result carries the state and an `Option Panic`
	// (component PnIndex of the result tuple: `some p` = the body panicked with p, produced by the modelled
	// panicking operations); the recover block runs on that state when the condition holds and a panic is there.
	DeferRecover bool
	PnIndex      int
	NoPureIf     bool // keep the plain `if` emission for this function
	// Hoist: every tuple-valued `if` block becomes an auxiliary definition `<Lean>.blkN` (arguments: the binders of
	// the function, HoistVars, the visible mutable locals), so that a proof can treat the blocks one at a time.
	// HoistVars: "name : type" of the variables that the prologue declares and the blocks may read.
	Hoist     bool
	HoistVars []string
	Setters   bool // field assignments go through the `set_<field>` functions of structures that have them
	// MonadicIf: in a function that may panic, an `if` that cannot leave its block by return/break/continue but may
	// panic (indexing, slicing, panic(), panicking callees) is emitted as ONE tuple-valued `← do` block as well
	// (`let t : T ← do …; pure (vars)`), so that the code behind it is not duplicated into its branches
	MonadicIf bool
	// OpaqueClosures: function literals that are only passed on are translated to `()`
	OpaqueClosures bool
	// TypeCases: Go type text of a type-switch clause -> the constructor (one field) of the Lean inductive that stands
	// for the switched value, and the type of the field
	TypeCases map[string]TypeCase
	// MapOrder: Lean function (List of keys → List of keys) giving the order in which `for k := range m` visits the
	// keys of a Go map that the configuration represents as the list of its keys (Go leaves the order unspecified;
	// theorems quantify over the function and assume only that it permutes the keys)
	MapOrder string
	UseStructs   []string // opt-in struct types (Go names) this function works on
	// Inner: the function only returns a closure (possibly wrapped in a conversion such as http.HandlerFunc(...));
	// what is translated is the closure, with the parameters of the outer function in front of its own
	Inner bool
	// Prologue: Lean do-statements at the start of the body; RetExtra/RetExtraT: extra values (Lean terms and
	// types) returned in front of the Go results (e.g. the threaded abstract state of modelled callees)
	Prologue  []string
	RetExtra  []string
	RetExtraT []string
}

// ---------------------------------------------------------------------------------------------------
// translation of one function

type fnInfo struct {
	spec     *FnSpec
	hasLoop  bool
	mayPanic bool
	mutates  bool // returns the (possibly updated) receiver first
	recvT    T
	params   []T
	results  []T
	ok       bool
}

type unsupported struct{ why string }

type tr struct {
	g        *gen
	p        *pkgInfo
	spec     *FnSpec
	fd       *ast.FuncDecl
	recvName string
	recvT    T
	mayPanic bool
	mutates  bool
	lines    []string
	ind      int
	tmp      int
	results  []T
	named    []string // named results
	locals   []map[string]string
	declared map[string]int
	ltypes   map[string]string // lean local name -> Lean type ("" = unknown)
	order    []string          // lean names of mutable locals in declaration order
	hasLoop  bool
	aux      []string // auxiliary definitions (loops), emitted before the function
	nLoops   int
	inRange  int
	curRhs   string // printed right-hand side of the assignment being translated (receiver as $)
	alias    map[string]string // Go expression text (e.g. "rs[i]") -> the local that stands for it
	binders  string   // the binders of the function (for auxiliary definitions)
	bnames   []string // their names
	loop     *loopCtx
}

type loopCtx struct {
	name string
	vars []string
	post ast.Stmt
}

func (t *tr) fail(n ast.Node, format string, a ...any) {
	pos := ""
	if n != nil {
		pos = t.p.fset.Position(n.Pos()).String() + ": "
	}
	panic(unsupported{pos + fmt.Sprintf(format, a...)})
}

func (t *tr) emit(format string, a ...any) {
	t.lines = append(t.lines, strings.Repeat("  ", t.ind)+fmt.Sprintf(format, a...))
}

func (t *tr) fresh() string {
	t.tmp++
	return fmt.Sprintf("t%d", t.tmp)
}

func (t *tr) push() { t.locals = append(t.locals, map[string]string{}) }
func (t *tr) pop()  { t.locals = t.locals[:len(t.locals)-1] }

func (t *tr) lookup(name string) (string, bool) {
	for i := len(t.locals) - 1; i >= 0; i-- {
		if l, ok := t.locals[i][name]; ok {
			return l, true
		}
	}
	return "", false
}

var leanKeywords = map[string]bool{"end": true, "from": true, "at": true, "have": true, "show": true, "then": true,
	"do": true, "fun": true, "let": true, "in": true, "with": true, "match": true, "open": true, "prefix": true,
	"first": true, "by": true, "where": true, "instance": true, "class": true, "def": true, "theorem": true,
	"at_": true, "to": true, "ok": false}

func (t *tr) declare(name string) string {
	base := name
	if leanKeywords[name] {
		base = name + "_"
	}
	n := t.declared[base]
	t.declared[base] = n + 1
	lean := base
	if n > 0 {
		lean = fmt.Sprintf("%s_%d", base, n)
	}
	t.locals[len(t.locals)-1][name] = lean
	return lean
}

// declareT: a mutable local with a known Lean type (may be carried through loops)
func (t *tr) declareT(name, ty string) string {
	l := t.declare(name)
	t.ltypes[l] = ty
	t.order = append(t.order, l)
	return l
}

// visibleMuts: the mutable locals in scope, in declaration order
func (t *tr) visibleMuts() []string {
	vis := map[string]bool{}
	for _, m := range t.locals {
		for _, l := range m {
			vis[l] = true
		}
	}
	var res []string
	for _, l := range t.order {
		if vis[l] {
			res = append(res, l)
		}
	}
	return res
}

func tupleOf(parts []string) string {
	if len(parts) == 0 {
		return "()"
	}
	if len(parts) == 1 {
		return parts[0]
	}
	return "(" + strings.Join(parts, ", ") + ")"
}

func (t *tr) forStmt(x *ast.ForStmt) {
	if !t.hasLoop {
		t.fail(x, "loop in a function that was not classified as looping")
	}
	if t.loop != nil {
		t.fail(x, "nested loop")
	}
	t.push()
	if x.Init != nil {
		t.stmt(x.Init)
	}
	vars := t.visibleMuts()
	var tys []string
	for _, v := range vars {
		ty := t.ltypes[v]
		if ty == "" {
			t.fail(x, "loop with a live variable %s of unknown type", v)
		}
		tys = append(tys, ty)
	}
	t.nLoops++
	name := fmt.Sprintf("%s.loop%d", t.spec.Lean, t.nLoops)
	tupT := "Unit"
	if len(tys) > 0 {
		tupT = strings.Join(tys, " × ")
	}
	// the auxiliary definition
	saveLines, saveInd := t.lines, t.ind
	t.lines, t.ind = nil, 2
	t.loop = &loopCtx{name: name, vars: vars, post: x.Post}
	for i, v := range vars {
		t.emit("let mut %s := st%s", v, projection(i, len(vars)))
	}
	cond := "true"
	if x.Cond != nil {
		cond, _ = t.expr(x.Cond)
	}
	t.emit("if %s then", cond)
	t.ind++
	t.push()
	for _, st := range x.Body.List {
		t.stmt(st)
	}
	t.pop()
	if x.Post != nil {
		t.stmt(x.Post)
	}
	t.emit("%s %s fuel %s", name, strings.Join(t.bnames, " "), tupleOf(vars))
	t.ind--
	t.emit("else")
	t.emit("  return some %s", tupleOf(vars))
	body := t.lines
	t.loop = nil
	t.lines, t.ind = saveLines, saveInd
	aux := fmt.Sprintf("/-- loop %d of `%s`: one unit of fuel per iteration, `none` = out of fuel -/\ndef %s %s : Nat → %s → Except Panic (Option (%s))\n  | 0, _ => pure none\n  | fuel + 1, st => do\n%s\n",
		t.nLoops, t.spec.Lean, name, t.binders, tupT, tupT, strings.Join(body, "\n"))
	t.aux = append(t.aux, aux)
	// the call
	r := t.fresh()
	t.emit("let some %s ← %s %s fuel %s | return none", r, name, strings.Join(t.bnames, " "), tupleOf(vars))
	for i, v := range vars {
		t.emit("%s := %s%s", v, r, projection(i, len(vars)))
	}
	t.pop()
}

func (t *tr) typeOf(e ast.Expr) types.Type {
	if tv, ok := t.p.info.Types[e]; ok {
		return tv.Type
	}
	if id, ok := e.(*ast.Ident); ok {
		if o := t.p.info.Uses[id]; o != nil {
			return o.Type()
		}
		if o := t.p.info.Defs[id]; o != nil {
			return o.Type()
		}
	}
	return nil
}

func (g *gen) goT(ty types.Type) T {
	if ty == nil {
		return tBad
	}
	if g.curTypes != nil {
		key := types.TypeString(ty, func(p *types.Package) string { return p.Name() })
		if o, ok := g.curTypes[key]; ok {
			return o
		}
	}
	switch u := ty.(type) {
	case *types.Basic:
		switch u.Kind() {
		case types.Int, types.UntypedInt, types.Int64, types.Uint16:
			return tInt
		case types.Int8:
			return tInt8
		case types.Bool, types.UntypedBool:
			return tBool
		case types.String, types.UntypedString:
			return tStr
		case types.Uint8, types.Int32, types.UntypedRune:
			return tByte
		}
	case *types.Slice:
		if b, ok := u.Elem().(*types.Basic); ok {
			if b.Kind() == types.String {
				return tStrList
			}
			if b.Kind() == types.Uint8 {
				return tStr
			}
		}
	case *types.Pointer:
		return g.goT(u.Elem())
	case *types.Named:
		name := u.Obj().Name()
		if u.Obj().Pkg() != nil {
			if ss := g.structByGo[u.Obj().Pkg().Name()+"."+name]; ss != nil && (!ss.OptIn || g.curOptIn[name]) {
				return T{"struct", ss.typeExpr()}
			}
		}
		if o, ok := g.opaque[types.TypeString(ty, func(p *types.Package) string { return p.Name() })]; ok {
			return o
		}
		if _, ok := u.Underlying().(*types.Struct); !ok {
			return g.goT(u.Underlying())
		}
	}
	if o, ok := g.opaque[types.TypeString(ty, func(p *types.Package) string { return p.Name() })]; ok {
		return o
	}
	if u, ok := ty.(*types.Slice); ok {
		// a slice of anything that has a Lean type (only reached when the slice type itself is not configured)
		if et := g.goT(u.Elem()); et.Kind != "bad" && et.Kind != "" {
			el := et.Lean
			if strings.ContainsAny(el, " ") && !strings.HasPrefix(el, "(") {
				el = "(" + el + ")"
			}
			return T{"opaque", "List " + el}
		}
	}
	return tBad
}

func bytesLit(s string) string {
	if s == "" {
		return "([] : Bytes)"
	}
	var parts []string
	for _, b := range []byte(s) {
		parts = append(parts, fmt.Sprintf("0x%02X", b))
	}
	return "([" + strings.Join(parts, ", ") + "] : Bytes)"
}

// constant folding through go/types
func (t *tr) constOf(e ast.Expr) (string, T, bool) {
	tv, ok := t.p.info.Types[e]
	if !ok || tv.Value == nil {
		return "", tBad, false
	}
	ty := t.g.goT(tv.Type)
	switch tv.Value.Kind() {
	case constant.Int:
		v := tv.Value.ExactString()
		if ty.Kind == "byte" {
			return "(" + v + " : Nat)", tByte, true
		}
		if ty.Kind == "int8" {
			return "(" + v + " : Int)", tInt8, true
		}
		return "(" + v + " : Int)", tInt, true
	case constant.String:
		return bytesLit(constant.StringVal(tv.Value)), tStr, true
	case constant.Bool:
		if constant.BoolVal(tv.Value) {
			return "true", tBool, true
		}
		return "false", tBool, true
	}
	return "", tBad, false
}

func (t *tr) wrap(ty T, term string) string {
	if ty.Kind == "int8" {
		return "(GoRt.wrap8 " + term + ")"
	}
	return term
}

// singleByte: the expression is a constant one-byte string; returns the byte
func (t *tr) singleByte(e ast.Expr) (string, bool) {
	tv, ok := t.p.info.Types[e]
	if !ok || tv.Value == nil || tv.Value.Kind() != constant.String {
		return "", false
	}
	s := constant.StringVal(tv.Value)
	if len(s) != 1 || s[0] >= 0x80 {
		return "", false
	}
	return fmt.Sprintf("0x%02X", s[0]), true
}

// recvPath: is `e` the receiver itself or a struct-typed field of it?  returns (lean term, setter)
func (t *tr) lvalStruct(e ast.Expr) (string, func(string) string, bool) {
	switch x := e.(type) {
	case *ast.Ident:
		if l, ok := t.lookup(x.Name); ok {
			return l, func(v string) string { return fmt.Sprintf("%s := %s", l, v) }, true
		}
	case *ast.UnaryExpr:
		if x.Op == token.AND {
			return t.lvalStruct(x.X)
		}
	case *ast.SelectorExpr:
		base, set, ok := t.lvalStruct(x.X)
		if !ok {
			return "", nil, false
		}
		bt := t.g.goT(t.typeOf(x.X))
		if bt.Kind != "struct" {
			return "", nil, false
		}
		f := t.g.field(bt.Lean, x.Sel.Name)
		if f == nil {
			return "", nil, false
		}
		return base + "." + f.Lean, func(v string) string {
			return set(t.update(bt.Lean, base, f.Lean, v))
		}, true
	}
	return "", nil, false
}

// update: the Lean term for `base` with field f set to v
func (t *tr) update(structT string, base, f, v string) string {
	if t.spec.Setters {
		for i := range t.g.structs {
			if t.g.structs[i].typeExpr() == structT && t.g.structs[i].Setters {
				return fmt.Sprintf("(%s.set_%s %s %s)", t.g.structs[i].Lean, f, base, paren(v))
			}
		}
	}
	return fmt.Sprintf("{ %s with %s := %s }", base, f, v)
}

func paren(v string) string {
	if strings.ContainsAny(v, " ") && !(strings.HasPrefix(v, "(") && strings.HasSuffix(v, ")")) {
		return "(" + v + ")"
	}
	return v
}

func calleeText(p *pkgInfo, fun ast.Expr, recvName string) string {
	s := p.text(fun)
	if recvName != "" {
		if s == recvName {
			return "$"
		}
		if strings.HasPrefix(s, recvName+".") {
			return "$" + s[len(recvName):]
		}
	}
	return s
}

func subst(tmpl string, recv string, args []string) string {
	s := tmpl
	for i := len(args); i >= 1; i-- {
		s = strings.ReplaceAll(s, fmt.Sprintf("%%%d", i), args[i-1])
	}
	return strings.ReplaceAll(s, "$", recv)
}

func (t *tr) findExt(callee string) *Ext {
	// a configured callee that starts with the name of a local variable is meant for THE variable of that name the
	// configuration author saw; when the name is bound to a renamed (shadowing) variable the entry does not apply
	// (use the `_.x` wildcard form, which is given the variable's Lean name)
	if j := strings.IndexAny(callee, ".[("); j > 0 && callee[0] != '$' && callee[0] != '_' {
		if l, ok := t.lookup(callee[:j]); ok && l != callee[:j] && !strings.HasSuffix(l, "_") {
			return nil
		}
	}
	for i := range t.spec.Exts {
		if t.spec.Exts[i].Callee == callee {
			return &t.spec.Exts[i]
		}
	}
	for i := range t.g.globalExts {
		if t.g.globalExts[i].Callee == callee {
			return &t.g.globalExts[i]
		}
	}
	return nil
}

// wildExt: `e` printed with a leading local (non-receiver) identifier replaced by `_`, looked up as a modelled
// operation; returns the operation and the Lean term of that identifier (argument %1)
func (t *tr) wildExt(e ast.Expr, suffix string) (*Ext, string) {
	txt := t.p.text(e)
	for a, l := range t.alias { // an aliased element expression (rs[i]) in front
		if strings.HasPrefix(txt, a+".") {
			if ext := t.findExt("_" + txt[len(a):] + suffix); ext != nil {
				return ext, l
			}
		}
	}
	i := strings.IndexByte(txt, '.')
	if i <= 0 {
		return nil, ""
	}
	name := txt[:i]
	if name == t.recvName {
		return nil, ""
	}
	l, ok := t.lookup(name)
	if !ok {
		return nil, ""
	}
	if ext := t.findExt("_" + txt[i:] + suffix); ext != nil {
		return ext, l
	}
	return nil, ""
}

func (t *tr) recvLean() string {
	if l, ok := t.lookup(t.recvName); ok {
		return l
	}
	return t.recvName
}

// call: translate a call; returns the Lean terms of its results. `stmt` = the value is not used.
func (t *tr) call(c *ast.CallExpr, stmt bool) ([]string, []T) {
	callee := calleeText(t.p, c.Fun, t.recvName)
	// `[]byte(s)` of a string: the same byte list
	if at, ok := c.Fun.(*ast.ArrayType); ok && at.Len == nil && len(c.Args) == 1 {
		if id, ok := at.Elt.(*ast.Ident); ok && id.Name == "byte" {
			a, aty := t.expr(c.Args[0])
			if aty.Kind == "str" {
				return []string{a}, []T{tStr}
			}
		}
	}
	// conversions and builtins
	if id, ok := c.Fun.(*ast.Ident); ok {
		switch id.Name {
		case "len":
			if ext := t.findExt("len(" + calleeText(t.p, c.Args[0], t.recvName) + ")"); ext != nil {
				return []string{ext.Value}, []T{tInt}
			}
			a, at := t.expr(c.Args[0])
			if at.Kind != "str" && at.Kind != "strlist" && !strings.HasPrefix(at.Lean, "List ") {
				t.fail(c, "len of %s", at.Kind)
			}
			return []string{"(" + a + ".length : Int)"}, []T{tInt}
		case "int8":
			a, _ := t.expr(c.Args[0])
			return []string{"(GoRt.wrap8 " + a + ")"}, []T{tInt8}
		case "int":
			a, at := t.expr(c.Args[0])
			if at.Kind == "byte" {
				return []string{"(" + a + " : Int)"}, []T{tInt}
			}
			return []string{a}, []T{tInt}
		case "string":
			a, at := t.expr(c.Args[0])
			if at.Kind == "str" {
				return []string{a}, []T{tStr}
			}
			t.fail(c, "string(%s)", at.Kind)
		case "append":
			if len(c.Args) > 2 && !c.Ellipsis.IsValid() {
				a, at := t.expr(c.Args[0])
				var els []string
				for _, e := range c.Args[1:] {
					v, _ := t.expr(e)
					els = append(els, v)
				}
				return []string{"(" + a + " ++ [" + strings.Join(els, ", ") + "])"}, []T{at}
			}
			if len(c.Args) != 2 {
				t.fail(c, "append without an element")
			}
			a, at := t.expr(c.Args[0])
			b, _ := t.expr(c.Args[1])
			if c.Ellipsis.IsValid() {
				return []string{"(" + a + " ++ " + b + ")"}, []T{at}
			}
			if _, bt := t.expr(c.Args[1]); strings.HasPrefix(bt.Lean, "Option ") && at.Lean == "List "+strings.TrimPrefix(bt.Lean, "Option ") {
				// a nil-able element (checked non-nil by the source) appended to a list of plain elements
				return []string{"(" + a + " ++ (" + b + ").toList)"}, []T{at}
			}
			return []string{"(" + a + " ++ [" + b + "])"}, []T{at}
		case "new":
			if ext := t.findExt("new(" + t.p.text(c.Args[0]) + ")"); ext != nil && ext.Value != "" {
				return []string{ext.Value}, []T{ext.T}
			}
			ty := t.g.goT(t.typeOf(c))
			if ty.Kind != "struct" {
				t.fail(c, "new of %s", ty.Lean)
			}
			return []string{"(default : " + ty.Lean + ")"}, []T{ty}
		case "make":
			if ext := t.findExt("make(" + t.p.text(c.Args[0]) + ")"); ext != nil {
				return []string{ext.Value}, []T{ext.T}
			}
			ty := t.g.goT(t.typeOf(c))
			if !strings.HasPrefix(ty.Lean, "List ") && ty.Kind != "str" && ty.Kind != "strlist" {
				t.fail(c, "make of %s", ty.Lean)
			}
			if len(c.Args) >= 2 {
				if tv, ok := t.p.info.Types[c.Args[1]]; !ok || tv.Value == nil || tv.Value.ExactString() != "0" {
					// make([]T, n): n zero values (a list of opaque elements only; capacity is not modelled)
					if len(c.Args) == 2 && strings.HasPrefix(ty.Lean, "List ") {
						n, _ := t.expr(c.Args[1])
						return []string{"(List.replicate (" + n + ").toNat default)"}, []T{ty}
					}
					t.fail(c, "make with a non-zero length")
				}
			}
			return []string{"[]"}, []T{ty}
		case "copy":
			// copy(dst, src) / copy(dst[k:], src) as a statement: the first min(len) elements are overwritten
			src, _ := t.expr(c.Args[1])
			switch d := c.Args[0].(type) {
			case *ast.Ident:
				l, ok := t.lookup(d.Name)
				if !ok {
					t.fail(c, "copy into %s", d.Name)
				}
				t.emit("%s := GoRt.copyInto %s %s", l, l, src)
				return []string{"(0 : Int)"}, []T{tInt}
			case *ast.SliceExpr:
				id, ok := d.X.(*ast.Ident)
				if !ok || d.Low == nil || d.High != nil || d.Max != nil {
					t.fail(c, "copy into %s", t.p.text(d))
				}
				l, ok := t.lookup(id.Name)
				if !ok {
					t.fail(c, "copy into %s", id.Name)
				}
				k, _ := t.expr(d.Low)
				if !t.mayPanic {
					t.fail(c, "slice expression in a function classified as non-panicking")
				}
				t.emit("if (decide (%s < (0 : Int))) || (decide (%s > (%s.length : Int))) then", k, k, l)
				t.emit("  throw Panic.index")
				t.emit("%s := GoRt.copyIntoAt %s (%s).toNat %s", l, l, k, src)
				return []string{"(0 : Int)"}, []T{tInt}
			}
			t.fail(c, "copy into %s", t.p.text(c.Args[0]))
		case "delete":
			ext := t.findExt("delete(" + calleeText(t.p, c.Args[0], t.recvName) + ")")
			if ext == nil || ext.Effect == "" {
				t.fail(c, "delete on %s", t.p.text(c.Args[0]))
			}
			k, _ := t.expr(c.Args[1])
			t.emit("%s := %s", t.recvLean(), subst(ext.Effect, t.recvLean(), []string{k}))
			return nil, nil
		case "panic":
			if !t.mayPanic {
				t.fail(c, "panic in a function classified as non-panicking")
			}
			if s, ty, ok := t.constOf(c.Args[0]); ok && ty.Kind == "str" {
				t.emit("throw (Panic.msg %s)", s)
			} else {
				t.emit("throw Panic.value")
			}
			return nil, nil
		}
	}
	if callee == "goutil.Panicf" || callee == "panic" {
		if !t.mayPanic {
			t.fail(c, "panic in a function classified as non-panicking")
		}
		t.emit("throw Panic.value")
		return nil, nil
	}
	ext := t.findExt(callee)
	wildArg := ""
	if ext == nil {
		if sel, ok := c.Fun.(*ast.SelectorExpr); ok {
			ext, wildArg = t.wildExt(sel, "")
		}
	}
	if ext != nil {
		if ext.Ignore {
			t.emit("-- (not modelled) %s", strings.ReplaceAll(t.p.text(c), "\n", " "))
			return nil, nil
		}
		var args []string
		if wildArg != "" {
			args = append(args, wildArg)
		}
		var inlineBody *ast.FuncLit
		for i, a := range c.Args {
			if ext.InlineArg == i+1 {
				fl, ok := a.(*ast.FuncLit)
				if !ok || (fl.Type.Params != nil && len(fl.Type.Params.List) > 0) {
					t.fail(c, "argument %d of %s is not a parameterless function literal", i+1, callee)
				}
				inlineBody = fl
				args = append(args, "()")
				continue
			}
			s, _ := t.expr(a)
			args = append(args, s)
		}
		if inlineBody != nil {
			recv := t.recvName
			if l, ok := t.lookup(t.recvName); ok {
				recv = l
			}
			for _, st := range ext.Stmts {
				t.emit("%s", subst(st, recv, args))
			}
			t.push()
			t.block(inlineBody.Body.List)
			t.pop()
			for _, st := range ext.After {
				t.emit("%s", subst(st, recv, args))
			}
			return nil, nil
		}
		recv := t.recvName
		if l, ok := t.lookup(t.recvName); ok {
			recv = l
		}
		var vals []string
		var ts []T
		tn := ""
		if len(ext.Stmts) > 0 {
			tn = t.fresh()
			for _, st := range ext.Stmts {
				t.emit("%s", strings.ReplaceAll(subst(st, recv, args), "%t", tn))
			}
		}
		if ext.Value != "" {
			v := strings.ReplaceAll(subst(ext.Value, recv, args), "%t", tn)
			if ext.MayPanic && len(ext.Stmts) == 0 {
				if !t.mayPanic {
					t.fail(c, "panicking external in a non-panicking function")
				}
				n := t.fresh()
				t.emit("let %s ← %s", n, v)
				v = n
			} else if ext.Effect != "" {
				n := t.fresh()
				t.emit("let %s := %s", n, v)
				v = n
			}
			vals, ts = []string{v}, []T{ext.T}
		}
		if len(ext.Values) > 0 {
			for i, v := range ext.Values {
				n := t.fresh()
				t.emit("let %s := %s", n, strings.ReplaceAll(subst(v, recv, args), "%t", tn))
				vals = append(vals, n)
				ts = append(ts, ext.Ts[i])
			}
		}
		if ext.Effect != "" {
			t.emit("%s := %s", recv, subst(ext.Effect, recv, args))
		}
		return vals, ts
	}
	// strings.* and friends
	if r, ty, ok := t.libCall(c, callee); ok {
		return []string{r}, []T{ty}
	}
	// translated functions
	if fi, recvExpr := t.g.lookupFn(t.p, c, t); fi != nil {
		if !fi.ok {
			t.fail(c, "callee %s is untranslatable", fi.spec.Lean)
		}
		var args []string
		var set func(string) string
		if recvExpr != nil && !fi.spec.NoRecv {
			base, s, ok := t.lvalStruct(recvExpr)
			if !ok {
				// a method called on the result of a call (`r.Add(…).Use(…)`): the result is held in a temporary, which
				// the method updates (that the result is a POINTER others may hold too is not expressed by the translation)
				if ce, isCall := recvExpr.(*ast.CallExpr); isCall {
					v, _ := t.expr(ce)
					tmp := t.fresh()
					t.emit("let mut %s := %s", tmp, v)
					base, s, ok = tmp, func(x string) string { return tmp + " := " + x }, true
				}
			}
			if !ok {
				t.fail(c, "receiver expression %s", t.p.text(recvExpr))
			}
			args = append(args, base)
			set = s
		}
		nfixed := len(c.Args)
		if sig, ok := t.typeOf(c.Fun).(*types.Signature); ok && sig.Variadic() && !c.Ellipsis.IsValid() {
			nfixed = sig.Params().Len() - 1
		}
		var rest []string
		for i, a := range c.Args {
			s, _ := t.expr(a)
			if i < nfixed {
				args = append(args, s)
			} else {
				rest = append(rest, s)
			}
		}
		if nfixed < len(c.Args) || (nfixed == len(c.Args) && func() bool {
			sig, ok := t.typeOf(c.Fun).(*types.Signature)
			return ok && sig.Variadic() && !c.Ellipsis.IsValid()
		}()) {
			// individual arguments for a variadic parameter: the list of them
			args = append(args, "["+strings.Join(rest, ", ")+"]")
		}
		// the callee's explicit extra parameters: the caller passes its own parameters of the same names on
		for _, e := range fi.spec.Extra {
			if strings.HasPrefix(e, "(") {
				names := strings.TrimSpace(strings.SplitN(strings.Trim(e, "()"), ":", 2)[0])
				args = append(args, strings.Fields(names)...)
			}
		}
		app := "(Gen." + fi.spec.Lean + " " + strings.Join(args, " ") + ")"
		if len(args) == 0 {
			app = "Gen." + fi.spec.Lean
		}
		if fi.mayPanic && !t.mayPanic {
			t.fail(c, "call of panicking %s from a non-panicking function", fi.spec.Lean)
		}
		if len(fi.spec.RetExtra) > 0 && !fi.spec.Inner {
			// the extra results (threaded abstract state) are not part of the Go results this call site projects
			t.fail(c, "callee %s returns extra values: it has to be called through a configured Ext", fi.spec.Lean)
		}
		if fi.spec.Inner {
			// the callee returns a closure (translated as a function of the closure's own parameters): the call is the
			// partial application to the outer arguments
			if len(fi.spec.Extra) > 0 {
				t.fail(c, "closure-returning callee %s with extra parameters", fi.spec.Lean)
			}
			return []string{app}, []T{t.g.goT(t.typeOf(c))}
		}
		n := t.fresh()
		if fi.mayPanic {
			t.emit("let %s ← %s", n, app)
		} else {
			t.emit("let %s := %s", n, app)
		}
		res := fi.results
		if fi.mutates {
			if len(res) == 0 {
				t.emit("%s", set(n))
				return nil, nil
			}
			t.emit("%s", set(n+".1"))
			if len(res) == 1 {
				return []string{n + ".2"}, res
			}
			var vals []string
			for i := range res {
				vals = append(vals, n+".2"+projection(i, len(res)))
			}
			return vals, res
		}
		if len(res) <= 1 {
			return []string{n}, res
		}
		var vals []string
		for i := range res {
			vals = append(vals, n+projection(i, len(res)))
		}
		return vals, res
	}
	t.fail(c, "call of %s", callee)
	return nil, nil
}

// projection i of an n-tuple (right-nested pairs)
func projection(i, n int) string {
	s := ""
	for k := 0; k < i; k++ {
		s += ".2"
	}
	if i < n-1 {
		s += ".1"
	}
	return s
}

func (t *tr) libCall(c *ast.CallExpr, callee string) (string, T, bool) {
	arg := func(i int) string { s, _ := t.expr(c.Args[i]); return s }
	switch callee {
	case "strings.TrimSpace":
		return "(Bytes.trimSpace " + arg(0) + ")", tStr, true
	case "strings.HasSuffix":
		return "(Bytes.hasSuffix " + arg(0) + " " + arg(1) + ")", tBool, true
	case "strings.HasPrefix":
		return "(Bytes.hasPrefix " + arg(0) + " " + arg(1) + ")", tBool, true
	case "strings.ToUpper":
		return "(Bytes.toUpper " + arg(0) + ")", tStr, true
	case "strings.ToLower":
		return "(GoRt.toLower " + arg(0) + ")", tStr, true
	case "strings.Join":
		return "(Bytes.join " + arg(1) + " " + arg(0) + ")", tStr, true
	case "strings.TrimLeft", "strings.TrimRight":
		b, ok := t.singleByte(c.Args[1])
		if !ok {
			t.fail(c, "%s with a cut set that is not one ASCII byte", callee)
		}
		f := "Bytes.trimLeftByte"
		if callee == "strings.TrimRight" {
			f = "Bytes.trimRightByte"
		}
		return "(" + f + " " + b + " " + arg(0) + ")", tStr, true
	case "fmt.Sprintf":
		// only: a constant format whose verbs are all %s, with string arguments: the concatenation
		if tv, ok := t.p.info.Types[c.Args[0]]; ok && tv.Value != nil && tv.Value.Kind() == constant.String {
			f := constant.StringVal(tv.Value)
			parts := strings.Split(f, "%s")
			if !strings.Contains(strings.Join(parts, ""), "%") && len(parts) == len(c.Args) {
				var terms []string
				for i, p := range parts {
					if p != "" {
						terms = append(terms, bytesLit(p))
					}
					if i+1 < len(c.Args) {
						a, at := t.expr(c.Args[i+1])
						if at.Kind != "str" {
							t.fail(c, "fmt.Sprintf with a non-string argument")
						}
						terms = append(terms, a)
					}
				}
				if len(terms) == 0 {
					return bytesLit(""), tStr, true
				}
				return "(" + strings.Join(terms, " ++ ") + ")", tStr, true
			}
		}
		t.fail(c, "fmt.Sprintf other than a constant format of %%s verbs")
	case "strings.SplitN":
		b, ok := t.singleByte(c.Args[1])
		if k, okk := t.p.info.Types[c.Args[2]]; !ok || !okk || k.Value == nil || k.Value.ExactString() != "2" {
			t.fail(c, "strings.SplitN other than (s, \"<one ASCII byte>\", 2)")
		}
		return "(GoRt.splitN2 " + arg(0) + " " + b + ")", tStrList, true
	case "strings.Contains":
		return "(GoRt.contains " + arg(0) + " " + arg(1) + ")", tBool, true
	case "strings.IndexByte":
		return "(GoRt.indexByte " + arg(0) + " " + arg(1) + ")", tInt, true
	case "strings.Index":
		return "(GoRt.index " + arg(0) + " " + arg(1) + ")", tInt, true
	case "strings.Count":
		b, ok := t.singleByte(c.Args[1])
		if !ok {
			t.fail(c, "strings.Count with a separator that is not one ASCII byte")
		}
		return "((Bytes.countByte " + arg(0) + " " + b + " : Nat) : Int)", tInt, true
	case "strings.Replace":
		// only: strings.Replace(s, ".", `\.`, -1)
		o, ok1 := t.p.info.Types[c.Args[1]]
		n, ok2 := t.p.info.Types[c.Args[2]]
		k, ok3 := t.p.info.Types[c.Args[3]]
		if ok1 && ok2 && ok3 && o.Value != nil && n.Value != nil && k.Value != nil &&
			constant.StringVal(o.Value) == "." && constant.StringVal(n.Value) == `\.` && k.Value.ExactString() == "-1" {
			return "(Bytes.quoteDots " + arg(0) + ")", tStr, true
		}
		t.fail(c, "strings.Replace other than (s, \".\", `\\.`, -1)")
	case "strings.TrimRightFunc":
		// only: func(c rune) bool { return c == '<ascii>' || unicode.IsSpace(c) }  (either order)
		if fl, ok := c.Args[1].(*ast.FuncLit); ok {
			if b, ok := t.spaceOrByteLit(fl); ok {
				return "(Bytes.trimRightSpaceOrByte " + b + " " + arg(0) + ")", tStr, true
			}
		}
		t.fail(c, "strings.TrimRightFunc with an unrecognised predicate")
	}
	return "", tBad, false
}

// func(c rune) bool { return c == 'x' || unicode.IsSpace(c) }
func (t *tr) spaceOrByteLit(fl *ast.FuncLit) (string, bool) {
	if fl.Type.Params == nil || len(fl.Type.Params.List) != 1 || len(fl.Type.Params.List[0].Names) != 1 {
		return "", false
	}
	v := fl.Type.Params.List[0].Names[0].Name
	if len(fl.Body.List) != 1 {
		return "", false
	}
	rs, ok := fl.Body.List[0].(*ast.ReturnStmt)
	if !ok || len(rs.Results) != 1 {
		return "", false
	}
	be, ok := rs.Results[0].(*ast.BinaryExpr)
	if !ok || be.Op != token.LOR {
		return "", false
	}
	isSpace := func(e ast.Expr) bool { return t.p.text(e) == "unicode.IsSpace("+v+")" }
	eqByte := func(e ast.Expr) (string, bool) {
		b, ok := e.(*ast.BinaryExpr)
		if !ok || b.Op != token.EQL || t.p.text(b.X) != v {
			return "", false
		}
		tv, ok := t.p.info.Types[b.Y]
		if !ok || tv.Value == nil || tv.Value.Kind() != constant.Int {
			return "", false
		}
		n, _ := constant.Int64Val(tv.Value)
		if n < 0 || n >= 0x80 {
			return "", false
		}
		return fmt.Sprintf("0x%02X", n), true
	}
	if isSpace(be.Y) {
		return eqByte(be.X)
	}
	if isSpace(be.X) {
		return eqByte(be.Y)
	}
	return "", false
}

// expr: translate an expression; statements needed before it (panicking sub-expressions, calls with
// effects) are emitted first
func (t *tr) expr(e ast.Expr) (string, T) {
	if s, ty, ok := t.constOf(e); ok {
		return s, ty
	}
	switch x := e.(type) {
	case *ast.ParenExpr:
		s, ty := t.expr(x.X)
		return "(" + s + ")", ty
	case *ast.Ident:
		if x.Name == "nil" {
			return "none", T{"nil", "?"}
		}
		if l, ok := t.lookup(x.Name); ok {
			ty := t.g.goT(t.typeOf(x))
			if lt := t.ltypes[l]; lt != "" && lt != ty.Lean && (ty.Kind == "bad" || ty.Kind == "opaque") {
				ty = T{"opaque", lt}
			}
			return l, ty
		}
		if ext := t.findExt(x.Name); ext != nil && ext.Value != "" {
			return ext.Value, ext.T
		}
		t.fail(x, "identifier %s", x.Name)
	case *ast.FuncLit:
		// a closure that the function only hands on (e.g. registers as a handler): opaque, when the configuration says so
		if t.spec.OpaqueClosures {
			return "()", T{"opaque", "Unit"}
		}
		t.fail(x, "function literal")
	case *ast.TypeAssertExpr:
		if ext := t.findExt(calleeText(t.p, x, t.recvName)); ext != nil && ext.Value != "" {
			for _, st := range ext.Stmts {
				t.emit("%s", subst(st, t.recvLean(), nil))
			}
			return subst(ext.Value, t.recvLean(), nil), ext.T
		}
		if ext, h := t.wildExt(x, ""); ext != nil && ext.Value != "" {
			return subst(ext.Value, t.recvLean(), []string{h}), ext.T
		}
		t.fail(x, "type assertion %s", t.p.text(x))
	case *ast.CompositeLit:
		// a literal of a configured type: "<type text>{}" with the element values as arguments
		if x.Type != nil {
			if ext := t.findExt(t.p.text(x.Type) + "{}"); ext != nil && ext.Value != "" {
				var args []string
				for _, el := range x.Elts {
					if kv, ok := el.(*ast.KeyValueExpr); ok {
						el = kv.Value
					}
					v, _ := t.expr(el)
					args = append(args, v)
				}
				return subst(ext.Value, t.recvLean(), args), ext.T
			}
		}
		if tv, ok := t.p.info.Types[x]; ok {
			if _, isMap := tv.Type.Underlying().(*types.Map); isMap && len(x.Elts) == 0 {
				if mt := t.g.goT(tv.Type); mt.Kind == "strlist" || strings.HasPrefix(mt.Lean, "List ") {
					return "[]", mt
				}
			}
			if _, isSlice := tv.Type.Underlying().(*types.Slice); isSlice {
				var els []string
				for _, el := range x.Elts {
					v, _ := t.expr(el)
					els = append(els, v)
				}
				return "[" + strings.Join(els, ", ") + "]", t.g.goT(tv.Type)
			}
		}
		// a literal of a configured struct type with field names: the zero value with those fields set
		if tv, ok := t.p.info.Types[x]; ok {
			if st := t.g.goT(tv.Type); st.Kind == "struct" {
				var sets []string
				for _, el := range x.Elts {
					kv, ok := el.(*ast.KeyValueExpr)
					if !ok {
						t.fail(x, "positional struct literal")
					}
					fid, ok := kv.Key.(*ast.Ident)
					if !ok {
						t.fail(x, "struct literal key")
					}
					f := t.g.field(st.Lean, fid.Name)
					if f == nil {
						// a field the configuration declares irrelevant in literals (`lit.<field>`, e.g. a mutex)
						if ext := t.findExt("lit." + fid.Name); ext != nil && ext.Ignore {
							continue
						}
						t.fail(x, "field %s of %s is not modelled", fid.Name, st.Lean)
					}
					v, _ := t.expr(kv.Value)
					sets = append(sets, f.Lean+" := "+v)
				}
				if len(sets) == 0 {
					return "(default : " + st.Lean + ")", st
				}
				return "({ (default : " + st.Lean + ") with " + strings.Join(sets, ", ") + " } : " + st.Lean + ")", st
			}
		}
		var parts []string
		for _, el := range x.Elts {
			if _, kv := el.(*ast.KeyValueExpr); kv {
				t.fail(x, "composite literal with field names")
			}
			v, _ := t.expr(el)
			parts = append(parts, v)
		}
		return tupleOf(parts), T{"opaque", "?"}
	case *ast.SelectorExpr:
		if ext := t.findExt(calleeText(t.p, x, t.recvName)); ext != nil && ext.Value != "" {
			recv, _ := t.lookup(t.recvName)
			return subst(ext.Value, recv, nil), ext.T
		}
		if ext, h := t.wildExt(x, ""); ext != nil && ext.Value != "" {
			return subst(ext.Value, t.recvLean(), []string{h}), ext.T
		}
		bt := t.g.goT(t.typeOf(x.X))
		if bt.Kind == "struct" {
			f := t.g.field(bt.Lean, x.Sel.Name)
			if f == nil {
				t.fail(x, "field %s of %s is not modelled", x.Sel.Name, bt.Lean)
			}
			base, _ := t.expr(x.X)
			return base + "." + f.Lean, f.T
		}
		t.fail(x, "selector %s", t.p.text(x))
	case *ast.StarExpr:
		return t.expr(x.X)
	case *ast.UnaryExpr:
		switch x.Op {
		case token.NOT:
			s, _ := t.expr(x.X)
			return "(!" + s + ")", tBool
		case token.SUB:
			s, ty := t.expr(x.X)
			return t.wrap(ty, "(-"+s+")"), ty
		case token.AND:
			return t.expr(x.X)
		}
		t.fail(x, "unary %s", x.Op)
	case *ast.BinaryExpr:
		return t.binary(x)
	case *ast.CallExpr:
		vals, ts := t.call(x, false)
		if len(vals) != 1 {
			t.fail(x, "call with %d results used as a value", len(vals))
		}
		return vals[0], ts[0]
	case *ast.IndexExpr:
		if l, ok := t.alias[t.p.text(x)]; ok {
			return l, T{"opaque", t.ltypes[l]}
		}
		bt := t.g.goT(t.typeOf(x.X))
		if ext := t.findExt(calleeText(t.p, x.X, t.recvName) + "[]"); ext != nil {
			k, _ := t.expr(x.Index)
			recv, _ := t.lookup(t.recvName)
			if ext.Value == "" && len(ext.Values) > 0 { // single-value form of a lookup configured as (value, ok)
				return subst(ext.Values[0], recv, []string{k}), ext.Ts[0]
			}
			return subst(ext.Value, recv, []string{k}), ext.T
		}
		if !t.mayPanic {
			t.fail(x, "index expression in a function classified as non-panicking")
		}
		s, st := t.expr(x.X)
		if bt.Kind == "bad" || bt.Kind == "opaque" {
			bt = st
		}
		i, _ := t.expr(x.Index)
		n := t.fresh()
		switch bt.Kind {
		case "str":
			t.emit("let %s ← GoRt.byteAt %s %s", n, s, i)
			return n, tByte
		case "strlist":
			t.emit("let %s ← GoRt.elemAt %s %s", n, s, i)
			return n, tStr
		}
		if strings.HasPrefix(bt.Lean, "List ") {
			t.emit("let %s ← GoRt.listAt %s %s", n, s, i)
			el := strings.TrimPrefix(bt.Lean, "List ")
			el = strings.TrimSuffix(strings.TrimPrefix(el, "("), ")")
			if el == "List Bytes" {
				return n, tStrList
			}
			return n, T{"opaque", el}
		}
		t.fail(x, "index on %s", bt.Kind)
	case *ast.SliceExpr:
		if isEmptyPrefixSlice(t.p, x) { // x[:0] never panics (also on a nil slice) and is empty
			_, bt := t.expr(x.X)
			return "[]", bt
		}
		if !t.mayPanic {
			t.fail(x, "slice expression in a function classified as non-panicking")
		}
		bt := t.g.goT(t.typeOf(x.X))
		if (bt.Kind == "strlist" || strings.HasPrefix(bt.Lean, "List ")) && !x.Slice3 {
			s, st := t.expr(x.X)
			lo, hi := "(0 : Int)", "("+s+".length : Int)"
			if x.Low != nil {
				lo, _ = t.expr(x.Low)
			}
			if x.High != nil {
				hi, _ = t.expr(x.High)
			}
			n := t.fresh()
			t.emit("let %s ← GoRt.sliceList %s %s %s", n, s, lo, hi)
			return n, st
		}
		if bt.Kind != "str" || x.Slice3 {
			t.fail(x, "slice of %s", bt.Kind)
		}
		s, _ := t.expr(x.X)
		lo, hi := "(0 : Int)", "("+s+".length : Int)"
		if x.Low != nil {
			lo, _ = t.expr(x.Low)
		}
		if x.High != nil {
			hi, _ = t.expr(x.High)
		}
		n := t.fresh()
		t.emit("let %s ← GoRt.slice %s %s %s", n, s, lo, hi)
		return n, tStr
	}
	t.fail(e, "expression %T %s", e, t.p.text(e))
	return "", tBad
}

func (t *tr) binary(x *ast.BinaryExpr) (string, T) {
	if x.Op == token.LAND || x.Op == token.LOR {
		a, _ := t.expr(x.X)
		// the right operand is evaluated only when needed: its preliminary statements go into a branch
		save := t.lines
		t.lines = nil
		t.ind += 2
		b, _ := t.expr(x.Y)
		pre := t.lines
		t.ind -= 2
		t.lines = save
		op := " && "
		if x.Op == token.LOR {
			op = " || "
		}
		if len(pre) == 0 {
			return "(" + a + op + b + ")", tBool
		}
		n := t.fresh()
		t.emit("let %s ← do", n)
		if x.Op == token.LAND {
			t.emit("  if %s then", a)
		} else {
			t.emit("  if !%s then", a)
		}
		t.lines = append(t.lines, pre...)
		t.emit("    pure %s", b)
		t.emit("  else")
		if x.Op == token.LAND {
			t.emit("    pure false")
		} else {
			t.emit("    pure true")
		}
		return n, tBool
	}
	a, at := t.expr(x.X)
	b, bt := t.expr(x.Y)
	// comparisons with nil
	if at.Kind == "nil" || bt.Kind == "nil" {
		v, vt := a, at
		if at.Kind == "nil" {
			v, vt = b, bt
		}
		if vt.Kind == "opaque" && vt.Lean == "Bool" { // an error value: true = non-nil
			if x.Op == token.EQL {
				return "(!" + v + ")", tBool
			}
			return v, tBool
		}
		if vt.Kind != "opaque" || !strings.HasPrefix(vt.Lean, "Option ") {
			t.fail(x, "comparison of %s with nil", vt.Lean)
		}
		if x.Op == token.EQL {
			return "(" + v + ").isNone", tBool
		}
		return "(" + v + ").isSome", tBool
	}
	switch x.Op {
	case token.EQL:
		return "(" + a + " == " + b + ")", tBool
	case token.NEQ:
		return "(" + a + " != " + b + ")", tBool
	case token.LSS, token.GTR, token.LEQ, token.GEQ:
		op := map[token.Token]string{token.LSS: "<", token.GTR: ">", token.LEQ: "≤", token.GEQ: "≥"}[x.Op]
		return "(decide (" + a + " " + op + " " + b + "))", tBool
	case token.ADD:
		if at.Kind == "str" {
			return "(" + a + " ++ " + b + ")", tStr
		}
		return t.wrap(at, "("+a+" + "+b+")"), at
	case token.SUB:
		return t.wrap(at, "("+a+" - "+b+")"), at
	case token.MUL:
		return t.wrap(at, "("+a+" * "+b+")"), at
	case token.REM:
		// Go's % truncates toward zero (a constant non-zero divisor only: no division by zero to model)
		if tv, ok := t.p.info.Types[x.Y]; ok && tv.Value != nil && tv.Value.ExactString() != "0" && at.Kind == "int" {
			return "(Int.tmod " + a + " " + b + ")", at
		}
	}
	t.fail(x, "binary %s", x.Op)
	return "", tBad
}

// assignTo: `lhs = value`
func (t *tr) assignTo(lhs ast.Expr, val string) {
	switch l := lhs.(type) {
	case *ast.Ident:
		if l.Name == "_" {
			return
		}
		if ln, ok := t.lookup(l.Name); ok {
			t.emit("%s := %s", ln, val)
			return
		}
		t.fail(l, "assignment to unknown %s", l.Name)
	case *ast.IndexExpr:
		ext := t.findExt(calleeText(t.p, l.X, t.recvName) + "[]=")
		if ext == nil || (ext.Effect == "" && len(ext.Stmts) == 0) {
			t.fail(l, "assignment to an element of %s", t.p.text(l.X))
		}
		k, _ := t.expr(l.Index)
		for _, st := range ext.Stmts {
			t.emit("%s", subst(st, t.recvLean(), []string{k, val}))
		}
		if ext.Effect != "" {
			t.emit("%s := %s", t.recvLean(), subst(ext.Effect, t.recvLean(), []string{k, val}))
		}
		return
	case *ast.SelectorExpr:
		if ext, h := t.wildExt(l, "="); ext != nil && (ext.Effect != "" || len(ext.Stmts) > 0) {
			for _, st := range ext.Stmts {
				t.emit("%s", subst(st, t.recvLean(), []string{h, val}))
			}
			if ext.Effect != "" {
				t.emit("%s := %s", t.recvLean(), subst(ext.Effect, t.recvLean(), []string{h, val}))
			}
			return
		}
		base, set, ok := t.lvalStruct(l.X)
		if !ok {
			t.fail(l, "assignment target %s", t.p.text(l))
		}
		bt := t.g.goT(t.typeOf(l.X))
		f := t.g.field(bt.Lean, l.Sel.Name)
		if f == nil {
			// a field that is modelled through its effect only (configured as "<expr>=<rhs text>" or "<expr>=")
			ext := t.findExt(calleeText(t.p, l, t.recvName) + "=" + t.curRhs)
			if ext == nil {
				ext = t.findExt(calleeText(t.p, l, t.recvName) + "=")
			}
			if ext != nil {
				recv, _ := t.lookup(t.recvName)
				if ext.Effect != "" {
					t.emit("%s := %s", recv, subst(ext.Effect, recv, []string{val}))
				} else {
					t.emit("-- (not modelled) %s = ...", t.p.text(l))
				}
				return
			}
			t.fail(l, "assignment to a field that is not modelled: %s", t.p.text(l))
		}
		if val == "none" && !strings.HasPrefix(f.T.Lean, "Option ") {
			val = f.T.zero() // `x.f = nil` for a slice-typed field
		}
		t.emit("%s", set(t.update(bt.Lean, base, f.Lean, val)))
		return
	}
	t.fail(lhs, "assignment target %s", t.p.text(lhs))
}

func (t *tr) block(list []ast.Stmt) {
	n0 := len(t.lines)
	for _, s := range list {
		t.stmt(s)
	}
	if len(t.lines) == n0 || allComments(t.lines[n0:]) {
		t.emit("pure ()")
	}
}

func allComments(ls []string) bool {
	for _, l := range ls {
		if !strings.HasPrefix(strings.TrimSpace(l), "--") {
			return false
		}
	}
	return true
}

func (t *tr) retValue(vals []string) string {
	var parts []string
	parts = append(parts, t.spec.RetExtra...)
	if t.mutates {
		r, _ := t.lookup(t.recvName)
		parts = append(parts, r)
	}
	parts = append(parts, vals...)
	if len(parts) == 0 {
		return "()"
	}
	if len(parts) == 1 {
		return parts[0]
	}
	return "(" + strings.Join(parts, ", ") + ")"
}

func (t *tr) stmt(s ast.Stmt) {
	switch x := s.(type) {
	case *ast.EmptyStmt:
	case *ast.ExprStmt:
		c, ok := x.X.(*ast.CallExpr)
		if !ok {
			t.fail(x, "expression statement")
		}
		t.call(c, true)
	case *ast.DeferStmt:
		callee := calleeText(t.p, x.Call.Fun, t.recvName)
		if ext := t.findExt(callee); ext != nil && ext.Ignore {
			t.emit("-- (not modelled) defer %s", t.p.text(x.Call))
			return
		}
		t.fail(x, "defer")
	case *ast.IncDecStmt:
		v, ty := t.expr(x.X)
		op := "+"
		if x.Tok == token.DEC {
			op = "-"
		}
		t.assignTo(x.X, t.wrap(ty, "("+v+" "+op+" 1)"))
	case *ast.DeclStmt:
		gd := x.Decl.(*ast.GenDecl)
		if gd.Tok != token.VAR {
			t.fail(x, "declaration")
		}
		for _, sp := range gd.Specs {
			vs := sp.(*ast.ValueSpec)
			for i, n := range vs.Names {
				ty := t.g.goT(t.typeOf(n))
				if ty.Kind == "bad" {
					t.fail(n, "variable %s of unsupported type %v", n.Name, t.typeOf(n))
				}
				val := ty.zero()
				if i < len(vs.Values) {
					val, _ = t.expr(vs.Values[i])
				}
				t.emit("let mut %s : %s := %s", t.declareT(n.Name, ty.Lean), ty.Lean, val)
			}
		}
	case *ast.AssignStmt:
		t.assign(x)
	case *ast.ReturnStmt:
		if t.loop != nil {
			t.fail(x, "return inside a loop")
		}
		var vals []string
		if len(x.Results) == 0 {
			for _, n := range t.named {
				l, _ := t.lookup(n)
				vals = append(vals, l)
			}
		} else if len(x.Results) == 1 && len(t.results) > 1 {
			c, ok := x.Results[0].(*ast.CallExpr)
			if !ok {
				t.fail(x, "return")
			}
			vals, _ = t.call(c, false)
		} else {
			for i, r := range x.Results {
				v, vt := t.expr(r)
				if vt.Kind == "nil" && i < len(t.results) {
					v = t.results[i].zero()
					if strings.HasPrefix(t.results[i].Lean, "Option ") {
						v = "none"
					}
				} else if i < len(t.results) && strings.HasPrefix(t.results[i].Lean, "Option ") && !strings.HasPrefix(vt.Lean, "Option ") {
					v = "(some " + v + ")"
				}
				vals = append(vals, v)
			}
		}
		if t.hasLoop {
			t.emit("return some %s", t.retValue(vals))
		} else {
			t.emit("return %s", t.retValue(vals))
		}
	case *ast.BlockStmt:
		t.push()
		t.block(x.List)
		t.pop()
	case *ast.IfStmt:
		if vars, throws, ok := t.pureIf(x); ok {
			t.emitPureIf(x, vars, throws)
			return
		}
		t.push()
		if x.Init != nil {
			t.stmt(x.Init)
		}
		c, _ := t.expr(x.Cond)
		t.emit("if %s then", c)
		t.ind++
		t.push()
		t.block(x.Body.List)
		t.pop()
		t.ind--
		if x.Else != nil {
			t.emit("else")
			t.ind++
			switch e := x.Else.(type) {
			case *ast.BlockStmt:
				t.push()
				t.block(e.List)
				t.pop()
			default:
				n0 := len(t.lines)
				t.stmt(e)
				if len(t.lines) == n0 {
					t.emit("pure ()")
				}
			}
			t.ind--
		}
		t.pop()
	case *ast.SwitchStmt:
		t.switchStmt(x)
	case *ast.TypeSwitchStmt:
		t.typeSwitchStmt(x)
	case *ast.RangeStmt:
		t.rangeStmt(x)
	case *ast.ForStmt:
		t.forStmt(x)
	case *ast.BranchStmt:
		if x.Label != nil {
			t.fail(x, "labelled branch")
		}
		if t.loop != nil && t.inRange == 0 {
			switch x.Tok {
			case token.CONTINUE:
				if t.loop.post != nil {
					t.stmt(t.loop.post)
				}
				t.emit("return ← %s %s fuel %s", t.loop.name, strings.Join(t.bnames, " "), tupleOf(t.loop.vars))
				return
			case token.BREAK:
				t.emit("return some %s", tupleOf(t.loop.vars))
				return
			}
		}
		switch x.Tok {
		case token.CONTINUE:
			t.emit("continue")
		case token.BREAK:
			t.emit("break")
		default:
			t.fail(x, "branch %s", x.Tok)
		}
	default:
		t.fail(s, "statement %T", s)
	}
}

// pureIf: an `if` statement (with its else branches) that cannot leave the enclosing block (no return, break,
// continue, panic, no operation that may panic or that a modelled operation ends with a `return`) only assigns
// variables.  It is emitted as ONE tuple-valued block over the outer variables it assigns, so that the code
// after it is not duplicated into both branches by the `do` notation.  Returns those variables (Lean names).
func (t *tr) pureIf(x *ast.IfStmt) ([]string, bool, bool) {
	if t.spec.NoPureIf {
		return nil, false, false
	}
	escapes := false
	throws := false
	mayThrow := func() {
		if t.spec.MonadicIf && t.mayPanic {
			throws = true
		} else {
			escapes = true
		}
	}
	assigned := map[string]bool{}
	declaredInside := map[string]bool{}
	recvAssigned := false
	var walk func(n ast.Node) bool
	walk = func(n ast.Node) bool {
		switch y := n.(type) {
		case *ast.FuncLit:
			return false // only occurs as a recognised predicate argument; its body is not part of this block
		case *ast.ReturnStmt, *ast.BranchStmt, *ast.DeferStmt, *ast.ForStmt, *ast.RangeStmt, *ast.SwitchStmt:
			escapes = true
		case *ast.IndexExpr:
			if tv, ok := t.p.info.Types[y.X]; ok {
				if _, isMap := tv.Type.Underlying().(*types.Map); !isMap {
					if _, aliased := t.alias[t.p.text(y)]; !aliased {
						mayThrow()
					}
				}
			}
		case *ast.SliceExpr:
			if !isEmptyPrefixSlice(t.p, y) {
				mayThrow()
			}
		case *ast.CallExpr:
			if id, ok := y.Fun.(*ast.Ident); ok && id.Name == "delete" {
				escapes = true
			}
			if id, ok := y.Fun.(*ast.Ident); ok && id.Name == "panic" {
				mayThrow()
			}
			if calleeText(t.p, y.Fun, t.recvName) == "goutil.Panicf" {
				mayThrow()
			}
			callee := calleeText(t.p, y.Fun, t.recvName)
			ext := t.findExt(callee)
			if ext == nil {
				if sel, ok := y.Fun.(*ast.SelectorExpr); ok {
					ext, _ = t.wildExt(sel, "")
				}
			}
			if ext != nil {
				if ext.Effect != "" {
					escapes = true
				}
				if ext.MayPanic {
					mayThrow()
				}
				for _, st := range ext.Stmts {
					if strings.Contains(st, "return") {
						escapes = true
					}
					if strings.Contains(st, "←") {
						mayThrow()
					}
					if m := stmtAssignRe.FindStringSubmatch(st); m != nil {
						assigned[m[1]] = true
					}
				}
			} else if fi, recvExpr := t.g.lookupFn(t.p, y, nil); fi != nil {
				if fi.hasLoop {
					escapes = true
				}
				if fi.mayPanic {
					mayThrow()
				}
				if fi.mutates && recvExpr != nil {
					if base, _, ok := t.lvalStruct(recvExpr); ok {
						root := base
						if i := strings.IndexByte(root, '.'); i > 0 {
							root = root[:i]
						}
						assigned[root] = true
					} else {
						escapes = true
					}
				}
			}
		case *ast.AssignStmt:
			for _, l := range y.Lhs {
				switch lv := l.(type) {
				case *ast.Ident:
					if y.Tok == token.DEFINE && t.p.info.Defs[lv] != nil {
						declaredInside[lv.Name] = true
					} else if ln, ok := t.lookup(lv.Name); ok && !declaredInside[lv.Name] {
						assigned[ln] = true
					}
				case *ast.SelectorExpr:
					if base, _, ok := t.lvalStruct(lv.X); ok {
						root := base
						if i := strings.IndexByte(root, '.'); i > 0 {
							root = root[:i]
						}
						assigned[root] = true
						if root == t.recvLean() {
							recvAssigned = true
						}
					} else {
						escapes = true
					}
				default:
					escapes = true
				}
			}
		case *ast.IncDecStmt:
			switch lv := y.X.(type) {
			case *ast.Ident:
				if ln, ok := t.lookup(lv.Name); ok {
					assigned[ln] = true
				}
			case *ast.SelectorExpr:
				if base, _, ok := t.lvalStruct(lv.X); ok {
					root := base
					if i := strings.IndexByte(root, '.'); i > 0 {
						root = root[:i]
					}
					assigned[root] = true
				} else {
					escapes = true
				}
			}
		case *ast.DeclStmt:
			if gd, ok := y.Decl.(*ast.GenDecl); ok {
				for _, sp := range gd.Specs {
					if vs, ok := sp.(*ast.ValueSpec); ok {
						for _, n := range vs.Names {
							declaredInside[n.Name] = true
						}
					}
				}
			}
		}
		return !escapes
	}
	if x.Init != nil {
		return nil, false, false
	}
	ast.Inspect(x.Cond, func(n ast.Node) bool { // the condition is evaluated outside the block
		return true
	})
	ast.Inspect(x.Body, walk)
	if x.Else != nil {
		ast.Inspect(x.Else, walk)
	}
	_ = recvAssigned
	if escapes {
		return nil, false, false
	}
	var vars []string
	for _, v := range t.visibleMuts() {
		if assigned[v] {
			if t.ltypes[v] == "" {
				return nil, false, false
			}
			vars = append(vars, v)
			delete(assigned, v)
		}
	}
	if len(assigned) > 0 { // assigns something that is not a tracked mutable variable
		return nil, false, false
	}
	return vars, throws, true
}

var stmtAssignRe = regexp.MustCompile(`^(\w+) :=`)

func (t *tr) emitPureIf(x *ast.IfStmt, vars []string, throws bool) {
	c, _ := t.expr(x.Cond)
	if len(vars) == 0 {
		t.emit("-- (no effect on the modelled state) if %s …", strings.ReplaceAll(t.p.text(x.Cond), "\n", " "))
		return
	}
	var tys []string
	for _, v := range vars {
		tys = append(tys, t.ltypes[v])
	}
	n := t.fresh()
	hoistName, hoistArgs, hoistBinders := "", []string{}, []string{}
	var saveLines []string
	saveInd := 0
	if t.spec.Hoist {
		hoistName = fmt.Sprintf("%s.blk%s", t.spec.Lean, n[1:])
		hoistArgs = append(hoistArgs, t.bnames...)
		for _, hv := range t.spec.HoistVars {
			nm := strings.TrimSpace(strings.SplitN(hv, ":", 2)[0])
			hoistArgs = append(hoistArgs, nm)
			hoistBinders = append(hoistBinders, "("+hv+")")
		}
		isBinder := map[string]bool{}
		for _, b := range t.bnames {
			isBinder[b] = true
		}
		for _, v := range t.visibleMuts() {
			if isBinder[v] { // a parameter that is also assigned: the binder position carries the current value
				continue
			}
			if t.ltypes[v] == "" {
				t.fail(x, "hoisted block with a live variable %s of unknown type", v)
			}
			hoistArgs = append(hoistArgs, v)
			hoistBinders = append(hoistBinders, fmt.Sprintf("(%s : %s)", v, t.ltypes[v]))
		}
		saveLines, saveInd = t.lines, t.ind
		t.lines, t.ind = nil, 0
		if throws {
			t.emit("def %s %s %s : Except Panic (%s) := do", hoistName, t.binders, strings.Join(hoistBinders, " "), strings.Join(tys, " × "))
		} else {
			t.emit("def %s %s %s : %s := Id.run do", hoistName, t.binders, strings.Join(hoistBinders, " "), strings.Join(tys, " × "))
		}
	} else if throws {
		t.emit("let %s : %s ← do", n, strings.Join(tys, " × "))
	} else {
		t.emit("let %s : %s := Id.run do", n, strings.Join(tys, " × "))
	}
	t.ind++
	for _, v := range vars {
		t.emit("let mut %s := %s", v, v)
	}
	t.emit("if %s then", c)
	t.ind++
	t.push()
	t.block(x.Body.List)
	t.pop()
	t.ind--
	if x.Else != nil {
		t.emit("else")
		t.ind++
		switch e := x.Else.(type) {
		case *ast.BlockStmt:
			t.push()
			t.block(e.List)
			t.pop()
		default:
			n0 := len(t.lines)
			t.stmt(e)
			if len(t.lines) == n0 {
				t.emit("pure ()")
			}
		}
		t.ind--
	}
	if throws {
		t.emit("pure %s", tupleOf(vars))
	} else {
		t.emit("return %s", tupleOf(vars))
	}
	t.ind--
	if t.spec.Hoist {
		aux := fmt.Sprintf("/-- block %s of `%s` (`if %s …`) -/\n%s\n", n[1:], t.spec.Lean,
			strings.ReplaceAll(t.p.text(x.Cond), "\n", " "), strings.Join(t.lines, "\n"))
		t.aux = append(t.aux, aux)
		t.lines, t.ind = saveLines, saveInd
		if throws {
			t.emit("let %s ← %s %s", n, hoistName, strings.Join(hoistArgs, " "))
		} else {
			t.emit("let %s := %s %s", n, hoistName, strings.Join(hoistArgs, " "))
		}
	}
	// a pattern assignment (a `match` in the elaborated term) rather than projections: the block is not copied
	// into every use of the variables when a proof unfolds the definition
	t.emit("%s := %s", tupleOf(vars), n)
}

// clauseBody: the statements of a switch clause. In Go an unlabeled `break` inside a switch ends the SWITCH (not an
// enclosing loop): as the last statement of the clause it is dropped, anywhere else in the clause it is refused.
func (t *tr) clauseBody(body []ast.Stmt) []ast.Stmt {
	if n := len(body); n > 0 {
		if b, ok := body[n-1].(*ast.BranchStmt); ok && b.Tok == token.BREAK && b.Label == nil {
			body = body[:n-1]
		}
	}
	for _, st := range body {
		ast.Inspect(st, func(n ast.Node) bool {
			switch y := n.(type) {
			case *ast.ForStmt, *ast.RangeStmt, *ast.SwitchStmt, *ast.TypeSwitchStmt, *ast.SelectStmt, *ast.FuncLit:
				return false
			case *ast.BranchStmt:
				if y.Tok == token.BREAK && y.Label == nil {
					t.fail(y, "break that ends a switch from inside a clause")
				}
			}
			return true
		})
	}
	return body
}

// typeSwitchStmt: `switch v := e.(type) { case T1: …; case T2: …; default: … }` on a value of a type that the
// configuration represents as a Lean inductive (FnSpec.TypeCases: Go type text -> constructor with one field) becomes a
// `match`; every clause names exactly one type, in the default clause `v` is the value itself.
func (t *tr) typeSwitchStmt(x *ast.TypeSwitchStmt) {
	if x.Init != nil || t.spec.TypeCases == nil {
		t.fail(x, "type switch")
	}
	var bind string
	var subject ast.Expr
	switch a := x.Assign.(type) {
	case *ast.AssignStmt:
		if len(a.Lhs) != 1 || len(a.Rhs) != 1 {
			t.fail(x, "type switch header")
		}
		bind = a.Lhs[0].(*ast.Ident).Name
		subject = a.Rhs[0].(*ast.TypeAssertExpr).X
	case *ast.ExprStmt:
		subject = a.X.(*ast.TypeAssertExpr).X
	default:
		t.fail(x, "type switch header")
	}
	sv, _ := t.expr(subject)
	t.emit("match %s with", sv)
	hasDefault := false
	var def *ast.CaseClause
	for _, cc := range x.Body.List {
		c := cc.(*ast.CaseClause)
		if c.List == nil {
			def = c
			continue
		}
		if len(c.List) != 1 {
			t.fail(c, "type switch clause with several types")
		}
		tc, ok := t.spec.TypeCases[t.p.text(c.List[0])]
		if !ok {
			t.fail(c, "type switch clause %s is not configured", t.p.text(c.List[0]))
		}
		t.push()
		v := "_"
		if bind != "" && bind != "_" {
			v = t.declareT(bind, tc.T.Lean)
		} else if tc.Bind != "" {
			v = tc.Bind
		}
		t.emit("| %s %s =>", tc.Ctor, v)
		t.ind++
		t.block(t.clauseBody(c.Body))
		t.ind--
		t.pop()
	}
	if def != nil {
		hasDefault = true
		t.push()
		t.emit("| _ =>")
		t.ind++
		if bind != "" && bind != "_" {
			v := t.declare(bind)
			t.emit("let %s := %s", v, sv)
		}
		t.block(t.clauseBody(def.Body))
		t.ind--
		t.pop()
	}
	if !hasDefault {
		t.emit("| _ => pure ()")
	}
}

func (t *tr) switchStmt(x *ast.SwitchStmt) {
	t.push()
	if x.Init != nil {
		t.stmt(x.Init)
	}
	tag := ""
	if x.Tag != nil {
		v, _ := t.expr(x.Tag)
		tag = t.fresh()
		t.emit("let %s := %s", tag, v)
	}
	var def *ast.CaseClause
	first := true
	depth := 0
	for _, cc := range x.Body.List {
		c := cc.(*ast.CaseClause)
		if c.List == nil {
			def = c
			continue
		}
		for _, st := range c.Body {
			if b, ok := st.(*ast.BranchStmt); ok && b.Tok == token.FALLTHROUGH {
				t.fail(b, "fallthrough")
			}
		}
		var conds []string
		for _, e := range c.List {
			v, _ := t.expr(e)
			if tag != "" {
				conds = append(conds, "("+tag+" == "+v+")")
			} else {
				conds = append(conds, v)
			}
		}
		kw := "if"
		if !first {
			t.emit("else")
			t.ind++
			depth++
		}
		first = false
		t.emit("%s %s then", kw, strings.Join(conds, " || "))
		t.ind++
		t.push()
		t.block(t.clauseBody(c.Body))
		t.pop()
		t.ind--
	}
	if def != nil {
		if first {
			t.push()
			t.block(t.clauseBody(def.Body))
			t.pop()
		} else {
			t.emit("else")
			t.ind++
			t.push()
			t.block(t.clauseBody(def.Body))
			t.pop()
			t.ind--
		}
	}
	t.ind -= depth
	t.pop()
}

func (t *tr) rangeStmt(x *ast.RangeStmt) {
	coll, ct := t.expr(x.X)
	if _, isMap := t.typeOf(x.X).Underlying().(*types.Map); isMap {
		// a Go map represented as the list of its keys: `for k := range m` visits them in an unspecified order
		if t.spec.MapOrder == "" || x.Key == nil {
			t.fail(x, "range over a map")
		}
		if strings.HasPrefix(ct.Lean, "Option List (") || ct.Lean == "Option GoRt.KV" {
			// a nil-able map: ranging over nil visits nothing
			coll = "(" + coll + ".getD [])"
			ct = T{ct.Kind, "List (Bytes × Bytes)"}
		}
		coll = "(" + t.spec.MapOrder + " " + coll + ")"
		if x.Value != nil {
			// a map represented as the list of its (key, value) pairs
			m := t.typeOf(x.X).Underlying().(*types.Map)
			kid, ok1 := x.Key.(*ast.Ident)
			vid, ok2 := x.Value.(*ast.Ident)
			if !ok1 || !ok2 || !strings.HasPrefix(ct.Lean, "List (") {
				t.fail(x, "range over a map with key and value")
			}
			t.push()
			it := t.fresh()
			t.emit("for %s in %s do", it, coll)
			t.ind++
			if kid.Name != "_" {
				kv := t.declareT(kid.Name, t.g.goT(m.Key()).Lean)
				t.emit("let mut %s : %s := %s.1", kv, t.g.goT(m.Key()).Lean, it)
			}
			if vid.Name != "_" {
				vv := t.declareT(vid.Name, t.g.goT(m.Elem()).Lean)
				t.emit("let mut %s : %s := %s.2", vv, t.g.goT(m.Elem()).Lean, it)
			}
			t.inRange++
			t.block(x.Body.List)
			t.inRange--
			t.ind--
			t.pop()
			return
		}
		x = &ast.RangeStmt{For: x.For, Key: nil, Value: x.Key, Tok: x.Tok, X: x.X, Body: x.Body}
	}
	elemT := tBad
	switch {
	case ct.Kind == "strlist":
		elemT = tStr
	case strings.HasPrefix(ct.Lean, "List "):
		elemT = T{"opaque", strings.TrimPrefix(ct.Lean, "List ")}
	default:
		t.fail(x, "range over %s", ct.Lean)
	}
	aliasKey := ""
	if x.Key != nil {
		id, ok := x.Key.(*ast.Ident)
		if !ok {
			t.fail(x, "range key")
		}
		if id.Name != "_" {
			// `for i := range xs`: supported when `i` is only used as `xs[i]` (checked: every use of i is that index)
			if x.Value != nil {
				// `for i, v := range xs`: iterate over (index, element) pairs
				t.push()
				iv := t.declare(id.Name)
				t.ltypes[iv] = "Int"
				vv := "_"
				if vid, ok := x.Value.(*ast.Ident); ok && vid.Name != "_" {
					vv = t.declare(vid.Name)
					t.ltypes[vv] = elemT.Lean
				}
				t.emit("for %s_it in GoRt.enum %s do", iv, coll)
				t.ind++
				t.emit("let mut %s : Int := %s_it.1", iv, iv)
				if vv != "_" {
					t.emit("let mut %s := %s_it.2", vv, iv)
				}
				t.inRange++
				t.block(x.Body.List)
				t.inRange--
				t.ind--
				t.pop()
				return
			}
			if !onlyIndexUses(x.Body, id.Name, t.p.text(x.X)) {
				// the index is used as a number: iterate over the (index, element) pairs and ignore the element
				t.push()
				iv := t.declare(id.Name)
				t.ltypes[iv] = "Int"
				t.emit("for %s_it in GoRt.enum %s do", iv, coll)
				t.ind++
				t.emit("let mut %s : Int := %s_it.1", iv, iv)
				t.inRange++
				t.block(x.Body.List)
				t.inRange--
				t.ind--
				t.pop()
				return
			}
			aliasKey = t.p.text(x.X) + "[" + id.Name + "]"
		}
	}
	t.push()
	v := "_"
	if aliasKey != "" {
		v = t.declare("el")
		t.ltypes[v] = elemT.Lean
		t.alias[aliasKey] = v
		defer delete(t.alias, aliasKey)
	}
	if x.Value != nil {
		id, ok := x.Value.(*ast.Ident)
		if !ok {
			t.fail(x, "range value")
		}
		if id.Name != "_" {
			v = t.declareT(id.Name, elemT.Lean)
		}
	}
	t.emit("for %s_it in %s do", v, coll)
	t.ind++
	if v != "_" {
		t.emit("let mut %s := %s_it", v, v)
	}
	t.inRange++
	t.block(x.Body.List)
	t.inRange--
	t.ind--
	t.pop()
}

func (t *tr) assign(x *ast.AssignStmt) {
	// op-assign
	if x.Tok != token.ASSIGN && x.Tok != token.DEFINE {
		if len(x.Lhs) != 1 {
			t.fail(x, "op-assign")
		}
		l, lt := t.expr(x.Lhs[0])
		r, _ := t.expr(x.Rhs[0])
		var op string
		switch x.Tok {
		case token.ADD_ASSIGN:
			op = "+"
			if lt.Kind == "str" {
				op = "++"
			}
		case token.SUB_ASSIGN:
			op = "-"
		default:
			t.fail(x, "assignment operator %s", x.Tok)
		}
		t.assignTo(x.Lhs[0], t.wrap(lt, "("+l+" "+op+" "+r+")"))
		return
	}
	var vals []string
	var ts []T
	if len(x.Rhs) == 1 && len(x.Lhs) > 1 {
		switch r := x.Rhs[0].(type) {
		case *ast.CallExpr:
			vals, ts = t.call(r, false)
		case *ast.IndexExpr: // v, ok := m[k]
			ext := t.findExt(calleeText(t.p, r.X, t.recvName) + "[]")
			if ext == nil {
				t.fail(x, "map lookup on %s", t.p.text(r.X))
			}
			k, _ := t.expr(r.Index)
			recv, _ := t.lookup(t.recvName)
			if len(ext.Values) == 2 {
				vals = []string{subst(ext.Values[0], recv, []string{k}), subst(ext.Values[1], recv, []string{k})}
				ts = ext.Ts
			} else {
				n := t.fresh()
				t.emit("let %s := %s", n, subst(ext.Value, recv, []string{k}))
				vals = []string{n, n + ".isSome"}
				ts = []T{ext.T, tBool}
			}
		case *ast.TypeAssertExpr: // v, ok := x.(T)
			ext := t.findExt(calleeText(t.p, r, t.recvName))
			var wargs []string
			if ext == nil {
				var h string
				if ext, h = t.wildExt(r, ""); ext != nil {
					wargs = []string{h}
				}
			}
			if ext == nil || len(ext.Values) != 2 {
				t.fail(x, "type assertion %s", t.p.text(r))
			}
			recv, _ := t.lookup(t.recvName)
			vals = []string{subst(ext.Values[0], recv, wargs), subst(ext.Values[1], recv, wargs)}
			ts = ext.Ts
		default:
			t.fail(x, "multi-value assignment")
		}
		if len(vals) != len(x.Lhs) {
			t.fail(x, "assignment count mismatch")
		}
	} else {
		if len(x.Lhs) != len(x.Rhs) {
			t.fail(x, "assignment count mismatch")
		}
		for _, r := range x.Rhs {
			v, vt := t.expr(r)
			vals = append(vals, v)
			ts = append(ts, vt)
		}
		if len(vals) > 1 { // parallel assignment: evaluate all right-hand sides first
			for i := range vals {
				n := t.fresh()
				t.emit("let %s := %s", n, vals[i])
				vals[i] = n
			}
		}
	}
	for i, l := range x.Lhs {
		t.curRhs = ""
		if len(x.Lhs) == len(x.Rhs) {
			t.curRhs = strings.ReplaceAll(t.p.text(x.Rhs[i]), t.recvName+".", "$.")
		}
		if x.Tok == token.DEFINE {
			id := l.(*ast.Ident)
			if id.Name == "_" {
				continue
			}
			if t.p.info.Defs[id] != nil { // a new variable
				ty := ts[i]
				if g := t.g.goT(t.typeOf(id)); g.Kind != "bad" && g.Kind != "opaque" {
					ty = g
				}
				if ty.Kind == "bad" || ty.Kind == "nil" || ty.Lean == "?" {
					t.emit("let mut %s := %s", t.declareT(id.Name, ""), vals[i])
				} else {
					t.emit("let mut %s : %s := %s", t.declareT(id.Name, ty.Lean), ty.Lean, vals[i])
				}
				continue
			}
		}
		t.assignTo(l, vals[i])
	}
}

// onlyIndexUses: every occurrence of identifier `i` in the body is the index of `coll[i]`
func onlyIndexUses(body *ast.BlockStmt, i, coll string) bool {
	ok := true
	var buf bytes.Buffer
	ast.Inspect(body, func(n ast.Node) bool {
		if ix, isIx := n.(*ast.IndexExpr); isIx {
			if id, isId := ix.Index.(*ast.Ident); isId && id.Name == i {
				buf.Reset()
				_ = printer.Fprint(&buf, token.NewFileSet(), ix.X)
				if buf.String() == coll {
					// do not descend into the index identifier
					ast.Inspect(ix.X, func(m ast.Node) bool {
						if id2, ok2 := m.(*ast.Ident); ok2 && id2.Name == i {
							ok = false
						}
						return true
					})
					return false
				}
			}
		}
		if id, isId := n.(*ast.Ident); isId && id.Name == i {
			ok = false
		}
		return true
	})
	return ok
}

func isEmptyPrefixSlice(p *pkgInfo, x *ast.SliceExpr) bool {
	if x.Low != nil || x.High == nil || x.Slice3 {
		return false
	}
	tv, ok := p.info.Types[x.High]
	return ok && tv.Value != nil && tv.Value.ExactString() == "0"
}

// ---------------------------------------------------------------------------------------------------
// pre-passes

func mayPanicBody(p *pkgInfo, g *gen, spec *FnSpec, fd *ast.FuncDecl, recvName string) bool {
	res := false
	ast.Inspect(fd.Body, func(n ast.Node) bool {
		switch x := n.(type) {
		case *ast.IndexExpr:
			if tv, ok := p.info.Types[x.X]; ok {
				if _, isMap := tv.Type.Underlying().(*types.Map); !isMap {
					res = true
				}
			}
		case *ast.SliceExpr:
			if !isEmptyPrefixSlice(p, x) {
				res = true
			}
		case *ast.CallExpr:
			if id, ok := x.Fun.(*ast.Ident); ok && id.Name == "panic" {
				res = true
			}
			callee := calleeText(p, x.Fun, recvName)
			if callee == "goutil.Panicf" {
				res = true
			}
			for _, e := range append(append([]Ext{}, spec.Exts...), g.globalExts...) {
				if e.Callee == callee && e.MayPanic {
					res = true
				}
			}
			isExt := false
			for _, e := range append(append([]Ext{}, spec.Exts...), g.globalExts...) {
				if e.Callee == callee {
					isExt = true
				}
				if i := strings.IndexByte(callee, '.'); i > 0 && e.Callee == "_"+callee[i:] {
					isExt = true
				}
			}
			if fi, _ := g.lookupFn(p, x, nil); !isExt && fi != nil && fi.mayPanic {
				res = true
			}
		}
		return true
	})
	return res
}

func mutatesBody(p *pkgInfo, g *gen, spec *FnSpec, fd *ast.FuncDecl, recvName string) bool {
	if recvName == "" || fd.Recv == nil {
		return false
	}
	if _, ptr := fd.Recv.List[0].Type.(*ast.StarExpr); !ptr {
		return false
	}
	res := false
	rooted := func(e ast.Expr) bool {
		for {
			switch x := e.(type) {
			case *ast.SelectorExpr:
				e = x.X
			case *ast.Ident:
				return x.Name == recvName
			default:
				return false
			}
		}
	}
	ast.Inspect(fd.Body, func(n ast.Node) bool {
		switch x := n.(type) {
		case *ast.AssignStmt:
			for _, l := range x.Lhs {
				if _, ok := l.(*ast.SelectorExpr); ok && rooted(l) {
					res = true
				}
			}
		case *ast.IncDecStmt:
			if _, ok := x.X.(*ast.SelectorExpr); ok && rooted(x.X) {
				res = true
			}
		case *ast.CallExpr:
			callee := calleeText(p, x.Fun, recvName)
			for _, e := range append(append([]Ext{}, spec.Exts...), g.globalExts...) {
				if e.Callee == callee && e.Effect != "" {
					res = true
				}
			}
			isExt := false
			for _, e := range append(append([]Ext{}, spec.Exts...), g.globalExts...) {
				if e.Callee == callee {
					isExt = true
				}
			}
			if fi, recvExpr := g.lookupFn(p, x, nil); !isExt && fi != nil && fi.mutates && recvExpr != nil && rooted(recvExpr) {
				res = true
			}
		}
		return true
	})
	return res
}

// ---------------------------------------------------------------------------------------------------
// generator

type gen struct {
	repo       string
	pkgs       map[string]*pkgInfo
	structs    []StructSpec
	structByGo map[string]*StructSpec // "pkgname.Type"
	opaque     map[string]T
	fns        []*fnInfo
	fnByKey    map[string]*fnInfo // pkg|recv|func
	globalExts []Ext
	curTypes   map[string]T
	curOptIn   map[string]bool
	out        bytes.Buffer
	report     []map[string]any
}

func (ss *StructSpec) typeExpr() string {
	if ss.LeanT != "" {
		return ss.LeanT
	}
	return ss.Lean
}

func (g *gen) field(leanStruct, goField string) *FieldSpec {
	for i := range g.structs {
		if g.structs[i].typeExpr() == leanStruct {
			for j := range g.structs[i].Fields {
				if g.structs[i].Fields[j].Go == goField {
					return &g.structs[i].Fields[j]
				}
			}
		}
	}
	return nil
}

// lookupFn: is the call a call of a configured function?  returns its info and the receiver expression
func (g *gen) lookupFn(p *pkgInfo, c *ast.CallExpr, t *tr) (*fnInfo, ast.Expr) {
	rel := g.relOf(p)
	switch f := c.Fun.(type) {
	case *ast.Ident:
		if fi := g.fnByKey[rel+"||"+f.Name]; fi != nil {
			return fi, nil
		}
	case *ast.SelectorExpr:
		ty := p.info.Types[f.X].Type
		if ty == nil {
			if id, ok := f.X.(*ast.Ident); ok {
				if o := p.info.Uses[id]; o != nil {
					ty = o.Type()
				}
			}
		}
		if ty == nil {
			return nil, nil
		}
		if pt, ok := ty.(*types.Pointer); ok {
			ty = pt.Elem()
		}
		if nt, ok := ty.(*types.Named); ok {
			if fi := g.fnByKey[rel+"|"+nt.Obj().Name()+"|"+f.Sel.Name]; fi != nil {
				return fi, f.X
			}
		}
	}
	return nil, nil
}

func (g *gen) relOf(p *pkgInfo) string {
	for rel, q := range g.pkgs {
		if q == p {
			return rel
		}
	}
	return ""
}

func (g *gen) pkg(rel string) *pkgInfo {
	if p, ok := g.pkgs[rel]; ok {
		return p
	}
	name := "rux"
	if rel != "" {
		name = filepath.Base(rel)
	}
	p, err := loadPkg(g.repo, rel, name)
	if err != nil {
		fmt.Fprintln(os.Stderr, "go2lean:", err)
		os.Exit(1)
	}
	g.pkgs[rel] = p
	return p
}

func (g *gen) emitStructs() {
	for i := range g.structs {
		ss := &g.structs[i]
		var p *pkgInfo
		var st *ast.StructType
		if !ss.External {
			p = g.pkg(ss.Pkg)
			st = p.findStruct(ss.Go)
		}
		fmt.Fprintf(&g.out, "/-- Go `%s` (modelled fields only) -/\nstructure %s %s where\n", ss.Go, ss.Lean, ss.Params)
		for _, f := range ss.Fields {
			if ss.External {
				fmt.Fprintf(&g.out, "  %s : %s\n", f.Lean, f.T.Lean)
				continue
			}
			got := "<missing>"
			if st != nil {
				for _, fl := range st.Fields.List {
					for _, n := range fl.Names {
						if n.Name == f.Go {
							got = p.text(fl.Type)
						}
					}
				}
			}
			if got != f.GoType {
				// the declared type changed: make every use fail to type-check
				fmt.Fprintf(&g.out, "  %s : GoRt.Untranslatable  -- Go type is `%s`, the configuration expects `%s`\n", f.Lean, got, f.GoType)
				g.report = append(g.report, map[string]any{"struct": ss.Go, "field": f.Go, "problem": "type " + got + " != " + f.GoType})
				continue
			}
			if d, ok := ss.Defaults[f.Lean]; ok {
				fmt.Fprintf(&g.out, "  %s : %s := %s\n", f.Lean, f.T.Lean, d)
			} else {
				fmt.Fprintf(&g.out, "  %s : %s\n", f.Lean, f.T.Lean)
			}
		}
		for _, e := range ss.Extra {
			fmt.Fprintf(&g.out, "  %s\n", e)
		}
		der := ss.Derive
		if der == "" {
			der = "DecidableEq, Repr, Inhabited"
		}
		fmt.Fprintf(&g.out, "  deriving %s\n\n", der)
		if ss.Params != "" {
			fmt.Fprintf(&g.out, "variable {%s}\n\n", strings.Trim(ss.Params, "()"))
		}
		if ss.Setters {
			for _, f := range ss.Fields {
				fmt.Fprintf(&g.out, "def %s.set_%s (c : %s) (v : %s) : %s := { c with %s := v }\n", ss.Lean, f.Lean, ss.typeExpr(), f.T.Lean, ss.typeExpr(), f.Lean)
			}
			fmt.Fprintln(&g.out)
		}
	}
}

func (g *gen) translate(fi *fnInfo) {
	spec := fi.spec
	g.curTypes = spec.Types
	g.curOptIn = map[string]bool{}
	for _, n := range spec.UseStructs {
		g.curOptIn[n] = true
	}
	defer func() { g.curTypes = nil; g.curOptIn = nil }()
	p := g.pkg(spec.Pkg)
	fd := p.findFunc(spec.Recv, spec.Func)
	name := spec.Func
	if spec.Recv != "" {
		name = spec.Recv + "." + spec.Func
	}
	if fd == nil || fd.Body == nil {
		fmt.Fprintf(&g.out, "/-- `%s`: not found in the source -/\ndef %s : GoRt.Untranslatable := ⟨\"function not found\"⟩\n\n", name, spec.Lean)
		g.report = append(g.report, map[string]any{"func": name, "problem": "not found"})
		return
	}
	outer := fd
	if spec.Inner {
		fd = innerClosure(fd)
		if fd == nil {
			fmt.Fprintf(&g.out, "/-- `%s`: does not just return a closure any more -/\ndef %s : GoRt.Untranslatable := ⟨\"not a closure constructor\"⟩\n\n", name, spec.Lean)
			g.report = append(g.report, map[string]any{"func": name, "problem": "not a closure constructor"})
			return
		}
	}
	t := &tr{g: g, p: p, spec: spec, fd: fd, declared: map[string]int{}, ltypes: map[string]string{}, alias: map[string]string{}}
	ast.Inspect(fd.Body, func(n ast.Node) bool {
		if _, ok := n.(*ast.ForStmt); ok {
			t.hasLoop = true
		}
		return true
	})
	if fd.Recv != nil && len(fd.Recv.List[0].Names) == 1 {
		t.recvName = fd.Recv.List[0].Names[0].Name
	}
	t.mayPanic = mayPanicBody(p, g, spec, fd, t.recvName) || t.hasLoop
	t.mutates = !spec.NoRecv && (spec.Mutates || mutatesBody(p, g, spec, fd, t.recvName))
	fi.mayPanic, fi.mutates, fi.hasLoop = t.mayPanic, t.mutates, t.hasLoop
	src := p.text(outer)
	var header string
	func() {
		defer func() {
			if r := recover(); r != nil {
				u, ok := r.(unsupported)
				if !ok {
					panic(r)
				}
				fi.ok = false
				fmt.Fprintf(&g.out, "/-- `%s` could not be translated: %s\n```go\n%s\n```\n-/\ndef %s : GoRt.Untranslatable := ⟨%q⟩\n\n",
					name, escDoc(u.why), escDoc(src), spec.Lean, u.why)
				g.report = append(g.report, map[string]any{"func": name, "problem": u.why})
			}
		}()
		t.push()
		var params []string
		if t.recvName != "" && !spec.NoRecv {
			rt := g.goT(t.typeOf(fd.Recv.List[0].Names[0]))
			if rt.Kind != "struct" && rt.Kind != "opaque" {
				t.fail(fd, "receiver type is not configured")
			}
			t.recvT = rt
			fi.recvT = rt
			l := t.declare(t.recvName)
			params = append(params, fmt.Sprintf("(%s : %s)", l, rt.Lean))
		}
		assigned := assignedIdents(fd.Body)
		var muts []string
		mutT := map[string]string{}
		if t.mutates {
			l, _ := t.lookup(t.recvName)
			muts = append(muts, l)
			mutT[l] = t.recvT.Lean
		}
		if fd.Type.Params != nil {
			for _, f := range fd.Type.Params.List {
				for _, n := range f.Names {
					ty := g.goT(t.typeOf(n))
					// a variadic parameter is a slice inside the function
					if ty.Kind == "bad" {
						t.fail(f, "parameter %s of unsupported type %s", n.Name, p.text(f.Type))
					}
					l := t.declare(n.Name)
					params = append(params, fmt.Sprintf("(%s : %s)", l, ty.Lean))
					fi.params = append(fi.params, ty)
					forced := false
					for _, mp := range spec.MutParams {
						if mp == n.Name {
							forced = true
						}
					}
					if assigned[n.Name] || forced {
						muts = append(muts, l)
						mutT[l] = ty.Lean
					}
				}
			}
		}
		var implicit []string
		for _, e := range spec.Extra {
			if strings.HasPrefix(e, "{") {
				implicit = append(implicit, e)
			} else {
				params = append(params, e)
			}
		}
		params = append(implicit, params...)
		if fd.Type.Results != nil {
			for _, f := range fd.Type.Results.List {
				ty := g.goT(p.info.Types[f.Type].Type)
				if ty.Kind == "bad" {
					t.fail(f, "result of unsupported type %s", p.text(f.Type))
				}
				k := len(f.Names)
				if k == 0 {
					k = 1
				}
				for i := 0; i < k; i++ {
					t.results = append(t.results, ty)
				}
				for _, n := range f.Names {
					t.named = append(t.named, n.Name)
				}
			}
		}
		fi.results = t.results
		var rts []string
		rts = append(rts, spec.RetExtraT...)
		if t.mutates {
			rts = append(rts, t.recvT.Lean)
		}
		for _, r := range t.results {
			rts = append(rts, r.Lean)
		}
		rt := "Unit"
		if len(rts) > 0 {
			rt = strings.Join(rts, " × ")
		}
		monad := "Id.run do"
		if t.hasLoop {
			rt = "Except Panic (Option (" + rt + "))"
			monad = "do"
		} else if t.mayPanic {
			rt = "Except Panic (" + rt + ")"
			monad = "do"
		}
		t.binders = strings.Join(params, " ")
		for _, m := range binderRe.FindAllStringSubmatch(t.binders, -1) {
			t.bnames = append(t.bnames, strings.Fields(m[1])...)
		}
		if t.hasLoop {
			params = append(params, "(fuel : Nat)")
		}
		header = fmt.Sprintf("def %s %s : %s := %s", spec.Lean, strings.Join(params, " "), rt, monad)
		t.ind = 1
		for _, m := range muts {
			t.emit("let mut %s := %s", m, m)
			t.ltypes[m] = mutT[m]
			t.order = append(t.order, m)
		}
		for _, l := range spec.Prologue {
			t.emit("%s", l)
			if m := prologueRe.FindStringSubmatch(l); m != nil {
				t.locals[len(t.locals)-1][m[1]] = m[1]
				t.ltypes[m[1]] = strings.TrimSpace(m[2])
				t.order = append(t.order, m[1])
			}
		}
		for i, n := range t.named {
			t.emit("let mut %s : %s := %s", t.declareT(n, t.results[i].Lean), t.results[i].Lean, zeroOf(t.results[i]))
		}
		bodyStmts := fd.Body.List
		if spec.DeferRecover {
			cond, retName, recBody := matchDeferRecover(bodyStmts)
			if recBody == nil {
				t.fail(fd, "the function does not start with the expected deferred recover block")
			}
			c := "true"
			if cond != nil {
				c, _ = t.expr(cond)
			}
			t.emit("let hasRecover : Bool := %s", c)
			t.emit("let b : %s := Id.run do", rt)
			t.ind++
			t.push()
			vis := t.visibleMuts()
			for _, v := range vis {
				t.emit("let mut %s := %s", v, v)
			}
			for _, st := range bodyStmts[1:] {
				t.stmt(st)
			}
			if len(bodyStmts) == 1 || !endsInReturn(bodyStmts[len(bodyStmts)-1]) {
				t.emit("return %s", t.retValue(nil))
			}
			t.pop()
			t.ind--
			// the state after the body
			var parts []string
			parts = append(parts, spec.RetExtra...)
			if t.mutates {
				l, _ := t.lookup(t.recvName)
				parts = append(parts, l)
			}
			for i, part := range parts {
				for _, v := range vis {
					if v == part {
						t.emit("%s := b%s", v, projection(i, len(parts)))
					}
				}
			}
			t.emit("if hasRecover then")
			t.emit("  if let some %s := b%s then", retName, projection(spec.PnIndex, len(parts)))
			t.ind += 2
			t.push()
			t.locals[len(t.locals)-1][retName] = retName
			t.ltypes[retName] = "Panic"
			for _, st := range recBody {
				t.stmt(st)
			}
			t.emit("return %s", t.retValue(nil))
			t.pop()
			t.ind -= 2
			t.emit("return b")
			bodyStmts = nil
		}
		for _, s := range bodyStmts {
			t.stmt(s)
		}
		// implicit return at the end
		if spec.DeferRecover {
			// already returned
		} else if len(fd.Body.List) == 0 || !endsInReturn(fd.Body.List[len(fd.Body.List)-1]) {
			var vals []string
			for _, n := range t.named {
				l, _ := t.lookup(n)
				vals = append(vals, l)
			}
			if len(t.results) > 0 && len(t.named) == 0 {
				t.fail(fd, "missing return")
			}
			if t.hasLoop {
				t.emit("return some %s", t.retValue(vals))
			} else {
				t.emit("return %s", t.retValue(vals))
			}
		}
		fi.ok = true
		for _, a := range t.aux {
			fmt.Fprintf(&g.out, "%s\n", a)
		}
		fmt.Fprintf(&g.out, "/--\n```go\n%s\n```\n-/\n%s\n%s\n\n", escDoc(src), header, strings.Join(t.lines, "\n"))
		g.report = append(g.report, map[string]any{"func": name, "lean": "Rux.Gen." + spec.Lean, "mayPanic": t.mayPanic, "mutatesReceiver": t.mutates, "lines": len(t.lines)})
	}()
}

// innerClosure: `func F(a..) T { return [conv(]func(b..) R { body }[)] }` as the function `F(a.., b..) R { body }`
func innerClosure(fd *ast.FuncDecl) *ast.FuncDecl {
	if fd.Body == nil || len(fd.Body.List) != 1 {
		return nil
	}
	rs, ok := fd.Body.List[0].(*ast.ReturnStmt)
	if !ok || len(rs.Results) != 1 {
		return nil
	}
	e := rs.Results[0]
	if c, ok := e.(*ast.CallExpr); ok && len(c.Args) == 1 {
		e = c.Args[0]
	}
	fl, ok := e.(*ast.FuncLit)
	if !ok {
		return nil
	}
	params := &ast.FieldList{}
	if fd.Type.Params != nil {
		params.List = append(params.List, fd.Type.Params.List...)
	}
	if fl.Type.Params != nil {
		params.List = append(params.List, fl.Type.Params.List...)
	}
	return &ast.FuncDecl{Name: fd.Name, Type: &ast.FuncType{Params: params, Results: fl.Type.Results}, Body: fl.Body}
}

// matchDeferRecover: `[if cond {] defer func() { if ret := recover(); ret != nil { body } }() [}]` as first statement
func matchDeferRecover(stmts []ast.Stmt) (cond ast.Expr, ret string, body []ast.Stmt) {
	if len(stmts) == 0 {
		return nil, "", nil
	}
	first := stmts[0]
	if is, ok := first.(*ast.IfStmt); ok && is.Init == nil && is.Else == nil && len(is.Body.List) == 1 {
		cond = is.Cond
		first = is.Body.List[0]
	}
	ds, ok := first.(*ast.DeferStmt)
	if !ok || len(ds.Call.Args) != 0 {
		return nil, "", nil
	}
	fl, ok := ds.Call.Fun.(*ast.FuncLit)
	if !ok || len(fl.Body.List) != 1 {
		return nil, "", nil
	}
	inner, ok := fl.Body.List[0].(*ast.IfStmt)
	if !ok || inner.Else != nil {
		return nil, "", nil
	}
	as, ok := inner.Init.(*ast.AssignStmt)
	if !ok || as.Tok != token.DEFINE || len(as.Lhs) != 1 || len(as.Rhs) != 1 {
		return nil, "", nil
	}
	call, ok := as.Rhs[0].(*ast.CallExpr)
	if !ok {
		return nil, "", nil
	}
	if id, ok := call.Fun.(*ast.Ident); !ok || id.Name != "recover" {
		return nil, "", nil
	}
	id, ok := as.Lhs[0].(*ast.Ident)
	if !ok {
		return nil, "", nil
	}
	be, ok := inner.Cond.(*ast.BinaryExpr)
	if !ok || be.Op != token.NEQ {
		return nil, "", nil
	}
	if x, ok := be.X.(*ast.Ident); !ok || x.Name != id.Name {
		return nil, "", nil
	}
	if y, ok := be.Y.(*ast.Ident); !ok || y.Name != "nil" {
		return nil, "", nil
	}
	return cond, id.Name, inner.Body.List
}

var prologueRe = regexp.MustCompile(`^let mut (\w+)\s*(?::([^=]*))?:=`)

var binderRe = regexp.MustCompile(`\(([^:(){}]+):`)

func zeroOf(t T) string {
	if strings.HasPrefix(t.Lean, "Option ") {
		return "none"
	}
	return t.zero()
}

func escDoc(s string) string { return strings.ReplaceAll(strings.ReplaceAll(s, "-/", "-∕"), "/-", "∕-") }

func endsInReturn(s ast.Stmt) bool {
	switch x := s.(type) {
	case *ast.ReturnStmt:
		return true
	case *ast.ExprStmt:
		if c, ok := x.X.(*ast.CallExpr); ok {
			if id, ok := c.Fun.(*ast.Ident); ok && id.Name == "panic" {
				return true
			}
		}
	case *ast.TypeSwitchStmt:
		// a type switch with a default clause all of whose clauses end in a return
		hasDef := false
		for _, cc := range x.Body.List {
			c := cc.(*ast.CaseClause)
			if c.List == nil {
				hasDef = true
			}
			if len(c.Body) == 0 || !endsInReturn(c.Body[len(c.Body)-1]) {
				return false
			}
		}
		return hasDef
	}
	return false
}

// the translated functions of a struct that is used through a pointer elsewhere keep their own receiver type

func assignedIdents(b *ast.BlockStmt) map[string]bool {
	res := map[string]bool{}
	ast.Inspect(b, func(n ast.Node) bool {
		switch x := n.(type) {
		case *ast.AssignStmt:
			for _, l := range x.Lhs {
				if id, ok := l.(*ast.Ident); ok {
					res[id.Name] = true
				}
			}
		case *ast.IncDecStmt:
			if id, ok := x.X.(*ast.Ident); ok {
				res[id.Name] = true
			}
		}
		return true
	})
	return res
}

func sourceHash(repo string) string {
	h := sha256.New()
	_ = filepath.Walk(repo, func(path string, fi os.FileInfo, err error) error {
		if err != nil {
			return nil
		}
		if fi.IsDir() && (fi.Name() == ".git" || fi.Name() == "testdata" || fi.Name() == "_examples") {
			return filepath.SkipDir
		}
		if !fi.IsDir() && strings.HasSuffix(path, ".go") && !strings.HasSuffix(path, "_test.go") {
			b, _ := os.ReadFile(path)
			rel, _ := filepath.Rel(repo, path)
			fmt.Fprintf(h, "%s\x00%d\x00", rel, len(b))
			h.Write(b)
		}
		return nil
	})
	self, _ := os.Executable()
	if b, err := os.ReadFile(self); err == nil {
		h.Write(b)
	}
	return fmt.Sprintf("%x", h.Sum(nil))
}

func main() {
	repo := flag.String("repo", "/repo", "repository root")
	out := flag.String("out", "", "Code.lean output")
	js := flag.String("json", "", "report (json)")
	flag.Parse()
	hash := sourceHash(*repo)
	if *out != "" {
		// the translation is a function of the sources (and of this program): keep an up-to-date file
		if b, err := os.ReadFile(*out); err == nil && strings.Contains(string(b), "source_hash: "+hash+"\n") {
			if _, err := os.Stat(*js); *js == "" || err == nil {
				fmt.Println("go2lean: sources unchanged, keeping", *out)
				return
			}
		}
	}
	g := &gen{repo: *repo, pkgs: map[string]*pkgInfo{}, structByGo: map[string]*StructSpec{}, opaque: map[string]T{},
		fnByKey: map[string]*fnInfo{}}
	configure(g)
	for i := range g.structs {
		pn := "rux"
		if g.structs[i].Pkg != "" {
			pn = filepath.Base(g.structs[i].Pkg)
		}
		g.structByGo[pn+"."+g.structs[i].Go] = &g.structs[i]
	}
	for _, fi := range g.fns {
		g.fnByKey[fi.spec.Pkg+"|"+fi.spec.Recv+"|"+fi.spec.Func] = fi
	}
	fmt.Fprintf(&g.out, "-- source_hash: %s\n%s", hash, preamble)
	g.emitStructs()
	for _, fi := range g.fns {
		g.translate(fi)
	}
	fmt.Fprintf(&g.out, "end Rux.Gen\n")
	if *out != "" {
		if err := os.WriteFile(*out, g.out.Bytes(), 0o644); err != nil {
			fmt.Fprintln(os.Stderr, err)
			os.Exit(1)
		}
	} else {
		os.Stdout.Write(g.out.Bytes())
	}
	if *js != "" {
		b, _ := json.MarshalIndent(map[string]any{"source_hash": hash, "functions": g.report}, "", " ")
		_ = os.WriteFile(*js, b, 0o644)
	}
	bad := 0
	for _, r := range g.report {
		if r["problem"] != nil {
			bad++
			fmt.Fprintf(os.Stderr, "go2lean: %v%v: %v\n", r["func"], r["struct"], r["problem"])
		}
	}
	fmt.Printf("go2lean: %d functions translated, %d problems\n", len(g.fns)-bad, bad)
}

const preamble = `/-
  GENERATED by go/go2lean from /repo's working tree on every check run — do not edit.
  Each definition is the translation of one Go function (source in the doc comment).
  Conventions: Go strings are byte lists; ` + "`int`" + ` is an unbounded Int, ` + "`int8`" + ` arithmetic is wrapped explicitly
  (GoRt.wrap8); string indexing / slicing and explicit panics are ` + "`Except Panic`" + `; a method with a pointer
  receiver that writes to it returns the new receiver first.
-/
import RuxModel.Go.Rt
import RuxModel.Generated.Facts
set_option linter.unusedVariables false
namespace Rux.Gen
open Rux

`
