package main

// The functions of /repo that are translated, in dependency order (callees first), the struct types they
// work on and the operations that are modelled rather than translated.

func configure(g *gen) {
	kvT := T{"opaque", "List (Bytes × Bytes)"}
	g.structs = []StructSpec{
		// extends.go: the URL builder.  `queries` (url.Values) is the list of the pairs added so far, `params` (M) the
		// association list of the path parameters (values already turned into strings: `goutil.String` is not modelled)
		{Go: "BuildRequestURL", Lean: "BRU", OptIn: true, Derive: "Repr, Inhabited", Fields: []FieldSpec{
			{"queries", "url.Values", "queries", kvT},
			{"params", "M", "params", kvT},
			{"path", "string", "path", tStr},
			{"scheme", "string", "scheme", tStr},
			{"host", "string", "host", tStr},
			{"user", "*url.Userinfo", "user", T{"opaque", "Option Nat"}},
		}},
		// pkg/render: the renderer values
		{Pkg: "pkg/binding", Go: "FormBinder", Lean: "FormB", OptIn: true, Derive: "Repr, Inhabited", Fields: []FieldSpec{{"TagName", "string", "tagName", tStr}}},
		{Pkg: "pkg/binding", Go: "QueryBinder", Lean: "QueryB", OptIn: true, Derive: "Repr, Inhabited", Fields: []FieldSpec{{"TagName", "string", "tagName", tStr}}},
		{Pkg: "pkg/binding", Go: "HeaderBinder", Lean: "HeaderB", OptIn: true, Derive: "Repr, Inhabited", Fields: []FieldSpec{{"TagName", "string", "tagName", tStr}}},
		{Pkg: "pkg/render", Go: "JSONRenderer", Lean: "JSONR", OptIn: true, Derive: "Repr, Inhabited", Fields: []FieldSpec{
			{"Indent", "string", "indent", tStr},
			{"NotEscape", "bool", "notEscape", tBool},
		}},
		{Pkg: "pkg/render", Go: "JSONPRenderer", Lean: "JSONPR", OptIn: true, Derive: "Repr, Inhabited", Fields: []FieldSpec{
			{"Callback", "string", "callback", tStr},
		}},
		{Pkg: "pkg/render", Go: "XMLRenderer", Lean: "XMLR", OptIn: true, Derive: "Repr, Inhabited", Fields: []FieldSpec{
			{"Indent", "string", "indent", tStr},
		}},
		{Pkg: "net/url", Go: "URL", Lean: "URL", External: true, OptIn: true, Derive: "Repr, Inhabited", Fields: []FieldSpec{
			{"Scheme", "string", "scheme", tStr},
			{"User", "*Userinfo", "user", T{"opaque", "Option Nat"}},
			{"Host", "string", "host", tStr},
			{"Path", "string", "path", tStr},
			{"RawQuery", "string", "rawQuery", tStr},
		}},
		{Go: "responseWriter", Lean: "RW", Fields: []FieldSpec{
			{"status", "int", "status", tInt},
			{"length", "int", "length", tInt},
		}, Extra: []string{"log : List GoRt.WEv := []"}},
		// `ghost` is not a field of the Go struct: it lets an instantiation of the handler-call parameter of
		// `Next` keep a record (e.g. the trace of handler events) next to the context
		{Go: "Context", Lean: "Ctx", Params: "(γ : Type)", LeanT: "Ctx γ", Setters: true, Fields: []FieldSpec{
			{"index", "int8", "index", tInt8},
			{"writer", "responseWriter", "writer", T{"struct", "RW"}},
			{"Req", "*http.Request", "req", T{"opaque", "Option Nat"}},           // nil or the identity of a request
			{"Params", "Params", "params", T{"opaque", "Option GoRt.KV"}},        // nil or a map
			{"data", "map[string]any", "data", T{"opaque", "Option GoRt.Data"}},  // nil or a map
			{"Errors", "[]error", "errors", T{"opaque", "List Nat"}},             // the recorded errors (identities)
			{"handlers", "HandlersChain", "handlers", T{"opaque", "List Unit"}}, // only the length matters here
		}, Extra: []string{"respOwn : Bool := true", "ghost : γ"}},
		// route_cache.go: container/list and the map are the abstract data types GoRt.LList (elements with
		// identity, front first) and GoRt.HMap (key -> element)
		{Go: "cachedRoutes", Lean: "CR", Params: "(ρ : Type)", LeanT: "CR ρ", Derive: "Inhabited", Fields: []FieldSpec{
			{"size", "int", "size", tInt},
			{"list", "*list.List", "list", T{"opaque", "GoRt.LList ρ"}},
			{"hashMap", "map[string]*list.Element", "hashMap", T{"opaque", "GoRt.HMap"}},
		}},
		{Go: "Router", Lean: "Router", Fields: []FieldSpec{
			{"strictLastSlash", "bool", "strictLastSlash", tBool},
			{"interceptAll", "string", "interceptAll", tStr},
			{"handleFallbackRoute", "bool", "handleFallbackRoute", tBool},
			{"handleMethodNotAllowed", "bool", "handleMethodNotAllowed", tBool},
			{"enableCaching", "bool", "enableCaching", tBool},
			{"useEncodedPath", "bool", "useEncodedPath", tBool},
			{"counter", "int", "counter", tInt},
			{"currentGroupPrefix", "string", "currentGroupPrefix", tStr},
			{"currentGroupHandlers", "HandlersChain", "currentGroupHandlers", T{"opaque", "List Nat"}}, // handler identities
			{"handlers", "HandlersChain", "handlers", T{"opaque", "List Nat"}},
			{"noRoute", "HandlersChain", "noRoute", T{"opaque", "List Nat"}},
			{"noAllowed", "HandlersChain", "noAllowed", T{"opaque", "List Nat"}},
			{"maxNumCaches", "uint16", "maxNumCaches", tInt},
			{"cachedRoutes", "*cachedRoutes", "cachedRoutes", T{"opaque", "Option Nat"}}, // nil or the identity of a cache container
		}, Defaults: map[string]string{"noRoute": "[]", "noAllowed": "[]", "maxNumCaches": "0", "cachedRoutes": "none"}},
		// route.go (opt-in: elsewhere a *Route is an opaque value of the lookup environment)
		{Go: "Route", Lean: "Route", OptIn: true, Fields: []FieldSpec{
			{"name", "string", "name", tStr},
			{"path", "string", "path", tStr},
			{"methods", "[]string", "methods", tStrList},
			{"handler", "HandlerFunc", "handler", T{"opaque", "Option Nat"}},
			{"handlers", "HandlersChain", "handlers", T{"opaque", "List Nat"}},
			{"matches", "[]string", "matches_", tStrList},
			{"start", "string", "start", tStr},
			{"spath", "string", "spath", tStr},
			{"regex", "*regexp.Regexp", "regex", T{"opaque", "Option Bytes"}}, // nil or the source text of the compiled regexp
			{"params", "Params", "params", T{"opaque", "Option GoRt.KV"}},     // nil or a map (only set on the copies in the route cache)
		}, Defaults: map[string]string{"params": "none"}},
	}
	g.opaque["error"] = T{"opaque", "Bool"} // true = a non-nil error
	g.opaque["http.ResponseWriter"] = T{"opaque", "Unit"}
	g.opaque["http.Request"] = T{"opaque", "Option Nat"}
	g.opaque["rux.Route"] = T{"opaque", "Option ρ"}  // *Route: nil or a route of the abstract type ρ
	g.opaque["rux.Params"] = T{"opaque", "Option π"} // Params (a map): nil or a value of the abstract type π
	g.opaque["rux.HandlersChain"] = T{"opaque", "List Nat"} // handlers are identities here
	g.opaque["[]rux.HandlerFunc"] = T{"opaque", "List Nat"}
	g.opaque["rux.HandlerFunc"] = T{"opaque", "Option Nat"}
	g.globalExts = []Ext{
		{Callee: "anyMethods", Value: "Rux.Facts.anyMethodsB", T: tStrList},
		{Callee: "debugPrint", Ignore: true},
	}
	add := func(s FnSpec) { sp := s; g.fns = append(g.fns, &fnInfo{spec: &sp}) }

	// utils.go
	add(FnSpec{Func: "isFixedPath", Lean: "isFixedPath"})
	add(FnSpec{Func: "simpleFmtPath", Lean: "simpleFmtPath"})
	add(FnSpec{Func: "quotePointChar", Lean: "quotePointChar"})
	add(FnSpec{Func: "formatMethods", Lean: "formatMethods"})
	add(FnSpec{Func: "formatMethodsWithDefault", Lean: "formatMethodsWithDefault"})
	// router.go
	add(FnSpec{Recv: "Router", Func: "formatPath", Lean: "Router.formatPath"})
	// parse_match.go: the decision list of QuickMatch over abstract lookups.  `r.match`, `r.findAllowedMethods`
	// and the static table are operations of an environment over an abstract state σ (the route cache changes
	// when a dynamic route is matched), threaded in call order.
	add(FnSpec{Recv: "Router", Func: "QuickMatch", Lean: "Router.QuickMatch",
		Extra:    []string{"{σ ρ π : Type}", "(env : GoRt.QMEnv σ ρ π)", "(s0 : σ)"},
		Prologue: []string{"let mut s := s0"}, RetExtra: []string{"s"}, RetExtraT: []string{"σ"},
		Exts: []Ext{
			{Callee: "$.match", Stmts: []string{"let %t := env.match_ s %1 %2", "s := %t.2"},
				Values: []string{"%t.1.1", "%t.1.2"}, Ts: []T{{"opaque", "Option ρ"}, {"opaque", "Option π"}}},
			{Callee: "$.findAllowedMethods", Stmts: []string{"let %t := env.findAllowed s %1 %2", "s := %t.2"},
				Value: "%t.1", T: tStrList},
			{Callee: "$.stableRoutes[]", Value: "(env.stable s %1)", T: T{"opaque", "Option ρ"}},
		}})
	// utils.go `parseAccept`: the media types of an Accept header, in order, parameters cut off, empty items dropped
	// (both separators are one byte long: strings.Split is the prelude's splitOnByte, which the gostr engine compares with Go)
	add(FnSpec{Func: "parseAccept", Lean: "parseAccept", Types: map[string]T{"[]string": tStrList},
		Exts: []Ext{{Callee: "strings.Split", Value: "(Bytes.splitOnByte ((%2).headD 0) %1)", T: tStrList}}})
	// rux.go: the method list as the API hands it out (`anyMethods` is the extracted fact)
	amExt := []Ext{{Callee: "anyMethods", Value: "Rux.Facts.anyMethodsB", T: tStrList}}
	add(FnSpec{Func: "AnyMethods", Lean: "AnyMethods", Exts: amExt})
	add(FnSpec{Func: "AllMethods", Lean: "AllMethods", Exts: amExt})
	add(FnSpec{Func: "MethodsString", Lean: "MethodsString", Exts: amExt})
	// parse_match.go `Match`: QuickMatch on the upper-cased method (the state threading of QuickMatch is passed on)
	add(FnSpec{Recv: "Router", Func: "Match", Lean: "Router.Match",
		Extra:    []string{"{σ ρ π : Type}", "(env : GoRt.QMEnv σ ρ π)", "(s0 : σ)"},
		Prologue: []string{"let mut s := s0"}, RetExtra: []string{"s"}, RetExtraT: []string{"σ"},
		Exts: []Ext{
			{Callee: "$.QuickMatch", Stmts: []string{"let %t ← Gen.Router.QuickMatch $ %1 %2 env s", "s := %t.1"},
				Values: []string{"%t.2.1", "%t.2.2.1", "%t.2.2.2"}, Ts: []T{{"opaque", "Option ρ"}, {"opaque", "Option π"}, tStrList}, MayPanic: true},
		}})
	// parse_match.go / utils.go / route.go: pattern compilation.  `parseParamRoute` rewrites the route path step by step
	// into the source text of the route's regexp.  Parameters: `findAll` (varRegex.FindAllString), `replacer`
	// (strings.NewReplacer(olds/news...).Replace), `gv` (the package-level map globalVars as it stands),
	// `mustCompile` (regexp.MustCompile: panics or not) and `numSubexp` ((*Regexp).NumSubexp of the compiled text).
	// The compiled regexp is represented by its source text.
	ppTypes := map[string]T{"*regexp.Regexp": {"opaque", "Option Bytes"}, "map[string]string": {"opaque", "List (Bytes × Bytes)"}}
	add(FnSpec{Func: "checkAndParseOptional", Lean: "checkAndParseOptional",
		Extra: []string{"(replacer : List Bytes → Bytes → Bytes)"},
		Exts: []Ext{{Callee: "strings.NewReplacer(\"[\", \"(?:\", \"]\", \")?\").Replace",
			Value: "(replacer [([0x5B] : Bytes), ([0x28, 0x3F, 0x3A] : Bytes), ([0x5D] : Bytes), ([0x29, 0x3F] : Bytes)] %1)", T: tStr}}})
	add(FnSpec{Func: "getGlobalVar", Lean: "getGlobalVar", Extra: []string{"(gv : List (Bytes × Bytes))"}, Types: ppTypes,
		Exts: []Ext{{Callee: "globalVars[]", Values: []string{"(GoRt.mapGet gv %1).1", "(GoRt.mapGet gv %1).2"}, Ts: []T{tStr, tBool}}}})
	add(FnSpec{Recv: "Route", Func: "goodRegexString", Lean: "Route.goodRegexString", UseStructs: []string{"Route"}})
	add(FnSpec{Recv: "Route", Func: "goodRegexGroups", Lean: "Route.goodRegexGroups", UseStructs: []string{"Route"}, Types: ppTypes,
		Extra: []string{"(numSubexp : Option Bytes → Int)"},
		Exts:  []Ext{{Callee: "$.regex.NumSubexp", Value: "(numSubexp $.regex)", T: tInt}}})
	add(FnSpec{Recv: "Router", Func: "parseParamRoute", Lean: "Router.parseParamRoute", NoRecv: true, UseStructs: []string{"Route"}, Types: ppTypes,
		MonadicIf: true, Hoist: true,
		MutParams: []string{"route"}, RetExtra: []string{"route"}, RetExtraT: []string{"Route"},
		Extra: []string{"(findAll : Bytes → List Bytes)", "(replacer : List Bytes → Bytes → Bytes)", "(gv : List (Bytes × Bytes))",
			"(mustCompile : Bytes → Except Panic Unit)", "(numSubexp : Option Bytes → Int)"},
		Exts: []Ext{
			{Callee: "varRegex.FindAllString", Value: "(findAll %1)", T: tStrList},
			{Callee: "regexp.MustCompile", Stmts: []string{"let _ ← mustCompile %1"}, Value: "(some %1)", T: T{"opaque", "Option Bytes"}, MayPanic: true},
			{Callee: "strings.NewReplacer(rawVar...).Replace", Value: "(replacer rawVar %1)", T: tStr},
			{Callee: "strings.NewReplacer(varRegex...).Replace", Value: "(replacer varRegex %1)", T: tStr},
		}})
	// router.go: Resource — the REST table.  The controller is what `reflect` shows of it (`GoRt.Ctrl`), the router is
	// the list of registration calls made on it (`GoRt.ResEv`); the closure handed to `Group` is translated in place
	// between the two group events; the action table `RESTFulActions` (a map) is the list of its pairs `actions`, visited
	// in the order `ord`
	kvh := T{"opaque", "List (Bytes × List Nat)"}
	add(FnSpec{Recv: "Router", Func: "Resource", Lean: "Router.Resource", NoRecv: true, Hoist: true,
		Extra: []string{"(an : GoRt.ActNames)", "(actions : List (Bytes × List Bytes))", "(ord : List (Bytes × List Bytes) → List (Bytes × List Bytes))"},
		Prologue: []string{"let mut ev : List GoRt.ResEv := []"}, RetExtra: []string{"ev"}, RetExtraT: []string{"List GoRt.ResEv"},
		MapOrder: "ord",
		Types: map[string]T{"any": {"opaque", "GoRt.Ctrl"}, "reflect.Value": {"opaque", "GoRt.Ctrl"}, "reflect.Type": {"opaque", "GoRt.Ctrl"},
			"map[string][]rux.HandlerFunc": kvh, "map[string][]string": {"opaque", "List (Bytes × List Bytes)"},
			"[]rux.HandlerFunc": {"opaque", "List Nat"}, "*rux.Route": {"opaque", "Unit"}, "func(*rux.Context)": {"opaque", "Unit"},
			"func() map[string][]rux.HandlerFunc": {"opaque", "Option (List (Bytes × List Nat))"}},
		Exts: []Ext{
			{Callee: "reflect.ValueOf", Value: "%1", T: T{"opaque", "GoRt.Ctrl"}},
			{Callee: "cv.Type", Value: "cv", T: T{"opaque", "GoRt.Ctrl"}},
			{Callee: "cv.Kind", Value: "cv.kind", T: tInt},
			{Callee: "cv.Elem().Type().Kind", Value: "cv.elemKind", T: tInt},
			{Callee: "ct.Elem().Name", Value: "ct.typeName", T: tStr},
			{Callee: "make(map[string][]HandlerFunc)", Value: "[]", T: kvh},
			{Callee: "cv.MethodByName", Value: "(cv.method %1)", T: T{"opaque", "GoRt.CMeth"}},
			{Callee: "_.IsValid", Value: "(%1).valid", T: tBool},
			{Callee: "_.Interface().(func() map[string][]HandlerFunc)", Values: []string{"(%1).uses", "(%1).uses.isSome"}, Ts: []T{{"opaque", "Option (List (Bytes × List Nat))"}, tBool}},
			{Callee: "uses", Value: "(uses.getD [])", T: kvh},
			{Callee: "_.Interface().(func(*Context))", Values: []string{"()", "(%1).isAction"}, Ts: []T{{"opaque", "Unit"}, tBool}},
			{Callee: "RESTFulActions", Value: "actions", T: T{"opaque", "List (Bytes × List Bytes)"}},
			{Callee: "IndexAction", Value: "an.index", T: tStr}, {Callee: "CreateAction", Value: "an.create", T: tStr},
			{Callee: "StoreAction", Value: "an.store", T: tStr}, {Callee: "ShowAction", Value: "an.show_", T: tStr},
			{Callee: "EditAction", Value: "an.edit", T: tStr}, {Callee: "UpdateAction", Value: "an.update", T: tStr},
			{Callee: "DeleteAction", Value: "an.delete", T: tStr},
			{Callee: "$.Group", InlineArg: 2, Stmts: []string{"ev := ev ++ [GoRt.ResEv.groupEnter %1 %3]"}, After: []string{"ev := ev ++ [GoRt.ResEv.groupLeave]"}},
			{Callee: "$.AddNamed", Stmts: []string{"ev := ev ++ [GoRt.ResEv.addNamed %1 %2 %4]"}, Value: "()", T: T{"opaque", "Unit"}},
			{Callee: "handlerFuncs[]", Values: []string{"(GoRt.kvhGet handlerFuncs %1).1", "(GoRt.kvhGet handlerFuncs %1).2"}, Ts: []T{{"opaque", "List Nat"}, tBool}},
			{Callee: "route.Use", Stmts: []string{"ev := ev ++ [GoRt.ResEv.use routeName %1]"}},
		}})
	// router.go `Controller`: one group (prefix, middleware) inside which the controller's `AddRoutes(r)` runs
	add(FnSpec{Recv: "Router", Func: "Controller", Lean: "Router.Controller", NoRecv: true,
		Prologue: []string{"let mut ev : List GoRt.ResEv := []"}, RetExtra: []string{"ev"}, RetExtraT: []string{"List GoRt.ResEv"},
		Types: map[string]T{"rux.ControllerFace": {"opaque", "Nat"}, "[]rux.HandlerFunc": {"opaque", "List Nat"}},
		Exts: []Ext{
			{Callee: "$.Group", InlineArg: 2, Stmts: []string{"ev := ev ++ [GoRt.ResEv.groupEnter %1 %3]"}, After: []string{"ev := ev ++ [GoRt.ResEv.groupLeave]"}},
			{Callee: "r", Value: "()", T: T{"opaque", "Unit"}}, // the router itself, handed to AddRoutes
			{Callee: "controller.AddRoutes", Stmts: []string{"ev := ev ++ [GoRt.ResEv.addRoutes controller]"}},
		}})
	// router.go: the static-file registrations.  The router is the list of `GET(pattern, handler)` calls made on it;
	// the handler closures and the net/http file servers they close over are opaque (their behaviour is the model's
	// `Mount`, compared by the `static` engine)
	for _, n := range []string{"StaticFile", "StaticFunc", "StaticFS", "StaticDir", "StaticFiles"} {
		add(FnSpec{Recv: "Router", Func: n, Lean: "Router." + n, NoRecv: true, OpaqueClosures: true,
			Prologue: []string{"let mut ev : List Bytes := []"}, RetExtra: []string{"ev"}, RetExtraT: []string{"List Bytes"},
			Types: map[string]T{"http.FileSystem": {"opaque", "Unit"}, "http.Handler": {"opaque", "Unit"}, "func(c *rux.Context)": {"opaque", "Unit"},
				"rux.HandlerFunc": {"opaque", "Unit"}, "http.Dir": {"opaque", "Unit"}},
			Exts: []Ext{
				{Callee: "http.StripPrefix", Value: "()", T: T{"opaque", "Unit"}},
				{Callee: "http.FileServer", Value: "()", T: T{"opaque", "Unit"}},
				{Callee: "http.Dir", Value: "()", T: T{"opaque", "Unit"}},
				{Callee: "$.GET", Stmts: []string{"ev := ev ++ [%1]"}},
			}})
	}
	// route.go: the constructors and the naming API.  The router's name index is an association list (first binding
	// = the live one)
	add(FnSpec{Func: "NewRoute", Lean: "NewRoute", UseStructs: []string{"Route"}, Types: map[string]T{"rux.HandlerFunc": {"opaque", "Option Nat"}}})
	add(FnSpec{Func: "NewNamedRoute", Lean: "NewNamedRoute", UseStructs: []string{"Route"}, Types: map[string]T{"rux.HandlerFunc": {"opaque", "Option Nat"}}})
	add(FnSpec{Recv: "Route", Func: "NamedTo", Lean: "Route.NamedTo", UseStructs: []string{"Route"}, Mutates: true,
		Extra: []string{"(idx : List (Bytes × Route))"}, RetExtra: []string{"idx"}, RetExtraT: []string{"List (Bytes × Route)"},
		Prologue: []string{"let mut idx : List (Bytes × Route) := idx"},
		Types: map[string]T{"*rux.Router": {"opaque", "Unit"}},
		Exts: []Ext{{Callee: "router.namedRoutes[]=", Stmts: []string{"idx := (%1, %2) :: idx"}}}})
	// parse_match.go: findAllowedMethods — the other methods under which the path matches.  The Go map used as a set
	// is the list of its keys; the order in which `range` visits them is the parameter `ord`
	add(FnSpec{Recv: "Router", Func: "findAllowedMethods", Lean: "Router.findAllowedMethods",
		Extra:    []string{"{σ ρ π : Type}", "(env : GoRt.QMEnv σ ρ π)", "(anyMethods : List Bytes)", "(ord : List Bytes → List Bytes)", "(s0 : σ)"},
		Prologue: []string{"let mut s : σ := s0"}, RetExtra: []string{"s"}, RetExtraT: []string{"σ"},
		Types: map[string]T{"map[string]int": tStrList}, MapOrder: "ord",
		Exts: []Ext{
			{Callee: "anyMethods", Value: "anyMethods", T: tStrList},
			{Callee: "mMap[]=", Stmts: []string{"mMap := GoRt.setInsert mMap %1"}},
			{Callee: "$.match", Stmts: []string{"let %t := env.match_ s %1 %2", "s := %t.2"},
				Values: []string{"%t.1.1", "%t.1.2"}, Ts: []T{{"opaque", "Option ρ"}, {"opaque", "Option π"}}},
		}})
	// router.go / rux.go: construction-time configuration.  Options are opaque functions (identities) applied through
	// the parameter `applyOpt`; `NewCachedRoutes(n)` yields the identity `newCache n` of a fresh container.
	optT := map[string]T{"[]func(*rux.Router)": {"opaque", "List Nat"}, "func(*rux.Router)": {"opaque", "Nat"}}
	add(FnSpec{Recv: "Router", Func: "WithOptions", Lean: "Router.WithOptions", Mutates: true, Types: optT,
		Extra: []string{"(applyOpt : Nat → Router → Router)", "(newCache : Int → Nat)"},
		Exts: []Ext{
			{Callee: "opt", Effect: "applyOpt opt $"},
			{Callee: "NewCachedRoutes", Value: "(some (newCache %1))", T: T{"opaque", "Option Nat"}},
		}})
	add(FnSpec{Recv: "Router", Func: "NotFound", Lean: "Router.NotFound"})
	add(FnSpec{Recv: "Router", Func: "NotAllowed", Lean: "Router.NotAllowed"})
	add(FnSpec{Recv: "Router", Func: "Handlers", Lean: "Router.Handlers"})
	for _, n := range []string{"UseEncodedPath", "EnableCaching", "StrictLastSlash", "HandleFallbackRoute", "HandleMethodNotAllowed"} {
		add(FnSpec{Func: n, Lean: "Opt." + n, MutParams: []string{"r"}, RetExtra: []string{"r"}, RetExtraT: []string{"Router"}})
	}
	for _, n := range []string{"InterceptAll", "MaxNumCaches", "CachingWithNum"} {
		add(FnSpec{Func: n, Lean: "Opt." + n, Inner: true, MutParams: []string{"r"}, RetExtra: []string{"r"}, RetExtraT: []string{"Router"}})
	}
	// middleware.go: the six adapters that turn a std http.Handler / http.HandlerFunc into a rux handler.  The context is
	// the list of calls made with it: (the std handler, its first argument, its second argument)
	wcT := map[string]T{"*rux.Context": {"opaque", "List (Nat × GoRt.CArg × GoRt.CArg)"}, "http.Handler": {"opaque", "Nat"}, "http.HandlerFunc": {"opaque", "Nat"}}
	wcExts := []Ext{
		{Callee: "c.Resp", Value: "GoRt.CArg.resp", T: T{"opaque", "GoRt.CArg"}},
		{Callee: "c.Req", Value: "GoRt.CArg.req", T: T{"opaque", "GoRt.CArg"}},
		{Callee: "gh.ServeHTTP", Stmts: []string{"c := c ++ [(gh, %1, %2)]"}},
		{Callee: "hf", Stmts: []string{"c := c ++ [(hf, %1, %2)]"}},
	}
	for _, n := range []string{"WrapHTTPHandler", "WrapHTTPHandlerFunc"} {
		add(FnSpec{Func: n, Lean: n, Inner: true, MutParams: []string{"c"}, RetExtra: []string{"c"},
			RetExtraT: []string{"List (Nat × GoRt.CArg × GoRt.CArg)"}, Types: wcT, Exts: wcExts})
	}
	hfFn := map[string]T{"rux.HandlerFunc": {"opaque", "(List (Nat × GoRt.CArg × GoRt.CArg) → List (Nat × GoRt.CArg × GoRt.CArg))"},
		"http.Handler": {"opaque", "Nat"}, "http.HandlerFunc": {"opaque", "Nat"}}
	for _, n := range []string{"WrapH", "HTTPHandler", "WrapHF", "HTTPHandlerFunc"} {
		add(FnSpec{Func: n, Lean: n, Types: hfFn})
	}
	add(FnSpec{Recv: "HandlersChain", Func: "Last", Lean: "HandlersChain.Last",
		Types: map[string]T{"rux.HandlersChain": {"opaque", "List Nat"}, "rux.HandlerFunc": {"opaque", "Option Nat"}}})
	// middleware.go `combineHandlers`: a NEW slice of the exact size, filled by two `copy` calls
	add(FnSpec{Func: "combineHandlers", Lean: "combineHandlers"})
	// route.go: what the route cache stores — `copyWithParams` (a copy of the route without the compiled pattern, with a
	// CLONE of the matched params) and `Params.clone`; the order in which `range` visits the map is the parameter `ord`
	add(FnSpec{Recv: "Params", Func: "clone", Lean: "Params.clone", Extra: []string{"(ord : GoRt.KV → GoRt.KV)"}, MapOrder: "ord",
		Types: map[string]T{"rux.Params": {"opaque", "Option GoRt.KV"}},
		Exts: []Ext{{Callee: "make(Params)", Value: "(some [])", T: T{"opaque", "Option GoRt.KV"}},
			{Callee: "np[]=", Stmts: []string{"np := GoRt.kvSetO np %1 %2"}}}})
	add(FnSpec{Recv: "Route", Func: "copyWithParams", Lean: "Route.copyWithParams", UseStructs: []string{"Route"}, Extra: []string{"(ord : GoRt.KV → GoRt.KV)"},
		Types: map[string]T{"rux.Params": {"opaque", "Option GoRt.KV"}}})
	// parse_match.go: `cacheDynamicRoute` — what a successful dynamic lookup puts into the route cache (the cache is the
	// abstract state σ with its `Set` operation)
	add(FnSpec{Recv: "Router", Func: "cacheDynamicRoute", Lean: "Router.cacheDynamicRoute", UseStructs: []string{"Route"},
		Extra:    []string{"{σ : Type}", "(cacheSet : σ → Bytes → Route → σ)", "(ord : GoRt.KV → GoRt.KV)", "(s0 : σ)"},
		Prologue: []string{"let mut s : σ := s0"}, RetExtra: []string{"s"}, RetExtraT: []string{"σ"},
		Types: map[string]T{"rux.Params": {"opaque", "Option GoRt.KV"}},
		Exts: []Ext{{Callee: "$.cachedRoutes.Set", Stmts: []string{"s := cacheSet s %1 %2"}}}})
	// extends.go: the constructor and the setters of BuildRequestURL (each returns the builder itself)
	bruT := map[string]T{"rux.M": kvT, "url.Values": kvT, "any": tStr}
	add(FnSpec{Func: "NewBuildRequestURL", Lean: "NewBRU", UseStructs: []string{"BuildRequestURL"}, Types: bruT,
		Exts: []Ext{{Callee: "make(url.Values)", Value: "([] : List (Bytes × Bytes))", T: kvT}, {Callee: "make(M)", Value: "([] : List (Bytes × Bytes))", T: kvT}}})
	for _, n := range []string{"Queries", "Params", "Scheme", "Host", "Path"} {
		add(FnSpec{Recv: "BuildRequestURL", Func: n, Lean: "BRU." + n, UseStructs: []string{"BuildRequestURL"}, Types: bruT})
	}
	// extends.go: BuildRequestURL.Build — arguments with a brace in the key are path parameters, the others query
	// parameters; every `{…}` of the path (found by `varRegex`: parameter `findAll`) is replaced in ONE pass
	// (`strings.NewReplacer`: parameter `replacer`) by the parameter stored under `{name}` (the regex of `{name:regex}`
	// stripped).  The argument map M is the list of its pairs, visited in the order `ordKV`.
	add(FnSpec{Recv: "BuildRequestURL", Func: "Build", Lean: "BRU.Build", UseStructs: []string{"BuildRequestURL", "URL"},
		Extra: []string{"(ordKV : List (Bytes × Bytes) → List (Bytes × Bytes))", "(encode : List (Bytes × Bytes) → Bytes)",
			"(findAll : Bytes → List Bytes)", "(replacer : List Bytes → Bytes → Bytes)"},
		Types: map[string]T{"rux.M": kvT, "any": tStr, "url.Values": kvT}, MapOrder: "ordKV", Mutates: true,
		Exts: []Ext{
			{Callee: "goutil.String", Value: "%1", T: tStr},
			{Callee: "$.queries.Add", Effect: "{ $ with queries := $.queries ++ [(%1, %2)] }"},
			{Callee: "$.params[]=", Effect: "{ $ with params := GoRt.kvSet $.params %1 %2 }"},
			{Callee: "$.params[]", Value: "(GoRt.kvGetD $.params %1)", T: tStr},
			{Callee: "$.queries.Encode", Value: "(encode $.queries)", T: tStr},
			{Callee: "varRegex.FindAllString", Value: "(findAll %1)", T: tStrList},
			{Callee: "strings.NewReplacer(oldNews...).Replace", Value: "(replacer oldNews %1)", T: tStr},
		}})
	// route.go `Route.ToURL`: the arguments of BuildURL — nothing, ONE builder or ONE map, or key/value pairs — become the
	// builder and the parameter map handed to `Build`.  An argument is `GoRt.UArg` (a builder, a map, or any other value;
	// `strOf` is `goutil.String`)
	add(FnSpec{Recv: "Route", Func: "ToURL", Lean: "Route.ToURL", UseStructs: []string{"Route", "BuildRequestURL", "URL"},
		Extra: []string{"(ordKV : List (Bytes × Bytes) → List (Bytes × Bytes))", "(encode : List (Bytes × Bytes) → Bytes)",
			"(findAll : Bytes → List Bytes)", "(replacer : List Bytes → Bytes → Bytes)", "(strOf : GoRt.UArg BRU → Bytes)"},
		Types: map[string]T{"rux.M": kvT, "url.Values": kvT, "any": {"opaque", "GoRt.UArg BRU"}, "[]any": {"opaque", "List (GoRt.UArg BRU)"}},
		TypeCases: map[string]TypeCase{"*BuildRequestURL": {Ctor: ".builder", T: T{"struct", "BRU"}, Bind: "tsB"}, "M": {Ctor: ".m", T: kvT, Bind: "tsM"}},
		Exts: []Ext{
			{Callee: "buildArgs[0].(*BuildRequestURL)", Value: "tsB", T: T{"struct", "BRU"}},
			{Callee: "buildArgs[0].(M)", Value: "tsM", T: kvT},
			{Callee: "make(M)", Value: "([] : List (Bytes × Bytes))", T: kvT},
			{Callee: "withParams[]=", Stmts: []string{"withParams := GoRt.kvSet withParams %1 (strOf %2)"}},
			{Callee: "goutil.String", Value: "(strOf %1)", T: tStr},
		}})
	// router.go `GetRoute` / route.go `BuildURL`: the name index is the list `idx` of (name, route) pairs, newest first
	// (what `NamedTo` and `appendRoute` write); an unknown name panics in BuildURL
	add(FnSpec{Recv: "Router", Func: "GetRoute", Lean: "Router.GetRoute", NoRecv: true, UseStructs: []string{"Route"},
		Extra: []string{"(idx : List (Bytes × Route))"},
		Types: map[string]T{"*rux.Route": {"opaque", "Option Route"}},
		Exts:  []Ext{{Callee: "$.namedRoutes[]", Value: "((idx.find? (fun x => x.1 == %1)).map (·.2))", T: T{"opaque", "Option Route"}}}})
	for _, n := range []string{"BuildURL", "BuildRequestURL"} {
		add(FnSpec{Recv: "Router", Func: n, Lean: "Router." + n, NoRecv: true, UseStructs: []string{"Route", "BuildRequestURL", "URL"},
			Extra: []string{"(idx : List (Bytes × Route))", "(ordKV : List (Bytes × Bytes) → List (Bytes × Bytes))", "(encode : List (Bytes × Bytes) → Bytes)",
				"(findAll : Bytes → List Bytes)", "(replacer : List Bytes → Bytes → Bytes)", "(strOf : GoRt.UArg BRU → Bytes)", "(fuel : Nat)"},
			Types: map[string]T{"rux.M": kvT, "url.Values": kvT, "any": {"opaque", "GoRt.UArg BRU"}, "[]any": {"opaque", "List (GoRt.UArg BRU)"}, "*rux.Route": {"opaque", "Option Route"},
				"*url.URL": {"opaque", "Option URL"}}, // nil = the argument loop of ToURL ran out of fuel (never with enough fuel)
			Exts: []Ext{
				{Callee: "$.GetRoute", Value: "(Gen.Router.GetRoute %1 idx)", T: T{"opaque", "Option Route"}},
				{Callee: "route.ToURL", Stmts: []string{"let %t ← (match route with | some rt => Gen.Route.ToURL rt %1 ordKV encode findAll replacer strOf fuel | none => throw Panic.nil)"}, Value: "%t", T: T{"opaque", "Option URL"}, MayPanic: true},
				{Callee: "$.BuildURL", Stmts: []string{"let %t ← Gen.Router.BuildURL %1 %2 idx ordKV encode findAll replacer strOf fuel"}, Value: "%t", T: T{"opaque", "Option URL"}, MayPanic: true},
			}})
	}
	// route_cache.go
	elem := T{"opaque", "Option Nat"} // *list.Element / *cacheNode: nil or the identity of a list element
	crExts := []Ext{
		{Callee: "$.lock.Lock", Ignore: true}, {Callee: "$.lock.Unlock", Ignore: true},
		{Callee: "$.lock.RLock", Ignore: true}, {Callee: "$.lock.RUnlock", Ignore: true},
		{Callee: "$.hashMap[]", Value: "($.hashMap.get %1)", T: elem},
		{Callee: "$.hashMap[]=", Effect: "{ $ with hashMap := $.hashMap.set %1 %2 }"},
		{Callee: "delete($.hashMap)", Effect: "{ $ with hashMap := $.hashMap.del %1 }"},
		{Callee: "$.list.MoveToFront", Effect: "{ $ with list := $.list.moveToFront %1 }"},
		{Callee: "$.list.Remove", Effect: "{ $ with list := $.list.remove %1 }"},
		{Callee: "$.list.PushFront", Stmts: []string{"let %t := $.list.pushFront %1", "$ := { $ with list := %t.1 }"}, Value: "%t.2", T: elem},
		{Callee: "$.list.Len", Value: "$.list.len", T: tInt},
		{Callee: "$.list.Back", Value: "$.list.back", T: elem},
		{Callee: "_.Value.(*cacheNode)", Value: "%1", T: elem},
		{Callee: "_.Value=", Effect: "{ $ with list := $.list.setVal %1 %2 }"},
		{Callee: "_.Value", Value: "($.list.valOf %1)", T: T{"opaque", "Option ρ"}},
		{Callee: "_.Key", Value: "($.list.keyOf %1)", T: tStr},
	}
	add(FnSpec{Func: "NewCachedRoutes", Lean: "NewCR", Extra: []string{"{ρ : Type}"}, Exts: []Ext{
		{Callee: "list.New", Value: "({} : GoRt.LList ρ)", T: T{"opaque", "GoRt.LList ρ"}},
		{Callee: "make(map[string]*list.Element)", Value: "({} : GoRt.HMap)", T: T{"opaque", "GoRt.HMap"}},
		{Callee: "lit.lock", Ignore: true},
	}})
	add(FnSpec{Recv: "cachedRoutes", Func: "Len", Lean: "CR.Len", Exts: crExts})
	add(FnSpec{Recv: "cachedRoutes", Func: "Set", Lean: "CR.Set", Exts: crExts, Mutates: true})
	add(FnSpec{Recv: "cachedRoutes", Func: "Get", Lean: "CR.Get", Exts: crExts, Mutates: true})
	add(FnSpec{Recv: "cachedRoutes", Func: "Delete", Lean: "CR.Delete", Exts: crExts, Mutates: true})
	add(FnSpec{Recv: "cachedRoutes", Func: "Has", Lean: "CR.Has", Exts: crExts, Mutates: true})
	// parse_match.go: the three-tier lookup `Router.match` over abstract tables (static map, route cache, the two
	// maps of route lists), abstract routes ρ and params π; `rs[i].matchRegex`, `route.params.clone`,
	// `r.cacheDynamicRoute` are operations of the environment
	route := T{"opaque", "ρ"}
	add(FnSpec{Recv: "Router", Func: "match", Lean: "Router.match_",
		Extra:    []string{"{σ ρ π : Type}", "(env : GoRt.MEnv σ ρ π)", "(s0 : σ)"},
		Prologue: []string{"let mut s := s0"}, RetExtra: []string{"s"}, RetExtraT: []string{"σ"},
		Exts: []Ext{
			{Callee: "$.stableRoutes[]", Value: "(env.stable s %1)", T: T{"opaque", "Option ρ"}},
			{Callee: "$.cachedRoutes.Get", Stmts: []string{"let %t := env.cacheGet s %1", "s := %t.2"},
				Values: []string{"%t.1.1", "%t.1.2"}, Ts: []T{{"opaque", "Option ρ"}, tBool}},
			{Callee: "_.params.clone", Value: "(env.paramsClone %1)", T: T{"opaque", "Option π"}},
			{Callee: "$.regularRoutes[]", Values: []string{"(env.regular s %1).1", "(env.regular s %1).2"}, Ts: []T{{"opaque", "List ρ"}, tBool}},
			{Callee: "$.irregularRoutes[]", Values: []string{"(env.irregular s %1).1", "(env.irregular s %1).2"}, Ts: []T{{"opaque", "List ρ"}, tBool}},
			{Callee: "_.start", Value: "(env.start %1)", T: tStr},
			{Callee: "_.matchRegex", Values: []string{"(env.matchRegex %1 %2).1", "(env.matchRegex %1 %2).2"}, Ts: []T{{"opaque", "Option π"}, tBool}},
			{Callee: "$.cacheDynamicRoute", Stmts: []string{"s := env.cacheDynamic s %1 %2 %3"}},
		}})
	_ = route
	// router.go: the table-insertion part of `appendRoute` over abstract tables; the checks and the compilation of
	// the pattern (goodInfo, appendGroupInfo, parseParamRoute) are operations of the environment that may panic
	// and that update the route
	add(FnSpec{Recv: "Router", Func: "appendRoute", Lean: "Router.appendRoute",
		Extra:    []string{"{σ ρ : Type}", "(env : GoRt.AEnv σ ρ)", "(s0 : σ)"},
		Prologue: []string{"let mut s := s0"}, RetExtra: []string{"s"}, RetExtraT: []string{"σ"},
		Types: map[string]T{"*rux.Route": {"opaque", "ρ"}, "rux.routes": {"opaque", "List ρ"}}, MutParams: []string{"route"},
		Exts: []Ext{
			{Callee: "_.goodInfo", Stmts: []string{"let %t ← env.goodInfo %1"}, MayPanic: true},
			{Callee: "$.appendGroupInfo", Stmts: []string{"let %t ← env.appendGroupInfo s %1", "s := %t.1", "route := %t.2"}, MayPanic: true},
			{Callee: "debugPrintRoute", Ignore: true},
			{Callee: "_.name", Value: "(env.name %1)", T: tStr},
			{Callee: "_.path", Value: "(env.path %1)", T: tStr},
			{Callee: "_.methods", Value: "(env.methods %1)", T: tStrList},
			{Callee: "$.namedRoutes[]=", Stmts: []string{"s := env.setNamed s %1 %2"}},
			{Callee: "$.parseParamRoute", Stmts: []string{"let %t ← env.parseParam s %1", "route := %t.2"}, Value: "%t.1", T: tStr, MayPanic: true},
			{Callee: "$.stableRoutes[]=", Stmts: []string{"s := env.setStable s %1 %2"}},
			{Callee: "$.regularRoutes[]", Values: []string{"(env.getRegular s %1).1", "(env.getRegular s %1).2"}, Ts: []T{{"opaque", "List ρ"}, tBool}},
			{Callee: "$.irregularRoutes[]", Values: []string{"(env.getIrregular s %1).1", "(env.getIrregular s %1).2"}, Ts: []T{{"opaque", "List ρ"}, tBool}},
			{Callee: "$.regularRoutes[]=", Stmts: []string{"s := env.setRegular s %1 %2"}},
			{Callee: "$.irregularRoutes[]=", Stmts: []string{"s := env.setIrregular s %1 %2"}},
		}})
	// router.go / middleware.go / route.go: groups, Use, the handler limit, the definition checks
	add(FnSpec{Recv: "Router", Func: "Group", Lean: "Router.Group",
		Types: map[string]T{"func()": {"opaque", "Router → Except Panic Router"}},
		Exts: []Ext{
			// the callback registers routes / opens sub-groups on the same router; a panic inside it propagates
			{Callee: "register", Stmts: []string{"let %t ← register $", "$ := %t"}, MayPanic: true},
			// a fresh slice holding old ++ new (that it is fresh — no aliasing — is C12_no_alias' business)
			{Callee: "combineHandlers", Value: "(%1 ++ %2)", T: T{"opaque", "List Nat"}},
		}})
	add(FnSpec{Recv: "Router", Func: "appendGroupInfo", Lean: "Router.appendGroupInfo", UseStructs: []string{"Route"},
		MutParams: []string{"route"}, RetExtra: []string{"route"}, RetExtraT: []string{"Route"},
		Exts: []Ext{{Callee: "combineHandlers", Value: "(%1 ++ %2)", T: T{"opaque", "List Nat"}}}})
	add(FnSpec{Recv: "Router", Func: "Use", Lean: "Router.Use"})
	add(FnSpec{Recv: "Route", Func: "Use", Lean: "Route.Use", UseStructs: []string{"Route"}})
	// route.go: the getters of Route and of Params
	for _, n := range []string{"Name", "Path", "Methods", "MethodString", "Handler", "Handlers"} {
		add(FnSpec{Recv: "Route", Func: n, Lean: "Route." + n, UseStructs: []string{"Route"}, Types: map[string]T{"rux.HandlerFunc": {"opaque", "Option Nat"}}})
	}
	pT := map[string]T{"rux.Params": {"opaque", "Option GoRt.KV"}}
	pExts := []Ext{{Callee: "$[]", Values: []string{"(GoRt.kvGetO $ %1).1", "(GoRt.kvGetO $ %1).2"}, Ts: []T{tStr, tBool}}}
	add(FnSpec{Recv: "Params", Func: "Has", Lean: "Params.Has", Types: pT, Exts: pExts})
	add(FnSpec{Recv: "Params", Func: "String", Lean: "Params.String", Types: pT, Exts: pExts})
	// router.go: the registration entry points.  `appendRoute` (checks, group info, pattern compilation, table insertion —
	// translated and tied on its own) is the parameter `appendRoute`: it may panic and returns the router and the route as
	// it left them.  `GET` … `CONNECT`, `Add`, `AddNamed`, `Any` build the route with the generated constructors.
	arExtra := []string{"(appendRoute : Router → Route → Except Panic (Router × Route))", "(newCache : Int → Nat)"}
	arExts := []Ext{
		{Callee: "$.appendRoute", Stmts: []string{"let %t ← appendRoute $ %1", "$ := %t.1", "%1 := %t.2"}, MayPanic: true},
		{Callee: "NewCachedRoutes", Value: "(some (newCache %1))", T: T{"opaque", "Option Nat"}},
		{Callee: "anyMethods", Value: "Rux.Facts.anyMethodsB", T: tStrList},
	}
	hfT := map[string]T{"rux.HandlerFunc": {"opaque", "Option Nat"}}
	add(FnSpec{Recv: "Router", Func: "AddRoute", Lean: "Router.AddRoute", UseStructs: []string{"Route"}, Mutates: true,
		MutParams: []string{"route"}, Extra: arExtra, Exts: arExts, Types: hfT})
	for _, n := range []string{"Add", "AddNamed", "Any", "GET", "HEAD", "POST", "PUT", "PATCH", "TRACE", "OPTIONS", "DELETE", "CONNECT"} {
		add(FnSpec{Recv: "Router", Func: n, Lean: "Router." + n, UseStructs: []string{"Route"}, Mutates: true, Extra: arExtra, Exts: arExts, Types: hfT})
	}
	// route.go `AttachTo`: the route is handed to the router's AddRoute (router and route as they come back)
	add(FnSpec{Recv: "Route", Func: "AttachTo", Lean: "Route.AttachTo", UseStructs: []string{"Route", "Router"}, Mutates: true,
		MutParams: []string{"router"}, Extra: arExtra, RetExtra: []string{"router"}, RetExtraT: []string{"Router"},
		Exts: []Ext{{Callee: "router.AddRoute", Stmts: []string{"let %t ← Gen.Router.AddRoute router $ appendRoute newCache", "router := %t.1", "$ := %t.2"}, MayPanic: true}}})
	// route.go: matchRegex — the compiled regexp is a parameter (what FindAllStringSubmatch answers)
	add(FnSpec{Recv: "Route", Func: "matchRegex", Lean: "Route.matchRegex", UseStructs: []string{"Route"},
		Extra: []string{"(findAll : Bytes → List (List Bytes))"},
		Types: map[string]T{"rux.Params": {"opaque", "Option GoRt.KV"}, "[][]string": {"opaque", "List (List Bytes)"}},
		Exts: []Ext{
			{Callee: "$.regex.FindAllStringSubmatch", Value: "(findAll %1)", T: T{"opaque", "List (List Bytes)"}},
			{Callee: "make(Params)", Value: "(some [])", T: T{"opaque", "Option GoRt.KV"}},
			{Callee: "ps[]=", Stmts: []string{"ps := some (GoRt.kvSet (ps.getD []) %1 %2)"}},
		}})
	add(FnSpec{Recv: "Route", Func: "match", Lean: "Route.match_", UseStructs: []string{"Route"},
		Extra: []string{"(findAll : Bytes → List (List Bytes))"},
		Types: map[string]T{"rux.Params": {"opaque", "Option GoRt.KV"}},
		Exts: []Ext{{Callee: "$.matchRegex", Stmts: []string{"let %t ← Gen.Route.matchRegex $ %1 findAll"}, Values: []string{"%t.1", "%t.2"}, Ts: []T{{"opaque", "Option GoRt.KV"}, tBool}, MayPanic: true}}})
	add(FnSpec{Func: "isSupportedMethod", Lean: "isSupportedMethod"})
	add(FnSpec{Recv: "Route", Func: "goodInfo", Lean: "Route.goodInfo", UseStructs: []string{"Route"},
		Exts: []Ext{{Callee: "MethodsString", Value: "([] : Bytes)", T: tStr}}})
	// response_wirter.go
	add(FnSpec{Recv: "responseWriter", Func: "reset", Lean: "RW.reset", Exts: []Ext{
		// w.Writer = w2: a new underlying writer, nothing has reached it yet
		{Callee: "$.Writer=", Effect: "{ $ with log := [] }"},
	}})
	add(FnSpec{Recv: "responseWriter", Func: "Status", Lean: "RW.Status"})
	add(FnSpec{Recv: "responseWriter", Func: "Written", Lean: "RW.Written"})
	add(FnSpec{Recv: "responseWriter", Func: "Length", Lean: "RW.Length"})
	add(FnSpec{Recv: "responseWriter", Func: "WriteHeader", Lean: "RW.WriteHeader"})
	add(FnSpec{Recv: "responseWriter", Func: "ensureWriteHeader", Lean: "RW.ensureWriteHeader", Exts: []Ext{
		{Callee: "$.Writer.WriteHeader", Effect: "{ $ with log := $.log ++ [GoRt.WEv.writeHeader %1] }"},
	}})
	add(FnSpec{Recv: "responseWriter", Func: "Write", Lean: "RW.Write", Extra: []string{"(ext : Int × Bool)"}, Exts: []Ext{
		// n, err = w.Writer.Write(b): the underlying writer's answer is an input
		{Callee: "$.Writer.Write", Values: []string{"ext.1", "ext.2"}, Ts: []T{tInt, {"opaque", "Bool"}},
			Effect: "{ $ with log := $.log ++ [GoRt.WEv.write %1 ext.1 ext.2] }"},
	}})
	add(FnSpec{Recv: "responseWriter", Func: "Flush", Lean: "RW.Flush", Exts: []Ext{
		{Callee: "$.Writer.(http.Flusher).Flush", Effect: "{ $ with log := $.log ++ [GoRt.WEv.flush] }"},
	}})
	// context.go
	add(FnSpec{Recv: "Context", Func: "Abort", Lean: "Ctx.Abort"})
	add(FnSpec{Recv: "Context", Func: "IsAborted", Lean: "Ctx.IsAborted"})
	add(FnSpec{Recv: "Context", Func: "AbortThen", Lean: "Ctx.AbortThen"})
	// the per-request data map and error list: `c.data` is nil until the first Set; values are `GoRt.DV`, errors identities
	dataT := map[string]T{"any": {"opaque", "GoRt.DV"}, "error": {"opaque", "Option Nat"}, "map[string]any": {"opaque", "Option GoRt.Data"}}
	dataExts := []Ext{
		{Callee: "make(map[string]any)", Value: "(some ([] : GoRt.Data))", T: T{"opaque", "Option GoRt.Data"}},
		{Callee: "$.data[]=", Effect: "{ $ with data := GoRt.dataPut $.data %1 %2 }"},
		{Callee: "$.data[]", Values: []string{"(GoRt.dataGet $.data %1).1", "(GoRt.dataGet $.data %1).2"}, Ts: []T{{"opaque", "GoRt.DV"}, tBool}},
	}
	// `Copy`: a context for use after the request — the caller's fields except the chain (nil), the cursor (aborted) and
	// the writer below (`ctx.writer.Writer = nil`; `Resp` points at the copy's own writer)
	add(FnSpec{Recv: "Context", Func: "Copy", Lean: "Ctx.Copy", Exts: []Ext{
		{Callee: "ctx.writer.Writer=", Stmts: []string{"ctx := { ctx with writer := { ctx.writer with log := [] } }"}},
		{Callee: "ctx.Resp=&ctx.writer", Stmts: []string{"ctx := { ctx with respOwn := true }"}},
	}})
	add(FnSpec{Recv: "Context", Func: "Param", Lean: "Ctx.Param", Exts: []Ext{
		{Callee: "$.Params.String", Value: "(Gen.Params.String $.params %1)", T: tStr}}})
	add(FnSpec{Recv: "Context", Func: "AddError", Lean: "Ctx.AddError", Types: map[string]T{"error": {"opaque", "Option Nat"}}})
	add(FnSpec{Recv: "Context", Func: "FirstError", Lean: "Ctx.FirstError", Types: map[string]T{"error": {"opaque", "Option Nat"}}})
	for _, n := range []string{"Set", "Get", "SafeGet", "Data"} {
		add(FnSpec{Recv: "Context", Func: n, Lean: "Ctx." + n, Types: dataT, Exts: dataExts})
	}
	// AbortWithStatus: `c.Resp` is taken to be the context's own writer (`respOwn`; a handler that replaced c.Resp is
	// outside this translation); net/http.Error is its documented sequence on that writer: WriteHeader(code), then
	// one Write of msg + "\n" (the header map is not modelled here); the underlying writer's answer is an input
	add(FnSpec{Recv: "Context", Func: "AbortWithStatus", Lean: "Ctx.AbortWithStatus", Extra: []string{"(ext : Int × Bool)"},
		Types: map[string]T{"[]string": tStrList},
		Exts: []Ext{
			{Callee: "$.Resp.WriteHeader", Stmts: []string{"$ := { $ with writer := Gen.RW.WriteHeader $.writer %1 }"}},
			{Callee: "http.Error", Stmts: []string{"$ := { $ with writer := (Gen.RW.Write (Gen.RW.WriteHeader $.writer %3) (%2 ++ [0x0A]) ext).1 }"}},
			{Callee: "$.Resp", Value: "()", T: T{"opaque", "Unit"}},
		}, Mutates: true})
	// Next: the handler call `c.handlers[c.index](c)` is a parameter (`call fuel i c` = run handler i on c, with
	// `fuel` left for the Next() calls the handler makes; an index out of range is its panic, `none` = the
	// handler ran out of fuel)
	add(FnSpec{Recv: "Context", Func: "Next", Lean: "Ctx.Next",
		Extra: []string{"(call : Nat → Int → Ctx γ → Except Panic (Option (Ctx γ)))"},
		Exts: []Ext{
			{Callee: "$.handlers[c.index]", Stmts: []string{"let some %t ← call fuel $.index $ | return none", "$ := %t"}, MayPanic: true},
		}})
	// Reset / Init: `respOwn` records that c.Resp points to the context's own writer again
	resetExts := []Ext{
		{Callee: "$.Resp=&$.writer", Effect: "{ $ with respOwn := true }"},
		{Callee: "$.Resp=", Effect: "{ $ with respOwn := false }"},
	}
	add(FnSpec{Recv: "Context", Func: "Reset", Lean: "Ctx.Reset", Exts: resetExts})
	add(FnSpec{Recv: "Context", Func: "Init", Lean: "Ctx.Init", Exts: resetExts})
	// WriteBytes / WriteString: ONE Write on `c.Resp` (taken to be the context's own writer, as in AbortWithStatus), a
	// panic exactly when that Write reports an error; the underlying writer's answer is an input.  Nothing of the
	// request (its context.Context, its method) takes part.
	wbExts := []Ext{
		{Callee: "$.Resp.Write", Stmts: []string{"let %t := Gen.RW.Write $.writer %1 ext", "$ := { $ with writer := %t.1 }"},
			Values: []string{"%t.2.1", "%t.2.2"}, Ts: []T{tInt, {"opaque", "Bool"}}},
		{Callee: "panic(err)", Stmts: []string{"throw Panic.value"}, MayPanic: true},
	}
	add(FnSpec{Recv: "Context", Func: "WriteBytes", Lean: "Ctx.WriteBytes", Extra: []string{"(ext : Int × Bool)"}, Mutates: true,
		Types: map[string]T{"error": {"opaque", "Bool"}}, Exts: wbExts})
	add(FnSpec{Recv: "Context", Func: "WriteString", Lean: "Ctx.WriteString", Extra: []string{"(ext : Int × Bool)"}, Mutates: true,
		Exts: []Ext{{Callee: "$.WriteBytes", Stmts: []string{"$ ← Gen.Ctx.WriteBytes $ %1 ext"}, MayPanic: true}}})
	add(FnSpec{Recv: "Context", Func: "SetStatusCode", Lean: "Ctx.SetStatusCode"})
	// the request readers: the header map and the method of `c.Req` are parameters (`hdr req key` = the values under the
	// key as written, `hget req key` = Header.Get, `meth req` = the method)
	rqExtra := []string{"(hdr : Option Nat → Bytes → List Bytes)", "(hget : Option Nat → Bytes → Bytes)", "(meth : Option Nat → Bytes)"}
	rqExts := []Ext{
		{Callee: "$.Req.Header[]", Values: []string{"(hdr $.req %1)", "true"}, Ts: []T{tStrList, tBool}},
		{Callee: "$.Req.Header.Get", Value: "(hget $.req %1)", T: tStr},
		{Callee: "$.Req.Method", Value: "(meth $.req)", T: tStr},
		{Callee: "$.Header", Stmts: []string{"let %t ← Gen.Ctx.Header $ %1 hdr hget meth"}, Value: "%t", T: tStr, MayPanic: true},
	}
	for _, n := range []string{"Header", "IsAjax", "IsGet", "IsPost", "IsMethod", "IsWebSocket", "ContentType", "AcceptedTypes"} {
		add(FnSpec{Recv: "Context", Func: n, Lean: "Ctx." + n, Extra: rqExtra, Types: map[string]T{"[]string": tStrList}, Exts: rqExts})
	}
	// the body-form readers: ParseForm / ParseMultipartForm are net/http's (their errors are dropped by rux);
	// `post req key` = the values of `req.PostForm[key]` after both have run
	pfExtra := []string{"(post : Option Nat → Bytes → List Bytes)"}
	add(FnSpec{Recv: "Context", Func: "PostParams", Lean: "Ctx.PostParams", Extra: pfExtra, Types: map[string]T{"[]string": tStrList, "*http.Request": {"opaque", "Option Nat"}},
		Exts: []Ext{
			{Callee: "req.ParseForm", Value: "false", T: tBool},
			{Callee: "req.ParseMultipartForm", Value: "false", T: tBool},
			{Callee: "defaultMaxMemory", Value: "(0 : Int)", T: tInt},
			{Callee: "req.PostForm[]", Value: "(post req %1)", T: tStrList},
		}})
	add(FnSpec{Recv: "Context", Func: "PostParam", Lean: "Ctx.PostParam", Extra: pfExtra, Types: map[string]T{"[]string": tStrList}, Exts: []Ext{
		{Callee: "$.PostParams", Values: []string{"(Gen.Ctx.PostParams $ %1 post).1", "(Gen.Ctx.PostParams $ %1 post).2"}, Ts: []T{tStrList, tBool}}}})
	add(FnSpec{Recv: "Context", Func: "Post", Lean: "Ctx.Post", Extra: pfExtra, Types: map[string]T{"[]string": tStrList}, Exts: []Ext{
		{Callee: "$.PostParam", Stmts: []string{"let %t ← Gen.Ctx.PostParam $ %1 post"}, Values: []string{"%t.1", "%t.2"}, Ts: []T{tStr, tBool}, MayPanic: true}}})
	add(FnSpec{Recv: "Context", Func: "SetHandlers", Lean: "Ctx.SetHandlers", Mutates: true,
		Types: map[string]T{"rux.HandlersChain": {"opaque", "List Unit"}}})
	// the URL-query readers: `c.Req.URL.Query()` parses the raw query on EVERY call (a parameter: `query req key` = the
	// values of that parse under the key and whether the key is there); nothing is kept in the context
	qExtra := []string{"(query : Option Nat → Bytes → List Bytes × Bool)"}
	qT := map[string]T{"[]string": tStrList}
	add(FnSpec{Recv: "Context", Func: "QueryParams", Lean: "Ctx.QueryParams", Extra: qExtra, Types: qT, Exts: []Ext{
		{Callee: "$.Req.URL.Query()[]", Values: []string{"(query $.req %1).1", "(query $.req %1).2"}, Ts: []T{tStrList, tBool}}}})
	add(FnSpec{Recv: "Context", Func: "QueryParam", Lean: "Ctx.QueryParam", Extra: qExtra, Types: qT, Exts: []Ext{
		{Callee: "$.QueryParams", Values: []string{"(Gen.Ctx.QueryParams $ %1 query).1", "(Gen.Ctx.QueryParams $ %1 query).2"}, Ts: []T{tStrList, tBool}}}})
	add(FnSpec{Recv: "Context", Func: "Query", Lean: "Ctx.Query", Extra: qExtra, Types: qT, Exts: []Ext{
		{Callee: "$.QueryParam", Stmts: []string{"let %t ← Gen.Ctx.QueryParam $ %1 query"}, Values: []string{"%t.1", "%t.2"}, Ts: []T{tStr, tBool}, MayPanic: true}}})
	add(FnSpec{Recv: "Context", Func: "SetStatus", Lean: "Ctx.SetStatus"})
	add(FnSpec{Recv: "Context", Func: "StatusCode", Lean: "Ctx.StatusCode"})
	add(FnSpec{Recv: "Context", Func: "Length", Lean: "Ctx.Length"})
	// dispatch.go: the skeleton of `handleHTTPRequest` — deferred recover (when OnPanic is set), choice of the request
	// path, QuickMatch, the context prelude and the chain by kind of result (global ++ route/405/404 handlers ++ main
	// handler), Next, OnError when errors were recorded, the final commit — over an environment: QuickMatch, the
	// chain run (`Next`) and the two hooks are operations that return the new context and possibly a panic
	hRet := "(s, ctx, some p)"
	add(FnSpec{Recv: "Router", Func: "handleHTTPRequest", Lean: "Router.handleHTTPRequest",
		Extra:    []string{"{σ ρ η : Type}", "(env : GoRt.HEnv σ ρ η (Ctx γ))", "(s0 : σ)"},
		Prologue: []string{"let mut s : σ := s0", "let mut hchain : List η := []"},
		RetExtra: []string{"s", "ctx", "(none : Option Panic)"}, RetExtraT: []string{"σ", "Ctx γ", "Option Panic"},
		MutParams: []string{"ctx"}, DeferRecover: true, PnIndex: 2, Hoist: true, Setters: true,
		Types: map[string]T{"rux.Params": {"opaque", "Option GoRt.KV"}, "rux.HandlerFunc": {"opaque", "Option η"},
			"rux.HandlersChain": {"opaque", "List η"}},
		Exts: []Ext{
			{Callee: "$.OnPanic", Value: "(env.onPanicH s)", T: T{"opaque", "Option η"},
				Stmts: []string{"let %t := env.onPanic s %1", "s := %t.1", "ctx := %t.2.1", "if let some p := %t.2.2 then return " + hRet}},
			{Callee: "$.OnError", Value: "(env.onErrorH s)", T: T{"opaque", "Option η"},
				Stmts: []string{"let %t := env.onError s %1", "s := %t.1", "ctx := %t.2.1", "if let some p := %t.2.2 then return " + hRet}},
			{Callee: "_.Set", Stmts: []string{"ctx := Ctx.set_data %1 (GoRt.dataSet (%1).data %2 (GoRt.ToDV.toDV %3))"}},
			{Callee: "_.Req.URL.Path", Value: "(env.urlPath (%1).req)", T: tStr},
			{Callee: "_.Req.URL.EscapedPath", Value: "(env.escapedPath (%1).req)", T: tStr},
			{Callee: "_.Req.Method", Value: "(env.method (%1).req)", T: tStr},
			{Callee: "$.QuickMatch", Stmts: []string{"let %t := env.quickMatch s %1 %2", "s := %t.1", "if let some p := %t.2.2.2.2 then return " + hRet},
				Values: []string{"%t.2.1", "%t.2.2.1", "%t.2.2.2.1"}, Ts: []T{{"opaque", "Option ρ"}, {"opaque", "Option GoRt.KV"}, tStrList}},
			{Callee: "_.name", Value: "(env.routeName %1)", T: tStr},
			{Callee: "_.handlers", Value: "(env.routeHandlers %1)", T: T{"opaque", "List η"}},
			{Callee: "_.handler", Value: "(env.routeHandler %1)", T: T{"opaque", "Option η"}},
			{Callee: "$.noAllowed", Value: "(env.noAllowed s)", T: T{"opaque", "List η"}},
			{Callee: "$.noRoute", Value: "(env.noRoute s)", T: T{"opaque", "List η"}},
			{Callee: "$.handlers", Value: "(env.globalHandlers s)", T: T{"opaque", "List η"}},
			{Callee: "default405Handlers", Value: "env.default405", T: T{"opaque", "List η"}},
			{Callee: "default404Handlers", Value: "env.default404", T: T{"opaque", "List η"}},
			{Callee: "_.SetHandlers", Stmts: []string{"hchain := %2", "ctx := Ctx.set_handlers %1 ((%2).map (fun _ => ()))"}},
			{Callee: "_.Next", Stmts: []string{"let %t := env.next s %1 hchain", "s := %t.1", "ctx := %t.2.1", "if let some p := %t.2.2 then return " + hRet}},
		}})
	// dispatch.go: the two entry points around handleHTTPRequest; the context pool is an abstract state with
	// Get (some pooled context or a new one) and Put
	entryExts := []Ext{
		{Callee: "$.ctxPool.Get().(*Context)", Stmts: []string{"let tget := env.poolGet s", "s := tget.1"}, Value: "tget.2", T: T{"struct", "Ctx γ"}},
		{Callee: "$.ctxPool.Put", Stmts: []string{"s := env.poolPut s %1"}},
		{Callee: "$.handleHTTPRequest", Stmts: []string{"let %t := env.handle s %1", "s := %t.1", "if let some p := %t.2.2 then return (s, some p)", "%1 := %t.2.1"}},
	}
	add(FnSpec{Recv: "Router", Func: "ServeHTTP", Lean: "Router.ServeHTTP",
		Extra:    []string{"{σ : Type}", "(env : GoRt.PEnv σ (Ctx γ))", "(s0 : σ)"},
		Prologue: []string{"let mut s := s0"}, RetExtra: []string{"s", "(none : Option Panic)"}, RetExtraT: []string{"σ", "Option Panic"},
		Types: map[string]T{"*http.Request": {"opaque", "Option Nat"}}, Exts: entryExts})
	add(FnSpec{Recv: "Router", Func: "HandleContext", Lean: "Router.HandleContext",
		Extra:    []string{"{σ : Type}", "(env : GoRt.PEnv σ (Ctx γ))", "(s0 : σ)"},
		Prologue: []string{"let mut s := s0"}, RetExtra: []string{"s", "(none : Option Panic)"}, RetExtraT: []string{"σ", "Option Panic"},
		MutParams: []string{"c"}, Exts: entryExts})
	// middleware.go: a HandlerFunc used as an http.Handler — a fresh context (`zero` = &Context{}), Init, the handler
	// itself (a parameter: what it makes of the context, or its panic), then the end-of-request commit
	add(FnSpec{Recv: "HandlerFunc", Func: "ServeHTTP", Lean: "HandlerFunc.ServeHTTP", NoRecv: true,
		Extra: []string{"(zero : Ctx γ)", "(run : Ctx γ → Except Panic (Ctx γ))"},
		Types: map[string]T{"*http.Request": {"opaque", "Option Nat"}, "http.ResponseWriter": {"opaque", "Unit"}},
		RetExtra: []string{"c"}, RetExtraT: []string{"Ctx γ"},
		Exts: []Ext{
			{Callee: "Context{}", Value: "zero", T: T{"struct", "Ctx γ"}},
			{Callee: "$", Stmts: []string{"c ← run %1"}, MayPanic: true},
			{Callee: "c.writer.ensureWriteHeader", Stmts: []string{"c := { c with writer := Gen.RW.ensureWriteHeader c.writer }"}},
		}})
	// pkg/handlers: the two gates.  The context / request is an event log resp. a small record; what
	// `Request.BasicAuth()` parsed out of the Authorization header is an input.
	gctx := T{"opaque", "List GoRt.GEv"}
	add(FnSpec{Pkg: "pkg/handlers", Func: "HTTPBasicAuth", Lean: "HTTPBasicAuth", Inner: true,
		Extra: []string{"(cred : Bytes × Bytes × Bool)"}, MutParams: []string{"c"}, RetExtra: []string{"c"}, RetExtraT: []string{"List GoRt.GEv"},
		Types: map[string]T{"*rux.Context": gctx, "map[string]string": {"opaque", "List (Bytes × Bytes)"}},
		Exts: []Ext{
			{Callee: "_.Req.BasicAuth", Values: []string{"cred.1", "cred.2.1", "cred.2.2"}, Ts: []T{tStr, tStr, tBool}},
			{Callee: "_.SetHeader", Stmts: []string{"c := %1 ++ [GoRt.GEv.header %2 %3]"}},
			{Callee: "_.AbortWithStatus", Stmts: []string{"c := %1 ++ [GoRt.GEv.abort %2]"}},
			{Callee: "_.Set", Stmts: []string{"c := %1 ++ [GoRt.GEv.set %2 %3]"}},
			{Callee: "accounts[]", Values: []string{"(GoRt.mapGet accounts %1).1", "(GoRt.mapGet accounts %1).2"}, Ts: []T{tStr, tBool}},
		}})
	// IgnoreFavIcon: for the path /favicon.ico (and only for it) the chain is aborted and 204 No Content recorded (the
	// event `abort 204` stands for `c.AbortThen().NoContent()`); `c.URL().Path` is a parameter
	add(FnSpec{Pkg: "pkg/handlers", Func: "IgnoreFavIcon", Lean: "IgnoreFavIcon", Inner: true,
		Extra: []string{"(urlPath : Bytes)"}, MutParams: []string{"c"}, RetExtra: []string{"c"}, RetExtraT: []string{"List GoRt.GEv"},
		Types: map[string]T{"*rux.Context": gctx},
		Exts: []Ext{
			{Callee: "c.URL().Path", Value: "urlPath", T: tStr},
			{Callee: "c.AbortThen().NoContent", Stmts: []string{"c := c ++ [GoRt.GEv.abort 204]"}},
		}})
	// PanicsHandler: a middleware that recovers whatever the rest of the chain panics with and records status 500.
	// `c.Next()` is the parameter `next` (the context afterwards and the panic it ended with, if any)
	add(FnSpec{Pkg: "pkg/handlers", Func: "PanicsHandler", Lean: "PanicsHandler", Inner: true, DeferRecover: true, PnIndex: 1,
		Extra: []string{"(next : List GoRt.REv → List GoRt.REv × Option Panic)"},
		MutParams: []string{"c"}, RetExtra: []string{"c", "(none : Option Panic)"}, RetExtraT: []string{"List GoRt.REv", "Option Panic"},
		Types: map[string]T{"*rux.Context": {"opaque", "List GoRt.REv"}},
		Exts: []Ext{
			{Callee: "c.Next", Stmts: []string{"let %t := next c", "c := %t.1", "if let some p := %t.2 then return (c, some p)"}},
			{Callee: "c.Resp.WriteHeader", Stmts: []string{"c := c ++ [GoRt.REv.wh %1]"}},
		}})
	oreq := T{"opaque", "GoRt.OReq"}
	add(FnSpec{Pkg: "pkg/handlers", Func: "HTTPMethodOverrideHandler", Lean: "HTTPMethodOverrideHandler", Inner: true,
		MutParams: []string{"r"}, Prologue: []string{"let mut served : Option GoRt.OReq := none"},
		RetExtra: []string{"served"}, RetExtraT: []string{"Option GoRt.OReq"},
		Types: map[string]T{"*http.Request": oreq, "http.Handler": {"opaque", "Unit"}, "http.ResponseWriter": {"opaque", "Unit"}},
		Exts: []Ext{
			{Callee: "_.Method", Value: "(%1).method", T: tStr},
			{Callee: "_.Method=", Stmts: []string{"r := { %1 with method := %2 }"}},
			{Callee: "_.FormValue", Value: "((%1).formValue %2)", T: tStr},
			{Callee: "_.Header.Get", Value: "((%1).header %2)", T: tStr},
			{Callee: "_.Context", Value: "()", T: T{"opaque", "Unit"}},
			{Callee: "context.WithValue", Value: "%3", T: tStr},
			{Callee: "_.WithContext", Value: "({ %1 with original := some %2 } : GoRt.OReq)", T: oreq},
			{Callee: "h.ServeHTTP", Stmts: []string{"served := some %2"}},
		}})
	// pkg/render: the content-type rule, `Blob` and its five aliases, and the content negotiation of `Auto`.  The
	// http.ResponseWriter is a record of its header map and the calls it received (`GoRt.HW`); what `Write` answers
	// is a parameter (`wans`: error or not, from the state of the writer); in `Auto` the three renderers it hands the
	// value to and the parsed Accept header are operations of an environment.
	hw := T{"opaque", "GoRt.HW"}
	hwTypes := map[string]T{"http.ResponseWriter": hw, "http.Header": {"opaque", "List (Bytes × Bytes)"}}
	hwExts := []Ext{
		{Callee: "_.Header", Value: "(%1).header", T: T{"opaque", "List (Bytes × Bytes)"}},
		{Callee: "header[]", Value: "(GoRt.hdrGet header %1)", T: tStrList},
		{Callee: "_.Header().Set", Stmts: []string{"w := GoRt.HW.set %1 %2 %3"}},
		{Callee: "_.Write", Stmts: []string{"w := GoRt.HW.write %1 %2"}, Values: []string{"(0 : Int)", "(wans w)"}, Ts: []T{tInt, T{"opaque", "Bool"}}},
		{Callee: "writeContentType", Stmts: []string{"w := Gen.writeContentType %1 %2"}},
		{Callee: "Blob", Stmts: []string{"let %t := Gen.renderBlob %1 %2 %3 wans", "w := %t.1"}, Value: "%t.2", T: T{"opaque", "Bool"}},
	}
	add(FnSpec{Pkg: "pkg/render", Func: "writeContentType", Lean: "writeContentType", MutParams: []string{"w"},
		RetExtra: []string{"w"}, RetExtraT: []string{"GoRt.HW"}, Types: hwTypes, Exts: hwExts})
	rspec := func(name, lean string) {
		add(FnSpec{Pkg: "pkg/render", Func: name, Lean: lean, MutParams: []string{"w"}, Extra: []string{"(wans : GoRt.HW → Bool)"},
			RetExtra: []string{"w"}, RetExtraT: []string{"GoRt.HW"}, Types: hwTypes, Exts: hwExts})
	}
	rspec("Blob", "renderBlob")
	rspec("Text", "renderText")
	rspec("Plain", "renderPlain")
	rspec("TextBytes", "renderTextBytes")
	rspec("HTML", "renderHTML")
	rspec("HTMLBytes", "renderHTMLBytes")
	// json.go / xml.go: the three renderers.  The encoder is a record of its settings (`GoRt.JEnc`); `Encode` — marshal
	// the value and write the encoding to the writer, or fail — is the parameter `encode` (it gets the settings)
	encT := T{"opaque", "GoRt.JEnc"}
	encExts := append([]Ext{
		{Callee: "json.NewEncoder", Value: "(default : GoRt.JEnc)", T: encT},
		{Callee: "xml.NewEncoder", Value: "(default : GoRt.JEnc)", T: encT},
		{Callee: "enc.SetIndent", Stmts: []string{"enc := { enc with prefix_ := %1, indent := %2 }"}},
		{Callee: "enc.Indent", Stmts: []string{"enc := { enc with prefix_ := %1, indent := %2 }"}},
		{Callee: "enc.SetEscapeHTML", Stmts: []string{"enc := { enc with escapeHTML := %1 }"}},
		{Callee: "enc.Encode", Stmts: []string{"let %t := encode enc w", "w := %t.1"}, Value: "%t.2", T: T{"opaque", "Bool"}},
	}, hwExts...)
	encTypes := map[string]T{"http.ResponseWriter": hw, "http.Header": {"opaque", "List (Bytes × Bytes)"}, "*json.Encoder": encT, "*xml.Encoder": encT, "any": {"opaque", "Unit"}}
	add(FnSpec{Pkg: "pkg/render", Recv: "JSONRenderer", Func: "Render", Lean: "JSONR.Render", UseStructs: []string{"JSONRenderer"}, MutParams: []string{"w"},
		Extra: []string{"(wans : GoRt.HW → Bool)", "(encode : GoRt.JEnc → GoRt.HW → GoRt.HW × Bool)"},
		RetExtra: []string{"w"}, RetExtraT: []string{"GoRt.HW"}, Types: encTypes, Exts: encExts})
	add(FnSpec{Pkg: "pkg/render", Recv: "JSONPRenderer", Func: "Render", Lean: "JSONPR.Render", UseStructs: []string{"JSONPRenderer"}, MutParams: []string{"w"},
		Extra: []string{"(wans : GoRt.HW → Bool)", "(encode : GoRt.JEnc → GoRt.HW → GoRt.HW × Bool)"},
		RetExtra: []string{"w"}, RetExtraT: []string{"GoRt.HW"}, Types: encTypes, Exts: encExts})
	add(FnSpec{Pkg: "pkg/render", Recv: "XMLRenderer", Func: "Render", Lean: "XMLR.Render", UseStructs: []string{"XMLRenderer"}, MutParams: []string{"w"},
		Extra: []string{"(wans : GoRt.HW → Bool)", "(encode : GoRt.JEnc → GoRt.HW → GoRt.HW × Bool)"},
		RetExtra: []string{"w"}, RetExtraT: []string{"GoRt.HW"}, Types: encTypes, Exts: encExts})
	// render.go `responseText`: the text/plain branch of `Auto` — a string or a byte slice is written as it is, every
	// other value as its JSON encoding (`json.Marshal`: parameter `marshal`, the bytes or an error)
	add(FnSpec{Pkg: "pkg/render", Func: "responseText", Lean: "responseText", MutParams: []string{"w"},
		Extra:    []string{"(wans : GoRt.HW → Bool)", "(marshal : GoRt.AnyV → Bytes × Bool)"},
		RetExtra: []string{"w"}, RetExtraT: []string{"GoRt.HW"},
		Types:     map[string]T{"http.ResponseWriter": hw, "http.Header": {"opaque", "List (Bytes × Bytes)"}, "any": {"opaque", "GoRt.AnyV"}},
		TypeCases: map[string]TypeCase{"string": {Ctor: ".str", T: tStr}, "[]byte": {Ctor: ".bytes", T: tStr}},
		Exts: append([]Ext{
			{Callee: "json.Marshal", Values: []string{"(marshal %1).1", "(marshal %1).2"}, Ts: []T{tStr, {"opaque", "Bool"}}},
			{Callee: "Text", Stmts: []string{"let %t := Gen.renderText %1 %2 wans", "w := %t.1"}, Value: "%t.2", T: T{"opaque", "Bool"}},
			{Callee: "TextBytes", Stmts: []string{"let %t := Gen.renderTextBytes %1 %2 wans", "w := %t.1"}, Value: "%t.2", T: T{"opaque", "Bool"}},
		}, hwExts...)})
	// json.go / xml.go: the package-level wrappers construct the renderer value and call its Render
	for _, w := range [][3]string{{"JSON", "renderJSON", "JSONRenderer"}, {"JSONIndented", "renderJSONIndented", "JSONRenderer"}, {"XML", "renderXML", "XMLRenderer"}, {"XMLPretty", "renderXMLPretty", "XMLRenderer"}} {
		add(FnSpec{Pkg: "pkg/render", Func: w[0], Lean: w[1], UseStructs: []string{w[2]}, MutParams: []string{"w"},
			Extra:    []string{"(wans : GoRt.HW → Bool)", "(encode : GoRt.JEnc → GoRt.HW → GoRt.HW × Bool)", "(prettyIndent : Bytes)"},
			RetExtra: []string{"w"}, RetExtraT: []string{"GoRt.HW"}, Types: encTypes,
			Exts: []Ext{
				{Callee: "PrettyIndent", Value: "prettyIndent", T: tStr},
				{Callee: "JSONRenderer{}.Render", Stmts: []string{"let %t := Gen.JSONR.Render (default : JSONR) %1 %2 wans encode", "w := %t.1"}, Value: "%t.2", T: T{"opaque", "Bool"}},
				{Callee: "JSONRenderer{Indent: PrettyIndent}.Render", Stmts: []string{"let %t := Gen.JSONR.Render { (default : JSONR) with indent := prettyIndent } %1 %2 wans encode", "w := %t.1"}, Value: "%t.2", T: T{"opaque", "Bool"}},
				{Callee: "XMLRenderer{}.Render", Stmts: []string{"let %t := Gen.XMLR.Render (default : XMLR) %1 %2 wans encode", "w := %t.1"}, Value: "%t.2", T: T{"opaque", "Bool"}},
				{Callee: "XMLRenderer{Indent: PrettyIndent}.Render", Stmts: []string{"let %t := Gen.XMLR.Render { (default : XMLR) with indent := prettyIndent } %1 %2 wans encode", "w := %t.1"}, Value: "%t.2", T: T{"opaque", "Bool"}},
			}})
	}
	add(FnSpec{Pkg: "pkg/render", Func: "Auto", Lean: "renderAuto", MutParams: []string{"w"},
		Extra:    []string{"(env : GoRt.RAEnv GoRt.HW)", "(fallbackType : Bytes)"},
		RetExtra: []string{"w"}, RetExtraT: []string{"GoRt.HW"},
		Types: map[string]T{"http.ResponseWriter": hw, "*http.Request": {"opaque", "Option Nat"}, "any": {"opaque", "Unit"}},
		Exts: []Ext{
			{Callee: "r.Header.Get", Value: "(env.acceptHeader %1)", T: tStr},
			{Callee: "httpreq.ParseAccept", Value: "(env.parseAccept %1)", T: tStrList},
			{Callee: "FallbackType", Value: "fallbackType", T: tStr},
			{Callee: "JSON", Stmts: []string{"let %t := env.json %1", "w := %t.1"}, Value: "%t.2", T: T{"opaque", "Bool"}},
			{Callee: "XML", Stmts: []string{"let %t := env.xml %1", "w := %t.1"}, Value: "%t.2", T: T{"opaque", "Bool"}},
			{Callee: "responseText", Stmts: []string{"let %t := env.text %1", "w := %t.1"}, Value: "%t.2", T: T{"opaque", "Bool"}},
			{Callee: "errors.New", Value: "true", T: T{"opaque", "Bool"}},
		}})
	// dispatch.go: the built-in fallback handlers (package-level function values).  The context is the list of calls made on
	// it (`GoRt.REv`), the allowed methods stored by the dispatcher and the request method are parameters
	add(FnSpec{Func: "internal404Handler", Lean: "internal404Handler", MutParams: []string{"c"}, RetExtra: []string{"c"}, RetExtraT: []string{"List GoRt.REv"},
		Types: map[string]T{"*rux.Context": {"opaque", "List GoRt.REv"}},
		Exts: []Ext{{Callee: "http.NotFound", Stmts: []string{"c := c ++ [GoRt.REv.httpError ([0x34, 0x30, 0x34, 0x20, 0x70, 0x61, 0x67, 0x65, 0x20, 0x6E, 0x6F, 0x74, 0x20, 0x66, 0x6F, 0x75, 0x6E, 0x64] : Bytes) 404]"}},
			{Callee: "c.Resp", Value: "()", T: T{"opaque", "Unit"}}, {Callee: "c.Req", Value: "()", T: T{"opaque", "Unit"}}}})
	add(FnSpec{Func: "internal405Handler", Lean: "internal405Handler", MutParams: []string{"c"}, RetExtra: []string{"c"}, RetExtraT: []string{"List GoRt.REv"},
		Extra: []string{"(stored : List Bytes)", "(method : Bytes)", "(sortStrings : List Bytes → List Bytes)"},
		Types: map[string]T{"*rux.Context": {"opaque", "List GoRt.REv"}},
		Exts: []Ext{
			{Callee: "c.SafeGet(CTXAllowedMethods).([]string)", Value: "stored", T: tStrList},
			{Callee: "sort.Strings", Stmts: []string{"allowed := sortStrings %1"}},
			{Callee: "c.SetHeader", Stmts: []string{"c := c ++ [GoRt.REv.setHeader %1 %2]"}},
			{Callee: "c.Req.Method", Value: "method", T: tStr},
			{Callee: "c.SetStatus", Stmts: []string{"c := c ++ [GoRt.REv.setStatus %1]"}},
			{Callee: "c.Resp", Value: "()", T: T{"opaque", "Unit"}},
			{Callee: "http.Error", Stmts: []string{"c := c ++ [GoRt.REv.httpError %2 %3]"}},
		}})
	// dispatch.go `WrapHTTPHandlers`: std wrappers around the router.  A handler value is `GoRt.HV` (nil, the router, or a
	// wrapper applied to a handler); the wrappers are identities
	add(FnSpec{Recv: "Router", Func: "WrapHTTPHandlers", Lean: "Router.WrapHTTPHandlers", NoRecv: true,
		Types: map[string]T{"http.Handler": {"opaque", "GoRt.HV"}, "[]func(h http.Handler) http.Handler": {"opaque", "List Nat"}},
		Exts: []Ext{
			{Callee: "r", Value: "GoRt.HV.router", T: T{"opaque", "GoRt.HV"}},
			{Callee: "preHandlers[current]", Stmts: []string{"let %t ← GoRt.listAt preHandlers current"}, Value: "(GoRt.HV.wrap %t %1)", T: T{"opaque", "GoRt.HV"}, MayPanic: true},
		}})
	// context_render.go: the response helpers as the sequence of calls they make on the context / on `c.Resp`
	// (`GoRt.REv`); what the renderer and `io.Copy` return (error or not) are parameters
	rctx := T{"opaque", "List GoRt.REv"}
	rkind := T{"opaque", "GoRt.RKind"}
	errT := T{"opaque", "Bool"}
	rTypes := map[string]T{"*rux.Context": rctx, "rux.Context": rctx, "render.Renderer": rkind, "any": {"opaque", "Unit"},
		"io.Reader": {"opaque", "Unit"}, "render.JSONRenderer": rkind, "render.XMLRenderer": rkind, "render.JSONPRenderer": rkind}
	rExts := []Ext{
		{Callee: "$.SetStatus", Effect: "$ ++ [GoRt.REv.setStatus %1]"},
		{Callee: "$.Resp", Value: "()", T: T{"opaque", "Unit"}},
		{Callee: "$.Req", Value: "()", T: T{"opaque", "Unit"}},
		{Callee: "$.Resp.WriteHeader", Effect: "$ ++ [GoRt.REv.wh %1]"},
		{Callee: "$.Resp.Header().Set", Effect: "$ ++ [GoRt.REv.setHeader %1 %2]"},
		{Callee: "$.WriteBytes", Effect: "$ ++ [GoRt.REv.writeBytes %1]"},
		{Callee: "$.AddError", Effect: "$ ++ [GoRt.REv.addError]"},
		{Callee: "renderer.Render", Effect: "$ ++ [GoRt.REv.render renderer]", Value: "(rerr renderer)", T: errT},
		{Callee: "io.Copy", Effect: "$ ++ [GoRt.REv.copy]", Values: []string{"(0 : Int)", "cerr"}, Ts: []T{tInt, errT}},
		{Callee: "http.Error", Effect: "$ ++ [GoRt.REv.httpError %2 %3]"},
		{Callee: "http.Redirect", Effect: "$ ++ [GoRt.REv.redirect %3 %4]"},
		{Callee: "render.JSONRenderer{}", Value: "GoRt.RKind.json", T: rkind},
		{Callee: "render.XMLRenderer{}", Value: "(GoRt.RKind.xml %1)", T: rkind},
		{Callee: "render.JSONPRenderer{}", Value: "(GoRt.RKind.jsonp %1)", T: rkind},
	}
	hspec := func(name string) {
		add(FnSpec{Recv: "Context", Func: name, Lean: "RC." + name, Mutates: true,
			Extra: []string{"(rerr : GoRt.RKind → Bool)", "(cerr : Bool)"}, Types: rTypes, Exts: rExts})
	}
	for _, n := range []string{"ShouldRender", "Respond", "MustRender", "HTTPError", "NoContent", "Redirect", "Blob", "Text", "HTML",
		"HTMLString", "Stream", "JSON", "JSONBytes", "XML", "JSONP"} {
		hspec(n)
	}
	// `Back`: a redirect to the request's Referer (a parameter), status 302 unless one is given
	add(FnSpec{Recv: "Context", Func: "Back", Lean: "RC.Back", Mutates: true,
		Extra: []string{"(referer : Bytes)", "(rerr : GoRt.RKind → Bool)", "(cerr : Bool)"}, Types: rTypes,
		Exts: append([]Ext{
			{Callee: "basefn.FirstOr", Value: "((%1).headD %2)", T: tInt},
			{Callee: "$.Req.Referer", Value: "referer", T: tStr},
			{Callee: "$.Redirect", Stmts: []string{"$ ← Gen.RC.Redirect $ %1 [%2] rerr cerr"}, MayPanic: true},
		}, rExts...)})
	// `Render`: the router's template renderer writes the view into a NEW buffer (parameter `view`: its output and whether
	// it failed); only a view that rendered completely is sent, with c.HTML
	add(FnSpec{Recv: "Context", Func: "Render", Lean: "RC.Render", Mutates: true,
		Extra: []string{"(renderer : Option Nat)", "(view : Bytes → Bytes × Bool)", "(rerr : GoRt.RKind → Bool)", "(cerr : Bool)"},
		Types: map[string]T{"*rux.Context": rctx, "rux.Context": rctx, "any": {"opaque", "Unit"}, "*bytes.Buffer": {"opaque", "Bytes"}},
		Exts: append([]Ext{
			{Callee: "$.router.Renderer", Value: "renderer", T: T{"opaque", "Option Nat"}},
			{Callee: "new(bytes.Buffer)", Value: "([] : Bytes)", T: tStr},
			{Callee: "$.router.Renderer.Render", Stmts: []string{"buf := (view %2).1"}, Value: "(view %2).2", T: errT},
			{Callee: "buf.Bytes", Value: "buf", T: tStr},
			{Callee: "errors.New", Value: "true", T: errT},
			{Callee: "$.HTML", Effect: "(Gen.RC.HTML $ %1 %2 rerr cerr)"},
		}, rExts...)})
	// pkg/binding: the source decision of `Auto` (which binder reads what); the binders themselves and the two
	// form parsers are operations whose only modelled effect is to be recorded as the chosen source
	// pkg/binding: `Validate` and the three decoders (decode, then validate).  The decoders of the standard library / formam
	// and the configured validator are parameters: `decodeErr` / `validateErr` say whether they return an error,
	// `validator` is nil or the identity of the configured validator
	bErr := T{"opaque", "Bool"}
	bTypes := map[string]T{"any": {"opaque", "Unit"}, "interface{}": {"opaque", "Unit"}, "io.Reader": {"opaque", "Unit"},
		"map[string][]string": {"opaque", "Unit"}, "url.Values": {"opaque", "Unit"}, "*formam.Decoder": {"opaque", "Unit"},
		"*http.Request": {"opaque", "Unit"}}
	bExts := []Ext{
		{Callee: "Validator", Value: "validator", T: T{"opaque", "Option Nat"}},
		{Callee: "Validator.Validate", Value: "validateErr", T: bErr},
		{Callee: "json.NewDecoder(r).Decode", Value: "decodeErr", T: bErr},
		{Callee: "xml.NewDecoder(r).Decode", Value: "decodeErr", T: bErr},
		{Callee: "formam.NewDecoder", Value: "()", T: T{"opaque", "Unit"}},
		{Callee: "formam.DecoderOptions{}", Value: "()", T: T{"opaque", "Unit"}},
		{Callee: "dec.Decode", Value: "decodeErr", T: bErr},
	}
	vExtra := []string{"(validator : Option Nat)", "(validateErr : Bool)"}
	add(FnSpec{Pkg: "pkg/binding", Func: "Validate", Lean: "bindingValidate", Extra: vExtra, Types: bTypes, Exts: bExts})
	dExtra := append([]string{"(decodeErr : Bool)"}, vExtra...)
	for _, n := range []string{"decodeJSON", "decodeXML", "DecodeUrlValues"} {
		add(FnSpec{Pkg: "pkg/binding", Func: n, Lean: "binding_" + n, Extra: dExtra, Types: bTypes, Exts: bExts})
	}
	// the binders: each hands its source (body, parsed form, query, header map — opaque here) to its decoder
	bsExts := append([]Ext{
		{Callee: "_.Body", Value: "()", T: T{"opaque", "Unit"}},
		{Callee: "_.Form", Value: "()", T: T{"opaque", "Unit"}},
		{Callee: "_.Header", Value: "()", T: T{"opaque", "Unit"}},
		{Callee: "_.URL.Query", Value: "()", T: T{"opaque", "Unit"}},
		{Callee: "_.ParseForm", Value: "parseErr", T: bErr},
		{Callee: "strings.NewReader", Value: "()", T: T{"opaque", "Unit"}},
	}, bExts...)
	for _, b := range [][2]string{{"JSONBinder", "JSONB"}, {"XMLBinder", "XMLB"}} {
		for _, n := range []string{"Bind", "BindBytes"} {
			add(FnSpec{Pkg: "pkg/binding", Recv: b[0], Func: n, Lean: b[1] + "." + n, NoRecv: true, Extra: dExtra, Types: bTypes, Exts: bsExts})
		}
	}
	add(FnSpec{Pkg: "pkg/binding", Recv: "FormBinder", Func: "Bind", Lean: "FormB.Bind", UseStructs: []string{"FormBinder"},
		Extra: append([]string{"(parseErr : Bool)"}, dExtra...), Types: bTypes, Exts: bsExts})
	add(FnSpec{Pkg: "pkg/binding", Recv: "FormBinder", Func: "BindValues", Lean: "FormB.BindValues", UseStructs: []string{"FormBinder"}, Extra: dExtra, Types: bTypes, Exts: bsExts})
	for _, b := range [][2]string{{"QueryBinder", "QueryB"}, {"HeaderBinder", "HeaderB"}} {
		for _, n := range []string{"Bind", "BindValues"} {
			add(FnSpec{Pkg: "pkg/binding", Recv: b[0], Func: n, Lean: b[1] + "." + n, UseStructs: []string{b[0]}, Extra: dExtra, Types: bTypes, Exts: bsExts})
		}
	}
	for _, n := range []string{"Bind", "MustBind"} {
		add(FnSpec{Pkg: "pkg/binding", Func: n, Lean: "binding" + n, Extra: []string{"(autoErr : Bool)"}, Types: bTypes,
			Exts: []Ext{{Callee: "Auto", Value: "autoErr", T: bErr}}})
	}
	// context_binding.go: the Context methods are the binding-package calls on `c.Req` (the request as it is: which
	// request a binder is given is what is recorded).  `bindWith b req` = does binder b report an error for that request
	// (binders by identity; Form, JSON, XML of the package are 0, 1, 2), `auto req` the same for binding.Auto
	cbT := map[string]T{"any": {"opaque", "Unit"}, "binding.Binder": {"opaque", "Nat"}}
	cbExtra := []string{"(bindWith : Nat → Option Nat → Bool)", "(auto : Option Nat → Bool)", "(validate : Bool)"}
	cbExts := []Ext{
		{Callee: "binder.Bind", Value: "(bindWith binder %1)", T: bErr},
		{Callee: "binding.Form.Bind", Value: "(bindWith 0 %1)", T: bErr},
		{Callee: "binding.JSON.Bind", Value: "(bindWith 1 %1)", T: bErr},
		{Callee: "binding.XML.Bind", Value: "(bindWith 2 %1)", T: bErr},
		{Callee: "binding.Auto", Value: "(auto %1)", T: bErr},
		{Callee: "binding.Validate", Value: "validate", T: bErr},
		{Callee: "goutil.PanicErr", Stmts: []string{"if %1 then throw Panic.value"}, MayPanic: true},
	}
	for _, n := range []string{"ShouldBind", "MustBind", "AutoBind", "Bind", "Validate", "BindForm", "BindJSON", "BindXML"} {
		add(FnSpec{Recv: "Context", Func: n, Lean: "Ctx." + n, Extra: cbExtra, Types: cbT, Exts: cbExts})
	}
	breq := T{"opaque", "GoRt.BReq"}
	bsrc := func(name string) []string { return []string{"src := GoRt.BindSrc." + name} }
	add(FnSpec{Pkg: "pkg/binding", Func: "Auto", Lean: "bindingAuto",
		Extra:    []string{"(parseFormErr parseMultipartErr bindErr : Bool)"},
		Prologue: []string{"let mut src : GoRt.BindSrc := GoRt.BindSrc.none"}, RetExtra: []string{"src"}, RetExtraT: []string{"GoRt.BindSrc"},
		Types: map[string]T{"*http.Request": breq, "any": {"opaque", "Unit"}, "interface{}": {"opaque", "Unit"}},
		Exts: []Ext{
			{Callee: "_.Method", Value: "(%1).method", T: tStr},
			{Callee: "_.Header.Get", Value: "((%1).header %2)", T: tStr},
			{Callee: "_.URL.Query", Value: "()", T: T{"opaque", "Unit"}},
			{Callee: "_.PostForm", Value: "()", T: T{"opaque", "Unit"}},
			{Callee: "DefaultMaxMemory", Value: "()", T: T{"opaque", "Unit"}},
			{Callee: "_.ParseForm", Stmts: bsrc("form"), Value: "parseFormErr", T: T{"opaque", "Bool"}},
			{Callee: "_.ParseMultipartForm", Stmts: bsrc("multipart"), Value: "parseMultipartErr", T: T{"opaque", "Bool"}},
			{Callee: "Query.BindValues", Stmts: bsrc("query"), Value: "bindErr", T: T{"opaque", "Bool"}},
			{Callee: "Form.BindValues", Value: "bindErr", T: T{"opaque", "Bool"}},
			{Callee: "JSON.Bind", Stmts: bsrc("json"), Value: "bindErr", T: T{"opaque", "Bool"}},
			{Callee: "XML.Bind", Stmts: bsrc("xml"), Value: "bindErr", T: T{"opaque", "Bool"}},
			{Callee: "errors.New", Value: "true", T: T{"opaque", "Bool"}},
		}})
}
