package main

// The functions of /repo that are translated, in dependency order (callees first), the struct types they
// work on and the operations that are modelled rather than translated.

func configure(g *gen) {
	g.structs = []StructSpec{
		{Go: "responseWriter", Lean: "RW", Fields: []FieldSpec{
			{"status", "int", "status", tInt},
			{"length", "int", "length", tInt},
		}, Extra: []string{"log : List GoRt.WEv := []"}},
		{Go: "Context", Lean: "Ctx", Fields: []FieldSpec{
			{"index", "int8", "index", tInt8},
			{"writer", "responseWriter", "writer", T{"struct", "RW"}},
		}, Extra: []string{"nHandlers : Int := 0"}},
		{Go: "Router", Lean: "Router", Fields: []FieldSpec{
			{"strictLastSlash", "bool", "strictLastSlash", tBool},
			{"interceptAll", "string", "interceptAll", tStr},
			{"handleFallbackRoute", "bool", "handleFallbackRoute", tBool},
			{"handleMethodNotAllowed", "bool", "handleMethodNotAllowed", tBool},
			{"enableCaching", "bool", "enableCaching", tBool},
			{"useEncodedPath", "bool", "useEncodedPath", tBool},
		}},
	}
	g.opaque["error"] = T{"opaque", "Bool"} // true = a non-nil error
	g.opaque["http.ResponseWriter"] = T{"opaque", "Unit"}
	g.globalExts = []Ext{
		{Callee: "debugPrint", Ignore: true},
	}
	add := func(s FnSpec) { sp := s; g.fns = append(g.fns, &fnInfo{spec: &sp}) }

	// utils.go
	add(FnSpec{Func: "isFixedPath", Lean: "isFixedPath"})
	add(FnSpec{Func: "simpleFmtPath", Lean: "simpleFmtPath"})
	add(FnSpec{Func: "quotePointChar", Lean: "quotePointChar"})
	// router.go
	add(FnSpec{Recv: "Router", Func: "formatPath", Lean: "Router.formatPath"})
	// response_wirter.go
	add(FnSpec{Recv: "responseWriter", Func: "reset", Lean: "RW.reset", Exts: []Ext{
		// w.Writer = w2: a new underlying writer, nothing has reached it yet
		{Callee: "$.Writer=", Effect: "{ $ with log := [] }"},
	}})
	add(FnSpec{Recv: "responseWriter", Func: "Status", Lean: "RW.Status"})
	add(FnSpec{Recv: "responseWriter", Func: "Written", Lean: "RW.Written"})
	add(FnSpec{Recv: "responseWriter", Func: "Length", Lean: "RW.Length"})
	add(FnSpec{Recv: "responseWriter", Func: "WriteHeader", Lean: "RW.WriteHeader"})
	add(FnSpec{Recv: "responseWriter", Func: "ensureWriteHeader", Lean: "RW.ensureWriteHeader", Exts: []Ext{
		{Callee: "$.Writer.WriteHeader", Effect: "{ $ with log := $.log ++ [GoRt.WEv.writeHeader %1] }"},
	}})
	add(FnSpec{Recv: "responseWriter", Func: "Write", Lean: "RW.Write", Extra: []string{"(ext : Int × Bool)"}, Exts: []Ext{
		// n, err = w.Writer.Write(b): the underlying writer's answer is an input
		{Callee: "$.Writer.Write", Values: []string{"ext.1", "ext.2"}, Ts: []T{tInt, {"opaque", "Bool"}},
			Effect: "{ $ with log := $.log ++ [GoRt.WEv.write %1 ext.1 ext.2] }"},
	}})
	add(FnSpec{Recv: "responseWriter", Func: "Flush", Lean: "RW.Flush", Exts: []Ext{
		{Callee: "$.Writer.(http.Flusher).Flush", Effect: "{ $ with log := $.log ++ [GoRt.WEv.flush] }"},
	}})
	// context.go
	add(FnSpec{Recv: "Context", Func: "Abort", Lean: "Ctx.Abort"})
	add(FnSpec{Recv: "Context", Func: "IsAborted", Lean: "Ctx.IsAborted"})
	add(FnSpec{Recv: "Context", Func: "SetStatus", Lean: "Ctx.SetStatus"})
	add(FnSpec{Recv: "Context", Func: "StatusCode", Lean: "Ctx.StatusCode"})
	add(FnSpec{Recv: "Context", Func: "Length", Lean: "Ctx.Length"})
}
