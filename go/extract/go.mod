module ruxverif/extract

go 1.19
