// extract: recomputes, from /repo's working tree, the constants, tables and structural facts that the
// Lean theorems in RuxModel/Props depend on, and writes them as RuxModel/Generated/Facts.lean.
// Purely syntactic (go/parser + go/ast), standard library only.
package main

import (
	"encoding/json"
	"flag"
	"fmt"
	"go/ast"
	"go/parser"
	"go/token"
	"os"
	"path/filepath"
	"sort"
	"strconv"
	"strings"
)

type Facts struct {
	AbortIndex        int                 `json:"abortIndex"`
	IndexType         string              `json:"indexType"`
	AnyMethods        []string            `json:"anyMethods"`
	MethodConsts      map[string]string   `json:"methodConsts"`
	RestfulActions    map[string][]string `json:"restfulActions"`
	GlobalVars        map[string]string   `json:"globalVars"`
	AnyMatch          string              `json:"anyMatch"`
	DefaultMaxCaches  int                 `json:"defaultMaxNumCaches"`
	CtxKeys           map[string]string   `json:"ctxKeys"`
	ContextFields     []string            `json:"contextFields"`
	ContextReset      []string            `json:"contextFieldsReset"`
	WriterFields      []string            `json:"writerFields"`
	WriterReset       []string            `json:"writerFieldsReset"`
	RequestPathWrites []string            `json:"requestPathWrites"`
	CacheMethods      map[string][]string `json:"cacheMethods"` // name -> [lock mode, "mut"|"ro"]
	LimitChecks       []string            `json:"limitChecks"`  // functions that compare a handler count with abortIndex
	NoWritten         int                 `json:"noWritten"`
	// methods of responseWriter: name -> does the body mention the underlying writer `.Writer` directly?
	WriterMethods map[string]bool `json:"writerMethods"`
	// methods of Context, sorted (the set of things a handler can call)
	ContextMethods []string `json:"contextMethods"`
}

var fset = token.NewFileSet()

func main() {
	repo := flag.String("repo", "/repo", "repository root")
	out := flag.String("out", "", "Facts.lean output")
	js := flag.String("json", "", "facts.json output")
	flag.Parse()

	pkgs, err := parser.ParseDir(fset, *repo, func(fi os.FileInfo) bool {
		return !strings.HasSuffix(fi.Name(), "_test.go") && fi.Name() != "verif_hooks.go"
	}, 0)
	if err != nil {
		fmt.Fprintln(os.Stderr, "parse error:", err)
		os.Exit(1)
	}
	pkg := pkgs["rux"]
	if pkg == nil {
		fmt.Fprintln(os.Stderr, "package rux not found in", *repo)
		os.Exit(1)
	}
	var files []*ast.File
	var names []string
	for n := range pkg.Files {
		names = append(names, n)
	}
	sort.Strings(names)
	for _, n := range names {
		files = append(files, pkg.Files[n])
	}

	f := Facts{MethodConsts: map[string]string{}, RestfulActions: map[string][]string{}, GlobalVars: map[string]string{},
		CtxKeys: map[string]string{}, CacheMethods: map[string][]string{}, AbortIndex: -1, DefaultMaxCaches: -1, NoWritten: 0}
	strConsts := map[string]string{} // all string constants / simple string vars
	collectConsts(files, strConsts, &f)
	collectTables(files, strConsts, &f)
	collectStructs(files, &f)
	collectResets(files, &f)
	collectRequestPathWrites(files, &f)
	collectCacheMethods(files, &f)
	collectLimitChecks(files, &f)
	collectMethodSets(files, &f)

	if *js != "" {
		b, _ := json.MarshalIndent(f, "", " ")
		_ = os.MkdirAll(filepath.Dir(*js), 0o755)
		_ = os.WriteFile(*js, b, 0o644)
	}
	if *out != "" {
		_ = os.MkdirAll(filepath.Dir(*out), 0o755)
		if err := os.WriteFile(*out, []byte(render(f)), 0o644); err != nil {
			fmt.Fprintln(os.Stderr, err)
			os.Exit(1)
		}
	}
}

func unquote(l *ast.BasicLit) string {
	if l == nil {
		return ""
	}
	s, err := strconv.Unquote(l.Value)
	if err != nil {
		return l.Value
	}
	return s
}

func collectConsts(files []*ast.File, strs map[string]string, f *Facts) {
	for _, file := range files {
		for _, d := range file.Decls {
			gd, ok := d.(*ast.GenDecl)
			if !ok || (gd.Tok != token.CONST && gd.Tok != token.VAR) {
				continue
			}
			for _, sp := range gd.Specs {
				vs := sp.(*ast.ValueSpec)
				for i, n := range vs.Names {
					if i >= len(vs.Values) {
						continue
					}
					switch v := vs.Values[i].(type) {
					case *ast.BasicLit:
						if v.Kind == token.STRING {
							strs[n.Name] = unquote(v)
						}
						if v.Kind == token.INT {
							iv, _ := strconv.Atoi(v.Value)
							if n.Name == "abortIndex" {
								f.AbortIndex = iv
								if id, ok := vs.Type.(*ast.Ident); ok {
									_ = id
								}
							}
						}
					case *ast.UnaryExpr:
						if bl, ok := v.X.(*ast.BasicLit); ok && v.Op == token.SUB && bl.Kind == token.INT && n.Name == "noWritten" {
							iv, _ := strconv.Atoi(bl.Value)
							f.NoWritten = -iv
						}
					}
				}
			}
		}
	}
	for _, m := range []string{"GET", "PUT", "HEAD", "POST", "PATCH", "TRACE", "DELETE", "CONNECT", "OPTIONS"} {
		if v, ok := strs[m]; ok {
			f.MethodConsts[m] = v
		}
	}
	for _, k := range []string{"CTXRecoverResult", "CTXAllowedMethods", "CTXCurrentRouteName", "CTXCurrentRoutePath"} {
		if v, ok := strs[k]; ok {
			f.CtxKeys[k] = v
		}
	}
	f.AnyMatch = strs["anyMatch"]
}

func resolveStr(e ast.Expr, strs map[string]string) string {
	switch v := e.(type) {
	case *ast.BasicLit:
		return unquote(v)
	case *ast.Ident:
		if s, ok := strs[v.Name]; ok {
			return s
		}
		return "?" + v.Name
	}
	return "?"
}

func collectTables(files []*ast.File, strs map[string]string, f *Facts) {
	for _, file := range files {
		ast.Inspect(file, func(n ast.Node) bool {
			vs, ok := n.(*ast.ValueSpec)
			if !ok {
				return true
			}
			for i, name := range vs.Names {
				if i >= len(vs.Values) {
					continue
				}
				cl, ok := vs.Values[i].(*ast.CompositeLit)
				if !ok {
					continue
				}
				switch name.Name {
				case "anyMethods":
					for _, e := range cl.Elts {
						f.AnyMethods = append(f.AnyMethods, resolveStr(e, strs))
					}
				case "globalVars":
					for _, e := range cl.Elts {
						kv := e.(*ast.KeyValueExpr)
						f.GlobalVars[resolveStr(kv.Key, strs)] = resolveStr(kv.Value, strs)
					}
				case "RESTFulActions":
					for _, e := range cl.Elts {
						kv := e.(*ast.KeyValueExpr)
						var ms []string
						if inner, ok := kv.Value.(*ast.CompositeLit); ok {
							for _, m := range inner.Elts {
								ms = append(ms, resolveStr(m, strs))
							}
						}
						f.RestfulActions[resolveStr(kv.Key, strs)] = ms
					}
				}
			}
			return true
		})
		// maxNumCaches default inside New(): composite literal &Router{ maxNumCaches: 1000, ... }
		ast.Inspect(file, func(n ast.Node) bool {
			cl, ok := n.(*ast.CompositeLit)
			if !ok {
				return true
			}
			if id, ok := cl.Type.(*ast.Ident); !ok || id.Name != "Router" {
				return true
			}
			for _, e := range cl.Elts {
				if kv, ok := e.(*ast.KeyValueExpr); ok {
					if k, ok := kv.Key.(*ast.Ident); ok && k.Name == "maxNumCaches" {
						if bl, ok := kv.Value.(*ast.BasicLit); ok {
							f.DefaultMaxCaches, _ = strconv.Atoi(bl.Value)
						}
					}
				}
			}
			return true
		})
	}
}

func collectStructs(files []*ast.File, f *Facts) {
	for _, file := range files {
		ast.Inspect(file, func(n ast.Node) bool {
			ts, ok := n.(*ast.TypeSpec)
			if !ok {
				return true
			}
			st, ok := ts.Type.(*ast.StructType)
			if !ok {
				return true
			}
			var names []string
			for _, fl := range st.Fields.List {
				for _, nm := range fl.Names {
					names = append(names, nm.Name)
					if ts.Name.Name == "Context" && nm.Name == "index" {
						if id, ok := fl.Type.(*ast.Ident); ok {
							f.IndexType = id.Name
						}
					}
				}
			}
			switch ts.Name.Name {
			case "Context":
				f.ContextFields = names
			case "responseWriter":
				f.WriterFields = names
			}
			return true
		})
	}
}

func funcDecls(files []*ast.File) []*ast.FuncDecl {
	var out []*ast.FuncDecl
	for _, file := range files {
		for _, d := range file.Decls {
			if fd, ok := d.(*ast.FuncDecl); ok && fd.Body != nil {
				out = append(out, fd)
			}
		}
	}
	return out
}

func recvOf(fd *ast.FuncDecl) (name, typ string) {
	if fd.Recv == nil || len(fd.Recv.List) == 0 {
		return "", ""
	}
	r := fd.Recv.List[0]
	if len(r.Names) > 0 {
		name = r.Names[0].Name
	}
	t := r.Type
	if st, ok := t.(*ast.StarExpr); ok {
		t = st.X
	}
	if id, ok := t.(*ast.Ident); ok {
		typ = id.Name
	}
	return
}

// rootSel returns (root identifier, first field) of a selector / index chain: c.writer.status -> ("c","writer")
func rootSel(e ast.Expr) (root, field string, full string) {
	var parts []string
	for {
		switch v := e.(type) {
		case *ast.SelectorExpr:
			parts = append([]string{v.Sel.Name}, parts...)
			e = v.X
			continue
		case *ast.IndexExpr:
			e = v.X
			continue
		case *ast.SliceExpr:
			e = v.X
			continue
		case *ast.StarExpr:
			e = v.X
			continue
		case *ast.ParenExpr:
			e = v.X
			continue
		case *ast.Ident:
			if len(parts) == 0 {
				return v.Name, "", v.Name
			}
			return v.Name, parts[0], v.Name + "." + strings.Join(parts, ".")
		}
		return "", "", ""
	}
}

// collectResets: which Context fields are assigned by Init/Reset (writer counts when writer.reset is called),
// and which responseWriter fields are assigned by reset.
func collectResets(files []*ast.File, f *Facts) {
	ctx := map[string]bool{}
	wr := map[string]bool{}
	for _, fd := range funcDecls(files) {
		rn, rt := recvOf(fd)
		if rt == "Context" && (fd.Name.Name == "Init" || fd.Name.Name == "Reset") {
			ast.Inspect(fd.Body, func(n ast.Node) bool {
				switch v := n.(type) {
				case *ast.AssignStmt:
					for _, l := range v.Lhs {
						if root, field, _ := rootSel(l); root == rn && field != "" {
							ctx[field] = true
						}
					}
				case *ast.CallExpr:
					if _, _, full := rootSel(v.Fun); full == rn+".writer.reset" {
						ctx["writer"] = true
					}
				}
				return true
			})
		}
		if rt == "responseWriter" && fd.Name.Name == "reset" {
			ast.Inspect(fd.Body, func(n ast.Node) bool {
				if v, ok := n.(*ast.AssignStmt); ok {
					for _, l := range v.Lhs {
						if root, field, _ := rootSel(l); root == rn && field != "" {
							wr[field] = true
						}
					}
				}
				return true
			})
		}
	}
	for k := range ctx {
		f.ContextReset = append(f.ContextReset, k)
	}
	for k := range wr {
		f.WriterReset = append(f.WriterReset, k)
	}
	sort.Strings(f.ContextReset)
	sort.Strings(f.WriterReset)
}

var requestPathFuncs = map[string]bool{"ServeHTTP": true, "HandleContext": true, "handleHTTPRequest": true, "QuickMatch": true,
	"Match": true, "match": true, "cacheDynamicRoute": true, "findAllowedMethods": true, "matchRegex": true, "copyWithParams": false}

// collectRequestPathWrites lists every assignment to (and every append whose first argument is) a field of
// the Router receiver, or of a *Route reached from it, inside the functions executed per request.
func collectRequestPathWrites(files []*ast.File, f *Facts) {
	for _, fd := range funcDecls(files) {
		rn, rt := recvOf(fd)
		if !(rt == "Router" && requestPathFuncs[fd.Name.Name]) && !(rt == "Route" && (fd.Name.Name == "matchRegex" || fd.Name.Name == "match")) {
			continue
		}
		shared := map[string]bool{rn: true}
		// local names bound to shared routes: route, rt, rs (range / index over router tables or results of match)
		ast.Inspect(fd.Body, func(n ast.Node) bool {
			switch v := n.(type) {
			case *ast.AssignStmt:
				if v.Tok == token.DEFINE || v.Tok == token.ASSIGN {
					for i, r := range v.Rhs {
						root, _, full := rootSel(r)
						_ = full
						if call, ok := r.(*ast.CallExpr); ok {
							if _, _, cf := rootSel(call.Fun); cf == rn+".match" || cf == rn+".QuickMatch" || strings.HasPrefix(cf, rn+".cachedRoutes.") {
								if id, ok := v.Lhs[0].(*ast.Ident); ok && id.Name != "_" {
									shared[id.Name] = true
								}
							}
						}
						if shared[root] && i < len(v.Lhs) {
							if _, ok := r.(*ast.IndexExpr); ok {
								if id, ok := v.Lhs[i].(*ast.Ident); ok && id.Name != "_" {
									shared[id.Name] = true
								}
							}
						}
					}
				}
			case *ast.RangeStmt:
				if root, _, _ := rootSel(v.X); shared[root] {
					if id, ok := v.Value.(*ast.Ident); ok && id != nil && id.Name != "_" {
						shared[id.Name] = true
					}
				}
			}
			return true
		})
		ast.Inspect(fd.Body, func(n ast.Node) bool {
			switch v := n.(type) {
			case *ast.AssignStmt:
				for _, l := range v.Lhs {
					if root, field, full := rootSel(l); shared[root] && field != "" {
						f.RequestPathWrites = append(f.RequestPathWrites, fd.Name.Name+": "+full+" = ...")
					}
				}
			case *ast.IncDecStmt:
				if root, field, full := rootSel(v.X); shared[root] && field != "" {
					f.RequestPathWrites = append(f.RequestPathWrites, fd.Name.Name+": "+full+v.Tok.String())
				}
			case *ast.CallExpr:
				if id, ok := v.Fun.(*ast.Ident); ok && id.Name == "append" && len(v.Args) > 0 {
					if root, field, full := rootSel(v.Args[0]); shared[root] && field != "" {
						f.RequestPathWrites = append(f.RequestPathWrites, fd.Name.Name+": append("+full+", ...)")
					}
				}
				if id, ok := v.Fun.(*ast.Ident); ok && id.Name == "delete" && len(v.Args) > 0 {
					if root, field, full := rootSel(v.Args[0]); shared[root] && field != "" {
						f.RequestPathWrites = append(f.RequestPathWrites, fd.Name.Name+": delete("+full+", ...)")
					}
				}
			}
			return true
		})
	}
	sort.Strings(f.RequestPathWrites)
}

// method sets: every method of responseWriter (with whether it touches the underlying writer) and every method
// of Context.  A new way to reach the underlying writer, or a new context operation, has to be looked at.
func collectMethodSets(files []*ast.File, f *Facts) {
	f.WriterMethods = map[string]bool{}
	for _, fd := range funcDecls(files) {
		rn, rt := recvOf(fd)
		switch rt {
		case "responseWriter":
			touches := false
			if fd.Body != nil {
				ast.Inspect(fd.Body, func(n ast.Node) bool {
					if se, ok := n.(*ast.SelectorExpr); ok && se.Sel.Name == "Writer" {
						if id, ok := se.X.(*ast.Ident); ok && id.Name == rn {
							touches = true
						}
					}
					return true
				})
			}
			f.WriterMethods[fd.Name.Name] = touches
		case "Context":
			f.ContextMethods = append(f.ContextMethods, fd.Name.Name)
		}
	}
	sort.Strings(f.ContextMethods)
}

func collectCacheMethods(files []*ast.File, f *Facts) {
	for _, fd := range funcDecls(files) {
		rn, rt := recvOf(fd)
		if rt != "cachedRoutes" {
			continue
		}
		lock := "none"
		mut := "ro"
		ast.Inspect(fd.Body, func(n ast.Node) bool {
			switch v := n.(type) {
			case *ast.CallExpr:
				_, _, full := rootSel(v.Fun)
				switch full {
				case rn + ".lock.Lock":
					if lock == "none" {
						lock = "Lock"
					}
				case rn + ".lock.RLock":
					if lock == "none" {
						lock = "RLock"
					}
				case rn + ".list.MoveToFront", rn + ".list.PushFront", rn + ".list.PushBack", rn + ".list.Remove",
					rn + ".list.MoveToBack", rn + ".list.MoveBefore", rn + ".list.MoveAfter", rn + ".list.Init",
					rn + ".list.InsertBefore", rn + ".list.InsertAfter":
					mut = "mut"
				case rn + ".Get", rn + ".Set", rn + ".Delete":
					if lock == "none" {
						lock = "via:" + strings.TrimPrefix(full, rn+".")
					}
				}
				if id, ok := v.Fun.(*ast.Ident); ok && id.Name == "delete" && len(v.Args) > 0 {
					if root, field, _ := rootSel(v.Args[0]); root == rn && field != "" {
						mut = "mut"
					}
				}
			case *ast.AssignStmt:
				for _, l := range v.Lhs {
					if root, field, _ := rootSel(l); root == rn && field != "" {
						mut = "mut"
					}
					// cacheNode.Value = v : write through an element of the shared list
					if se, ok := l.(*ast.SelectorExpr); ok && (se.Sel.Name == "Value" || se.Sel.Name == "Key") {
						mut = "mut"
					}
				}
			}
			return true
		})
		f.CacheMethods[fd.Name.Name] = []string{lock, mut}
	}
}

func collectLimitChecks(files []*ast.File, f *Facts) {
	for _, fd := range funcDecls(files) {
		found := false
		ast.Inspect(fd.Body, func(n ast.Node) bool {
			be, ok := n.(*ast.BinaryExpr)
			if !ok || be.Op != token.GEQ {
				return true
			}
			s := exprString(be.Y)
			if strings.Contains(s, "abortIndex") {
				found = true
			}
			return true
		})
		if found {
			f.LimitChecks = append(f.LimitChecks, fd.Name.Name)
		}
	}
	sort.Strings(f.LimitChecks)
}

func exprString(e ast.Expr) string {
	switch v := e.(type) {
	case *ast.Ident:
		return v.Name
	case *ast.CallExpr:
		s := exprString(v.Fun) + "("
		for _, a := range v.Args {
			s += exprString(a)
		}
		return s + ")"
	case *ast.SelectorExpr:
		return exprString(v.X) + "." + v.Sel.Name
	}
	return "?"
}

/**************** Lean rendering ****************/

func leanStr(s string) string {
	var b strings.Builder
	b.WriteByte('"')
	for _, r := range s {
		switch r {
		case '"':
			b.WriteString("\\\"")
		case '\\':
			b.WriteString("\\\\")
		case '\n':
			b.WriteString("\\n")
		default:
			b.WriteRune(r)
		}
	}
	b.WriteByte('"')
	return b.String()
}

func leanStrList(xs []string) string {
	out := make([]string, len(xs))
	for i, x := range xs {
		out[i] = leanStr(x)
	}
	return "[" + strings.Join(out, ", ") + "]"
}

// leanBytes renders a Go string as a Lean list of byte values (theorems can `decide` over these).
func leanBytes(s string) string {
	out := make([]string, len(s))
	for i := 0; i < len(s); i++ {
		out[i] = strconv.Itoa(int(s[i]))
	}
	return "[" + strings.Join(out, ", ") + "]"
}

func leanBytesList(xs []string) string {
	out := make([]string, len(xs))
	for i, x := range xs {
		out[i] = leanBytes(x)
	}
	return "[" + strings.Join(out, ", ") + "]"
}

func sortedKeys(m map[string]string) []string {
	var ks []string
	for k := range m {
		ks = append(ks, k)
	}
	sort.Strings(ks)
	return ks
}

func render(f Facts) string {
	var b strings.Builder
	b.WriteString("/-\n  GENERATED by go/extract from /repo's working tree on every check run — do not edit.\n")
	b.WriteString("  Constants, tables and structural facts of the Go source that theorems in Props/ are stated over.\n-/\n")
	b.WriteString("namespace Rux.Facts\n\n")
	fmt.Fprintf(&b, "/-- `abortIndex` (context.go) -/\ndef abortIndex : Int := %d\n\n", f.AbortIndex)
	fmt.Fprintf(&b, "/-- declared type of `Context.index` -/\ndef indexType : String := %s\n\n", leanStr(f.IndexType))
	fmt.Fprintf(&b, "/-- `noWritten` (response_wirter.go) -/\ndef noWritten : Int := %d\n\n", f.NoWritten)
	fmt.Fprintf(&b, "/-- `anyMethods`, in source order (rux.go) -/\ndef anyMethods : List String := %s\n\n", leanStrList(f.AnyMethods))
	fmt.Fprintf(&b, "/-- `anyMethods` as byte strings -/\ndef anyMethodsB : List (List Nat) := %s\n\n", leanBytesList(f.AnyMethods))
	b.WriteString("/-- the method name constants (name, value) -/\ndef methodConsts : List (String × String) := [")
	for i, k := range sortedKeys(f.MethodConsts) {
		if i > 0 {
			b.WriteString(", ")
		}
		fmt.Fprintf(&b, "(%s, %s)", leanStr(k), leanStr(f.MethodConsts[k]))
	}
	b.WriteString("]\n\n")
	b.WriteString("/-- `RESTFulActions` (action name, methods), sorted by action name -/\ndef restfulActions : List (String × List String) := [")
	var acts []string
	for k := range f.RestfulActions {
		acts = append(acts, k)
	}
	sort.Strings(acts)
	for i, k := range acts {
		if i > 0 {
			b.WriteString(", ")
		}
		fmt.Fprintf(&b, "(%s, %s)", leanStr(k), leanStrList(f.RestfulActions[k]))
	}
	b.WriteString("]\n\n")
	b.WriteString("/-- `globalVars` (name, regex), sorted by name -/\ndef globalVars : List (String × String) := [")
	for i, k := range sortedKeys(f.GlobalVars) {
		if i > 0 {
			b.WriteString(", ")
		}
		fmt.Fprintf(&b, "(%s, %s)", leanStr(k), leanStr(f.GlobalVars[k]))
	}
	b.WriteString("]\n\n")
	b.WriteString("/-- `globalVars` as byte strings -/\ndef globalVarsB : List (List Nat × List Nat) := [")
	for i, k := range sortedKeys(f.GlobalVars) {
		if i > 0 {
			b.WriteString(", ")
		}
		fmt.Fprintf(&b, "(%s, %s)", leanBytes(k), leanBytes(f.GlobalVars[k]))
	}
	b.WriteString("]\n\n")
	fmt.Fprintf(&b, "def anyMatchB : List Nat := %s\n\n", leanBytes(f.AnyMatch))
	fmt.Fprintf(&b, "/-- `anyMatch`: regex of a `{name}` variable without a regex of its own -/\ndef anyMatch : String := %s\n\n", leanStr(f.AnyMatch))
	fmt.Fprintf(&b, "/-- default of `maxNumCaches` in `New` -/\ndef defaultMaxNumCaches : Int := %d\n\n", f.DefaultMaxCaches)
	b.WriteString("/-- context keys (constant name, value) -/\ndef ctxKeys : List (String × String) := [")
	for i, k := range sortedKeys(f.CtxKeys) {
		if i > 0 {
			b.WriteString(", ")
		}
		fmt.Fprintf(&b, "(%s, %s)", leanStr(k), leanStr(f.CtxKeys[k]))
	}
	b.WriteString("]\n\n")
	fmt.Fprintf(&b, "/-- fields of `Context`, in declaration order -/\ndef contextFields : List String := %s\n\n", leanStrList(f.ContextFields))
	fmt.Fprintf(&b, "/-- fields of `Context` assigned by `Init`/`Reset` (`writer` counts when `writer.reset` is called) -/\ndef contextFieldsReset : List String := %s\n\n", leanStrList(f.ContextReset))
	fmt.Fprintf(&b, "/-- fields of `responseWriter` -/\ndef writerFields : List String := %s\n\n", leanStrList(f.WriterFields))
	fmt.Fprintf(&b, "/-- fields of `responseWriter` assigned by `reset` -/\ndef writerFieldsReset : List String := %s\n\n", leanStrList(f.WriterReset))
	fmt.Fprintf(&b, "/-- every assignment to / append on / delete from a field of the shared Router or a shared Route inside the per-request functions -/\ndef requestPathWrites : List String := %s\n\n", leanStrList(f.RequestPathWrites))
	{
		var names []string
		for n := range f.WriterMethods {
			names = append(names, n)
		}
		sort.Strings(names)
		b.WriteString("/-- methods of `responseWriter`: (name, mentions the underlying `.Writer`?) sorted by name -/\ndef writerMethods : List (String × Bool) := [")
		for i, n := range names {
			if i > 0 {
				b.WriteString(", ")
			}
			fmt.Fprintf(&b, "(%q, %v)", n, f.WriterMethods[n])
		}
		b.WriteString("]\n\n")
	}
	b.WriteString("/-- methods of `cachedRoutes`: (name, lock taken first, mutates shared state?) sorted by name -/\ndef cacheMethods : List (String × String × Bool) := [")
	var cms []string
	for k := range f.CacheMethods {
		cms = append(cms, k)
	}
	sort.Strings(cms)
	for i, k := range cms {
		if i > 0 {
			b.WriteString(", ")
		}
		fmt.Fprintf(&b, "(%s, %s, %v)", leanStr(k), leanStr(f.CacheMethods[k][0]), f.CacheMethods[k][1] == "mut")
	}
	b.WriteString("]\n\n")
	fmt.Fprintf(&b, "/-- functions that compare a handler count with `abortIndex` using `>=` -/\ndef limitChecks : List String := %s\n\n", leanStrList(f.LimitChecks))
	b.WriteString("end Rux.Facts\n")
	return b.String()
}
