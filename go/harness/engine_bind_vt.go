package main

import (
	"fmt"
	"net/url"
	"reflect"
	"runtime"
	"strings"

	"github.com/gookit/rux/pkg/binding"
)

// Part of engine bind (C18): binds into SEVERAL struct types within the lifetime of ONE validator.
//
//	tbind <type> <api> <validator> <method> <ctype> <mclass> <rawquery> <body> <hdr> <jdec> <xdec> <mpv>
//
// is the bind op (same fields, same answers) with two differences:
//
//   - <type> names the struct type that is bound. All types have the two string fields V and Q with the tags of bT,
//     so the verdict fields mean the same for each of them; they differ in HOW the type is declared and in
//     whether V carries the rules `validate:"required|notIn:bad"`:
//     an, am  anonymous struct types without rules (am: fields in the other order)
//     ar      anonymous struct type with the rules
//     ln, lr  two function-local types that are both called `input`, without / with the rules
//     pn, pr  package-level named types without (vtPlain) / with (bT) the rules
//   - <validator> is off | std | keep. std installs a fresh standard validator before and after the op (what
//     every bind op does); keep leaves the standard validator that is installed alone, before and after: a run of
//     `keep` ops is a sequence of requests served by one process. The model has no such state: whether a bind
//     succeeds depends on this request and this type only ("a successful bind implies that the struct passed
//     validation whenever a validator is enabled"), never on the binds that happened before.
var vtTypeTokens = []string{"an", "am", "ar", "ln", "lr", "pn", "pr"}

type vtPlain struct {
	V string `form:"v" query:"v" header:"v" json:"v" xml:"v"`
	Q string `form:"q" query:"q" header:"q" json:"q" xml:"q"`
}

func vtLocalPlain() reflect.Type {
	type input struct {
		V string `form:"v" query:"v" header:"v" json:"v" xml:"v"`
		Q string `form:"q" query:"q" header:"q" json:"q" xml:"q"`
	}
	return reflect.TypeOf(input{})
}

func vtLocalRules() reflect.Type {
	type input struct {
		V string `form:"v" query:"v" header:"v" json:"v" xml:"v" validate:"required|notIn:bad"`
		Q string `form:"q" query:"q" header:"q" json:"q" xml:"q"`
	}
	return reflect.TypeOf(input{})
}

// vtType: the struct type of a token and whether it declares the rules
func vtType(tok string) (t reflect.Type, rules bool, ok bool) {
	switch tok {
	case "an":
		return reflect.TypeOf(struct {
			V string `form:"v" query:"v" header:"v" json:"v" xml:"v"`
			Q string `form:"q" query:"q" header:"q" json:"q" xml:"q"`
		}{}), false, true
	case "am":
		return reflect.TypeOf(struct {
			Q string `form:"q" query:"q" header:"q" json:"q" xml:"q"`
			V string `form:"v" query:"v" header:"v" json:"v" xml:"v"`
		}{}), false, true
	case "ar":
		return reflect.TypeOf(struct {
			V string `form:"v" query:"v" header:"v" json:"v" xml:"v" validate:"required|notIn:bad"`
			Q string `form:"q" query:"q" header:"q" json:"q" xml:"q"`
		}{}), true, true
	case "ln":
		return vtLocalPlain(), false, true
	case "lr":
		return vtLocalRules(), true, true
	case "pn":
		return reflect.TypeOf(vtPlain{}), false, true
	case "pr":
		return reflect.TypeOf(bT{}), true, true
	}
	return nil, false, false
}

func vtRule(v string) bool { return v != "" && v != "bad" }

// vtLine assembles a tbind op (the verdict fields come from bindLine)
func vtLine(typ, api, val, method, ctype, rawq, body string, hdr [][2]string) string {
	return "tbind " + typ + " " + strings.TrimPrefix(bindLine(api, val, method, ctype, rawq, body, hdr), "bind ")
}

// vtCall: callBind for a pointer to any of the struct types
func vtCall(api, method, ctype, rawq, body string, hdr [][2]string, obj reflect.Value) (ans string) {
	must := api == "pkgmust" || strings.HasSuffix(api, ".must")
	defer func() {
		if v := recover(); v != nil {
			if _, isRuntime := v.(runtime.Error); !isRuntime {
				if _, isErr := v.(error); isErr && must {
					ans = "panic:err"
					return
				}
			}
			ans = panicClass(v)
		}
	}()
	r, _ := mkReq(method, ctype, rawq, body, hdr)
	t := obj.Interface()
	var err error
	binderOf := func(name string) binding.Binder {
		switch name {
		case "form":
			return binding.Form
		case "query":
			return binding.Query
		case "header":
			return binding.Header
		case "json":
			return binding.JSON
		case "xml":
			return binding.XML
		}
		panic("harness: bad binder " + name)
	}
	switch api {
	case "auto":
		err = binding.Auto(r, t)
	case "pkgbind":
		err = binding.Bind(r, t)
	case "pkgmust":
		binding.MustBind(r, t)
	case "ctxbind":
		err = mkCtx(r).Bind(t)
	case "ctxauto":
		err = mkCtx(r).AutoBind(t)
	default:
		parts := strings.SplitN(api, ".", 2)
		if len(parts) != 2 {
			panic("harness: bad api " + api)
		}
		name, how := parts[0], parts[1]
		switch how {
		case "bind":
			err = binderOf(name).Bind(r, t)
		case "should":
			err = mkCtx(r).ShouldBind(t, binderOf(name))
		case "must":
			mkCtx(r).MustBind(t, binderOf(name))
		case "name":
			err = binding.GetBinder(name).Bind(r, t)
		case "ctx":
			switch name {
			case "form":
				err = mkCtx(r).BindForm(t)
			case "json":
				err = mkCtx(r).BindJSON(t)
			case "xml":
				err = mkCtx(r).BindXML(t)
			default:
				panic("harness: bad api " + api)
			}
		case "vals":
			vals, _ := url.ParseQuery(rawq)
			switch name {
			case "form":
				err = binding.Form.BindValues(vals, t)
			case "query":
				err = binding.Query.BindValues(vals, t)
			case "header":
				err = binding.Header.BindValues(r.Header, t)
			default:
				panic("harness: bad api " + api)
			}
		case "bytes":
			switch name {
			case "json":
				err = binding.JSON.BindBytes([]byte(body), t)
			case "xml":
				err = binding.XML.BindBytes([]byte(body), t)
			default:
				panic("harness: bad api " + api)
			}
		default:
			panic("harness: bad api " + api)
		}
	}
	if err != nil {
		return "err"
	}
	return "ok " + hx(obj.Elem().FieldByName("V").String()) + " " + hx(obj.Elem().FieldByName("Q").String())
}

// vtRun: one tbind op. The engine's Run installs a fresh standard validator before the first and after the
// last op of a case, and every other op of the engine leaves a fresh one behind, so `keep` always finds one.
func vtRun(f []string) (ans string, oracle []string) {
	typ, api, val := f[1], f[2], f[3]
	method, ctype, rawq, body := mustUnhx(f[4]), mustUnhx(f[5]), mustUnhx(f[7]), mustUnhx(f[8])
	hdr := parsePairList(f[9])
	rt, rules, ok := vtType(typ)
	if !ok {
		return "bad-op", nil
	}
	switch val {
	case "off":
		defer binding.ResetValidator()
		binding.DisableValidator()
	case "std":
		defer binding.ResetValidator()
		binding.ResetValidator()
	case "keep":
		if binding.Validator == nil {
			binding.ResetValidator()
		}
	default:
		return "bad-op", nil
	}
	obj := reflect.New(rt)
	ans = vtCall(api, method, ctype, rawq, body, hdr, obj)
	if strings.HasPrefix(ans, "panic:") && ans != "panic:err" {
		oracle = append(oracle, fmt.Sprintf("C18 never a panic: %s binding struct type %s through %s (method %q, Content-Type %q, query %q, body %q)", ans, typ, api, method, ctype, rawq, body))
	}
	if v := obj.Elem().FieldByName("V").String(); strings.HasPrefix(ans, "ok ") && val != "off" && rules && !vtRule(v) {
		oracle = append(oracle, fmt.Sprintf("C18 validated: bind of struct type %s (%v) through %s succeeded with V=%q, which violates the struct's rules although the validator is enabled (%s)", typ, rt, api, v, val))
	}
	return
}

/**************** corpus ****************/

func vtCorpus() []Case {
	var cs []Case
	add := func(tag string, ops ...string) { cs = append(cs, Case{Ops: ops, Tag: "corpus-" + tag}) }
	ue, js := "application/x-www-form-urlencoded", "application/json; charset=utf-8"
	// the handler style `var in struct{…}`: a rule-free anonymous struct is bound, then another anonymous struct
	// with rules and input that violates them — on every source; valid input is accepted
	add("types",
		vtLine("an", "auto", "keep", "POST", js, "", `{"v":"seq","q":"1"}`, nil),
		vtLine("ar", "auto", "keep", "POST", js, "", `{"q":"3"}`, nil),
		vtLine("ar", "auto", "keep", "POST", ue, "", "q=3&v=bad", nil),
		vtLine("ar", "auto", "keep", "GET", "", "q=3", "", nil),
		vtLine("ar", "auto", "keep", "PUT", "text/xml", "", `<T><q>3</q></T>`, nil),
		vtLine("ar", "auto", "keep", "POST", "multipart/form-data; boundary=XB", "", multipartBody("XB", [][2]string{{"v", "bad"}}), nil),
		vtLine("ar", "auto", "keep", "POST", js, "", `{"q":"3","v":"inhere"}`, nil),
	)
	// two function-local types that are both called `input`
	add("types",
		vtLine("ln", "auto", "keep", "POST", js, "", `{"q":"2"}`, nil),
		vtLine("lr", "auto", "keep", "POST", js, "", `{}`, nil),
		vtLine("lr", "json.bind", "keep", "POST", js, "", `{"v":"bad"}`, nil),
		vtLine("lr", "pkgmust", "keep", "POST", js, "", `{"v":""}`, nil),
		vtLine("lr", "auto", "keep", "POST", js, "", `{"v":"title"}`, nil),
	)
	// the other order, other pairs, package-level types, single binders and Context entry points
	add("types",
		vtLine("ar", "auto", "keep", "POST", js, "", `{}`, nil),
		vtLine("an", "auto", "keep", "POST", js, "", `{}`, nil),
		vtLine("ar", "auto", "keep", "POST", js, "", `{}`, nil),
	)
	add("types",
		vtLine("am", "query.bind", "keep", "GET", "", "q=1", "", nil),
		vtLine("lr", "query.should", "keep", "GET", "", "q=1", "", nil),
		vtLine("ar", "form.ctx", "keep", "POST", ue, "", "v=bad", nil),
		vtLine("pr", "ctxbind", "keep", "POST", ue, "", "v=", nil),
		vtLine("ar", "xml.must", "keep", "POST", "", "", `<T/>`, nil),
	)
	add("types",
		vtLine("pn", "auto", "keep", "GET", "", "q=1", "", nil),
		vtLine("pr", "auto", "keep", "GET", "", "q=1", "", nil),
		vtLine("ln", "auto", "keep", "GET", "", "q=1", "", nil),
		vtLine("ar", "auto", "keep", "GET", "", "v=bad", "", nil),
		vtLine("pr", "ctxauto", "keep", "GET", "", "v=bad", "", nil),
	)
	// a failed decode of the first type, validator off for the second, a fresh validator in between
	add("types",
		vtLine("an", "auto", "keep", "POST", js, "", `{`, nil),
		vtLine("ar", "auto", "keep", "POST", js, "", `{}`, nil),
		vtLine("an", "auto", "keep", "POST", js, "", `{}`, nil),
		vtLine("ar", "auto", "off", "POST", js, "", `{}`, nil),
		vtLine("ar", "auto", "keep", "POST", js, "", `{}`, nil),
		vtLine("an", "auto", "std", "POST", js, "", `{}`, nil),
		vtLine("ar", "auto", "std", "POST", js, "", `{}`, nil),
		vtLine("an", "auto", "keep", "POST", js, "", `{}`, nil),
		bindLine("auto", "std", "POST", js, "", `{}`, nil),
		vtLine("lr", "auto", "keep", "POST", js, "", `{}`, nil),
	)
	return cs
}

/**************** generator ****************/

var vtApisFor = map[string][]string{
	"query": {"query.bind", "query.should", "query.must", "query.name", "query.vals"},
	"form":  {"form.bind", "form.should", "form.must", "form.ctx", "form.name"},
	"json":  {"json.bind", "json.should", "json.must", "json.ctx", "json.name", "json.bytes"},
	"xml":   {"xml.bind", "xml.should", "xml.must", "xml.ctx", "xml.name", "xml.bytes"},
}

// vtRequest: a well-formed request that carries V = v (absent when !hasV) and Q = q in one of the five sources
func vtRequest(r *Rand, hasV bool, v, q string) (src, method, ctype, rawq, body string) {
	bm := r.Pick([]string{"POST", "PUT", "PATCH"})
	kvs := [][2]string{{"q", q}}
	vals := url.Values{"q": {q}}
	jm := map[string]string{"q": q}
	if hasV {
		kvs = append(kvs, [2]string{"v", v})
		vals["v"] = []string{v}
		jm["v"] = v
	}
	switch r.Intn(6) {
	case 0:
		return "query", r.Pick([]string{"GET", "GET", "DELETE", "HEAD"}), r.Pick([]string{"", "application/json"}), vals.Encode(), ""
	case 1:
		return "form", bm, "application/x-www-form-urlencoded" + r.Pick(ctParams[:4]), "", vals.Encode()
	case 2:
		return "multipart", bm, "multipart/form-data; boundary=XB", "", multipartBody("XB", kvs)
	case 3:
		x := xmlBody(v, q)
		if !hasV {
			x = r.Pick([]string{`<T><q>1</q></T>`, `<T></T>`, `<T/>`})
		}
		return "xml", bm, r.Pick([]string{"text/xml", "application/xml", "application/xml; charset=utf-8"}), "", x
	default:
		b := jsonBody(v, q)
		if !hasV {
			b = `{"q":"1"}`
			if r.Bool() {
				b = `{}`
			}
		}
		return "json", bm, "application/json" + r.Pick(ctParams[:4]), "", b
	}
}

// vtGen: a short history of binds served by ONE validator. Biased towards the shape "types without rules
// first, then types with rules and invalid input", but every order, every pair of types and every validator
// mode occurs.
func vtGen(r *Rand, tier string) Case {
	var ops []string
	n := r.Range(2, 6)
	warm := r.Range(0, 2) // how many of the first ops bind a rule-free type
	for i := 0; i < n; i++ {
		typ := r.Pick(vtTypeTokens)
		if i < warm {
			typ = r.Pick([]string{"an", "am", "ln", "an", "ln", "pn"})
		} else if r.Chance(2, 3) {
			typ = r.Pick([]string{"ar", "lr", "ar", "lr", "pr"})
		}
		hasV, v := true, genFieldValue(r)
		switch x := r.Intn(10); {
		case x < 2:
			hasV = false
		case x < 4:
			v = ""
		case x < 6:
			v = "bad"
		case x < 8:
			v = r.Pick([]string{"ok", "inhere", "Bad", "0", " "})
		}
		q := r.Pick([]string{"1", "Q", "", "x y"})
		src, m, ct, rawq, body := vtRequest(r, hasV, v, q)
		api := r.Pick(autoApis)
		if apis, ok := vtApisFor[src]; ok && r.Chance(1, 3) {
			api = r.Pick(apis)
		}
		val := "keep"
		switch x := r.Intn(20); {
		case x < 2:
			val = "off"
		case x < 4:
			val = "std"
		}
		ops = append(ops, vtLine(typ, api, val, m, ct, rawq, body, nil))
		if r.Chance(1, 25) { // an ordinary bind in between (it installs a fresh validator)
			ops = append(ops, bindLine("auto", genValidator(r), m, ct, rawq, body, nil))
		}
	}
	return Case{Ops: ops, Tag: "types"}
}
