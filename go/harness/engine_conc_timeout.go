package main

import (
	"fmt"
	"net/http"
	"net/http/httptest"
	"os"
	"path/filepath"
	"runtime"
	"runtime/debug"
	"time"

	"github.com/gookit/rux"
	"github.com/gookit/rux/pkg/handlers"
)

// Op `timeoutmw` of the conc engine (a case of its own): a router with handlers.Timeout(20ms) as global middleware
// serves a request whose handler overruns the deadline and does not look at the request context (it waits for the
// harness, then writes its answer), and - while that handler is still running - a second, quick request.  Two
// variants: plain handlers, and the static file handlers (the slow one reads from a FileSystem whose Open blocks, the
// quick one is a StaticDir of ANOTHER root).  What must hold whatever the middleware does about the deadline: every
// byte a handler writes reaches the response of ITS request; the quick request's response is exactly its own answer -
// also after the slow handler has finished.  The answer is a constant for the model (Drv/Conc.lean).
//
// The scenario runs with GOMAXPROCS(1) and the collector off, so that a context put back into the router's pool is
// the one the next request gets (sync.Pool's per-P private slot) - then a context that was released too early is
// deterministically the quick request's context.
const ccTimeoutSlowBody, ccTimeoutFastBody = "slow-result", "fast"

func ccTimeoutOp() string {
	return "plain " + ccTimeoutScenario(false) + " | static " + ccTimeoutScenario(true) + " | panic " + ccTimeoutPanic()
}

// ccTimeoutPanic: behind handlers.Timeout a handler waits until the deadline has passed and then panics; the router's
// OnPanic hook answers 500 "recovered".  The client sees exactly the hook's answer (what the middleware records while
// the panic passes through it is a status that the hook replaces, nothing is sent before the hook runs).
func ccTimeoutPanic() string {
	r := rux.New()
	r.OnPanic = func(c *rux.Context) {
		c.SetStatus(500)
		c.WriteString("recovered")
	}
	r.Use(handlers.Timeout(5 * time.Millisecond))
	r.GET("/slow", func(c *rux.Context) {
		<-c.Req.Context().Done()
		panic("boom")
	})
	w := httptest.NewRecorder()
	res := ""
	func() {
		defer func() {
			if v := recover(); v != nil {
				res = "escaped"
			}
		}()
		r.ServeHTTP(w, httptest.NewRequest("GET", "/slow", nil))
	}()
	if res != "" {
		return res
	}
	return fmt.Sprintf("%d:%s", w.Code, hx(w.Body.String()))
}

type ccSlowFS struct {
	fs       http.FileSystem
	started  chan struct{}
	release  chan struct{}
	finished chan struct{}
}

type ccSlowFile struct {
	http.File
	finished chan struct{}
}

func (f ccSlowFile) Close() error {
	err := f.File.Close()
	select {
	case <-f.finished:
	default:
		close(f.finished)
	}
	return err
}

func (s ccSlowFS) Open(name string) (http.File, error) {
	select {
	case <-s.started:
	default:
		close(s.started)
	}
	<-s.release
	f, err := s.fs.Open(name)
	if err != nil {
		select {
		case <-s.finished:
		default:
			close(s.finished)
		}
		return nil, err
	}
	return ccSlowFile{f, s.finished}, nil
}

func ccTimeoutScenario(static bool) (res string) {
	prev := runtime.GOMAXPROCS(1)
	defer runtime.GOMAXPROCS(prev)
	gc := debug.SetGCPercent(-1)
	defer debug.SetGCPercent(gc)

	started, release, finished := make(chan struct{}), make(chan struct{}), make(chan struct{})
	r := rux.New()
	r.Use(handlers.Timeout(20 * time.Millisecond))
	slowPath, fastPath := "/slow", "/fast"
	if !static {
		r.GET("/slow", func(c *rux.Context) {
			close(started)
			<-release
			c.WriteString(ccTimeoutSlowBody)
			close(finished)
		})
		r.GET("/fast", func(c *rux.Context) { c.WriteString(ccTimeoutFastBody) })
	} else {
		base, err := os.MkdirTemp("", "ruxverif-timeout")
		if err != nil {
			return "harness: " + err.Error()
		}
		defer os.RemoveAll(base)
		for d, body := range map[string]string{"a": ccTimeoutSlowBody, "b": ccTimeoutFastBody} {
			_ = os.Mkdir(filepath.Join(base, d), 0o755)
			if err := os.WriteFile(filepath.Join(base, d, "f.txt"), []byte(body), 0o644); err != nil {
				return "harness: " + err.Error()
			}
		}
		r.StaticFS("/a", ccSlowFS{http.Dir(filepath.Join(base, "a")), started, release, finished})
		r.StaticDir("/b", filepath.Join(base, "b"))
		slowPath, fastPath = "/a/f.txt", "/b/f.txt"
	}
	wait := func(ch chan struct{}, d time.Duration) bool {
		select {
		case <-ch:
			return true
		case <-time.After(d):
			return false
		}
	}
	S, F := httptest.NewRecorder(), httptest.NewRecorder()
	doneA := make(chan struct{})
	go func() {
		defer close(doneA)
		defer func() { _ = recover() }()
		r.ServeHTTP(S, httptest.NewRequest("GET", slowPath, nil))
	}()
	if !wait(started, 5*time.Second) {
		close(release)
		return "harness: the slow handler never started"
	}
	wait(doneA, 100*time.Millisecond) // the deadline (20ms) has passed; on the unchanged rux the request is still running
	func() {
		defer func() {
			if v := recover(); v != nil {
				res = "panic in the quick request"
			}
		}()
		r.ServeHTTP(F, httptest.NewRequest("GET", fastPath, nil))
	}()
	fastNow := fmt.Sprintf("%d:%s", F.Code, hx(F.Body.String()))
	close(release)
	if !wait(finished, 5*time.Second) || !wait(doneA, 5*time.Second) {
		return "harness: the slow request never finished"
	}
	if res != "" {
		return res
	}
	return fmt.Sprintf("slow=%d:%s fast=%s fast-afterwards=%d:%s", S.Code, hx(S.Body.String()), fastNow, F.Code, hx(F.Body.String()))
}
