//go:build race

package main

// raceEnabled: the binary was built with the race detector.
const raceEnabled = true
