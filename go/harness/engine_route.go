package main

import (
	"context"
	"fmt"
	"net/http"
	"net/http/httptest"
	"net/url"
	"regexp"
	"sort"
	"strconv"
	"strings"
	"unicode"
	"unicode/utf8"

	"github.com/gookit/rux"
)

// engines route / rcache / total: route tables on a real rux.Router vs the Lean table model.
//
//	new <mask> <cap> <intercept>   mask: 1 strict, 2 fallback, 4 notAllowed, 8 caching, 16 custom NotFound, 32 custom NotAllowed,
//	                               64 InterceptAll is the first option instead of the last, 256 / 512: NotFound() / NotAllowed() is
//	                               called with an EMPTY handler list afterwards (= the default handlers again)
//	reg ... <h>                    h: 0 plain handler, 1 nil handler, 2 handler that overwrites c.Params after answering
//	reg <id> <methods|-> <path> <nil>
//	q <method> <path>              Router.QuickMatch
//	serve <method> <path>          Router.ServeHTTP
//	ckeys                          cache keys in recency order
//	reopt                          WithOptions after registration
//	wopt <mask> <cap|-> <form>     one more Router.WithOptions(...) call (multi-step configuration): mask bits 1 strict, 2 fallback,
//	                               4 notAllowed, 8 caching are switched on, cap = MaxNumCaches ('-': not given); form%3: 0 MaxNumCaches
//	                               before EnableCaching, 1 after it, 2 CachingWithNum; form>=3: the cache options come first
//	buildq <name> <args> <style> <expect>   style: 0 rux.M, 1 key/value pairs, 2 a new BuildRequestURL builder, 3 the ONE builder
//	                               object of this router case, reused by every style-3 call (whatever the route)
//	new ... mask bit 128           UseEncodedPath: the path of a `serve` op is then the ESCAPED path of the request (URL.RawPath)
//	rereg <id>                     Router.AddRoute with the SAME *rux.Route value that `reg <id>` registered (a route with
//	                               variables is refused: "vars: 2, groups: 1"); the accepted definition must keep working
//	gvar <name> <regex>            rux.SetGlobalVar(name, regex) is in force during the registrations that follow in this case
//	                               (withGlobalVars: the package-level map is restored before each op returns)
type routeEngine struct{ name string }

func init() {
	register(routeEngine{"route"})  // C01 C02 C06: well-formed tables, all option masks
	register(routeEngine{"rcache"}) // C07 C14: caching routers, histories with repetition, twin comparison, key order
	register(routeEngine{"total"})  // C13: malformed definitions and degenerate requests
	register(routeEngine{"url"})    // C15: named routes, BuildURL round trip, name index
}

func (e routeEngine) Name() string         { return e.name }
func (e routeEngine) DriverEngine() string { return "route" }

func (e routeEngine) Budget(tier string) int {
	if tier == "thorough" {
		return 6000
	}
	return 500
}

func regOp(id int, methods []string, path string, nilH bool) string {
	return fmt.Sprintf("reg %d %s %s %s", id, hxList(methods), hx(path), b2s(nilH))
}

// regOpMut registers a route whose handler overwrites its own c.Params after answering.
func regOpMut(id int, methods []string, path string) string {
	return fmt.Sprintf("reg %d %s %s 2", id, hxList(methods), hx(path))
}

func (e routeEngine) Corpus() []Case {
	g, p := "GET", "POST"
	q := func(m, path string) string { return "q " + hx(m) + " " + hx(path) }
	sv := func(m, path string) string { return "serve " + hx(m) + " " + hx(path) }
	switch e.name {
	case "route":
		return append([]Case{
			// F1: two irregular routes under one method
			{Ops: []string{"new 0 0 -", regOp(1, nil, "/{a}", false), regOp(2, nil, "/{a}/{b}", false), q(g, "/x"), q(g, "/x/y")}},
			// F2: '.' in the literal prefix / first segment
			{Ops: []string{"new 0 0 -", regOp(1, nil, "/v1.0/users/{id}", false), regOp(2, nil, "/file.d/{id}", false), regOp(3, nil, "/a/b.c/{id}", false),
				q(g, "/v1.0/users/7"), q(g, "/v1x0/users/7"), q(g, "/file.d/9"), q(g, "/a/b.c/1"), q(g, "/a/bxc/1")}},
			// priority: static > regular > irregular, earliest wins
			{Ops: []string{"new 0 0 -", regOp(1, nil, "/{all}", false), regOp(2, nil, "/users/{id}", false), regOp(3, nil, "/users/{id:\\d+}", false), regOp(4, nil, "/users/new", false),
				q(g, "/users/new"), q(g, "/users/12"), q(g, "/users/ab"), q(g, "/other"), q(g, "/users/1/2")}},
			// regular list exhausted -> residual list must still be tried
			{Ops: []string{"new 0 0 -", regOp(1, nil, "/users[/{uid}]", false), regOp(2, nil, "/users/{uid}/edit", false), q(g, "/users/7"), q(g, "/users"), q(g, "/users/7/edit")}},
			// dots after the first variable / in optional parts are literal
			{Ops: []string{"new 0 0 -", regOp(1, nil, "/pkg/{pid}/v1.0", false), regOp(2, nil, "/doc/{did:\\d+}[.json]", false), q(g, "/pkg/7/v1x0"), q(g, "/pkg/7/v1.0"), q(g, "/doc/12xjson"), q(g, "/doc/12.json"), q(g, "/doc/12")}},
			// fallbacks in order: HEAD->GET, /*, 405, 404 ; F14 intercept not in normal form
			{Ops: []string{"new 6 0 -", regOp(1, []string{g}, "/a/{id}", false), regOp(2, []string{p, "HEAD"}, "/*", false), regOp(3, []string{"PUT"}, "/a/{id}", false),
				sv("HEAD", "/a/1"), sv("HEAD", "/zz"), sv(p, "/a/1"), sv("DELETE", "/a/1"), sv("OPTIONS", "/a/1"), sv("DELETE", "/zz"), q("DELETE", "/a/1")}},
			{Ops: []string{"new 0 0 " + hx("/x/"), regOp(1, nil, "/x", false), regOp(2, nil, "/y", false), sv(g, "/y"), sv(g, "/anything"), q(p, "/x")}},
			{Ops: []string{"new 1 0 " + hx(" x "), regOp(1, nil, "/x", false), sv(g, "/y")}},
			// option order: InterceptAll given before StrictLastSlash
			{Ops: []string{"new 65 0 " + hx("/soon/"), regOp(1, nil, "/soon/", false), regOp(2, nil, "/y", false), sv(g, "/y"), sv(g, "/soon"), q(p, "/y")}},
			// a custom regex under a global variable name keeps its own regex
			{Ops: []string{"new 0 0 -", regOp(1, nil, "/ar/{num:\\d{4}}", false), regOp(2, nil, "/t/{any:[a-z]+}/feed", false), regOp(3, nil, "/d/{all:[a-z]+}/edit", false), q(g, "/ar/7"), q(g, "/ar/2024"), q(g, "/t/Go-1/feed"), q(g, "/t/go/feed"), q(g, "/d/a/b/edit")}},
			// custom handlers, strict slash
			{Ops: []string{"new 53 0 -", regOp(1, []string{g}, "/a/", false), regOp(2, []string{p}, "/b/{id}/", false), sv(g, "/a"), sv(g, "/a/"), sv(g, "/b/1/"), sv(p, "/b/1"), sv(p, "/b/1/")}},
			// params: prefix/suffix in a segment, optional tails, global vars, spaces around name/regex
			{Ops: []string{"new 0 0 -", regOp(1, nil, "/u-{id}.html", false), regOp(2, nil, "/n/{cat}/{id: \\d+ }/detail", false), regOp(3, nil, "/o/{a}[/{b}[/{c}]]", false), regOp(4, nil, "/g/{num}/{all}", false),
				q(g, "/u-12.html"), q(g, "/u-.html"), q(g, "/n/x/12/detail"), q(g, "/o/1"), q(g, "/o/1/2"), q(g, "/o/1/2/3"), q(g, "/g/12/a/b/c"), q(g, "/g/012/a"), q(g, "/g/1/")}},
			// a path registered under all nine methods, asked with a method rux does not know: 405 with nine allowed methods
			{Ops: []string{"new 4 0 -", regOp(1, nineMethods, "/all/{id}", false), regOp(2, nineMethods, "/fixed", false), regOp(3, []string{g}, "/one", false),
				q("PURGE", "/fixed"), q("PURGE", "/all/3"), sv("PURGE", "/all/3"), sv("", "/fixed"), q("get ", "/all/x"), q(g, "/fixed"), q("PURGE", "/one"), sv("PURGE", "/none")}, Tag: "corpus-all-methods"},
			// an optional last slash `[/]`: the pattern stays a dynamic route (an earlier dynamic route for the same path wins,
			// an earlier static route is not replaced), with and without StrictLastSlash
			{Ops: []string{"new 0 0 -", regOp(1, nil, "/{name}", false), regOp(2, nil, "/users[/]", false), regOp(3, nil, "/about", false), regOp(4, nil, "/about[/]", false), regOp(5, nil, "/u/{id}[/]", false),
				q(g, "/users"), q(g, "/users/"), q(g, "/about"), q(g, "/about/"), q(g, "/u/7"), q(g, "/u/7/"), sv(g, "/users"), sv(g, "/about")}, Tag: "corpus-optional-slash"},
			{Ops: []string{"new 1 0 -", regOp(1, nil, "/{name}", false), regOp(2, nil, "/users[/]", false), regOp(3, nil, "/about", false), regOp(4, nil, "/about[/]", false),
				q(g, "/users"), q(g, "/users/"), q(g, "/about"), q(g, "/about/"), sv(g, "/users/"), sv(g, "/about/")}, Tag: "corpus-optional-slash"},
			{Ops: []string{"new 0 0 -", regOp(1, nil, "/users[/]", false), regOp(2, nil, "/{name}", false), regOp(3, nil, "/about[/]", false), regOp(4, nil, "/about", false),
				q(g, "/users"), q(g, "/about"), q(g, "/zzz"), sv(g, "/users"), sv(g, "/about")}, Tag: "corpus-optional-slash"},
			// routes of the same shape (the same path once the inline regexes are taken out) whose variables have different regexes
			{Ops: []string{"new 0 0 -", regOp(1, nil, "/item/{id:\\d+}", false), regOp(2, nil, "/item/{id:[a-z]+}", false), regOp(3, []string{p}, "/{y:\\d{4}}.html", false), regOp(4, []string{p}, "/{y:[a-z]+}.html", false),
				regOp(5, []string{"PUT"}, "/item/{id:[A-Z]+}", false),
				q(g, "/item/12"), q(g, "/item/abc"), q(g, "/item/ABC"), q(p, "/2024.html"), q(p, "/news.html"), q("PUT", "/item/ABC"), q("PUT", "/item/12"), sv(g, "/item/abc")}, Tag: "corpus-same-shape"},
			// F3: white-space only paths; request method strings of all kinds
			{Ops: []string{"new 4 0 -", regOp(1, nil, "/", false), q(g, "  "), q(g, ""), q("", "/"), q("get", "/"), q("GE", "/"), sv(" ", "\t")}},
		}, raCorpus("route")...)
	case "rcache":
		return append([]Case{
			// F7: first-segment routes must be cached under method+path
			{Ops: []string{"new 8 10 -", regOp(1, nil, "/users/{id}", false), q(g, "/users/1"), "ckeys", q(g, "/users/1"), "ckeys", q(g, "/users/2"), "ckeys"}},
			// evictions with capacity 1 and 2, repeated requests for evicted URLs
			{Ops: []string{"new 8 1 -", regOp(1, nil, "/{a}", false), regOp(2, nil, "/p/{a}/{b}", false), q(g, "/x"), q(g, "/p/1/2"), q(g, "/x"), q(g, "/p/1/2"), q(g, "/x"), "ckeys"}},
			{Ops: []string{"new 8 2 -", regOp(1, nil, "/users/{id}", false), regOp(2, nil, "/post/{pid}/c/{cid}", false), q(g, "/users/1"), q(g, "/users/2"), q(g, "/post/7/c/9"), q(g, "/users/1"), "ckeys", q(g, "/users/3"), q(g, "/users/1"), q(g, "/post/7/c/9"), "ckeys"}},
			// HEAD with its own route next to GET, 405 probes through the cache
			{Ops: []string{"new 12 4 -", regOp(1, []string{g}, "/f/{id}", false), regOp(2, []string{"HEAD"}, "/f/{id}", false), regOp(3, []string{g}, "/g/{id}", false),
				q(g, "/f/1"), q("HEAD", "/f/1"), q("HEAD", "/g/1"), q(p, "/g/1"), q(p, "/f/1"), "ckeys", sv(p, "/g/1")}},
			// routes without variables (optional only) are dynamic too and must be cached
			{Ops: []string{"new 8 5 -", regOp(1, nil, "/about[.html]", false), regOp(2, nil, "/blog/list[/all]", false), regOp(3, nil, "/blog[/{id}]", false), q(g, "/about.html"), q(g, "/about"), q(g, "/blog/list/all"), q(g, "/blog"), "ckeys", q(g, "/about"), "ckeys"}},
			// handlers that overwrite their own Params must not poison the cache (miss request and hit request)
			{Ops: []string{"new 8 5 -", regOpMut(1, nil, "/files/{name}.{ext}"), regOpMut(2, nil, "/{a}"), sv(g, "/files/readme.txt"), sv(g, "/files/readme.txt"), q(g, "/files/readme.txt"), sv(g, "/x"), sv(g, "/x"), sv(g, "/x"), q(g, "/x")}},
			// a cache hit must run the route's middleware too
			{Ops: []string{"new 8 5 -", fmt.Sprintf("reg 1 - %s 3", hx("/u/{id}")), sv(g, "/u/1"), sv(g, "/u/1"), sv(g, "/u/1"), sv("HEAD", "/u/1"), sv("HEAD", "/u/1")}},
			// capacity 0
			{Ops: []string{"new 8 0 -", regOp(1, nil, "/users/{id}", false), q(g, "/users/1"), q(g, "/users/1"), "ckeys"}},
			// F6: caching router without routes
			{Ops: []string{"new 8 3 -", q(g, "/a/b"), sv(g, "/x"), "ckeys"}},
			// multi-step configuration: the capacity in force is the one given LAST (a cache created by an earlier step must not survive)
			{Ops: []string{"new 8 1000 -", "wopt 0 2 0", regOp(1, nil, "/users/{id}", false), q(g, "/users/1"), q(g, "/users/2"), q(g, "/users/3"), "ckeys", q(g, "/users/1"), "ckeys", "wopt 0 9 0", q(g, "/users/2"), "ckeys"}},
			{Ops: []string{"new 0 0 -", "wopt 8 - 0", "wopt 1 1 3", regOp(1, nil, "/blog/{id}", false), q(g, "/blog/7"), q(g, "/blog/8"), "ckeys", q(g, "/blog/8/"), sv(g, "/blog/7"), "ckeys"}},
			// capacity first and the caching switch later; the capacity raised by a later step
			{Ops: []string{"new 4 0 -", "wopt 0 1 0", q(g, "/x"), "wopt 8 - 0", "ckeys", "wopt 10 3 5", regOp(1, nil, "/{a}", false), regOp(2, []string{p}, "/*", false), q(g, "/x"), q(g, "/y"), q(g, "/z"), q(g, "/w"), q(p, "/x"), "ckeys"}},
		}, raCorpus("rcache")...)
	case "url":
		kv := func(pairs ...string) string {
			if len(pairs) == 0 {
				return "-"
			}
			var out []string
			for i := 0; i+1 < len(pairs); i += 2 {
				out = append(out, hx(pairs[i])+"="+hx(pairs[i+1]))
			}
			return strings.Join(out, ",")
		}
		regn := func(id int, name, path string, api int) string {
			return fmt.Sprintf("regn %d %s - %s %d", id, hx(name), hx(path), api)
		}
		bq := func(name, args string, style, expect int) string {
			return fmt.Sprintf("buildq %s %s %d %d", hx(name), args, style, expect)
		}
		return []Case{
			// F15: a value that looks like another placeholder must not be substituted again
			{Ops: []string{"new 0 0 -", regn(1, "r", "/r/{a}/{b}", 0), bq("r", kv("{a}", "{b}", "{b}", "Z"), 0, 1), bq("r", kv("{b}", "Z", "{a}", "{b}"), 1, 1)}},
			// regexes containing ':' ; query arguments ; all three argument styles
			{Ops: []string{"new 0 0 -", regn(1, "it", "/items/{id:(?:\\d+)}", 0), regn(2, "lg", "/l/{lang:(?:en|fr)}/{page}", 1),
				bq("it", kv("{id}", "42"), 0, 1), bq("lg", kv("{lang}", "fr", "{page}", "a b", "q", "x&y", "p", "é"), 0, 2), bq("lg", kv("{lang}", "en", "{page}", "%3F#"), 1, 2), bq("lg", kv("{lang}", "en", "{page}", "p", "z", "1"), 2, 2)}},
			// the name index: the latest registration under a name wins, whichever API; renaming keeps other routes' names
			{Ops: []string{"new 0 0 -", regn(1, "n", "/a/{x}", 0), regn(2, "n", "/b/{x}", 1), "getroute " + hx("n"), "rename 1 " + hx("other"), "getroute " + hx("n"), "getroute " + hx("other"),
				bq("n", kv("{x}", "1"), 0, 2), regn(3, " n ", "/c/{x}", 2), "getroute " + hx("n"), bq("missing", "-", 0, -1), regn(4, "  ", "/d", 0), "getroute " + hx("")}},
			// a name that moves to another route (NamedTo = `rename`; AddNamed; a fresh registration): building WITHOUT arguments
			// follows the name index at once, also when the same call was made before the move
			{Ops: []string{"new 0 0 -", regn(1, "home", "/home", 0), regn(2, "start", "/start", 1), bq("home", "-", 1, 1), bq("home", "-", 0, 1), "rename 2 " + hx("home"),
				"getroute " + hx("home"), bq("home", "-", 1, 2), bq("home", "-", 0, 2), regn(3, "home", "/third", 0), bq("home", "-", 1, 3), "rename 1 " + hx("home"), bq("home", "-", 2, 1)}, Tag: "corpus-renamed"},
			// static named route, no arguments
			{Ops: []string{"new 0 0 -", regn(1, "home", "/home", 0), bq("home", "-", 1, 1), bq("home", kv("q", "1"), 0, 1)}},
			// K1 (known finding): the last value ends in white space or '/'
			{Ops: []string{"new 0 0 -", regn(1, "u", "/u/{name}", 0), bq("u", kv("{name}", "é "), 0, 1)}, Tag: "k1"},
			// style 3: ONE builder object for several routes and for the same route twice: every build replaces the placeholders of ITS route
			{Ops: []string{"new 0 0 -", regn(1, "user", "/users/{id:\\d+}", 0), regn(2, "post", "/posts/{slug}", 1), regn(3, "tp", "/tags/{tag}/page/{num}", 2), regn(4, "home", "/home", 0),
				bq("user", kv("{id}", "7"), 3, 1), bq("user", kv("{id}", "8", "q", "1"), 3, 1), bq("post", kv("{slug}", "hello"), 3, 2), bq("tp", kv("{tag}", "go", "{num}", "3"), 3, 3),
				bq("home", "-", 3, 4), bq("user", kv("{id}", "9"), 3, 1), bq("post", kv("{slug}", "x"), 2, 2)}},
			// the shared builder is first used for a static route, then for two dynamic ones
			{Ops: []string{"new 0 0 -", regn(1, "home", "/home", 0), regn(2, "a", "/a/{x}", 0), regn(3, "b", "/b/{y}/{x:[a-z]+}", 1),
				bq("home", kv("q", "1"), 3, 1), bq("a", kv("{x}", "1"), 3, 2), bq("b", kv("{x}", "k", "{y}", "2"), 3, 3), bq("a", kv("{x}", "{y}"), 3, 2)}},
		}
	default: // total
		return append([]Case{
			{Ops: []string{"new 0 0 -", regOp(1, []string{"DEL"}, "/x", false), regOp(2, []string{"G"}, "/x", false), regOp(3, []string{"GET,POST"}, "/x", false), regOp(4, []string{"get", " post "}, "/y", false), regOp(5, []string{" "}, "/z", false), regOp(6, nil, "/w", true), q(g, "/y"), q(p, "/y")}},
			{Ops: []string{"new 0 0 -", regOp(1, nil, "/c/{id:(?:a)(b)}", false), regOp(2, nil, "/c/{id:(\\d+)}", false), regOp(3, nil, "/blog[/(new|old)]", false), regOp(4, nil, "/files[.(json|xml)]", false), q(g, "/c/ab"), q(g, "/blog"), q(g, "/blog/new"), q(g, "/files.json")}},
			{Ops: []string{"new 0 0 -", regOp(1, nil, "/a[/b]/c", false), regOp(2, nil, "/a]", false), regOp(3, nil, "/a[[b]", false), regOp(4, nil, "/x/{id", false), regOp(5, nil, "/y/id}", false), regOp(6, nil, "/z/{}", false), q(g, "/x/{id"), q(g, "/y/id}"), q(g, "/z/{}")}},
			{Ops: []string{"new 8 3 -", q(g, "/a/b"), q(g, "  "), regOp(1, nil, "/a/{b}", false), "reopt", q(g, "/a/b")}},
		}, raCorpus("total")...)
	}
}

/**************** generators ****************/

type varKind struct {
	spec string   // text between the braces, %s = name
	vals []string // values in the regex language
	bad  []string // values outside it
}

var varKinds = []varKind{
	{"%s", []string{"1", "ab", "x.y", "a-b", "é", "12", "A_b", "%20", "a b", "a?b", "?", "what?", "a#b", ".", "..", "...", ".a", "0.00001", "dé\u00e0", "\u4f60", "\u041f\u0443\u0445"}, []string{""}},
	{"%s:\\d+", []string{"1", "007", "42", "1000000000000000000000"}, []string{"", "a", "1a", "-1"}},
	{"%s:[1-9][0-9]*", []string{"1", "10", "999"}, []string{"0", "01", "a"}},
	{"%s:[a-z-]+", []string{"a", "a-b", "zz"}, []string{"A", "a1", ""}},
	{"%s:[1-9]{1,2}", []string{"1", "12", "99"}, []string{"0", "123", "a"}},
	{"%s: \\w+ ", []string{"a_1", "Z", "09"}, []string{"a-b", "", "é"}},
	{"%s:(?:en|fr|de)", []string{"en", "fr", "de"}, []string{"it", "e", "enx"}},
	{"%s:.+", []string{"a", "a/b", "x.y/z", "css/../site.css", "a/./b", ".."}, []string{""}},
	{"%s:[^.-]+", []string{"a", "ab", "a_b", "é"}, []string{"a.b", "", "a-b"}},
	{"%s:[^-]{2}", []string{"ab", "12"}, []string{"a", "abc", "a-"}},
	{"%s:\\d{4}", []string{"2024", "0001"}, []string{"202", "20245", "abcd"}},
	{"%s:[a-z]+?", []string{"a", "abc"}, []string{"A", ""}},
	// custom regexes built from several non-capturing groups / a top-level alternation: the leading `(?:` and the
	// trailing `)` are not one pair
	{"%s:(?:\\d+)-(?:\\d+)", []string{"12-34", "1-2"}, []string{"12", "1-", "a-1", ""}},
	{"%s:(?:en)|(?:de)", []string{"en", "de"}, []string{"fr", "ende", "e", ""}},
	{"%s:(?:\\d+)\\.(?:\\d+)", []string{"1.20", "0.1", "0.00001"}, []string{"1", "1x2", "1."}},
	{"%s:(?:x|y)(?:1|2)", []string{"x1", "y2"}, []string{"x", "1x", "xy"}},
	{"%s:(?:[a-z]+)(?:-\\d+)?", []string{"ab", "ab-12"}, []string{"ab-", "-1", "AB"}},
	// a custom regex that is a plain word - the same word as the NAME of a global variable: it is a regex (it matches
	// that word and nothing else), not a reference to the global variable
	{"%s:num", []string{"num"}, []string{"7", "42", "nu", "numm", ""}},
	{"%s:any", []string{"any"}, []string{"a", "x.y", "12", ""}},
	{"%s:all", []string{"all"}, []string{"a", "a/b/c", "al", ""}},
	{"%s:new|old", []string{"new", "old"}, []string{"ne", "newold", ""}},
}

var globalNames = []struct {
	name string
	vals []string
	bad  []string
}{
	{"all", []string{"", "a", "a/b/c", "x.y"}, nil},
	{"any", []string{"a", "12", "x.y"}, []string{""}},
	{"num", []string{"1", "42", "900"}, []string{"0", "012", "a"}},
}

var litSegs = []string{"users", "blog", "a", "b", "v1.0", "file.d", "x-y", "api", "news", "p", "b.c", "é", "a_b", "static"}
var nineMethods = []string{"GET", "POST", "PUT", "PATCH", "DELETE", "OPTIONS", "HEAD", "CONNECT", "TRACE"}

type genVar struct {
	name string
	vals []string
	bad  []string
}

type genRoute struct {
	id      int
	methods []string
	pattern string
	// pieces for building instances: literal text and variables alternate; optional levels
	levels [][]piece
}

type piece struct {
	lit string
	v   *genVar
}

func genPattern(r *Rand, id int, shared []string) genRoute {
	gr := genRoute{id: id}
	varN := 0
	usedNames := map[string]bool{}
	newVar := func() (string, *genVar) {
		varN++
		if r.Chance(1, 6) {
			g := globalNames[r.Intn(len(globalNames))]
			// variable names are distinct inside a route
			if !usedNames[g.name] {
				usedNames[g.name] = true
				return "{" + g.name + "}", &genVar{g.name, g.vals, g.bad}
			}
		}
		k := varKinds[r.Intn(len(varKinds))]
		if r.Chance(2, 5) {
			k = varKinds[0]
		}
		name := fmt.Sprintf("v%d%c", varN, 'a'+byte(r.Intn(3)))
		if r.Chance(1, 10) { // a name that merely STARTS like a global variable is an ordinary name
			if nm := r.Pick([]string{"num1", "all2", "any3", "num22", "alls", "anyone"}); !usedNames[nm] {
				name = nm
			}
		}
		if r.Chance(1, 8) && k.spec != "%s" { // a custom regex under the name of a global variable: the custom regex rules
			gn := r.Pick([]string{"all", "any", "num"})
			if !usedNames[gn] {
				name = gn
			}
		}
		usedNames[name] = true
		return "{" + fmt.Sprintf(k.spec, name) + "}", &genVar{name, k.vals, k.bad}
	}
	genSegs := func(n int, first bool) (string, []piece) {
		var sb strings.Builder
		var ps []piece
		for i := 0; i < n; i++ {
			sb.WriteByte('/')
			ps = append(ps, piece{lit: "/"})
			lit := r.Pick(litSegs)
			if len(shared) > 0 && r.Chance(1, 2) {
				lit = r.Pick(shared)
			}
			switch x := r.Intn(10); {
			case x < 4 || (first && i == 0 && r.Chance(2, 3)): // literal segment
				sb.WriteString(lit)
				ps = append(ps, piece{lit: lit})
			case x < 8: // variable segment
				s, v := newVar()
				sb.WriteString(s)
				ps = append(ps, piece{v: v})
			case x < 9: // prefix-variable-suffix
				s, v := newVar()
				pre, suf := r.Pick([]string{"u-", "v", "", "a."}), r.Pick([]string{".html", "", "-x", ".json"})
				sb.WriteString(pre + s + suf)
				ps = append(ps, piece{lit: pre}, piece{v: v}, piece{lit: suf})
			default:
				sb.WriteString(lit)
				ps = append(ps, piece{lit: lit})
			}
		}
		return sb.String(), ps
	}
	n := r.Range(1, 3)
	s, ps := genSegs(n, true)
	gr.pattern = s
	gr.levels = [][]piece{ps}
	// optional tails
	if r.Chance(1, 4) {
		depth := r.Range(1, 2)
		tail := ""
		closers := ""
		for d := 0; d < depth; d++ {
			if r.Chance(1, 4) {
				ext := r.Pick([]string{".html", ".json", "/all"})
				tail += "[" + ext
				gr.levels = append(gr.levels, []piece{{lit: ext}})
			} else {
				ts, tps := genSegs(1, false)
				tail += "[" + ts
				gr.levels = append(gr.levels, tps)
			}
			closers += "]"
		}
		gr.pattern += tail + closers
	}
	// methods: 1-3 of the nine
	k := r.PickInt([]int{1, 1, 1, 2, 2, 3})
	seen := map[string]bool{}
	for len(gr.methods) < k {
		m := nineMethods[r.Intn(len(nineMethods))]
		if r.Chance(1, 2) {
			m = r.Pick([]string{"GET", "POST", "HEAD", "PUT"})
		}
		if !seen[m] {
			seen[m] = true
			gr.methods = append(gr.methods, m)
		}
	}
	if r.Chance(1, 25) { // like Any(): every method rux knows
		gr.methods = append([]string{}, nineMethods...)
	}
	return gr
}

// instance builds a path for the route; with good=false one variable gets a value outside its regex.
func (g genRoute) instance(r *Rand, good bool) string {
	nl := 1
	if len(g.levels) > 1 {
		nl = r.Range(1, len(g.levels))
	}
	var sb strings.Builder
	spoiled := good
	for _, lv := range g.levels[:nl] {
		for _, p := range lv {
			if p.v == nil {
				sb.WriteString(p.lit)
				continue
			}
			if !spoiled && len(p.v.bad) > 0 && r.Chance(1, 2) {
				sb.WriteString(r.Pick(p.v.bad))
				spoiled = true
				continue
			}
			sb.WriteString(r.Pick(p.v.vals))
		}
	}
	return sb.String()
}

func mutatePath(r *Rand, p string) string {
	switch r.Intn(9) {
	case 0:
		return p + "/"
	case 1:
		return " " + p + " "
	case 2:
		return "/" + p
	case 3:
		if len(p) > 1 {
			i := r.Range(1, len(p)-1)
			return p[:i] + p[i+1:]
		}
	case 4:
		i := r.Intn(len(p) + 1)
		return p[:i] + r.Pick([]string{"x", "/", ".", "1", "é", " ", "%2F"}) + p[i:]
	case 5:
		return strings.Replace(p, ".", "x", 1)
	case 6:
		return strings.TrimPrefix(p, "/")
	case 7:
		return p + r.Pick([]string{"/x", ".html", "/1/2", " /"})
	}
	return p
}

func (e routeEngine) Gen(r *Rand, tier string) Case {
	if e.name == "total" {
		return e.genTotal(r, tier)
	}
	if e.name == "url" {
		return e.genURL(r, tier)
	}
	if c, ok := e.raGen(r, tier); ok { // streams overlap / gvar / optonly (about 6% of the cases each)
		return c
	}
	mask := r.Intn(128) &^ 8
	if r.Chance(1, 6) {
		mask |= 256
	}
	if r.Chance(1, 6) {
		mask |= 512
	}
	cap := 0
	icpt := ""
	nRoutes := r.Range(1, 8)
	if tier == "thorough" {
		nRoutes = r.Range(1, 12)
	}
	tag := "wf"
	if e.name == "rcache" {
		mask |= 8
		cap = r.PickInt([]int{0, 1, 1, 2, 2, 3, 4, 1000})
		tag = fmt.Sprintf("cache-cap%d", min(cap, 5))
	} else if r.Chance(1, 12) {
		icpt = r.Pick([]string{"/users", "users/", " /a ", "/a/1/", "//blog", "/users/", "/blog/"})
		tag = "intercept"
	}
	shared := []string{r.Pick(litSegs), r.Pick(litSegs)}
	var routes []genRoute
	staticSeen := map[string]bool{}
	ops := []string{fmt.Sprintf("new %d %d %s", mask, cap, hx(icpt))}
	rbMulti := e.name == "rcache" && r.Chance(1, 4)
	if rbMulti { // the same final options, reached by New(...) + WithOptions(...) calls
		ops = rbConfigSteps(r, mask, cap, icpt)
		tag += "-steps"
	}
	for i := 1; i <= nRoutes; i++ {
		g := genPattern(r, i, shared)
		if r.Chance(1, 10) && mask&2 != 0 {
			g.pattern, g.levels = "/*", [][]piece{{{lit: "/*"}}}
		}
		// the property's domain: no two static routes with the same method and path
		if !strings.ContainsAny(g.pattern, "{[") {
			dup := false
			for _, m := range g.methods {
				if staticSeen[m+strings.TrimRight(g.pattern, "/")] {
					dup = true
				}
			}
			if dup {
				continue
			}
			for _, m := range g.methods {
				staticSeen[m+strings.TrimRight(g.pattern, "/")] = true
			}
		}
		routes = append(routes, g)
		pat := g.pattern
		if r.Chance(1, 10) {
			pat = r.Pick([]string{" " + pat, pat + "/", strings.TrimPrefix(pat, "/"), "/" + pat})
		}
		ms := g.methods
		if len(ms) == 1 && ms[0] == "GET" && r.Bool() {
			ms = nil // default method
		}
		if r.Chance(1, 5) {
			ops = append(ops, regOpMut(g.id, ms, pat))
		} else if r.Chance(1, 3) { // a route middleware (3), possibly with a handler that scribbles into Params (4)
			ops = append(ops, fmt.Sprintf("reg %d %s %s %d", g.id, hxList(ms), hx(pat), r.PickInt([]int{3, 3, 4})))
		} else {
			ops = append(ops, regOp(g.id, ms, pat, false))
		}
	}
	if rbMulti && r.Chance(1, 8) { // WithOptions after the routes exist is refused and changes nothing
		ops = append(ops, fmt.Sprintf("wopt %d %s %d", r.Intn(16), r.Pick([]string{"-", "0", "1", "2"}), r.Intn(6)))
	}
	if len(routes) == 0 {
		return Case{Ops: ops, Tag: tag}
	}
	nProbes := r.Range(10, 40)
	if tier == "thorough" {
		nProbes = r.Range(20, 120)
	}
	var recent []string
	for i := 0; i < nProbes; i++ {
		g := routes[r.Intn(len(routes))]
		path := g.instance(r, r.Chance(3, 4))
		if r.Chance(1, 4) {
			path = mutatePath(r, path)
		}
		if r.Chance(1, 25) {
			path = r.Pick([]string{"", "/", " ", "//", "/*", "\xff\xfe", "/\x00", "a"})
		}
		method := g.methods[r.Intn(len(g.methods))]
		switch x := r.Intn(20); {
		case x < 3:
			method = nineMethods[r.Intn(9)]
		case x < 5:
			method = "HEAD"
		case x == 5:
			method = r.Pick([]string{"get", "Get", "", "PURGE", "GET ", "G"})
		case x == 6:
			method = "OPTIONS"
		}
		// histories with repetition (cache hits, recency)
		if e.name == "rcache" && len(recent) > 0 && r.Chance(1, 2) {
			mp := strings.SplitN(recent[r.Intn(len(recent))], "\x01", 2)
			method, path = mp[0], mp[1]
		}
		recent = append(recent, method+"\x01"+path)
		if len(recent) > 6 {
			recent = recent[1:]
		}
		op := "q"
		if r.Chance(1, 3) {
			op = "serve"
		}
		ops = append(ops, op+" "+hx(method)+" "+hx(path))
		if e.name == "rcache" && r.Chance(1, 2) {
			ops = append(ops, "ckeys")
		}
	}
	if e.name == "rcache" {
		ops = append(ops, "ckeys")
	}
	return Case{Ops: ops, Tag: tag}
}

var junkPatterns = []string{"/x/{id", "/y/id}", "/z/{}", "/a[/b]/c", "/a]", "/a[[b]", "/a[b]]", "/{a}{b}", "/{a}-{b}", "/{:x}", "/{ a : \\d+ }", "/c/{id:(\\d+)}",
	"/c/{id:(?:a)(b)}", "/c/{id:(?:a|b)+}", "/c/{id:[}", "/c/{id:a{2,1}}", "/c/{id:\\}", "/c/{id:(?i)a}", "/c/{id:(?P<n>a)}", "/b[/(new|old)]", "/f[.(json|xml)]", "/p/a+b", "/p/a*", "/p/(a)", "/p/a|b",
	"/p/^a$", "/p/\\d", "/{a:.*}/{b:.*}", "/{id}/{id}", "/x/{id:\\d+}/{id}", "/[a]", "[/a]", "/a[/{b}][/{c}]", "/a/{b:[^/]+/c}", "{a}", "/{a", "/a}", "/{a:}", "/{a:(}", "/{a:)}", "/{a:\xff}", "/\xff/{a}", "/é/{a:é+}",
	// dotted variable names (the dot is quoted, so the braces stay literal text) next to a capturing group
	"/dl/{file.name}/{rev.id}/v(\\d+)", "/dl/{file.name}/{rev.id}/{n:(?:v)(\\d+)}", "/dl/{a.b}/(x)", "/dl/{a.b}/{c}/(x)"}

var junkMethods = []string{"DEL", "G", "GET,POST", "get", " post ", "", " ", "PURGE", "GETX", "OPTIONS", "TRACE", "CONNECT", "Head", "gEt", "\tPUT\n"}

func (e routeEngine) genTotal(r *Rand, tier string) Case {
	mask := r.Intn(64)
	cap := r.PickInt([]int{0, 1, 2, 1000})
	icpt := ""
	if r.Chance(1, 10) {
		icpt = r.Pick([]string{"/x", " ", "x/"})
	}
	ops := []string{fmt.Sprintf("new %d %d %s", mask, cap, hx(icpt))}
	n := r.Range(0, 5)
	var pats []string
	for i := 1; i <= n; i++ {
		pat := r.Pick(junkPatterns)
		if r.Chance(1, 3) {
			pat = genPattern(r, i, nil).pattern
			if r.Chance(1, 2) { // damage a well-formed pattern
				j := r.Intn(len(pat) + 1)
				pat = pat[:j] + r.Pick([]string{"{", "}", "[", "]", "(", ")", "*", "+", "?", "|", "\\", ":", ".", " ", "/"}) + pat[j:]
			}
		}
		var ms []string
		for k := r.Intn(3); k > 0; k-- {
			if r.Chance(1, 2) {
				ms = append(ms, nineMethods[r.Intn(9)])
			} else {
				ms = append(ms, r.Pick(junkMethods))
			}
		}
		ops = append(ops, regOp(i, ms, pat, r.Chance(1, 15)))
		pats = append(pats, pat)
		if strings.Contains(pat, "{") && r.Chance(1, 12) { // the same *Route value is registered once more
			ops = append(ops, fmt.Sprintf("rereg %d", i))
		}
		if r.Chance(1, 10) {
			ops = append(ops, "reopt")
		}
	}
	degenerate := []string{"", " ", "\t \n", "/", "//", "///a//", "\x00", "/\xff\xfe", "/a/b", "/x/{id", "/c/ab", "/c/1", "/b", "/b/new", "/f.json", "/p/a", "/p/aab", strings.Repeat("/a", 2000), strings.Repeat("a", 5000), "/é/éé", " /a/ /"}
	for i := r.Range(3, 12); i > 0; i-- {
		path := r.Pick(degenerate)
		if len(pats) > 0 && r.Chance(1, 2) {
			path = mutatePath(r, pats[r.Intn(len(pats))])
		}
		m := r.Pick(append(append([]string{}, nineMethods...), junkMethods...))
		op := r.Pick([]string{"q", "q", "serve"})
		ops = append(ops, op+" "+hx(m)+" "+hx(path))
	}
	return Case{Ops: ops, Tag: "malformed"}
}

/**************** implementation side ****************/

type routeImpl struct {
	byID     map[int]*rux.Route
	r        *rux.Router
	twin     *rux.Router // same table without caching (only when caching is on)
	caching  bool
	accepted int
	// multi-step configuration (wopt): the option mask accumulated so far and the intercept path of 'new'
	rbMask int
	rbIcpt string
	// the shared BuildRequestURL object of buildq style 3 (created by the first such call after 'new')
	rbShared      *rux.BuildRequestURL
	raGvars       [][2]string // `gvar` ops of the case so far: in force (withGlobalVars) during every registration that follows
	handlerStatus string      // when set, the route handlers answer with this status (header X-Verif-Status of the request)
	lastServed    string      // path of the last `serve` op (the re-dispatch oracle starts from it)
	raNil         string      // nil-ness of the params map the last lookup handed out / the last handler saw ("" = none)
	raEnc         bool        // the router uses the escaped request path (mask bit 128)
	heldAlm       []string    // an allowed-methods list an earlier QuickMatch returned (the slice itself) and what it read then
	heldAlmStr    string
	almOracle     []string
	raRegs        map[int][2]*rux.Route // the *Route values the `reg` ops registered: main router, twin
}

func fmtParams(ps rux.Params) string {
	if len(ps) == 0 {
		return "-"
	}
	ks := make([]string, 0, len(ps))
	for k := range ps {
		ks = append(ks, k)
	}
	sort.Strings(ks)
	out := make([]string, len(ks))
	for i, k := range ks {
		out[i] = hx(k) + "=" + hx(ps[k])
	}
	return strings.Join(out, ",")
}

// routeHandlerBody: a body written by a route handler ("R<id>:<params>"), not by a built-in 404/405 handler
var routeHandlerBody = regexp.MustCompile(`R\d+:`)

func routeHandler(id int, mutate bool) rux.HandlerFunc {
	return func(c *rux.Context) {
		if mutate {
			// a handler that scribbles into its own Params after answering: later requests must not notice
			defer func() {
				for k := range c.Params {
					c.Params[k] = "EVIL"
				}
				if c.Params != nil {
					c.Params["zz"] = "evil"
				}
			}()
		}
		ks := make([]string, 0, len(c.Params))
		for k := range c.Params {
			ks = append(ks, k)
		}
		sort.Strings(ks)
		var sb strings.Builder
		fmt.Fprintf(&sb, "R%d:", id)
		for _, k := range ks {
			sb.WriteString(k + "=" + c.Params[k] + ";")
		}
		if st := c.Req.Header.Get("X-Verif-Status"); st != "" { // the resource the path names does not exist: the HANDLER says 404
			c.SetStatus(atoi(st))
		}
		c.WriteString(sb.String())
	}
}

var sharedCachingOpts = map[int]func(*rux.Router){}

func newRouter(mask, cap int, icpt string, caching bool) *rux.Router {
	var opts []func(*rux.Router)
	if icpt != "" && mask&64 != 0 { // options are applied in order: the intercept path may come first
		opts = append(opts, rux.InterceptAll(icpt))
	}
	if mask&1 != 0 {
		opts = append(opts, rux.StrictLastSlash)
	}
	if mask&2 != 0 {
		opts = append(opts, rux.HandleFallbackRoute)
	}
	if mask&4 != 0 {
		opts = append(opts, rux.HandleMethodNotAllowed)
	}
	if mask&128 != 0 {
		opts = append(opts, rux.UseEncodedPath)
	}
	if caching {
		// ONE option value per capacity for all routers of the process (an application's shared `opts` slice): every
		// router still gets a cache of its own
		opt, ok := sharedCachingOpts[cap]
		if !ok {
			opt = rux.CachingWithNum(uint16(cap))
			sharedCachingOpts[cap] = opt
		}
		opts = append(opts, opt)
	}
	if icpt != "" && mask&64 == 0 {
		opts = append(opts, rux.InterceptAll(icpt))
	}
	r := rux.New(opts...)
	r.Use(routeFwdMW)
	if mask&16 != 0 {
		r.NotFound(func(c *rux.Context) {
			c.SetStatus(404)
			c.WriteString("NF")
		})
	}
	if mask&32 != 0 {
		r.NotAllowed(func(c *rux.Context) {
			allowed, _ := c.SafeGet(rux.CTXAllowedMethods).([]string)
			a := append([]string{}, allowed...)
			sort.Strings(a)
			c.SetStatus(405)
			c.WriteString("NA:" + strings.Join(a, ","))
		})
	}
	// an EMPTY handler list (r.NotFound(cfg.Handlers...) with nothing configured, or custom handlers taken away
	// again) means "the default handlers"
	if mask&256 != 0 {
		r.NotFound()
	}
	if mask&512 != 0 {
		r.NotAllowed()
	}
	return r
}

func (im *routeImpl) quick(r *rux.Router, m, p string) string {
	route, ps, alm := r.QuickMatch(m, p)
	// what an earlier caller got back belongs to that caller: a later lookup must not change it
	if im.heldAlm != nil && strings.Join(im.heldAlm, ",") != im.heldAlmStr {
		im.almOracle = append(im.almOracle, fmt.Sprintf("C06 allowed set: the list %q returned by an earlier lookup reads %q after the lookup %s %q", im.heldAlmStr, strings.Join(im.heldAlm, ","), m, p))
		im.heldAlm = nil
	}
	if len(alm) > 0 && im.heldAlm == nil {
		im.heldAlm, im.heldAlmStr = alm, strings.Join(alm, ",")
	}
	if route != nil {
		im.raNil = raNilness(ps)
		for id, p := range im.byID {
			if p == route {
				return fmt.Sprintf("route %d %s", id, fmtParams(ps))
			}
		}
		return "route " + strings.TrimPrefix(route.Name(), "r") + " " + fmtParams(ps)
	}
	if len(alm) > 0 {
		a := append([]string{}, alm...)
		sort.Strings(a)
		return "allowed " + hxList(a)
	}
	return "none"
}

// routeFwdKey: the request context carries the URL the global middleware re-dispatches the context to
type routeFwdKey struct{}

// routeFwdMW is inert unless the request carries a forward target: then it rewrites the request URL and hands the
// context to Router.HandleContext (rux's documented way to dispatch a context again), once.
func routeFwdMW(c *rux.Context) {
	to, ok := c.Req.Context().Value(routeFwdKey{}).(*url.URL)
	if !ok || c.Req.Header.Get("X-Verif-Fwd") != "" {
		return
	}
	c.Req.Header.Set("X-Verif-Fwd", "1")
	c.Req.URL = to
	c.Router().HandleContext(c)
	c.Abort()
}

// serveFwd: a request for `from` that the global middleware re-dispatches to `p`
func (im *routeImpl) serveFwd(r *rux.Router, m, from, p string) string {
	w := httptest.NewRecorder()
	to := &url.URL{Path: p}
	fu := &url.URL{Path: from}
	if im.raEnc {
		var ok, ok2 bool
		if to, ok = raEscapedURL(p); !ok {
			return "harness: not the escaped path of a request"
		}
		if fu, ok2 = raEscapedURL(from); !ok2 {
			return "harness: not the escaped path of a request"
		}
	}
	req := &http.Request{Method: m, URL: fu, Header: http.Header{}, Proto: "HTTP/1.1", ProtoMajor: 1, ProtoMinor: 1}
	req = req.WithContext(context.WithValue(context.Background(), routeFwdKey{}, to))
	r.ServeHTTP(w, req)
	return fmt.Sprintf("%d %s %s", w.Code, hx(w.Header().Get("Allow")), hx(w.Body.String()))
}

func (im *routeImpl) serve(r *rux.Router, m, p string) string {
	w := httptest.NewRecorder()
	req := &http.Request{Method: m, URL: &url.URL{Path: p}, Header: http.Header{}, Proto: "HTTP/1.1", ProtoMajor: 1, ProtoMinor: 1}
	if im.handlerStatus != "" {
		req.Header.Set("X-Verif-Status", im.handlerStatus)
	}
	if im.raEnc { // UseEncodedPath: p is the escaped path of the request
		u, ok := raEscapedURL(p)
		if !ok {
			return "harness: not the escaped path of a request"
		}
		req.URL = u
	}
	r.ServeHTTP(w, req)
	return fmt.Sprintf("%d %s %s", w.Code, hx(w.Header().Get("Allow")), hx(w.Body.String()))
}

func guarded(f func() string) (res string) {
	defer func() {
		if v := recover(); v != nil {
			res = panicClass(v)
		}
	}()
	return f()
}

func (e routeEngine) Run(ops []string) (ans []string, oracle []string) {
	im := &routeImpl{r: rux.New(), byID: map[int]*rux.Route{}}
	for _, op := range ops {
		f := strings.Fields(op)
		var a string
		switch f[0] {
		case "new":
			mask, cap := atoi(f[1]), atoi(f[2])
			icpt := mustUnhx(f[3])
			im.caching = mask&8 != 0
			im.rbMask, im.rbIcpt, im.rbShared = mask, icpt, nil
			a = guarded(func() string {
				im.r = newRouter(mask, cap, icpt, im.caching)
				im.heldAlm = nil
				im.lastServed = ""
				im.twin = nil
				if im.caching {
					im.twin = newRouter(mask, cap, icpt, false)
				}
				im.accepted = 0
				im.byID = map[int]*rux.Route{}
				im.raGvars = nil
				im.raEnc = mask&128 != 0
				im.raRegs = map[int][2]*rux.Route{}
				return "ok"
			})
		case "reg":
			id := atoi(f[1])
			var methods []string
			if f[2] != "-" {
				for _, h := range strings.Split(f[2], ",") {
					methods = append(methods, mustUnhx(h))
				}
			}
			path := mustUnhx(f[3])
			var h rux.HandlerFunc
			if f[4] != "1" {
				h = raObserveNil(im, routeHandler(id, f[4] == "2" || f[4] == "4"))
			}
			withMw := f[4] == "3" || f[4] == "4"
			mw := func(c *rux.Context) {
				c.WriteString(fmt.Sprintf("M%d;", id))
				c.Next()
			}
			a = guarded(func() string {
				rt := rux.NewNamedRoute(fmt.Sprintf("r%d", id), path, h, methods...)
				if withMw {
					rt.Use(mw)
				}
				withGlobalVars(im.raGvars, func() { im.r.AddRoute(rt) })
				im.accepted++
				if im.raRegs != nil {
					im.raRegs[id] = [2]*rux.Route{rt, nil}
				}
				start, _, regex, names := rt.VerifRouteInfo()
				if regex == "" {
					return "ok " + hx(rt.Path()) + " ;; S"
				}
				// tier and first segment from the tables
				stable, regular, _ := im.r.VerifTables()
				_ = stable
				tier, first := "I", ""
				for k, paths := range regular {
					for _, p := range paths {
						if p == rt.Path() {
							for _, m := range rt.Methods() {
								if strings.HasPrefix(k, m) && tier == "I" {
									// the key is method+first; several methods may be prefixes, all give the same suffix
									tier, first = "R", strings.TrimPrefix(k, m)
								}
							}
						}
					}
				}
				re := strings.TrimSuffix(strings.TrimPrefix(regex, "^"), "$")
				return fmt.Sprintf("ok %s ;; %s %s %s %s %s", hx(rt.Path()), tier, hx(start), hx(first), hx(re), hxList(names))
			})
			if strings.HasPrefix(a, "panic") {
				a = "reject"
			}
			if im.twin != nil {
				guarded(func() string {
					trt := rux.NewNamedRoute(fmt.Sprintf("r%d", id), path, h, methods...)
					if withMw {
						trt.Use(mw)
					}
					withGlobalVars(im.raGvars, func() { im.twin.AddRoute(trt) })
					if pr, ok := im.raRegs[id]; ok && pr[0] != nil {
						im.raRegs[id] = [2]*rux.Route{pr[0], trt}
					}
					return ""
				})
			}
		case "reopt":
			a = guarded(func() string { im.r.WithOptions(); return "ok" })
			if strings.HasPrefix(a, "panic") {
				a = "reject"
			}
		case "wopt":
			a = guarded(func() string { return im.rbWithOptions(atoi(f[1]), f[2], atoi(f[3])) })
			if strings.HasPrefix(a, "panic") {
				a = "reject"
			}
		case "q", "serve":
			m, p := mustUnhx(f[1]), mustUnhx(f[2])
			// the routing table is printed (Router.String(), what handlers.DumpRoutesHandler shows) before every lookup:
			// printing is read-only
			_ = guarded(func() string { return im.r.String() })
			fn := im.quick
			if f[0] == "serve" {
				fn = im.serve
			}
			im.raNil = ""
			a = guarded(func() string { return fn(im.r, m, p) })
			nilMain := im.raNil
			if strings.HasPrefix(a, "panic") {
				oracle = append(oracle, fmt.Sprintf("C13 lookup panicked (%s) on an accepted table: %s", a, op))
			}
			// the public Match is QuickMatch on the upper-cased method: the same route, whatever the method string is
			// (only on routers without cache: a second lookup would touch the LRU list the model tracks)
			if f[0] == "q" && !im.caching && !strings.HasPrefix(a, "panic") {
				mm := guarded(func() string {
					r1, _, _ := im.r.Match(m, p)
					r2, _, _ := im.r.QuickMatch(strings.ToUpper(m), p)
					if r1 != r2 {
						return "another route"
					}
					return ""
				})
				if mm != "" {
					oracle = append(oracle, fmt.Sprintf("C13 Match(%q, %q) against QuickMatch of the upper-cased method: %s", m, p, mm))
				}
			}
			// the same request reached through a re-dispatch (a middleware rewrites the URL of an earlier request and calls
			// HandleContext): the context is reset, so the answer is the answer to the direct request
			// (not on caching routers: the extra lookups would reorder the LRU list the model tracks)
			if f[0] == "serve" && !im.caching && !strings.HasPrefix(a, "panic") && !strings.HasPrefix(a, "harness") {
				if im.lastServed != "" && im.lastServed != p {
					from := im.lastServed
					if fw := guarded(func() string { return im.serveFwd(im.r, m, from, p) }); fw != a {
						oracle = append(oracle, fmt.Sprintf("C02 a request for %q re-dispatched (HandleContext) to %q answered %q, the direct request %q: %s", from, p, fw, a, op))
					}
				}
				im.lastServed = p
			}
			// the same request again, this time the route's HANDLER answers 404 (the resource behind the path is gone): what
			// a handler answers is not the router's business - same body, and (the `ckeys` ops show it) the same route cache.
			// (The entry of the request just served is the most recent one, the repeat does not reorder the LRU list.)
			if af := strings.Fields(a); f[0] == "serve" && len(af) == 3 && af[0] == "200" && routeHandlerBody.MatchString(mustUnhx(af[2])) {
				im.handlerStatus = "404"
				again := guarded(func() string { return im.serve(im.r, m, p) })
				im.handlerStatus = ""
				want := "404 " + strings.TrimPrefix(a, "200 ")
				if !strings.HasPrefix(mustUnhx(af[2]), "R") { // a middleware wrote first: the 200 was committed before the handler ran
					want = a
				}
				if again != want {
					oracle = append(oracle, fmt.Sprintf("C14 a route handler that answers 404: %q, with status 200 it was %q: %s", again, a, op))
				}
			}
			if im.twin != nil {
				im.raNil = ""
				t := guarded(func() string { return fn(im.twin, m, p) })
				if t != a {
					oracle = append(oracle, fmt.Sprintf("C07 caching router answered %q, the same router without cache %q, for %s", a, t, op))
				} else if im.raNil != nilMain {
					// what a handler can see without writing: `c.Params == nil`, json.Marshal(c.Params) = null / {}
					oracle = append(oracle, fmt.Sprintf("C07 caching router handed out a %s params map, the same router without cache a %s one (answer %q), for %s", nilMain, im.raNil, a, op))
				}
			}
		case "regn":
			id := atoi(f[1])
			name, path, api := mustUnhx(f[2]), mustUnhx(f[4]), atoi(f[5])
			var methods []string
			if f[3] != "-" {
				for _, h := range strings.Split(f[3], ",") {
					methods = append(methods, mustUnhx(h))
				}
			}
			a = guarded(func() string {
				var rt *rux.Route
				withGlobalVars(im.raGvars, func() {
					switch api {
					case 0:
						rt = im.r.AddNamed(name, path, routeHandler(id, false), methods...)
					case 1:
						rt = rux.NewNamedRoute(name, path, routeHandler(id, false), methods...)
						im.r.AddRoute(rt)
					default:
						rt = im.r.Add(path, routeHandler(id, false), methods...)
						rt.NamedTo(name, im.r)
					}
				})
				im.byID[id] = rt
				return "ok " + hx(rt.Path())
			})
			if strings.HasPrefix(a, "panic") {
				a = "unsupported-reject"
			}
		case "rename":
			id, name := atoi(f[1]), mustUnhx(f[2])
			a = guarded(func() string {
				if rt := im.byID[id]; rt != nil {
					rt.NamedTo(name, im.r)
				}
				return "ok"
			})
		case "getroute":
			a = guarded(func() string {
				rt := im.r.GetRoute(mustUnhx(f[1]))
				if rt == nil {
					return "none"
				}
				for id, p := range im.byID {
					if p == rt {
						return fmt.Sprint(id)
					}
				}
				return "unknown-route"
			})
		case "buildq":
			name, style, expect := mustUnhx(f[1]), atoi(f[3]), atoi(f[4])
			var ks, vs []string
			if f[2] != "-" {
				for _, kv := range strings.Split(f[2], ",") {
					p := strings.SplitN(kv, "=", 2)
					ks = append(ks, mustUnhx(p[0]))
					vs = append(vs, mustUnhx(p[1]))
				}
			}
			var built string
			a = guarded(func() string {
				var u *url.URL
				switch style {
				case 0: // rux.M
					m := rux.M{}
					for i := range ks {
						m[ks[i]] = rbTypedArg(vs[i], i+len(ks))
					}
					u = im.r.BuildURL(name, m)
				case 1: // key/value pairs (needs at least one pair)
					if len(ks) == 0 {
						u = im.r.BuildURL(name)
					} else {
						var args []interface{}
						for i := range ks {
							args = append(args, ks[i], rbTypedArg(vs[i], i+len(ks)+1))
						}
						u = im.r.BuildRequestURL(name, args...)
					}
				case 3: // ONE builder object for all the style-3 calls of this case
					u = im.r.BuildURL(name, im.rbSharedBuilder(ks, vs))
				default: // builder with Params / Queries
					b := rux.NewBuildRequestURL()
					ps := rux.M{}
					qs := url.Values{}
					for i := range ks {
						if strings.ContainsAny(ks[i], "{}") {
							ps[ks[i]] = rbTypedArg(vs[i], i+len(ks)+2)
						} else {
							qs.Add(ks[i], vs[i])
						}
					}
					u = im.r.BuildURL(name, b.Params(ps).Queries(qs))
				}
				built = u.Path
				// query parameters as decoded pairs, sorted by key (stable)
				q, _ := url.ParseQuery(u.RawQuery)
				qk := make([]string, 0, len(q))
				for k := range q {
					qk = append(qk, k)
				}
				sort.Strings(qk)
				var qkv []string
				for _, k := range qk {
					for _, v := range q[k] {
						qkv = append(qkv, hx(k)+"="+hx(v))
					}
				}
				qs := "-"
				if len(qkv) > 0 {
					qs = strings.Join(qkv, ",")
				}
				return hx(u.Path) + " " + qs + " " + im.quick(im.r, "GET", u.Path)
			})
			if strings.HasPrefix(a, "panic") {
				a = "panic"
			}
			// C15 oracle: the built path is routed back to the same route with exactly the given values
			if expect >= 0 && !strings.HasPrefix(a, "panic") {
				want := map[string]string{}
				for i := range ks {
					if strings.ContainsAny(ks[i], "{}") {
						want[strings.Trim(ks[i], "{}")] = vs[i]
					}
				}
				route, ps, _ := im.r.QuickMatch("GET", built)
				ok := route != nil && route == im.byID[expect] && len(ps) == len(want)
				for k, v := range want {
					if ps[k] != v {
						ok = false
					}
				}
				// second leg: through the textual URL and ServeHTTP
				if ok {
					w := httptest.NewRecorder()
					if req, err := http.NewRequest("GET", (&url.URL{Path: built}).String(), nil); err == nil {
						im.r.ServeHTTP(w, req)
						// the handler reports its route and, sorted by name, every parameter it got
						wk := make([]string, 0, len(want))
						for k := range want {
							wk = append(wk, k)
						}
						sort.Strings(wk)
						wantBody := fmt.Sprintf("R%d:", expect)
						for _, k := range wk {
							wantBody += k + "=" + want[k] + ";"
						}
						if w.Body.String() != wantBody {
							ok = false
						}
					}
				}
				if !ok {
					shape := ""
					if n := len(built); n > 1 {
						last, _ := utf8.DecodeLastRuneInString(built)
						if last == '/' || unicode.IsSpace(last) {
							shape = " (K1 shape: the built path ends in white space or '/', which lookup normalisation removes)"
						}
					}
					if shape == "" && len(want) >= 2 {
						for _, v := range want {
							if strings.Contains(v, "/") {
								shape = " (K2 shape: several variables and a value containing '/': the path has more than one decomposition)"
							}
						}
					}
					oracle = append(oracle, fmt.Sprintf("C15 round trip%s: BuildURL(%q, %v=%v) gave path %q, which is routed to %s instead of route %d with these values", shape, name, ks, vs, built, im.quick(im.r, "GET", built), expect))
				}
			}
		case "rereg":
			a = im.raRereg(atoi(f[1]))
		case "gvar":
			if len(f) != 3 {
				a = "bad-op"
				break
			}
			im.raGvars = append(im.raGvars, [2]string{mustUnhx(f[1]), mustUnhx(f[2])})
			a = "ok"
		case "ckeys":
			c := im.r.VerifCachedRoutes()
			if c == nil {
				a = "off"
			} else {
				a = hxList(c.VerifKeys())
			}
		default:
			a = "bad-op"
		}
		ans = append(ans, a)
	}
	oracle = append(oracle, im.almOracle...)
	return
}

// genURL: named routes without optional parts whose first literal segment is unique to the route (so the
// named route is the only candidate for its built paths), values drawn from the variable's regex language.
func (e routeEngine) genURL(r *Rand, tier string) Case {
	mask := r.Intn(8) &^ 8
	if r.Chance(1, 2) {
		mask = 0
	}
	ops := []string{fmt.Sprintf("new %d 0 -", mask)}
	n := r.Range(1, 5)
	// one BuildRequestURL object reused for all (most) builds of the case, for different routes and the same route twice
	rbShared := r.Chance(1, 4)
	urlTag := "url"
	if rbShared {
		urlTag = "url-shared-builder"
		if n < 2 {
			n = 2
		}
	}
	type named struct {
		id   int
		name string
		g    genRoute
	}
	var routes []named
	for i := 1; i <= n; i++ {
		var g genRoute
		for try := 0; try < 20; try++ {
			g = genPattern(r, i, nil)
			if len(g.levels) == 1 {
				break
			}
		}
		if len(g.levels) != 1 {
			continue
		}
		// unique literal first segment
		g.pattern = fmt.Sprintf("/n%d", i) + g.pattern
		g.levels[0] = append([]piece{{lit: fmt.Sprintf("/n%d", i)}}, g.levels[0]...)
		name := r.Pick([]string{"a", "b", "route", "x_y", "é", "n"})
		if r.Chance(1, 2) {
			name = fmt.Sprintf("r%d", i)
		}
		ops = append(ops, fmt.Sprintf("regn %d %s - %s %d", i, hx(name), hx(g.pattern), r.Intn(3)))
		routes = append(routes, named{i, name, g})
		if r.Chance(1, 6) {
			other := routes[r.Intn(len(routes))]
			nn := r.Pick([]string{"a", "b", "moved", " n "})
			ops = append(ops, fmt.Sprintf("rename %d %s", other.id, hx(nn)))
		}
	}
	if len(routes) == 0 {
		return Case{Ops: ops, Tag: urlTag}
	}
	// who owns which name now (mirror of the index, to know the expected route)
	owner := map[string]int{}
	for _, op := range ops[1:] {
		f := strings.Fields(op)
		switch f[0] {
		case "regn":
			if nm := strings.TrimSpace(mustUnhx(f[2])); nm != "" {
				owner[nm] = atoi(f[1])
			}
		case "rename":
			if nm := strings.TrimSpace(mustUnhx(f[2])); nm != "" {
				owner[nm] = atoi(f[1])
			}
		}
	}
	names := make([]string, 0, len(owner))
	for k := range owner {
		names = append(names, k)
	}
	sort.Strings(names)
	nBuilds := r.Range(2, 8)
	if rbShared && nBuilds < 4 {
		nBuilds = 4
	}
	for i := nBuilds; i > 0; i-- {
		if len(names) == 0 || r.Chance(1, 10) {
			ops = append(ops, "getroute "+hx(r.Pick([]string{"a", "b", "n", "zz", ""})))
			continue
		}
		nm := names[r.Intn(len(names))]
		var g genRoute
		for _, rt := range routes {
			if rt.id == owner[nm] {
				g = rt.g
			}
		}
		var kvs []string
		for _, p := range g.levels[0] {
			if p.v != nil {
				v := raSlashyValue(r, p.v, r.Pick(p.v.vals))
				if v == "" { // `{all}` may be empty, which changes the shape of the path: keep it non-empty here
					v = "z"
				}
				kvs = append(kvs, hx("{"+p.v.name+"}")+"="+hx(v))
			}
		}
		for k := r.Intn(3); k > 0; k-- {
			kvs = append(kvs, hx(r.Pick([]string{"q", "page", "a b", "é", "x&y"}))+"="+hx(r.Pick([]string{"1", "a b", "é", "x&y=z", "", "%"})))
		}
		kvs = raBareKeys(r, g, kvs)
		r.Shuffle(len(kvs), func(i, j int) { kvs[i], kvs[j] = kvs[j], kvs[i] })
		// a key must not repeat (map argument)
		seen := map[string]bool{}
		var uniq []string
		for _, kv := range kvs {
			k := strings.SplitN(kv, "=", 2)[0]
			if !seen[k] {
				seen[k] = true
				uniq = append(uniq, kv)
			}
		}
		args := "-"
		if len(uniq) > 0 {
			args = strings.Join(uniq, ",")
		}
		style := r.Intn(3)
		if rbShared && r.Chance(3, 4) {
			style = 3
		}
		ops = append(ops, fmt.Sprintf("buildq %s %s %d %d", hx(nm), args, style, owner[nm]))
		ops = append(ops, "getroute "+hx(nm))
	}
	return Case{Ops: ops, Tag: urlTag}
}

// rbTypedArg: URL-building arguments are `any`.  A value whose text is the canonical decimal rendering of a Go number
// or bool is handed over AS that number (int, int64, uint, float64, bool - which one depends on `salt` only), other
// values sometimes as []byte: the built URL must carry exactly the text.
func rbTypedArg(v string, salt int) interface{} {
	if n, err := strconv.ParseInt(v, 10, 64); err == nil && strconv.FormatInt(n, 10) == v {
		switch salt % 5 {
		case 0:
			return int(n)
		case 1:
			return n
		case 2:
			if n >= 0 {
				return uint(n)
			}
		case 3:
			if f := float64(n); strconv.FormatFloat(f, 'f', -1, 64) == v {
				return f
			}
		}
		return v
	}
	if f, err := strconv.ParseFloat(v, 64); err == nil && strconv.FormatFloat(f, 'f', -1, 64) == v && salt%3 != 0 {
		return f
	}
	if (v == "true" || v == "false") && salt%2 == 0 {
		return v == "true"
	}
	if salt%7 == 3 {
		return []byte(v)
	}
	return v
}

/**************** multi-step configuration (wopt) and the shared URL builder (buildq style 3) ****************/

// rbConfigSteps returns the ops that build a router with the final options (mask, cap, icpt) in several steps:
// New(some of the options) followed by 1-3 WithOptions(...) calls. Options can only be switched on, a capacity can
// be given again: the capacity in force is the last one. The intermediate capacities are drawn from the same set
// as the final one, so the cache created by an earlier step may be larger or smaller than the final capacity.
func rbConfigSteps(r *Rand, mask, cap int, icpt string) []string {
	caps := []int{0, 1, 1, 2, 2, 3, 4, 1000}
	rest := mask & 15 // bits still to be switched on
	keep := mask &^ 15
	sub := func(bits int) int { // a random subset of the remaining bits
		m := 0
		for _, b := range []int{1, 2, 4, 8} {
			if bits&b != 0 && r.Bool() {
				m |= b
			}
		}
		return m
	}
	m0 := sub(rest)
	rest &^= m0
	cap0 := r.PickInt(caps)
	cur := 1000 // MaxNumCaches in force (the 'new' op passes its capacity only together with the caching switch)
	if m0&8 != 0 {
		cur = cap0
	}
	ops := []string{fmt.Sprintf("new %d %d %s", keep|m0, cap0, hx(icpt))}
	steps := r.Range(1, 3)
	for i := 1; i <= steps; i++ {
		if r.Chance(1, 5) { // a lookup on the still empty router between two configuration steps
			ops = append(ops, "q "+hx("GET")+" "+hx(r.Pick([]string{"/", "/users/1", "/a/b"})))
		}
		m, c := sub(rest), "-"
		if r.Bool() {
			cur = r.PickInt(caps)
			c = fmt.Sprint(cur)
		}
		if i == steps {
			m = rest
			if cur != cap {
				cur = cap
				c = fmt.Sprint(cap)
			}
		}
		if m&8 == 0 && r.Chance(1, 6) {
			m |= mask & 8 // the caching switch is given (again) in this step
		}
		rest &^= m
		ops = append(ops, fmt.Sprintf("wopt %d %s %d", m, c, r.Intn(6)))
	}
	return ops
}

// rbWithOptions is the op 'wopt': one more Router.WithOptions call on the router of the case. The twin (same
// options without the cache) is re-created from the accumulated options: no route exists when the call succeeds.
func (im *routeImpl) rbWithOptions(mask int, capS string, form int) string {
	var flags, cache []func(*rux.Router)
	if mask&1 != 0 {
		flags = append(flags, rux.StrictLastSlash)
	}
	if mask&2 != 0 {
		flags = append(flags, rux.HandleFallbackRoute)
	}
	if mask&4 != 0 {
		flags = append(flags, rux.HandleMethodNotAllowed)
	}
	caching := mask&8 != 0
	if capS != "-" {
		n := uint16(atoi(capS))
		switch {
		case caching && form%3 == 2:
			cache = append(cache, rux.CachingWithNum(n))
		case caching && form%3 == 1:
			cache = append(cache, rux.EnableCaching, rux.MaxNumCaches(n))
		case caching:
			cache = append(cache, rux.MaxNumCaches(n), rux.EnableCaching)
		default:
			cache = append(cache, rux.MaxNumCaches(n))
		}
	} else if caching {
		cache = append(cache, rux.EnableCaching)
	}
	opts := append(flags, cache...)
	if form >= 3 {
		opts = append(cache, flags...)
	}
	im.r.WithOptions(opts...) // panics when a route exists
	im.rbMask |= mask & 15
	if im.rbMask&8 != 0 {
		im.caching = true
		im.twin = newRouter(im.rbMask, 0, im.rbIcpt, false)
	}
	return "ok"
}

// rbSharedBuilder hands out the ONE BuildRequestURL object of the case, loaded with the arguments of this call.
func (im *routeImpl) rbSharedBuilder(ks, vs []string) *rux.BuildRequestURL {
	if im.rbShared == nil {
		im.rbShared = rux.NewBuildRequestURL()
	}
	ps := rux.M{}
	qs := url.Values{}
	for i := range ks {
		if strings.ContainsAny(ks[i], "{}") {
			ps[ks[i]] = vs[i]
		} else {
			qs.Add(ks[i], vs[i])
		}
	}
	return im.rbShared.Params(ps).Queries(qs)
}
