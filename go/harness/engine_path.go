package main

import (
	"fmt"
	"net/http"
	"net/http/httptest"
	"net/url"
	"strings"

	"github.com/gookit/rux"
)

// engine path (C11): the same byte strings as registered path, as group prefix (nested groups too) and as
// request path, under both StrictLastSlash settings and both UseEncodedPath settings, plus InterceptAll
// with an un-normalised path. Observed: Route.Path() after registration, the route that Router.Match
// returns, the route that ServeHTTP runs for a real *http.Request, panic classes.
//
//	new <strict> <enc> <intercept>               fresh router; intercept "-" = option not given
//	group <prefix> ... end                       Router.Group (ops in between run inside the closure)
//	reg <method> <path> <id>                     Router.Add; answer = Route.Path()
//	match <method> <path>                        Router.Match; answer = id of the route | none
//	serve <method> <mode> <raw> <urlpath> <esc>  ServeHTTP; answer = id of the handler that ran | none
//	     mode p: URL = url.ParseRequestURI(raw) (what net/http's server does with the request target);
//	             if that fails, as mode d
//	     mode d: URL = &url.URL{Path: raw}
//	     mode r: URL = &url.URL{Path: PathUnescape(raw), RawPath: raw}
//	     <urlpath>/<esc> are URL.Path / URL.EscapedPath() as net/url computed them when the op was
//	     generated; Run recomputes them and refuses the op (bad-op) if they differ.
//	     In mode p (parse succeeded) Request.RequestURI is the raw target, as net/http's server sets it.
//	rserve <method> <kind> <arg> <target> <urlpath> <esc>
//	     a request whose URL is REWRITTEN before the router sees it. The request is what net/http's server
//	     builds from the request target: URL = url.ParseRequestURI(target), RequestURI = target (never
//	     updated by anybody, as in net/http). kind:
//	     s: http.StripPrefix(arg, router)                       (rewrites URL.Path and URL.RawPath)
//	     w: Router.WrapHTTPHandlers(pre) where pre drops the prefix arg from URL.Path (if present) and
//	        clears URL.RawPath
//	     c: a global middleware (installed at creation on the routers of a case that has such an op, inert
//	        otherwise) sets c.Req.URL.Path = arg, RawPath = "", re-dispatches with Router.HandleContext(c)
//	        and aborts the outer chain
//	     <urlpath>/<esc> are URL.Path / URL.EscapedPath() of the URL THE ROUTER SEES (after the rewrite);
//	     Run observes them with a probe handler directly in front of the router and refuses the op
//	     (bad-op) if they differ or if the router was not reached (StripPrefix answered 404 itself).
//	     The generator only emits ops that reach the router.
//
// Alphabet of generated paths (12 tokens): "/", " ", "\t", U+00A0, U+2003, ".", "%2F", "%20", "a", "b", "é", 0xff.
// The generator ENUMERATES all token strings up to a length (see pathEnumMax) and then samples
// lengths up to 12; the enumeration counter is the only state and is not random.
type pathEngine struct {
	next int
}

func init() { register(&pathEngine{}) }

func (*pathEngine) Name() string         { return "path" }
func (*pathEngine) DriverEngine() string { return "path" }

var pathTokens = []string{"/", " ", "\t", "\u00a0", "\u2003", ".", "%2F", "%20", "a", "b", "\u00e9", "\xff"}

// enumeration: every token string of length 0..full gets the full block set, every token string of length
// full+1..lite the reduced one.
//
//	quick:    full = 3 (1 885 strings), lite = 4 (+20 736)
//	thorough: full = 4 (22 621 strings), lite = 5 (+248 832)
func pathEnumMax(tier string) (full, lite int) {
	if tier == "thorough" {
		return 4, 5
	}
	return 3, 4
}

func pow(b, n int) int {
	r := 1
	for i := 0; i < n; i++ {
		r *= b
	}
	return r
}

func pathEnumCount(tier string) int {
	_, lite := pathEnumMax(tier)
	n := 0
	for l := 0; l <= lite; l++ {
		n += pow(len(pathTokens), l)
	}
	return n
}

// pathEnumString returns the i-th token string (shortlex) and its length in tokens.
func pathEnumString(i int) (string, int) {
	for l := 0; ; l++ {
		size := pow(len(pathTokens), l)
		if i < size {
			toks := make([]string, l)
			for k := l - 1; k >= 0; k-- {
				toks[k] = pathTokens[i%len(pathTokens)]
				i /= len(pathTokens)
			}
			return strings.Join(toks, ""), l
		}
		i -= size
	}
}

func (*pathEngine) Budget(tier string) int {
	if tier == "thorough" {
		return pathEnumCount(tier) + 60000
	}
	return pathEnumCount(tier) + 2500
}

/**************** building op lines ****************/

func pathMkURL(mode, raw string) *url.URL {
	switch mode {
	case "p":
		if u, err := url.ParseRequestURI(raw); err == nil {
			return u
		}
		return &url.URL{Path: raw}
	case "r":
		p, err := url.PathUnescape(raw)
		if err != nil {
			p = raw
		}
		return &url.URL{Path: p, RawPath: raw}
	}
	return &url.URL{Path: raw}
}

func opServe(method, mode, raw string) string {
	u := pathMkURL(mode, raw)
	return fmt.Sprintf("serve %s %s %s %s %s", hx(method), mode, hx(raw), hx(u.Path), hx(u.EscapedPath()))
}

// pathPre is the pre handler of kind w: it drops a leading path segment (a locale, a mount point) from
// URL.Path and clears RawPath, so that EscapedPath() is computed from the new Path.
func pathPre(prefix string) func(http.Handler) http.Handler {
	return func(next http.Handler) http.Handler {
		return http.HandlerFunc(func(w http.ResponseWriter, req *http.Request) {
			if prefix != "" && strings.HasPrefix(req.URL.Path, prefix) {
				req.URL.Path = req.URL.Path[len(prefix):]
				req.URL.RawPath = ""
			}
			next.ServeHTTP(w, req)
		})
	}
}

// pathServerRequest builds the request as net/http's server does from the request target.
func pathServerRequest(method, target string) (*http.Request, bool) {
	u, err := url.ParseRequestURI(target)
	if err != nil {
		return nil, false
	}
	return &http.Request{Method: method, URL: u, RequestURI: target, Proto: "HTTP/1.1", ProtoMajor: 1, ProtoMinor: 1, Header: http.Header{}, Host: "example.com"}, true
}

// pathRewritten computes URL.Path / URL.EscapedPath() of the URL that the router sees for an rserve op
// (by running the same wrappers around a recording handler); ok = false when the target does not parse or
// the wrapper does not pass the request on.
func pathRewritten(kind, arg, target string) (up, ep string, ok bool) {
	req, good := pathServerRequest("GET", target)
	if !good {
		return "", "", false
	}
	rec := http.HandlerFunc(func(_ http.ResponseWriter, rq *http.Request) {
		up, ep, ok = rq.URL.Path, rq.URL.EscapedPath(), true
	})
	switch kind {
	case "s":
		http.StripPrefix(arg, rec).ServeHTTP(httptest.NewRecorder(), req)
	case "w":
		pathPre(arg)(rec).ServeHTTP(httptest.NewRecorder(), req)
	case "c":
		req.URL.Path, req.URL.RawPath = arg, ""
		rec(nil, req)
	}
	return
}

// opRServe returns "" when the op would not reach the router (callers then fall back to a plain serve).
func opRServe(method, kind, arg, target string) string {
	up, ep, ok := pathRewritten(kind, arg, target)
	if !ok {
		return ""
	}
	return fmt.Sprintf("rserve %s %s %s %s %s %s", hx(method), kind, hx(arg), hx(target), hx(up), hx(ep))
}

// opRServeOr: the rewritten request if it reaches the router, else the plain request for q.
func opRServeOr(method, kind, arg, target, q string) string {
	if op := opRServe(method, kind, arg, target); op != "" {
		return op
	}
	return opServe(method, "p", q)
}

func opNew(strict, enc bool, intercept *string) string {
	ic := "-"
	if intercept != nil {
		// "-" is the empty string on the wire; an empty InterceptAll("") is the same as no option
		ic = hx(*intercept)
	}
	return fmt.Sprintf("new %s %s %s", b2s(strict), b2s(enc), ic)
}

func opReg(method, path string, id int) string {
	return fmt.Sprintf("reg %s %s %d", hx(method), hx(path), id)
}
func opMatch(method, path string) string { return "match " + hx(method) + " " + hx(path) }
func opGroup(prefix string) string       { return "group " + hx(prefix) }

/**************** corpus ****************/

func (*pathEngine) Corpus() []Case {
	var cs []Case
	both := func(f func(strict, enc bool) []string, tag string) {
		for _, st := range []bool{false, true} {
			for _, enc := range []bool{false, true} {
				cs = append(cs, Case{Ops: f(st, enc), Tag: tag})
			}
		}
	}
	// F3: white-space-only paths (panicked in non-strict mode), every kind of white space
	both(func(st, enc bool) []string {
		ops := []string{opNew(st, enc, nil), opReg("GET", "/", 1)}
		for _, p := range []string{"", " ", "  ", "\t", "\u00a0", "\u2003 ", " \u3000\u0085", "/", " / ", "//", " // ", "/ /", "/\u00a0/"} {
			ops = append(ops, opMatch("GET", p), opServe("GET", "d", p), opServe("GET", "p", p))
		}
		ops = append(ops, opReg("POST", "  ", 2), opReg("POST", "", 3), opMatch("POST", "/"))
		return ops
	}, "corpus-F3")
	// long fixed paths: every length from 110 to 140 bytes (and a few far beyond) is a route of its own, registered under
	// three methods of different length, next to the route for its first 100 bytes; each is reached by its own path only
	both(func(st, enc bool) []string {
		ops := []string{opNew(st, enc, nil)}
		long := func(n int) string { return "/" + strings.Repeat("abcdefghij", 40)[:n-1] }
		lens := []int{100}
		for n := 110; n <= 140; n++ {
			lens = append(lens, n)
		}
		lens = append(lens, 255, 256, 257, 300)
		for i, n := range lens {
			ops = append(ops, opReg("GET", long(n), 3*i+1), opReg("OPTIONS", long(n), 3*i+2), opReg("PUT", long(n), 3*i+3))
		}
		for _, n := range lens {
			ops = append(ops, opMatch("GET", long(n)), opMatch("OPTIONS", long(n)), opServe("PUT", "d", long(n)), opMatch("GET", long(n)+"/"))
		}
		return ops
	}, "corpus-long")
	// F16: white space in front of a trailing slash, in and outside groups
	both(func(st, enc bool) []string {
		return []string{opNew(st, enc, nil),
			opReg("GET", "/a /", 1), opMatch("GET", "/a /"), opMatch("GET", "/a"), opMatch("GET", "/a "), opMatch("GET", "/a /  /"),
			opGroup("/g"), opReg("GET", "/a /", 2), opReg("GET", "/b\u00a0//", 3), "end",
			opMatch("GET", "/g/a /"), opMatch("GET", "/g/a"), opMatch("GET", "/g/b\u00a0//"), opMatch("GET", "/g/b"),
			opGroup("/h /"), opReg("GET", "x", 4), opReg("GET", "/", 5), "end",
			opMatch("GET", "/h /x"), opMatch("GET", "/h/x"), opMatch("GET", "/h /"), opMatch("GET", "/h"), opMatch("GET", "/h/"),
		}
	}, "corpus-F16")
	// leading slash repair, repeated slashes, trailing slashes, strict vs non-strict, overwrite of equal keys
	both(func(st, enc bool) []string {
		return []string{opNew(st, enc, nil),
			opReg("GET", "about", 1), opReg("GET", "//x", 2), opReg("GET", "y//", 3), opReg("GET", " /z ", 4), opReg("GET", "/a", 5), opReg("GET", "/a/", 6),
			opMatch("GET", "/about"), opMatch("GET", "about"), opMatch("GET", "about/"), opMatch("GET", "///about//"),
			opMatch("GET", "/x"), opMatch("GET", "x"), opMatch("GET", "//x"), opMatch("GET", "/y"), opMatch("GET", "/y/"), opMatch("GET", "/y//"), opMatch("GET", "y//"),
			opMatch("GET", "/z"), opMatch("GET", "  /z"), opMatch("GET", "/z\t"), opMatch("GET", "/a"), opMatch("GET", "/a/"), opMatch("GET", "/a//"), opMatch("POST", "/a"),
			opMatch("GET", "/a/b"), opMatch("GET", "/A"), opMatch("get", "/a"),
		}
	}, "corpus-slashes")
	// nested groups: prefixes are concatenated un-normalised, the sum is normalised once more
	both(func(st, enc bool) []string {
		return []string{opNew(st, enc, nil),
			opGroup("/"), opGroup("/"), opReg("GET", "/", 1), opReg("GET", "a", 2), "end", "end",
			opGroup("api/"), opGroup(" v1 "), opReg("GET", "/users/", 3), opGroup("//"), opReg("GET", "b", 4), "end", "end", opReg("GET", "", 5), "end",
			opReg("GET", "/top", 6),
			opMatch("GET", "/"), opMatch("GET", "/a"), opMatch("GET", "//a"), opMatch("GET", "/api/v1/users"), opMatch("GET", "/api/v1/users/"),
			opMatch("GET", "/api//v1/users/"), opMatch("GET", "/api/v1//b"), opMatch("GET", "/api/v1/b"), opMatch("GET", "/api"), opMatch("GET", "/api/"), opMatch("GET", "/top"),
		}
	}, "corpus-groups")
	// decoded vs escaped request path
	both(func(st, enc bool) []string {
		ops := []string{opNew(st, enc, nil),
			opReg("GET", "/a b", 1), opReg("GET", "/a%20b", 2), opReg("GET", "/a/b", 3), opReg("GET", "/a%2Fb", 4), opReg("GET", "/\u00e9", 5), opReg("GET", "/%C3%A9", 6), opReg("GET", "/a%252Fb", 7)}
		for _, mode := range []string{"p", "d", "r"} {
			for _, raw := range []string{"/a%20b", "/a b", "/a%2Fb", "/a/b", "/\u00e9", "/%C3%A9", "/a%20b/", "/a%20", "/%20a%20b%20", "/a%2Fb%2F", "a%2Fb", "/\xff", "%2F"} {
				ops = append(ops, opServe("GET", mode, raw))
			}
		}
		return ops
	}, "corpus-encoded")
	// the URL is rewritten before the router sees it (mounted below http.StripPrefix, a pre handler installed
	// with WrapHTTPHandlers, re-dispatch with HandleContext): matching uses the URL the router is given,
	// Request.RequestURI still holds the original target
	both(func(st, enc bool) []string {
		ops := []string{opNew(st, enc, nil),
			opReg("GET", "/about", 1), opReg("GET", "/users/a%2Fb", 2), opReg("GET", "/users/a/b", 3), opReg("GET", "/v1/about", 4),
			opReg("GET", "/users/with%20space", 5), opReg("GET", "/users/with space", 6), opReg("GET", "/", 7), opReg("GET", "/en/about", 8), opReg("GET", "/old", 9)}
		for _, x := range [][3]string{
			{"s", "/v1", "/v1/about"}, {"s", "/v1", "/v1/users/a%2Fb?x=1"}, {"s", "/v1", "/v1/users/a/b"}, {"s", "/v1", "/v1"}, {"s", "/v1", "/v1/"},
			{"s", "/v1", "/v1about"}, {"s", "/v1/", "/v1/about"}, {"s", "/a b", "/a%20b/users/with%20space"}, {"s", "/a b", "/a b/users/with space"},
			{"w", "/en", "/en/about"}, {"w", "/en", "/en/users/with%20space"}, {"w", "/en", "/en/users/a%2Fb?x=/about"}, {"w", "/en", "/about"}, {"w", "/en", "/en"},
			{"c", "/about", "/old"}, {"c", "/users/with space", "/old"}, {"c", "/users/a%2Fb", "/v1/about"}, {"c", "about//", "/nowhere?y"}, {"c", "", "/old"},
		} {
			if op := opRServe("GET", x[0], x[1], x[2]); op != "" {
				ops = append(ops, op)
			}
		}
		// the same targets served directly
		ops = append(ops, opServe("GET", "p", "/v1/about"), opServe("GET", "p", "/en/about"), opServe("GET", "p", "/old"))
		return ops
	}, "corpus-rewritten")
	// F14: InterceptAll with an un-normalised path
	for _, ic := range []string{"/x/", "x", " /x ", "//x", "/x /", "", "  ", "/", "/nowhere"} {
		ic := ic
		both(func(st, enc bool) []string {
			return []string{opNew(st, enc, &ic), opReg("GET", "/x", 1), opReg("GET", "/x/", 2), opReg("GET", "/", 3), opReg("GET", "/y", 4),
				opMatch("GET", "/y"), opMatch("GET", "/x"), opMatch("GET", "  "), opMatch("POST", "/y"), opServe("GET", "p", "/y"), opServe("GET", "d", "anything")}
		}, "corpus-F14")
	}
	return cs
}

/**************** generator ****************/

// variants of a path that the property says are (or, in strict mode, are not) the same request
func pathSpellings(s string) []string {
	return []string{s, s + "/", "/" + s, " " + s + "\t", "//" + s + "//", "\u2003" + s + " /", s + "\u00a0"}
}

// blockFull: everything the property says about ONE string s, in one configuration
func pathBlockFull(s string, st, enc bool) []string {
	ops := []string{opNew(st, enc, nil), opReg("GET", s, 1)}
	for _, q := range pathSpellings(s) {
		ops = append(ops, opMatch("GET", q))
	}
	ops = append(ops, opServe("GET", "p", s), opServe("GET", "r", s), opServe("GET", "d", s),
		opGroup(s), opReg("GET", "/x", 2), opReg("POST", s, 3), opGroup(s), opReg("PUT", "a/", 4), "end", "end",
		opGroup("/g"), opReg("GET", s, 5), "end",
		opMatch("GET", s+"/x"), opMatch("POST", s+s), opMatch("POST", s+"/"+s), opMatch("PUT", s+s+"/a"), opMatch("PUT", s+"/"+s+"/a"),
		opMatch("GET", "/g"+s), opMatch("GET", "/g/"+s), opServe("GET", "p", "/g/"+s),
		// the same request mounted below "/g": the router sees s again (rewritten URL, RequestURI unchanged)
		opRServeOr("GET", "s", "/g", "/g/"+s, "/g"+s), opRServeOr("GET", "w", "/g", "/g"+s, "/g"+s), opRServeOr("GET", "c", s, "/g/"+s+"?x=1", "/g"+s))
	return ops
}

// blockLite: registered, looked up under its own spelling and the two slash variants, served once
func pathBlockLite(s string, st, enc bool, kind string) []string {
	rw := opRServeOr("GET", "s", "/g", "/g/"+s, "/g/"+s)
	switch kind {
	case "w":
		rw = opRServeOr("GET", "w", "/g", "/g"+s, "/g"+s)
	case "c":
		rw = opRServeOr("GET", "c", s, "/g/"+s, "/g/"+s)
	}
	return []string{opNew(st, enc, nil), opReg("GET", s, 1), opMatch("GET", s), opMatch("GET", s+"/"), opMatch("GET", "/"+s),
		opServe("GET", "p", s), rw, opGroup(s), opReg("POST", s, 2), "end", opMatch("POST", s+s), opMatch("POST", s+"/"+s)}
}

// pathGenServe: a request for the spelling q through ServeHTTP. One in three is sent through a wrapper that
// rewrites the URL before the router sees it (rserve) in such a way that the router is asked for q (or for
// something close to it); the rest is served directly.
func pathGenServe(r *Rand, method string, modes []string, q string) string {
	if !r.Chance(1, 3) {
		return opServe(method, r.Pick(modes), q)
	}
	query := r.Pick([]string{"", "", "", "?x=1", "?p=/a", "?"})
	pfx := r.Pick([]string{"/v1", "/g", "/en", "/a", "/a b", "/\u00e9", "/v1/", "/a/b", "/ ", "/."})
	if r.Chance(1, 4) {
		pfx = "/" + pathRandString(r, 1, 3)
	}
	var op string
	switch r.Intn(7) {
	case 0, 1: // mounted below a prefix
		op = opRServe(method, "s", pfx, pfx+q+query)
	case 2: // the prefix is a part of q itself
		if len(q) > 0 {
			op = opRServe(method, "s", q[:r.Range(1, len(q))], q+query)
		}
	case 3, 4: // pre handler drops a leading segment
		op = opRServe(method, "w", pfx, pfx+q+query)
	case 5: // pre handler that finds nothing to drop, or drops a part of q
		op = opRServe(method, "w", r.Pick([]string{pfx, "/", q}), q+query)
	default: // internal re-dispatch to q from somewhere else
		op = opRServe(method, "c", q, r.Pick([]string{"/old", pfx, pfx + q, q, "/"})+query)
	}
	if op == "" {
		return opServe(method, r.Pick(modes), q)
	}
	return op
}

func pathRandString(r *Rand, lo, hi int) string {
	n := r.Range(lo, hi)
	var sb strings.Builder
	for i := 0; i < n; i++ {
		// bias: slashes and white space are where the case splits are
		switch x := r.Intn(10); {
		case x < 3:
			sb.WriteString("/")
		case x < 5:
			sb.WriteString(pathTokens[1+r.Intn(4)])
		case x == 5 && r.Bool():
			// sampled only (not part of the enumerated alphabet): escapes with lower-case hex digits, of ASCII and
			// of multi-byte text, the upper-case spelling of the same bytes, an escaped unreserved letter
			sb.WriteString(r.Pick(pathTokensX))
		default:
			sb.WriteString(pathTokens[r.Intn(len(pathTokens))])
		}
	}
	return sb.String()
}

var pathTokensX = []string{"%2f", "%e9", "%c3%a9", "%C3%A9", "%41", "%e4%bd%a0", "%3F", "%3f", "?", "%23"}

// pathFlipEscapes changes the case of the hex digits of every %xx escape (lower <-> upper).
func pathFlipEscapes(p string) string {
	b := []byte(p)
	for i := 0; i+2 < len(b); i++ {
		if b[i] != '%' {
			continue
		}
		for _, j := range []int{i + 1, i + 2} {
			switch {
			case b[j] >= 'a' && b[j] <= 'f':
				b[j] -= 32
			case b[j] >= 'A' && b[j] <= 'F':
				b[j] += 32
			}
		}
	}
	return string(b)
}

// pathMutate returns a request spelling derived from a registered path: decorations that the property says
// are insignificant, decorations that are significant, or an unrelated string.
func pathMutate(r *Rand, p string) string {
	ws := func() string { return pathTokens[1+r.Intn(4)] }
	switch r.Intn(13) {
	case 12:
		return pathFlipEscapes(p)
	case 0:
		return p
	case 1:
		return ws() + p + ws()
	case 2:
		return strings.Repeat("/", r.Range(1, 3)) + p
	case 3:
		return p + strings.Repeat("/", r.Range(1, 3))
	case 4:
		return p + ws() + "/"
	case 5:
		return ws() + "/" + p + "/" + ws() + "/"
	case 6:
		return strings.TrimLeft(p, "/")
	case 7:
		return strings.TrimRight(p, "/ ")
	case 8:
		if len(p) > 0 {
			k := r.Intn(len(p))
			return p[:k] + p[k+1:]
		}
		return p
	case 9:
		k := r.Intn(len(p) + 1)
		return p[:k] + r.Pick(pathTokens) + p[k:]
	case 10:
		return strings.ReplaceAll(strings.ReplaceAll(p, " ", "%20"), "/", r.Pick([]string{"/", "%2F", "//"}))
	}
	return pathRandString(r, 0, 6)
}

func (e *pathEngine) Gen(r *Rand, tier string) Case {
	full, _ := pathEnumMax(tier)
	if e.next < pathEnumCount(tier) {
		s, l := pathEnumString(e.next)
		e.next++
		var ops []string
		if l <= full {
			for _, st := range []bool{false, true} {
				for _, enc := range []bool{false, true} {
					ops = append(ops, pathBlockFull(s, st, enc)...)
				}
			}
			return Case{Ops: ops, Tag: fmt.Sprintf("enumerated-full-len%d", l)}
		}
		// both slash modes; the path choice alternates with the index (serve is the only op it matters for)
		for _, st := range []bool{false, true} {
			ops = append(ops, pathBlockLite(s, st, (e.next%2 == 0) != st, []string{"s", "w", "c"}[(e.next/2)%3])...)
		}
		return Case{Ops: ops, Tag: fmt.Sprintf("enumerated-lite-len%d", l)}
	}

	st, enc := r.Bool(), r.Bool()
	switch x := r.Intn(10); {
	case x < 4:
		// several routes, requests derived from them
		ops := []string{opNew(st, enc, nil)}
		n := r.Range(1, 5)
		paths := make([]string, n)
		methods := []string{"GET", "GET", "GET", "POST"}
		for i := range paths {
			paths[i] = pathRandString(r, 0, 12)
			if i > 0 && r.Chance(1, 3) {
				paths[i] = pathMutate(r, paths[r.Intn(i)])
			}
			ops = append(ops, opReg(r.Pick(methods), paths[i], i+1))
		}
		m := r.Range(3, 14)
		for i := 0; i < m; i++ {
			q := pathMutate(r, paths[r.Intn(n)])
			if r.Chance(1, 3) {
				ops = append(ops, pathGenServe(r, r.Pick(methods), []string{"p", "p", "d", "r"}, q))
			} else {
				ops = append(ops, opMatch(r.Pick(methods), q))
			}
		}
		return Case{Ops: ops, Tag: "sampled-routes"}
	case x < 8:
		// nested groups
		ops := []string{opNew(st, enc, nil)}
		var regd []string
		id := 0
		var gen func(depth int, pfx string)
		gen = func(depth int, pfx string) {
			k := r.Range(1, 3)
			for i := 0; i < k; i++ {
				if depth < 3 && r.Chance(2, 5) {
					g := pathRandString(r, 0, 5)
					if r.Chance(1, 4) {
						g = r.Pick([]string{"", "/", " ", "//", "/g", "g/", " g ", "/g /"})
					}
					ops = append(ops, opGroup(g))
					gen(depth+1, pfx+"/"+g)
					ops = append(ops, "end")
				} else {
					p := pathRandString(r, 0, 6)
					if r.Chance(1, 4) {
						p = r.Pick([]string{"", "/", " ", "//", "/a", "a/", " a ", "/a /"})
					}
					id++
					ops = append(ops, opReg("GET", p, id))
					regd = append(regd, pfx+"/"+p, pfx+p)
				}
			}
		}
		gen(0, "")
		if len(regd) == 0 {
			regd = []string{"/"}
		}
		m := r.Range(3, 12)
		for i := 0; i < m; i++ {
			q := regd[r.Intn(len(regd))]
			if r.Chance(1, 2) {
				q = pathMutate(r, q)
			}
			if r.Chance(1, 4) {
				ops = append(ops, pathGenServe(r, "GET", []string{"p", "d", "r"}, q))
			} else {
				ops = append(ops, opMatch("GET", q))
			}
		}
		return Case{Ops: ops, Tag: "sampled-groups"}
	default:
		// InterceptAll with an un-normalised path
		p := pathRandString(r, 1, 6)
		ic := pathMutate(r, p)
		ops := []string{opNew(st, enc, &ic), opReg("GET", p, 1), opReg("GET", pathRandString(r, 0, 4), 2)}
		m := r.Range(2, 6)
		for i := 0; i < m; i++ {
			q := pathRandString(r, 0, 6)
			if r.Bool() {
				ops = append(ops, opMatch("GET", q))
			} else {
				ops = append(ops, pathGenServe(r, "GET", []string{"p", "d", "r"}, q))
			}
		}
		return Case{Ops: ops, Tag: "sampled-intercept"}
	}
}

/**************** running on the real router ****************/

type pathRun struct {
	r      *rux.Router
	ids    map[*rux.Route]int
	hit    int
	ops    []string
	i      int
	ans    []string
	oracle []string
	dead   bool // set while skipping the body of a group whose Group() call panicked
	headRt bool // a route has been registered under HEAD on the current router

	// re-dispatch (rserve kind c): when the op list contains such an op, every router of the run gets the
	// global middleware `redispatch` at creation (Use inside a group body would add a group handler); it does
	// nothing unless redir is set. seen* is what the router was given (Path, EscapedPath) by a rewriting op
	useRedir bool
	redir    *string
	seen     bool
	seenPath string
	seenEsc  string
}

func (p *pathRun) probe(next http.Handler) http.Handler {
	return http.HandlerFunc(func(w http.ResponseWriter, rq *http.Request) {
		p.seen, p.seenPath, p.seenEsc = true, rq.URL.Path, rq.URL.EscapedPath()
		next.ServeHTTP(w, rq)
	})
}

func (p *pathRun) redispatch(c *rux.Context) {
	if p.redir == nil {
		return
	}
	to := *p.redir
	p.redir = nil
	c.Req.URL.Path, c.Req.URL.RawPath = to, ""
	p.seen, p.seenPath, p.seenEsc = true, c.Req.URL.Path, c.Req.URL.EscapedPath()
	p.r.HandleContext(c)
	c.Abort()
}

func (p *pathRun) newRouter(f []string) string {
	var opts []func(*rux.Router)
	if f[1] == "1" {
		opts = append(opts, rux.StrictLastSlash)
	}
	if f[2] == "1" {
		opts = append(opts, rux.UseEncodedPath)
	}
	if f[3] != "-" {
		opts = append(opts, rux.InterceptAll(mustUnhx(f[3])))
	}
	p.r = rux.New(opts...)
	if p.useRedir {
		p.r.Use(p.redispatch)
	}
	p.ids = map[*rux.Route]int{}
	p.headRt = false
	return "ok"
}

func (p *pathRun) one(f []string) (res string) {
	defer func() {
		if v := recover(); v != nil {
			res = panicClass(v)
		}
	}()
	switch {
	case f[0] == "reg" && len(f) == 4:
		id := atoi(f[3])
		if strings.EqualFold(mustUnhx(f[1]), "HEAD") {
			p.headRt = true
		}
		rt := p.r.Add(mustUnhx(f[2]), func(c *rux.Context) { p.hit = id }, mustUnhx(f[1]))
		p.ids[rt] = id
		return hx(rt.Path())
	case f[0] == "match" && len(f) == 3:
		rt, _, _ := p.r.Match(mustUnhx(f[1]), mustUnhx(f[2]))
		// HEAD falls back to the GET routes: on a router without HEAD routes the same path, however it is spelled,
		// reaches with HEAD what it reaches with GET
		if mustUnhx(f[1]) == "GET" && !p.headRt {
			hd := guarded(func() string {
				h, _, _ := p.r.Match("HEAD", mustUnhx(f[2]))
				if h != rt {
					return "another route"
				}
				return ""
			})
			if hd != "" {
				p.oracle = append(p.oracle, fmt.Sprintf("C11 Match(HEAD, %q) on a router without HEAD routes: %s than Match(GET, …)", mustUnhx(f[2]), hd))
			}
		}
		if rt == nil {
			return "none"
		}
		id, ok := p.ids[rt]
		if !ok {
			return "unknown-route"
		}
		return fmt.Sprint(id)
	case f[0] == "serve" && len(f) == 6:
		u := pathMkURL(f[2], mustUnhx(f[3]))
		if hx(u.Path) != f[4] || hx(u.EscapedPath()) != f[5] {
			return "bad-op"
		}
		req := &http.Request{Method: mustUnhx(f[1]), URL: u, Proto: "HTTP/1.1", ProtoMajor: 1, ProtoMinor: 1, Header: http.Header{}, Host: "example.com"}
		if raw := mustUnhx(f[3]); f[2] == "p" {
			if _, err := url.ParseRequestURI(raw); err == nil {
				req.RequestURI = raw // as net/http's server does
			}
		}
		w := httptest.NewRecorder()
		p.hit = -1
		p.r.ServeHTTP(w, req)
		if p.hit < 0 {
			return "none"
		}
		return fmt.Sprint(p.hit)
	case f[0] == "rserve" && len(f) == 7:
		kind, arg := f[2], mustUnhx(f[3])
		req, ok := pathServerRequest(mustUnhx(f[1]), mustUnhx(f[4]))
		if !ok {
			return "bad-op"
		}
		var h http.Handler
		switch kind {
		case "s":
			h = http.StripPrefix(arg, p.probe(p.r))
		case "w":
			h = p.r.WrapHTTPHandlers(pathPre(arg), p.probe)
		case "c":
			if !p.useRedir {
				return "bad-op" // unreachable: Run sets useRedir when the op list has an rserve of kind c
			}
			p.redir = &arg
			h = p.r
		default:
			return "bad-op"
		}
		defer func() { p.redir = nil }()
		w := httptest.NewRecorder()
		p.hit, p.seen = -1, false
		h.ServeHTTP(w, req)
		if !p.seen || hx(p.seenPath) != f[5] || hx(p.seenEsc) != f[6] {
			return "bad-op"
		}
		if p.hit < 0 {
			return "none"
		}
		return fmt.Sprint(p.hit)
	}
	return "bad-op"
}

// exec interprets ops from p.i on; it returns after consuming the `end` that closes the current group
// (depth > 0) or at the end of the op list.
func (p *pathRun) exec(depth int) {
	for p.i < len(p.ops) {
		f := strings.Fields(p.ops[p.i])
		p.i++
		slot := len(p.ans)
		p.ans = append(p.ans, "")
		if len(f) == 0 {
			p.ans[slot] = "bad-op"
			continue
		}
		switch {
		case f[0] == "new" && len(f) == 4:
			if depth > 0 {
				p.ans[slot] = "bad-op"
				continue
			}
			p.ans[slot] = p.newRouter(f)
		case f[0] == "group" && len(f) == 2:
			if p.dead {
				p.ans[slot] = "skipped"
				p.exec(depth + 1)
				continue
			}
			entered := false
			func() {
				defer func() {
					if v := recover(); v != nil {
						if !entered {
							p.ans[slot] = panicClass(v)
						} else {
							p.oracle = append(p.oracle, "harness: panic escaped from a group body: "+fmt.Sprint(v))
						}
					}
				}()
				p.r.Group(mustUnhx(f[1]), func() {
					entered = true
					pfx, _, _ := p.r.VerifScope()
					p.ans[slot] = "ok ;; " + hx(pfx)
					p.exec(depth + 1)
				})
			}()
			if !entered {
				// Group() itself panicked: its body never ran; skip it so that every op still has an answer
				p.dead = true
				p.exec(depth + 1)
				p.dead = false
			}
			// the `end` that closed the body (if any) answers with the restored prefix
			if n := len(p.ans) - 1; n > slot && p.ans[n] == "@end" {
				pfx, _, _ := p.r.VerifScope()
				p.ans[n] = "ok ;; " + hx(pfx)
			}
		case f[0] == "end" && len(f) == 1:
			if depth == 0 {
				p.ans[slot] = "bad-op"
				continue
			}
			p.ans[slot] = "@end"
			return
		default:
			if p.dead {
				p.ans[slot] = "skipped"
				continue
			}
			p.ans[slot] = p.one(f)
		}
	}
}

func (*pathEngine) Run(ops []string) (ans []string, oracle []string) {
	p := &pathRun{r: rux.New(), ids: map[*rux.Route]int{}, ops: ops}
	for _, op := range ops {
		if f := strings.Fields(op); len(f) == 7 && f[0] == "rserve" && f[2] == "c" {
			p.useRedir = true
			p.r.Use(p.redispatch)
			break
		}
	}
	p.exec(0)
	for i, a := range p.ans {
		if a == "@end" {
			p.ans[i] = "ok ;; -" // unreachable: every @end is rewritten by its group
		}
	}
	return p.ans, p.oracle
}
