package main

import (
	"bytes"
	"encoding/json"
	"encoding/xml"
	"errors"
	"fmt"
	"io"
	"log"
	"math"
	"net/http"
	"net/http/httptest"
	"reflect"
	"strings"
	"time"
	"unicode/utf8"

	"github.com/gookit/rux"
	"github.com/gookit/rux/pkg/render"
)

// engine render (C19): the response helpers of rux.Context and the renderers of pkg/render, called from
// the handler of a real route against the recording ResponseWriter of the writer engine.
//
//	req <GET|HEAD|POST> <accept-hex|none> <ct-hex|none> [<wkind>]
//	status <code> | hdr <k> <v>
//	text <status> <data> <script> <via> | html … | jsonbytes <status> <data> <script> | blob <status> <ct> <data> <script>
//	stream <status> <ct> <reads> <script> <readerkind>
//	json <status> <val> <enc> <script> | jsonp <status> <cb> <val> <enc> <script> | xml <status> <val> <enc> <script> <indent>
//	nocontent | redirect <code|d> <url> <body> <script> | httperror <code> <msg> <script>
//	rblob <kind> <ct> <data> <script> | rjson <variant> <val> <enc> <script> | rjsonp <cb> <val> <enc> <script>
//	rxml <variant> <val> <enc> <script> | rview | should <status> <val> <enc> <script>
//	auto <val> <s|b|o> <data> <encJSON> <encXML> <encMarshal> <script>
//	end
//
// <val> is a value spec (s:hex, b:hex, m:hex-json, x:hex-json (a rux.M), t:hex-json, n:int, u:kind, nil); <enc> is what the stdlib
// encoder says about it (hex without json's trailing newline, or `err`) — computed by the generator with the
// real encoders, which are parameters of the model.
//
// <wkind> (0..7, default 0; the model ignores it) says what the underlying writer of the request is: bit 1 the
// recorder also implements io.ReaderFrom, bit 2 io.StringWriter (wrapRec: what the ResponseWriter of a real
// net/http server offers; the unchanged rux never calls them, so the log is the one of the plain recorder);
// bit 4: the same helper lines are run once more behind a real httptest.NewServer and status, Content-Type and
// body of the answer are compared with what the recorder saw (oracle, see roundTripOracle).
// <readerkind> of stream (the model ignores it) is the reader that delivers <reads>: 0 a scripted struct reader
// (no WriteTo), 4 an io.Pipe fed by a goroutine (no WriteTo); and, where <reads> is empty or one chunk together
// with io.EOF: 1 bytes.Reader, 5 strings.Reader (both WriteTo), 2 io.LimitReader over a longer strings.Reader,
// 3 struct{ io.Reader } around a strings.Reader (both without WriteTo) — otherwise these fall back to 0;
// 6..8 sized readers that have been partly consumed before Stream gets them (engine_render_sized.go).
type renderEngine struct{}

func init() { register(renderEngine{}) }

func (renderEngine) Name() string         { return "render" }
func (renderEngine) DriverEngine() string { return "render" }

func (renderEngine) Budget(tier string) int {
	if tier == "thorough" {
		return 40000
	}
	return 2500
}

/**************** values ****************/

type rInner struct {
	K string   `json:"k" xml:"k,attr"`
	V []string `json:"v" xml:"v"`
}

type rT struct {
	XMLName xml.Name `json:"-" xml:"item"`
	Name    string   `json:"name" xml:"name"`
	N       int      `json:"n" xml:"n"`
	Tags    []string `json:"tags" xml:"tags>tag"`
	In      *rInner  `json:"in" xml:"in"`
}

// a struct with a String method (value receiver; a nil *rStringer panics inside it) and a struct that is an error
type rStringer struct {
	ID   int    `json:"id" xml:"id"`
	Name string `json:"name" xml:"name"`
}

func (r rStringer) String() string { return r.Name + "#" + fmt.Sprint(r.ID) }

type rErrVal struct {
	Code int `json:"code" xml:"code"`
}

func (e rErrVal) Error() string { return "E" + fmt.Sprint(e.Code) }

func decodeVal(spec string) (v any, ok bool) {
	if spec == "nil" {
		return nil, true
	}
	kind, rest, found := strings.Cut(spec, ":")
	if !found {
		return nil, false
	}
	switch kind {
	case "s":
		s, ok := unhx(rest)
		return s, ok
	case "b":
		s, ok := unhx(rest)
		return []byte(s), ok
	case "m":
		s, ok := unhx(rest)
		if !ok {
			return nil, false
		}
		var m map[string]any
		if json.Unmarshal([]byte(s), &m) != nil {
			return nil, false
		}
		return m, true
	case "x": // a rux.M (the map type the documentation uses for ad-hoc payloads)
		s, ok := unhx(rest)
		if !ok {
			return nil, false
		}
		var m rux.M
		if json.Unmarshal([]byte(s), &m) != nil {
			return nil, false
		}
		return m, true
	case "t":
		s, ok := unhx(rest)
		if !ok {
			return nil, false
		}
		var t rT
		if json.Unmarshal([]byte(s), &t) != nil {
			return nil, false
		}
		return t, true
	case "n":
		n, ok := parseIntOK(rest)
		return n, ok
	case "u":
		switch rest {
		case "chan":
			return make(chan int), true
		case "func":
			return func() {}, true
		case "mapchan":
			return map[string]any{"a": 1, "c": make(chan int)}, true
		case "complex":
			return complex(1, 2), true
		case "nan":
			return math.NaN(), true
		case "structfunc":
			return struct {
				A string
				F func()
			}{"a", func() {}}, true
		// values whose types have methods a renderer could be tempted to call: they are data like any other struct
		case "stringer":
			return rStringer{ID: 7, Name: "acct"}, true
		case "nilstringer":
			return (*rStringer)(nil), true
		case "error":
			return errors.New("boom"), true
		case "errstruct":
			return rErrVal{Code: 3}, true
		}
	}
	return nil, false
}

func encTok(b []byte, err error) string {
	if err != nil {
		return "err"
	}
	return hx(string(b))
}

// encJSON: what json.Encoder produces for v (without the trailing newline); variant 1/3 = indented, 2 = no HTML escape
func encJSON(v any, variant int) string {
	var buf bytes.Buffer
	e := json.NewEncoder(&buf)
	switch variant {
	case 1, 3:
		e.SetIndent("", render.PrettyIndent)
	case 2:
		e.SetEscapeHTML(false)
	}
	err := e.Encode(v)
	return encTok(bytes.TrimSuffix(buf.Bytes(), []byte("\n")), err)
}

func encXML(v any, indent string) string {
	var buf bytes.Buffer
	e := xml.NewEncoder(&buf)
	if indent != "" {
		e.Indent("", indent)
	}
	err := e.Encode(v)
	if err != nil {
		return "err"
	}
	return hx(buf.String())
}

func encMarshal(v any) string { return encTok(json.Marshal(v)) }

/**************** scripted reader ****************/

type rdChunk struct {
	data []byte
	kind byte // 'n' nil error, 'f' io.EOF, 'x' other error
}

type scriptedReader struct {
	chunks []rdChunk
	i      int
}

var errRead = errors.New("scripted read failure")

func (r *scriptedReader) Read(p []byte) (int, error) {
	if r.i >= len(r.chunks) {
		return 0, io.EOF
	}
	c := r.chunks[r.i]
	r.i++
	n := copy(p, c.data)
	switch c.kind {
	case 'f':
		return n, io.EOF
	case 'x':
		return n, errRead
	}
	return n, nil
}

// streamReader builds the reader of a stream op. stop must be called when Stream has returned (it ends the
// feeding goroutine of a pipe).
func streamReader(chunks []rdChunk, kind string) (rd io.Reader, stop func()) {
	stop = func() {}
	simple := len(chunks) == 0 || (len(chunks) == 1 && chunks[0].kind == 'f')
	var all []byte
	if len(chunks) == 1 {
		all = chunks[0].data
	}
	switch {
	case kind == "4":
		// every chunk is one Write into the pipe (= one Read of io.Copy, the data sizes are far below its buffer);
		// io.EOF / an error come with the next Read, which is not observable
		pr, pw := io.Pipe()
		done := make(chan struct{})
		go func() {
			defer close(done)
			for _, c := range chunks {
				if _, err := pw.Write(c.data); err != nil {
					return
				}
				switch c.kind {
				case 'f':
					_ = pw.Close()
					return
				case 'x':
					_ = pw.CloseWithError(errRead)
					return
				}
			}
			_ = pw.Close()
		}()
		return pr, func() { _ = pr.Close(); <-done }
	case kind == "1" && simple:
		return bytes.NewReader(all), stop
	case kind == "5" && simple:
		return strings.NewReader(string(all)), stop
	case kind == "2" && simple:
		return io.LimitReader(strings.NewReader(string(all)+"trailer"), int64(len(all))), stop
	case kind == "3" && simple:
		return struct{ io.Reader }{strings.NewReader(string(all))}, stop
	case rsIsPartKind(kind) && simple:
		return rsPartReader(kind, all), stop
	}
	return &scriptedReader{chunks: chunks}, stop
}

func parseReadsTok(s string) ([]rdChunk, bool) {
	if s == "-" {
		return nil, true
	}
	var out []rdChunk
	for _, e := range strings.Split(s, ",") {
		d, k, ok := strings.Cut(e, ":")
		if !ok || len(k) != 1 || !strings.Contains("nfx", k) {
			return nil, false
		}
		b, ok := unhx(d)
		if !ok {
			return nil, false
		}
		out = append(out, rdChunk{[]byte(b), k[0]})
	}
	return out, true
}

func parseScriptTok(s string) ([]scripted, bool) {
	if s == "-" {
		return nil, true
	}
	var out []scripted
	for _, e := range strings.Split(s, ",") {
		a, b, ok := strings.Cut(e, ":")
		if !ok {
			return nil, false
		}
		acc, ok1 := parseNatOK(a)
		errb, ok2 := parseBit(b)
		if !ok1 || !ok2 {
			return nil, false
		}
		out = append(out, scripted{acc, errb})
	}
	return out, true
}

/**************** line validation (mirrors Drv/Render.lean) ****************/

func validRenderLine(f []string) bool {
	hexOK := func(s string) bool { _, ok := unhx(s); return ok }
	intOK := func(s string) bool { _, ok := parseIntOK(s); return ok }
	dataOK := func(s string) bool { _, ok := parseDataOK(s); return ok }
	scOK := func(s string) bool { _, ok := parseScriptTok(s); return ok }
	encOK := func(s string) bool { return s == "err" || hexOK(s) }
	all := func(bs ...bool) bool {
		for _, b := range bs {
			if !b {
				return false
			}
		}
		return true
	}
	n := len(f)
	switch f[0] {
	case "status":
		return n == 2 && intOK(f[1])
	case "hdr":
		return n == 3 && hexOK(f[1]) && hexOK(f[2])
	case "text":
		return n == 5 && all(intOK(f[1]), hexOK(f[2]), scOK(f[3]))
	case "html":
		return n == 5 && all(intOK(f[1]), dataOK(f[2]), scOK(f[3]))
	case "jsonbytes":
		return n == 4 && all(intOK(f[1]), dataOK(f[2]), scOK(f[3]))
	case "blob":
		return n == 5 && all(intOK(f[1]), hexOK(f[2]), dataOK(f[3]), scOK(f[4]))
	case "stream":
		_, rok := parseReadsTok(f[min(3, n-1)])
		return n == 6 && all(intOK(f[1]), hexOK(f[2]), rok, scOK(f[4]))
	case "json", "should":
		return n == 5 && all(intOK(f[1]), encOK(f[3]), scOK(f[4]))
	case "jsonp":
		return n == 6 && all(intOK(f[1]), hexOK(f[2]), encOK(f[4]), scOK(f[5]))
	case "xml":
		return n == 6 && all(intOK(f[1]), encOK(f[3]), scOK(f[4]))
	case "nocontent", "rview":
		return n == 1
	case "redirect":
		return n == 5 && all(f[1] == "d" || intOK(f[1]), hexOK(f[3]), scOK(f[4]))
	case "httperror":
		return n == 4 && all(intOK(f[1]), hexOK(f[2]), scOK(f[3]))
	case "rblob":
		kinds := map[string]bool{"blob": true, "text": true, "plain": true, "textbytes": true, "html": true, "htmlbytes": true}
		return n == 5 && all(kinds[f[1]], hexOK(f[2]), dataOK(f[3]), scOK(f[4]))
	case "rjson", "rxml":
		return n == 5 && all(encOK(f[3]), scOK(f[4]))
	case "rjsonp":
		return n == 5 && all(hexOK(f[1]), encOK(f[3]), scOK(f[4]))
	case "auto":
		return n == 8 && all(f[2] == "s" || f[2] == "b" || f[2] == "o", hexOK(f[3]), encOK(f[4]), encOK(f[5]), encOK(f[6]), scOK(f[7]))
	}
	return false
}

/**************** running ****************/

type rLine struct {
	idx int
	f   []string
}

type rReqCfg struct {
	meth   string
	accept *string
	ct     *string
	wkind  int
}

// the recorder of the render engine: recWriter + a queue of scripted answers
type renderRec struct {
	*recWriter
	queue []scripted
}

func (w *renderRec) Write(b []byte) (int, error) {
	if len(w.queue) > 0 {
		w.recWriter.next = &w.queue[0]
		w.queue = w.queue[1:]
	} else {
		w.recWriter.next = nil
	}
	return w.recWriter.Write(b)
}

func (w *renderRec) body() []byte {
	var out []byte
	for _, e := range w.log {
		if e.kind == 'w' {
			out = append(out, e.data[:e.n]...)
		}
	}
	return out
}

// one executed helper, for the oracle
type rExec struct {
	f          []string
	ctBefore   string // Content-Type before the call ("none")
	ctAfter    string
	stBefore   int
	bodyBefore int
	bodyAfter  int
	logBefore  int
	errsBefore int
	errsAfter  int
	ret        string
	panicked   bool
}

func (renderEngine) Run(ops []string) (ans []string, oracle []string) {
	ans = make([]string, len(ops))
	cfg := rReqCfg{meth: "GET"}
	var lines []rLine
	pending := false

	serve := func(endIdx int) {
		if !pending && endIdx < 0 {
			return
		}
		rec := &renderRec{recWriter: newRecWriter(cfg.ct)}
		var ctx *rux.Context
		var execs []rExec
		r := rux.New()
		r.Add("/p", func(c *rux.Context) {
			ctx = c
			for _, ln := range lines {
				execs = append(execs, runRenderHelper(c, rec, ln, ans))
			}
		}, "GET", "HEAD", "POST")
		req := httptest.NewRequest(cfg.meth, "/p", nil)
		if cfg.accept != nil {
			req.Header["Accept"] = []string{*cfg.accept}
		}
		escaped := false
		func() {
			defer func() {
				if v := recover(); v != nil {
					escaped = true
				}
			}()
			r.ServeHTTP(wrapRec(rec, cfg.wkind), req)
		}()
		if ctx != nil {
			if endIdx >= 0 {
				word := "done"
				if escaped {
					word = "escaped"
				}
				ans[endIdx] = fmt.Sprintf("%s %s sent=%s errs=%d ;; len=%d st=%d ct=%s", word, rec.logString(), rec.sent,
					len(ctx.Errors), ctx.Length(), ctx.StatusCode(), rec.ctString())
				oracle = append(oracle, renderOracle(cfg, rec, execs, escaped)...)
				oracle = append(oracle, rsLengthOracle(cfg, rec, execs, escaped)...)
				if cfg.wkind&rkRoundTrip != 0 {
					oracle = append(oracle, roundTripOracle(cfg, rec, lines, execs, escaped)...)
				}
			}
		} else {
			oracle = append(oracle, "C19 harness: the handler never ran")
		}
		// the response is done and recorded: whoever owns it now (a logging or compressing wrapper, a test) may edit
		// the header values IN PLACE; the header values of a response are its own, so no later response may notice
		for _, vs := range rec.hdr {
			for k := range vs {
				vs[k] = "edited-after-the-response/" + vs[k]
			}
		}
		lines = nil
		pending = false
	}

	for i, op := range ops {
		f := strings.Fields(op)
		if len(f) == 0 {
			ans[i] = "bad-op"
			continue
		}
		switch f[0] {
		case "req":
			if (len(f) != 4 && len(f) != 5) || (f[1] != "GET" && f[1] != "HEAD" && f[1] != "POST") {
				ans[i] = "bad-op"
				continue
			}
			wkind := 0
			if len(f) == 5 {
				wk, ok := parseNatOK(f[4])
				if !ok || wk > 7 {
					ans[i] = "bad-op"
					continue
				}
				wkind = wk
			}
			var acc, ct *string
			okAll := true
			if f[2] != "none" {
				v, ok := unhx(f[2])
				okAll = okAll && ok
				acc = &v
			}
			if f[3] != "none" {
				v, ok := unhx(f[3])
				okAll = okAll && ok
				ct = &v
			}
			if !okAll {
				ans[i] = "bad-op"
				continue
			}
			serve(-1)
			cfg = rReqCfg{meth: f[1], accept: acc, ct: ct, wkind: wkind}
			ans[i] = "ok"
		case "end":
			if len(f) != 1 {
				ans[i] = "bad-op"
				continue
			}
			serve(i)
		default:
			if !validRenderLine(f) {
				ans[i] = "bad-op"
				continue
			}
			ans[i] = "skipped"
			lines = append(lines, rLine{i, f})
			pending = true
		}
	}
	serve(-1)
	return
}

func runRenderHelper(c *rux.Context, rec *renderRec, ln rLine, ans []string) (ex rExec) {
	f := ln.f
	ex = rExec{f: f, ctBefore: rec.ctString(), stBefore: c.StatusCode(), bodyBefore: len(rec.body()), logBefore: len(rec.log),
		errsBefore: len(c.Errors), ret: "-"}
	finish := func(word string) {
		ex.ctAfter, ex.bodyAfter, ex.errsAfter = rec.ctString(), len(rec.body()), len(c.Errors)
		ans[ln.idx] = fmt.Sprintf("%s ret=%s errs=%d ;; len=%d st=%d ct=%s", word, ex.ret, len(c.Errors), c.Length(), c.StatusCode(), rec.ctString())
	}
	defer func() {
		if v := recover(); v != nil {
			ex.panicked = true
			finish("panic")
			panic(v)
		}
	}()
	setScript := func(tok string) { rec.queue, _ = parseScriptTok(tok) }
	rec.queue = nil
	ret := func(err error) { ex.ret = b2s(err != nil) }
	val := func(tok string) any { v, _ := decodeVal(tok); return v }
	w := c.Resp
	switch f[0] {
	case "status":
		c.SetStatus(atoi(f[1]))
	case "hdr":
		c.SetHeader(mustUnhx(f[1]), mustUnhx(f[2]))
	case "text":
		setScript(f[3])
		c.Text(atoi(f[1]), mustUnhx(f[2]))
	case "html":
		setScript(f[3])
		d, _ := parseDataOK(f[2])
		if f[4] == "1" {
			c.HTMLString(atoi(f[1]), string(d))
		} else {
			c.HTML(atoi(f[1]), d)
		}
	case "jsonbytes":
		setScript(f[3])
		d, _ := parseDataOK(f[2])
		c.JSONBytes(atoi(f[1]), d)
	case "blob":
		setScript(f[4])
		d, _ := parseDataOK(f[3])
		c.Blob(atoi(f[1]), mustUnhx(f[2]), d)
	case "stream":
		setScript(f[4])
		chunks, _ := parseReadsTok(f[3])
		rd, stop := streamReader(chunks, f[5])
		defer stop()
		c.Stream(atoi(f[1]), mustUnhx(f[2]), rd)
	case "json":
		setScript(f[4])
		c.JSON(atoi(f[1]), val(f[2]))
	case "jsonp":
		setScript(f[5])
		c.JSONP(atoi(f[1]), mustUnhx(f[2]), val(f[3]))
	case "xml":
		setScript(f[4])
		if ind, _ := unhx(f[5]); ind != "" {
			c.XML(atoi(f[1]), val(f[2]), ind)
		} else {
			c.XML(atoi(f[1]), val(f[2]))
		}
	case "nocontent":
		c.NoContent()
	case "redirect":
		setScript(f[4])
		if f[1] == "d" {
			c.Redirect(mustUnhx(f[2]))
		} else {
			c.Redirect(mustUnhx(f[2]), atoi(f[1]))
		}
	case "httperror":
		setScript(f[3])
		c.HTTPError(mustUnhx(f[2]), atoi(f[1]))
	case "rblob":
		setScript(f[4])
		d, _ := parseDataOK(f[3])
		switch f[1] {
		case "blob":
			ret(render.Blob(w, mustUnhx(f[2]), d))
		case "text":
			ret(render.Text(w, string(d)))
		case "plain":
			ret(render.Plain(w, string(d)))
		case "textbytes":
			ret(render.TextBytes(w, d))
		case "html":
			ret(render.HTML(w, string(d)))
		case "htmlbytes":
			ret(render.HTMLBytes(w, d))
		}
	case "rjson":
		setScript(f[4])
		switch f[1] {
		case "1":
			ret(render.JSONIndented(w, val(f[2])))
		case "2":
			ret(render.JSONRenderer{NotEscape: true}.Render(w, val(f[2])))
		case "3":
			ret(render.NewJSONIndented().Render(w, val(f[2])))
		default:
			ret(render.JSON(w, val(f[2])))
		}
	case "rjsonp":
		setScript(f[4])
		ret(render.JSONP(mustUnhx(f[1]), val(f[2]), w))
	case "rxml":
		setScript(f[4])
		if f[1] == "1" {
			ret(render.XMLPretty(w, val(f[2])))
		} else {
			ret(render.XML(w, val(f[2])))
		}
	case "rview":
		ret(render.ViewRenderer{}.Render(w, nil))
	case "should":
		setScript(f[4])
		ret(c.ShouldRender(atoi(f[1]), val(f[2]), render.JSONRenderer{}))
	case "auto":
		setScript(f[7])
		ret(render.Auto(w, c.Req, val(f[1])))
	}
	finish("ok")
	return
}

/**************** the property, evaluated on the implementation's output ****************/

const (
	docText  = "text/plain; charset=utf-8"
	docHTML  = "text/html; charset=utf-8"
	docJSON  = "application/json; charset=utf-8"
	docJSONP = "application/javascript; charset=utf-8"
	docXML   = "application/xml; charset=utf-8"
)

func keepOr(before, documented string) string {
	if before != "none" {
		return before
	}
	return hx(documented)
}

// firstSupported: the first listed Accept type that Auto supports ("" = none)
func firstSupported(accept string) string {
	var list []string
	if accept != "" {
		for _, p := range strings.Split(accept, ",") {
			p = strings.TrimSpace(strings.Split(p, ";")[0])
			if p != "" {
				list = append(list, p)
			}
		}
	}
	if len(list) == 0 {
		list = []string{"text/plain"}
	}
	for _, t := range list {
		switch t {
		case "application/json", "text/html", "text/plain", "application/xml", "text/xml":
			return t
		}
	}
	return ""
}

func allFull(tok string) bool { return tok == "-" }

func renderOracle(cfg rReqCfg, rec *renderRec, execs []rExec, escaped bool) (out []string) {
	bad := func(format string, a ...any) { out = append(out, fmt.Sprintf(format, a...)) }
	body := rec.body()

	// clauses that hold for every call, whatever happened before it
	for _, ex := range execs {
		f := ex.f
		name := f[0]
		switch name {
		case "json", "jsonp", "xml", "rblob", "rjson", "rjsonp", "rxml", "rview", "should", "auto":
			// pkg/render never overrides a Content-Type that is already set
			if ex.ctBefore != "none" && ex.ctAfter != ex.ctBefore {
				bad("C19 no override: %s changed the Content-Type from %s to %s", name, ex.ctBefore, ex.ctAfter)
			}
		}
		// encoding failures are reported, never a panic
		encErr := false
		switch name {
		case "json", "xml", "should", "rjson", "rxml":
			encErr = f[3] == "err"
		case "jsonp":
			encErr = f[4] == "err"
		case "rjsonp":
			encErr = f[3] == "err"
		}
		if encErr {
			if ex.panicked {
				bad("C19 errors: %s panicked on an unencodable value", name)
			}
			switch name {
			case "json", "jsonp", "xml":
				if ex.errsAfter != ex.errsBefore+1 {
					bad("C19 errors: %s of an unencodable value added %d errors to c.Errors", name, ex.errsAfter-ex.errsBefore)
				}
			default:
				if ex.ret != "1" {
					bad("C19 errors: %s of an unencodable value returned no error", name)
				}
			}
		}
		if name == "auto" {
			accept := ""
			if cfg.accept != nil {
				accept = *cfg.accept
			}
			chosen := firstSupported(accept)
			script := f[7]
			wrote := body[ex.bodyBefore:ex.bodyAfter]
			var wantCT string
			var wantBody []byte
			wantErr := false
			enc := func(tok string, suffix string) {
				if tok == "err" {
					wantErr = true
					return
				}
				wantBody = append([]byte(mustUnhx(tok)), suffix...)
			}
			switch chosen {
			case "":
				wantErr = true
			case "application/json":
				wantCT = docJSON
				enc(f[4], "\n")
			case "text/html":
			case "text/plain":
				wantCT = docText
				switch f[2] {
				case "s", "b":
					wantBody = []byte(mustUnhx(f[3]))
				default:
					enc(f[6], "")
					if wantErr {
						wantCT = ""
					}
				}
			default:
				wantCT = docXML
				wantBody = []byte(xml.Header)
				enc(f[5], "")
				if wantErr {
					wantBody = []byte(xml.Header)
				} else {
					wantBody = append([]byte(xml.Header), wantBody...)
				}
			}
			if allFull(script) {
				if (ex.ret == "1") != wantErr {
					bad("C19 negotiate: Accept %q: first supported type is %q, Auto returned error=%s, expected %v", accept, chosen, ex.ret, wantErr)
				}
				if string(wrote) != string(wantBody) {
					bad("C19 negotiate: Accept %q: first supported type is %q, Auto wrote %q, expected %q", accept, chosen, wrote, wantBody)
				}
				if ex.ctBefore == "none" {
					want := "none"
					if wantCT != "" {
						want = hx(wantCT)
					}
					if ex.ctAfter != want {
						bad("C19 negotiate: Accept %q: first supported type is %q, Content-Type is %s, expected %s", accept, chosen, ex.ctAfter, want)
					}
				}
			}
		}
	}

	// a helper that is the only response action of its request (status/header settings may precede it) and whose
	// writes are all accepted: status, Content-Type on the wire and body are the documented ones
	var main *rExec
	recorded := 0
	for i := range execs {
		switch execs[i].f[0] {
		case "status":
			if main != nil {
				return
			}
			if c := atoi(execs[i].f[1]); c > 0 {
				recorded = c
			}
		case "hdr":
			if main != nil {
				return
			}
		default:
			if main != nil {
				return
			}
			main = &execs[i]
		}
	}
	if main == nil || escaped {
		return
	}
	f := main.f
	name := f[0]
	if main.logBefore != 0 {
		return
	}
	var status int
	var wantCT string
	var wantBody []byte
	script := "-"
	hasStatus := true
	switch name {
	case "text":
		status, wantCT, wantBody, script = atoi(f[1]), hx(docText), []byte(mustUnhx(f[2])), f[3]
	case "html":
		d, _ := parseDataOK(f[2])
		status, wantCT, wantBody, script = atoi(f[1]), hx(docHTML), d, f[3]
	case "jsonbytes":
		d, _ := parseDataOK(f[2])
		status, wantCT, wantBody, script = atoi(f[1]), hx(docJSON), d, f[3]
	case "blob":
		d, _ := parseDataOK(f[3])
		status, wantCT, wantBody, script = atoi(f[1]), f[2], d, f[4]
		if f[2] == "-" {
			wantCT = hx("")
		}
	case "stream":
		chunks, _ := parseReadsTok(f[3])
		for _, ch := range chunks {
			wantBody = append(wantBody, ch.data...)
			if ch.kind != 'n' {
				break
			}
		}
		status, wantCT, script = atoi(f[1]), f[2], f[4]
		if f[2] == "-" {
			wantCT = hx("")
		}
	case "json":
		if f[3] == "err" {
			return
		}
		status, wantCT, wantBody, script = atoi(f[1]), keepOr(main.ctBefore, docJSON), []byte(mustUnhx(f[3])+"\n"), f[4]
	case "jsonp":
		if f[4] == "err" {
			return
		}
		status, wantCT, script = atoi(f[1]), keepOr(main.ctBefore, docJSONP), f[5]
		wantBody = []byte(mustUnhx(f[2]) + "(" + mustUnhx(f[4]) + "\n" + ");")
	case "xml":
		if f[3] == "err" {
			return
		}
		status, wantCT, wantBody, script = atoi(f[1]), keepOr(main.ctBefore, docXML), []byte(xml.Header+mustUnhx(f[3])), f[4]
	case "nocontent":
		status, wantCT = 204, main.ctBefore
	case "httperror":
		status, wantCT, wantBody, script = atoi(f[1]), hx(docText), []byte(mustUnhx(f[2])+"\n"), f[3]
	case "redirect":
		status = 301
		if f[1] != "d" {
			status = atoi(f[1])
		}
		script = f[4]
		wantCT = main.ctBefore
		if main.ctBefore == "none" && (cfg.meth == "GET" || cfg.meth == "HEAD") {
			wantCT = hx(docHTML)
		}
		if main.ctBefore == "none" && cfg.meth == "GET" {
			wantBody = []byte(mustUnhx(f[3]))
		}
	default:
		hasStatus = false
	}
	if !hasStatus || !allFull(script) || main.panicked {
		return
	}
	wantStatus := status
	if status <= 0 {
		wantStatus = recorded
		if recorded == 0 {
			wantStatus = 200
		}
	}
	if len(rec.log) == 0 || rec.log[0].kind != 'h' || rec.log[0].code != wantStatus {
		bad("C19 status: %s given %d (recorded before: %d): the underlying writer saw %s", name, status, recorded, rec.logString())
	}
	if rec.sent != wantCT {
		bad("C19 content type: %s: Content-Type at the commit is %s, documented %s", name, rec.sent, wantCT)
	}
	if string(body) != string(wantBody) {
		bad("C19 body: %s wrote %q, expected %q", name, body, wantBody)
	}
	// sampled: the body decodes back to the value with the Go standard library
	switch name {
	case "json", "jsonp", "xml":
		spec := f[2]
		if name == "jsonp" {
			spec = f[3]
		}
		if msg := roundTrip(name, spec, body, f); msg != "" {
			bad("C19 round trip (sampled): %s", msg)
		}
	}
	return
}

/**************** the same request behind a real net/http server ****************/

const rkRoundTrip = 4

// roundTripOracle runs the helper lines of the request once more in a handler of a real rux router behind
// httptest.NewServer (the ResponseWriter of net/http: io.ReaderFrom, io.StringWriter, http.Flusher, implicit
// 200 on the first write, …) and compares what the client receives with what the recording writer saw, which the
// model has answered for. Only where net/http adds nothing of its own: GET/POST, every write accepted in full,
// no panic, a committed status of 200..599 that allows a body, no Content-Length set by the handler. A request
// that cannot be made (no listener in this sandbox, transport refuses the header) is skipped.
func roundTripOracle(cfg rReqCfg, rec *renderRec, lines []rLine, execs []rExec, escaped bool) (out []string) {
	if escaped || (cfg.meth != "GET" && cfg.meth != "POST") {
		return
	}
	if len(rec.log) == 0 || rec.log[0].kind != 'h' {
		return
	}
	code := rec.log[0].code
	if code < 200 || code > 599 || code == 204 || code == 304 {
		return
	}
	for _, e := range rec.log {
		if e.kind == 'w' && (e.err || e.n != len(e.data)) {
			return
		}
	}
	maxIdx := 0
	for _, ex := range execs {
		if ex.panicked {
			return
		}
		if ex.f[0] == "hdr" && http.CanonicalHeaderKey(mustUnhx(ex.f[1])) == "Content-Length" {
			return
		}
	}
	for _, ln := range lines {
		if ln.idx > maxIdx {
			maxIdx = ln.idx
		}
	}
	if cfg.accept != nil && *cfg.accept != strings.Trim(*cfg.accept, " \t") {
		return // the server trims the field value
	}

	var status int
	var ctype, body string
	ok := func() (ok bool) {
		defer func() {
			if recover() != nil {
				ok = false
			}
		}()
		scratch := make([]string, maxIdx+1)
		dummy := &renderRec{recWriter: newRecWriter(nil)}
		r := rux.New()
		r.Add("/p", func(c *rux.Context) {
			for _, ln := range lines {
				runRenderHelper(c, dummy, ln, scratch)
			}
		}, "GET", "HEAD", "POST")
		srv := httptest.NewUnstartedServer(http.HandlerFunc(func(w http.ResponseWriter, q *http.Request) {
			if cfg.ct != nil {
				w.Header()["Content-Type"] = []string{*cfg.ct}
			}
			r.ServeHTTP(w, q)
		}))
		srv.Config.ErrorLog = log.New(io.Discard, "", 0)
		srv.Start()
		defer srv.Close()
		req, err := http.NewRequest(cfg.meth, srv.URL+"/p", nil)
		if err != nil {
			return false
		}
		if cfg.accept != nil {
			req.Header["Accept"] = []string{*cfg.accept}
		}
		client := srv.Client()
		client.Timeout = 5 * time.Second
		client.CheckRedirect = func(*http.Request, []*http.Request) error { return http.ErrUseLastResponse }
		resp, err := client.Do(req)
		if err != nil {
			return false
		}
		defer resp.Body.Close()
		bs, err := io.ReadAll(resp.Body)
		if errors.Is(err, io.ErrUnexpectedEOF) {
			// the recorder saw a complete response (checked above): the server cut the connection because the
			// handler wrote less than the response announced
			out = append(out, fmt.Sprintf("C19 real server: the client could not read the body (%v after %d bytes, Content-Length %d), the recording writer saw %q",
				err, len(bs), resp.ContentLength, rec.body()))
			return false
		}
		if err != nil {
			return false
		}
		status, ctype, body = resp.StatusCode, resp.Header.Get("Content-Type"), string(bs)
		return true
	}()
	if !ok {
		return
	}
	if status != code {
		out = append(out, fmt.Sprintf("C19 real server: the client received status %d, the recording writer saw %s", status, rec.logString()))
	}
	if body != string(rec.body()) {
		out = append(out, fmt.Sprintf("C19 real server: the client received body %q, the recording writer saw %q", body, rec.body()))
	}
	if rec.sent != "none" && rec.sent != "-" {
		if want := strings.Trim(mustUnhx(rec.sent), " \t"); want != "" && ctype != want {
			out = append(out, fmt.Sprintf("C19 real server: the client received Content-Type %q, at the commit the recording writer had %q", ctype, want))
		}
	}
	return
}

func xmlSafe(s string) bool {
	if !utf8.ValidString(s) {
		return false
	}
	for _, r := range s {
		ok := r == 0x09 || r == 0x0A || r == 0x0D || (r >= 0x20 && r <= 0xD7FF) || (r >= 0xE000 && r < 0xFFFD) || (r >= 0x10000 && r <= 0x10FFFF)
		if !ok {
			return false
		}
	}
	return true
}

// jsonCoerce: encoding/json replaces every invalid byte of a string by U+FFFD (such strings cannot round-trip)
func jsonCoerce(s string) string {
	var b strings.Builder
	for i := 0; i < len(s); {
		r, size := utf8.DecodeRuneInString(s[i:])
		if r == utf8.RuneError && size == 1 {
			b.WriteString("\uFFFD")
		} else {
			b.WriteString(s[i : i+size])
		}
		i += size
	}
	return b.String()
}

func normT(t rT) rT {
	t.XMLName = xml.Name{}
	if len(t.Tags) == 0 {
		t.Tags = nil
	}
	if t.In != nil {
		in := *t.In
		if len(in.V) == 0 {
			in.V = nil
		}
		t.In = &in
	}
	return t
}

func tStrings(t rT) []string {
	out := append([]string{t.Name}, t.Tags...)
	if t.In != nil {
		out = append(out, t.In.K)
		out = append(out, t.In.V...)
	}
	return out
}

// roundTrip decodes the body with the standard library and compares it with the value given ("" = fine or
// not comparable: values the format cannot represent are skipped).
func roundTrip(name, spec string, body []byte, f []string) string {
	v, ok := decodeVal(spec)
	if !ok {
		return ""
	}
	if name == "xml" {
		payload := bytes.TrimPrefix(body, []byte(xml.Header))
		switch x := v.(type) {
		case string:
			if !xmlSafe(x) || strings.Contains(x, "\r") {
				return ""
			}
			var got string
			if err := xml.Unmarshal(payload, &got); err != nil {
				return fmt.Sprintf("xml of %q does not decode: %v", x, err)
			}
			if got != x {
				return fmt.Sprintf("xml of %q decodes to %q", x, got)
			}
		case rux.M:
			// whatever an XML helper sends for a map without reporting an error has to be a well-formed document
			d := xml.NewDecoder(bytes.NewReader(payload))
			for {
				_, err := d.Token()
				if err == io.EOF {
					break
				}
				if err != nil {
					return fmt.Sprintf("xml of %v is not a well-formed document: %v (%q)", x, err, payload)
				}
			}
			var probe struct {
				XMLName xml.Name
				Inner   []byte `xml:",innerxml"`
			}
			if len(payload) > 0 && xml.Unmarshal(payload, &probe) != nil {
				return fmt.Sprintf("xml of %v does not decode (%q)", x, payload)
			}
			if len(payload) > 0 {
				for k, val := range x {
					if val == nil && !bytes.Contains(payload, []byte(k)) {
						return fmt.Sprintf("xml of %v lost the key %q without an error (%q)", x, k, payload)
					}
				}
			}
		case rT:
			for _, s := range tStrings(x) {
				if !xmlSafe(s) || strings.Contains(s, "\r") {
					return ""
				}
			}
			var got rT
			if err := xml.Unmarshal(payload, &got); err != nil {
				return fmt.Sprintf("xml of %+v does not decode: %v", x, err)
			}
			if !reflect.DeepEqual(normT(got), normT(x)) {
				return fmt.Sprintf("xml of %+v decodes to %+v", normT(x), normT(got))
			}
		}
		return ""
	}
	payload := body
	if name == "jsonp" {
		cb := mustUnhx(f[2])
		if !bytes.HasPrefix(payload, []byte(cb+"(")) || !bytes.HasSuffix(payload, []byte(");")) {
			return fmt.Sprintf("jsonp body %q is not %s(...);", body, cb)
		}
		payload = payload[len(cb)+1 : len(payload)-2]
	}
	switch x := v.(type) {
	case string:
		var got string
		if err := json.Unmarshal(payload, &got); err != nil {
			return fmt.Sprintf("json of %q does not decode: %v", x, err)
		}
		if got != jsonCoerce(x) {
			return fmt.Sprintf("json of %q decodes to %q", x, got)
		}
	case []byte:
		var got []byte
		if err := json.Unmarshal(payload, &got); err != nil {
			return fmt.Sprintf("json of bytes %x does not decode: %v", x, err)
		}
		if !bytes.Equal(got, x) {
			return fmt.Sprintf("json of bytes %x decodes to %x", x, got)
		}
	case map[string]any:
		var got map[string]any
		if err := json.Unmarshal(payload, &got); err != nil {
			return fmt.Sprintf("json of %v does not decode: %v", x, err)
		}
		if !reflect.DeepEqual(got, x) {
			return fmt.Sprintf("json of %v decodes to %v", x, got)
		}
	case rT:
		var got rT
		if err := json.Unmarshal(payload, &got); err != nil {
			return fmt.Sprintf("json of %+v does not decode: %v", x, err)
		}
		if !reflect.DeepEqual(got, x) {
			return fmt.Sprintf("json of %+v decodes to %+v", x, got)
		}
	case int:
		var got int
		if err := json.Unmarshal(payload, &got); err != nil || got != x {
			return fmt.Sprintf("json of %d decodes to %d (%v)", x, got, err)
		}
	case nil:
		var got any = 1
		if err := json.Unmarshal(payload, &got); err != nil || got != nil {
			return fmt.Sprintf("json of nil decodes to %v (%v)", got, err)
		}
	}
	return ""
}

/**************** corpus and generator ****************/

var rStrings = []string{"", "hi", "<b>bold</b> & \"quoted\" 'single'", "héllo wörld", "漢字 \U0001F600", "line1\nline2\ttab\r\n",
	"\x00\x01\x1f\x7f", "a b c", "</script><script>alert(1)</script>", "\xff\xfe invalid", "  spaces  ", "{\"json\":1}", "]]>&amp;", "100% sure", "%d of %s", "disk 95%!"}

var rAlphabet = []rune("ab<>&\"'é漢\n\t\x01 /{}:,%")

var rStatuses = []int{-1, 0, 0, 200, 200, 201, 202, 204, 301, 302, 400, 404, 418, 500, 503, 599}

func rString(r *Rand, valid bool) string {
	for {
		var s string
		if r.Chance(2, 3) {
			s = r.Pick(rStrings)
		} else {
			n := r.Range(0, 12)
			rs := make([]rune, n)
			for i := range rs {
				rs[i] = rAlphabet[r.Intn(len(rAlphabet))]
			}
			s = string(rs)
		}
		if !valid || utf8.ValidString(s) {
			return s
		}
	}
}

func rJSONValue(r *Rand, depth int) any {
	switch x := r.Intn(10); {
	case x < 3:
		return rString(r, true)
	case x < 5:
		return []float64{0, 1, -1, 1.5, 42, 1e21, -0.25, 9007199254740991}[r.Intn(8)]
	case x < 6:
		return r.Bool()
	case x < 7:
		return nil
	case x < 9 && depth > 0:
		return rMap(r, depth-1)
	default:
		n := r.Intn(3)
		out := make([]any, n)
		for i := range out {
			out[i] = rJSONValue(r, depth-1)
		}
		if depth <= 0 {
			return []any{}
		}
		return out
	}
}

func rMap(r *Rand, depth int) map[string]any {
	m := map[string]any{}
	for i, n := 0, r.Intn(4); i < n; i++ {
		m[rString(r, true)] = rJSONValue(r, depth)
	}
	return m
}

// rValue returns a value spec.
func rValue(r *Rand) string {
	switch x := r.Intn(20); {
	case x < 4:
		return "s:" + hx(rString(r, false))
	case x < 6:
		n := r.Intn(6)
		b := make([]byte, n)
		for i := range b {
			b[i] = byte(r.Intn(256))
		}
		return "b:" + hx(string(b))
	case x < 10:
		b, _ := json.Marshal(rMap(r, 2))
		return "m:" + hx(string(b))
	case x < 15:
		t := rT{Name: rString(r, true), N: r.Range(-5, 1000)}
		for i, n := 0, r.Intn(3); i < n; i++ {
			t.Tags = append(t.Tags, rString(r, true))
		}
		if r.Bool() {
			t.In = &rInner{K: rString(r, true)}
			for i, n := 0, r.Intn(3); i < n; i++ {
				t.In.V = append(t.In.V, rString(r, true))
			}
		}
		b, _ := json.Marshal(t)
		return "t:" + hx(string(b))
	case x < 16 && r.Bool():
		m := map[string]any{}
		for i, n := 0, r.Range(1, 3); i < n; i++ {
			var v any = r.Pick([]string{"tom", "", "a b", "<x>"})
			switch r.Intn(4) {
			case 0:
				v = nil
			case 1:
				v = r.Intn(100)
			}
			m[r.Pick([]string{"name", "full name", "k1", "1x", "a-b", "<k>", "é"})] = v
		}
		b, _ := json.Marshal(m)
		return "x:" + hx(string(b))
	case x < 16:
		return fmt.Sprintf("n:%d", r.Range(-3, 100000))
	case x < 17:
		return "nil"
	default:
		return "u:" + r.Pick([]string{"chan", "func", "mapchan", "complex", "nan", "structfunc", "stringer", "nilstringer", "error", "errstruct", "stringer", "errstruct"})
	}
}

func rScript(r *Rand, faulty bool, nwrites int) string {
	if !faulty || r.Chance(1, 3) {
		return "-"
	}
	n := r.Range(1, nwrites)
	parts := make([]string, n)
	for i := range parts {
		acc := 100000
		switch r.Intn(4) {
		case 0:
			acc = 0
		case 1:
			acc = r.Intn(6)
		}
		parts[i] = fmt.Sprintf("%d:%s", acc, b2s(r.Chance(1, 3)))
	}
	return strings.Join(parts, ",")
}

var rAccepts = []string{"application/json", "text/html", "text/plain", "application/xml", "text/xml", "image/png", "*/*", "text/*",
	"application/xhtml+xml", "Application/JSON", "application/json; charset=utf-8", "text/xml;q=0.9", " text/plain ", "\ttext/html\t", "", ";q=1", "application/x-yaml"}

func rAccept(r *Rand) string {
	switch r.Intn(8) {
	case 0:
		return "none"
	case 1:
		return hx(r.Pick(rAccepts))
	}
	n := r.Range(1, 4)
	parts := make([]string, n)
	for i := range parts {
		parts[i] = r.Pick(rAccepts)
		if r.Chance(1, 4) {
			parts[i] += ";q=0." + fmt.Sprint(r.Intn(10))
		}
	}
	sep := r.Pick([]string{",", ", ", " , ", ",,"})
	return hx(strings.Join(parts, sep))
}

var rCTs = []string{"text/x-custom", "application/json", "a/b; charset=x", ""}

func rData(r *Rand) string {
	switch r.Intn(8) {
	case 0:
		return "-"
	case 1:
		return "nil"
	}
	return hx(rString(r, false))
}

func rReads(r *Rand) (string, string) {
	// the reader: for the simple shapes any kind (with and without WriteTo), otherwise scripted or a pipe
	simpleKind := func() string { return fmt.Sprint(r.Intn(6)) }
	otherKind := func() string { return r.Pick([]string{"0", "0", "4"}) }
	switch r.Intn(8) {
	case 0:
		return "-", simpleKind()
	case 1: // everything at once, together with io.EOF
		return hx(rString(r, false)+"x") + ":f", simpleKind()
	case 2: // one byte at a time
		s := rString(r, false) + "z"
		if len(s) > 10 {
			s = s[:10]
		}
		parts := make([]string, len(s))
		for i := range parts {
			parts[i] = hx(s[i:i+1]) + ":n"
		}
		return strings.Join(parts, ","), otherKind()
	}
	n := r.Range(1, 5)
	parts := make([]string, n)
	for i := range parts {
		d := "-"
		if r.Chance(4, 5) {
			d = hx(rString(r, false))
		}
		k := "n"
		switch r.Intn(10) {
		case 0, 1:
			k = "f"
		case 2:
			k = "x"
		}
		parts[i] = d + ":" + k
	}
	return strings.Join(parts, ","), otherKind()
}

func (renderEngine) genHelper(r *Rand, faulty bool) string {
	st := r.PickInt(rStatuses)
	if r.Chance(1, 6) {
		st = r.Range(100, 599)
	}
	val := rValue(r)
	v, _ := decodeVal(val)
	switch x := r.Intn(100); {
	case x < 8:
		return fmt.Sprintf("text %d %s %s %d", st, hx(rString(r, false)), rScript(r, faulty, 1), 0)
	case x < 14:
		return fmt.Sprintf("html %d %s %s %d", st, rData(r), rScript(r, faulty, 1), r.Intn(2))
	case x < 19:
		return fmt.Sprintf("jsonbytes %d %s %s", st, rData(r), rScript(r, faulty, 1))
	case x < 25:
		return fmt.Sprintf("blob %d %s %s %s", st, hx(r.Pick(rCTs)), rData(r), rScript(r, faulty, 1))
	case x < 35:
		reads, rk := rReads(r)
		rk = rsPartKind(r, reads, rk)
		return fmt.Sprintf("stream %d %s %s %s %s", st, hx(r.Pick(rCTs)), reads, rScript(r, faulty, 3), rk)
	case x < 47:
		return fmt.Sprintf("json %d %s %s %s", st, val, encJSON(v, 0), rScript(r, faulty, 1))
	case x < 55:
		cb := r.Pick([]string{"cb", "callback", "", "a.b", "f<1>"})
		return fmt.Sprintf("jsonp %d %s %s %s %s", st, hx(cb), val, encJSON(v, 0), rScript(r, faulty, 3))
	case x < 65:
		ind := r.Pick([]string{"", "", "  ", "\t"})
		return fmt.Sprintf("xml %d %s %s %s %s", st, val, encXML(v, ind), rScript(r, faulty, 2), hx(ind))
	case x < 68:
		return "nocontent"
	case x < 73:
		url := r.Pick(wURLs)
		code, c := "d", 301
		if r.Chance(3, 4) {
			c = r.PickInt([]int{301, 302, 303, 307, 308, 0, 404})
			code = fmt.Sprint(c)
		}
		return fmt.Sprintf("redirect %s %s %s %s", code, hx(url), hx(redirectBody(url, c)), rScript(r, faulty, 1))
	case x < 77:
		return fmt.Sprintf("httperror %d %s %s", st, hx(rString(r, false)), rScript(r, faulty, 1))
	case x < 82:
		kind := r.Pick([]string{"blob", "text", "plain", "textbytes", "html", "htmlbytes"})
		return fmt.Sprintf("rblob %s %s %s %s", kind, hx(r.Pick(rCTs)), rData(r), rScript(r, faulty, 1))
	case x < 87:
		variant := r.Intn(4)
		return fmt.Sprintf("rjson %d %s %s %s", variant, val, encJSON(v, variant), rScript(r, faulty, 1))
	case x < 90:
		cb := r.Pick([]string{"cb", ""})
		return fmt.Sprintf("rjsonp %s %s %s %s", hx(cb), val, encJSON(v, 0), rScript(r, faulty, 3))
	case x < 94:
		variant := r.Intn(2)
		ind := ""
		if variant == 1 {
			ind = render.PrettyIndent
		}
		return fmt.Sprintf("rxml %d %s %s %s", variant, val, encXML(v, ind), rScript(r, faulty, 2))
	case x < 95:
		return "rview"
	case x < 97:
		return fmt.Sprintf("should %d %s %s %s", st, val, encJSON(v, 0), rScript(r, faulty, 1))
	default:
		return genAuto(r, val, faulty)
	}
}

func genAuto(r *Rand, val string, faulty bool) string {
	v, _ := decodeVal(val)
	vk, vd := "o", "-"
	switch x := v.(type) {
	case string:
		vk, vd = "s", hx(x)
	case []byte:
		vk, vd = "b", hx(string(x))
	}
	return fmt.Sprintf("auto %s %s %s %s %s %s %s", val, vk, vd, encJSON(v, 0), encXML(v, ""), encMarshal(v), rScript(r, faulty, 2))
}

func (e renderEngine) Gen(r *Rand, tier string) Case {
	if r.Chance(1, 30) { // stream "sized": Stream from partly consumed sized readers
		return rsGenSized(r, tier)
	}
	stream := r.Pick([]string{"single", "single", "single", "multi", "faulty", "auto"})
	meth := r.Pick([]string{"GET", "GET", "GET", "HEAD", "POST"})
	var ops []string
	nreq := r.PickInt([]int{1, 1, 2, 3})
	for q := 0; q < nreq; q++ {
		ct := "none"
		if r.Chance(1, 5) {
			ct = hx(r.Pick(rCTs[:3]))
		}
		// the underlying writer: a third of the requests get a recorder with the optional interfaces of a real
		// net/http writer; in the thorough tier some are repeated behind a real server
		wkind := 0
		if r.Chance(1, 3) {
			wkind = r.Range(1, recVariantMask)
		}
		if tier == "thorough" && r.Chance(1, 25) {
			wkind |= rkRoundTrip
		}
		ops = append(ops, fmt.Sprintf("req %s %s %s %d", meth, rAccept(r), ct, wkind))
		if r.Chance(1, 4) {
			ops = append(ops, fmt.Sprintf("status %d", r.PickInt(rStatuses)))
		}
		if r.Chance(1, 4) {
			ops = append(ops, fmt.Sprintf("hdr %s %s", hx(r.Pick(wHdrKeys)), hx(r.Pick(rCTs))))
		}
		n := 1
		if stream == "multi" || stream == "faulty" {
			n = r.Range(1, 4)
		}
		for i := 0; i < n; i++ {
			if stream == "auto" {
				ops = append(ops, genAuto(r, rValue(r), false))
			} else {
				ops = append(ops, e.genHelper(r, stream == "faulty"))
			}
		}
		ops = append(ops, "end")
	}
	return Case{Ops: ops, Tag: stream}
}

func (renderEngine) Corpus() []Case {
	mk := func(tag string, ops ...string) Case { return Case{Ops: ops, Tag: tag} }
	obj := "m:" + hx(`{"a":"<b>","n":1.5,"z":{"k":[true,null,"é"]}}`)
	ov, _ := decodeVal(obj)
	tv := "t:" + hx(`{"name":"N & <x>","n":7,"tags":["a","b\n"],"in":{"k":"key\"","v":["1"]}}`)
	tvv, _ := decodeVal(tv)
	auto := func(val string) string {
		v, _ := decodeVal(val)
		vk, vd := "o", "-"
		switch x := v.(type) {
		case string:
			vk, vd = "s", hx(x)
		case []byte:
			vk, vd = "b", hx(string(x))
		}
		return fmt.Sprintf("auto %s %s %s %s %s %s -", val, vk, vd, encJSON(v, 0), encXML(v, ""), encMarshal(v))
	}
	return []Case{
		// F12: Accept: application/xml, and xml listed before json
		mk("corpus-F12", "req GET "+hx("application/xml")+" none", auto(tv), "end"),
		mk("corpus-F12b", "req GET "+hx("application/xml, application/json")+" none", auto(tv), "end"),
		mk("corpus-accept", "req GET "+hx("image/png, text/xml;q=0.9 ,application/json")+" none", auto(tv), "end",
			"req GET "+hx("image/png")+" none", auto(obj), "end",
			"req GET none none", auto(obj), "end", "req GET none none", auto("s:"+hx("plain")), "end",
			"req GET "+hx("text/html")+" none", auto(obj), "end",
			"req GET "+hx("text/plain")+" none", auto("u:chan"), "end",
			"req GET "+hx("application/json")+" "+hx("x/y"), auto(obj), "end"),
		// every helper once, fresh request
		mk("corpus-helpers", "req GET none none", "text 201 "+hx("<b>hi</b>")+" - 0", "end",
			"html 200 "+hx("<p>é</p>")+" - 1", "end", "html 202 - - 0", "end",
			"jsonbytes 200 "+hx(`{"a":1}`)+" -", "end", "blob 203 "+hx("image/x")+" "+hx("\x00\xff")+" -", "end",
			"json 200 "+obj+" "+encJSON(ov, 0)+" -", "end", "jsonp 200 "+hx("cb")+" "+obj+" "+encJSON(ov, 0)+" -", "end",
			"xml 200 "+tv+" "+encXML(tvv, "")+" - -", "end", "xml 200 "+tv+" "+encXML(tvv, "  ")+" - "+hx("  "), "end",
			"nocontent", "end", "httperror 418 "+hx("teapot")+" -", "end",
			"redirect d "+hx("/a")+" "+hx(redirectBody("/a", 301))+" -", "end"),
		// status <= 0 keeps the recorded one; preset Content-Type: renderers keep it, Blob family overrides
		mk("corpus-preset", "req GET none "+hx("x/y"), "status 404", "json 0 "+obj+" "+encJSON(ov, 0)+" -", "end",
			"hdr "+hx("content-type")+" "+hx("q/r"), "xml -1 "+tv+" "+encXML(tvv, "")+" - -", "end",
			"text 200 "+hx("t")+" - 0", "end", "rblob text - "+hx("t")+" -", "end", "rview", "end"),
		// unencodable values: reported, no panic; JSONP has already written "cb("
		mk("corpus-unencodable", "req GET none none", "json 200 u:chan err -", "end", "jsonp 200 "+hx("cb")+" u:func err -", "end",
			"xml 200 "+obj+" err - -", "end", "rjson 0 u:nan err -", "end", "should 500 u:complex err -", "end"),
		// streams: data together with io.EOF, one byte at a time, empty reads, read error, short write
		mk("corpus-stream", "req GET none none", "stream 200 "+hx("a/b")+" "+hx("all")+":f - 0", "end",
			"stream 200 "+hx("a/b")+" "+hx("all")+":f - 1", "end",
			"stream 200 "+hx("a/b")+" "+hx("a")+":n,"+hx("b")+":n,-:n,"+hx("c")+":n - 0", "end",
			"stream 200 "+hx("a/b")+" "+hx("ab")+":n,"+hx("cd")+":x,"+hx("ef")+":n - 0", "end",
			"stream 200 "+hx("a/b")+" "+hx("abc")+":n,"+hx("def")+":n 3:0,2:0 0", "end",
			"stream 0 - - - 1", "end"),
		// the underlying writer implements io.ReaderFrom / io.StringWriter (as behind a real server); readers without
		// WriteTo (LimitReader, wrapped reader, pipe, scripted) and with it (bytes/strings.Reader): the status given
		// to Stream is committed before the first byte whatever path io.Copy takes
		mk("corpus-readerfrom", "req GET none none 1", "stream 201 "+hx("text/csv")+" "+hx("id,name\n1,inhere\n")+":f - 3", "end",
			"stream 202 "+hx("text/csv")+" "+hx("id,name\n")+":f - 2", "end",
			"stream 502 "+hx("text/plain")+" "+hx("up")+":n,"+hx("stream down")+":n - 4", "end",
			"stream 203 "+hx("a/b")+" "+hx("ab")+":n,-:n,"+hx("cd")+":x - 4", "end",
			"stream 404 "+hx("a/b")+" - - 2", "end", "stream 201 "+hx("a/b")+" "+hx("all")+":f - 5", "end",
			"req POST none none 3", "status 418", "stream 0 "+hx("a/b")+" "+hx("abc")+":n,"+hx("def")+":n 3:0,2:0 4", "end",
			"text 201 "+hx("t")+" - 0", "end", "json 202 "+obj+" "+encJSON(ov, 0)+" -", "end",
			"req GET none "+hx("x/y")+" 2", "stream 206 - "+hx("z")+":f - 1", "end", "httperror 500 "+hx("e")+" -", "end"),
		// the same behind a real net/http server (round trip compared with the recorder)
		mk("corpus-realserver", "req GET none none 4", "stream 201 "+hx("text/csv")+" "+hx("id,name\n1,inhere\n")+":f - 3", "end",
			"stream 202 "+hx("text/csv")+" "+hx("id,name\n")+":f - 2", "end",
			"stream 502 "+hx("text/plain")+" "+hx("up")+":n,"+hx("stream down")+":n - 4", "end",
			"req POST "+hx("application/json")+" none 7", "status 201", auto(obj), "end", "text 404 "+hx("nope")+" - 0", "end",
			"redirect 302 "+hx("/a")+" "+hx(redirectBody("/a", 302))+" -", "end"),
		// failing writes: Text panics (WriteBytes), JSON reports
		mk("corpus-faulty", "req GET none none", "text 200 "+hx("hi")+" 0:1 0", "json 200 "+obj+" "+encJSON(ov, 0)+" -", "end",
			"json 200 "+obj+" "+encJSON(ov, 0)+" 3:1", "end", "jsonp 200 "+hx("cb")+" "+obj+" "+encJSON(ov, 0)+" 9:0,0:1", "end",
			"xml 200 "+tv+" "+encXML(tvv, "")+" 99:0,5:0 -", "end"),
		// two helpers in one request: the second cannot change status or the type on the wire
		mk("corpus-twice", "req GET none none", "json 201 "+obj+" "+encJSON(ov, 0)+" -", "text 500 "+hx("late")+" - 0", "end"),
		// Stream from sized readers that were partly consumed before (magic read off, Seek, head of a section):
		// on the recorder, with the optional interfaces of a real writer, and behind a real server
		mk("corpus-sized", "req GET none none", "stream 200 "+hx("image/png")+" "+hx("IHDR....IDAT....IEND")+":f - 6", "end",
			"stream 200 "+hx("text/plain")+" "+hx("the rest of the text\n")+":f - 7", "end",
			"stream 206 "+hx("a/b")+" "+hx("section")+":f - 8", "end", "stream 200 "+hx("a/b")+" - - 6", "end",
			"req GET none none 3", "stream 200 "+hx("a/b")+" "+hx("readfrom")+":f - 6", "end", "stream 201 "+hx("a/b")+" "+hx("x")+":f - 8", "end",
			"req POST none none 4", "stream 200 "+hx("image/png")+" "+hx("IHDR....IDAT....IEND")+":f - 6", "end",
			"stream 200 "+hx("text/plain")+" "+hx("the rest of the text\n")+":f - 7", "end",
			"stream 200 "+hx("a/b")+" "+hx("0123456789abcdef0123456789abcdef")+":f - 8", "end"),
	}
}
