package main

import (
	"fmt"
	"sort"
	"strconv"
	"strings"
)

// Generator and corpus of the conc engine (C03).
//
// A gCase is a router shape + in-flight requests + a schedule. ops() renders it as protocol lines: the
// registration program for the real router, the flattened view and the pure match tables (`tbl`) for the
// model, the capacities of the shared slices as read from a scratch router (`caps`).
// The routes come from a small fragment (static paths, `{name}` variables without a regex, at most one
// group level) for which the match function is computed here, independently of rux.

type gGroup struct {
	prefix    string
	mws, uses []int
}

type gRoute struct {
	gid      int // -1 = none
	methods  []string
	pattern  string // inside its group
	name     string
	main     int
	useCalls [][]int
}

type gCase struct {
	cache         int // -1 = caching off
	mna, fallback bool
	progs         map[int]string
	uses          [][]int
	groups        map[int]gGroup
	routes        []gRoute
	notFound      []int // nil = not set
	notAllowed    []int
	reqs          []ccReq
	sched         []int
	noEnd         bool
	onPanic       int // 0 = no OnPanic hook, else the id of its handler program
}

var ccAnyMethods = []string{"GET", "POST", "PUT", "PATCH", "DELETE", "OPTIONS", "HEAD", "CONNECT", "TRACE"}

func gInts(xs []int) string {
	if len(xs) == 0 {
		return "-"
	}
	s := make([]string, len(xs))
	for i, x := range xs {
		s[i] = strconv.Itoa(x)
	}
	return strings.Join(s, ",")
}

func gUseCalls(calls [][]int) string {
	if len(calls) == 0 {
		return "-"
	}
	parts := make([]string, len(calls))
	for i, c := range calls {
		s := make([]string, len(c))
		for j, x := range c {
			s[j] = strconv.Itoa(x)
		}
		parts[i] = strings.Join(s, ".")
	}
	return strings.Join(parts, "/")
}

func (g *gCase) fullPath(rt gRoute) string {
	if grp, ok := g.groups[rt.gid]; ok && rt.gid >= 0 {
		return grp.prefix + rt.pattern
	}
	return rt.pattern
}

func gSegs(p string) []string { return strings.Split(strings.TrimPrefix(p, "/"), "/") }

func gIsVar(s string) bool { return strings.HasPrefix(s, "{") && strings.HasSuffix(s, "}") }

func gHasMethod(rt gRoute, m string) bool {
	for _, x := range rt.methods {
		if x == m {
			return true
		}
	}
	return false
}

// gMatchSegs: the pattern matches the path segment by segment ({name} = one non-empty segment).
func gMatchSegs(pat, path string) (map[string]string, bool) {
	ps, qs := gSegs(pat), gSegs(path)
	if len(ps) != len(qs) {
		return nil, false
	}
	out := map[string]string{}
	for i := range ps {
		if gIsVar(ps[i]) {
			if qs[i] == "" {
				return nil, false
			}
			out[ps[i][1:len(ps[i])-1]] = qs[i]
		} else if ps[i] != qs[i] {
			return nil, false
		}
	}
	return out, true
}

// stable: the LAST registered static route for method+path wins (map assignment)
func (g *gCase) matchStable(method, path string) (int, bool) {
	rid, ok := -1, false
	for i, rt := range g.routes {
		fp := g.fullPath(rt)
		if !strings.Contains(fp, "{") && fp == path && gHasMethod(rt, method) {
			rid, ok = i, true
		}
	}
	return rid, ok
}

// dyn: regular routes (literal first segment, needs a second slash in the request path) in registration order,
// then irregular routes in registration order
func (g *gCase) matchDyn(method, path string) (int, map[string]string, bool) {
	qs := gSegs(path)
	if len(qs) >= 2 && qs[0] != "" {
		for i, rt := range g.routes {
			fp := g.fullPath(rt)
			ps := gSegs(fp)
			if !strings.Contains(fp, "{") || gIsVar(ps[0]) || ps[0] != qs[0] || !gHasMethod(rt, method) {
				continue
			}
			if m, ok := gMatchSegs(fp, path); ok {
				return i, m, true
			}
		}
	}
	for i, rt := range g.routes {
		fp := g.fullPath(rt)
		if !strings.Contains(fp, "{") || !gIsVar(gSegs(fp)[0]) || !gHasMethod(rt, method) {
			continue
		}
		if m, ok := gMatchSegs(fp, path); ok {
			return i, m, true
		}
	}
	return -1, nil, false
}

func gParams(m map[string]string) string {
	if len(m) == 0 {
		return "-"
	}
	ks := make([]string, 0, len(m))
	for k := range m {
		ks = append(ks, k)
	}
	sort.Strings(ks)
	parts := make([]string, len(ks))
	for i, k := range ks {
		parts[i] = hx(k) + ":" + hx(m[k])
	}
	return strings.Join(parts, ",")
}

func (g *gCase) setupOps() []string {
	var ops []string
	if g.cache >= 0 {
		ops = append(ops, fmt.Sprintf("opt cache %d", g.cache))
	}
	if g.mna {
		ops = append(ops, "opt mna")
	}
	if g.fallback {
		ops = append(ops, "opt fallback")
	}
	ids := make([]int, 0, len(g.progs))
	for id := range g.progs {
		ids = append(ids, id)
	}
	sort.Ints(ids)
	for _, id := range ids {
		p := g.progs[id]
		if p == "" {
			p = "-"
		}
		ops = append(ops, fmt.Sprintf("prog %d %s", id, p))
	}
	for _, u := range g.uses {
		ops = append(ops, "use "+gInts(u))
	}
	gids := make([]int, 0, len(g.groups))
	for id := range g.groups {
		gids = append(gids, id)
	}
	sort.Ints(gids)
	for _, id := range gids {
		grp := g.groups[id]
		ops = append(ops, fmt.Sprintf("group %d %s %s %s", id, hx(grp.prefix), gInts(grp.mws), gInts(grp.uses)))
	}
	for i, rt := range g.routes {
		gid := "-"
		if rt.gid >= 0 {
			gid = strconv.Itoa(rt.gid)
		}
		ops = append(ops, fmt.Sprintf("route %d %s %s %s %s %d %s", i, gid, strings.Join(rt.methods, ","), hx(rt.pattern),
			hx(rt.name), rt.main, gUseCalls(rt.useCalls)))
	}
	if g.notFound != nil {
		ops = append(ops, "notfound "+gInts(g.notFound))
	}
	if g.notAllowed != nil {
		ops = append(ops, "notallowed "+gInts(g.notAllowed))
	}
	if g.onPanic > 0 {
		ops = append(ops, fmt.Sprintf("onpanic %d", g.onPanic))
	}
	return ops
}

// ops renders the case. The capacities are read from a scratch router built from the same lines.
func (g *gCase) ops() []string {
	ops := g.setupOps()
	scratch := ccParse(ops).build(false)
	caps := make([]string, len(g.routes))
	for i := range g.routes {
		caps[i] = "0:0"
		if rt := scratch.routes[i]; rt != nil {
			caps[i] = fmt.Sprintf("%d:%d", len(rt.Handlers()), cap(rt.Handlers()))
		}
	}
	capStr := strings.Join(caps, ",")
	if capStr == "" {
		capStr = "-"
	}
	ops = append(ops, fmt.Sprintf("caps %d:%d %s", len(scratch.r.Handlers()), cap(scratch.r.Handlers()), capStr))
	// the pure tables, for every key a declared request can probe
	seen := map[string]bool{}
	paths := []string{}
	for _, rq := range g.reqs {
		if !seen[rq.path] {
			seen[rq.path] = true
			paths = append(paths, rq.path)
		}
	}
	if g.fallback && !seen["/*"] {
		paths = append(paths, "/*")
	}
	ntbl := 0
	for _, p := range paths {
		for _, m := range ccAnyMethods {
			if rid, ok := g.matchStable(m, p); ok {
				ops = append(ops, fmt.Sprintf("tbl stable %s %d", hx(m+p), rid))
				ntbl++
			}
			if rid, ps, ok := g.matchDyn(m, p); ok {
				ops = append(ops, fmt.Sprintf("tbl dyn %s %d %s", hx(m+p), rid, gParams(ps)))
				ntbl++
			}
		}
	}
	ops = append(ops, fmt.Sprintf("tblend %d", ntbl))
	for i, rq := range g.reqs {
		ops = append(ops, fmt.Sprintf("req %d %s %s", i, rq.method, hx(rq.path)))
	}
	for _, i := range g.sched {
		ops = append(ops, fmt.Sprintf("adv %d", i))
	}
	if !g.noEnd {
		ops = append(ops, "end")
	}
	return ops
}

func (g *gCase) spare() bool {
	cfg := ccParse(g.setupOps())
	s := cfg.build(false)
	if cap(s.r.Handlers()) > len(s.r.Handlers()) {
		return true
	}
	for _, rt := range s.routes {
		if cap(rt.Handlers()) > len(rt.Handlers()) {
			return true
		}
	}
	return false
}

/**************** corpus ****************/

func (concEngine) Corpus() []Case {
	out := []Case{{Ops: []string{"timeoutmw"}, Tag: "corpus:timeout-middleware"}}
	add := func(tag string, g gCase) {
		if g.groups == nil {
			g.groups = map[int]gGroup{}
		}
		out = append(out, Case{Ops: g.ops(), Tag: "corpus:" + tag})
	}
	get := []string{"GET"}
	// F10a: three Use calls (len 3, cap 4); /b parks in the third global middleware while /c is served
	add("F10a", gCase{cache: -1,
		progs:  map[int]string{1: "N", 2: "N", 3: "P,N", 100: "W:42", 101: "W:43"},
		uses:   [][]int{{1}, {2}, {3}},
		routes: []gRoute{{gid: -1, methods: get, pattern: "/b", main: 100}, {gid: -1, methods: get, pattern: "/c", main: 101}},
		reqs:   []ccReq{{"GET", "/b"}, {"GET", "/c"}},
		sched:  []int{0, 1, 0}})
	// the same with route middleware appended in a second Use call (route slice with spare capacity)
	add("F10a-route", gCase{cache: -1,
		progs: map[int]string{1: "P,N", 30: "N", 31: "N", 32: "P,N,P", 100: "W:42", 101: "W:43"},
		uses:  [][]int{{1}},
		routes: []gRoute{{gid: -1, methods: get, pattern: "/b", main: 100, useCalls: [][]int{{30, 31}, {32}}},
			{gid: -1, methods: get, pattern: "/c", main: 101, useCalls: [][]int{{30}}}},
		reqs:  []ccReq{{"GET", "/b"}, {"GET", "/c"}, {"GET", "/b"}},
		sched: []int{0, 1, 0, 2, 1, 0, 2}})
	// F10c: the first 404 and 405 arrive together, default chains, global middleware parks
	add("F10c", gCase{cache: -1, mna: true,
		progs:  map[int]string{1: "P,N,P", 2: "E1", 100: "W:42"},
		uses:   [][]int{{1, 2}},
		routes: []gRoute{{gid: -1, methods: get, pattern: "/b", main: 100}},
		reqs:   []ccReq{{"GET", "/nope/x"}, {"POST", "/b"}, {"GET", "/nope"}, {"OPTIONS", "/b"}},
		sched:  []int{0, 1, 2, 3, 0, 1, 2, 3}})
	// custom NotFound / NotAllowed chains that park
	add("custom-404-405", gCase{cache: -1, mna: true,
		progs:    map[int]string{1: "N", 90: "P,ST404,W:6e66,P", 95: "P,N,ST405", 96: "W:6e61", 100: "W:42"},
		uses:     [][]int{{1}},
		routes:   []gRoute{{gid: -1, methods: []string{"GET", "PUT"}, pattern: "/b", main: 100}},
		notFound: []int{90}, notAllowed: []int{95, 96},
		reqs:  []ccReq{{"GET", "/x/y"}, {"POST", "/b"}, {"GET", "/b"}},
		sched: []int{0, 1, 0, 2, 1, 0}})
	// F13 / cache: the handler of the first request rewrites its param while a second request to the same URL
	// is answered from the cache; capacity 1, a third request to another key evicts
	add("cache-params", gCase{cache: 1,
		progs:  map[int]string{100: "P,WP:6964:65,SP,P,W:55", 30: "SP,N"},
		routes: []gRoute{{gid: -1, methods: get, pattern: "/u/{id}", name: "user", main: 100, useCalls: [][]int{{30}}}},
		reqs:   []ccReq{{"GET", "/u/7"}, {"GET", "/u/7"}, {"GET", "/u/8"}, {"GET", "/u/7"}},
		sched:  []int{0, 0, 1, 2, 1, 3, 2, 0, 3}})
	// capacity 0 and 2, HEAD falls back to GET, a static route shadows the dynamic one, 405 probes fill the cache
	add("cache-head-405", gCase{cache: 2, mna: true,
		progs: map[int]string{1: "P,N", 100: "SP,W:64", 101: "W:6e", 102: "GD:5f63757272656e74526f7574654e616d65,W:70"},
		uses:  [][]int{{1}},
		routes: []gRoute{{gid: -1, methods: get, pattern: "/d/{id}", main: 100}, {gid: -1, methods: get, pattern: "/d/new", main: 101},
			{gid: -1, methods: []string{"POST"}, pattern: "/d/{id}/x", name: "px", main: 102}},
		reqs:  []ccReq{{"HEAD", "/d/1"}, {"GET", "/d/new"}, {"GET", "/d/1/x"}, {"POST", "/d/2"}},
		sched: []int{0, 1, 2, 3, 3, 2, 1, 0}})
	// three requests for one cached key: the second (a hit) rewrites its params, the third (a hit) must not see it
	add("cache-params-hit", gCase{cache: 2,
		progs:  map[int]string{100: "SP,P,WP:6964:6576696c,SP,P,W:55"},
		routes: []gRoute{{gid: -1, methods: get, pattern: "/u/{id}", main: 100}},
		reqs:   []ccReq{{"GET", "/u/7"}, {"GET", "/u/7"}, {"GET", "/u/7"}},
		sched:  []int{0, 0, 0, 1, 1, 2, 1, 2, 2}})
	add("cache-cap0", gCase{cache: 0,
		progs:  map[int]string{100: "P,SP,W:64"},
		routes: []gRoute{{gid: -1, methods: get, pattern: "/d/{id}", main: 100}},
		reqs:   []ccReq{{"GET", "/d/1"}, {"GET", "/d/1"}},
		sched:  []int{0, 1, 0}})
	// groups: group middleware + Use inside the group + route middleware, fallback route, abort in a middleware
	add("group-fallback-abort", gCase{cache: 1, fallback: true,
		progs:  map[int]string{1: "SD:6b:31,N,GD:6b", 20: "P,N", 25: "E7,N", 30: "P,A,ST403,W:6e6f", 31: "N", 100: "W:67", 101: "W:68", 102: "P,W:6662"},
		uses:   [][]int{{1}},
		groups: map[int]gGroup{0: {prefix: "/g", mws: []int{20}, uses: []int{25}}},
		routes: []gRoute{{gid: 0, methods: get, pattern: "/{id}", main: 100, useCalls: [][]int{{31}}},
			{gid: 0, methods: get, pattern: "/s", main: 101, useCalls: [][]int{{30}}},
			{gid: -1, methods: []string{"GET", "POST"}, pattern: "/*", main: 102}},
		reqs:  []ccReq{{"GET", "/g/5"}, {"GET", "/g/s"}, {"POST", "/zz/y"}, {"GET", "/g/5"}},
		sched: []int{0, 1, 2, 3, 0, 1, 2, 3}})
	// a handler keeps a Copy() of its context (data: route name, route path, user=alice); the requests served after
	// its request has ended get the pooled context back and set user=bob: the copy must not change
	add("copy-reuse", gCase{cache: -1,
		progs:  map[int]string{100: "SD:" + hx("user") + ":" + hx("alice") + ",CP,W:61", 101: "SD:" + hx("user") + ":" + hx("bob") + ",W:70"},
		routes: []gRoute{{gid: -1, methods: get, pattern: "/jobs/{id}", main: 100}, {gid: -1, methods: get, pattern: "/ping", main: 101}},
		reqs:   []ccReq{{"GET", "/jobs/7"}, {"GET", "/ping"}, {"GET", "/ping"}, {"GET", "/jobs/8"}},
		sched:  []int{0, 1, 2, 3}})
	// the copy is taken in a global middleware before Next(), the request goes on (and sets more data) and ends
	// while two other requests are parked; a 404 and a cached dynamic route follow on the pooled context
	add("copy-parked", gCase{cache: 1, mna: true,
		progs:  map[int]string{1: "SD:6b31:31,CP,P,N,P", 2: "P,N", 100: "P,SD:6b32:32,SP,CP,W:64", 101: "W:73"},
		uses:   [][]int{{1}, {2}},
		routes: []gRoute{{gid: -1, methods: get, pattern: "/d0/{id}", name: "d", main: 100}, {gid: -1, methods: get, pattern: "/s0", main: 101}},
		reqs:   []ccReq{{"GET", "/d0/7"}, {"GET", "/s0"}, {"GET", "/nope"}, {"GET", "/d0/7"}, {"POST", "/s0"}},
		sched:  []int{1, 2, 0, 0, 0, 0, 0, 3, 1, 4, 3, 2, 3, 1, 4}})
	// schedules that are not complete / mention finished requests
	add("partial", gCase{cache: -1, noEnd: true,
		progs:  map[int]string{100: "P,W:42,P"},
		routes: []gRoute{{gid: -1, methods: get, pattern: "/b", main: 100}},
		reqs:   []ccReq{{"GET", "/b"}, {"GET", "/b"}},
		sched:  []int{0, 0, 0, 0, 1}})
	// a request panics and is recovered by an OnPanic hook that parks; meanwhile another request is served
	// completely; then the hook writes the panic response. Both answer what they answer alone.
	add("hook-parked", gCase{cache: -1, onPanic: 80,
		progs:  map[int]string{80: "P,E801,ST500,W:" + hx("recovered") + ",P", 100: "SD:6b31:61,X,W:61", 101: "W:" + hx("item")},
		routes: []gRoute{{gid: -1, methods: get, pattern: "/a", main: 100}, {gid: -1, methods: get, pattern: "/items/{id}", main: 101}},
		reqs:   []ccReq{{"GET", "/a"}, {"GET", "/items/7"}, {"GET", "/a"}},
		sched:  []int{0, 1, 0, 2, 0, 2, 1, 2}})
	// panic after Next() in a global middleware that parked before, caching on, a 404 and the same key in between
	add("hook-middleware", gCase{cache: 1, mna: true, onPanic: 80,
		progs:  map[int]string{80: "E801,GD:6b31,P,ST503,W:" + hx("r;"), 1: "P,SD:6b31:31,N,X", 2: "N,P", 100: "SP,W:64", 101: "P,W:73"},
		uses:   [][]int{{1}, {2}},
		routes: []gRoute{{gid: -1, methods: get, pattern: "/d0/{id}", main: 100}, {gid: -1, methods: get, pattern: "/s0", main: 101}},
		reqs:   []ccReq{{"GET", "/d0/7"}, {"GET", "/s0"}, {"GET", "/nope"}, {"GET", "/d0/7"}},
		sched:  []int{0, 0, 0, 1, 2, 3, 1, 0, 3, 2, 1, 3, 3}})
	// a capture middleware of one route replaces c.Resp and does not put the old writer back; the requests that are
	// served by the pooled context afterwards (another route, a 404) must not find the wrapper
	add("wrap-reuse", gCase{cache: -1,
		progs:  map[int]string{30: "RR,N", 100: "W:" + hx("secret-of-a"), 101: "W:" + hx("plain")},
		routes: []gRoute{{gid: -1, methods: get, pattern: "/a", main: 100, useCalls: [][]int{{30}}}, {gid: -1, methods: get, pattern: "/plain", main: 101}},
		reqs:   []ccReq{{"GET", "/a"}, {"GET", "/plain"}, {"GET", "/nope"}, {"GET", "/a"}},
		sched:  []int{0, 1, 2, 3}})
	add("wrap-parked", gCase{cache: 1, mna: true,
		progs:  map[int]string{1: "P,N", 100: "P,RR,W:64,RR,P,W:65", 101: "W:73,P"},
		uses:   [][]int{{1}},
		routes: []gRoute{{gid: -1, methods: get, pattern: "/d0/{id}", main: 100}, {gid: -1, methods: get, pattern: "/s0", main: 101}},
		reqs:   []ccReq{{"GET", "/d0/7"}, {"GET", "/s0"}, {"POST", "/s0"}, {"GET", "/d0/7"}},
		sched:  []int{1, 0, 0, 0, 0, 0, 2, 1, 3, 2, 3, 1, 3}})
	return out
}

/**************** generator ****************/

// ccwWrapStream (drawn after everything else of the case; one case in six): one or two handlers replace c.Resp by a
// wrapper (`RR`) and leave it there; in half of the cases request 0 is run to its end first, so that the requests
// started afterwards get its pooled context.
func ccwWrapStream(r *Rand, g *gCase) bool {
	if !r.Chance(1, 6) {
		return false
	}
	var cands []int
	for _, u := range g.uses {
		cands = append(cands, u...)
	}
	for _, rt := range g.routes {
		cands = append(cands, rt.main, rt.main)
		for _, c := range rt.useCalls {
			cands = append(cands, c...)
		}
	}
	for i, n := 0, r.Range(1, 2); i < n; i++ {
		id := cands[r.Intn(len(cands))]
		var acts []string
		if g.progs[id] != "" {
			acts = strings.Split(g.progs[id], ",")
		}
		p := r.Intn(len(acts) + 1)
		acts = append(acts[:p:p], append([]string{"RR"}, acts[p:]...)...)
		g.progs[id] = strings.Join(acts, ",")
	}
	if r.Chance(1, 2) {
		parks := 0
		for _, p := range g.progs {
			for _, t := range strings.Split(p, ",") {
				if t == "P" {
					parks++
				}
			}
		}
		g.sched = append(make([]int, parks+1), g.sched...)
	}
	return true
}

// ccxHookStream (drawn after everything else of the case; one case in six): an OnPanic hook that parks (program 80:
// sets a status, writes a body), and one or two handlers of the chains that panic (`X`). In half of the cases the
// schedule starts with a round in which every request in turn gets a few steps, so that some request is parked in
// its hook while the others start. These cases are outside the Lean model and are checked by the oracles.
func ccxHookStream(r *Rand, g *gCase, nReq int) bool {
	if !r.Chance(1, 6) {
		return false
	}
	var hook []string
	if r.Chance(3, 4) {
		hook = append(hook, "P")
	}
	hook = append(hook, "E801")
	if r.Chance(1, 2) {
		hook = append(hook, "GD:"+hx("k1"))
	}
	hook = append(hook, fmt.Sprintf("ST%d", r.PickInt([]int{500, 500, 503})), "W:"+hx("rec;"))
	if r.Chance(1, 2) {
		hook = append(hook, "P")
	}
	g.progs[80] = strings.Join(hook, ",")
	g.onPanic = 80
	var cands []int
	for _, u := range g.uses {
		cands = append(cands, u...)
	}
	for _, rt := range g.routes {
		cands = append(cands, rt.main, rt.main, rt.main)
		for _, c := range rt.useCalls {
			cands = append(cands, c...)
		}
	}
	for i, n := 0, r.Range(1, 2); i < n; i++ {
		id := cands[r.Intn(len(cands))]
		var acts []string
		if g.progs[id] != "" {
			acts = strings.Split(g.progs[id], ",")
		}
		p := r.Intn(len(acts) + 1)
		acts = append(acts[:p:p], append([]string{"X"}, acts[p:]...)...)
		g.progs[id] = strings.Join(acts, ",")
	}
	if r.Chance(1, 2) {
		var first []int
		for i := 0; i < nReq; i++ {
			for k, n := 0, r.Range(1, 4); k < n; k++ {
				first = append(first, i)
			}
		}
		g.sched = append(first, g.sched...)
	}
	return true
}

func (concEngine) Gen(r *Rand, tier string) Case {
	g, tag := ccGenCase(r, tier == "thorough", 0)
	return Case{Ops: g.ops(), Tag: tag}
}

// ccGenCase draws a router shape, requests and a schedule. nReqForce > 0 fixes the number of requests
// (the stress run wants many request kinds on one router).
func ccGenCase(r *Rand, thorough bool, nReqForce int) (*gCase, string) {
	g := &gCase{cache: -1, progs: map[int]string{}, groups: map[int]gGroup{}}
	if r.Chance(13, 20) {
		g.cache = r.PickInt([]int{0, 1, 1, 1, 2, 2, 3})
	}
	g.mna = r.Chance(1, 2)
	parkP := r.PickInt([]int{30, 50, 50, 70, 90})
	park := func() []string {
		if r.Chance(parkP, 100) {
			return []string{"P"}
		}
		return nil
	}
	keys := []string{"k1", "k2"}
	pnames := []string{"id", "a", "b"}
	vals := []string{"1", "7", "ab", "x.y"}
	mw := func(id int) string {
		var a []string
		a = append(a, park()...)
		if r.Chance(1, 3) {
			a = append(a, fmt.Sprintf("E%d", id*10+1))
		}
		if r.Chance(1, 4) {
			a = append(a, "SD:"+hx(r.Pick(keys))+":"+hx(fmt.Sprintf("v%d", id)))
		}
		if r.Chance(1, 4) {
			a = append(a, "WP:"+hx(r.Pick(pnames))+":"+hx(fmt.Sprintf("w%d", id)))
		}
		if r.Chance(1, 5) {
			a = append(a, "SP")
		}
		switch x := r.Intn(12); {
		case x == 0: // returns without Next: the loop of the caller goes on
		case x == 1:
			a = append(a, "A")
			if r.Bool() {
				a = append(a, fmt.Sprintf("ST%d", r.PickInt([]int{401, 403, 0})), "W:"+hx(fmt.Sprintf("a%d;", id)))
			}
		case x == 2: // Next twice
			a = append(a, "N")
			a = append(a, park()...)
			a = append(a, "N")
		default:
			a = append(a, park()...)
			a = append(a, "N")
			a = append(a, park()...)
		}
		if r.Chance(1, 4) {
			a = append(a, "GD:"+hx(r.Pick(keys)))
		}
		if r.Chance(1, 4) {
			a = append(a, fmt.Sprintf("E%d", id*10+2))
		}
		if r.Chance(1, 8) {
			a = append(a, "W:"+hx(fmt.Sprintf("<%d>", id)))
		}
		if r.Chance(1, 3) {
			a = append(a, park()...)
		}
		return strings.Join(a, ",")
	}
	mainH := func(id int) string {
		var a []string
		a = append(a, park()...)
		if r.Chance(2, 3) {
			a = append(a, "SP")
		}
		if r.Chance(1, 4) {
			a = append(a, "GD:"+hx(r.Pick(keys)))
		}
		if r.Chance(1, 5) {
			a = append(a, "GD:"+hx("_currentRouteName"))
		}
		if r.Chance(1, 5) {
			a = append(a, "GD:"+hx("_currentRoutePath"))
		}
		if r.Chance(1, 4) {
			a = append(a, "WP:"+hx(r.Pick(pnames))+":"+hx("evil"))
		}
		if r.Chance(1, 4) {
			a = append(a, fmt.Sprintf("ST%d", r.PickInt([]int{201, 202, 500})))
		}
		a = append(a, "W:"+hx(fmt.Sprintf("m%d;", id)))
		a = append(a, park()...)
		if r.Chance(1, 5) {
			a = append(a, fmt.Sprintf("ST%d", r.PickInt([]int{204, 500})))
		}
		return strings.Join(a, ",")
	}
	nextID := map[string]int{"glob": 1, "gmw": 20, "guse": 25, "rmw": 30, "nf": 90, "na": 95}
	fresh := func(kind string) int {
		id := nextID[kind]
		nextID[kind]++
		g.progs[id] = mw(id)
		return id
	}
	// global middleware: 0..4 Use calls with 1..2 handlers (3 calls of one handler leave len 3 / cap 4)
	nUse := r.PickInt([]int{0, 1, 2, 3, 3, 3, 4})
	for i := 0; i < nUse; i++ {
		call := []int{fresh("glob")}
		if r.Chance(1, 3) {
			call = append(call, fresh("glob"))
		}
		g.uses = append(g.uses, call)
	}
	// one optional group
	if r.Chance(2, 5) {
		grp := gGroup{prefix: "/g"}
		for i, n := 0, r.Range(0, 2); i < n; i++ {
			grp.mws = append(grp.mws, fresh("gmw"))
		}
		for i, n := 0, r.Range(0, 2); i < n; i++ {
			grp.uses = append(grp.uses, fresh("guse"))
		}
		g.groups[0] = grp
	}
	// routes
	type shape struct {
		pattern string
		dyn     bool
	}
	shapes := []shape{{"/s0", false}, {"/s1", false}, {"/s0/x", false}, {"/d0/{id}", true}, {"/d0/{id}", true}, {"/d1/{a}/{b}", true},
		{"/d0/{id}/x", true}, {"/d0/new", false}, {"/d1/k/{a}", true}, {"/{a}", true}, {"/{a}/t", true}}
	nRoutes := r.Range(1, 4)
	if thorough {
		nRoutes = r.Range(1, 6)
	}
	methodSets := [][]string{{"GET"}, {"GET"}, {"GET"}, {"POST"}, {"GET", "POST"}, {"GET", "HEAD"}, {"PUT", "DELETE"}}
	for i := 0; i < nRoutes; i++ {
		sh := shapes[r.Intn(len(shapes))]
		rt := gRoute{gid: -1, methods: methodSets[r.Intn(len(methodSets))], pattern: sh.pattern, main: 100 + i}
		if _, has := g.groups[0]; has && r.Chance(1, 2) && !strings.HasPrefix(sh.pattern, "/{") {
			rt.gid = 0
		}
		if r.Chance(1, 3) {
			rt.name = fmt.Sprintf("r%d", i)
		}
		g.progs[rt.main] = mainH(rt.main)
		// route middleware in 0..3 Use calls (a second call on a full slice leaves spare capacity)
		for c, n := 0, r.PickInt([]int{0, 0, 1, 1, 2, 2, 3}); c < n; c++ {
			call := []int{fresh("rmw")}
			if r.Chance(1, 3) {
				call = append(call, fresh("rmw"))
			}
			rt.useCalls = append(rt.useCalls, call)
		}
		g.routes = append(g.routes, rt)
	}
	if r.Chance(1, 6) {
		g.fallback = true
		g.routes = append(g.routes, gRoute{gid: -1, methods: []string{"GET", "POST", "HEAD"}, pattern: "/*", main: 100 + len(g.routes)})
		g.progs[100+len(g.routes)-1] = mainH(100 + len(g.routes) - 1)
	}
	if r.Chance(1, 4) {
		g.notFound = []int{fresh("nf")}
		if r.Bool() {
			g.notFound = append(g.notFound, fresh("nf"))
		}
	}
	if r.Chance(1, 4) {
		g.notAllowed = []int{fresh("na")}
	}
	// requests
	nReq := r.Range(2, 3)
	if thorough || r.Chance(1, 4) {
		nReq = r.Range(2, 4)
	}
	if nReqForce > 0 {
		nReq = nReqForce
	}
	concrete := func(rt gRoute) string {
		segs := gSegs(g.fullPath(rt))
		for i, s := range segs {
			if gIsVar(s) {
				segs[i] = r.Pick(vals)
			}
		}
		return "/" + strings.Join(segs, "/")
	}
	for i := 0; i < nReq; i++ {
		rt := g.routes[r.Intn(len(g.routes))]
		switch x := r.Intn(20); {
		case x < 4 && i > 0: // the same request again (same cache key)
			g.reqs = append(g.reqs, g.reqs[r.Intn(i)])
		case x < 11:
			g.reqs = append(g.reqs, ccReq{r.Pick(rt.methods), concrete(rt)})
		case x < 13:
			g.reqs = append(g.reqs, ccReq{"HEAD", concrete(rt)})
		case x < 16: // another method: 405 with mna, else 404
			g.reqs = append(g.reqs, ccReq{r.Pick([]string{"POST", "PUT", "OPTIONS", "GET", "DELETE"}), concrete(rt)})
		case x < 18:
			g.reqs = append(g.reqs, ccReq{r.Pick([]string{"GET", "POST"}), r.Pick([]string{"/nope/x", "/nope", "/d0", "/s0/x/y"})})
		default:
			g.reqs = append(g.reqs, ccReq{r.Pick([]string{"GET", "OPTIONS"}), concrete(rt)})
		}
	}
	// stream "same key": every request asks for the first dynamic URL, the cache can hold it, the main handler of
	// every route reads, rewrites and reads its params again
	if r.Chance(1, 6) {
		for _, rq := range g.reqs {
			if rid, _, ok := g.matchDyn(rq.method, rq.path); ok {
				if _, st := g.matchStable(rq.method, rq.path); st {
					continue
				}
				for i := range g.reqs {
					g.reqs[i] = rq
				}
				if g.cache < 1 {
					g.cache = r.Range(1, 3)
				}
				id := g.routes[rid].main
				g.progs[id] = "SP," + strings.Join(park(), ",") + ",WP:" + hx(r.Pick(pnames)) + ":" + hx("evil") + ",SP," + g.progs[id]
				g.progs[id] = strings.ReplaceAll(g.progs[id], ",,", ",")
				break
			}
		}
	}
	// schedule
	n := r.Range(nReq, 10*nReq)
	if r.Chance(1, 10) {
		n = r.Range(0, 3)
	}
	burst := r.Chance(1, 3)
	cur := r.Intn(nReq)
	for i := 0; i < n; i++ {
		if !burst || r.Chance(1, 3) {
			cur = r.Intn(nReq)
		}
		g.sched = append(g.sched, cur)
	}
	// stream "copy" (drawn last: everything above is what the same seed generated before the stream existed):
	// one or two handlers that run early in a chain (global middleware, main handlers) keep a Copy() of their
	// context; in half of the cases request 0 is run to its end first, so that the requests started afterwards
	// get its pooled context while the copy is still watched.
	copyStream := false
	if r.Chance(1, 5) {
		var cands []int
		for _, u := range g.uses {
			cands = append(cands, u...)
		}
		for _, rt := range g.routes {
			cands = append(cands, rt.main, rt.main) // main handlers twice: they run on every matched request
			for _, c := range rt.useCalls {
				cands = append(cands, c...)
			}
		}
		for i, n := 0, r.Range(1, 2); i < n; i++ {
			id := cands[r.Intn(len(cands))]
			var acts []string
			if g.progs[id] != "" {
				acts = strings.Split(g.progs[id], ",")
			}
			// sometimes with a value of its own in the data map, set just before the copy is taken
			ins := []string{"CP"}
			if r.Chance(1, 2) {
				ins = []string{"SD:" + hx(r.Pick(keys)) + ":" + hx(fmt.Sprintf("c%d", id)), "CP"}
			}
			p := r.Intn(len(acts) + 1)
			acts = append(acts[:p:p], append(ins, acts[p:]...)...)
			g.progs[id] = strings.Join(acts, ",")
		}
		if r.Chance(1, 2) {
			parks := 0
			for _, p := range g.progs {
				for _, t := range strings.Split(p, ",") {
					if t == "P" {
						parks++
					}
				}
			}
			first := make([]int, parks+1) // request 0 parks at most once per P of the table
			g.sched = append(first, g.sched...)
		}
		copyStream = true
	}
	hookStream := ccxHookStream(r, g, nReq)
	wrapStream := ccwWrapStream(r, g)
	tag := fmt.Sprintf("n%d", nReq)
	if copyStream {
		tag = "copy/" + tag
	}
	if hookStream {
		tag = "hook/" + tag
	}
	if wrapStream {
		tag = "wrap/" + tag
	}
	if g.cache >= 0 {
		tag += fmt.Sprintf("/cache%d", g.cache)
	} else {
		tag += "/nocache"
	}
	if g.spare() {
		tag += "/spare"
	} else {
		tag += "/tight"
	}
	return g, tag
}
