package main

import (
	"encoding/json"
	"flag"
	"fmt"
	"os"
	"strconv"
	"strings"
	"time"
)

// harness -engine <name> -tier quick|thorough -seed N -driver <path> -out <report.json>
// harness -engine <name> -replay <file> -driver <path>
func main() {
	engine := flag.String("engine", "", "engine name")
	tier := flag.String("tier", "quick", "quick|thorough")
	seed := flag.Uint64("seed", 1, "PRNG seed")
	driver := flag.String("driver", "", "path of the compiled Lean driver")
	out := flag.String("out", "", "report file")
	replay := flag.String("replay", "", "replay file")
	scale := flag.Float64("scale", 1.0, "multiplies the case budget")
	list := flag.Bool("list", false, "list engines")
	known := flag.String("known", "", "known_findings.json: findings matching an open entry are reported separately and never mask others")
	dump := flag.Int("dump", 0, "print N generated cases with the implementation's answers and exit")
	stress := flag.String("stress", "", "run the concurrency stress workload of an engine (conc); meant for a -race build")
	seconds := flag.Int("seconds", 40, "duration of the stress workload")
	work := flag.String("work", "", "scratch directory of the stress run (race detector logs)")
	flag.Parse()
	if *known != "" {
		loadKnown(*known)
	}

	if *stress != "" {
		os.Exit(runStress(*stress, *seconds, *seed, *work))
	}

	if *list {
		for _, k := range sortedKeysE() {
			fmt.Println(k)
		}
		return
	}
	e, ok := registry[*engine]
	if !ok {
		fmt.Fprintln(os.Stderr, "unknown engine", *engine)
		os.Exit(2)
	}
	d := &Driver{Path: *driver}

	if *replay != "" {
		os.Exit(doReplay(e, d, *replay))
	}
	if *dump > 0 {
		dumpCases(e, *seed, *tier, *dump)
		return
	}

	start := time.Now()
	rep := &Report{Engine: e.Name(), Tier: *tier, Seed: *seed, Tags: map[string]int{}, OpKinds: map[string]int{}, AnswerKinds: map[string]int{}}
	var findings []Finding
	knownSeen := map[string]int{}
	keep := func(fs []Finding) {
		for _, f := range fs {
			if id := knownID(f); id != "" {
				knownSeen[id]++
				if knownSeen[id] <= 1 {
					f.Known = id
					rep.Findings = append(rep.Findings, f)
				}
				continue
			}
			findings = append(findings, f)
		}
	}

	// corpus first
	corpus := e.Corpus()
	for i := range corpus {
		if corpus[i].Tag == "" {
			corpus[i].Tag = "corpus"
		}
	}
	if len(corpus) > 0 {
		keep(checkBatch(e, d, corpus, rep, *seed))
	}

	// generated cases, in batches
	n := int(float64(e.Budget(*tier)) * *scale)
	root := NewRand(*seed)
	const batch = 500
	for done := 0; done < n; done += batch {
		m := batch
		if n-done < m {
			m = n - done
		}
		cases := make([]Case, m)
		for i := range cases {
			cases[i] = e.Gen(root.Fork(), *tier)
		}
		keep(checkBatch(e, d, cases, rep, *seed))
		if len(findings) > 20 {
			break
		}
	}

	// shrink (at most a few per kind, they are usually the same defect)
	perKind := map[string]int{}
	for _, f := range findings {
		if perKind[f.Kind] >= 3 {
			continue
		}
		perKind[f.Kind]++
		sf := shrink(e, d, f)
		if knownID(sf) != "" { // shrinking must not turn a new finding into a known shape
			sf = f
		}
		rep.Findings = append(rep.Findings, sf)
	}
	rep.WallS = time.Since(start).Seconds()
	if se, ok := e.(StatsEngine); ok {
		rep.EngineStats = se.Stats()
	}
	if *out != "" {
		writeJSON(*out, rep)
	}
	newFindings := 0
	for _, f := range rep.Findings {
		if f.Known == "" {
			newFindings++
		}
	}
	fmt.Printf("engine=%s tier=%s seed=%d cases=%d ops=%d findings=%d known=%d wall=%.1fs\n", e.Name(), *tier, *seed, rep.Cases, rep.Ops, newFindings, len(rep.Findings)-newFindings, rep.WallS)
	for _, f := range rep.Findings {
		if f.Known != "" {
			fmt.Printf("  known finding %s (ops=%d)\n", f.Known, len(f.Case.Ops))
			continue
		}
		fmt.Printf("  finding kind=%s ops=%d", f.Kind, len(f.Case.Ops))
		if f.Diff != nil {
			fmt.Printf(" at op %q impl=%q model=%q", f.Diff.Op, f.Diff.Impl, f.Diff.Model)
		}
		if len(f.Oracle) > 0 {
			fmt.Printf(" oracle=%q", f.Oracle[0])
		}
		fmt.Println()
	}
	if newFindings > 0 {
		os.Exit(1)
	}
}

func sortedKeysE() []string {
	m := map[string]int{}
	for k := range registry {
		m[k] = 1
	}
	return sortedKeys(m)
}

// doReplay re-runs the ops of a replay file on both sides and prints them next to each other.
func doReplay(e Engine, d *Driver, path string) int {
	b, err := os.ReadFile(path)
	if err != nil {
		fmt.Fprintln(os.Stderr, err)
		return 2
	}
	var f struct {
		Case Case `json:"case"`
	}
	if err := json.Unmarshal(b, &f); err != nil {
		fmt.Fprintln(os.Stderr, err)
		return 2
	}
	impl, oracle := runImpl(e, f.Case.Ops)
	var model []string
	if e.DriverEngine() != "" {
		ms, err := d.RunCases(e.DriverEngine(), []Case{f.Case})
		if err != nil {
			fmt.Fprintln(os.Stderr, err)
			return 2
		}
		model = ms[0]
	}
	ro := realOps(f.Case.Ops)
	bad := 0
	for i, op := range ro {
		im, mo := "<none>", "<none>"
		if i < len(impl) {
			im = impl[i]
		}
		if i < len(model) {
			mo = model[i]
		}
		mark := "  "
		if model != nil && im != mo && !strings.HasPrefix(mo, "unsupported") {
			mark = "!!"
			bad++
		}
		fmt.Printf("%s %-40s impl: %-40s model: %s\n", mark, op, im, mo)
	}
	for _, o := range oracle {
		fmt.Println("!! oracle:", o)
		bad++
	}
	if bad > 0 {
		return 1
	}
	return 0
}

func atoi(s string) int {
	n, err := strconv.Atoi(s)
	if err != nil {
		panic("harness: bad int " + s)
	}
	return n
}

// dumpCases prints generated cases (debug aid): harness -engine X -dump N
func dumpCases(e Engine, seed uint64, tier string, n int) {
	root := NewRand(seed)
	for i := 0; i < n; i++ {
		c := e.Gen(root.Fork(), tier)
		ans, _ := runImpl(e, c.Ops)
		for j, op := range realOps(c.Ops) {
			a := ""
			if j < len(ans) {
				a = ans[j]
			}
			f := strings.Fields(op)
			for k := range f {
				if s, ok := unhx(f[k]); ok && k > 0 && len(f[k]) > 1 {
					f[k] = fmt.Sprintf("%q", s)
				}
			}
			fmt.Println(strings.Join(f, " "), " => ", a)
		}
		fmt.Println()
	}
}
