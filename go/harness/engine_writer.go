package main

import (
	"bytes"
	"context"
	"errors"
	"fmt"
	"io"
	"net/http"
	"net/http/httptest"
	"path"
	"sort"
	"strings"

	"github.com/gookit/rux"
)

// engine writer (C08): random programs of response actions issued from the handlers of a real chain
// (global middleware / route middleware / main handler, before and after c.Next(), OnError, OnPanic)
// against a RECORDING http.ResponseWriter that answers every Write with a scripted (n, err).
//
//	chain <k> <GET|HEAD|POST> <onpanic> <onerror> <ct-hex|none> <nglobal> <nroute> [<wkind>]
//	  wkind (optional, ignored by the model): which optional interfaces the recording writer has besides
//	  http.Flusher — bit 1 io.ReaderFrom, bit 2 io.StringWriter, bit 4 FlushError (as the writers of a real net/http server have).
//	  The unchanged rux never calls them, so the log is the one of the plain recorder.
//	status <site> <code> <via> | hdr <site> <k> <v> | write <site> <hex|nil> <acc> <err> <via> | flush <site>
//	  | error <site> <code> <msg> <acc> <err> <via> | redirect <site> <code|d> <url> <body> <acc> <err>
//	  | wbytes <site> <hex|nil> <acc> <err> <via> | abort <site> <code> nomsg | abort <site> <code> msg <msg> <acc> <err>
//	  | adderr <site> | panic <site>            site = 0 … 2k-2 (block of the chain) | E (OnError) | P (OnPanic)
//	  | fwd <site> <prog> | nest <site> <prog>   (chain sites only; see the `wx` section below)
//	end [hc]
//
// `end hf` (chains of ONE handler, no hooks): the handler is used as an http.Handler - rux.HandlerFunc(h).ServeHTTP.
// `end` dispatches the request through Router.ServeHTTP, `end hc` through the second public entry point:
// a context built by the caller (`c := &rux.Context{}; c.Init(w, req)`) handed to Router.HandleContext(c).
// Both entry points must leave exactly the same log on the underlying writer (the model is the same).
type writerEngine struct{}

func init() { register(writerEngine{}) }

func (writerEngine) Name() string         { return "writer" }
func (writerEngine) DriverEngine() string { return "writer" }

func (writerEngine) Budget(tier string) int {
	if tier == "thorough" {
		return 60000
	}
	return 3000
}

/**************** the recording writer ****************/

type recEv struct {
	kind byte // 'h' WriteHeader, 'w' Write, 'f' Flush
	code int
	data []byte
	n    int
	err  bool
}

type scripted struct {
	acc int
	err bool
}

type recWriter struct {
	hdr  http.Header
	log  []recEv
	next *scripted // answer of the next Write; nil = accept everything
	sent string    // Content-Type at the first WriteHeader ("-" = no WriteHeader yet)
}

var errScripted = errors.New("scripted write failure")

func newRecWriter(ct *string) *recWriter {
	w := &recWriter{hdr: http.Header{}, sent: "-"}
	if ct != nil {
		w.hdr["Content-Type"] = []string{*ct}
	}
	return w
}

func (w *recWriter) Header() http.Header { return w.hdr }

func (w *recWriter) WriteHeader(code int) {
	if w.sent == "-" {
		w.sent = w.ctString()
	}
	w.log = append(w.log, recEv{kind: 'h', code: code})
}

func (w *recWriter) Write(b []byte) (int, error) {
	n, fail := len(b), false
	if w.next != nil {
		if w.next.acc < n {
			n = w.next.acc
		}
		fail = w.next.err
		w.next = nil
	}
	w.log = append(w.log, recEv{kind: 'w', data: append([]byte{}, b...), n: n, err: fail})
	if fail {
		return n, errScripted
	}
	return n, nil
}

func (w *recWriter) Flush() { w.log = append(w.log, recEv{kind: 'f'}) }

func (w *recWriter) ctString() string {
	if v := w.hdr["Content-Type"]; len(v) > 0 {
		return hx(v[0])
	}
	return "none"
}

func (w *recWriter) logString() string {
	if len(w.log) == 0 {
		return "-"
	}
	parts := make([]string, len(w.log))
	for i, e := range w.log {
		switch e.kind {
		case 'h':
			parts[i] = fmt.Sprintf("wh:%d", e.code)
		case 'w':
			parts[i] = fmt.Sprintf("w:%s:%d:%s", hx(string(e.data)), e.n, b2s(e.err))
		default:
			parts[i] = "f"
		}
	}
	return strings.Join(parts, ",")
}

/**************** variants of the recording writer ****************/

// The ResponseWriter of a real net/http server implements more than http.ResponseWriter: io.ReaderFrom (the
// sendfile path of io.Copy), io.StringWriter, http.Flusher. The variants below add these interfaces to a
// recorder. They record what arrives as ordinary writes of the same recorder (same scripted answers), so a
// wrapper that commits the status first and then delegates leaves the log of the plain recorder, and a wrapper
// that delegates without committing leaves a log without its WriteHeader.
type recCore interface {
	http.ResponseWriter
	http.Flusher
}

const (
	recHasReaderFrom   = 1
	recHasStringWriter = 2
	recHasFlushError   = 4 // FlushError() error, as the writers of net/http have since go1.20 (http.ResponseController uses it)
	recVariantMask     = recHasReaderFrom | recHasStringWriter | recHasFlushError
)

type recRF struct{ recCore }
type recSW struct{ recCore }
type recRFSW struct{ recCore }

func (w recRF) ReadFrom(src io.Reader) (int64, error)   { return recReadFrom(w.recCore, src) }
func (w recRFSW) ReadFrom(src io.Reader) (int64, error) { return recReadFrom(w.recCore, src) }
func (w recSW) WriteString(s string) (int, error)       { return w.recCore.Write([]byte(s)) }
func (w recRFSW) WriteString(s string) (int, error)     { return w.recCore.Write([]byte(s)) }

// recReadFrom: the generic copy loop of package io (32 KiB buffer, one Write per non-empty Read, a short
// write stops with io.ErrShortWrite, io.EOF is no error), never looking for WriteTo/ReadFrom.
func recReadFrom(w io.Writer, src io.Reader) (n int64, err error) {
	buf := make([]byte, 32*1024)
	for {
		nr, er := src.Read(buf)
		if nr > 0 {
			nw, ew := w.Write(buf[:nr])
			if nw < 0 || nw > nr {
				nw = 0
			}
			n += int64(nw)
			if ew != nil {
				return n, ew
			}
			if nw < nr {
				return n, io.ErrShortWrite
			}
		}
		if er != nil {
			if er != io.EOF {
				err = er
			}
			return n, err
		}
	}
}

type recFE struct{ recCore }
type recFERF struct{ recCore }
type recFESW struct{ recCore }
type recFERFSW struct{ recCore }

func (w recFE) FlushError() error                         { w.recCore.Flush(); return nil }
func (w recFERF) FlushError() error                       { w.recCore.Flush(); return nil }
func (w recFESW) FlushError() error                       { w.recCore.Flush(); return nil }
func (w recFERFSW) FlushError() error                     { w.recCore.Flush(); return nil }
func (w recFERF) ReadFrom(src io.Reader) (int64, error)   { return recReadFrom(w.recCore, src) }
func (w recFERFSW) ReadFrom(src io.Reader) (int64, error) { return recReadFrom(w.recCore, src) }
func (w recFESW) WriteString(s string) (int, error)       { return w.recCore.Write([]byte(s)) }
func (w recFERFSW) WriteString(s string) (int, error)     { return w.recCore.Write([]byte(s)) }

func wrapRec(core recCore, variant int) http.ResponseWriter {
	switch variant & recVariantMask {
	case recHasFlushError:
		return recFE{core}
	case recHasFlushError | recHasReaderFrom:
		return recFERF{core}
	case recHasFlushError | recHasStringWriter:
		return recFESW{core}
	case recHasFlushError | recHasReaderFrom | recHasStringWriter:
		return recFERFSW{core}
	}
	switch variant & (recHasReaderFrom | recHasStringWriter) {
	case recHasReaderFrom:
		return recRF{core}
	case recHasStringWriter:
		return recSW{core}
	case recHasReaderFrom | recHasStringWriter:
		return recRFSW{core}
	}
	return core
}

/**************** parsing (mirrors Drv/Writer.lean) ****************/

type wCfg struct {
	k       int
	meth    string
	onPanic bool
	onError bool
	ct      *string
	ng, nr  int
	wkind   int // variant of the recording writer (wrapRec)
}

func defaultWCfg() wCfg { return wCfg{k: 1, meth: "GET", nr: 0, ng: 0} }

type wAct struct {
	line int // index of the op line
	site int // chain block, or -1 = OnError, -2 = OnPanic
	f    []string
}

func parseBit(s string) (bool, bool) {
	switch s {
	case "1":
		return true, true
	case "0":
		return false, true
	}
	return false, false
}

func parseIntOK(s string) (int, bool) {
	neg := strings.HasPrefix(s, "-")
	d := strings.TrimPrefix(s, "-")
	if d == "" || len(d) > 9 {
		return 0, false
	}
	n := 0
	for _, c := range d {
		if c < '0' || c > '9' {
			return 0, false
		}
		n = n*10 + int(c-'0')
	}
	if neg {
		n = -n
	}
	return n, true
}

func parseNatOK(s string) (int, bool) {
	if strings.HasPrefix(s, "-") {
		return 0, false
	}
	return parseIntOK(s)
}

func parseDataOK(s string) ([]byte, bool) {
	if s == "nil" {
		return nil, true
	}
	v, ok := unhx(s)
	if !ok {
		return nil, false
	}
	return []byte(v), true
}

func parseWChain(f []string) (wCfg, bool) {
	c := defaultWCfg()
	if len(f) < 6 {
		return c, false
	}
	k, ok := parseNatOK(f[1])
	if !ok || k < 1 || k > 30 {
		return c, false
	}
	if f[2] != "GET" && f[2] != "HEAD" && f[2] != "POST" {
		return c, false
	}
	op, ok1 := parseBit(f[3])
	oe, ok2 := parseBit(f[4])
	if !ok1 || !ok2 {
		return c, false
	}
	c.k, c.meth, c.onPanic, c.onError = k, f[2], op, oe
	if f[5] != "none" {
		v, ok := unhx(f[5])
		if !ok {
			return c, false
		}
		c.ct = &v
	}
	// the split of the k handlers into global / route middleware / main handler (the model only needs k)
	c.ng, c.nr = 0, k-1
	if len(f) >= 8 {
		ng, ok1 := parseNatOK(f[6])
		nr, ok2 := parseNatOK(f[7])
		if ok1 && ok2 && ng+nr+1 == k {
			c.ng, c.nr = ng, nr
		}
	}
	if len(f) >= 9 {
		if wk, ok := parseNatOK(f[8]); ok && wk <= recVariantMask {
			c.wkind = wk
		}
	}
	return c, true
}

// validAct checks the token shape of an action exactly as parseAct of the driver does.
func validAct(f []string) bool {
	okAll := func(checks ...bool) bool {
		for _, c := range checks {
			if !c {
				return false
			}
		}
		return true
	}
	hexOK := func(s string) bool { _, ok := unhx(s); return ok }
	intOK := func(s string) bool { _, ok := parseIntOK(s); return ok }
	natOK := func(s string) bool { _, ok := parseNatOK(s); return ok }
	bitOK := func(s string) bool { _, ok := parseBit(s); return ok }
	dataOK := func(s string) bool { _, ok := parseDataOK(s); return ok }
	if len(f) == 0 {
		return false
	}
	switch f[0] {
	case "status":
		return len(f) == 3 && intOK(f[1])
	case "hdr":
		return len(f) == 3 && hexOK(f[1]) && hexOK(f[2])
	case "write", "wbytes":
		return len(f) == 5 && okAll(dataOK(f[1]), natOK(f[2]), bitOK(f[3]))
	case "flush", "adderr", "panic":
		return len(f) == 1
	case "fwd", "nest":
		return len(f) == 2 && wxProgOK(f[1])
	case "error":
		return len(f) == 6 && okAll(intOK(f[1]), hexOK(f[2]), natOK(f[3]), bitOK(f[4]))
	case "redirect":
		return len(f) == 6 && okAll(f[1] == "d" || intOK(f[1]), hexOK(f[3]), natOK(f[4]), bitOK(f[5]))
	case "abort":
		if len(f) == 3 && f[2] == "nomsg" {
			return intOK(f[1])
		}
		return len(f) == 6 && f[2] == "msg" && okAll(intOK(f[1]), hexOK(f[3]), natOK(f[4]), bitOK(f[5]))
	}
	return false
}

func parseWSite(k int, s string) (site, rank int, ok bool) {
	switch s {
	case "E":
		return -1, 2 * k, true
	case "P":
		return -2, 2*k + 1, true
	}
	i, ok := parseNatOK(s)
	if !ok || i+2 > 2*k {
		return 0, 0, false
	}
	return i, i, true
}

/**************** wx: re-dispatch of the running context, a rux router nested in the chain ****************/

// Two actions that make a handler of the chain hand the request to another dispatch:
//
//	fwd <site> <prog>   internal forward: the handler sets c.Req.URL.Path to /q, calls Router.HandleContext(c) with
//	                    its own context and puts the path back. /q is a route of the same router with as many route
//	                    middleware as /p (they only call Next(), and so do the global middleware while the forward
//	                    runs), its main handler performs <prog>. HandleContext = Reset, chain, header commit: when it
//	                    returns the header is committed, c.Errors is empty, and the cursor stands at the end of a chain
//	                    of the same length, so no deeper handler of the suspended chain starts afterwards.
//	nest <site> <prog>  rux.WrapHTTPHandler(inner)(c): a second rux router is mounted in the chain; it gets c.Resp (the
//	                    outer context's writer) as its http.ResponseWriter; its only handler performs <prog>. What the
//	                    inner router commits (its recorded status, 200 if none, at its first write/flush or at the end
//	                    of its chain) arrives at the outer writer as a status setting.
//	<prog> = - | op,op,…   op = s<code> SetStatus(code) | w<hex> c.Resp.Write(bytes) (the underlying writer takes all
//	                    of it) | f Flush
//
// The model side is in Drv/Writer.lean (wxStep). The clauses of the property are evaluated on the log as for every
// other action; the return of a forward counts as a commit point (the end of a chain commits the header).
func wxProgOK(p string) bool {
	if p == "-" {
		return true
	}
	for _, t := range strings.Split(p, ",") {
		switch {
		case t == "f":
		case strings.HasPrefix(t, "s"):
			if _, ok := parseIntOK(t[1:]); !ok {
				return false
			}
		case strings.HasPrefix(t, "w"):
			if _, ok := unhx(t[1:]); !ok {
				return false
			}
		default:
			return false
		}
	}
	return true
}

func wxProgOps(p string) []string {
	if p == "-" {
		return nil
	}
	return strings.Split(p, ",")
}

// wxRunProg is the body of the forwarded-to / nested main handler. `status`, `write`, `flush` tell the
// expectation of the property what happened.
func wxRunProg(c *rux.Context, prog []string, status func(int), write func([]byte), flush func()) {
	for _, t := range prog {
		switch t[0] {
		case 's':
			code := atoi(t[1:])
			status(code)
			c.SetStatus(code)
		case 'w':
			b := []byte(mustUnhx(t[1:]))
			write(b)
			_, _ = c.Resp.Write(b)
		case 'f':
			flush()
			c.Resp.(http.Flusher).Flush()
		}
	}
}

func wxAddForwardRoute(r *rux.Router, cfg wCfg, cur **wRun) {
	pass := make([]rux.HandlerFunc, cfg.nr)
	for i := range pass {
		pass[i] = func(c *rux.Context) { c.Next() }
	}
	r.Add("/q", func(c *rux.Context) {
		run := *cur
		wxRunProg(c, run.wxProg, run.exp.status, func(b []byte) { run.exp.write(b, len(b)) }, run.exp.flush)
	}, "GET", "HEAD", "POST").Use(pass...)
}

func (run *wRun) wxExec(c *rux.Context, f []string) {
	prog := wxProgOps(f[1])
	run.rec.next = nil
	if f[0] == "fwd" {
		run.wxProg = prog
		run.wxDepth++
		old := c.Req.URL.Path
		c.Req.URL.Path = "/q"
		defer func() {
			c.Req.URL.Path = old
			run.wxDepth--
		}()
		run.wxRouter.HandleContext(c)
		run.exp.ioSeen = true // the end of the forwarded chain committed the header
		return
	}
	// nest: the inner router records its own status and hands it over when it commits
	innerStatus, innerCommitted := 0, false
	commit := func() {
		if !innerCommitted {
			innerCommitted = true
			if innerStatus == 0 {
				innerStatus = 200
			}
			run.exp.status(innerStatus)
		}
	}
	inner := rux.New()
	inner.Add(c.Req.URL.Path, func(c2 *rux.Context) {
		wxRunProg(c2, prog,
			func(code int) {
				if code > 0 {
					innerStatus = code
				}
			},
			func(b []byte) { commit(); run.exp.write(b, len(b)) },
			func() { commit(); run.exp.flush() })
	}, "GET", "HEAD", "POST")
	rux.WrapHTTPHandler(inner)(c)
	commit()
}

/**************** running one request ****************/

type wSeg struct {
	acts   []wAct
	endIdx int  // index of the `end` line, -1 if the segment was cut off
	hc     bool // dispatch through Router.HandleContext instead of ServeHTTP
	hf     bool // no router at all: the (single) handler is used as an http.Handler through HandlerFunc.ServeHTTP
}

// expectation of the property, accumulated from the actions that actually ran
type wExpect struct {
	codeBeforeIO int    // last positive code set before the first write/flush, 0 = none
	ioSeen       bool   // a write or flush was issued
	body         []byte // accepted prefixes, in order
	accepted     int
	writes       int
	flushes      int
}

func (x *wExpect) status(code int) {
	if !x.ioSeen && code > 0 {
		x.codeBeforeIO = code
	}
}

func (x *wExpect) write(b []byte, acc int) {
	x.ioSeen = true
	if acc > len(b) {
		acc = len(b)
	}
	x.body = append(x.body, b[:acc]...)
	x.accepted += acc
	x.writes++
}

func (x *wExpect) flush() { x.ioSeen = true; x.flushes++ }

type wRun struct {
	cfg    wCfg
	seg    *wSeg
	rec    *recWriter
	ctx    *rux.Context
	ans    []string
	oracle *[]string
	exp    wExpect

	wxRouter *rux.Router // the router of the chain (target of `fwd`)
	wxDepth  int         // > 0 while a `fwd` re-dispatch runs
	wxProg   []string    // what the forwarded-to / nested main handler does
}

func (run *wRun) state(c *rux.Context) string {
	return fmt.Sprintf("len=%d ;; st=%d ct=%s", c.Length(), c.StatusCode(), run.rec.ctString())
}

// midOracle: Length() is -1 exactly while the underlying writer has received nothing; afterwards it is
// the number of accepted bytes.
func (run *wRun) midOracle(c *rux.Context, what string) {
	l := c.Length()
	if (l == -1) != (len(run.rec.log) == 0) {
		*run.oracle = append(*run.oracle, fmt.Sprintf("C08 length: Length()=%d but the underlying writer has %d events after %s", l, len(run.rec.log), what))
	}
	if l != -1 && l != run.exp.accepted {
		*run.oracle = append(*run.oracle, fmt.Sprintf("C08 length: Length()=%d, accepted bytes=%d after %s", l, run.exp.accepted, what))
	}
}

func (run *wRun) site(c *rux.Context, site int) {
	for i := range run.seg.acts {
		if run.seg.acts[i].site == site {
			run.exec(c, &run.seg.acts[i])
		}
	}
}

func (run *wRun) exec(c *rux.Context, a *wAct) {
	f := a.f
	defer func() {
		if v := recover(); v != nil {
			run.ans[a.line] = "panic " + run.state(c)
			run.midOracle(c, strings.Join(f, " "))
			panic(v)
		}
	}()
	res := "ok"
	run.rec.next = nil
	script := func(b []byte, accS, errS string) (int, bool) {
		acc := atoi(accS)
		if acc > len(b) {
			acc = len(b)
		}
		fail := errS == "1"
		run.rec.next = &scripted{acc: acc, err: fail}
		return acc, fail
	}
	switch f[0] {
	case "status":
		code := atoi(f[1])
		run.exp.status(code)
		switch f[2] {
		case "1":
			c.Resp.WriteHeader(code)
		case "2":
			c.SetStatusCode(code)
		default:
			c.SetStatus(code)
		}
	case "hdr":
		if len(f[1])%4 == 0 {
			c.Resp.Header().Set(mustUnhx(f[1]), mustUnhx(f[2]))
		} else {
			c.SetHeader(mustUnhx(f[1]), mustUnhx(f[2]))
		}
	case "write":
		b, _ := parseDataOK(f[1])
		acc, fail := script(b, f[2], f[3])
		run.exp.write(b, acc)
		var n int
		var err error
		switch {
		case f[4] == "1":
			n, err = io.WriteString(c.Resp, string(b))
		case f[4] == "2" && len(b) > 0 && acc == len(b) && !fail:
			// io.Copy from a source that is a plain io.Reader (no WriteTo): one Write of the data on the unchanged rux
			var n64 int64
			n64, err = io.Copy(c.Resp, struct{ io.Reader }{bytes.NewReader(b)})
			n = int(n64)
		default:
			n, err = c.Resp.Write(b)
		}
		res = fmt.Sprintf("wrote %d %s", n, b2s(err != nil))
	case "flush":
		run.exp.flush()
		c.Resp.(http.Flusher).Flush()
	case "error":
		code, msg := atoi(f[1]), mustUnhx(f[2])
		acc, _ := script([]byte(msg+"\n"), f[3], f[4])
		run.exp.status(code)
		run.exp.write([]byte(msg+"\n"), acc)
		if f[5] == "1" {
			c.HTTPError(msg, code)
		} else {
			http.Error(c.Resp, msg, code)
		}
	case "redirect":
		url, body := mustUnhx(f[2]), []byte(mustUnhx(f[3]))
		_, hadCT := run.rec.hdr["Content-Type"]
		code := 301
		if f[1] != "d" {
			code = atoi(f[1])
		}
		run.exp.status(code)
		if !hadCT && run.cfg.meth == "GET" {
			acc, _ := script(body, f[4], f[5])
			run.exp.write(body, acc)
		}
		if f[1] == "d" {
			c.Redirect(url)
		} else {
			c.Redirect(url, code)
		}
	case "wbytes":
		b, _ := parseDataOK(f[1])
		acc, _ := script(b, f[2], f[3])
		run.exp.write(b, acc)
		if f[4] == "1" {
			c.WriteString(string(b))
		} else {
			c.WriteBytes(b)
		}
	case "abort":
		code := atoi(f[1])
		run.exp.status(code)
		if f[2] == "nomsg" {
			c.AbortWithStatus(code)
		} else {
			msg := mustUnhx(f[3])
			acc, _ := script([]byte(msg+"\n"), f[4], f[5])
			run.exp.write([]byte(msg+"\n"), acc)
			c.AbortWithStatus(code, msg)
		}
	case "adderr":
		c.AddError(errors.New("handler error"))
	case "panic":
		panic("handler panic")
	case "fwd", "nest":
		run.wxExec(c, f)
	}
	run.ans[a.line] = res + " " + run.state(c)
	run.midOracle(c, strings.Join(f, " "))
}

func buildWriterRouter(cfg wCfg, cur **wRun) *rux.Router {
	r := rux.New()
	k := cfg.k
	mk := func(i int) rux.HandlerFunc {
		return func(c *rux.Context) {
			run := *cur
			if run.wxDepth > 0 { // a global middleware inside a `fwd` re-dispatch: pass through
				c.Next()
				return
			}
			run.wxRouter = r
			if i == 0 {
				run.ctx = c
				// every other request: the first handler gives the request a context.Context that is cancelled when it
				// returns (what handlers.Timeout does: `defer cancel()`) - the end-of-request commit comes after that
				if len(run.seg.acts)%2 == 0 {
					cctx, cancel := context.WithCancel(c.Req.Context())
					c.Req = c.Req.WithContext(cctx)
					defer cancel()
				}
			}
			run.site(c, i)
			if i < k-1 {
				c.Next()
				run.site(c, 2*k-2-i)
			}
		}
	}
	var globals, routeMw []rux.HandlerFunc
	for i := 0; i < cfg.ng; i++ {
		globals = append(globals, mk(i))
	}
	for i := 0; i < cfg.nr; i++ {
		routeMw = append(routeMw, mk(cfg.ng+i))
	}
	if len(globals) > 0 {
		r.Use(globals...)
	}
	r.Add("/p", mk(k-1), "GET", "HEAD", "POST").Use(routeMw...)
	wxAddForwardRoute(r, cfg, cur)
	if cfg.onPanic {
		r.OnPanic = func(c *rux.Context) { (*cur).site(c, -2) }
	}
	if cfg.onError {
		r.OnError = func(c *rux.Context) { (*cur).site(c, -1) }
	}
	return r
}

// writerBuiltinOracle: the answers rux gives itself (the built-in 404 handler, the built-in 405 handler for OPTIONS -
// it only sets Allow and records 200 - and for another method) commit the header exactly once, before the body, on a
// router with HandleMethodNotAllowed, with and without a global middleware that does nothing.
func writerBuiltinOracle(cfg wCfg) (out []string) {
	for _, withGlobal := range []bool{false, true} {
		r := rux.New(rux.HandleMethodNotAllowed)
		if withGlobal {
			r.Use(func(c *rux.Context) { c.Next() })
		}
		r.GET("/p", func(c *rux.Context) { c.WriteString("p") })
		// a relayed answer without body (304 Not Modified, 202 with an empty upstream body): c.Stream of a reader that yields nothing
		r.GET("/relay", func(c *rux.Context) { c.Stream(304, "text/plain", http.NoBody) })
		r.GET("/relay2", func(c *rux.Context) { c.Stream(202, "text/plain", strings.NewReader("")) })
		for _, rq := range [][3]string{{"OPTIONS", "/p", "200"}, {"DELETE", "/p", "405"}, {"GET", "/none", "404"}, {"OPTIONS", "/none", "404"}, {"GET", "/relay", "304"}, {"GET", "/relay2", "202"}} {
			rec := newRecWriter(cfg.ct)
			func() {
				defer func() { _ = recover() }()
				r.ServeHTTP(wrapRec(rec, cfg.wkind), httptest.NewRequest(rq[0], rq[1], nil))
			}()
			heads, firstBody, firstHead := 0, -1, -1
			for i, e := range rec.log {
				switch e.kind {
				case 'h':
					heads++
					if firstHead < 0 {
						firstHead = i
					}
				case 'w', 'f':
					if firstBody < 0 {
						firstBody = i
					}
				}
			}
			log := rec.logString()
			if heads != 1 || (firstBody >= 0 && firstBody < firstHead) || !strings.HasPrefix(log, "wh:"+rq[2]) {
				out = append(out, fmt.Sprintf("C08 one commit: the built-in answer to %s %s (global middleware: %v) reached the underlying writer as %s (want exactly one WriteHeader(%s), first)", rq[0], rq[1], withGlobal, log, rq[2]))
			}
		}
	}
	return
}

func (writerEngine) Run(ops []string) (ans []string, oracle []string) {
	ans = make([]string, len(ops))
	cfg := defaultWCfg()
	var cur *wRun
	router := buildWriterRouter(cfg, &cur)

	seg := &wSeg{endIdx: -1}
	rank := 0
	flush := func() { // run the pending request
		if len(seg.acts) == 0 && seg.endIdx < 0 {
			return
		}
		run := &wRun{cfg: cfg, seg: seg, rec: newRecWriter(cfg.ct), ans: ans, oracle: &oracle}
		cur = run
		req := httptest.NewRequest(cfg.meth, "/p", nil)
		escaped := false
		func() {
			defer func() {
				if v := recover(); v != nil {
					escaped = true
				}
			}()
			if seg.hf {
				run.wxRouter = router
				h := rux.HandlerFunc(func(c *rux.Context) {
					run.ctx = c
					run.site(c, 0)
				})
				h.ServeHTTP(wrapRec(run.rec, cfg.wkind), req)
			} else if seg.hc {
				c := &rux.Context{}
				c.Init(wrapRec(run.rec, cfg.wkind), req)
				router.HandleContext(c)
			} else {
				router.ServeHTTP(wrapRec(run.rec, cfg.wkind), req)
			}
		}()
		if run.ctx == nil {
			oracle = append(oracle, "C08 harness: the first handler of the chain never ran")
		} else if seg.endIdx >= 0 {
			ans[seg.endIdx] = fmt.Sprintf("%s %s len=%d ;; st=%d ct=%s sent=%s", b2s(escaped), run.rec.logString(),
				run.ctx.Length(), run.ctx.StatusCode(), run.rec.ctString(), run.rec.sent)
			oracle = append(oracle, writerOracle(run, escaped)...)
		}
		seg = &wSeg{endIdx: -1}
		rank = 0
	}

	for i, op := range ops {
		f := strings.Fields(op)
		if len(f) == 0 {
			ans[i] = "bad-op"
			continue
		}
		switch f[0] {
		case "chain":
			c, ok := parseWChain(f)
			if !ok {
				ans[i] = "bad-op"
				continue
			}
			flush()
			cfg = c
			router = buildWriterRouter(cfg, &cur)
			ans[i] = "ok"
			oracle = append(oracle, writerBuiltinOracle(cfg)...)
		case "end":
			// `end hf`: only for a chain of one handler on a router without hooks (there is no router in that entry)
			hfOK := len(f) == 2 && f[1] == "hf" && cfg.k == 1 && !cfg.onPanic && !cfg.onError
			if len(f) != 1 && !(len(f) == 2 && f[1] == "hc") && !hfOK {
				ans[i] = "bad-op"
				continue
			}
			seg.endIdx = i
			seg.hc = len(f) == 2 && f[1] == "hc"
			seg.hf = hfOK
			flush()
		default:
			if len(f) < 2 {
				ans[i] = "bad-op"
				continue
			}
			act := append([]string{f[0]}, f[2:]...)
			site, rk, ok := parseWSite(cfg.k, f[1])
			if !ok || !validAct(act) || ((act[0] == "fwd" || act[0] == "nest") && site < 0) {
				ans[i] = "bad-op"
				continue
			}
			if rk < rank {
				ans[i] = "bad-order"
				continue
			}
			rank = rk
			ans[i] = "skipped"
			seg.acts = append(seg.acts, wAct{line: i, site: site, f: act})
		}
	}
	flush()
	return
}

// writerOracle: the clauses of C08 evaluated on the log of the recording writer.
func writerOracle(run *wRun, escaped bool) (out []string) {
	log := run.rec.log
	nWH, firstWH := 0, -1
	var body []byte
	total, writes, flushes := 0, 0, 0
	whCode := 0
	for i, e := range log {
		switch e.kind {
		case 'h':
			nWH++
			if firstWH < 0 {
				firstWH = i
				whCode = e.code
			}
		case 'w':
			body = append(body, e.data[:e.n]...)
			total += e.n
			writes++
		case 'f':
			flushes++
		}
	}
	if nWH > 1 {
		out = append(out, fmt.Sprintf("C08 one commit: %d WriteHeader calls reached the underlying writer: %s", nWH, run.rec.logString()))
	}
	if !escaped && nWH != 1 {
		out = append(out, fmt.Sprintf("C08 one commit: request ended with %d WriteHeader calls: %s", nWH, run.rec.logString()))
	}
	if len(log) > 0 && firstWH != 0 {
		out = append(out, "C08 order: a write/flush reached the underlying writer before WriteHeader: "+run.rec.logString())
	}
	if nWH >= 1 {
		want := run.exp.codeBeforeIO
		if want == 0 {
			want = 200
		}
		if whCode != want {
			out = append(out, fmt.Sprintf("C08 status: WriteHeader(%d), the last positive status set before the first write/flush is %d", whCode, want))
		}
	}
	if string(body) != string(run.exp.body) || writes != run.exp.writes || flushes != run.exp.flushes {
		out = append(out, fmt.Sprintf("C08 body: underlying writer accepted %q in %d writes / %d flushes, handlers wrote %q in %d writes / %d flushes",
			body, writes, flushes, run.exp.body, run.exp.writes, run.exp.flushes))
	}
	l := run.ctx.Length()
	if nWH == 0 && l != -1 {
		out = append(out, fmt.Sprintf("C08 length: nothing committed but Length()=%d", l))
	}
	if nWH >= 1 && l != total {
		out = append(out, fmt.Sprintf("C08 length: Length()=%d, underlying writer accepted %d bytes", l, total))
	}
	return
}

/**************** corpus and generator ****************/

var htmlRepl = strings.NewReplacer("&", "&amp;", "<", "&lt;", ">", "&gt;", `"`, "&#34;", "'", "&#39;")

// redirectBody: the little HTML page net/http's Redirect writes for a GET without Content-Type
// (request path is /p; the url set of the generator has no non-ASCII bytes).
func redirectBody(url string, code int) string {
	if !strings.Contains(url, "://") {
		if url == "" || url[0] != '/' {
			url = "/" + url
		}
		q := ""
		if i := strings.Index(url, "?"); i != -1 {
			url, q = url[:i], url[i:]
		}
		trailing := strings.HasSuffix(url, "/")
		url = path.Clean(url)
		if trailing && !strings.HasSuffix(url, "/") {
			url += "/"
		}
		url += q
	}
	return "<a href=\"" + htmlRepl.Replace(url) + "\">" + http.StatusText(code) + "</a>.\n\n"
}

func wRedirect(site string, code string, url string, acc int, err int) string {
	c := 301
	if code != "d" {
		c = atoi(code)
	}
	return fmt.Sprintf("redirect %s %s %s %s %d %d", site, code, hx(url), hx(redirectBody(url, c)), acc, err)
}

func (writerEngine) Corpus() []Case {
	ct := hx("Content-Type")
	return []Case{
		// F9: status, flush, status, write
		{Ops: []string{"chain 1 GET 0 0 none 0 0", "status 0 201 0", "flush 0", "status 0 202 0", "write 0 78 1 0 0", "end"}, Tag: "corpus-F9"},
		// F8: a panicking handler, OnPanic sets the status
		{Ops: []string{"chain 2 GET 1 0 none 1 0", "panic 1", "status P 500 0", "end"}, Tag: "corpus-F8"},
		// empty chain, twice on the same router (context reuse)
		{Ops: []string{"chain 1 GET 0 0 none 0 0", "end", "status 0 404 1", "end", "end"}, Tag: "corpus-empty"},
		// status only; status <= 0 ignored; last positive wins
		{Ops: []string{"chain 3 POST 0 0 none 1 1", "status 0 404 0", "status 1 0 1", "status 2 -7 2", "status 3 503 0", "status 4 -1 0", "end"}, Tag: "corpus-status"},
		// status after commit is recorded by StatusCode() but not sent
		{Ops: []string{"chain 2 GET 0 0 none 0 1", "write 0 6869 2 0 0", "status 1 500 0", "write 2 21 1 0 1", "end"}, Tag: "corpus-after-commit"},
		// zero-length writes commit: Write(nil), Write([]byte{})
		{Ops: []string{"chain 1 GET 0 0 none 0 0", "status 0 202 0", "write 0 nil 0 0 0", "status 0 500 0", "end", "write 0 - 0 0 0", "status 0 201 0", "end"}, Tag: "corpus-zero-write"},
		// short and failing writes
		{Ops: []string{"chain 1 GET 0 0 none 0 0", "write 0 68656c6c6f 2 0 0", "write 0 68656c6c6f 0 1 0", "write 0 68656c6c6f 5 1 1", "flush 0", "end"}, Tag: "corpus-short"},
		// WriteBytes panics on a failing write: with and without OnPanic
		{Ops: []string{"chain 2 GET 1 0 none 1 0", "status 0 201 0", "wbytes 1 6162 1 1 0", "status 2 500 0", "status P 500 0", "write P 6f 1 0 0", "end"}, Tag: "corpus-wbytes-panic"},
		{Ops: []string{"chain 2 GET 0 0 none 1 0", "status 0 201 0", "wbytes 1 6162 1 1 1", "status 2 500 0", "end", "panic 0", "end"}, Tag: "corpus-escape"},
		// OnPanic that panics itself
		{Ops: []string{"chain 1 GET 1 0 none 0 0", "panic 0", "status P 503 0", "panic P", "end"}, Tag: "corpus-onpanic-panics"},
		// AbortWithStatus before Next cuts the deeper handlers off; after Next it cuts nothing
		{Ops: []string{"chain 3 GET 0 0 none 1 1", "abort 0 401 nomsg", "status 1 200 0", "write 2 78 1 0 0", "write 4 79 1 0 0", "end"}, Tag: "corpus-abort"},
		{Ops: []string{"chain 3 GET 0 0 none 1 1", "abort 1 403 msg 6e6f 3 0", "write 2 78 1 0 0", "status 3 200 0", "abort 4 500 nomsg", "end"}, Tag: "corpus-abort-msg"},
		// http.Error resets the Content-Type; redirect with and without a preset Content-Type, GET/HEAD/POST
		{Ops: []string{"chain 1 GET 0 0 none 0 0", "hdr 0 " + ct + " " + hx("a/b"), "error 0 404 " + hx("nope") + " 5 0 1", "end"}, Tag: "corpus-error"},
		{Ops: []string{"chain 1 GET 0 0 none 0 0", wRedirect("0", "d", "/a/b?x=1", 999, 0), "end", wRedirect("0", "302", "http://h.test/p", 3, 1), "status 0 200 0", "end"}, Tag: "corpus-redirect"},
		{Ops: []string{"chain 1 HEAD 0 0 none 0 0", wRedirect("0", "307", "/a", 999, 0), "end"}, Tag: "corpus-redirect-head"},
		{Ops: []string{"chain 1 POST 0 0 none 0 0", wRedirect("0", "303", "/a", 999, 0), "end"}, Tag: "corpus-redirect-post"},
		{Ops: []string{"chain 1 GET 0 0 " + hx("text/x") + " 0 0", wRedirect("0", "302", "/a", 999, 0), "end"}, Tag: "corpus-redirect-ct"},
		{Ops: []string{"chain 1 GET 0 0 none 0 0", "hdr 0 " + hx("content-type") + " " + hx("x/y"), wRedirect("0", "0", "rel", 999, 0), "end"}, Tag: "corpus-redirect-ct2"},
		// OnError runs after the chain and before the commit
		{Ops: []string{"chain 2 GET 0 1 none 0 1", "adderr 1", "status E 500 0", "write E 65 1 0 0", "end", "status E 500 0", "end"}, Tag: "corpus-onerror"},
		// the underlying writer has io.ReaderFrom and io.StringWriter (as the one of a real server): io.WriteString, Write, flush
		{Ops: []string{"chain 2 GET 0 0 none 0 1 3", "status 0 201 0", "write 1 6869 2 0 1", "flush 1", "write 2 21 1 0 0", "end"}, Tag: "corpus-wkind"},
		{Ops: []string{"chain 2 GET 0 0 none 0 1 4", "status 0 201 0", "flush 1", "write 1 6869 2 0 1", "end"}, Tag: "corpus-wkind-flusherror"},
		{Ops: []string{"chain 1 GET 0 0 none 0 0 2", "status 0 404 0", "write 0 68656c6c6f 2 1 1", "end"}, Tag: "corpus-wkind-sw"},
		{Ops: []string{"chain 1 POST 0 0 none 0 0 1", "status 0 202 0", "wbytes 0 6162 2 0 1", "end", "status 0 204 0", "end"}, Tag: "corpus-wkind-rf"},
		// the second entry point, Router.HandleContext: chains that write nothing (status only, abort, empty chain,
		// redirect of a POST) still commit exactly once; mixed with ServeHTTP requests on the same router
		{Ops: []string{"chain 1 GET 0 0 none 0 0", "status 0 404 0", "end hf", "end hf", "write 0 6869 2 0 0", "end hf", "status 0 201 0", "flush 0", "end hf", "panic 0", "end hf"}, Tag: "corpus-handlerfunc"},
		{Ops: []string{"chain 1 GET 0 0 none 0 0", "status 0 204 0", "end hc", "end hc", "status 0 404 2", "end", "abort 0 401 nomsg", "end hc"}, Tag: "corpus-hc-status"},
		{Ops: []string{"chain 3 POST 0 1 none 1 1", "abort 1 403 nomsg", "adderr 3", "status E 500 0", "end hc", wRedirect("2", "303", "/a", 999, 0), "end hc"}, Tag: "corpus-hc-abort"},
		// HandleContext with a panicking chain: OnPanic sets the status and writes nothing; without hook it escapes
		{Ops: []string{"chain 2 GET 1 0 none 1 0", "status 0 201 0", "panic 1", "status P 500 0", "end hc", "write 1 78 1 0 0", "end hc"}, Tag: "corpus-hc-panic"},
		{Ops: []string{"chain 2 GET 0 0 none 0 1", "status 0 202 0", "panic 1", "end hc", "status 0 202 0", "end hc"}, Tag: "corpus-hc-escape"},
		// internal forward (Router.HandleContext with the running context) after the handler committed the header by a
		// write / by a flush: still one commit, Length() counts all bytes
		{Ops: []string{"chain 1 GET 0 0 none 0 0", "status 0 201 0", "write 0 612d 2 0 0", "fwd 0 w62", "end", "status 0 202 0", "flush 0", "fwd 0 w62", "end"}, Tag: "corpus-fwd"},
		// forward before anything was written, from a middleware: the forwarded chain commits, the deeper handlers do
		// not start, the errors recorded before are gone (OnError does not run), later statuses are not sent
		{Ops: []string{"chain 3 GET 0 1 none 1 1", "adderr 0", "fwd 1 s204", "status 1 500 0", "write 2 78 1 0 0", "status 3 404 0", "status E 500 0", "end", "fwd 4 -", "end hc"}, Tag: "corpus-fwd"},
		// a rux router mounted in the chain (WrapHTTPHandler): with a body, status only, no status at all after the
		// outer chain recorded one
		{Ops: []string{"chain 2 GET 0 0 none 1 0", "hdr 0 " + hx("X-Outer") + " " + hx("1"), "nest 1 s201,w63726561746564", "status 2 500 0", "end", "nest 1 s204", "end", "status 0 404 0", "nest 1 w78,f,s500", "end hc"}, Tag: "corpus-nest"},
	}
}

var wStatusPool = []int{-100, -1, 0, 0, 100, 101, 200, 200, 201, 202, 204, 301, 302, 304, 400, 401, 403, 404, 500, 502, 503, 599}
var wHdrKeys = []string{"Content-Type", "content-type", "CONTENT-TYPE", "X-Trace", "Content-Length", "Location", "x-a"}
var wCTs = []string{"text/plain", "application/json", "a/b", ""}
var wURLs = []string{"/a", "/a/b?x=1", "/a/../b/", "http://h.test/p?q=1", "rel", "/x<y>\"&'", ""}

func wData(r *Rand) string {
	switch r.Intn(10) {
	case 0:
		return "nil"
	case 1:
		return "-"
	case 2:
		return hx("x")
	case 3:
		return hx("hello")
	case 4:
		return hx(strings.Repeat("ab", r.Range(20, 60)))
	default:
		n := r.Range(1, 8)
		b := make([]byte, n)
		for i := range b {
			b[i] = byte(r.Intn(256))
		}
		return hx(string(b))
	}
}

func wDataLen(tok string) int {
	if tok == "nil" || tok == "-" {
		return 0
	}
	return len(tok) / 2
}

// (acc, err) for a write of n bytes: mostly complete, sometimes short, sometimes failing
func wScript(r *Rand, n int) (int, int) {
	acc := n
	switch r.Intn(10) {
	case 0:
		acc = 0
	case 1:
		if n > 0 {
			acc = n - 1
		}
	case 2:
		acc = r.Intn(n + 1)
	case 3:
		acc = n + r.Intn(3) // clamped by both sides
	}
	err := 0
	if r.Chance(3, 20) {
		err = 1
	}
	return acc, err
}

func wStatus(r *Rand) int {
	if r.Chance(1, 5) {
		return r.Range(100, 599)
	}
	return r.PickInt(wStatusPool)
}

func (writerEngine) genAct(r *Rand, stream string, allowPanic bool) string {
	x := r.Intn(100)
	// stream bias
	switch stream {
	case "status":
		if x >= 60 {
			x = r.Intn(60)
		}
	case "io":
		if x < 30 && r.Bool() {
			x = 30 + r.Intn(36)
		}
	}
	switch {
	case x < 30:
		return fmt.Sprintf("status %d %d", wStatus(r), r.Intn(3))
	case x < 50:
		d := wData(r)
		acc, err := wScript(r, wDataLen(d))
		return fmt.Sprintf("write %s %d %d %d", d, acc, err, r.Intn(2))
	case x < 58:
		return "flush"
	case x < 66:
		d := wData(r)
		acc, err := wScript(r, wDataLen(d))
		if !allowPanic {
			err = 0
		}
		return fmt.Sprintf("wbytes %s %d %d %d", d, acc, err, r.Intn(2))
	case x < 74:
		return fmt.Sprintf("hdr %s %s", hx(r.Pick(wHdrKeys)), hx(r.Pick(wCTs)))
	case x < 80:
		msg := r.Pick([]string{"", "nope", "Method not allowed", "x\ny"})
		acc, err := wScript(r, len(msg)+1)
		return fmt.Sprintf("error %d %s %d %d %d", wStatus(r), hx(msg), acc, err, r.Intn(2))
	case x < 86:
		url := r.Pick(wURLs)
		code := "d"
		c := 301
		if r.Chance(3, 4) {
			c = r.PickInt([]int{301, 302, 303, 307, 308, 200, 0, -1, 404})
			code = fmt.Sprint(c)
		}
		body := redirectBody(url, c)
		acc, err := wScript(r, len(body))
		return fmt.Sprintf("redirect %s %s %s %d %d", code, hx(url), hx(body), acc, err)
	case x < 92:
		if r.Bool() {
			return fmt.Sprintf("abort %d nomsg", wStatus(r))
		}
		msg := r.Pick([]string{"", "denied", "no"})
		acc, err := wScript(r, len(msg)+1)
		return fmt.Sprintf("abort %d msg %s %d %d", wStatus(r), hx(msg), acc, err)
	case x < 96:
		return "adderr"
	default:
		if allowPanic {
			return "panic"
		}
		return "flush"
	}
}

func (e writerEngine) Gen(r *Rand, tier string) Case {
	ng, nr := r.Intn(4), r.Intn(3)
	if tier == "thorough" && r.Chance(1, 10) {
		ng, nr = r.Intn(8), r.Intn(6)
	}
	k := ng + nr + 1
	meth := r.Pick([]string{"GET", "GET", "GET", "GET", "HEAD", "POST"})
	onPanic, onError := r.Chance(1, 2), r.Chance(1, 3)
	ct := "none"
	if r.Chance(3, 20) {
		ct = hx(r.Pick(wCTs[:3]))
	}
	stream := r.Pick([]string{"general", "general", "status", "io", "nopanic"})
	wkind := 0
	if r.Chance(1, 4) {
		wkind = r.Range(1, recVariantMask)
	}
	ops := []string{fmt.Sprintf("chain %d %s %s %s %s %d %d %d", k, meth, b2s(onPanic), b2s(onError), ct, ng, nr, wkind)}
	nreq := r.PickInt([]int{1, 1, 1, 2, 2, 3})
	var ends []int // indices of the `end` lines
	for q := 0; q < nreq; q++ {
		n := r.PickInt([]int{0, 1, 2, 3, 4, 5, 6, 8, 10, 14})
		if tier == "thorough" && r.Chance(1, 10) {
			n = r.Range(10, 40)
		}
		type sa struct {
			rank int
			line string
		}
		var acts []sa
		for i := 0; i < n; i++ {
			site, rank := "", 0
			switch y := r.Intn(20); {
			case y == 0 && onError:
				site, rank = "E", 2*k
			case y <= 2 && onPanic:
				site, rank = "P", 2*k+1
			default:
				rank = r.Intn(2*k - 1)
				site = fmt.Sprint(rank)
			}
			allowPanic := stream != "nopanic"
			act := e.genAct(r, stream, allowPanic)
			kind, rest, _ := strings.Cut(act, " ")
			acts = append(acts, sa{rank, strings.TrimSpace(kind + " " + site + " " + rest)})
		}
		sort.SliceStable(acts, func(i, j int) bool { return acts[i].rank < acts[j].rank })
		for _, a := range acts {
			ops = append(ops, a.line)
		}
		ends = append(ends, len(ops))
		ops = append(ops, "end")
	}
	// entry point per request: a quarter of the requests go through Router.HandleContext (drawn last, so that
	// the rest of the case is what the same seed generated before this stream existed)
	for _, i := range ends {
		if r.Chance(1, 4) {
			ops[i] = "end hc"
		}
	}
	// chains of one handler without hooks: half of the requests use the handler as an http.Handler (drawn after that)
	if k == 1 && !onPanic && !onError {
		for _, i := range ends {
			if r.Chance(1, 2) {
				ops[i] = "end hf"
			}
		}
	}
	ops, wxTag := wxStream(r, ops, k)
	// copy stream (drawn last; one case in five): fully accepted non-empty writes go through io.Copy from a plain
	// io.Reader (`via` 2), the way Stream / static file handlers write a body
	if r.Chance(1, 5) {
		n := 0
		for i, op := range ops {
			f := strings.Fields(op)
			if len(f) == 6 && f[0] == "write" && f[2] != "nil" && f[2] != "-" && f[4] == "0" {
				if acc, ok := parseNatOK(f[3]); ok && acc >= len(f[2])/2 && len(f[2]) > 0 && r.Chance(2, 3) {
					f[5] = "2"
					ops[i] = strings.Join(f, " ")
					n++
				}
			}
		}
		if n > 0 {
			wxTag += "+copy"
		}
	}
	return Case{Ops: ops, Tag: stream + wxTag}
}

// wxStream (drawn after everything else of the case; one case in eight): one request (sometimes two) gets a `fwd`
// or a `nest` action in a block of the chain - behind a random action of the request (same block) or, when the
// request has none, in block 0; in half of the cases a flush or a write is put right in front of it, so that the
// header is already committed when the other dispatch starts.
func wxStream(r *Rand, ops []string, k int) ([]string, string) {
	if !r.Chance(1, 8) {
		return ops, ""
	}
	prog := func() string {
		var p []string
		for i, n := 0, r.PickInt([]int{0, 1, 1, 2, 3}); i < n; i++ {
			switch r.Intn(5) {
			case 0, 1:
				p = append(p, "s"+fmt.Sprint(wStatus(r)))
			case 2, 3:
				p = append(p, "w"+strings.TrimPrefix(hx(r.Pick([]string{"b", "inner", ""})), "-"))
			default:
				p = append(p, "f")
			}
		}
		if len(p) == 0 {
			return "-"
		}
		return strings.Join(p, ",")
	}
	tag := ""
	for n := r.PickInt([]int{1, 1, 1, 2}); n > 0; n-- {
		// the requests: [start, end) line ranges in front of every `end`
		type rg struct{ lo, hi int }
		var reqs []rg
		lo := 1
		for i := 1; i < len(ops); i++ {
			if strings.HasPrefix(ops[i], "end") {
				reqs = append(reqs, rg{lo, i})
				lo = i + 1
			}
		}
		if len(reqs) == 0 {
			break
		}
		q := reqs[r.Intn(len(reqs))]
		// candidate positions: behind an action of a chain block
		at, site := q.hi, "0"
		var cand []int
		for i := q.lo; i < q.hi; i++ {
			if f := strings.Fields(ops[i]); len(f) >= 2 && f[1] != "E" && f[1] != "P" {
				cand = append(cand, i)
			}
		}
		if len(cand) > 0 {
			i := cand[r.Intn(len(cand))]
			at, site = i+1, strings.Fields(ops[i])[1]
		} else if q.hi > q.lo {
			at = q.lo // only OnError / OnPanic actions: block 0 comes first
		}
		kind := r.Pick([]string{"fwd", "nest"})
		var ins []string
		if r.Bool() {
			if r.Bool() {
				ins = append(ins, "flush "+site)
			} else {
				ins = append(ins, fmt.Sprintf("write %s %s 1 0 %d", site, hx("x"), r.Intn(2)))
			}
		}
		ins = append(ins, kind+" "+site+" "+prog())
		ops = append(ops[:at:at], append(ins, ops[at:]...)...)
		if !strings.Contains(tag, kind) {
			tag += "+" + kind
		}
	}
	return ops, tag
}
