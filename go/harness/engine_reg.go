package main

import (
	"fmt"
	"io"
	"net/http/httptest"
	"reflect"
	"sort"
	"strings"

	"github.com/gookit/color"
	"github.com/gookit/rux"
)

// engine reg (C12, the chain-assembly half of C04): registration programs on a real router.
//
// Program lines (use / route / group … end / controller … end / resource / notfound / notallowed) are
// buffered and executed by `run` — Group needs its body as a callback, so the lines are interpreted by
// recursive descent inside the callbacks.  Handlers are closures that append `e<tag>` / `l<tag>` to the trace
// of the current request; the tag of a stored handler is read by calling it on a scratch context.
// Line formats: see lean/RuxModel/Drv/Reg.lean.
//
// Implementation-side oracles:
//   - after every Group/Controller/Resource call the registration scope (VerifScope) is what it was before;
//   - Path() and Handlers() of a route never change after its registration statement finished;
//   - the trace of every request is an onion (every handler that started also finished, in reverse order).
type regEngine struct{}

func init() { register(regEngine{}) }

func (regEngine) Name() string         { return "reg" }
func (regEngine) DriverEngine() string { return "reg" }

func (regEngine) Budget(tier string) int {
	if tier == "thorough" {
		return 12000
	}
	return 700
}

const (
	tag404    = 404
	tag405    = 405
	poisonTag = 900
)

type regSnap struct {
	path string
	tags string
}

type regRun struct {
	r      *rux.Router
	opt405 bool
	trace  []string
	bufs   map[int][]rux.HandlerFunc
	lines  []string
	dead   bool
	routes map[int]*rux.Route
	snaps  map[int]regSnap
	seen   map[*rux.Route]bool
	oracle []string
	nfSet  bool // a non-empty NotFound chain is installed
	naSet  bool
	nRoute int
	late   []lateUse
	keep   *regKeep // controller values registered more than once (shared by the routers of one case)
}

// newRegRun: cache 0 = no route cache, 1000 = EnableCaching (its default size), n = CachingWithNum(n).
func newRegRun(opt405 bool, cache int) *regRun {
	e := &regRun{opt405: opt405, bufs: map[int][]rux.HandlerFunc{}, routes: map[int]*rux.Route{},
		snaps: map[int]regSnap{}, seen: map[*rux.Route]bool{}}
	var opts []func(*rux.Router)
	if opt405 {
		opts = append(opts, rux.HandleMethodNotAllowed)
	}
	switch {
	case cache == 1000:
		opts = append(opts, rux.EnableCaching)
	case cache > 0:
		opts = append(opts, rux.CachingWithNum(uint16(cache)))
	}
	e.r = rux.New(opts...)
	return e
}

// parseNew reads `new <opts> [<cache>]`; <opts> is a bit mask: 1 HandleMethodNotAllowed, 2 StrictLastSlash
// (the strict bit is applied by regApplyOpts).
func parseNew(f []string) (opt405 bool, cache int, ok bool) {
	if len(f) < 2 || len(f) > 3 || f[0] != "new" {
		return false, 0, false
	}
	if len(f) == 3 {
		c, okc := parseInts(f[2])
		if !okc || len(c) != 1 || c[0] > 65535 || len(f[2]) > 5 {
			return false, 0, false
		}
		cache = c[0]
	}
	return regOptMask(f[1])&1 != 0, cache, true
}

// mw builds a middleware that records its tag, calls Next and records its return.
func (e *regRun) mw(tag int) rux.HandlerFunc {
	return func(c *rux.Context) {
		e.trace = append(e.trace, fmt.Sprintf("e%d", tag))
		c.Next()
		e.trace = append(e.trace, fmt.Sprintf("l%d", tag))
	}
}

// mainH builds a main handler (no Next).
func (e *regRun) mainH(tag int) rux.HandlerFunc {
	return func(c *rux.Context) {
		e.trace = append(e.trace, fmt.Sprintf("e%d", tag))
		c.WriteString("ok")
		e.trace = append(e.trace, fmt.Sprintf("l%d", tag))
	}
}

// tagOf reads the tag of a stored handler by running it on a scratch context (Next finds no chain there).
func (e *regRun) tagOf(h rux.HandlerFunc) string {
	if h == nil {
		return "nil"
	}
	saved := e.trace
	e.trace = nil
	c := &rux.Context{}
	c.Init(httptest.NewRecorder(), httptest.NewRequest("GET", "/", nil))
	h(c)
	t := "?"
	if len(e.trace) > 0 {
		t = strings.TrimPrefix(e.trace[0], "e")
	}
	e.trace = saved
	return t
}

func (e *regRun) tagsOf(hs rux.HandlersChain) string {
	if len(hs) == 0 {
		return "-"
	}
	out := make([]string, len(hs))
	for i, h := range hs {
		out[i] = e.tagOf(h)
	}
	return strings.Join(out, ",")
}

func parseInts(s string) ([]int, bool) {
	if s == "-" {
		return nil, true
	}
	var out []int
	for _, p := range strings.Split(s, ",") {
		n := 0
		if p == "" {
			return nil, false
		}
		for _, ch := range p {
			if ch < '0' || ch > '9' {
				return nil, false
			}
			n = n*10 + int(ch-'0')
		}
		out = append(out, n)
	}
	return out, true
}

// arg builds the variadic middleware argument: a fresh slice with spare capacity (the spare cells hold a
// poison handler, so a read beyond the length shows up as a tag) or a sub-slice of a shared caller array.
func (e *regRun) arg(s string) ([]rux.HandlerFunc, bool) {
	if s == "-" {
		return nil, true
	}
	if strings.HasPrefix(s, "@") {
		ps, ok := parseInts(strings.ReplaceAll(s[1:], ":", ","))
		if !ok || len(ps) != 3 {
			return nil, false
		}
		buf, has := e.bufs[ps[0]]
		if !has || ps[1] > ps[2] || ps[2] > len(buf) {
			return nil, false
		}
		return buf[ps[1]:ps[2]], true
	}
	spare := 0
	parts := strings.Split(s, "+")
	if len(parts) > 2 {
		return nil, false
	}
	if len(parts) == 2 {
		sp, ok := parseInts(parts[1])
		if !ok || len(sp) != 1 {
			return nil, false
		}
		spare = sp[0]
	}
	tags, ok := parseInts(parts[0])
	if !ok {
		return nil, false
	}
	full := make([]rux.HandlerFunc, len(tags)+spare)
	for i := range full {
		if i < len(tags) {
			full[i] = e.mw(tags[i])
		} else {
			full[i] = e.mw(poisonTag + i)
		}
	}
	return full[:len(tags)], true
}

// useCall is one Route.Use call; late = made only after the rest of the program has run (`~` in the op line).
type useCall struct {
	mws  []rux.HandlerFunc
	late bool
}

func (e *regRun) uses(s string) ([]useCall, bool) {
	if s == "-" {
		return nil, true
	}
	var out []useCall
	for _, c := range strings.Split(s, "/") {
		late := strings.HasPrefix(c, "~")
		c = strings.TrimPrefix(c, "~")
		if c == "e" {
			out = append(out, useCall{nil, late})
			continue
		}
		a, ok := e.arg(c)
		if !ok {
			return nil, false
		}
		out = append(out, useCall{a, late})
	}
	return out, true
}

type lateUse struct {
	id  int
	rt  *rux.Route
	mws []rux.HandlerFunc
}

// runLate makes the postponed Route.Use calls: each may only append to its own route.
func (e *regRun) runLate() {
	late := e.late
	e.late = nil
	for _, l := range late {
		before := e.tagsOf(l.rt.Handlers())
		l.rt.Use(l.mws...)
		after := e.tagsOf(l.rt.Handlers())
		if before != "-" && !strings.HasPrefix(after+",", before+",") {
			e.oracle = append(e.oracle, fmt.Sprintf("C12 no-alias: a later Use on route %d turned its handlers [%s] into [%s]", l.id, before, after))
		}
		if sn, ok := e.snaps[l.id]; ok && e.routes[l.id] == l.rt {
			if sn.tags != before {
				e.oracle = append(e.oracle, fmt.Sprintf("C12 no-alias: Handlers() of route %d were [%s] when it was registered and are [%s] before its later Use", l.id, sn.tags, before))
			}
			sn.tags = after
			e.snaps[l.id] = sn
		}
	}
}

var regProgKw = map[string]bool{"use": true, "notfound": true, "notallowed": true, "route": true, "resource": true,
	"group": true, "controller": true, "end": true}

// lineOK mirrors lineOk of the driver: can the line be parsed on its own?
func (e *regRun) lineOK(f []string) bool {
	switch f[0] {
	case "end":
		return len(f) == 1
	case "group", "controller":
		if len(f) != 3 {
			return false
		}
		_, ok1 := unhx(f[1])
		_, ok2 := e.arg(f[2])
		return ok1 && ok2
	case "use", "notfound", "notallowed":
		if len(f) != 2 {
			return false
		}
		_, ok := e.arg(f[1])
		return ok
	case "route":
		if len(f) != 8 {
			return false
		}
		_, ok0 := parseInts(f[1])
		_, ok1 := unhx(f[3])
		_, ok2 := unhx(f[5])
		pre, ok3 := e.uses(f[6])
		post, ok4 := e.uses(f[7])
		if !(ok0 && ok1 && ok2 && ok3 && ok4) {
			return false
		}
		ms := regMethods(f[2], f[4])
		switch f[2] {
		case "verb":
			return len(pre) == 0 && len(post) > 0 && len(ms) == 1
		case "add", "named":
			return len(pre) == 0
		case "any":
			return len(pre) == 1 && len(post) == 0
		case "pre":
			return true
		}
		return false
	case "resource":
		if len(f) != 8 {
			return false
		}
		_, ok0 := parseInts(f[1])
		_, ok1 := unhx(f[3])
		_, ok2 := unhx(f[4])
		_, ok3 := parseInts(f[5])
		_, ok4 := parseInts(f[6])
		_, ok5 := e.arg(f[7])
		return ok0 && ok1 && ok2 && ok3 && ok4 && ok5 && (f[2] == "ptr" || f[2] == "val" || f[2] == "ptrint" || f[2] == "ptrptr" || f[2] == "same")
	}
	return false
}

func regMethods(kind, ms string) []string {
	if kind == "any" {
		return rux.AnyMethods()
	}
	if ms == "-" {
		return nil
	}
	return strings.Split(ms, ",")
}

type progCtrl struct{ body func() }

func (p *progCtrl) AddRoutes(_ *rux.Router) { p.body() }

type notStruct int

var restActions = []string{"Index", "Create", "Store", "Show", "Edit", "Update", "Delete"}

func (e *regRun) scope() string {
	p, g, _ := e.r.VerifScope()
	return fmt.Sprintf("%s %d", hx(p), g)
}

func (e *regRun) noteRoute(id int, rt *rux.Route) {
	e.routes[id] = rt
	e.seen[rt] = true
	e.snaps[id] = regSnap{rt.Path(), e.tagsOf(rt.Handlers())}
	e.nRoute++
}

// execBlock interprets lines[i:] until the matching `end` (or the end of the input) and returns the index
// after it. top = not inside a group: a stray `end` is ignored.
func (e *regRun) execBlock(lines [][]string, i int, top bool) int {
	for i < len(lines) {
		f := lines[i]
		switch f[0] {
		case "end":
			i++
			if !top {
				return i
			}
		case "group", "controller":
			prefix := mustUnhx(f[1])
			mws, _ := e.arg(f[2])
			before := e.scope()
			next := len(lines)
			body := func() { next = e.execBlock(lines, i+1, false) }
			if f[0] == "group" {
				e.r.Group(prefix, body, mws...)
			} else {
				e.r.Controller(prefix, &progCtrl{body}, mws...)
			}
			if after := e.scope(); after != before {
				e.oracle = append(e.oracle, fmt.Sprintf("C12 restore: scope %q before %s(%q) but %q after it returned", before, f[0], prefix, after))
			}
			i = next
		case "use":
			a, _ := e.arg(f[1])
			e.r.Use(a...)
			i++
		case "notfound":
			a, _ := e.arg(f[1])
			e.r.NotFound(a...)
			e.nfSet = len(a) > 0
			i++
		case "notallowed":
			a, _ := e.arg(f[1])
			e.r.NotAllowed(a...)
			e.naSet = len(a) > 0
			i++
		case "route":
			e.execRoute(f)
			i++
		case "resource":
			e.execResource(f)
			i++
		default:
			i++
		}
	}
	return i
}

func (e *regRun) execRoute(f []string) {
	ids, _ := parseInts(f[1])
	id := ids[0]
	kind, name, path := f[2], mustUnhx(f[3]), mustUnhx(f[5])
	methods := regMethods(kind, f[4])
	pre, _ := e.uses(f[6])
	post, _ := e.uses(f[7])
	h := e.mainH(id)
	var rt *rux.Route
	switch kind {
	case "verb":
		first := post[0].mws
		post = post[1:]
		switch methods[0] {
		case "GET":
			rt = e.r.GET(path, h, first...)
		case "HEAD":
			rt = e.r.HEAD(path, h, first...)
		case "POST":
			rt = e.r.POST(path, h, first...)
		case "PUT":
			rt = e.r.PUT(path, h, first...)
		case "PATCH":
			rt = e.r.PATCH(path, h, first...)
		case "TRACE":
			rt = e.r.TRACE(path, h, first...)
		case "OPTIONS":
			rt = e.r.OPTIONS(path, h, first...)
		case "DELETE":
			rt = e.r.DELETE(path, h, first...)
		case "CONNECT":
			rt = e.r.CONNECT(path, h, first...)
		default:
			panic("harness: verb route with method " + methods[0])
		}
	case "add":
		rt = e.r.Add(path, h, methods...)
	case "named":
		rt = e.r.AddNamed(name, path, h, methods...)
	case "any":
		e.r.Any(path, h, pre[0].mws...)
		e.r.IterateRoutes(func(x *rux.Route) {
			if !e.seen[x] {
				rt = x
			}
		})
	case "pre":
		if name != "" {
			rt = rux.NewNamedRoute(name, path, h, methods...)
		} else {
			rt = rux.NewRoute(path, h, methods...)
		}
		for _, u := range pre {
			rt.Use(u.mws...)
		}
		e.r.AddRoute(rt)
	}
	var late []lateUse
	for _, u := range post {
		if u.late || len(late) > 0 { // keep the order of the calls on one route
			late = append(late, lateUse{id, rt, u.mws})
			continue
		}
		rt.Use(u.mws...)
	}
	if rt != nil {
		e.noteRoute(id, rt)
		e.late = append(e.late, late...)
	}
}

// regKeep: the controller VALUES of one case that are registered more than once (`resource <rid> same …`).
// It outlives `new`: the same value can be handed to Resource on a second router. The closures of a kept
// controller (its actions, the middleware in its Uses() map) record into the router that is current.
// The Uses() map of a kept controller is built ONCE (the generated U-types return the field `uses`).
type regKeep struct {
	cur   *regRun
	ctrls map[int]*regKeptCtrl
}

type regKeptCtrl struct {
	ptr    interface{}
	im, um int
}

// regCarry makes `next` the current router of the case `prev` belongs to.
func regCarry(prev, next *regRun) *regRun {
	if prev != nil && prev.keep != nil {
		next.keep = prev.keep
		next.keep.cur = next
	}
	return next
}

// keptCtrl returns the case's controller value for (rid, implemented actions, Uses() keys), creating it on
// first use.
func (e *regRun) keptCtrl(rid, im, um int) interface{} {
	if e.keep == nil {
		e.keep = &regKeep{cur: e, ctrls: map[int]*regKeptCtrl{}}
	}
	k := e.keep
	if kc, ok := k.ctrls[rid]; ok && kc.im == im && kc.um == um {
		return kc.ptr
	}
	cb := ctrlBase{hit: func(a int, c *rux.Context) {
		k.cur.trace = append(k.cur.trace, fmt.Sprintf("e%d", rid+a))
		c.WriteString("ok")
		k.cur.trace = append(k.cur.trace, fmt.Sprintf("l%d", rid+a))
	}}
	if um != 0 {
		cb.uses = map[string][]rux.HandlerFunc{}
		for a, n := range restActions {
			if um&(1<<uint(a)) != 0 {
				tag := rid + 10 + a
				cb.uses[n] = []rux.HandlerFunc{func(c *rux.Context) {
					k.cur.trace = append(k.cur.trace, fmt.Sprintf("e%d", tag))
					c.Next()
					k.cur.trace = append(k.cur.trace, fmt.Sprintf("l%d", tag))
				}}
			}
		}
	}
	ptr, _ := newCtrl(im&127, um != 0, cb)
	k.ctrls[rid] = &regKeptCtrl{ptr, im, um}
	return ptr
}

func (e *regRun) execResource(f []string) {
	rids, _ := parseInts(f[1])
	rid := rids[0]
	base := mustUnhx(f[3])
	im, _ := parseInts(f[5])
	um, _ := parseInts(f[6])
	mws, _ := e.arg(f[7])
	cb := ctrlBase{hit: func(a int, c *rux.Context) {
		e.trace = append(e.trace, fmt.Sprintf("e%d", rid+a))
		c.WriteString("ok")
		e.trace = append(e.trace, fmt.Sprintf("l%d", rid+a))
	}}
	withUses := um[0] != 0
	if withUses {
		cb.uses = map[string][]rux.HandlerFunc{}
		for a, n := range restActions {
			if um[0]&(1<<uint(a)) != 0 {
				cb.uses[n] = []rux.HandlerFunc{e.mw(rid + 10 + a)}
			}
		}
	}
	ptr, val := newCtrl(im[0]&127, withUses, cb)
	before := e.scope()
	switch f[2] {
	case "ptr":
		e.r.Resource(base, ptr, mws...)
	case "val":
		e.r.Resource(base, val, mws...)
	case "ptrint":
		e.r.Resource(base, new(notStruct), mws...)
	case "ptrptr": // a **T over a controller struct (built with reflect: `ptr` is an interface value here)
		pp := reflect.New(reflect.TypeOf(ptr))
		pp.Elem().Set(reflect.ValueOf(ptr))
		e.r.Resource(base, pp.Interface(), mws...)
	case "same":
		e.r.Resource(base, e.keptCtrl(rid, im[0], um[0]), mws...)
	}
	if after := e.scope(); after != before {
		e.oracle = append(e.oracle, fmt.Sprintf("C12 restore: scope %q before Resource(%q) but %q after it returned", before, base, after))
	}
	res := mustUnhx(f[4])
	for a, n := range restActions {
		if im[0]&(1<<uint(a)) != 0 {
			if rt := e.r.GetRoute(res + "_" + strings.ToLower(n)); rt != nil {
				e.noteRoute(rid+a, rt)
			}
		}
	}
}

// checkSnaps: no registered route has changed since its registration statement finished.
func (e *regRun) checkSnaps(when string) {
	ids := make([]int, 0, len(e.snaps))
	for id := range e.snaps {
		ids = append(ids, id)
	}
	sort.Ints(ids)
	for _, id := range ids {
		rt, sn := e.routes[id], e.snaps[id]
		if now := e.tagsOf(rt.Handlers()); now != sn.tags {
			e.oracle = append(e.oracle, fmt.Sprintf("C12 no-alias: Handlers() of route %d were [%s] when it was registered and are [%s] %s", id, sn.tags, now, when))
		}
		if rt.Path() != sn.path {
			e.oracle = append(e.oracle, fmt.Sprintf("C12: Path() of route %d was %q when it was registered and is %q %s", id, sn.path, rt.Path(), when))
		}
	}
}

// request serves one request and returns the handler tags in start order; the trace must be an onion.
func (e *regRun) request(method, path string) (string, string) {
	e.trace = nil
	w := httptest.NewRecorder()
	req := httptest.NewRequest(method, path, nil)
	e.r.ServeHTTP(w, req)
	var chain, stack []string
	for _, ev := range e.trace {
		if ev[0] == 'e' {
			chain = append(chain, ev[1:])
			stack = append(stack, ev[1:])
		} else {
			if len(stack) == 0 || stack[len(stack)-1] != ev[1:] {
				e.oracle = append(e.oracle, fmt.Sprintf("C04 onion: trace %v of %s %s is not properly nested", e.trace, method, path))
				break
			}
			stack = stack[:len(stack)-1]
		}
	}
	if len(stack) != 0 {
		e.oracle = append(e.oracle, fmt.Sprintf("C04 onion: trace %v of %s %s has unfinished handlers", e.trace, method, path))
	}
	// the built-in fallback handlers leave no trace: recognise them by what they answer
	code := w.Code
	isDefault405 := code == 405 || (method == "OPTIONS" && code == 200 && w.Header().Get("Allow") != "")
	switch {
	case isDefault405 && !e.naSet && w.Header().Get("Allow") != "":
		chain = append(chain, fmt.Sprint(tag405))
	case code == 404 && !e.nfSet && !strings.Contains(w.Body.String(), "ok"):
		chain = append(chain, fmt.Sprint(tag404))
	}
	// the Allow list of a 405 answer, canonical (sorted, comma separated)
	allow := ""
	if isDefault405 || (e.naSet && e.opt405 && w.Header().Get("Allow") != "") {
		ms := strings.Split(w.Header().Get("Allow"), ",")
		for i := range ms {
			ms[i] = strings.TrimSpace(ms[i])
		}
		sort.Strings(ms)
		allow = strings.Join(ms, ",")
	}
	// how the router itself resolves the request (the function dispatch uses)
	kind := "notfound"
	if rt, _, allowed := e.r.QuickMatch(method, req.URL.Path); rt != nil {
		kind = "served"
	} else if len(allowed) > 0 {
		kind = "notallowed"
	}
	if len(chain) == 0 {
		return kind + " -", allow
	}
	return kind + " " + strings.Join(chain, ","), allow
}

// Run: the registration program on the real router; every third case is then run again in rux's debug mode
// (rux.Debug(true) during registration AND dispatch: it only prints, to gookit/color's output, which is discarded
// meanwhile) - every answer must be the one of the normal run.
func (regEngine) Run(ops []string) (ans []string, oracle []string) {
	ans, oracle = regRunOnce(ops)
	if len(ops)%3 != 1 {
		return
	}
	var dbg []string
	func() {
		color.SetOutput(io.Discard)
		rux.Debug(true)
		defer func() {
			rux.Debug(false)
			color.ResetOutput()
		}()
		dbg, _ = regRunOnce(ops)
	}()
	for i := range ans {
		if i < len(dbg) && dbg[i] != ans[i] {
			oracle = append(oracle, fmt.Sprintf("C12 debug mode: with rux.Debug(true) op %d (%s) answers %q, otherwise %q", i, ops[i], dbg[i], ans[i]))
			break
		}
	}
	return
}

func regRunOnce(ops []string) (ans []string, oracle []string) {
	e := newRegRun(false, 0)
	for _, op := range ops {
		if o, c, ok := parseNew(strings.Fields(op)); ok {
			oracle = append(oracle, e.oracle...)
			e = regApplyOpts(regCarry(e, newRegRun(o, c)), strings.Fields(op))
			ans = append(ans, "ok")
			continue
		}
		ans = append(ans, e.step(op))
	}
	return ans, append(oracle, e.oracle...)
}

// step executes one op line (everything except `new`) on this router.
func (e *regRun) step(op string) (res string) {
	f := strings.Fields(op)
	defer func() {
		if v := recover(); v != nil {
			res = panicClass(v)
			if len(f) > 0 && f[0] == "run" {
				e.dead = true
			}
		}
	}()
	if len(f) == 0 {
		return "bad-op"
	}
	switch {
	case f[0] == "buf" && len(f) == 3:
		id, ok1 := parseInts(f[1])
		tags, ok2 := parseInts(f[2])
		if !ok1 || !ok2 || len(id) != 1 {
			return "bad-op"
		}
		buf := make([]rux.HandlerFunc, len(tags))
		for i, t := range tags {
			buf[i] = e.mw(t)
		}
		e.bufs[id[0]] = buf
		return "ok"
	case f[0] == "run" && len(f) == 1:
		lines := e.lines
		e.lines = nil
		if e.dead {
			return "skipped"
		}
		toks := make([][]string, len(lines))
		for i, l := range lines {
			toks[i] = strings.Fields(l)
		}
		e.execBlock(toks, 0, true)
		e.checkSnaps("after the program")
		e.runLate()
		e.checkSnaps("after the late Route.Use calls")
		p, g, gl := e.r.VerifScope()
		return fmt.Sprintf("ok %d ;; %s %d %d", e.nRoute, hx(p), g, gl)
	case f[0] == "info" && len(f) == 2:
		id, ok := parseInts(f[1])
		if !ok || len(id) != 1 {
			return "bad-op"
		}
		if e.dead {
			return "skipped"
		}
		rt := e.routes[id[0]]
		if rt == nil {
			return "none"
		}
		e.checkSnaps("at info")
		ms := "-"
		if len(rt.Methods()) > 0 {
			ms = strings.Join(rt.Methods(), ",")
		}
		return fmt.Sprintf("route %s %s %s %s", hx(rt.Path()), hx(rt.Name()), ms, e.tagsOf(rt.Handlers()))
	case f[0] == "serve" && len(f) == 3:
		id, ok := parseInts(f[1])
		if !ok || len(id) != 1 {
			return "bad-op"
		}
		if e.dead {
			return "skipped"
		}
		rt := e.routes[id[0]]
		if rt == nil {
			return "none"
		}
		ch, _ := e.request(f[2], strings.ReplaceAll(rt.Path(), "{id}", "7"))
		return ch
	case f[0] == "miss" && len(f) == 1:
		if e.dead {
			return "skipped"
		}
		ch, _ := e.request("GET", "/no/such/route")
		return ch
	case f[0] == "probeq" && len(f) == 3: // the raw request target (may contain %2F), parsed as net/http does
		p, ok := unhx(f[2])
		if !ok {
			return "bad-op"
		}
		if e.dead {
			return "skipped"
		}
		ch, allow := e.request(f[1], p)
		if allow != "" {
			return ch + " allow=" + allow
		}
		return ch
	case f[0] == "probe" && len(f) == 3:
		p, ok := unhx(f[2])
		if !ok {
			return "bad-op"
		}
		if e.dead {
			return "skipped"
		}
		ch, allow := e.request(f[1], p)
		if allow != "" {
			return ch + " allow=" + allow
		}
		return ch
	case f[0] == "routes" && len(f) == 1:
		if e.dead {
			return "skipped"
		}
		return "triples " + regTriples(e.r)
	case f[0] == "named" && len(f) == 1:
		if e.dead {
			return "skipped"
		}
		var out []string
		for n, rt := range e.r.NamedRoutes() {
			out = append(out, hx(n)+"="+hx(rt.Path()))
		}
		if len(out) == 0 {
			return "names -"
		}
		sort.Strings(out)
		return "names " + strings.Join(out, " ")
	case regProgKw[f[0]]:
		if !e.lineOK(f) {
			return "bad-op"
		}
		e.lines = append(e.lines, op)
		return "ok"
	}
	return "bad-op"
}

// regTriples: Routes() as sorted, de-duplicated methods:path:name triples.
func regTriples(r *rux.Router) string {
	set := map[string]bool{}
	for _, ri := range r.Routes() {
		ms := "-"
		if len(ri.Methods) > 0 {
			ms = strings.Join(ri.Methods, ",")
		}
		set[fmt.Sprintf("%s:%s:%s", ms, hx(ri.Path), hx(ri.Name))] = true
	}
	if len(set) == 0 {
		return "-"
	}
	out := make([]string, 0, len(set))
	for k := range set {
		out = append(out, k)
	}
	sort.Strings(out)
	return strings.Join(out, " ")
}

/**************** corpus ****************/

func (regEngine) Corpus() []Case {
	h := hx
	return []Case{
		// two verb routes get the SAME caller slice (a window of a longer array: spare capacity) as middleware, each gets
		// a Route.Use of its own afterwards, at once and at the end of the run: every route keeps its own chain
		{Ops: []string{"new 0", "buf 1 2100,2101,2102", "route 1 verb - GET " + h("/c") + " - @1:0:1/~2103",
			"route 2 verb - GET " + h("/x") + " - @1:0:1/~2104", "route 3 verb - POST " + h("/y") + " - @1:0:2/2105",
			"route 4 verb - PUT " + h("/z") + " - @1:0:2/2106", "group " + h("/g") + " -", "route 5 verb - GET " + h("/v") + " - @1:1:2/~2107",
			"route 6 verb - DELETE " + h("/w") + " - @1:1:2/2108", "end", "run", "info 1", "info 2", "info 3", "info 4", "info 5", "info 6",
			"serve 1 GET", "serve 2 GET", "serve 3 POST", "serve 4 PUT", "serve 5 GET", "serve 6 DELETE"}},
		// two levels, Use between two routes of one group, a route after the group, late global Use
		{Ops: []string{"new 0", "use 2000", "group " + h("/a") + " 2001,2002+2",
			"route 1 verb - GET " + h("/r1") + " - 2003/2004", "use 2005", "group " + h("/b") + " 2006",
			"route 2 add - GET,POST " + h("/r2") + " - -", "end", "route 3 verb - POST " + h("/r3") + " - e", "end",
			"route 4 any - - " + h("/r4") + " 2007 -", "run", "info 1", "info 2", "info 3", "info 4",
			"serve 1 GET", "serve 2 POST", "serve 3 POST", "serve 4 DELETE", "miss", "use 2008", "run",
			"serve 1 GET", "serve 2 GET", "miss", "info 2"}},
		// sibling groups inside a group whose handler slice has spare capacity: both append in place
		{Ops: []string{"new 1", "group " + h("/o") + " 2000+3", "group " + h("/x") + " 2001",
			"route 1 verb - GET " + h("/r1") + " - e", "end", "group " + h("/y") + " 2002",
			"route 2 verb - GET " + h("/r2") + " - e", "end", "use 2003", "route 3 verb - GET " + h("/r3") + " - e",
			"end", "run", "info 1", "info 2", "info 3", "serve 1 GET", "serve 2 GET", "serve 3 GET", "serve 1 POST"}},
		// pre-built routes attached inside groups, later Route.Use, named routes
		{Ops: []string{"new 0", "group " + h("/g") + " 2000,2001+1",
			"route 1 pre " + h("one") + " GET " + h("/r1") + " 2002+2/2003 2004",
			"route 2 pre - PUT,PATCH " + h("r2") + " - -", "end",
			"route 3 pre - GET " + h("/r3/") + " 2005+3 2006/2007", "run", "info 1", "info 2", "info 3",
			"serve 1 GET", "serve 2 PATCH", "serve 3 GET", "serve 3 HEAD", "routes"}},
		// Route.Use calls made only after the rest of the program ran (~): same lists, nothing else changes
		{Ops: []string{"new 0", "use 2000", "group " + h("/g") + " 2001+3", "route 1 verb - GET " + h("/r1") + " - 2002+2/~2003/2004",
			"group " + h("/h") + " 2005", "route 2 pre - POST " + h("/r2") + " 2006+1 ~2007+2", "end", "use 2008",
			"route 3 add - GET " + h("/r3") + " - ~e/~2009", "end", "route 4 add - GET " + h("/r4") + " - 2010/~2011", "run",
			"info 1", "info 2", "info 3", "info 4", "serve 1 GET", "serve 2 POST", "serve 3 GET", "serve 4 GET"}},
		// Controller and Resource inside a group; custom fallbacks
		{Ops: []string{"new 1", "notfound 2100,2101", "notallowed 2102", "use 2000",
			"group " + h("/api") + " 2001+2", "controller " + h("/c") + " 2002",
			"route 1 verb - GET " + h("/r1") + " - 2003", "end",
			"resource 1000 ptr " + h("/") + " " + h("u127") + " 127 9 2004", "route 2 verb - GET " + h("/r2") + " - e",
			"end", "run", "info 1", "info 2", "info 1000", "info 1001", "info 1003", "info 1005", "serve 1000 GET",
			"serve 1001 GET", "serve 1003 GET", "serve 1005 PATCH", "serve 1006 DELETE", "serve 1 POST", "miss",
			"routes"}},
		// rejected controllers
		{Ops: []string{"new 0", "resource 1000 val " + h("/") + " " + h("r003") + " 3 0 -", "run", "info 1000"}},
		{Ops: []string{"new 0", "resource 1000 ptrint " + h("/") + " " + h("notstruct") + " 3 0 -", "run", "miss"}},
		{Ops: []string{"new 0", "resource 1000 ptrptr " + h("/") + " " + h("r127") + " 127 0 -", "run", "routes", "miss"}, Tag: "corpus-ptrptr"},
		// the handler limit: 62 handlers are accepted, 63 panic (Route.Use and appendGroupInfo)
		{Ops: []string{"new 0", "route 1 verb - GET " + h("/r1") + " - " + regSeq(3000, 62), "run", "info 1", "serve 1 GET"}},
		{Ops: []string{"new 0", "route 1 verb - GET " + h("/r1") + " - " + regSeq(3000, 63), "run", "info 1"}},
		{Ops: []string{"new 0", "group " + h("/g") + " " + regSeq(3000, 40), "route 1 pre - GET " + h("/r1") + " " + regSeq(3100, 23) + " -",
			"end", "run", "info 1"}},
		{Ops: []string{"new 0", "group " + h("/g") + " " + regSeq(3000, 40), "route 1 pre - GET " + h("/r1") + " " + regSeq(3100, 22) + " -",
			"end", "run", "info 1", "serve 1 GET"}},
		// unclean spellings inside the white-space-free domain, root prefixes
		{Ops: []string{"new 0", "group " + h("g/") + " 2000", "group " + h("//h") + " -", "route 1 verb - GET " + h("r1/") + " - e",
			"use 2001", "route 2 add - GET " + h("/") + " - -", "end", "end", "group " + h("") + " 2002", "use 2003",
			"route 3 verb - GET " + h("/r3") + " - e", "end", "group " + h("/") + " -", "use 2004",
			"route 4 verb - GET " + h("/r4") + " - e", "end", "route 5 verb - GET " + h("/r5") + " - e", "run",
			"info 1", "info 2", "info 3", "info 4", "info 5", "serve 1 GET", "serve 2 GET", "serve 3 GET", "serve 4 GET",
			"serve 5 GET"}},
		// unbalanced input: stray end, unclosed group
		{Ops: []string{"new 0", "end", "group " + h("/g") + " 2000", "route 1 verb - GET " + h("/r1") + " - e", "run", "info 1",
			"route 2 verb - GET " + h("/r2") + " - e", "run", "info 2"}},
		// FINDING (see known_findings.json): Group keeps the caller's variadic slice and Use / a nested Group
		// append into its spare capacity, so a sibling group built from the same caller array gets a foreign handler
		{Ops: []string{"new 0", "buf 1 2000,2001,2002", "group " + h("/x") + " @1:0:2", "use 2003",
			"route 1 verb - GET " + h("/r1") + " - e", "end", "group " + h("/y") + " @1:0:3",
			"route 2 verb - GET " + h("/r2") + " - e", "end", "run", "info 1", "info 2", "serve 2 GET"}},
		{Ops: []string{"new 0", "buf 1 2000,2001,2002", "group " + h("/x") + " @1:0:2", "group " + h("/n") + " 2003",
			"route 1 verb - GET " + h("/r1") + " - e", "end", "end", "group " + h("/y") + " @1:0:3",
			"route 2 verb - GET " + h("/r2") + " - e", "end", "run", "info 2", "serve 2 GET"}},
		// a route whose own path begins with the characters of the group prefix in effect is prefixed like every
		// other route: (a) the full prefix, without a segment boundary / followed by a variable / at depth 2,
		// (b) the innermost prefix only, (c) a Controller whose AddRoutes uses its own prefix again
		{Ops: []string{"new 0", "group " + h("/api") + " 2000", "route 1 verb - GET " + h("/users") + " - e",
			"route 2 verb - GET " + h("/api-keys") + " - e", "route 3 verb - GET " + h("/api/{id}") + " - 2001",
			"route 4 add - PUT " + h("/api") + " - -", "group " + h("/v1") + " 2002", "route 5 verb - GET " + h("/status") + " - e",
			"route 6 verb - POST " + h("/api/v1") + " - e", "route 7 verb - GET " + h("/v1") + " - e",
			"route 8 pre - DELETE " + h("/v1-x/{id}") + " 2003 -", "end", "end",
			"controller " + h("/keys") + " -", "route 9 verb - GET " + h("/keys/{id}") + " - e",
			"route 10 verb - GET " + h("/keys-rotate") + " - e", "end", "run",
			"info 1", "info 2", "info 3", "info 4", "info 5", "info 6", "info 7", "info 8", "info 9", "info 10",
			"serve 2 GET", "serve 3 GET", "serve 4 PUT", "serve 6 POST", "serve 7 GET", "serve 8 DELETE", "serve 9 GET", "serve 10 GET",
			"probe GET " + h("/api/users"), "probe GET " + h("/api/api-keys"), "probe GET " + h("/api/api/v2"),
			"probe PUT " + h("/api/api"), "probe GET " + h("/api/v1/status"), "probe POST " + h("/api/v1/api/v1"),
			"probe GET " + h("/api/v1/v1"), "probe DELETE " + h("/api/v1/v1-x/7"), "probe GET " + h("/keys/keys/12"),
			"probe GET " + h("/keys/keys-rotate"),
			"probe GET " + h("/api-keys"), "probe GET " + h("/api/v2"), "probe PUT " + h("/api"), "probe POST " + h("/api/v1"),
			"probe GET " + h("/v1"), "probe DELETE " + h("/v1-x/7"), "probe GET " + h("/keys/12"), "probe GET " + h("/keys-rotate"),
			"routes"}},
		{Ops: []string{"new 1", "group " + h("/api") + " -", "route 1 verb - GET " + h("/api-keys") + " - e", "end", "run",
			"info 1", "probe GET " + h("/api/api-keys"), "probe GET " + h("/api-keys"), "probe POST " + h("/api/api-keys")}},
		// a caching router: the middleware of a dynamic route runs on every request for the same URL, also on the
		// ones served from the route cache (size 1: every other URL evicts; 1000: EnableCaching)
		{Ops: []string{"new 0 1", "use 2000", "group " + h("/g") + " 2001", "route 1 verb - GET " + h("/a/{id}") + " - 2002/2003",
			"route 2 pre - DELETE " + h("/b/{id}") + " 2004 2005", "end", "run", "serve 1 GET", "serve 1 GET", "serve 1 GET",
			"serve 2 DELETE", "serve 2 DELETE", "serve 1 GET", "serve 2 DELETE", "probe GET " + h("/g/a/8"), "probe GET " + h("/g/a/8"),
			"probe HEAD " + h("/g/a/8"), "probe HEAD " + h("/g/a/8"), "miss", "miss"}},
		{Ops: []string{"new 1 1000", "group " + h("/api") + " 2000+2",
			"resource 1000 ptr " + h("/") + " " + h("u127") + " 127 127 2001", "end", "run",
			"serve 1003 GET", "serve 1003 GET", "serve 1004 GET", "serve 1004 GET", "serve 1004 GET", "serve 1005 PATCH",
			"serve 1005 PATCH", "serve 1005 PUT", "serve 1005 PUT", "serve 1006 DELETE", "serve 1006 DELETE", "serve 1006 DELETE",
			"serve 1000 GET", "serve 1000 GET", "serve 1003 GET", "probe POST " + h("/api/u127/7"), "probe POST " + h("/api/u127/7")}},
		// shared caller array without spare capacity: harmless
		{Ops: []string{"new 0", "buf 1 2000,2001,2002", "group " + h("/x") + " @1:1:3", "use 2003",
			"route 1 verb - GET " + h("/r1") + " - e", "end", "group " + h("/y") + " @1:0:3",
			"route 2 verb - GET " + h("/r2") + " - e", "end", "run", "info 1", "info 2", "serve 2 GET"}},
		// ONE controller value (its Uses() hands out one persistent map) registered in two groups of a router and
		// again on a second router: every registration attaches the per-action middleware
		{Ops: []string{"new 0", "group " + h("/a") + " 2000", "resource 1000 same " + h("/") + " " + h("u127") + " 127 120 -", "end",
			"group " + h("/b") + " 2001+2", "use 2002", "resource 1000 same " + h("/") + " " + h("u127") + " 127 120 2003", "end", "run",
			"info 1003", "info 1004", "serve 1003 GET", "serve 1006 DELETE", "probe GET " + h("/a/u127/7"), "probe GET " + h("/b/u127/7"),
			"probe GET " + h("/a/u127/7/edit"), "probe GET " + h("/b/u127/7/edit"), "probe PATCH " + h("/a/u127/7"),
			"probe PATCH " + h("/b/u127/7"), "probe DELETE " + h("/b/u127/7"), "probe GET " + h("/b/u127"), "routes",
			"new 1", "resource 1000 same " + h("/c/") + " " + h("u127") + " 127 120 -", "run", "info 1003", "info 1005",
			"serve 1004 GET", "probe PUT " + h("/c/u127/7"), "probe DELETE " + h("/c/u127/7"), "probe POST " + h("/c/u127/7")}},
		// StrictLastSlash routers (option bit 2): the index route ("" or "/") of a group lives at prefix + "/", at every
		// depth, and leaves a route registered outside the group on the group's own path alone
		{Ops: []string{"new 2", "route 1 verb - GET " + h("/api") + " - e", "route 2 verb - GET " + h("/api/v1") + " - e",
			"group " + h("/api") + " 2000", "route 3 verb - GET " + h("/") + " - e", "route 4 verb - GET " + h("/users") + " - e",
			"group " + h("/v1") + " 2001", "route 5 verb - GET " + h("") + " - e", "route 6 verb - GET " + h("/users/") + " - e", "end", "end",
			"run", "info 1", "info 2", "info 3", "info 4", "info 5", "info 6", "probe GET " + h("/api"), "probe GET " + h("/api/"),
			"probe GET " + h("/api/users"), "probe GET " + h("/api/users/"), "probe GET " + h("/api/v1"), "probe GET " + h("/api/v1/"),
			"probe GET " + h("/api/v1/users"), "probe GET " + h("/api/v1/users/"), "routes"}},
		// the group first, the outer route afterwards; prefix with a trailing slash; a resource inside a strict group
		{Ops: []string{"new 3", "group " + h("/a/") + " -", "route 1 add - GET,POST " + h("/") + " - -", "route 2 verb - GET " + h("b") + " - e", "end",
			"group " + h("/a") + " 2000", "route 3 add - GET " + h("") + " - -", "resource 1000 ptr " + h("/") + " " + h("u127") + " 127 9 -", "end",
			"route 4 verb - GET " + h("/a") + " - e", "route 5 verb - POST " + h("/a/") + " - e", "run", "info 1", "info 2", "info 3", "info 4",
			"info 5", "info 1000", "info 1001", "info 1003", "probe GET " + h("/a"), "probe GET " + h("/a/"), "probe POST " + h("/a"),
			"probe POST " + h("/a/"), "probe GET " + h("/a//"), "probe GET " + h("/a//b"), "probe GET " + h("/a/b"), "probe PUT " + h("/a/"),
			"probe GET " + h("/a/u127"), "probe GET " + h("/a/u127/"), "probe GET " + h("/a/u127/7"), "probe GET " + h("/a/u127/7/"),
			"probe GET " + h("/a/u127/create/"), "probe POST " + h("/a/u127/"), "routes", "named"}},
	}
}

func regSeq(from, n int) string {
	out := make([]string, n)
	for i := range out {
		out[i] = fmt.Sprint(from + i)
	}
	return strings.Join(out, ",")
}

/**************** generator ****************/

type regGen struct {
	fb      bool // the router has HandleFallbackRoute
	r       *Rand
	ops     []string
	nextID  int
	nextTag int
	nextRid int
	usedTag []int
	routes  []regGenRoute
	nRes    int
	bufLen  map[int]int
	usedRes map[string]bool
	thor    bool
	pfxs    []string        // formatted prefixes of the open groups, outermost first
	stored  map[string]bool // stored paths of the prefix-like routes generated so far
	caching bool            // the router of this case has a route cache
	nLike   int             // routes whose own path begins like a group prefix
	dyn     []string        // expected stored paths of the generated routes with a variable
}

// regPatMatch: does the pattern (variables: {id} = one non-empty segment) match the path?
func regPatMatch(pat, path string) bool {
	ps, ss := strings.Split(pat, "/"), strings.Split(path, "/")
	if len(ps) != len(ss) {
		return false
	}
	for i := range ps {
		if ps[i] == "{id}" {
			if ss[i] == "" {
				return false
			}
		} else if ps[i] != ss[i] {
			return false
		}
	}
	return true
}

// shadowed: a generated route with a variable matches this path, so a request with a method the static route
// at this path does not have is not a 404/405
func (g *regGen) shadowed(path string) bool {
	for _, d := range g.dyn {
		if regPatMatch(d, path) {
			return true
		}
	}
	return false
}

type regGenRoute struct {
	id      int
	methods []string
	static  bool
	at      string // where the generator expects the route (statement routes only; used to keep requests unambiguous)
	// routes whose own path begins like the group prefix: where the route must be (stored) and where it must
	// not be unless something else is registered there (bare = its own formatted path, without the prefixes)
	stored, bare string
}

// regFmt / regSfmt: formatPath (default slash mode) and simpleFmtPath on white-space-free strings, as in
// cleanFmt / cleanSfmt of Model/Reg.lean. The generator needs them only to choose probe paths and to keep the
// stored paths of its routes distinct; what a route's path has to be is the model's answer.
func regFmt(s string) string {
	t := strings.TrimRight(s, "/")
	if t == "" {
		return "/"
	}
	return "/" + strings.TrimLeft(t, "/")
}

func regSfmt(s string) string { return "/" + strings.TrimLeft(s, "/") }

func regStored(full, path string) string {
	p0 := regFmt(regSfmt(path))
	if full != "" {
		return regFmt(full + p0)
	}
	return p0
}

func (g *regGen) tag() int {
	if len(g.usedTag) > 0 && g.r.Chance(1, 8) {
		return g.usedTag[g.r.Intn(len(g.usedTag))]
	}
	g.nextTag++
	g.usedTag = append(g.usedTag, g.nextTag)
	return g.nextTag
}

// arg: 0-3 handlers, often with spare capacity; sometimes a sub-slice of a shared caller array that ends at
// the array's end (no spare capacity there: the aliasing is harmless).
func (g *regGen) arg(allowEmpty bool) string {
	n := g.r.PickInt([]int{0, 1, 1, 2, 2, 3})
	if !allowEmpty && n == 0 {
		n = 1
	}
	if n == 0 {
		return "-"
	}
	if len(g.bufLen) > 0 && g.r.Chance(1, 5) {
		for b, l := range g.bufLen {
			if l >= n {
				return fmt.Sprintf("@%d:%d:%d", b, l-n, l)
			}
		}
	}
	tags := make([]string, n)
	for i := range tags {
		tags[i] = fmt.Sprint(g.tag())
	}
	s := strings.Join(tags, ",")
	if sp := g.r.PickInt([]int{0, 0, 1, 2, 3, 4}); sp > 0 {
		s += fmt.Sprintf("+%d", sp)
	}
	return s
}

// useCalls: min..max Use calls; with late, calls after the first may be postponed to the end of the run (`~`).
func (g *regGen) useCalls(min, max int, late bool) string {
	n := g.r.Range(min, max)
	if n == 0 {
		return "-"
	}
	cs := make([]string, n)
	for i := range cs {
		a := g.arg(true)
		if a == "-" {
			a = "e"
		}
		if late && i > 0 && g.r.Chance(1, 3) {
			a = "~" + a
		}
		cs[i] = a
	}
	return strings.Join(cs, "/")
}

var regVerbs = []string{"GET", "GET", "GET", "POST", "PUT", "PATCH", "DELETE", "OPTIONS", "HEAD", "CONNECT", "TRACE"}

func (g *regGen) spell(p string) string {
	// spellings the white-space-free path functions of the model handle exactly
	switch g.r.Intn(12) {
	case 0:
		return strings.TrimPrefix(p, "/")
	case 1:
		return p + "/"
	case 2:
		return "/" + p
	}
	return p
}

// likePrefix: a route path that begins with the characters of a group prefix in effect - (0) the full
// concatenated prefix, (1) the innermost group's prefix, (2) one of them continued without a segment
// boundary ("/api" -> "/api-x7") - bare, followed by a further segment, or by a variable.
// ok = false: not inside a group, or the path would be stored where another route of this case already is.
func (g *regGen) likePrefix(id int) (path string, static, ok bool) {
	if len(g.pfxs) == 0 {
		return "", false, false
	}
	full := strings.Join(g.pfxs, "")
	base := full
	shape := g.r.Intn(3)
	if shape == 1 || (shape == 2 && g.r.Bool()) {
		base = g.pfxs[len(g.pfxs)-1]
	}
	if shape == 2 {
		base = strings.TrimRight(base, "/") + fmt.Sprintf("-x%d", id)
	}
	static = true
	switch g.r.Intn(6) {
	case 0, 1:
		path = base
	case 2:
		path = strings.TrimRight(base, "/") + fmt.Sprintf("/r%d", id)
	case 3:
		path = strings.TrimRight(base, "/") + "/v1"
	default:
		path = strings.TrimRight(base, "/") + "/{id}"
		static = false
	}
	if g.r.Chance(1, 8) {
		path = g.spell(path)
	}
	st := regStored(full, path)
	if g.stored[st] || regFmt(regSfmt(path)) == "/" {
		return "", false, false
	}
	g.stored[st] = true
	return path, static, true
}

// fbBit: one router in three is built with HandleFallbackRoute (option bit 4)
func (g *regGen) fbBit() int {
	if g.r.Chance(1, 3) {
		g.fb = true
		return 4
	}
	return 0
}

func (g *regGen) route() {
	g.nextID++
	id := g.nextID
	path := fmt.Sprintf("/r%d", id)
	if g.r.Chance(1, 6) {
		path += "/sub"
	}
	path = g.spell(path)
	static, like := true, false
	if len(g.pfxs) > 0 && g.r.Chance(1, 5) {
		if p, st, ok := g.likePrefix(id); ok {
			path, static, like = p, st, true
			g.nLike++
		}
	}
	kind := g.r.Pick([]string{"verb", "verb", "verb", "verb", "add", "add", "named", "any", "pre", "pre", "pre"})
	name, ms, pre, post := "-", "-", "-", "-"
	var methods []string
	switch kind {
	case "verb":
		methods = []string{g.r.Pick(regVerbs)}
		post = g.useCalls(1, 3, true)
	case "add", "named", "pre":
		methods = []string{g.r.Pick(regVerbs)}
		if g.r.Chance(1, 3) {
			m2 := g.r.Pick(regVerbs)
			if m2 != methods[0] {
				methods = append(methods, m2)
			}
		}
		post = g.useCalls(0, 2, true)
		if kind == "pre" {
			pre = g.useCalls(0, 2, false)
		}
		if kind == "named" || (kind == "pre" && g.r.Bool()) {
			name = hx(fmt.Sprintf("n%d", id))
		}
	case "any":
		methods = rux.AnyMethods()
		pre = g.useCalls(1, 1, false)
		// on a fallback-enabled router: `Any("/*", …)` INSIDE a group is the route `<prefix>/*`, with the group's chain
		if g.fb && len(g.pfxs) > 0 && g.r.Chance(2, 3) {
			if st := regStored(strings.Join(g.pfxs, ""), "/*"); !g.stored[st] {
				g.stored[st] = true
				path, static, like = "/*", true, false
			}
		}
	}
	if kind != "any" {
		ms = strings.Join(methods, ",")
	}
	g.ops = append(g.ops, fmt.Sprintf("route %d %s %s %s %s %s %s", id, kind, name, ms, hx(path), pre, post))
	rt := regGenRoute{id: id, methods: methods, static: static, at: regStored(strings.Join(g.pfxs, ""), path)}
	if like {
		rt.stored = rt.at
		rt.bare = regFmt(regSfmt(path))
	}
	if !static {
		g.dyn = append(g.dyn, rt.at)
	}
	g.routes = append(g.routes, rt)
}

func (g *regGen) resource() {
	g.nRes++
	g.nextRid += 100
	rid := g.nextRid
	mask := g.r.Intn(128)
	if g.r.Chance(1, 3) {
		mask = 127
	}
	um := 0
	if g.r.Bool() {
		um = g.r.Intn(128)
	}
	res := fmt.Sprintf("r%03d", mask)
	if um != 0 {
		res = fmt.Sprintf("u%03d", mask)
	}
	// (a base path without a trailing slash runs into the controller's name: "/v7" + "users" = "/v7users")
	base := g.r.Pick([]string{"/", "/", "/v" + fmt.Sprint(rid) + "/", "/v" + fmt.Sprint(rid) + "/x/", "/v" + fmt.Sprint(rid), "/w" + fmt.Sprint(rid) + "/y"})
	if g.usedRes[res] {
		// two resources of one controller type under one prefix would register the same paths twice
		base = "/v" + fmt.Sprint(rid) + "/"
	}
	g.usedRes[res] = true
	g.ops = append(g.ops, fmt.Sprintf("resource %d ptr %s %s %d %d %s", rid, hx(base), hx(res), mask, um, g.arg(true)))
	acts := [][]string{{"GET"}, {"GET"}, {"POST"}, {"GET"}, {"GET"}, {"PUT", "PATCH"}, {"DELETE"}}
	for a := 0; a < 7; a++ {
		if mask&(1<<uint(a)) != 0 {
			g.routes = append(g.routes, regGenRoute{id: rid + a, methods: acts[a]})
		}
	}
}

func (g *regGen) body(depth int, top bool) {
	n := g.r.Range(1, 5)
	if top {
		n = g.r.Range(2, 6)
	}
	for i := 0; i < n; i++ {
		x := g.r.Intn(100)
		switch {
		case x < 18:
			g.ops = append(g.ops, "use "+g.arg(g.r.Chance(1, 6)))
		case x < 55:
			if len(g.routes) < 12 {
				g.route()
			}
		case x < 84:
			if depth < 4 {
				kw := "group"
				if g.r.Chance(1, 6) {
					kw = "controller"
				}
				pfx := g.spell(fmt.Sprintf("/g%d", g.r.Intn(50)))
				if g.r.Chance(1, 25) {
					pfx = g.r.Pick([]string{"", "/"})
				}
				// nested groups: give the outer list spare capacity so that inner groups append in place
				a := g.arg(true)
				g.ops = append(g.ops, fmt.Sprintf("%s %s %s", kw, hx(pfx), a))
				g.pfxs = append(g.pfxs, regFmt(pfx))
				g.body(depth+1, false)
				g.pfxs = g.pfxs[:len(g.pfxs)-1]
				g.ops = append(g.ops, "end")
			}
		case x < 90:
			if g.nRes < 2 && len(g.routes) < 10 {
				g.resource()
			}
		case x < 95:
			g.ops = append(g.ops, "notfound "+g.arg(true))
		default:
			g.ops = append(g.ops, "notallowed "+g.arg(true))
		}
	}
}

// again: how often a request line is sent in a row. The model has no cache (C07_transparent), so every
// repetition must be answered like the first; on a caching router the repetitions are served from the cache.
func (g *regGen) again() int {
	if g.caching {
		return g.r.PickInt([]int{1, 2, 2, 3})
	}
	if g.r.Chance(1, 12) {
		return 2
	}
	return 1
}

func (g *regGen) probes() {
	for _, rt := range g.routes {
		g.ops = append(g.ops, fmt.Sprintf("info %d", rt.id))
	}
	for _, rt := range g.routes {
		line := fmt.Sprintf("serve %d %s", rt.id, rt.methods[g.r.Intn(len(rt.methods))])
		for k := g.again(); k > 0; k-- {
			g.ops = append(g.ops, line)
		}
		// a method the route does not have (405 / 404); static routes only, never HEAD (it falls back to GET); OPTIONS
		// in one case in three (the default 405 handler answers it with 200 + Allow: still the fallback chain, inside
		// the global middleware)
		if rt.static && len(rt.methods) < 9 && g.r.Chance(1, 3) && !g.shadowed(rt.at) {
			cands := []string{"DELETE", "PUT", "POST", "GET", "PATCH"}
			if g.r.Chance(1, 3) {
				cands = append([]string{"OPTIONS"}, cands...)
			}
			for _, m := range cands {
				has := false
				for _, x := range rt.methods {
					if x == m {
						has = true
					}
				}
				if !has {
					g.ops = append(g.ops, fmt.Sprintf("serve %d %s", rt.id, m))
					break
				}
			}
		}
		// a route whose own path begins like the group prefix: reachable under prefix + path, and its bare
		// path resolves as if the route did not exist
		if rt.stored != "" {
			m := rt.methods[g.r.Intn(len(rt.methods))]
			if m != "HEAD" && m != "OPTIONS" {
				for _, p := range []string{rt.stored, rt.bare} {
					line := fmt.Sprintf("probe %s %s", m, hx(strings.ReplaceAll(p, "{id}", "7")))
					for k := g.again(); k > 0; k-- {
						g.ops = append(g.ops, line)
					}
				}
			}
		}
	}
	g.ops = append(g.ops, "miss")
}

func (regEngine) Gen(r *Rand, tier string) Case {
	if r.Chance(1, 8) {
		return regStrictGen(r)
	}
	g := &regGen{r: r, nextTag: 2000, nextRid: 900, bufLen: map[int]int{}, usedRes: map[string]bool{}, thor: tier == "thorough",
		stored: map[string]bool{}}
	tag := "plain"
	if r.Chance(1, 4) {
		// a router with a route cache (tiny ones evict all the time); request lines are then repeated
		g.caching = true
		g.ops = append(g.ops, fmt.Sprintf("new %d %d", r.Intn(2)|g.fbBit(), r.PickInt([]int{1, 2, 3, 1000})))
		tag = "caching"
	} else {
		g.ops = append(g.ops, fmt.Sprintf("new %d", r.Intn(2)|g.fbBit()))
	}
	if r.Chance(1, 6) {
		// a shared caller array; arguments are taken from its END only (no spare capacity behind them)
		n := r.Range(2, 4)
		tags := make([]string, n)
		for i := range tags {
			tags[i] = fmt.Sprint(g.tag())
		}
		g.ops = append(g.ops, "buf 1 "+strings.Join(tags, ","))
		g.bufLen[1] = n
		if g.caching {
			tag = "caching+sharedbuf-safe"
		} else {
			tag = "sharedbuf-safe"
		}
	}
	g.body(0, true)
	g.ops = append(g.ops, "run")
	g.probes()
	if r.Chance(2, 3) {
		// more statements after the first run: late global Use, more groups; then everything is read again
		// (aliasing shows up late)
		k := r.Range(1, 3)
		for i := 0; i < k; i++ {
			if r.Chance(2, 3) {
				g.ops = append(g.ops, "use "+g.arg(false))
			} else {
				g.body(1, false)
			}
		}
		g.ops = append(g.ops, "run")
		g.probes()
		tag += "+late"
	}
	if g.nRes > 0 {
		g.ops = append(g.ops, "routes")
		tag += "+res"
	}
	if g.nLike > 0 {
		tag += "+likeprefix"
	}
	return Case{Ops: g.ops, Tag: tag}
}

/**************** StrictLastSlash routers ****************/

// regOptMask reads the option mask of `new` (not a number = 0).
func regOptMask(s string) int {
	m, ok := parseInts(s)
	if !ok || len(m) != 1 {
		return 0
	}
	return m[0]
}

// regApplyOpts applies the option bits of `new` that newRegRun does not know: 2 = StrictLastSlash. The router is
// new (no route yet), so WithOptions is what New(options...) does.
func regApplyOpts(e *regRun, f []string) *regRun {
	if len(f) >= 2 && regOptMask(f[1])&2 != 0 {
		e.r.WithOptions(rux.StrictLastSlash)
	}
	if len(f) >= 2 && regOptMask(f[1])&4 != 0 {
		// HandleFallbackRoute: only a TOP-LEVEL `/*` route is a fallback; the generator registers `/*` inside groups only
		// (an ordinary static route `<prefix>/*` there), so the model needs no fallback step
		e.r.WithOptions(rux.HandleFallbackRoute)
	}
	return e
}

// regStrictFmt: formatPath of a StrictLastSlash router on white-space-free strings (nothing is cut at the end).
// Only used by the generator to choose probe paths; what a route's path has to be is the model's answer.
func regStrictFmt(p string) string {
	if p == "" || p == "/" {
		return "/"
	}
	if p[0] != '/' {
		return "/" + p
	}
	if p[1] == '/' {
		return "/" + strings.TrimLeft(p, "/")
	}
	return p
}

type regStrictG struct {
	r       *Rand
	ops     []string
	nextID  int
	nextTag int
	pfx     string   // the prefix in effect as a strict router concatenates it
	ids     []int    // route ids, for `info`
	paths   []string // where the routes are expected: probe targets
	methods []string
	nRes    int
}

func (g *regStrictG) arg() string {
	if g.r.Chance(1, 2) {
		return "-"
	}
	g.nextTag++
	return fmt.Sprint(g.nextTag)
}

// route: inside a group mostly the index route ("" or "/"), else short paths over a two-letter alphabet, with
// and without a trailing slash, so that group routes and outer routes meet on the same paths.
func (g *regStrictG) route() {
	g.nextID++
	id := g.nextID
	var path string
	switch x := g.r.Intn(20); {
	case g.pfx != "" && x < 8:
		path = g.r.Pick([]string{"", "/"})
	case x < 16:
		path = g.r.Pick([]string{"/a", "/a/", "/b", "/b/", "a", "b/", "/a/b", "/a/b/", "/a/a/", "/b/a"})
	case x < 18 && strings.Trim(g.pfx, "/") != "":
		path = g.r.Pick([]string{"/{id}", "/{id}/", "{id}/"})
	default:
		path = g.r.Pick([]string{"", "/", "/a", "/a/"})
	}
	m := g.r.Pick([]string{"GET", "GET", "GET", "GET", "POST"})
	kind, post := "verb", "e"
	if g.r.Chance(1, 3) {
		kind, post = "add", "-"
	} else if g.r.Chance(1, 3) {
		g.nextTag++
		post = fmt.Sprint(g.nextTag)
	}
	g.ops = append(g.ops, fmt.Sprintf("route %d %s - %s %s - %s", id, kind, m, hx(path), post))
	g.ids = append(g.ids, id)
	at := regStrictFmt("/" + strings.TrimLeft(path, "/"))
	if g.pfx != "" {
		at = regStrictFmt(g.pfx + at)
	}
	g.paths = append(g.paths, at)
	g.methods = append(g.methods, m)
}

func (g *regStrictG) body(depth int) {
	n := g.r.Range(1, 4)
	if depth == 0 {
		n = g.r.Range(3, 6)
	}
	for i := 0; i < n; i++ {
		x := g.r.Intn(100)
		switch {
		case x < 45 || depth >= 3:
			if len(g.ids) < 14 {
				g.route()
			}
		case x < 85:
			pfx := g.r.Pick([]string{"/a", "/a", "/b", "/b", "/a/", "b/", "a", "/a/b", "/", ""})
			kw := "group"
			if g.r.Chance(1, 8) {
				kw = "controller"
			}
			g.ops = append(g.ops, fmt.Sprintf("%s %s %s", kw, hx(pfx), g.arg()))
			saved := g.pfx
			g.pfx += regStrictFmt(pfx)
			if g.r.Chance(2, 3) && len(g.ids) < 14 {
				g.route() // the first statement of a group is mostly a route (often its index route)
			}
			g.body(depth + 1)
			g.pfx = saved
			g.ops = append(g.ops, "end")
		case x < 92:
			g.ops = append(g.ops, "use "+g.arg())
		default:
			if g.nRes == 0 && strings.Trim(g.pfx, "/") != "" {
				// Resource opens a group of its own: its Index/Store routes are index routes
				g.nRes++
				mask := g.r.PickInt([]int{127, 127, 9, 5, 13})
				base := g.r.Pick([]string{"/", "/", "/v/"})
				res := fmt.Sprintf("r%03d", mask)
				g.ops = append(g.ops, fmt.Sprintf("resource 1000 ptr %s %s %d 0 %s", hx(base), hx(res), mask, g.arg()))
				G := g.pfx + regStrictFmt(base+res)
				for a, rel := range []string{"/", "/create/", "/", "/{id}/", "/{id}/edit/", "/{id}/", "/{id}/"} {
					if mask&(1<<uint(a)) != 0 {
						g.ids = append(g.ids, 1000+a)
						g.paths = append(g.paths, regStrictFmt(G+rel))
						g.methods = append(g.methods, []string{"GET", "GET", "POST", "GET", "GET", "PUT", "DELETE"}[a])
					}
				}
			}
		}
	}
}

// regStrictGen: registration programs on routers built with StrictLastSlash (a trailing slash is significant):
// index routes of nested groups next to outer routes on the groups' own paths. Every route is read back (`info`)
// and every expected path is requested as it is and with the trailing slash toggled (`probe`: the model resolves
// the request in its own table, so routes that land on one path are compared too).
func regStrictGen(r *Rand) Case {
	g := &regStrictG{r: r, nextTag: 2000}
	opts := 2 + r.Intn(2)
	tag := "strict"
	caching := r.Chance(1, 5)
	if caching {
		g.ops = append(g.ops, fmt.Sprintf("new %d %d", opts, r.PickInt([]int{1, 2, 1000})))
		tag = "strict+caching"
	} else {
		g.ops = append(g.ops, fmt.Sprintf("new %d", opts))
	}
	g.body(0)
	g.ops = append(g.ops, "run")
	for _, id := range g.ids {
		g.ops = append(g.ops, fmt.Sprintf("info %d", id))
	}
	seen := map[string]bool{}
	probe := func(m, p string) {
		p = strings.ReplaceAll(p, "{id}", "7")
		if strings.HasPrefix(p, "//") || seen[m+" "+p] {
			return
		}
		seen[m+" "+p] = true
		k := 1
		if caching && r.Bool() {
			k = 2
		}
		for ; k > 0; k-- {
			g.ops = append(g.ops, fmt.Sprintf("probe %s %s", m, hx(p)))
		}
	}
	for i, p := range g.paths {
		other := p + "/"
		if strings.HasSuffix(p, "/") && p != "/" {
			other = strings.TrimSuffix(p, "/")
		}
		probe(g.methods[i], p)
		probe(g.methods[i], other)
		if r.Chance(1, 4) {
			probe(r.Pick([]string{"GET", "POST", "HEAD", "PUT"}), r.Pick([]string{p, other}))
		}
	}
	if g.nRes > 0 {
		g.ops = append(g.ops, "routes")
		tag += "+res"
	}
	return Case{Ops: g.ops, Tag: tag}
}
