module ruxverif/harness

go 1.19

require (
	github.com/gookit/color v1.5.4
	github.com/gookit/rux v0.0.0
)

require (
	github.com/gookit/filter v1.2.2 // indirect
	github.com/gookit/goutil v0.6.18 // indirect
	github.com/gookit/validate v1.5.4 // indirect
	github.com/monoculum/formam v3.5.5+incompatible // indirect
	github.com/xo/terminfo v0.0.0-20220910002029-abceb7e1c41e // indirect
	golang.org/x/sync v0.10.0 // indirect
	golang.org/x/text v0.21.0 // indirect
)

replace github.com/gookit/rux => /repo
