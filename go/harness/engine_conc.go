package main

import (
	"bytes"
	"context"
	"fmt"
	"net/http"
	"net/url"
	"sort"
	"strconv"
	"strings"
	"sync"
	"sync/atomic"
	"time"

	"github.com/gookit/rux"
)

// engine conc (C03): a DETERMINISTIC scheduler for in-flight requests.
//
// Every generated handler is built from an action list; the action `P` parks the goroutine of the request on a
// channel. `adv <i>` releases request i and waits until it parks again or ServeHTTP returns, so exactly one
// request runs at any time and the interleaving is the schedule written in the op lines. No sleeps; a watchdog
// turns a hang into a reported violation.
//
// Compared per `adv`: phase, committed status, body, Allow header and the handler trace of the request (obs) and
// the keys of the route cache in recency order (internal) against the Lean model running the same schedule;
// oracle: every request's final outcome against the same request served alone on an identical fresh router.
//
// The action `CP` keeps a Context.Copy() (what a handler hands to a goroutine that outlives the request). It is
// not observable by the request itself, so the model skips it; oracle: from the moment its request has ended, the
// copy holds exactly the data and params it held at that moment, whatever the requests served afterwards (which
// get the pooled context back) do. How many copies really saw their context reused is reported as engine stats.
//
// Panics and the OnPanic hook (`onpanic <hid>`, action `X`) are outside the interleaving model (it answers
// `unsupported` for such a case): they are checked by the two implementation oracles only - every request equals
// its solo run, and no request runs on the context of a request that is still in flight. The hook is a handler
// program, so it parks: other requests are served while a panicking request is being recovered.
//
// Protocol: see lean/RuxModel/Drv/Conc.lean.
type concEngine struct{}

func init() { register(concEngine{}) }

func (concEngine) Name() string         { return "conc" }
func (concEngine) DriverEngine() string { return "conc" }

func (concEngine) Budget(tier string) int {
	if tier == "thorough" {
		return 20000
	}
	return 700
}

/**************** configuration parsed from the op lines ****************/

type ccAct struct {
	kind string // P E N A SP WP SD GD ST W CP
	n    int
	k, v string
}

type ccGroup struct {
	prefix    string
	mws, uses []int
}

type ccRoute struct {
	id       int
	gid      int // -1 = none
	methods  []string
	pattern  string
	name     string
	main     int
	useCalls [][]int
}

type ccReq struct{ method, path string }

type ccConfig struct {
	caching       bool
	cacheCap      int
	mna, fallback bool
	progs         map[int][]ccAct
	uses          [][]int
	groups        map[int]*ccGroup
	routes        []*ccRoute
	notFound      []int
	notAllowed    []int
	hasNotFound   bool
	hasNotAllowed bool
	reqs          []ccReq
	onPanic       int // handler id of the OnPanic hook (hasOnPanic)
	hasOnPanic    bool
}

func ccInts(s string) []int {
	if s == "-" || s == "" {
		return nil
	}
	var out []int
	for _, p := range strings.Split(s, ",") {
		n, err := strconv.Atoi(p)
		if err != nil {
			return nil
		}
		out = append(out, n)
	}
	return out
}

func ccParseActs(s string) []ccAct {
	if s == "-" {
		return nil
	}
	var out []ccAct
	for _, t := range strings.Split(s, ",") {
		switch {
		case t == "P" || t == "N" || t == "A" || t == "SP" || t == "CP" || t == "X" || t == "RR":
			out = append(out, ccAct{kind: t})
		case strings.HasPrefix(t, "WP:") || strings.HasPrefix(t, "SD:"):
			p := strings.Split(t, ":")
			if len(p) == 3 {
				k, ok1 := unhx(p[1])
				v, ok2 := unhx(p[2])
				if ok1 && ok2 {
					out = append(out, ccAct{kind: p[0], k: k, v: v})
				}
			}
		case strings.HasPrefix(t, "GD:"):
			if k, ok := unhx(t[3:]); ok {
				out = append(out, ccAct{kind: "GD", k: k})
			}
		case strings.HasPrefix(t, "ST"):
			if n, err := strconv.Atoi(t[2:]); err == nil {
				out = append(out, ccAct{kind: "ST", n: n})
			}
		case strings.HasPrefix(t, "W:"):
			if v, ok := unhx(t[2:]); ok {
				out = append(out, ccAct{kind: "W", v: v})
			}
		case strings.HasPrefix(t, "E"):
			if n, err := strconv.Atoi(t[1:]); err == nil {
				out = append(out, ccAct{kind: "E", n: n})
			}
		}
	}
	return out
}

func ccUseCalls(s string) [][]int {
	if s == "-" {
		return nil
	}
	var out [][]int
	for _, part := range strings.Split(s, "/") {
		var call []int
		for _, p := range strings.Split(part, ".") {
			if n, err := strconv.Atoi(p); err == nil {
				call = append(call, n)
			}
		}
		out = append(out, call)
	}
	return out
}

// ccParse reads the setup ops (everything before the first adv/end).
func ccParse(ops []string) *ccConfig {
	cfg := &ccConfig{progs: map[int][]ccAct{}, groups: map[int]*ccGroup{}}
	for _, op := range ops {
		f := strings.Fields(op)
		if len(f) == 0 {
			continue
		}
		if f[0] == "adv" || f[0] == "end" {
			break
		}
		switch {
		case f[0] == "opt" && len(f) == 3 && f[1] == "cache":
			if n, err := strconv.Atoi(f[2]); err == nil && n >= 0 && n < 65536 {
				cfg.caching, cfg.cacheCap = true, n
			}
		case f[0] == "opt" && len(f) == 2 && f[1] == "mna":
			cfg.mna = true
		case f[0] == "opt" && len(f) == 2 && f[1] == "fallback":
			cfg.fallback = true
		case f[0] == "prog" && len(f) == 3:
			if id, err := strconv.Atoi(f[1]); err == nil {
				cfg.progs[id] = ccParseActs(f[2]) // a later line for the same id wins, as in the model
			}
		case f[0] == "use" && len(f) == 2:
			cfg.uses = append(cfg.uses, ccInts(f[1]))
		case f[0] == "group" && len(f) == 5:
			if id, err := strconv.Atoi(f[1]); err == nil {
				p, _ := unhx(f[2])
				cfg.groups[id] = &ccGroup{prefix: p, mws: ccInts(f[3]), uses: ccInts(f[4])}
			}
		case f[0] == "route" && len(f) == 8:
			id, err := strconv.Atoi(f[1])
			if err != nil {
				continue
			}
			gid := -1
			if f[2] != "-" {
				if g, err := strconv.Atoi(f[2]); err == nil {
					gid = g
				}
			}
			pat, _ := unhx(f[4])
			name, _ := unhx(f[5])
			main, _ := strconv.Atoi(f[6])
			cfg.routes = append(cfg.routes, &ccRoute{id: id, gid: gid, methods: strings.Split(f[3], ","), pattern: pat,
				name: name, main: main, useCalls: ccUseCalls(f[7])})
		case f[0] == "notfound" && len(f) == 2:
			cfg.notFound, cfg.hasNotFound = ccInts(f[1]), true
		case f[0] == "notallowed" && len(f) == 2:
			cfg.notAllowed, cfg.hasNotAllowed = ccInts(f[1]), true
		case f[0] == "onpanic" && len(f) == 2:
			if id, err := strconv.Atoi(f[1]); err == nil {
				cfg.onPanic, cfg.hasOnPanic = id, true
			}
		case f[0] == "req" && len(f) == 4:
			p, _ := unhx(f[3])
			cfg.reqs = append(cfg.reqs, ccReq{f[2], p})
		}
	}
	return cfg
}

/**************** the router under test ****************/

type ccCtxKey struct{}

// per-request state shared between the scheduler and the handlers of that request
type ccReqState struct {
	solo     bool
	trace    []string
	parked   chan struct{}
	resume   chan struct{}
	done     chan string // "" or the panic class
	started  bool
	finished bool
	crashed  string
	rec      *ccRecorder
	req      *http.Request
	ctx      *rux.Context // the context the request ran on (pointer identity goes into the stats only)
	kept     []*ccKept    // copies taken by `CP`
	ccwAlien string       // set when the request found the Resp wrapper of ANOTHER request in its context (`RR`)
	startT   int64        // scheduler ticks (stats only)
	endT     int64
}

var ccTick int64

// ccKept is a Context.Copy() kept beyond its request.
type ccKept struct {
	hid      int
	from     *rux.Context
	cp       *rux.Context
	snap     string // data and params of the copy when its request ended
	reported bool
}

// ccShowKept: data and params of a kept copy, read through the public API, canonical order.
func ccShowKept(c *rux.Context) string {
	data := map[string]string{}
	for k, v := range c.Data() {
		data[k] = encAny(v)
	}
	// Get/SafeGet must agree with Data()
	for k, want := range data {
		if v, ok := c.Get(k); !ok || encAny(v) != want {
			data[k] = want + "!get"
		}
	}
	return "d{" + encStrMap(data) + "}" + ccShowParams(c.Params)
}

// ended: the request is over (its context went back to the pool): from now on its copies must not change.
func (rs *ccReqState) ended() {
	for _, k := range rs.kept {
		k.snap = ccShowKept(k.cp)
	}
}

// keptChanged returns a description of every copy of a finished request that no longer holds what it held.
func (rs *ccReqState) keptChanged() (out []string) {
	if !rs.finished {
		return nil
	}
	for _, k := range rs.kept {
		if k.reported {
			continue
		}
		if now := ccShowKept(k.cp); now != k.snap {
			k.reported = true
			out = append(out, fmt.Sprintf("the Copy() kept by handler %d of %s %s held %s when its request ended and holds %s now",
				k.hid, rs.req.Method, rs.req.URL.Path, k.snap, now))
		}
	}
	return
}

var concStats = struct {
	sync.Mutex
	m map[string]int
}{m: map[string]int{}}

func concStat(k string, n int) {
	concStats.Lock()
	concStats.m[k] += n
	concStats.Unlock()
}

func (concEngine) Stats() map[string]int {
	concStats.Lock()
	defer concStats.Unlock()
	out := map[string]int{}
	for k, v := range concStats.m {
		out[k] = v
	}
	return out
}

// ccwWrap is what the action `RR` puts into c.Resp: a response-writer wrapper in front of the writer that was
// there (the gin-style `c.Writer = wrapper` of a gzip / capture middleware), never put back. It is transparent, so
// the request that installs it answers what it answers without it (the model skips the action). It belongs to
// that request: no other request may ever find it in its context.
type ccwWrap struct {
	under http.ResponseWriter
	owner *ccReqState
}

func (w *ccwWrap) Header() http.Header         { return w.under.Header() }
func (w *ccwWrap) WriteHeader(code int)        { w.under.WriteHeader(code) }
func (w *ccwWrap) Write(b []byte) (int, error) { return w.under.Write(b) }

// ccwCheckResp: oracle of C03 for replaced writers (evaluated when a handler starts and before every write).
func ccwCheckResp(rs *ccReqState, c *rux.Context) {
	for w, ok := c.Resp.(*ccwWrap); ok && rs.ccwAlien == ""; w, ok = w.under.(*ccwWrap) {
		if w.owner != rs {
			rs.ccwAlien = fmt.Sprintf("runs with c.Resp = the writer wrapper that the request %s %s installed", w.owner.req.Method, w.owner.req.URL.Path)
		}
	}
}

type ccRecorder struct {
	hdr  http.Header
	code int
	body bytes.Buffer
}

func (w *ccRecorder) Header() http.Header { return w.hdr }
func (w *ccRecorder) WriteHeader(c int) {
	if w.code == 0 {
		w.code = c
	}
}
func (w *ccRecorder) Write(b []byte) (int, error) {
	if w.code == 0 {
		w.code = 200
	}
	return w.body.Write(b)
}

func ccShowParams(p rux.Params) string {
	if p == nil {
		return "pnil"
	}
	ks := make([]string, 0, len(p))
	for k := range p {
		ks = append(ks, k)
	}
	sort.Strings(ks)
	parts := make([]string, len(ks))
	for i, k := range ks {
		parts[i] = hx(k) + "=" + hx(p[k])
	}
	return "p[" + strings.Join(parts, "&") + "]"
}

func ccHandler(hid int, prog []ccAct) rux.HandlerFunc {
	return func(c *rux.Context) {
		rs, _ := c.Req.Context().Value(ccCtxKey{}).(*ccReqState)
		if rs == nil {
			return
		}
		rs.trace = append(rs.trace, fmt.Sprintf("e%d", hid))
		if rs.ctx == nil {
			rs.ctx = c
		}
		ccwCheckResp(rs, c)
		for _, a := range prog {
			switch a.kind {
			case "RR":
				c.Resp = &ccwWrap{under: c.Resp, owner: rs}
			case "CP":
				rs.kept = append(rs.kept, &ccKept{hid: hid, from: c, cp: c.Copy()})
			case "X":
				panic(fmt.Sprintf("boom-%d", hid))
			case "P":
				if !rs.solo {
					rs.parked <- struct{}{}
					<-rs.resume
				}
			case "E":
				rs.trace = append(rs.trace, fmt.Sprintf("t%d", a.n))
			case "N":
				c.Next()
			case "A":
				c.Abort()
			case "SP":
				rs.trace = append(rs.trace, ccShowParams(c.Params))
			case "WP":
				if c.Params != nil {
					c.Params[a.k] = a.v
				}
			case "SD":
				c.Set(a.k, a.v)
			case "GD":
				v, ok := c.Get(a.k)
				s := "nil"
				if ok {
					if str, isStr := v.(string); isStr {
						s = hx(str)
					} else {
						s = "?"
					}
				}
				rs.trace = append(rs.trace, "d"+hx(a.k)+"="+s)
			case "ST":
				c.SetStatus(a.n)
			case "W":
				ccwCheckResp(rs, c)
				_, _ = c.Resp.Write([]byte(a.v))
			}
		}
	}
}

type ccRouter struct {
	r      *rux.Router
	routes map[int]*rux.Route
}

func (cfg *ccConfig) hs(ids []int, mk func(int) rux.HandlerFunc) []rux.HandlerFunc {
	out := make([]rux.HandlerFunc, len(ids))
	for i, id := range ids {
		out[i] = mk(id)
	}
	return out
}

// build registers the configuration on a fresh router (deterministic: the same calls in the same order).
func (cfg *ccConfig) build(caching bool) *ccRouter {
	var opts []func(*rux.Router)
	if caching && cfg.caching {
		opts = append(opts, rux.CachingWithNum(uint16(cfg.cacheCap)))
	}
	if cfg.mna {
		opts = append(opts, rux.HandleMethodNotAllowed)
	}
	if cfg.fallback {
		opts = append(opts, rux.HandleFallbackRoute)
	}
	r := rux.New(opts...)
	made := map[int]rux.HandlerFunc{}
	mk := func(id int) rux.HandlerFunc {
		if h, ok := made[id]; ok {
			return h
		}
		h := ccHandler(id, cfg.progs[id])
		made[id] = h
		return h
	}
	for _, u := range cfg.uses {
		r.Use(cfg.hs(u, mk)...)
	}
	out := &ccRouter{r: r, routes: map[int]*rux.Route{}}
	add := func(rt *ccRoute) {
		route := r.Add(rt.pattern, mk(rt.main), rt.methods...)
		if rt.name != "" {
			route.NamedTo(rt.name, r)
		}
		for _, call := range rt.useCalls {
			route.Use(cfg.hs(call, mk)...)
		}
		out.routes[rt.id] = route
	}
	for i := 0; i < len(cfg.routes); {
		rt := cfg.routes[i]
		g := cfg.groups[rt.gid]
		if rt.gid < 0 || g == nil {
			add(rt)
			i++
			continue
		}
		j := i
		for j < len(cfg.routes) && cfg.routes[j].gid == rt.gid {
			j++
		}
		batch := cfg.routes[i:j]
		r.Group(g.prefix, func() {
			if len(g.uses) > 0 {
				r.Use(cfg.hs(g.uses, mk)...)
			}
			for _, b := range batch {
				add(b)
			}
		}, cfg.hs(g.mws, mk)...)
		i = j
	}
	if cfg.hasNotFound {
		r.NotFound(cfg.hs(cfg.notFound, mk)...)
	}
	if cfg.hasNotAllowed {
		r.NotAllowed(cfg.hs(cfg.notAllowed, mk)...)
	}
	if cfg.hasOnPanic {
		// the hook is a handler program like the others: it can park, so that other requests are served while a
		// panicking request is being recovered
		r.OnPanic = mk(cfg.onPanic)
	}
	return out
}

func ccNewReq(rq ccReq, solo bool) *ccReqState {
	rs := &ccReqState{solo: solo, parked: make(chan struct{}), resume: make(chan struct{}), done: make(chan string, 1),
		rec: &ccRecorder{hdr: http.Header{}}}
	req := &http.Request{Method: rq.method, URL: &url.URL{Path: rq.path}, Proto: "HTTP/1.1", ProtoMajor: 1, ProtoMinor: 1,
		Header: http.Header{}, Host: "example.com", RequestURI: rq.path}
	rs.req = req.WithContext(context.WithValue(context.Background(), ccCtxKey{}, rs))
	return rs
}

func (rs *ccReqState) show(phase string) string {
	allow := "~"
	if vs, ok := rs.rec.hdr["Allow"]; ok && len(vs) > 0 {
		allow = hx(vs[0])
	}
	tr := "-"
	if len(rs.trace) > 0 {
		tr = strings.Join(rs.trace, ".")
	}
	return fmt.Sprintf("%s %d %s %s %s", phase, rs.rec.code, hx(rs.rec.body.String()), allow, tr)
}

func (rs *ccReqState) phase() string {
	switch {
	case rs.crashed != "":
		return "crashed"
	case rs.finished:
		return "done"
	case !rs.started:
		return "new"
	default:
		return "parked"
	}
}

const ccWatchdog = 20 * time.Second

// adv releases the request and waits for its next boundary. Returns false on a hang.
func (rs *ccReqState) adv(r *rux.Router) bool {
	if rs.finished {
		return true
	}
	if !rs.started {
		rs.started = true
		rs.startT = atomic.AddInt64(&ccTick, 1)
		go func() {
			defer func() {
				if v := recover(); v != nil {
					rs.done <- panicClass(v)
					return
				}
				rs.done <- ""
			}()
			r.ServeHTTP(rs.rec, rs.req)
		}()
	} else {
		rs.resume <- struct{}{}
	}
	wd := time.NewTimer(ccWatchdog)
	defer wd.Stop()
	select {
	case <-rs.parked:
	case p := <-rs.done:
		rs.finished = true
		rs.crashed = p
		rs.endT = atomic.AddInt64(&ccTick, 1)
		rs.ended()
	case <-wd.C:
		return false
	}
	return true
}

// solo serves one request alone on an identical fresh router.
func (cfg *ccConfig) solo(rq ccReq) string {
	rt := cfg.build(true)
	rs := ccNewReq(rq, true)
	func() {
		defer func() {
			if v := recover(); v != nil {
				rs.crashed = panicClass(v)
			}
		}()
		rt.r.ServeHTTP(rs.rec, rs.req)
	}()
	rs.started, rs.finished = true, true
	return rs.show(rs.phase())
}

func ccKeys(r *rux.Router) string {
	c := r.VerifCachedRoutes()
	if c == nil {
		return "-"
	}
	return hxList(c.VerifKeys())
}

func ccParamsEq(a rux.Params, want string) bool {
	m := map[string]string{}
	if want != "-" {
		for _, kv := range strings.Split(want, ",") {
			p := strings.Split(kv, ":")
			if len(p) != 2 {
				return false
			}
			k, _ := unhx(p[0])
			v, _ := unhx(p[1])
			m[k] = v
		}
	}
	if len(a) != len(m) {
		return false
	}
	for k, v := range m {
		if av, ok := a[k]; !ok || av != v {
			return false
		}
	}
	return true
}

func (concEngine) Run(ops []string) (ans []string, oracle []string) {
	if len(ops) == 1 && ops[0] == "timeoutmw" { // engine_conc_timeout.go
		return []string{ccTimeoutOp()}, nil
	}
	cfg := ccParse(ops)
	var rt, twin *ccRouter
	router := func() *ccRouter {
		if rt == nil {
			rt = cfg.build(true)
		}
		return rt
	}
	reqs := make([]*ccReqState, len(cfg.reqs))
	for i, rq := range cfg.reqs {
		reqs[i] = ccNewReq(rq, false)
	}
	var schedule []string
	hung := false
	hang := func(i int) {
		hung = true
		oracle = append(oracle, fmt.Sprintf("C03 hang: request %d (%s %s) did not reach a handler boundary or the end within %s; schedule so far: %s",
			i, cfg.reqs[i].method, cfg.reqs[i].path, ccWatchdog, strings.Join(schedule, " ")))
	}
	// C03 for kept copies: evaluated after every scheduling step (only one request runs at a time, and it is
	// parked or over when the scheduler looks)
	checkKept := func() {
		for i, rs := range reqs {
			for _, msg := range rs.keptChanged() {
				oracle = append(oracle, fmt.Sprintf("C03 kept copy: request %d: %s; schedule so far: %s", i, msg, strings.Join(schedule, " ")))
			}
		}
	}
	// C03 for pooled contexts: the context a request runs on is not the context of another request that is still
	// in flight (parked). Evaluated after every step of request i against the requests parked during that step.
	ccxReported := false
	ccxShared := func(i int) {
		if ccxReported || reqs[i].ctx == nil {
			return
		}
		for j, other := range reqs {
			if j != i && other.started && !other.finished && other.ctx == reqs[i].ctx {
				ccxReported = true
				oracle = append(oracle, fmt.Sprintf("C03 pooled context: request %d (%s %s) runs on the context of request %d (%s %s), which has not finished; schedule so far: %s",
					i, cfg.reqs[i].method, cfg.reqs[i].path, j, cfg.reqs[j].method, cfg.reqs[j].path, strings.Join(schedule, " ")))
			}
		}
	}
	finishAll := func() {
		for i, rs := range reqs {
			for n := 0; !rs.finished && !hung && n < 100000; n++ {
				if !rs.adv(router().r) {
					hang(i)
				}
				ccxShared(i) // request i was in flight during this step
			}
		}
	}
	for _, op := range ops {
		f := strings.Fields(op)
		a := func() (res string) {
			defer func() {
				if v := recover(); v != nil {
					res = panicClass(v)
				}
			}()
			if len(f) == 0 {
				return "bad-op"
			}
			switch f[0] {
			case "opt", "prog", "use", "group", "route", "notfound", "notallowed", "req", "tblend", "onpanic":
				return "ok"
			case "caps":
				if len(f) != 3 {
					return "bad-op"
				}
				r := router()
				got := []string{}
				for _, cr := range cfg.routes {
					if route := r.routes[cr.id]; route != nil {
						got = append(got, fmt.Sprintf("%d:%d", len(route.Handlers()), cap(route.Handlers())))
					}
				}
				gs := strings.Join(got, ",")
				if gs == "" {
					gs = "-"
				}
				gg := fmt.Sprintf("%d:%d", len(r.r.Handlers()), cap(r.r.Handlers()))
				if gg == f[1] && gs == f[2] {
					return "ok ;; caps-agree"
				}
				return fmt.Sprintf("ok ;; caps-differ(%s %s)", gg, gs)
			case "tbl":
				if len(f) < 4 {
					return "bad-op"
				}
				if twin == nil {
					twin = cfg.build(false)
				}
				key, _ := unhx(f[2])
				rid, _ := strconv.Atoi(f[3])
				stable, _, _ := twin.r.VerifTables()
				want := twin.routes[rid]
				if want == nil {
					return "ok ;; tbl-agree" // dangling id: the model answers unsupported
				}
				if f[1] == "stable" {
					if p, ok := stable[key]; ok && p == want.Path() {
						return "ok ;; tbl-agree"
					}
					return "ok ;; tbl-differ"
				}
				if _, shadowed := stable[key]; shadowed {
					return "ok ;; tbl-agree"
				}
				sl := strings.IndexByte(key, '/')
				if sl <= 0 || len(f) != 5 {
					return "ok ;; tbl-differ"
				}
				got, ps, _ := twin.r.QuickMatch(key[:sl], key[sl:])
				if got == want && ccParamsEq(ps, f[4]) {
					return "ok ;; tbl-agree"
				}
				return "ok ;; tbl-differ"
			case "adv":
				if len(f) != 2 {
					return "bad-op"
				}
				i, err := strconv.Atoi(f[1])
				if err != nil {
					return "bad-op"
				}
				if i < 0 || i >= len(reqs) || hung {
					return "unsupported"
				}
				schedule = append(schedule, f[1])
				ccxWasOver := reqs[i].finished // a step of a finished request does nothing
				if !reqs[i].adv(router().r) {
					hang(i)
					return "hang"
				}
				checkKept()
				if !ccxWasOver {
					ccxShared(i)
				}
				return reqs[i].show(reqs[i].phase()) + " ;; " + ccKeys(router().r)
			case "end":
				schedule = append(schedule, "end")
				finishAll()
				checkKept()
				parts := make([]string, len(reqs))
				for i, rs := range reqs {
					parts[i] = rs.show(rs.phase())
				}
				if len(parts) == 0 {
					return "- ;; " + ccKeys(router().r)
				}
				return strings.Join(parts, " | ") + " ;; " + ccKeys(router().r)
			}
			return "bad-op"
		}()
		ans = append(ans, a)
	}
	// never leave goroutines parked; then the oracle: concurrent outcome == solo outcome
	finishAll()
	if hung {
		return
	}
	checkKept()
	for i, rs := range reqs {
		if rs.ccwAlien != "" {
			oracle = append(oracle, fmt.Sprintf("C03 pooled context: request %d (%s %s) %s; schedule: %s", i, cfg.reqs[i].method, cfg.reqs[i].path, rs.ccwAlien, strings.Join(schedule, " ")))
		}
	}
	// stats: how many kept copies saw the context they were taken from handed to a later request
	for i, rs := range reqs {
		for _, k := range rs.kept {
			concStat("kept_copies", 1)
			for j, other := range reqs {
				if j != i && other.ctx == k.from && other.startT > rs.endT {
					concStat("kept_copies_whose_context_was_reused", 1)
					break
				}
			}
		}
	}
	anyStarted := false
	for _, rs := range reqs {
		anyStarted = anyStarted || rs.started
	}
	if !anyStarted {
		return
	}
	for i, rs := range reqs {
		conc := rs.show(rs.phase())
		alone := cfg.solo(cfg.reqs[i])
		if conc != alone {
			oracle = append(oracle, fmt.Sprintf("C03 independence: request %d (%s %s) under schedule [%s] produced %q, served alone on an identical router it produces %q",
				i, cfg.reqs[i].method, cfg.reqs[i].path, strings.Join(schedule, " "), conc, alone))
		}
	}
	return
}
