package main

import (
	"fmt"
	"strings"

	"github.com/gookit/rux"
)

// Additional generator streams of the engines route / rcache (same op language, same probe loop):
//
//	overlap   several dynamic routes of one method below the same literal first segment that overlap on some
//	          paths, in both registration orders: some have nothing literal behind the first segment
//	          (`/api/{group}/{id}`, `/users/{name}`: Route.start is empty), some have a longer literal prefix
//	          (`/api/v1/{id}`, `/users/id-{num:\d+}`, `/api/v1[/{id}]`). C01: the earliest registered one wins.
//	gvar      `rux.SetGlobalVar` between registrations: the SAME pattern string with a plain `{name}` is registered
//	          before and after the variable (a new one, or num/any/all) got a (new) regex; other patterns use the
//	          name too. C02: every route keeps the regex that was in force when it was registered.
//	enc       routers with UseEncodedPath (mask bit 128): variable segments with percent-escapes (%20, %2F, %25, UTF-8),
//	          through ServeHTTP (the handler sees c.Params) and QuickMatch. C02: the values are the substrings of the
//	          (escaped) path the router matched.
//	hist      caching routers with HandleMethodNotAllowed and/or HandleFallbackRoute, '/*' routes for SOME methods only,
//	          dynamic routes for GET only; histories of several requests for the SAME path under different methods
//	          (HEAD after GET, GET after HEAD, POST/OPTIONS after either, after a fallback answer). C06/C07: the answer
//	          depends on the table and the options, not on the requests served before.
//	rereg     `rereg`: the same *rux.Route value is given to AddRoute a second time (refused for routes with variables),
//	          then lookups that match the accepted definition. C13: no panic, same answers.
//	long      (rcache) request paths of 490-600 bytes around the key lengths 512/513, repeated, with `ckeys` after each;
//	          a 5000 byte path at the end. C14: the resolved request is the most recent cache entry.
//	optonly   dynamic routes WITHOUT variables (only optional parts: `/blog[/index]`, `/docs/about[.html]`,
//	          `/a[/b[/c]]`), next to a static route on one of their instances and ordinary routes. C07/C02: their
//	          params map is the same (empty, non-nil) on cache hits and misses.

func raNilness(ps rux.Params) string {
	if ps == nil {
		return "nil"
	}
	return "non-nil"
}

// raObserveNil wraps a route handler: it notes whether the Params map the handler gets is nil (a handler can
// see that without writing: `c.Params == nil`, json.Marshal gives null instead of {}).
func raObserveNil(im *routeImpl, h rux.HandlerFunc) rux.HandlerFunc {
	return func(c *rux.Context) {
		im.raNil = raNilness(c.Params)
		h(c)
	}
}

// raB builds a genRoute from literal text, variables and optional levels.
type raB struct {
	sb     strings.Builder
	levels [][]piece
	opens  int
	nvar   int
}

func newRaB() *raB { return &raB{levels: [][]piece{nil}} }

func (b *raB) lit(s string) *raB {
	b.sb.WriteString(s)
	b.levels[len(b.levels)-1] = append(b.levels[len(b.levels)-1], piece{lit: s})
	return b
}

// v adds a variable of the given kind (index into varKinds; 0 = plain `{name}`).
func (b *raB) v(kind int) *raB {
	b.nvar++
	k := varKinds[kind]
	name := fmt.Sprintf("p%d", b.nvar)
	b.sb.WriteString("{" + fmt.Sprintf(k.spec, name) + "}")
	b.levels[len(b.levels)-1] = append(b.levels[len(b.levels)-1], piece{v: &genVar{name, k.vals, k.bad}})
	return b
}

// named adds a plain `{name}` whose values come from the given lists.
func (b *raB) named(name string, vals, bad []string) *raB {
	b.sb.WriteString("{" + name + "}")
	b.levels[len(b.levels)-1] = append(b.levels[len(b.levels)-1], piece{v: &genVar{name, vals, bad}})
	return b
}

// open starts an optional level.
func (b *raB) open() *raB {
	b.sb.WriteString("[")
	b.opens++
	b.levels = append(b.levels, nil)
	return b
}

func (b *raB) route(id int, methods []string) genRoute {
	return genRoute{id: id, methods: methods, pattern: b.sb.String() + strings.Repeat("]", b.opens), levels: b.levels}
}

// raKind: mostly the plain variable, sometimes one of the custom regexes.
func raKind(r *Rand) int {
	if r.Chance(2, 3) {
		return 0
	}
	return r.Intn(len(varKinds))
}

var raFirstSegs = []string{"api", "users", "blog", "v1.0", "a", "x-y", "docs", "items"}

// raMethods: the common method of a family, sometimes with a second one.
func raMethods(r *Rand, common string) []string {
	ms := []string{common}
	if r.Chance(1, 4) {
		if m := r.Pick([]string{"GET", "POST", "PUT", "HEAD", "DELETE"}); m != common {
			ms = append(ms, m)
		}
	}
	return ms
}

func raRegLine(r *Rand, g genRoute) string {
	ms := g.methods
	if len(ms) == 1 && ms[0] == "GET" && r.Bool() {
		ms = nil // default method
	}
	switch {
	case r.Chance(1, 6):
		return regOpMut(g.id, ms, g.pattern)
	case r.Chance(1, 5):
		return fmt.Sprintf("reg %d %s %s %d", g.id, hxList(ms), hx(g.pattern), r.PickInt([]int{3, 3, 4}))
	}
	return regOp(g.id, ms, g.pattern, false)
}

// raHeader: the `new` op of a case as the main generator draws it (no intercept path).
func (e routeEngine) raHeader(r *Rand, stream string) (string, string) {
	return e.raHeaderWith(r, stream, 0)
}

// raHeaderWith: as raHeader, with the given option bits switched on (8 = caching, also for the engine route).
func (e routeEngine) raHeaderWith(r *Rand, stream string, force int) (string, string) {
	mask := r.Intn(128)&^8 | force
	cap := 0
	tag := stream
	if e.name == "rcache" {
		mask |= 8
		cap = r.PickInt([]int{1, 1, 2, 2, 3, 4, 1000, 0})
		tag = "cache-" + stream
	} else if force&8 != 0 {
		cap = r.PickInt([]int{1, 2, 2, 3, 4, 1000})
	}
	return fmt.Sprintf("new %d %d -", mask, cap), tag
}

// raProbes is the probe loop of the main generator: instances, near misses, mutated and degenerate paths under
// matching / other / HEAD / OPTIONS / junk methods; histories with repetition and key-order ops for rcache.
func (e routeEngine) raProbes(r *Rand, tier string, routes []genRoute, ops []string) []string {
	nProbes := r.Range(12, 40)
	if tier == "thorough" {
		nProbes = r.Range(20, 100)
	}
	var recent []string
	for i := 0; i < nProbes; i++ {
		g := routes[r.Intn(len(routes))]
		path := g.instance(r, r.Chance(3, 4))
		if r.Chance(1, 6) {
			path = mutatePath(r, path)
		}
		if r.Chance(1, 40) {
			path = r.Pick([]string{"", "/", " ", "//", "/*", "a"})
		}
		method := g.methods[r.Intn(len(g.methods))]
		switch x := r.Intn(20); {
		case x < 4: // the method of another route of the case
			o := routes[r.Intn(len(routes))]
			method = o.methods[r.Intn(len(o.methods))]
		case x < 6:
			method = "HEAD"
		case x == 6:
			method = nineMethods[r.Intn(9)]
		case x == 7:
			method = r.Pick([]string{"OPTIONS", "get", "", "PURGE"})
		}
		if e.name == "rcache" && len(recent) > 0 && r.Chance(1, 2) {
			mp := strings.SplitN(recent[r.Intn(len(recent))], "\x01", 2)
			method, path = mp[0], mp[1]
		}
		recent = append(recent, method+"\x01"+path)
		if len(recent) > 6 {
			recent = recent[1:]
		}
		op := "q"
		if r.Chance(1, 3) {
			op = "serve"
		}
		ops = append(ops, op+" "+hx(method)+" "+hx(path))
		if e.name == "rcache" && r.Chance(1, 3) {
			ops = append(ops, "ckeys")
		}
	}
	if e.name == "rcache" {
		ops = append(ops, "ckeys")
	}
	return ops
}

// raOrdinary: a dynamic route of the main generator (static ones are left out: no duplicate static keys).
func raOrdinary(r *Rand, id int, shared []string) (genRoute, bool) {
	g := genPattern(r, id, shared)
	return g, strings.Contains(g.pattern, "{")
}

func (e routeEngine) raGen(r *Rand, tier string) (Case, bool) {
	switch x := r.Intn(48); { // overlap, gvar, optonly: 1 case in 16 each; enc, hist, rereg: 1 in 24; long: 1 in 24 (rcache)
	case x < 3:
		return e.raGenOverlap(r, tier), true
	case x < 6:
		return e.raGenGvar(r, tier), true
	case x < 9:
		return e.raGenOptOnly(r, tier), true
	case x < 11:
		return e.raGenEnc(r, tier), true
	case x < 13:
		return e.raGenHist(r, tier), true
	case x < 15:
		return e.raGenRereg(r, tier), true
	case x < 17 && e.name == "rcache":
		return e.raGenLong(r, tier), true
	}
	return Case{}, false
}

/**************** overlap ****************/

func (e routeEngine) raGenOverlap(r *Rand, tier string) Case {
	hdr, tag := e.raHeader(r, "overlap")
	ops := []string{hdr}
	first := r.Pick(raFirstSegs)
	common := r.Pick([]string{"GET", "GET", "POST", "PUT", "DELETE"})
	sec := r.Pick([]string{"v1", "v2", "id-", "v", "x.", "new", "1"}) // literal text behind the first segment
	base := "/" + first + "/"

	// routes whose variable follows the first segment directly (Route.start is empty)
	plain := func(id int) genRoute {
		b := newRaB().lit(base)
		switch r.Intn(6) {
		case 0:
			b.v(raKind(r))
		case 1:
			b.v(0).lit("/").v(raKind(r))
		case 2:
			b.v(0).open().lit("/").v(raKind(r))
		case 3:
			b.v(7) // `.+`: any number of segments
		case 4:
			b.v(0).lit("/").v(0).open().lit("/").v(0)
		default:
			b.v(0).lit("/").v(1)
		}
		return b.route(id, raMethods(r, common))
	}
	// routes with more literal text in front of the first variable (Route.start = that text)
	prefixed := func(id int) genRoute {
		b := newRaB().lit(base + sec)
		switch r.Intn(6) {
		case 0:
			b.lit("/").v(raKind(r))
		case 1:
			b.v(r.PickInt([]int{0, 1, 1, 2}))
		case 2:
			b.lit("/").v(0).lit("/").v(raKind(r))
		case 3:
			b.open().lit("/").v(raKind(r))
		case 4:
			b.lit("/").v(1)
		default:
			b.lit("/").v(0).open().lit("/").v(0)
		}
		return b.route(id, raMethods(r, common))
	}
	nPlain, nPre := r.Range(1, 2), r.Range(1, 2)
	var mk []func(int) genRoute
	for i := 0; i < nPlain; i++ {
		mk = append(mk, plain)
	}
	for i := 0; i < nPre; i++ {
		mk = append(mk, prefixed)
	}
	r.Shuffle(len(mk), func(i, j int) { mk[i], mk[j] = mk[j], mk[i] })
	var routes []genRoute
	id := 0
	seen := map[string]bool{}
	for _, f := range mk {
		if r.Chance(1, 4) { // an ordinary route in between (often below the same first segment)
			id++
			if g, ok := raOrdinary(r, id, []string{first}); ok {
				routes = append(routes, g)
				ops = append(ops, raRegLine(r, g))
			}
		}
		id++
		g := f(id)
		if seen[g.pattern] && r.Chance(1, 2) {
			continue
		}
		seen[g.pattern] = true
		routes = append(routes, g)
		ops = append(ops, raRegLine(r, g))
	}
	return Case{Ops: e.raProbes(r, tier, routes, ops), Tag: tag}
}

/**************** gvar ****************/

// regexes given to SetGlobalVar, with values inside / outside their language; most outside values are
// inside the default `[^/]+`, so a route that kept a stale regex accepts them.
var raGvKinds = []struct {
	re   string
	vals []string
	bad  []string
}{
	{`\d+`, []string{"1", "007", "42"}, []string{"a", "1a", "-1", ""}},
	{`[a-z-]+`, []string{"a", "a-b", "zz"}, []string{"A", "a1", "12"}},
	{`[A-Z]{2}[0-9]+`, []string{"AB12", "XY7"}, []string{"ab12", "AB12x", "12"}},
	{`(?:en|fr|de)`, []string{"en", "fr", "de"}, []string{"it", "e", "enx"}},
	{`[1-9][0-9]*`, []string{"1", "10", "999"}, []string{"0", "01", "a"}},
	{`[^/]+`, []string{"1", "ab", "x.y", "a-b", "12"}, []string{""}},
	{`.*`, []string{"", "a", "a/b/c", "x.y"}, nil},
	{`[^.-]+`, []string{"a", "ab", "a_b"}, []string{"a.b", "a-b", ""}},
}

func (e routeEngine) raGenGvar(r *Rand, tier string) Case {
	hdr, tag := e.raHeader(r, "gvar")
	ops := []string{hdr}
	first := r.Pick(raFirstSegs)
	name := r.Pick([]string{"sku", "id", "slug", "num", "any", "all", "num"})
	// the regime in force: values of `{name}` as registration sees it now
	vals, bad := varKinds[0].vals, varKinds[0].bad
	for _, g := range globalNames {
		if g.name == name {
			vals, bad = g.vals, g.bad
		}
	}
	setVar := func() {
		k := raGvKinds[r.Intn(len(raGvKinds))]
		ops = append(ops, "gvar "+hx(name)+" "+hx(k.re))
		vals, bad = k.vals, k.bad
	}
	// the pattern that is registered several times, verbatim
	shape := r.Intn(6)
	same := func(id int, methods []string) genRoute {
		b := newRaB()
		switch shape {
		case 0:
			b.lit("/"+first+"/").named(name, vals, bad)
		case 1:
			b.lit("/"+first+"/").named(name, vals, bad).lit("/edit")
		case 2:
			b.lit("/").named(name, vals, bad)
		case 3:
			b.lit("/"+first+"/v-").named(name, vals, bad).lit(".html")
		case 4:
			b.lit("/"+first+"/").named(name, vals, bad).open().lit("/").v(0)
		default:
			b.lit("/"+first+"/").v(1).lit("/").named(name, vals, bad)
		}
		return b.route(id, methods)
	}
	other := func(id int, methods []string) genRoute { // another pattern with the same plain variable
		b := newRaB()
		if r.Bool() {
			b.lit("/o/").named(name, vals, bad)
		} else {
			b.lit("/"+first+"/o/").named(name, vals, bad).lit("/x")
		}
		return b.route(id, methods)
	}
	methods := []string{"GET", "POST", "PUT", "DELETE", "PATCH"}
	r.Shuffle(len(methods), func(i, j int) { methods[i], methods[j] = methods[j], methods[i] })
	var routes []genRoute
	add := func(g genRoute) {
		routes = append(routes, g)
		ops = append(ops, raRegLine(r, g))
	}
	id := 0
	if r.Chance(1, 4) { // the usual order: the variable is defined before the first route
		setVar()
	}
	n := r.Range(2, 3)
	for i := 0; i < n; i++ {
		id++
		ms := []string{methods[i]}
		if i > 0 && r.Chance(1, 6) { // the same method again: the earlier registration keeps winning
			ms = []string{methods[0]}
		}
		add(same(id, ms))
		if r.Chance(1, 3) {
			id++
			add(other(id, []string{methods[r.Intn(len(methods))]}))
		}
		if r.Chance(1, 5) {
			id++
			if g, ok := raOrdinary(r, id, []string{first}); ok && !strings.Contains(g.pattern, "{"+name+"}") {
				add(g)
			}
		}
		if i+1 < n && r.Chance(5, 6) {
			setVar()
		}
	}
	return Case{Ops: e.raProbes(r, tier, routes, ops), Tag: tag}
}

/**************** optonly ****************/

func (e routeEngine) raGenOptOnly(r *Rand, tier string) Case {
	hdr, tag := e.raHeader(r, "optonly")
	ops := []string{hdr}
	var routes []genRoute
	id := 0
	add := func(g genRoute) {
		routes = append(routes, g)
		ops = append(ops, raRegLine(r, g))
	}
	segs := append([]string{}, raFirstSegs...)
	r.Shuffle(len(segs), func(i, j int) { segs[i], segs[j] = segs[j], segs[i] })
	n := r.Range(1, 3)
	staticDone := false
	for i := 0; i < n; i++ {
		a, b2, c := "/"+segs[i], "/"+r.Pick([]string{"index", "about", "list", "b.c"}), "/"+r.Pick([]string{"all", "x", "1"})
		b := newRaB()
		switch r.Intn(6) {
		case 0:
			b.lit(a).open().lit(b2)
		case 1:
			b.lit(a + b2).open().lit(r.Pick([]string{".html", ".json"}))
		case 2:
			b.lit(a).open().lit(b2).open().lit(c)
		case 3:
			b.lit(a + b2).open().lit(c)
		case 4:
			b.lit(a).open().lit(r.Pick([]string{".html", ".json"}))
		default:
			b.lit(a + b2).open().lit(c).open().lit(".html")
		}
		id++
		methods := raMethods(r, r.Pick([]string{"GET", "GET", "GET", "POST", "PUT"}))
		g := b.route(id, methods)
		// a static route on one instance of the pattern, before or after it: the exact static path wins
		if !staticDone && r.Chance(1, 5) {
			staticDone = true
			id++
			st := newRaB().lit(g.instance(r, true)).route(id, methods)
			if r.Bool() {
				add(st)
				add(g)
			} else {
				add(g)
				add(st)
			}
		} else {
			add(g)
		}
		if r.Chance(1, 3) {
			id++
			if o, ok := raOrdinary(r, id, []string{segs[i]}); ok {
				add(o)
			}
		}
	}
	return Case{Ops: e.raProbes(r, tier, routes, ops), Tag: tag}
}

// corpus cases of the three streams (appended to the route / rcache corpus)
func raCorpus(engine string) []Case {
	g, p := "GET", "POST"
	q := func(m, path string) string { return "q " + hx(m) + " " + hx(path) }
	sv := func(m, path string) string { return "serve " + hx(m) + " " + hx(path) }
	gvar := func(name, re string) string { return "gvar " + hx(name) + " " + hx(re) }
	overlap := func(hdr string) Case {
		return Case{Ops: []string{hdr,
			regOp(1, nil, "/api/{group}/{id}", false), regOp(2, nil, "/api/v1/{id}", false),
			regOp(3, []string{p}, "/users/{name}", false), regOp(4, []string{p}, "/users/id-{num:\\d+}", false),
			regOp(5, nil, "/b/v1/{id}", false), regOp(6, nil, "/b/{g}/{id}", false), regOp(7, nil, "/b/v1[/{id}]", false), regOp(8, nil, "/b/v{n:\\d+}/{id}", false),
			q(g, "/api/v1/7"), q(g, "/api/v2/7"), q(p, "/users/id-12"), q(p, "/users/bob"), q(g, "/b/v1/7"), q(g, "/b/v2/7"), q(g, "/b/v1"), sv(g, "/api/v1/7"), sv(p, "/users/id-12")}}
	}
	gv := func(hdr string) Case {
		return Case{Ops: []string{hdr,
			regOp(1, []string{g}, "/items/{sku}", false), gvar("sku", "[A-Z]{2}[0-9]+"), regOp(2, []string{p}, "/items/{sku}", false),
			q(g, "/items/ab12"), q(p, "/items/ab12"), q(p, "/items/AB12"), sv(p, "/items/12"), sv(p, "/items/XY7"), q(p, "/items/ab12"), q(g, "/items/ab12"),
			gvar("num", "\\d+"), regOp(3, []string{"PUT"}, "/n/{num}", false), regOp(4, []string{"PUT"}, "/m/{num:[a-z]+}", false), q("PUT", "/n/007"), q("PUT", "/m/ab"), q("PUT", "/m/12"),
			gvar("sku", "[a-z-]+"), regOp(5, []string{"DELETE"}, "/items/{sku}", false), q("DELETE", "/items/ab"), q("DELETE", "/items/AB12"), q(p, "/items/AB12")}}
	}
	// request keys ("GET" + "/u/" + id) that collide under common 32-bit hash functions, on caching routers: each request
	// gets its own id back, cached or not
	var collide []Case
	for _, pr := range collidingSuffixes("GET/u/") {
		a, b := "/u/"+pr[0], "/u/"+pr[1]
		collide = append(collide, Case{Ops: []string{"new 8 4 -", regOp(1, nil, "/u/{id}", false), q(g, a), q(g, b), q(g, a), sv(g, b), sv(g, a), "ckeys"}, Tag: "corpus-collide"})
	}
	// long cache keys: a cached request whose key ("GET" + path) is exactly 32 / 64 / 128 / 256 bytes long, then requests
	// that extend that path by 1-3 bytes or by a further segment (another route, or no route at all), and back
	for _, n := range []int{32, 64, 128, 256} {
		id := strings.Repeat("0123456789abcdef", 17)[:n-len("GET/r/")]
		a := "/r/" + id
		collide = append(collide, Case{Ops: []string{"new 8 4 -", regOp(1, nil, "/r/{id}", false), regOp(2, nil, "/r/{id}/edit", false),
			q(g, a), q(g, a+"x"), q(g, a+"xyz"), q(g, a), sv(g, a+"/edit"), sv(g, a), sv(g, a+"/edit"), sv(g, a+"/none"), q(g, a[:len(a)-1]), "ckeys"}, Tag: "corpus-longkey"})
	}
	// InterceptAll with a target that a DYNAMIC route serves, the caching option given before it (mask 8) and after it
	// (mask 8+64): the intercepted lookups are cached like any other
	for _, hdr := range []string{"new 8 4 " + hx("/m/en"), "new 72 4 " + hx("/m/en")} {
		collide = append(collide, Case{Ops: []string{hdr, regOp(1, nil, "/m/{lang}", false), regOp(2, nil, "/x/{id}", false),
			q(g, "/x/1"), "ckeys", sv(g, "/anything"), "ckeys", q(g, "/x/1"), q(p, "/zz"), "ckeys"}, Tag: "corpus-intercept-cached"})
	}
	switch engine {
	case "route":
		return append(append([]Case{overlap("new 0 0 -"), gv("new 0 0 -"), gv("new 4 0 -")}, collide...), raCorpus2(engine)...)
	case "rcache":
		return append([]Case{
			// dynamic routes without variables: the params map of a hit is the one of a miss (empty, not nil)
			{Ops: []string{"new 8 3 -", regOp(1, nil, "/blog[/index]", false), regOp(2, nil, "/docs/about[.html]", false), regOp(3, nil, "/users/{id}", false), regOp(4, nil, "/posts[/{id}]", false),
				sv(g, "/users/7"), sv(g, "/blog/index"), sv(g, "/blog/index"), q(g, "/blog/index"), sv(g, "/docs/about.html"), sv("HEAD", "/docs/about.html"), q(g, "/posts"), q(g, "/posts"),
				q(g, "/blog"), q(g, "/blog"), sv(g, "/blog"), "ckeys"}},
			{Ops: []string{"new 8 1 -", regOpMut(1, nil, "/blog[/index]"), sv(g, "/blog/index"), sv(g, "/blog/index"), q(g, "/blog/index"), sv(g, "/blog"), sv(g, "/blog/index"), sv(g, "/blog/index"), "ckeys"}},
			overlap("new 8 2 -"), gv("new 8 3 -"),
		}, append(collide, raCorpus2(engine)...)...)
	}
	return raCorpus2(engine)
}
