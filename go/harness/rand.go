package main

// SplitMix64: every random choice of the harness derives from one state seeded by VERIF_SEED.
type Rand struct{ s uint64 }

// The state is the seed run through one output step: with the plain `seed*gamma + c` as state, the stream of
// seed k+1 is the stream of seed k shifted by one value, i.e. all seeds generate the same cases.
func NewRand(seed uint64) *Rand {
	r := &Rand{s: seed*0x9E3779B97F4A7C15 + 0x1234567}
	return &Rand{s: r.U64()}
}

func (r *Rand) U64() uint64 {
	r.s += 0x9E3779B97F4A7C15
	z := r.s
	z = (z ^ (z >> 30)) * 0xBF58476D1CE4E5B9
	z = (z ^ (z >> 27)) * 0x94D049BB133111EB
	return z ^ (z >> 31)
}

// Intn returns a value in [0, n).
func (r *Rand) Intn(n int) int {
	if n <= 0 {
		return 0
	}
	return int(r.U64() % uint64(n))
}

// Range returns a value in [lo, hi].
func (r *Rand) Range(lo, hi int) int { return lo + r.Intn(hi-lo+1) }

func (r *Rand) Bool() bool { return r.U64()&1 == 1 }

// Chance returns true with probability num/den.
func (r *Rand) Chance(num, den int) bool { return r.Intn(den) < num }

func (r *Rand) Pick(xs []string) string { return xs[r.Intn(len(xs))] }

func (r *Rand) PickInt(xs []int) int { return xs[r.Intn(len(xs))] }

// Fork derives an independent generator (used per case, so that a case replays from its own seed).
func (r *Rand) Fork() *Rand { return &Rand{s: r.U64()} }

func (r *Rand) Shuffle(n int, swap func(i, j int)) {
	for i := n - 1; i > 0; i-- {
		j := r.Intn(i + 1)
		swap(i, j)
	}
}
