package main

import (
	"bytes"
	"context"
	"encoding/base64"
	"fmt"
	"io"
	"mime/multipart"
	"net/http"
	"net/http/httptest"
	"net/url"
	"strings"

	"github.com/gookit/rux"
	"github.com/gookit/rux/pkg/handlers"
)

// engine gates (C20): HTTPBasicAuth, HTTPMethodOverrideHandler, WrapHTTPHandlers and the
// WrapHTTPHandler/WrapHTTPHandlerFunc adapters of the real code against Model/Gates.lean.
//
// Ops (see lean/RuxModel/Drv/Gates.lean for the grammar):
//
//	parse <hdr>                                 (*http.Request).BasicAuth on a real header
//	auth  <accounts> <hdr>                      route GET /p with HTTPBasicAuth(accounts) as middleware
//	authc <accounts> <u>:<p>|~                  the same, header produced by Request.SetBasicAuth
//	ovr   <d|r> <method> <hdr> <body> <query>   HTTPMethodOverrideHandler around a recording handler (d)
//	                                            or around a router through WrapHTTPHandlers (r); the `_method`
//	                                            form field travels in an urlencoded body (<body> = hex), in a
//	                                            multipart/form-data body (M<hex>: the field alone, N<hex>: a
//	                                            file-upload form) and/or in the query string
//	wrap  <specs> <times> <method> <hdr> <body> <query>
//	chain <nglobal> <handlers> <hdr>            a rux chain mixing native handlers, wrapped http.Handlers
//	                                            and HTTPBasicAuth
type gatesEngine struct{}

func init() { register(gatesEngine{}) }

func (gatesEngine) Name() string         { return "gates" }
func (gatesEngine) DriverEngine() string { return "gates" }

func (gatesEngine) Budget(tier string) int {
	if tier == "thorough" {
		return 100000
	}
	return 2500
}

/**************** wire helpers ****************/

// optional byte string: "~" = absent
func ohx(s string, present bool) string {
	if !present {
		return "~"
	}
	return hx(s)
}

func unohx(s string) (string, bool) {
	if s == "~" {
		return "", false
	}
	return mustUnhx(s), true
}

type account struct{ u, p string }

func accountsWire(as []account) string {
	if len(as) == 0 {
		return "-"
	}
	out := make([]string, len(as))
	for i, a := range as {
		out[i] = hx(a.u) + ":" + hx(a.p)
	}
	return strings.Join(out, ",")
}

func parsePairWire(s string) account {
	i := strings.IndexByte(s, ':')
	if i < 0 {
		panic("harness: bad pair " + s)
	}
	return account{mustUnhx(s[:i]), mustUnhx(s[i+1:])}
}

// the Go map of the account list: the first binding of a user counts (as in the model's `lookup`)
func accountsMap(s string) map[string]string {
	m := map[string]string{}
	if s == "-" {
		return m
	}
	for _, f := range strings.Split(s, ",") {
		a := parsePairWire(f)
		if _, ok := m[a.u]; !ok {
			m[a.u] = a.p
		}
	}
	return m
}

func b64(u, p string) string { return base64.StdEncoding.EncodeToString([]byte(u + ":" + p)) }

/**************** corpus ****************/

func (gatesEngine) Corpus() []Case {
	acc := accountsWire([]account{{"test", "123"}})
	acc2 := accountsWire([]account{{"test", "123"}, {"admin", ""}, {"", "nouser"}, {"test", "shadowed"}})
	h := func(s string) string { return hx(s) }
	var auth []string
	for _, a := range []string{"-", acc, acc2} {
		for _, hd := range []string{
			"~", "-",
			h("Basic " + b64("test", "123")), // the repo's own test
			h("Basic " + b64("test", "123err")),
			h("basic " + b64("test", "123")), // lower-case scheme
			h("BASIC " + b64("test", "123")),
			h("Basic " + b64("admin", "")),    // configured empty password
			h("Basic " + b64("nobody", "")),   // unknown user, empty password: absent != ""
			h("Basic " + b64("", "nouser")),   // empty user
			h("Basic " + b64("", "")),         // ":"
			h("Basic " + b64("test", "1:23")), // colon in the password
			h("Basic " + b64("test", "shadowed")),
			h("Basic " + base64.StdEncoding.EncodeToString([]byte("test123"))),          // no colon
			h("Basic " + strings.TrimRight(b64("test", "123x"), "=")),                   // padding removed
			h("Basic " + b64("test", "123") + "="),                                      // trailing garbage
			h("Basic !!!!"),                                                             // not base64
			h("Basic " + base64.URLEncoding.EncodeToString([]byte("test:\xfb\xff123"))), // url-safe alphabet
			h("Basic  " + b64("test", "123")),                                           // two spaces
			h("Basic" + b64("test", "123")),                                             // no space
			h("Basic"), h("Basic "), h("Basi"),
			h("Bearer " + b64("test", "123")),
			h("Digest username=\"test\""),
			h("Basic " + b64("test", "123")[:4] + "\r\n" + b64("test", "123")[4:]), // line break inside base64
			h("Basic " + b64("test", "123") + "\n"),
			h("Basic dGVzdDoxMjN="), // "test:123" with non-zero trailing bits (non-strict decoder)
			h("Basic test:123"),     // not encoded
		} {
			auth = append(auth, "parse "+hd, "auth "+a+" "+hd)
		}
	}
	auth = append(auth,
		"authc "+acc+" ~", "authc "+acc+" "+hx("test")+":"+hx("123"), "authc "+acc+" "+hx("test")+":"+hx(""),
		"authc - "+hx("")+":"+hx(""), "authc "+acc2+" "+hx("admin")+":"+hx(""), "authc "+acc2+" "+hx("x")+":"+hx(""),
		"authc "+acc+" "+hx("a:b")+":"+hx("c"))

	var ovr []string
	methods := []string{"GET", "POST", "PUT", "PATCH", "DELETE", "OPTIONS", "HEAD", "CONNECT", "TRACE", "post", "", "POSTX"}
	values := []string{"PUT", "put", "Patch", "dElEtE", "GET", "POST", "HEAD", "junk", "", " PUT", "PUT ", "PUTT"}
	for _, m := range methods {
		for _, v := range values {
			for _, mode := range []string{"d", "r"} {
				ovr = append(ovr,
					fmt.Sprintf("ovr %s %s %s ~ ~", mode, hx(m), hx(v)),
					fmt.Sprintf("ovr %s %s ~ %s ~", mode, hx(m), hx(v)),
					fmt.Sprintf("ovr %s %s ~ M%s ~", mode, hx(m), hx(v)),
					fmt.Sprintf("ovr %s %s ~ N%s ~", mode, hx(m), hx(v)),
					fmt.Sprintf("ovr %s %s ~ ~ %s", mode, hx(m), hx(v)))
			}
		}
	}
	ovr = append(ovr,
		// both carriers with different values: the form wins over the header, the body over the query
		"ovr d "+hx("POST")+" "+hx("DELETE")+" "+hx("put")+" ~",
		"ovr r "+hx("POST")+" "+hx("DELETE")+" "+hx("put")+" "+hx("patch"),
		"ovr d "+hx("POST")+" "+hx("DELETE")+" ~ "+hx("patch"),
		"ovr d "+hx("POST")+" "+hx("DELETE")+" "+hx("GET")+" ~", // invalid form value does NOT fall back to the header
		"ovr d "+hx("POST")+" "+hx("DELETE")+" - "+hx("put"),    // empty body value shadows the query value
		"ovr d "+hx("POST")+" "+hx("DELETE")+" - ~",             // empty form value: header is used
		"ovr r "+hx("POST")+" - - -",
		// the field of a multipart/form-data body: FormValue sees it, behind the query value, before the header
		"ovr d "+hx("POST")+" ~ M"+hx("put")+" ~",
		"ovr r "+hx("POST")+" ~ N"+hx("Delete")+" ~",
		"ovr d "+hx("POST")+" "+hx("DELETE")+" M"+hx("put")+" ~", // multipart field wins over the header
		"ovr d "+hx("POST")+" "+hx("DELETE")+" N"+hx("GET")+" ~", // invalid multipart value: no fall back to the header
		"ovr d "+hx("POST")+" "+hx("DELETE")+" M- ~",             // empty multipart value: header is used
		"ovr d "+hx("POST")+" ~ M"+hx("put")+" "+hx("patch"),     // the query value stands BEFORE the multipart value
		"ovr r "+hx("POST")+" ~ N"+hx("put")+" "+hx("GET"),       // ... even when it is invalid
		"ovr d "+hx("POST")+" "+hx("DELETE")+" N"+hx("put")+" -", // ... or empty (then the header is used)
		"ovr d "+hx("PUT")+" ~ M"+hx("delete")+" ~",              // not a POST: untouched
		"ovr d "+hx("POST")+" ~ M"+hx("PUT\n")+" ~",
		"ovr d "+hx("POST")+" "+hx("DELETſ")+" ~ ~", // U+017F upper-cases to S: "DELETS"
		"ovr d "+hx("POST")+" "+hx("ｐｕｔ")+" ~ ~",
		"ovr d "+hx("POST")+" "+hx("put\xff")+" ~ ~",
		"ovr d "+hx("POST")+" ~ "+hx("p&u=t;+ %")+" ~",
	)

	wrap := []string{
		"wrap t1 1 " + hx("GET") + " ~ ~ ~",
		"wrap t1,t2 3 " + hx("GET") + " ~ ~ ~", // the repo's own test shape, same slice three times
		"wrap t1,t2,t3,t4,t5,t6 2 " + hx("POST") + " ~ ~ ~",
		"wrap o 1 " + hx("POST") + " " + hx("put") + " ~ ~",
		"wrap t1,o,t2 2 " + hx("POST") + " ~ " + hx("delete") + " ~",
		"wrap t3,o,o,t1 2 " + hx("POST") + " " + hx("PATCH") + " ~ ~", // override twice: second sees PATCH, no-op
		"wrap t1,o,t2 2 " + hx("POST") + " ~ N" + hx("delete") + " ~", // file-upload form
		"wrap o,t1 1 " + hx("POST") + " " + hx("put") + " M" + hx("patch") + " ~",
		"wrap t1,x2,t3 2 " + hx("GET") + " ~ ~ ~",
		"wrap x1 1 " + hx("GET") + " ~ ~ ~",
		"wrap - 1 " + hx("GET") + " ~ ~ ~", // n = 0: nil handler (observation)
	}

	good := hx("Basic " + b64("test", "123"))
	bad := hx("Basic " + b64("test", "nope"))
	chain := []string{
		"chain 0 H,m1 ~",
		"chain 1 H,m1,n,m2/H,m3 ~",
		"chain 1 H,m1,n,m2/W0,m3,b" + hx("hi") + "/H,m4,n,m5/H,m6 ~", // the design's case: wrapped between native
		"chain 0 W0,m1/W1,m2/W2,m3/F0,m4/F1,m5/F2,m6/H,m7 ~",
		"chain 2 H,m1,n,m2/F0,s201,b" + hx("x") + "/H,m3 ~",
		"chain 0 W0,m1 ~", // a wrapped handler as the main handler
		"chain 1 H,m1,n,m2/A," + hx("test") + ":" + hx("123") + "/W0,m3/H,m4 " + good,
		"chain 1 H,m1,n,m2/A," + hx("test") + ":" + hx("123") + "/W0,m3/H,m4 " + bad,
		"chain 1 H,m1,n,m2/A," + hx("test") + ":" + hx("123") + "/W0,m3/H,m4 ~",
		"chain 0 A/H,m1 " + good, // no accounts configured: any credentials pass
		"chain 0 A/H,m1 ~",
		"chain 0 H,m1,a/W0,m2/H,m3 ~",                       // abort before the wrapped handler
		"chain 1 H,b" + hx("early") + ",n/A/H,m1 ~",         // body committed before the gate: status stays 200
		"chain 0 W0,s404,s500,b" + hx("a") + ",s201/H,m1 ~", // lazy status inside a wrapped handler
		"chain 0 H,n,n,m1/W1,m2/H,m3 ~",                     // Next twice
		"chain 0 F2,s0/H,m1 ~",
	}

	cs := []Case{
		{Ops: auth, Tag: "corpus-auth"},
		{Ops: ovr, Tag: "corpus-ovr"},
		{Ops: wrap, Tag: "corpus-wrap"},
		{Ops: chain, Tag: "corpus-chain"},
	}
	return cs
}

/**************** generators ****************/

var gUsers = []string{"test", "admin", "", "x", "a:b", "\xc3\xbcser", "test ", "Test"}
var gPwds = []string{"123", "", "secret", "Secret", "p:w", "123 ", "\xff\x00", "0"}

func genAccounts(r *Rand) []account {
	switch r.Intn(8) {
	case 0, 1:
		return nil
	case 2, 3, 4:
		return []account{{r.Pick(gUsers), r.Pick(gPwds)}}
	default:
		n := r.Range(2, 4)
		as := make([]account, n)
		for i := range as {
			as[i] = account{r.Pick(gUsers), r.Pick(gPwds)}
		}
		return as
	}
}

// credentials biased towards the case splits: configured user with the right / a wrong password,
// unknown user, empty parts
func genCreds(r *Rand, as []account) (string, string) {
	if len(as) > 0 && r.Chance(3, 5) {
		a := as[r.Intn(len(as))]
		switch r.Intn(5) {
		case 0, 1:
			return a.u, a.p
		case 2:
			return a.u, r.Pick(gPwds)
		case 3:
			return a.u, a.p + "x"
		default:
			return a.u, ""
		}
	}
	return r.Pick(gUsers), r.Pick(gPwds)
}

var b64Alphabet = "ABCDEFGHIJKLMNOPQRSTUVWXYZabcdefghijklmnopqrstuvwxyz0123456789+/"

func genHeader(r *Rand, as []account) (string, bool) {
	u, p := genCreds(r, as)
	enc := b64(u, p)
	scheme := r.Pick([]string{"Basic ", "Basic ", "Basic ", "basic ", "BASIC ", "bAsIc "})
	switch x := r.Intn(40); {
	case x < 3:
		return "", false
	case x < 4:
		return "", true
	case x < 22:
		return scheme + enc, true
	case x < 23:
		return "Basic" + enc, true
	case x < 24:
		return scheme + " " + enc, true
	case x < 25:
		return r.Pick([]string{"Bearer ", "Digest ", "Basic\t", "Basic", "Basi", "Basic ", "Negotiate ", "Basic:"}) + r.Pick([]string{"", enc}), true
	case x < 26:
		return scheme + base64.StdEncoding.EncodeToString([]byte(u+p)), true // maybe no colon
	case x < 27:
		return scheme + strings.TrimRight(enc, "="), true
	case x < 28:
		return scheme + enc + r.Pick([]string{"=", "==", "A", " ", "\n", "\r\n", "\t"}), true
	case x < 29:
		return scheme + base64.URLEncoding.EncodeToString([]byte(u+":"+p+"\xfb\xef\xff")), true
	case x < 30:
		return scheme + base64.RawStdEncoding.EncodeToString([]byte(u+":"+p)), true
	case x < 31:
		return scheme + u + ":" + p, true
	case x < 33: // line breaks inside the base64 text are skipped by the decoder
		i := r.Intn(len(enc) + 1)
		return scheme + enc[:i] + r.Pick([]string{"\n", "\r", "\r\n", "\n\n"}) + enc[i:], true
	case x < 36: // one-character mutation of a well-formed header
		s := []byte(scheme + enc)
		i := r.Intn(len(s))
		switch r.Intn(3) {
		case 0:
			s[i] = byte(r.Pick([]string{"=", "A", "-", "_", " ", ":", "\x00", "\xff", "b", "B"})[0])
		case 1:
			s = append(s[:i], s[i+1:]...)
		default:
			s = append(s[:i], append([]byte{b64Alphabet[r.Intn(64)]}, s[i:]...)...)
		}
		return string(s), true
	case x < 38: // random base64 text of random length (all remainders mod 4), random padding
		n := r.Range(0, 12)
		b := make([]byte, n)
		for i := range b {
			b[i] = b64Alphabet[r.Intn(64)]
		}
		return scheme + string(b) + r.Pick([]string{"", "", "=", "=="}), true
	default: // arbitrary bytes
		n := r.Range(0, 14)
		b := make([]byte, n)
		for i := range b {
			b[i] = byte(r.Intn(256))
		}
		if r.Bool() {
			return scheme + string(b), true
		}
		return string(b), true
	}
}

var gMethods9 = []string{"GET", "POST", "PUT", "PATCH", "DELETE", "OPTIONS", "HEAD", "CONNECT", "TRACE"}
var gJunkMethods = []string{"", "post", "Post", "POS", "POSTX", "FOO", " POST", "POST ", "get"}
var gOverride = []string{
	"PUT", "put", "Put", "pUt", "PATCH", "patch", "pAtCh", "DELETE", "delete", "Delete",
	"GET", "get", "POST", "post", "HEAD", "OPTIONS", "CONNECT", "TRACE",
	"junk", "PUTT", "PU", " PUT", "PUT ", "PUT\n", "DELETE,PUT", "", "\xff", "put\x00",
	"DELETſ", "ＰＵＴ", "pıtch", "PÜT", "PATCH",
	"p&u=t", "a+b %41", "PATCH;", "_method",
}

func gatesGenMethod(r *Rand) string {
	switch x := r.Intn(20); {
	case x < 10:
		return "POST"
	case x < 18:
		return r.Pick(gMethods9)
	default:
		return r.Pick(gJunkMethods)
	}
}

// carriers of the override value: header / body / query string, any subset. A body carries the form field
// url-encoded (bare hex) or as a field of a multipart/form-data body (M = the field alone, N = a file-upload
// form), about 45 % of the bodies are multipart.
func genCarriers(r *Rand) string {
	one := func(chance int) string {
		if r.Chance(chance, 10) {
			return hx(r.Pick(gOverride))
		}
		return "~"
	}
	body := func(chance int) string {
		b := one(chance)
		if b == "~" {
			return b
		}
		switch x := r.Intn(20); {
		case x < 5:
			return "M" + b
		case x < 9:
			return "N" + b
		}
		return b
	}
	switch r.Intn(6) {
	case 0:
		return one(10) + " ~ ~"
	case 1:
		return "~ " + body(10) + " ~"
	case 2:
		return "~ ~ " + one(10)
	default:
		return one(5) + " " + body(5) + " " + one(4)
	}
}

func genWrapSpecs(r *Rand, tier string) string {
	max := 6
	if tier == "thorough" && r.Chance(1, 5) {
		max = 12
	}
	n := r.Range(1, max)
	if r.Chance(1, 40) {
		return "-"
	}
	perm := make([]int, 20)
	for i := range perm {
		perm[i] = i + 1
	}
	r.Shuffle(len(perm), func(i, j int) { perm[i], perm[j] = perm[j], perm[i] })
	out := make([]string, n)
	for i := range out {
		switch x := r.Intn(12); {
		case x < 9:
			out[i] = fmt.Sprintf("t%d", perm[i])
		case x < 11:
			out[i] = "o"
		default:
			out[i] = fmt.Sprintf("x%d", perm[i])
		}
	}
	return strings.Join(out, ",")
}

var gStatus = []int{200, 201, 202, 400, 401, 403, 404, 418, 500, 0}

func genEffects(r *Rand, mark *int) []string {
	var acts []string
	n := r.Range(0, 3)
	for i := 0; i < n; i++ {
		switch r.Intn(5) {
		case 0, 1, 2:
			*mark++
			acts = append(acts, fmt.Sprintf("m%d", *mark))
		case 3:
			acts = append(acts, fmt.Sprintf("s%d", r.PickInt(gStatus)))
		default:
			acts = append(acts, "b"+hx(r.Pick([]string{"a", "bc", "", "\x00\xff"})))
		}
	}
	return acts
}

func genChain(r *Rand, tier string) string {
	max := 6
	if tier == "thorough" && r.Chance(1, 4) {
		max = 12
	}
	n := r.Range(1, max)
	mark := 0
	hs := make([]string, n)
	var accs []account
	for i := range hs {
		switch x := r.Intn(20); {
		case x < 8: // native
			var acts []string
			switch r.Intn(8) {
			case 0, 1, 2: // onion
				mark += 2
				acts = []string{fmt.Sprintf("m%d", mark-1), "n", fmt.Sprintf("m%d", mark)}
			case 3: // flat
				mark++
				acts = []string{fmt.Sprintf("m%d", mark)}
			case 4: // abort
				mark++
				acts = []string{fmt.Sprintf("m%d", mark), "a"}
				if r.Bool() {
					acts = append(acts, "n")
				}
			default:
				k := r.Range(0, 4)
				for j := 0; j < k; j++ {
					switch r.Intn(6) {
					case 0, 1:
						acts = append(acts, "n")
					case 2:
						if r.Chance(1, 3) {
							acts = append(acts, "a")
						}
					default:
						acts = append(acts, genEffects(r, &mark)...)
					}
				}
			}
			hs[i] = strings.Join(append([]string{"H"}, acts...), ",")
		case x < 17: // wrapped generic handler, all six adapters
			kind := r.Pick([]string{"W0", "W1", "W2", "F0", "F1", "F2"})
			hs[i] = strings.Join(append([]string{kind}, genEffects(r, &mark)...), ",")
		default:
			accs = genAccounts(r)
			f := []string{"A"}
			for _, a := range accs {
				f = append(f, hx(a.u)+":"+hx(a.p))
			}
			hs[i] = strings.Join(f, ",")
		}
	}
	hd, present := genHeader(r, accs)
	return fmt.Sprintf("chain %d %s %s", r.Intn(n), strings.Join(hs, "/"), ohx(hd, present))
}

func (gatesEngine) Gen(r *Rand, tier string) Case {
	kind := r.Intn(10)
	n := r.Range(4, 16)
	if tier == "thorough" {
		n = r.Range(4, 40)
	}
	var ops []string
	tag := ""
	switch {
	case kind < 4: // auth + parser
		tag = "auth"
		as := genAccounts(r)
		aw := accountsWire(as)
		for i := 0; i < n; i++ {
			if r.Chance(1, 6) {
				as = genAccounts(r)
				aw = accountsWire(as)
			}
			if r.Chance(1, 5) {
				if r.Chance(1, 8) {
					ops = append(ops, "authc "+aw+" ~")
				} else {
					u, p := genCreds(r, as)
					ops = append(ops, "authc "+aw+" "+hx(u)+":"+hx(p))
				}
				continue
			}
			hd, present := genHeader(r, as)
			ops = append(ops, "parse "+ohx(hd, present), "auth "+aw+" "+ohx(hd, present))
		}
	case kind < 7:
		tag = "override"
		for i := 0; i < n; i++ {
			ops = append(ops, fmt.Sprintf("ovr %s %s %s", r.Pick([]string{"d", "r"}), hx(gatesGenMethod(r)), genCarriers(r)))
		}
	case kind < 8:
		tag = "wrap"
		for i := 0; i < n/2+1; i++ {
			ops = append(ops, fmt.Sprintf("wrap %s %d %s %s", genWrapSpecs(r, tier), r.Range(1, 3), hx(gatesGenMethod(r)), genCarriers(r)))
		}
	default:
		tag = "chain"
		for i := 0; i < n/2+1; i++ {
			ops = append(ops, genChain(r, tier))
		}
	}
	return Case{Ops: ops, Tag: tag}
}

/**************** running on the real code ****************/

func showWWW(res *http.Response) string {
	vs, ok := res.Header["Www-Authenticate"]
	if !ok || len(vs) == 0 {
		return "~"
	}
	return hx(vs[0])
}

func ctxString(c *rux.Context, key string) string {
	v, ok := c.Get(key)
	if !ok {
		return "~"
	}
	s, ok := v.(string)
	if !ok {
		return "?"
	}
	return hx(s)
}

// one request through GET /p guarded by HTTPBasicAuth(accounts)
func runAuth(accounts map[string]string, setHeader func(*http.Request)) (string, []string) {
	var oracle []string
	r := rux.New()
	ran, user, pwd := false, "~", "~"
	r.GET("/p", func(c *rux.Context) {
		ran = true
		user, pwd = ctxString(c, "username"), ctxString(c, "password")
	}, handlers.HTTPBasicAuth(accounts))
	req := httptest.NewRequest("GET", "/p", nil)
	setHeader(req)
	w := httptest.NewRecorder()
	r.ServeHTTP(w, req)
	res := w.Result()
	www := showWWW(res)
	// the property's clauses, directly on the implementation's output
	if !ran && w.Code != 401 && w.Code != 403 {
		oracle = append(oracle, fmt.Sprintf("C20 basic auth: request denied with status %d (neither 401 nor 403)", w.Code))
	}
	if ran && (w.Code == 401 || w.Code == 403) {
		oracle = append(oracle, fmt.Sprintf("C20 basic auth: downstream handler ran although the status is %d", w.Code))
	}
	if w.Code == 401 && www == "~" {
		oracle = append(oracle, "C20 basic auth: 401 without a WWW-Authenticate challenge")
	}
	if _, _, ok := req.BasicAuth(); !ok && (ran || w.Code != 401) {
		oracle = append(oracle, fmt.Sprintf("C20 basic auth: no credentials but ran=%v status=%d", ran, w.Code))
	}
	outcome := "pass"
	if !ran {
		outcome = fmt.Sprintf("deny%d", w.Code)
	}
	// the decision depends on the credentials only: the same gate in front of a route for every method gives the same
	// verdict to a POST, a HEAD, and an OPTIONS request that looks like a CORS preflight
	for _, v := range [][2]string{{"POST", ""}, {"HEAD", ""}, {"OPTIONS", "GET"}, {"OPTIONS", ""}, {"DELETE", "PUT"}} {
		r2 := rux.New()
		ran2 := false
		r2.Any("/p", func(c *rux.Context) { ran2 = true }, handlers.HTTPBasicAuth(accounts))
		rq := httptest.NewRequest(v[0], "/p", nil)
		setHeader(rq)
		if v[1] != "" {
			rq.Header.Set("Access-Control-Request-Method", v[1])
			rq.Header.Set("Origin", "https://app.example")
		}
		w2 := httptest.NewRecorder()
		r2.ServeHTTP(w2, rq)
		if ran2 != ran || (!ran && w2.Code != w.Code) {
			oracle = append(oracle, fmt.Sprintf("C20 basic auth: the same credentials are answered ran=%v status=%d on GET but ran=%v status=%d on %s (Access-Control-Request-Method %q)", ran, w.Code, ran2, w2.Code, v[0], v[1]))
			break
		}
	}
	// the gated route reached by a re-dispatch: a middleware of another route rewrites the path and hands the context to
	// Router.HandleContext (and then simply returns).  The gate decides as for the direct request and the protected
	// handler runs exactly as often (0 or 1 times).
	{
		r4 := rux.New()
		runs := 0
		r4.GET("/p", func(c *rux.Context) { runs++ }, handlers.HTTPBasicAuth(accounts))
		r4.GET("/fwd", func(c *rux.Context) {}, func(c *rux.Context) {
			c.Req.URL.Path = "/p"
			c.Router().HandleContext(c)
		})
		rq := httptest.NewRequest("GET", "/fwd", nil)
		setHeader(rq)
		w4 := httptest.NewRecorder()
		r4.ServeHTTP(w4, rq)
		want := 0
		if ran {
			want = 1
		}
		if runs != want || (!ran && w4.Code != w.Code) {
			oracle = append(oracle, fmt.Sprintf("C20 basic auth: reached through HandleContext the gated handler ran %d times with status %d; asked directly ran=%v status=%d", runs, w4.Code, ran, w.Code))
		}
	}
	// the gate used as a plain http.Handler (rux.HandlerFunc has ServeHTTP) and mounted back with rux.WrapH: the status it
	// decides on reaches the client as for the direct request (a status-only 403 is committed when the inner call ends)
	{
		r5 := rux.New()
		r5.GET("/p", func(c *rux.Context) {}, rux.WrapH(rux.HandlerFunc(handlers.HTTPBasicAuth(accounts))))
		rq := httptest.NewRequest("GET", "/p", nil)
		setHeader(rq)
		w5 := httptest.NewRecorder()
		r5.ServeHTTP(w5, rq)
		if w5.Code != w.Code {
			oracle = append(oracle, fmt.Sprintf("C20 basic auth: the gate mounted as an http.Handler (WrapH(HandlerFunc(gate))) answers status %d, the gate used directly %d", w5.Code, w.Code))
		}
	}
	// the account list is the caller's map: a gate that was built on an empty map which the application fills afterwards
	// (accounts loaded at start-up, after the routes were declared) gives the verdict of the filled list
	if len(accounts) > 0 {
		late := map[string]string{}
		r3 := rux.New()
		ran3 := false
		r3.GET("/p", func(c *rux.Context) { ran3 = true }, handlers.HTTPBasicAuth(late))
		for k, v := range accounts {
			late[k] = v
		}
		rq := httptest.NewRequest("GET", "/p", nil)
		setHeader(rq)
		w3 := httptest.NewRecorder()
		r3.ServeHTTP(w3, rq)
		if ran3 != ran || (!ran && w3.Code != w.Code) {
			oracle = append(oracle, fmt.Sprintf("C20 basic auth: the gate built before its account map was filled answers ran=%v status=%d, the gate built on the filled map ran=%v status=%d", ran3, w3.Code, ran, w.Code))
		}
	}
	return fmt.Sprintf("%s ran=%s status=%d www=%s user=%s pwd=%s", outcome, b2s(ran), w.Code, www, user, pwd), oracle
}

// the request of the ovr / wrap ops
func overrideRequest(method string, f []string) *http.Request {
	hdr, hasHdr := unohx(f[0])
	mpart := byte(0)
	btok := f[1]
	if btok != "" && (btok[0] == 'M' || btok[0] == 'N') {
		mpart, btok = btok[0], btok[1:]
	}
	body, hasBody := unohx(btok)
	query, hasQuery := unohx(f[2])
	target := "/m"
	if hasQuery {
		target += "?" + handlers.HTTPMethodOverrideFormKey + "=" + url.QueryEscape(query)
	}
	var req *http.Request
	if hasBody && mpart != 0 {
		ctype, b := overrideMultipart(mpart == 'N', body)
		req = httptest.NewRequest("POST", target, strings.NewReader(b))
		req.Header.Set("Content-Type", ctype)
	} else if hasBody {
		req = httptest.NewRequest("POST", target, strings.NewReader(handlers.HTTPMethodOverrideFormKey+"="+url.QueryEscape(body)))
		req.Header.Set("Content-Type", "application/x-www-form-urlencoded")
	} else {
		req = httptest.NewRequest("POST", target, nil)
	}
	req.Method = method
	if hasHdr {
		req.Header.Set(handlers.HTTPMethodOverrideHeader, hdr)
	}
	return req
}

// a multipart/form-data body that carries the `_method` field exactly once: alone, or the way a browser sends
// a form with a file input (a text field before, the file part after). The boundary is fixed (determinism).
func overrideMultipart(upload bool, val string) (ctype, body string) {
	const boundary = "XGATESBOUNDARYX"
	var b bytes.Buffer
	mw := multipart.NewWriter(&b)
	if err := mw.SetBoundary(boundary); err != nil {
		panic("harness: " + err.Error())
	}
	if upload {
		_ = mw.WriteField("name", "inhere")
	}
	_ = mw.WriteField(handlers.HTTPMethodOverrideFormKey, val)
	if upload {
		fw, _ := mw.CreateFormFile("avatar", "a.txt")
		_, _ = fw.Write([]byte("file content\r\n_method=DELETE\r\n"))
	}
	_ = mw.Close()
	return mw.FormDataContentType(), b.String()
}

func seenRequest(req *http.Request) string {
	orig := "~"
	if v := req.Context().Value(handlers.OriginalMethodContextKey); v != nil {
		if s, ok := v.(string); ok {
			orig = hx(s)
		} else {
			orig = "?"
		}
	}
	return hx(req.Method) + ":" + orig
}

// a router whose every outcome (route, 404, 405) records the request it saw
func recordingRouter(rec func(string)) *rux.Router {
	r := rux.New()
	h := func(c *rux.Context) { rec("S" + seenRequest(c.Req)) }
	r.Any("/m", h)
	r.NotFound(h)
	r.NotAllowed(h)
	return r
}

func runOvr(mode, method string, f []string) (string, []string) {
	var seen []string
	rec := func(s string) { seen = append(seen, s) }
	var h http.Handler
	if mode == "d" {
		h = handlers.HTTPMethodOverrideHandler(http.HandlerFunc(func(w http.ResponseWriter, r *http.Request) {
			rec("S" + seenRequest(r))
		}))
	} else {
		h = recordingRouter(rec).WrapHTTPHandlers(handlers.HTTPMethodOverrideHandler)
	}
	h.ServeHTTP(httptest.NewRecorder(), overrideRequest(method, f))
	if len(seen) != 1 {
		return fmt.Sprintf("ran%d", len(seen)), nil
	}
	parts := strings.SplitN(seen[0][1:], ":", 2)
	m2 := mustUnhx(parts[0])
	var oracle []string
	if m2 != method {
		if method != "POST" || (m2 != "PUT" && m2 != "PATCH" && m2 != "DELETE") || parts[1] != hx("POST") {
			oracle = append(oracle, fmt.Sprintf("C20 override: %q rewritten to %q (original recorded: %s)", method, m2, parts[1]))
		}
	} else if parts[1] != "~" {
		oracle = append(oracle, fmt.Sprintf("C20 override: method %q untouched but an original method is recorded", method))
	}
	cls := "kept"
	if m2 != method {
		cls = "rewritten"
	}
	return cls + " method=" + parts[0] + " orig=" + parts[1], oracle
}

func runWrap(specs string, times int, method string, f []string) (string, []string) {
	var trace []string
	rec := func(s string) { trace = append(trace, s) }
	router := recordingRouter(rec)
	var pre []func(http.Handler) http.Handler
	if specs != "-" {
		for _, s := range strings.Split(specs, ",") {
			s := s
			switch s[0] {
			case 't':
				pre = append(pre, func(h http.Handler) http.Handler {
					return http.HandlerFunc(func(w http.ResponseWriter, r *http.Request) {
						rec("e" + s[1:])
						h.ServeHTTP(w, r)
						rec("l" + s[1:])
					})
				})
			case 'x':
				pre = append(pre, func(h http.Handler) http.Handler {
					return http.HandlerFunc(func(w http.ResponseWriter, r *http.Request) {
						rec("e" + s[1:])
						rec("l" + s[1:])
					})
				})
			case 'o':
				pre = append(pre, handlers.HTTPMethodOverrideHandler)
			default:
				panic("harness: bad wrapper spec " + s)
			}
		}
	}
	if len(pre) == 0 {
		if h := router.WrapHTTPHandlers(pre...); h == nil {
			return "n0 ;; nil", nil
		}
		return "n0 ;; handler", nil
	}
	// the SAME slice is handed over every time: the caller's slice must not be reordered
	var out []string
	for i := 0; i < times; i++ {
		trace = nil
		h := router.WrapHTTPHandlers(pre...)
		h.ServeHTTP(httptest.NewRecorder(), overrideRequest(method, f))
		out = append(out, strings.Join(trace, "."))
	}
	return fmt.Sprintf("calls=%d ", times) + strings.Join(out, "|"), nil
}

func runChain(nglobal int, spec string, hdrTok string) (string, []string) {
	var trace []string
	rec := func(s string) { trace = append(trace, s) }
	parts := strings.Split(spec, "/")
	if nglobal+1 > len(parts) {
		return "bad-op", nil
	}
	// effects available to every kind of handler: they only need the ResponseWriter
	effect := func(i int, act string, w http.ResponseWriter) {
		switch act[0] {
		case 'm':
			rec(fmt.Sprintf("o%dm%s", i, act[1:]))
		case 's':
			w.WriteHeader(atoi(act[1:]))
		case 'b':
			if i%2 == 1 { // every other handler writes its body the way io.WriteString / fmt.Fprint do
				_, _ = io.WriteString(w, mustUnhx(act[1:]))
			} else {
				_, _ = w.Write([]byte(mustUnhx(act[1:])))
			}
		default:
			panic("harness: bad act " + act)
		}
	}
	hs := make([]rux.HandlerFunc, len(parts))
	ctxLost, lostBy := false, 0
	for i, p := range parts {
		i := i
		f := strings.Split(p, ",")
		kind, acts := f[0], f[1:]
		var inner rux.HandlerFunc
		generic := func(w http.ResponseWriter, r *http.Request) {
			// a wrapped std handler takes part in the chain like a native one: it gets the request of the chain, with
			// the request context (values stored by outer wrappers under typed keys) a native handler sees in c.Req
			if v, _ := r.Context().Value(gatesCtxKey{}).(string); v != "outer" && !ctxLost {
				ctxLost = true
				lostBy = i
			}
			for _, a := range acts {
				effect(i, a, w)
			}
		}
		switch kind {
		case "H":
			inner = func(c *rux.Context) {
				for _, a := range acts {
					switch a {
					case "n":
						c.Next()
					case "a":
						c.Abort()
					default:
						effect(i, a, c.Resp)
					}
				}
			}
		case "W0":
			inner = rux.WrapHTTPHandler(http.HandlerFunc(generic))
		case "W1":
			inner = rux.WrapH(http.HandlerFunc(generic))
		case "W2":
			inner = rux.HTTPHandler(http.HandlerFunc(generic))
		case "F0":
			inner = rux.WrapHTTPHandlerFunc(generic)
		case "F1":
			inner = rux.WrapHF(generic)
		case "F2":
			inner = rux.HTTPHandlerFunc(generic)
		case "A":
			m := map[string]string{}
			for _, a := range acts {
				ac := parsePairWire(a)
				if _, ok := m[ac.u]; !ok {
					m[ac.u] = ac.p
				}
			}
			inner = handlers.HTTPBasicAuth(m)
		default:
			panic("harness: bad handler kind " + kind)
		}
		hs[i] = func(c *rux.Context) {
			rec(fmt.Sprintf("e%d", i))
			defer rec(fmt.Sprintf("l%d", i))
			inner(c)
		}
	}
	r := rux.New()
	if nglobal > 0 {
		r.Use(hs[:nglobal]...)
	}
	last := len(hs) - 1
	r.GET("/p", hs[last], hs[nglobal:last]...)
	serve := func(done bool) string {
		trace = nil
		req := httptest.NewRequest("GET", "/p", nil)
		cx := context.WithValue(req.Context(), gatesCtxKey{}, "outer")
		if done {
			var cancel context.CancelFunc
			cx, cancel = context.WithCancel(cx)
			cancel()
		}
		req = req.WithContext(cx)
		if v, ok := unohx(hdrTok); ok {
			req.Header.Set("Authorization", v)
		}
		w := httptest.NewRecorder()
		r.ServeHTTP(w, req)
		return fmt.Sprintf("st%d trace=%s www=%s ;; body=%s", w.Code, strings.Join(trace, "."), showWWW(w.Result()), hx(w.Body.String()))
	}
	ans := serve(false)
	var orc []string
	if ctxLost {
		orc = append(orc, fmt.Sprintf("C20 adapters: the std handler wrapped at chain position %d did not get the request context of the chain (a value stored under a typed key by an outer wrapper is gone)", lostBy))
	}
	// an adapter calls its handler with (c.Resp, c.Req) - nothing else: the chain does the same when the request's
	// context is already cancelled (a client that went away; whether to still answer is the wrapped handler's decision)
	if ans2 := serve(true); ans2 != ans {
		orc = append(orc, fmt.Sprintf("C20 adapters: with a cancelled request context the chain answers %q, otherwise %q", ans2, ans))
	}
	return ans, orc
}

type gatesCtxKey struct{}

func (gatesEngine) Run(ops []string) (ans []string, oracle []string) {
	for _, op := range ops {
		f := strings.Fields(op)
		var orc []string
		a := func() (res string) {
			defer func() {
				if v := recover(); v != nil {
					res = panicClass(v)
				}
			}()
			switch {
			case f[0] == "parse" && len(f) == 2:
				req := httptest.NewRequest("GET", "/", nil)
				if v, ok := unohx(f[1]); ok {
					req.Header.Set("Authorization", v)
				}
				u, p, ok := req.BasicAuth()
				if !ok {
					return "none"
				}
				return "some " + hx(u) + " " + hx(p)
			case f[0] == "auth" && len(f) == 3:
				res, orc = runAuth(accountsMap(f[1]), func(req *http.Request) {
					if v, ok := unohx(f[2]); ok {
						req.Header.Set("Authorization", v)
					}
				})
				return res
			case f[0] == "authc" && len(f) == 3:
				res, orc = runAuth(accountsMap(f[1]), func(req *http.Request) {
					if f[2] != "~" {
						a := parsePairWire(f[2])
						req.SetBasicAuth(a.u, a.p)
					}
				})
				return res
			case f[0] == "ovr" && len(f) == 6:
				res, orc = runOvr(f[1], mustUnhx(f[2]), f[3:6])
				return res
			case f[0] == "wrap" && len(f) == 7:
				res, orc = runWrap(f[1], atoi(f[2]), mustUnhx(f[3]), f[4:7])
				return res
			case f[0] == "chain" && len(f) == 4:
				res, orc = runChain(atoi(f[1]), f[2], f[3])
				return res
			}
			return "bad-op"
		}()
		ans = append(ans, a)
		for _, o := range orc {
			oracle = append(oracle, o+" after "+op)
		}
	}
	return
}
