package main

import (
	"fmt"
	"hash/adler32"
	"hash/crc32"
	"hash/fnv"
	"sync"
)

// Keys that collide under the 32-bit hash functions a cache index is likely to be keyed by (FNV-1a, FNV-1, CRC-32 IEEE,
// CRC-32C, Adler-32): a cache that indexes by such a hash and does not compare the key itself confuses them.
// The search is a birthday search over `prefix + <counter in hex>`; it is deterministic and done once per prefix.

var (
	collideMu    sync.Mutex
	collideCache = map[string][][2]string{}
)

func hash32s(k string) [5]uint32 {
	a := fnv.New32a()
	_, _ = a.Write([]byte(k))
	b := fnv.New32()
	_, _ = b.Write([]byte(k))
	return [5]uint32{a.Sum32(), b.Sum32(), crc32.ChecksumIEEE([]byte(k)), crc32.Checksum([]byte(k), crc32.MakeTable(crc32.Castagnoli)), adler32.Checksum([]byte(k))}
}

// collidingSuffixes returns, per hash function (at most one pair each), two different suffixes s1, s2 such that
// prefix+s1 and prefix+s2 have the same hash.
func collidingSuffixes(prefix string) [][2]string {
	collideMu.Lock()
	defer collideMu.Unlock()
	if v, ok := collideCache[prefix]; ok {
		return v
	}
	var out [][2]string
	seen := [5]map[uint32]string{{}, {}, {}, {}, {}}
	found := [5]bool{}
	nfound := 0
	for i := 0; i < 600000 && nfound < 5; i++ {
		// ids that look like random hex tokens (short counters have too much structure for FNV to collide early)
		z := uint64(i)*0x9E3779B97F4A7C15 + 0x1234567
		z = (z ^ (z >> 30)) * 0xBF58476D1CE4E5B9
		z = (z ^ (z >> 27)) * 0x94D049BB133111EB
		z ^= z >> 31
		s := fmt.Sprintf("%010x", z&0xFFFFFFFFFF)
		h := hash32s(prefix + s)
		for f := 0; f < 5; f++ {
			if found[f] {
				continue
			}
			if other, ok := seen[f][h[f]]; ok {
				out = append(out, [2]string{other, s})
				found[f] = true
				nfound++
			} else {
				seen[f][h[f]] = s
			}
		}
	}
	collideCache[prefix] = out
	return out
}
