package main

import (
	"bufio"
	"fmt"
	"net"
	"net/http"
	"net/http/httptest"
	"strconv"
	"strings"

	"github.com/gookit/rux"
)

// Additions to the engines `panic` and `ctx` (engine_dispatch.go): requests that are in flight at the same time
// on one goroutine, and hijacked connections.
//
//   nr:<n>   the handler (or the OnPanic / OnError hook) serves a NESTED request through the same router
//            (router.ServeHTTP(rec2, req2) - an internal sub-request) and goes on afterwards: two requests are in
//            flight at once.  n = id of the route to GET (values va/vb), else a URL nobody registered.  Nested
//            requests do not nest further.
//   hj       the handler hijacks the connection (c.Resp.(http.Hijacker).Hijack(); the recording writer implements
//            http.Hijacker over a net.Pipe) and closes it.  Route handlers only.
//
// Both are outside the Lean dispatch model (Drv/Dispatch.lean answers `unsupported` for the requests that can
// execute them; every other request of the history is compared as always).  Oracles on the implementation:
//   * pooled context: the context a nested request runs on is not the context of the request that is still
//     running (pointer identity);
//   * the fresh-router twin (every request, nested parts included, equals the same request as first request on a
//     fresh identical router) and the pristine dump of C10, as before.

type dnState struct {
	depth int          // > 0 while a nested request is being served
	outer *rux.Context // the context of the request that issued it
	used  bool         // the current request has served a nested request or hijacked its connection
}

// dnInFlight is called when a request is first seen on its context.
func (cs *dcase) dnInFlight(c *rux.Context) {
	if cs.dn.depth > 0 && c == cs.dn.outer && !cs.isTwin {
		cs.oracle = append(cs.oracle, fmt.Sprintf("pooled context: the request nested in request %d runs on the context of request %d, which has not finished (the pool handed out a context that is in use)", cs.seq, cs.seq))
	}
}

func (cs *dcase) dnNested(outer *rux.Context, n int, pos string) {
	if cs.dn.depth > 0 {
		cs.tr("N" + pos + ".deep")
		return
	}
	url := "/nfn" + strconv.Itoa(n)
	if rt := cs.routes[n]; rt != nil {
		url = routeURL(rt, "va", "vb")
	}
	if !cs.isTwin {
		dispStat("nested_requests", 1)
	}
	// the bookkeeping of the outer request is put aside; trace and writer log go on (the nested events are part of
	// what the outer request did)
	svCtx, svReq, svRec, svActs, svData, svParam, svErr := cs.curCtx, cs.curReq, cs.curRec, cs.actions, cs.expData, cs.expParam, cs.expErr
	cs.expErr = nil
	defer func() {
		cs.curCtx, cs.curReq, cs.curRec, cs.actions, cs.expData, cs.expParam, cs.expErr = svCtx, svReq, svRec, svActs, svData, svParam, svErr
		cs.dn.depth--
	}()
	cs.dn.depth++
	cs.dn.outer, cs.dn.used = outer, true
	cs.curCtx, cs.actions = nil, 1 // actions = 1: a dump in the nested request is not taken for the first one of the outer
	cs.curReq = httptest.NewRequest("GET", url, nil)
	if cs.curReq.URL.RawQuery == "" {
		cs.curReq.URL.RawQuery = "page=1&token=abc"
	}
	cs.curRec = &dispRecWriter{cs: cs, alt: 90 + n%10, hdr: http.Header{}}
	cs.tr("N" + pos + ".in")
	cs.router.ServeHTTP(cs.curRec, cs.curReq) // a panic that escapes it is a panic of the outer handler
	cs.tr("N" + pos + ".out")
}

// Hijack makes the recording writer an http.Hijacker: the connection is one end of a net.Pipe.
func (w *dispRecWriter) Hijack() (net.Conn, *bufio.ReadWriter, error) {
	w.cs.log = append(w.cs.log, "HJ:"+w.tag())
	a, b := net.Pipe()
	_ = b.Close()
	return a, bufio.NewReadWriter(bufio.NewReader(a), bufio.NewWriter(a)), nil
}

func (cs *dcase) dnHijack(c *rux.Context, pos string) {
	hj, ok := c.Resp.(http.Hijacker)
	if !ok {
		cs.tr("J" + pos + ".no")
		return
	}
	if !cs.isTwin {
		dispStat("hijacked_requests", 1)
	}
	cs.dn.used = true // a hijacked response is never committed by the router: outside the containment clauses
	conn, _, err := hj.Hijack()
	if conn != nil {
		_ = conn.Close()
	}
	cs.tr("J" + pos + "." + b2s(err == nil))
}

func dnHasHJ(toks []string) bool {
	for _, t := range toks {
		for _, a := range strings.Split(t, ",") {
			if a == "hj" {
				return true
			}
		}
	}
	return false
}

/**************** corpus ****************/

func dnPanicCorpus() []Case {
	boom := "pn:s." + hx("boom")
	return []Case{
		// a panic recovered by the hook, then a request whose handler serves a sub-request through the router while it
		// is running (two requests in flight): each runs on its own context
		{Ops: []string{"new 0 0", "route 1 s 0 " + boom, "route 2 s 0 em:1,nr:3,wr:" + hx("slow"), "route 3 s 0 wr:" + hx("fast"), "onpanic ss:500", "serve r 1 - -", "serve r 2 - -", "serve r 3 - -", "serve r 2 - -"}, Tag: "corpus-nested"},
		// nested requests from a global middleware, to a 404 and to a panicking route, with and without hook
		{Ops: []string{"new 1 1", "use em:1,nr:0,nx", "route 1 d1 0 nr:2,em:2", "route 2 s 0 em:3," + boom, "notfound em:4", "onpanic ss:500,wr:" + hx("oops"), "serve r 1 7661 -", "serve r 2 - -", "serve r 1 7661 -", "nopanic", "serve r 1 7661 -", "serve nf 0"}, Tag: "corpus-nested"},
	}
}

func dnCtxCorpus() []Case {
	return []Case{
		// the OnPanic hook serves a nested request (an error page rendered through the router, a report) before it
		// answers: the nested request must not get the context of the request that is being recovered
		{Ops: []string{"new 0 0", "use dp,nx", "route 1 s 0 st:6b:76,pn:s.78", "route 2 s 0 wr:" + hx("page"), "onpanic nr:2,st:" + hx("leak") + ":31,ae:6531,ab,ss:500,wr:" + hx("panic page"), "serve r 1 - -", "serve r 2 - -", "serve r 1 - -"}, Tag: "corpus-nested-hook"},
		{Ops: []string{"new 1 1", "route 1 d1 0 dp,pn:e.6572", "notfound dp,em:1", "onerror nr:0", "route 2 s 0 dp,ae:6531", "onpanic em:1,nr:0,wr:" + hx("x"), "serve r 1 7661 -", "serve nf 0", "serve r 2 - -", "serveh r 1 7661 -"}, Tag: "corpus-nested-hook"},
		// two contexts alive at once, each with an error of its own: the outer handler records an error, serves a nested
		// request whose handler records another one, and then looks at its own error list again
		{Ops: []string{"new 0 0", "use dp,nx", "route 1 s 0 ae:" + hx("e1") + ",nr:2,dp,ae:" + hx("e3") + ",dp", "route 2 s 0 ae:" + hx("e2") + ",dp", "serve r 1 - -", "serve r 2 - -", "serve r 1 - -"}, Tag: "corpus-nested-errors"},
		{Ops: []string{"new 0 1", "route 1 d1 1 ae:" + hx("e1") + ",nx,dp ae:" + hx("e4") + ",nr:2,dp", "route 2 s 0 ae:" + hx("e2") + ",ae:" + hx("e5") + ",dp", "onerror dp", "serve r 1 7661 -", "serve r 1 7662 -"}, Tag: "corpus-nested-errors"},
		// a request that hijacks its connection, then requests that only set a status, write a body, hit 404 / 405
		{Ops: []string{"new 0 1", "route 1 s 0 dp,hj", "route 2 s 0 dp,ss:201,wr:" + hx("created"), "route 3 s 0 dp,ss:204", "serve r 1 - -", "serve r 2 - -", "serve r 1 - -", "serve r 3 - -", "serve nf 0", "serve na 1 - -", "serve r 1 - -", "serve r 3 - -"}, Tag: "corpus-hijack"},
	}
}

/**************** generator streams (drawn after everything else of the case) ****************/

// dnPanicStream (panic engine, one case in five): one or two handlers serve a nested request while they run; the
// history is extended, so that this happens after earlier requests have panicked and been recovered.
func dnPanicStream(g *dgen, c *dconf, ops []string, tag string) ([]string, string) {
	r := g.r
	if !r.Chance(1, 5) {
		return ops, tag
	}
	target := func() string {
		if r.Chance(1, 4) {
			return "nr:0"
		}
		return "nr:" + strconv.Itoa(c.routes[r.Intn(len(c.routes))].id)
	}
	// the configuration lines are rewritten in place (they are rendered already)
	var cand []int
	for i, op := range ops {
		if strings.HasPrefix(op, "route ") {
			cand = append(cand, i, i, i)
		} else if strings.HasPrefix(op, "use ") && op != "use PH" || strings.HasPrefix(op, "notfound ") {
			cand = append(cand, i)
		}
	}
	for k, n := 0, r.Range(1, 2); k < n; k++ {
		i := cand[r.Intn(len(cand))]
		f := strings.Fields(ops[i])
		first := 1
		if f[0] == "route" {
			first = 4
		}
		j := r.Range(first, len(f)-1)
		if f[j] == "PH" {
			continue
		}
		var acts []string
		if f[j] != "-" {
			acts = strings.Split(f[j], ",")
		}
		acts = insertAt(acts, r.Intn(len(acts)+1), target())
		f[j] = strings.Join(acts, ",")
		ops[i] = strings.Join(f, " ")
	}
	for i, n := 0, r.Range(2, 4); i < n; i++ {
		ops = append(ops, g.anyServe(c))
	}
	return ops, tag + "+nested"
}

// dnCtxStreams (ctx engine): one case in six - the OnPanic hook (installed if there is none) serves a nested request
// before or between its other actions, some route panics and is requested several times; one case in eight - a
// route handler hijacks the connection, followed by requests whose answer depends on the status being committed.
func dnCtxStreams(g *dgen, c *dconf, serves *[]string) string {
	r := g.r
	tag := ""
	if r.Chance(1, 6) {
		c.hasHook = true
		n := 0
		if r.Chance(3, 4) {
			n = c.routes[r.Intn(len(c.routes))].id
		}
		c.hook = insertAt(c.hook, r.Intn(len(c.hook)+1), "nr:"+strconv.Itoa(n))
		rt := &c.routes[r.Intn(len(c.routes))]
		h := &rt.hs[r.Intn(len(rt.hs))]
		*h = insertAt(*h, len(*h), "pn:"+r.Pick(dispPVals))
		for i, k := 0, r.Range(2, 3); i < k; i++ {
			*serves = append(*serves, g.serveOp(c, "r", rt), g.anyServe(c))
		}
		tag += " nested-hook"
	}
	if r.Chance(1, 8) {
		rt := &c.routes[r.Intn(len(c.routes))]
		h := &rt.hs[len(rt.hs)-1]
		lo := 0
		if len(*h) > 0 && (*h)[0] == "dp" {
			lo = 1
		}
		*h = insertAt(*h, r.Range(lo, len(*h)), "hj")
		for i, k := 0, r.Range(2, 3); i < k; i++ {
			*serves = append(*serves, g.serveOp(c, "r", rt), g.anyServe(c), g.anyServe(c))
		}
		tag += " hijack"
	}
	return tag
}
