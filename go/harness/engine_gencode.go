package main

import (
	"errors"
	"fmt"
	"net/http"
	"net/http/httptest"
	"sort"
	"strconv"
	"strings"

	"github.com/gookit/rux"
	"github.com/gookit/rux/pkg/render"
)

// engine gencode: a sampled check of the TRANSLATOR. The model side is not the hand-written model but the Lean
// definitions that go/go2lean generated from /repo on this run (lean/RuxModel/Generated/Code.lean, run by the second
// driver executable `gendriver`); the implementation side calls the very functions they were translated from,
// directly (hooks of the `verif` build tag) or through the public API. Parameters of a translation are instantiated
// as in the tie theorems (findVars, replaceAll, UTF-8 validity, countGroups), so the `compile` inputs stay inside the
// regexp fragment those stand for.
//
//	fmtpath <0|1> <s> | simplefmt <s> | fixed <s> | quote <s> | optional <s> | methods <list> <def> | supported <s>
//	compile <path>           -> ok <first> <start> <spath> <regex> <names> | panic
//	build <path> <k=v,...>   -> <path> <sorted query pairs>          (NewBuildRequestURL().Path(p).Build(M))
//	cnew <cap> | cset <k> <id> | cget <k> | cdel <k> | chas <k> | clen | ckeys      (cachedRoutes)
//	comb <n1> <n2> | pclone <nil|-|k=v,…> | rcopy <name> <path> <methods> <nmw> <params> | wopt <routes> <opts of New> <opts of WithOptions>
//	rinit <ct|-> <n:e,...> | rblob <ct> <data> | rtext <data> | rhtml <data> | rjson | rjsonp <cb> | rxml | rauto <accept> | rst
//	     (pkg/render on a plain recording writer; the value rendered is the string "x"; only the error flags of the script count)
//	winit <n:e,...> | wh <code> | wr <bytes> | fl | wst                              (responseWriter, through a Context
//	     initialised on a recording writer whose answers to Write are scripted: accepted bytes, error or not)
type gencodeEngine struct{}

func init() { register(gencodeEngine{}) }

func (gencodeEngine) Name() string         { return "gencode" }
func (gencodeEngine) DriverEngine() string { return "gencode" }

func (gencodeEngine) Budget(tier string) int {
	if tier == "thorough" {
		return 12000
	}
	return 1500
}

func gcTF(b bool) string {
	if b {
		return "true"
	}
	return "false"
}

func gcPairs(m map[string]string) string {
	if len(m) == 0 {
		return "-"
	}
	type kv struct{ k, v string }
	var l []kv
	for k, v := range m {
		l = append(l, kv{k, v})
	}
	sort.Slice(l, func(i, j int) bool {
		if l[i].k != l[j].k {
			return l[i].k < l[j].k
		}
		return l[i].v < l[j].v
	})
	var out []string
	for _, x := range l {
		out = append(out, hx(x.k)+"="+hx(x.v))
	}
	return strings.Join(out, ",")
}

func (gencodeEngine) Corpus() []Case {
	c := func(ops ...string) Case { return Case{Ops: ops, Tag: "corpus"} }
	p := func(s string) string { return hx(s) }
	return []Case{
		c("fmtpath 0 "+p("/a//b/"), "fmtpath 1 "+p("/a/"), "fmtpath 0 "+p(""), "fmtpath 0 "+p(" a / "), "fmtpath 1 "+p("//"),
			"fmtpath 0 "+p("/a\u00a0/"), "simplefmt "+p(" a/"), "simplefmt "+p(""), "simplefmt "+p("/"), "fixed "+p("/{id}"),
			"fixed "+p("/a[/b]"), "fixed "+p("/a.b"), "quote "+p("/v1.0/a..b"), "quote "+p(".a"), "quote "+p("/ab")),
		c("optional "+p("/a[/b]"), "optional "+p("/a[/b[/c]]"), "optional "+p("/a[/b]/c"), "optional "+p("/a]"), "optional "+p("/a[b"),
			"methods "+hxList([]string{"get", " Post ", ""})+" "+p("GET"), "methods - "+p("GET"), "methods "+hxList([]string{"ANY"})+" "+p("GET"),
			"supported "+p("GET"), "supported "+p("get"), "supported "+p("COPY"), "supported "+p("")),
		c("compile "+p("/users/{id:\\d+}/blog[/{slug}]"), "compile "+p("/a/{id:(\\d+)}"), "compile "+p("/{all}"), "compile "+p("/v1.2/{name}.json"),
			"compile "+p("/a[/b]"), "compile "+p("/a[/b]/c"), "compile "+p("/blog/{id}/"), "compile "+p("/x/{a}-{b:[a-z]+}"),
			"compile "+p("/{lang:(?:en|fr)}/docs"), "compile "+p("/f/{p:.+}"), "compile "+p("/a/{ id : \\w+ }"), "compile "+p("/a/{num}/b[/{any}[/{x:\\d{2}}]]")),
		c("build "+p("/u/{id}")+" "+gcPairs(map[string]string{"{id}": "42", "q": "1"}), "build "+p("/u/{id:\\d+}/{n}")+" "+gcPairs(map[string]string{"{id}": "7", "{n}": "{id}"}),
			"build "+p("/static")+" -", "build "+p("/u/{id}")+" "+gcPairs(map[string]string{"page": "2", "sort": "a b"})),
		c("cnew 2", "cset "+p("GET/a")+" 1", "cset "+p("GET/b")+" 2", "cget "+p("GET/a"), "cset "+p("GET/c")+" 3", "ckeys", "clen", "chas "+p("GET/b"),
			"cdel "+p("GET/a"), "cdel "+p("GET/a"), "cget "+p("GET/zz"), "cset "+p("GET/c")+" 9", "cget "+p("GET/c"), "ckeys"),
		c("rinit - -", "rblob "+p("image/png")+" "+p("abc"), "rst", "rtext "+p(""), "rst", "rinit "+p("text/x-custom")+" -", "rjson", "rst", "rjsonp "+p("cb"), "rst",
			"rinit - 0:1", "rjsonp "+p("cb"), "rst", "rinit - 0:0,0:1", "rxml", "rst", "rinit - -", "rauto "+p("image/png, text/xml"), "rst",
			"rinit - -", "rauto "+p("image/png"), "rst", "rinit - -", "rauto "+p(""), "rst", "rinit - -", "rauto "+p("text/html"), "rst"),
		c("winit -", "wst", "wh 404", "wst", "wr "+p("ab"), "wst", "wh 500", "wr "+p(""), "fl", "wst"),
		c("winit 1:0,5:1", "wr "+p("abc"), "wr "+p("de"), "wst", "winit -", "fl", "wst", "wh 0", "wh -1", "wr "+p("x"), "wst"),
		c("cnew 0", "cset "+p("k")+" 1", "clen", "ckeys", "cget "+p("k"), "cnew 1", "cset "+p("k")+" 1", "cset "+p("k")+" 2", "cget "+p("k"), "clen"),
	}
}

func gcRandPath(r *Rand) string {
	n := r.Intn(9)
	var sb strings.Builder
	for i := 0; i < n; i++ {
		sb.WriteString(pathTokens[r.Intn(len(pathTokens))])
	}
	return sb.String()
}

func (gencodeEngine) Gen(r *Rand, tier string) Case {
	var ops []string
	switch r.Intn(8) {
	case 7: // combineHandlers, Params.clone, copyWithParams, New/WithOptions
		kv := func() string {
			switch r.Intn(5) {
			case 0:
				return "nil"
			case 1:
				return "-"
			}
			m := map[string]string{}
			for i, n := 0, r.Range(1, 4); i < n; i++ {
				m[r.Pick([]string{"id", "name", "a", "all", "é", "x y"})] = r.Pick([]string{"1", "", "abc", "a/b", "é", " "})
			}
			return gcPairs(m)
		}
		opts := func() string {
			var o []string
			for i, n := 0, r.Intn(4); i < n; i++ {
				switch r.Intn(8) {
				case 0:
					o = append(o, "enc")
				case 1:
					o = append(o, "cache")
				case 2:
					o = append(o, "strict")
				case 3:
					o = append(o, "fb")
				case 4:
					o = append(o, "mna")
				case 5:
					o = append(o, "icpt:"+hx(r.Pick([]string{"/x", " /a/ ", "", "maintenance"})))
				case 6:
					o = append(o, "max:"+strconv.Itoa(r.PickInt([]int{0, 1, 7, 1000, 65535})))
				default:
					o = append(o, "cnum:"+strconv.Itoa(r.PickInt([]int{0, 1, 2, 50})))
				}
			}
			if len(o) == 0 {
				return "-"
			}
			return strings.Join(o, ",")
		}
		urlArgs := func() string {
			var l []string
			for i, n := 0, r.Range(1, 4); i < n; i++ {
				l = append(l, hx(r.Pick([]string{"{id}", "{n}", "q", "{id}", "page"}))+"="+hx(r.Pick([]string{"7", "", "a b", "{n}", "x"})))
			}
			return strings.Join(l, ",")
		}
		for i, n := 0, r.Range(3, 8); i < n; i++ {
			switch r.Intn(5) {
			case 4:
				spec := "none"
				switch r.Intn(6) {
				case 0:
				case 1, 2:
					spec = "m:" + urlArgs()
				case 3:
					spec = "p:" + urlArgs()
				case 4:
					spec = "o:" + urlArgs()
				default:
					spec = "s:" + hx(r.Pick([]string{"x", "", "{id}"}))
				}
				ops = append(ops, "tourl "+hx(r.Pick([]string{"/u/{id}", "/u/{id:\\d+}/{n}", "/static", "/{n}/x-{id}"}))+" "+spec)
			case 0:
				ops = append(ops, fmt.Sprintf("comb %d %d", r.PickInt([]int{0, 0, 1, 2, 5, 30}), r.PickInt([]int{0, 1, 1, 3, 33})))
			case 1:
				ops = append(ops, "pclone "+kv())
			case 2:
				ms := r.Pick([]string{"-", hx("GET"), hx("GET") + "," + hx("POST"), hx("PUT") + "," + hx("PATCH") + "," + hx("DELETE")})
				ops = append(ops, fmt.Sprintf("rcopy %s %s %s %d %s", hx(r.Pick([]string{"", "user", "a.b"})),
					hx(r.Pick([]string{"/u/{id}", "/blog[/{cat}]", "/f/{p:.+}", "/{a}/{b:\\d+}"})), ms, r.Intn(4), kv()))
			default:
				ops = append(ops, fmt.Sprintf("wopt %d %s %s", r.PickInt([]int{0, 0, 1, 2}), opts(), opts()))
			}
		}
		return Case{Ops: ops, Tag: "config"}
	case 6: // pkg/render
		for i, n := 0, r.Range(1, 3); i < n; i++ {
			var sc []string
			for k, m := 0, r.Intn(4); k < m; k++ {
				sc = append(sc, "0:"+strconv.Itoa(r.PickInt([]int{0, 0, 0, 1})))
			}
			scs := "-"
			if len(sc) > 0 {
				scs = strings.Join(sc, ",")
			}
			ops = append(ops, "rinit "+hx(r.Pick([]string{"", "", "text/x-custom", "application/json"}))+" "+scs)
			for k, m := 0, r.Range(1, 3); k < m; k++ {
				switch r.Intn(8) {
				case 0:
					ops = append(ops, "rblob "+hx(r.Pick([]string{"image/png", "text/plain; charset=utf-8", ""}))+" "+hx(r.Pick([]string{"", "abc", "x"})))
				case 1:
					ops = append(ops, "rtext "+hx(r.Pick([]string{"", "hello"})))
				case 2:
					ops = append(ops, "rhtml "+hx(r.Pick([]string{"", "<b>x</b>"})))
				case 3:
					ops = append(ops, "rjson")
				case 4:
					ops = append(ops, "rjsonp "+hx(r.Pick([]string{"cb", "", "a.b"})))
				case 5:
					ops = append(ops, "rxml")
				default:
					ops = append(ops, "rauto "+hx(r.Pick([]string{"", "application/json", "text/html", "text/plain", "application/xml", "text/xml",
						"image/png", "image/png, application/json", "text/html;q=0.9, application/xml", "*/*", " application/json ; q=1 ,text/plain",
						"application/json;charset=utf-8", ",,", "text/plain,application/json"})))
				}
				ops = append(ops, "rst")
			}
		}
		return Case{Ops: ops, Tag: "render"}
	case 5: // responseWriter
		var sc []string
		for i, n := 0, r.Intn(4); i < n; i++ {
			sc = append(sc, strconv.Itoa(r.PickInt([]int{0, 1, 2, 5, 100}))+":"+strconv.Itoa(r.PickInt([]int{0, 0, 0, 1})))
		}
		scs := "-"
		if len(sc) > 0 {
			scs = strings.Join(sc, ",")
		}
		ops = append(ops, "winit "+scs)
		for i, n := 0, r.Range(2, 10); i < n; i++ {
			switch r.Intn(8) {
			case 0, 1:
				ops = append(ops, "wh "+strconv.Itoa(r.PickInt([]int{200, 201, 404, 500, 0, -1, 204, 302})))
			case 2, 3, 4:
				ops = append(ops, "wr "+hx(r.Pick([]string{"", "a", "hello", "xyz12"})))
			case 5:
				ops = append(ops, "fl")
			default:
				ops = append(ops, "wst")
			}
		}
		ops = append(ops, "wst")
		return Case{Ops: ops, Tag: "writer"}
	case 0: // path helpers on raw byte strings (the alphabet of the path engine) and on patterns
		for i, n := 0, r.Range(6, 20); i < n; i++ {
			s := gcRandPath(r)
			if r.Chance(1, 3) {
				s = genPattern(r, i, nil).pattern
				if r.Chance(1, 3) {
					s = mutatePath(r, s)
				}
			}
			switch r.Intn(5) {
			case 0:
				ops = append(ops, "fmtpath "+strconv.Itoa(r.Intn(2))+" "+hx(s))
			case 1:
				ops = append(ops, "simplefmt "+hx(s))
			case 2:
				ops = append(ops, "fixed "+hx(s))
			case 3:
				ops = append(ops, "quote "+hx(s))
			default:
				ops = append(ops, "optional "+hx(s))
			}
		}
		return Case{Ops: ops, Tag: "path"}
	case 1: // methods
		ms := []string{"GET", "get", " post", "PUT ", "Patch", "DELETE", "HEAD", "OPTIONS", "CONNECT", "TRACE", "ANY", "any", "", "COPY", "G ET"}
		for i, n := 0, r.Range(4, 12); i < n; i++ {
			if r.Bool() {
				k := r.Intn(5)
				l := make([]string, k)
				for j := range l {
					l[j] = r.Pick(ms)
				}
				ops = append(ops, "methods "+hxList(l)+" "+hx(r.Pick([]string{"GET", "POST"})))
			} else {
				ops = append(ops, "supported "+hx(r.Pick(ms)))
			}
		}
		return Case{Ops: ops, Tag: "methods"}
	case 2: // the pattern compiler on generated patterns (formatted as registration does), some of them damaged
		for i, n := 0, r.Range(3, 10); i < n; i++ {
			pat := genPattern(r, i, nil).pattern
			switch r.Intn(8) {
			case 0:
				if i := strings.Index(pat, ":"); i > 0 { // a capturing group around the rest of a variable regex
					if j := strings.Index(pat[i:], "}"); j > 0 && !strings.ContainsAny(pat[i:i+j], "{[") {
						pat = pat[:i+1] + "(" + pat[i+1:i+j] + ")" + pat[i+j:]
					}
				}
			case 1:
				pat = pat + "[/x]/y" // optional part not at the end
			case 2:
				pat = strings.Replace(pat, "}", ".x}", 1)
			}
			ops = append(ops, "compile "+hx(rux.VerifFormatPath(r.Bool(), pat)))
		}
		return Case{Ops: ops, Tag: "compile"}
	case 3: // Build
		for i, n := 0, r.Range(2, 6); i < n; i++ {
			g := genPattern(r, i, nil)
			args := map[string]string{}
			for _, lv := range g.levels {
				for _, pc := range lv {
					if pc.v != nil && r.Chance(4, 5) {
						args["{"+pc.v.name+"}"] = r.Pick([]string{"1", "ab", "a b", "x/y", "{z}", "", "é"})
					}
				}
			}
			for k, m := 0, r.Intn(3); k < m; k++ {
				args[r.Pick([]string{"q", "page", "sort", "id", "a b"})] = r.Pick([]string{"1", "", "x y", "é", "{id}"})
			}
			ops = append(ops, "build "+hx(g.pattern)+" "+gcPairs(args))
		}
		return Case{Ops: ops, Tag: "build"}
	default: // cachedRoutes
		cap := r.PickInt([]int{0, 1, 2, 3, 5})
		ops = append(ops, "cnew "+strconv.Itoa(cap))
		keys := []string{"GET/a", "GET/b", "POST/a", "GET/c", "HEAD/a", "GET/d"}
		for i, n := 0, r.Range(6, 30); i < n; i++ {
			k := hx(r.Pick(keys))
			switch r.Intn(9) {
			case 0, 1, 2:
				ops = append(ops, "cset "+k+" "+strconv.Itoa(r.Intn(50)))
			case 3, 4:
				ops = append(ops, "cget "+k)
			case 5:
				ops = append(ops, "cdel "+k)
			case 6:
				ops = append(ops, "chas "+k)
			case 7:
				ops = append(ops, "clen")
			default:
				ops = append(ops, "ckeys")
			}
		}
		ops = append(ops, "ckeys", "clen")
		return Case{Ops: ops, Tag: "lru-cap" + strconv.Itoa(cap)}
	}
}

// gcParseParams: "nil" = a nil map, "-" = an empty one, otherwise hex pairs k=v,...
func gcParseParams(s string) (rux.Params, bool) {
	if s == "nil" {
		return nil, true
	}
	p := rux.Params{}
	if s == "-" {
		return p, true
	}
	for _, kv := range strings.Split(s, ",") {
		k, v, ok := strings.Cut(kv, "=")
		if !ok {
			return nil, false
		}
		ks, ok1 := unhxDash(k)
		vs, ok2 := unhxDash(v)
		if !ok1 || !ok2 {
			return nil, false
		}
		p[ks] = vs
	}
	return p, true
}

func unhxDash(s string) (string, bool) {
	if s == "-" {
		return "", true
	}
	return unhx(s)
}

func gcParseOpts(s string) ([]func(*rux.Router), bool) {
	if s == "-" {
		return nil, true
	}
	var out []func(*rux.Router)
	for _, o := range strings.Split(s, ",") {
		name, arg, _ := strings.Cut(o, ":")
		switch name {
		case "enc":
			out = append(out, rux.UseEncodedPath)
		case "cache":
			out = append(out, rux.EnableCaching)
		case "strict":
			out = append(out, rux.StrictLastSlash)
		case "fb":
			out = append(out, rux.HandleFallbackRoute)
		case "mna":
			out = append(out, rux.HandleMethodNotAllowed)
		case "icpt":
			v, ok := unhxDash(arg)
			if !ok {
				return nil, false
			}
			out = append(out, rux.InterceptAll(v))
		case "max":
			out = append(out, rux.MaxNumCaches(uint16(atoi(arg))))
		case "cnum":
			out = append(out, rux.CachingWithNum(uint16(atoi(arg))))
		default:
			return nil, false
		}
	}
	return out, true
}

// gcRec is the http.ResponseWriter below rux: it records the calls it receives and answers Write from a script
type gcRec struct {
	hdr    http.Header
	log    []string
	script [][2]int
}

func (w *gcRec) Header() http.Header { return w.hdr }
func (w *gcRec) WriteHeader(c int)   { w.log = append(w.log, "wh:"+strconv.Itoa(c)) }
func (w *gcRec) Flush()              { w.log = append(w.log, "fl") }
func (w *gcRec) Write(b []byte) (int, error) {
	n, e := len(b), 0
	if len(w.script) > 0 {
		n, e = w.script[0][0], w.script[0][1]
		w.script = w.script[1:]
		if n > len(b) {
			n = len(b)
		}
	}
	w.log = append(w.log, "wr:"+hx(string(b))+":"+strconv.Itoa(n)+":"+strconv.Itoa(e))
	if e == 1 {
		return n, errors.New("write failed")
	}
	return n, nil
}

// gcPlain is a plain http.ResponseWriter for pkg/render: it records the writes and fails them as the script says
type gcPlain struct {
	hdr    http.Header
	log    []string
	script []bool
}

func (w *gcPlain) Header() http.Header { return w.hdr }
func (w *gcPlain) WriteHeader(int)     {}
func (w *gcPlain) Write(b []byte) (int, error) {
	w.log = append(w.log, "wr:"+hx(string(b)))
	k := len(w.log) - 1
	if k < len(w.script) && w.script[k] {
		return len(b), errors.New("write failed")
	}
	return len(b), nil
}

type gcCache interface {
	Set(k string, v *rux.Route) bool
	Get(k string) (*rux.Route, bool)
	Delete(k string) bool
	Has(k string) bool
	Len() int
	VerifKeys() []string
}

func (gencodeEngine) Run(ops []string) (ans []string, oracle []string) {
	var cache gcCache = rux.NewCachedRoutes(0)
	ids := map[*rux.Route]int{}
	byID := map[int]*rux.Route{}
	routeOf := func(id int) *rux.Route {
		if rt, ok := byID[id]; ok {
			return rt
		}
		rt := rux.NewRoute("/r"+strconv.Itoa(id), nil)
		byID[id], ids[rt] = rt, id
		return rt
	}
	pw := &gcPlain{hdr: http.Header{}}
	perr := false
	rec := &gcRec{hdr: http.Header{}}
	ctx := &rux.Context{}
	ctx.Init(rec, httptest.NewRequest("GET", "/", nil))
	for _, op := range ops {
		f := strings.Fields(op)
		a := func() (res string) {
			defer func() {
				if v := recover(); v != nil {
					res = "panic"
				}
			}()
			if len(f) == 0 {
				return "bad-op"
			}
			arg := func(i int) string { return mustUnhx(f[i]) }
			switch {
			case f[0] == "fmtpath" && len(f) == 3:
				return hx(rux.VerifFormatPath(f[1] == "1", arg(2)))
			case f[0] == "simplefmt" && len(f) == 2:
				return hx(rux.VerifSimpleFmtPath(arg(1)))
			case f[0] == "fixed" && len(f) == 2:
				return gcTF(rux.VerifIsFixedPath(arg(1)))
			case f[0] == "quote" && len(f) == 2:
				return hx(rux.VerifQuotePointChar(arg(1)))
			case f[0] == "optional" && len(f) == 2:
				return hx(rux.VerifCheckAndParseOptional(arg(1)))
			case f[0] == "methods" && len(f) == 3:
				var l []string
				if f[1] != "-" {
					for _, p := range strings.Split(f[1], ",") {
						l = append(l, mustUnhx(p))
					}
				}
				return hxList(rux.VerifFormatMethods(l, arg(2)))
			case f[0] == "supported" && len(f) == 2:
				return gcTF(rux.VerifIsSupportedMethod(arg(1)))
			case f[0] == "compile" && len(f) == 2:
				first, start, spath, regex, names := rux.VerifParseParamRoute(arg(1))
				return "ok " + hx(first) + " " + hx(start) + " " + hx(spath) + " " + hx(regex) + " " + hxList(names)
			case f[0] == "build" && len(f) == 3:
				m := rux.M{}
				if f[2] != "-" {
					for _, kv := range strings.Split(f[2], ",") {
						p := strings.SplitN(kv, "=", 2)
						m[mustUnhx(p[0])] = mustUnhx(p[1])
					}
				}
				u := rux.NewBuildRequestURL().Path(arg(1)).Build(m)
				q := map[string]string{}
				for k, vs := range u.Query() {
					q[k] = vs[0]
				}
				return hx(u.Path) + " " + gcPairs(q)
			case f[0] == "rinit" && len(f) == 3:
				pw = &gcPlain{hdr: http.Header{}}
				perr = false
				if ct := arg(1); ct != "" {
					pw.hdr.Set("Content-Type", ct)
				}
				if f[2] != "-" {
					for _, x := range strings.Split(f[2], ",") {
						pw.script = append(pw.script, strings.Split(x, ":")[1] == "1")
					}
				}
				return "ok"
			case f[0] == "rblob" && len(f) == 3:
				perr = render.Blob(pw, arg(1), []byte(arg(2))) != nil
				return "ok"
			case f[0] == "rtext" && len(f) == 2:
				perr = render.Text(pw, arg(1)) != nil
				return "ok"
			case f[0] == "rhtml" && len(f) == 2:
				perr = render.HTML(pw, arg(1)) != nil
				return "ok"
			case f[0] == "rjson" && len(f) == 1:
				perr = render.JSONRenderer{}.Render(pw, "x") != nil
				return "ok"
			case f[0] == "rjsonp" && len(f) == 2:
				perr = render.JSONPRenderer{Callback: arg(1)}.Render(pw, "x") != nil
				return "ok"
			case f[0] == "rxml" && len(f) == 1:
				perr = render.XMLRenderer{}.Render(pw, "x") != nil
				return "ok"
			case f[0] == "rauto" && len(f) == 2:
				req := httptest.NewRequest("GET", "/", nil)
				if a := arg(1); a != "" {
					req.Header.Set("Accept", a)
				}
				perr = render.Auto(pw, req, "x") != nil
				return "ok"
			case f[0] == "rst" && len(f) == 1:
				l := "-"
				if len(pw.log) > 0 {
					l = strings.Join(pw.log, ",")
				}
				return hx(pw.hdr.Get("Content-Type")) + " " + gcTF(perr) + " " + l
			case f[0] == "winit" && len(f) == 2:
				rec = &gcRec{hdr: http.Header{}}
				if f[1] != "-" {
					for _, x := range strings.Split(f[1], ",") {
						p := strings.Split(x, ":")
						rec.script = append(rec.script, [2]int{atoi(p[0]), atoi(p[1])})
					}
				}
				ctx = &rux.Context{}
				ctx.Init(rec, httptest.NewRequest("GET", "/", nil))
				return "ok"
			case f[0] == "wh" && len(f) == 2:
				ctx.Resp.WriteHeader(atoi(f[1]))
				return "ok"
			case f[0] == "wr" && len(f) == 2:
				n, err := ctx.Resp.Write([]byte(arg(1)))
				e := "0"
				if err != nil {
					e = "1"
				}
				return strconv.Itoa(n) + " " + e
			case f[0] == "fl" && len(f) == 1:
				ctx.Resp.(http.Flusher).Flush()
				return "ok"
			case f[0] == "wst" && len(f) == 1:
				l := "-"
				if len(rec.log) > 0 {
					l = strings.Join(rec.log, ",")
				}
				return strconv.Itoa(ctx.StatusCode()) + " " + strconv.Itoa(ctx.Length()) + " " +
					gcTF(ctx.Resp.(interface{ Written() bool }).Written()) + " " + l
			case f[0] == "cnew" && len(f) == 2:
				cache = rux.NewCachedRoutes(atoi(f[1]))
				return "ok"
			case f[0] == "cset" && len(f) == 3:
				return gcTF(cache.Set(arg(1), routeOf(atoi(f[2]))))
			case f[0] == "cget" && len(f) == 2:
				rt, ok := cache.Get(arg(1))
				if !ok {
					return "miss"
				}
				if rt == nil {
					return "nil"
				}
				return strconv.Itoa(ids[rt])
			case f[0] == "cdel" && len(f) == 2:
				return gcTF(cache.Delete(arg(1)))
			case f[0] == "chas" && len(f) == 2:
				return gcTF(cache.Has(arg(1)))
			case f[0] == "tourl" && len(f) == 3:
				rt := rux.NewRoute(arg(1), nil)
				kind, rest, _ := strings.Cut(f[2], ":")
				var args []any
				switch kind {
				case "none":
				case "m":
					p, ok := gcParseParams(rest)
					if !ok {
						return "bad-op"
					}
					m := rux.M{}
					for k, v := range p {
						m[k] = v
					}
					args = []any{m}
				case "p", "o":
					if rest != "-" {
						for _, kv := range strings.Split(rest, ",") {
							k, v, ok := strings.Cut(kv, "=")
							if !ok {
								return "bad-op"
							}
							ks, ok1 := unhxDash(k)
							vs, ok2 := unhxDash(v)
							if !ok1 || !ok2 {
								return "bad-op"
							}
							args = append(args, ks, vs)
						}
					}
					if kind == "o" && len(args) > 0 {
						args = args[:len(args)-1]
					}
				case "s":
					v, ok := unhxDash(rest)
					if !ok {
						return "bad-op"
					}
					args = []any{v}
				default:
					return "bad-op"
				}
				return hx(rt.ToURL(args...).Path)
			case f[0] == "comb" && len(f) == 3:
				order := rux.VerifCombineHandlers(atoi(f[1]), atoi(f[2]))
				if len(order) == 0 {
					return "-"
				}
				out := make([]string, len(order))
				for i, v := range order {
					out[i] = strconv.Itoa(v)
				}
				return strings.Join(out, ",")
			case f[0] == "pclone" && len(f) == 2:
				p, ok := gcParseParams(f[1])
				if !ok {
					return "bad-op"
				}
				cl := rux.VerifParamsClone(p)
				if cl == nil {
					return "nil"
				}
				return gcPairs(cl)
			case f[0] == "rcopy" && len(f) == 6:
				ps, ok := gcParseParams(f[5])
				if !ok {
					return "bad-op"
				}
				var ms []string
				if f[3] != "-" {
					for _, p := range strings.Split(f[3], ",") {
						ms = append(ms, mustUnhx(p))
					}
				}
				rt := rux.New().AddNamed(arg(1), arg(2), func(*rux.Context) {}, ms...)
				for i, n := 0, atoi(f[4]); i < n; i++ {
					rt.Use(func(*rux.Context) {})
				}
				cp := rt.VerifCopyWithParams(ps)
				_, _, regex, matches := cp.VerifRouteInfo()
				pp := "nil"
				if cp.VerifParams() != nil {
					pp = gcPairs(cp.VerifParams())
				}
				return fmt.Sprintf("%s %s %s %d %s %s %d %s", hx(cp.Name()), hx(cp.Path()), hxList(cp.Methods()), len(cp.Handlers()),
					gcTF(cp.Handler() != nil), gcTF(regex == ""), len(matches), pp)
			case f[0] == "wopt" && len(f) == 4:
				o1, ok1 := gcParseOpts(f[2])
				o2, ok2 := gcParseOpts(f[3])
				if !ok1 || !ok2 {
					return "bad-op"
				}
				rt := rux.New(o1...)
				for i, n := 0, atoi(f[1]); i < n; i++ {
					rt.GET("/r"+strconv.Itoa(i), func(*rux.Context) {})
				}
				word := "ok"
				func() {
					defer func() {
						if recover() != nil {
							word = "panic"
						}
					}()
					rt.WithOptions(o2...)
				}()
				st, fb, mna, ca, enc, icpt, max, ccap, _, _, _ := rt.VerifConfig()
				return fmt.Sprintf("%s %s %s %s %s %s %s %d %d", word, gcTF(st), gcTF(fb), gcTF(mna), gcTF(ca), gcTF(enc), hx(icpt), max, ccap)
			case f[0] == "clen" && len(f) == 1:
				return strconv.Itoa(cache.Len())
			case f[0] == "ckeys" && len(f) == 1:
				return hxList(cache.VerifKeys())
			}
			return "bad-op"
		}()
		ans = append(ans, a)
	}
	_ = fmt.Sprint
	return
}
