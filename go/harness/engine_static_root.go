package main

import (
	"fmt"
	"net/http"
	"net/http/httptest"
	"os"
	"path/filepath"
	"sort"
	"strings"
)

// engine static (C17), scenario class "the root is not an ordinary existing directory at registration time":
//
//   - the root does not exist when the handler is registered (a typo, an upload / build-output directory that is
//     created later): a `mount` whose target is not in the tree.  Nothing of the sandbox may be served;
//   - it is created afterwards, with files in it: op `grow <files> <dirs>` adds paths to the tree and KEEPS the
//     mount (op `tree` drops it).  From then on exactly the files of the root are served;
//   - the root handed to rux is a symbolic link to the real root: op `viasym` in front of a `mount`.  The link
//     lives next to www; its destination is www+target, which may be missing (dangling link) and may be grown later.
//     Opening <link>/<name> follows the link on every request, so the model ignores `viasym`: the mount behaves
//     exactly like one on the destination.
//
// net/http resolves an empty http.Dir against the working directory of the process, so every request is
// served while the process works in the sandbox base (the directory that holds the secrets next to www; see
// stRootChdir) — a handler that loses its root serves recognisable bytes.

// extra secrets in the sandbox base: one per extension the generator uses for StaticFiles, all with the
// content the confinement oracle knows (secretParent)
var stRootSecretExts = []string{"js", "ejs", "html", "htm", "txt", "JS", "bak", "s"}

// stRootListing: the listing net/http generates for the directory dir (same rule as in newSandbox).
func stRootListing(dir string) (string, bool) {
	if _, e := os.Stat(filepath.Join(dir, "index.html")); e == nil {
		return "", false
	}
	w := httptest.NewRecorder()
	rq := httptest.NewRequest("GET", "/", nil)
	http.FileServer(http.Dir(dir)).ServeHTTP(w, rq)
	if w.Code != 200 {
		return "", false
	}
	return w.Body.String(), true
}

// stRootSecrets puts the extra secrets into the sandbox base (once per sandbox) and tells the oracle what the
// listing of the base looks like now.
func stRootSecrets(sb *sandbox) {
	if _, err := os.Stat(filepath.Join(sb.base, "secret."+stRootSecretExts[0])); err == nil {
		return
	}
	for _, e := range stRootSecretExts {
		if err := os.WriteFile(filepath.Join(sb.base, "secret."+e), []byte(secretParent), 0o644); err != nil {
			panic("harness: cannot write a secret: " + err.Error())
		}
		// and the pre-compressed sidecar a build step may have left next to it (same recognisable content)
		_ = os.WriteFile(filepath.Join(sb.base, "secret."+e+".gz"), []byte(secretParent), 0o644)
	}
	stRootNoteBase(sb)
}

func stRootNoteBase(sb *sandbox) {
	if body, ok := stRootListing(sb.base); ok {
		sb.outside[body] = sb.base
	}
}

// stRootLink makes a fresh symbolic link in the sandbox base that points to dest (which need not exist).
func stRootLink(sb *sandbox, dest string) string {
	for i := 0; ; i++ {
		link := filepath.Join(sb.base, fmt.Sprintf("lnk-%d", i))
		if _, err := os.Lstat(link); err == nil {
			continue
		}
		if err := os.Symlink(dest, link); err != nil {
			panic("harness: cannot make a symbolic link: " + err.Error())
		}
		stRootNoteBase(sb)
		return link
	}
}

// stRootChdir moves the process into dir and returns the function that moves it back.  Engines run
// sequentially in one harness process and nothing else of the harness depends on the working directory
// while an op runs; the caller defers the result, so the old directory is back before the op returns,
// also on a panic.
func stRootChdir(dir string) func() {
	old, err := os.Getwd()
	if err != nil {
		panic("harness: getwd: " + err.Error())
	}
	abs, err := filepath.Abs(dir)
	if err != nil {
		panic("harness: abs: " + err.Error())
	}
	if err := os.Chdir(abs); err != nil {
		panic("harness: chdir: " + err.Error())
	}
	return func() {
		if err := os.Chdir(old); err != nil {
			panic("harness: cannot return to the working directory: " + err.Error())
		}
	}
}

// stRootGrow creates further files and directories in the served tree and brings the oracle's tables
// (file bodies, listings) up to date.  The mount stays.
func stRootGrow(sb *sandbox, files, dirs []string) {
	for _, d := range dirs {
		if err := os.MkdirAll(sb.root+d, 0o755); err != nil {
			panic("harness: cannot grow the sandbox: " + err.Error())
		}
	}
	for _, f := range files {
		if err := os.MkdirAll(filepath.Dir(sb.root+f), 0o755); err != nil {
			panic("harness: cannot grow the sandbox: " + err.Error())
		}
		if err := os.WriteFile(sb.root+f, []byte(fileBody(f)), 0o644); err != nil {
			panic("harness: cannot grow the sandbox: " + err.Error())
		}
		sb.content[fileBody(f)] = f
	}
	sb.files = append(sb.files, files...)
	sb.dirs = append(sb.dirs, dirs...)
	// all listings again (same rule as in newSandbox; symbolic links are not followed)
	sb.listing = map[string]string{}
	sb.outside = map[string]string{}
	err := filepath.Walk(sb.base, func(p string, info os.FileInfo, err error) error {
		if err != nil || !info.IsDir() {
			return err
		}
		body, ok := stRootListing(p)
		if !ok {
			return nil
		}
		if p == sb.root {
			sb.listing[body] = "/"
		} else if strings.HasPrefix(p, sb.root+"/") {
			rel := p[len(sb.root):]
			if old, dup := sb.listing[body]; !dup || rel < old {
				sb.listing[body] = rel
			}
		} else {
			sb.outside[body] = p
		}
		return nil
	})
	if err != nil {
		panic("harness: cannot list the sandbox: " + err.Error())
	}
}

/**************** ops ****************/

func stRootGrowOp(files, dirs []string) string { return "grow " + hxList(files) + " " + hxList(dirs) }

// stRootLate: what is created under a root that was missing at registration (names that occur nowhere
// else, so that every listing stays unique), as arguments of grow: the files, and the directories
// including the ancestors of the root that do not exist yet.
func stRootLate(kind, target string, dirs []string) (gf, gd []string) {
	have := map[string]bool{}
	for _, d := range dirs {
		have[d] = true
	}
	top := target
	if kind == "file" {
		gf = []string{target}
		top = filepath.Dir(target)
	} else {
		gf = []string{target + "/late.js", target + "/late.css", target + "/late.txt", target + "/sub/late.html"}
		gd = []string{target + "/sub"}
	}
	for p := top; p != "/" && p != "."; p = filepath.Dir(p) {
		if !have[p] {
			gd = append(gd, p)
		}
	}
	sort.Strings(gd)
	return gf, gd
}

// stRootTarget: request targets for a mount whose root may be lost: names relative to the sandbox base
// (where the process works), names relative to the root that appears later, and the usual ones.
func stRootTarget(r *Rand, kind, prefix, target string, exts, files, dirs []string) string {
	if kind == "file" && r.Chance(1, 2) {
		return prefix + r.Pick([]string{"", "", "/", "%20", "/..", "/../secret.css", "/.", "x"})
	}
	ext := r.Pick([]string{"css", "js", "txt", "html"})
	if len(exts) > 0 && r.Chance(3, 4) {
		ext = exts[r.Intn(len(exts))]
	}
	file := "/a.css"
	if len(files) > 0 {
		file = files[r.Intn(len(files))]
	}
	var tail string
	switch r.Intn(12) {
	case 0, 1: // a secret of the working directory
		tail = "/secret." + ext
	case 2:
		tail = r.Pick([]string{"/www-private/secret.css", "/www-private/", "/www-private/index.html", "/../secret." + ext, "/%2e%2e/secret.css", "/./secret." + ext})
	case 3, 4: // a file of the tree, named from the working directory
		tail = "/www" + pctEncodeSome(r, file, 1, 1000)
	case 5:
		tail = r.Pick([]string{"", "/", "/www", "/www/", "/.", "/index.html", "/www/index.html", "/lnk-0/", "/lnk-0/a.css"})
	case 6: // what the late root holds, named from the working directory
		tail = "/www" + target + r.Pick([]string{"/late.js", "/late.css", "/", "/sub/late.html"})
	case 7, 8, 9: // what the late root holds
		tail = r.Pick([]string{"/late.js", "/late.css", "/late.txt", "/sub/late.html", "/sub/", "/sub", "/late.JS", "/late.js/", "/sub/../late.css", "/late." + ext})
	default:
		return genTarget(r, prefix, files, dirs)
	}
	t := prefix + tail
	if !strings.HasPrefix(t, "/") {
		t = "/" + t
	}
	return t
}

/**************** corpus ****************/

func stRootCorpus(tree string, attack func(string) []string) []Case {
	var cases []Case
	probe := func(p string) []string {
		return []string{p + "/secret.css", p + "/secret.js", p + "/secret.txt", p + "/secret.html", p + "/www/a.css", p + "/www/js/app.js", p + "/www/", p + "/", p,
			p + "/www-private/secret.css", p + "/../secret.css", p + "/%2e%2e/secret.css", p + "/index.html", p + "/www/index.html",
			p + "/pic.js", p + "/late.css", p + "/sub/late.html", p + "/sub/", p + "/sub", p + "/www/uploads/pic.js", p + "/a.css", p + "/css/site.css"}
	}
	lateF := []string{"/uploads/pic.js", "/uploads/late.css", "/uploads/sub/late.html", "/uploads/notes.txt"}
	lateD := []string{"/uploads", "/uploads/sub"}
	for _, c := range []struct {
		kind, prefix string
		exts         []string
		flags        int
		sym          bool
	}{
		{"dir", "/up", nil, 0, false}, {"files", "/assets", []string{"css", "js"}, 0, false}, {"fs", "/fs", nil, 0, false},
		{"dir", "/up", nil, 2, true}, {"files", "/assets", []string{"js", "html", "txt"}, 1, true}, {"fs", "", nil, 0, true},
	} {
		// the root is missing (resp. the link dangles) at registration and is created afterwards
		ops := []string{tree}
		if c.sym {
			ops = append(ops, "viasym")
		}
		ops = append(ops, mountOpF(c.kind, c.flags, c.prefix, c.exts, "/uploads"))
		ops = append(ops, reqOps(probe(c.prefix)...)...)
		ops = append(ops, stRootGrowOp(lateF, lateD))
		ops = append(ops, reqOps(probe(c.prefix)...)...)
		cases = append(cases, Case{Ops: ops, Tag: "corpus-root"})
	}
	// a single file that appears later; a root below a file
	cases = append(cases, Case{Tag: "corpus-root", Ops: append(append(append([]string{tree, mountOpF("file", 0, "/dl/one.js", nil, "/uploads/pic.js")},
		reqOps("/dl/one.js", "/dl/one.js/", "/dl/secret.js", "/dl/one.js/../secret.css")...), stRootGrowOp(lateF, lateD)),
		reqOps("/dl/one.js", "/dl/one.js/", "/dl/secret.js")...)})
	cases = append(cases, Case{Tag: "corpus-root", Ops: append([]string{tree, mountOpF("dir", 0, "/up", nil, "/a.css/x")}, reqOps(probe("/up")...)...)})
	// the root is a link to an existing directory: everything as without the link
	for _, c := range []struct {
		kind, prefix string
		exts         []string
		target       string
	}{{"dir", "/static", nil, ""}, {"files", "/assets", []string{"css", "js"}, ""}, {"fs", "/fs/x", nil, "/css"}, {"files", "/v1.0/f", []string{"html", "css"}, "/css"}} {
		ops := []string{tree, "viasym", mountOp(c.kind, false, c.prefix, c.exts, c.target)}
		ops = append(ops, reqOps(attack(c.prefix)...)...)
		ops = append(ops, reqOps(probe(c.prefix)...)...)
		cases = append(cases, Case{Ops: ops, Tag: "corpus-root"})
	}
	cases = append(cases, Case{Tag: "corpus-root", Ops: append([]string{tree, "viasym", mountOp("file", false, "/one.js", nil, "/a.css")},
		reqOps("/one.js", "/one.js/", "/one.js/../secret.css", "/secret.css", "/")...)})
	return cases
}

/**************** generator stream ****************/

var stRootMissing = []string{"/uploads", "/uploads", "/late", "/build/out", "/css/build", "/nope/deep/er", "/a.css/x", "/www", "/secret.css", "/lnk-0"}

func stRootGen(r *Rand, tier string) Case {
	files, dirs := genTree(r)
	ops := []string{treeOp(files, dirs)}
	inTree := map[string]bool{}
	for _, p := range files {
		inTree[p] = true
	}
	for _, p := range dirs {
		inTree[p] = true
	}
	kind := r.Pick([]string{"dir", "dir", "dir", "files", "files", "files", "fs", "file"})
	prefix := prefixes[r.Intn(len(prefixes))]
	if kind == "file" {
		prefix = r.Pick([]string{"/one.js", "/dl/a.css", "/f/index.html", "/x"})
	}
	var exts []string
	if kind == "files" {
		exts = extSets[r.Intn(len(extSets))]
	}
	flags := 0
	if r.Chance(1, 3) {
		flags |= 1
	}
	if r.Chance(1, 5) {
		flags |= 2
	}
	if r.Chance(1, 5) {
		flags |= 4
	}
	// mode: 0 link to an existing root, 1 missing root, 2 dangling link, 3 missing root / dangling link that appears later
	mode := r.Intn(4)
	tag := []string{"root-link", "root-missing", "root-dangling", "root-late"}[mode]
	sym := mode == 0 || mode == 2 || (mode == 3 && r.Bool())
	target := ""
	if mode == 0 {
		switch {
		case kind == "file" && len(files) > 0:
			target = files[r.Intn(len(files))]
		case kind == "file":
			target = "/missing.css"
		case r.Chance(1, 3) && len(dirs) > 0:
			target = dirs[r.Intn(len(dirs))]
		}
	} else {
		target = stRootMissing[r.Intn(len(stRootMissing))]
		if kind == "file" {
			target += "/late.js"
		}
		blocked := inTree[target]
		for p := target; p != "/" && p != "."; p = filepath.Dir(p) {
			if mode == 3 && inTree[p] && !stRootIsIn(dirs, p) { // cannot be created below a file
				blocked = true
			}
		}
		if blocked {
			target = "/uploads-2"
			if kind == "file" {
				target += "/late.js"
			}
		}
	}
	if sym {
		ops = append(ops, "viasym")
	}
	ops = append(ops, mountOpF(kind, flags, prefix, exts, target))
	reqs := func() {
		for j, n := 0, r.Range(8, 20); j < n; j++ {
			if mode == 0 && r.Chance(2, 3) {
				ops = append(ops, reqOp(genTarget(r, prefix, files, dirs)))
				continue
			}
			ops = append(ops, reqOp(stRootTarget(r, kind, prefix, target, exts, files, dirs)))
		}
	}
	reqs()
	if mode == 3 {
		gf, gd := stRootLate(kind, target, dirs)
		ops = append(ops, stRootGrowOp(gf, gd))
		reqs()
	}
	return Case{Ops: ops, Tag: tag}
}

func stRootIsIn(xs []string, x string) bool {
	for _, y := range xs {
		if x == y {
			return true
		}
	}
	return false
}
