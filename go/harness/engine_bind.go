package main

import (
	"bufio"
	"bytes"
	"encoding/json"
	"encoding/xml"
	"errors"
	"fmt"
	"io"
	"mime"
	"mime/multipart"
	"net/http"
	"net/http/httptest"
	"net/url"
	"reflect"
	"runtime"
	"sort"
	"strconv"
	"strings"

	"github.com/gookit/rux"
	"github.com/gookit/rux/pkg/binding"
)

// engine bind (C18): request-data binding of /repo/pkg/binding and /repo/context_binding.go against the Lean
// model Model/Bind.lean.
//
//	src  <method> <ctype>     which source binding.Auto reads. The implementation's answer is INFERRED from a
//	                          probe battery: the URL query says v=A, and four requests with the same method and
//	                          header carry v=B (url-encoded body), v=M (multipart body), v=C (JSON body), v=D (XML
//	                          body); the bound value tells which source was read.
//	bind <api> <validator> <method> <ctype> <mclass> <rawquery> <body> <hdr> <jdec> <xdec> <mpv>
//	                          one bind of the two-field struct bT through the named entry point; the fields
//	                          <mclass> <jdec> <xdec> <mpv> carry the verdicts of the stdlib parameters of the model
//	                          (mime.ParseMediaType, encoding/json, encoding/xml, mime/multipart) on this input.
//	bindc <carrier> <api> ... the same bind (same 11 fields after the carrier), but r.Body is delivered the way
//	                          <carrier> says: rd = a plain reader (what `bind` uses), nobody = http.NoBody (what a
//	                          server hands over for a request without a body; needs an empty <body>), nop =
//	                          io.NopCloser(*bytes.Reader), newreq = what http.NewRequest/httptest.NewRequest make of
//	                          a *bytes.Reader (http.NoBody when it is empty), wire = the request is written out and
//	                          parsed back by http.ReadRequest (what a handler really gets; http.NoBody when the body
//	                          is empty), chunk = a body of unknown length (ContentLength -1, Transfer-Encoding chunked).
//	                          The model has no carrier: binding sees the BYTES of the body only, a request
//	                          without a body is a request with an empty body. r.Body == nil is outside the domain
//	                          (net/http never hands that to a handler; the unchanged JSON/XML branches panic on it).
//	tbind <type> <api> ...    the same bind into one of several struct types (anonymous, function-local, named; with and
//	                          without rules), validator mode `keep` = the validator of the previous op stays: see
//	                          engine_bind_vt.go.
//	esc/unesc/pq/enc          net/url percent-encoding against the model's codec.
//	rt <format> <api> <type> <value-id>
//	                          SAMPLED round trip of a representative struct value through a third-party codec
//	                          (formam, encoding/json, encoding/xml, mime/multipart) and back through rux.
type bindEngine struct{}

func init() { register(bindEngine{}) }

func (bindEngine) Name() string         { return "bind" }
func (bindEngine) DriverEngine() string { return "bind" }

func (bindEngine) Budget(tier string) int {
	if tier == "thorough" {
		return 200000
	}
	return 8000
}

/**************** the two-field struct of the bind op ****************/

type bT struct {
	V string `form:"v" query:"v" header:"v" json:"v" xml:"v" validate:"required|notIn:bad"`
	Q string `form:"q" query:"q" header:"q" json:"q" xml:"q"`
}

// the rule both validators implement (and the model's validatorRule)
func bTRule(t *bT) bool { return t.V != "" && t.V != "bad" }

type countingValidator struct{ calls int }

func (cv *countingValidator) Validate(obj any) error {
	cv.calls++
	if t, ok := obj.(*bT); ok && !bTRule(t) {
		return errors.New("counting validator: rule violated")
	}
	return nil
}

// setValidator installs the validator mode and returns the counter (nil unless mode is cnt).
// Callers must `defer binding.ResetValidator()`.
func setValidator(mode string) *countingValidator {
	switch mode {
	case "off":
		binding.DisableValidator()
	case "cnt":
		cv := &countingValidator{}
		binding.Validator = cv
		return cv
	case "offcnt": // switched off first (DisableValidator), then the application installs its own validator
		binding.DisableValidator()
		cv := &countingValidator{}
		binding.Validator = cv
		return cv
	default:
		binding.ResetValidator()
	}
	return nil
}

/**************** request construction ****************/

type trackBody struct {
	r     io.Reader
	reads int
}

func (t *trackBody) Read(p []byte) (int, error) { t.reads++; return t.r.Read(p) }
func (t *trackBody) Close() error               { return nil }

// mkReq builds the request by hand so that ANY method string and header value can be used (http.NewRequest
// rejects junk methods). The body is never nil (net/http guarantees that for server requests).
func mkReq(method, ctype, rawq, body string, hdr [][2]string) (*http.Request, *trackBody) {
	tb := &trackBody{r: strings.NewReader(body)}
	r := &http.Request{
		Method: method, URL: &url.URL{Path: "/p", RawQuery: rawq}, Proto: "HTTP/1.1", ProtoMajor: 1, ProtoMinor: 1,
		Header: http.Header{}, Body: tb, ContentLength: int64(len(body)), Host: "example.test",
	}
	if ctype != "" {
		r.Header["Content-Type"] = []string{ctype}
	}
	for _, kv := range hdr {
		r.Header[kv[0]] = append(r.Header[kv[0]], kv[1])
	}
	return r, tb
}

var bodyCarriers = []string{"rd", "nobody", "nop", "newreq", "wire", "chunk"}

// mkReqC: mkReq with r.Body delivered by the named carrier; ok = false when this request cannot travel that
// way unchanged (a non-empty body as http.NoBody; a method / query / header the wire format does not preserve).
func mkReqC(carrier, method, ctype, rawq, body string, hdr [][2]string) (r *http.Request, ok bool) {
	r, _ = mkReq(method, ctype, rawq, body, hdr)
	switch carrier {
	case "rd":
	case "nobody":
		if body != "" {
			return nil, false
		}
		r.Body = http.NoBody
	case "nop":
		r.Body = io.NopCloser(bytes.NewReader([]byte(body)))
	case "chunk":
		// a body of unknown length (what a server hands over for "Transfer-Encoding: chunked"): ContentLength -1
		r.Body = io.NopCloser(struct{ io.Reader }{strings.NewReader(body)})
		r.ContentLength = -1
		r.TransferEncoding = []string{"chunked"}
	case "cut", "cutend":
		// NOT a carrier of the protocol (never in an op): a connection that breaks - half of the body (cut) or all of it
		// (cutend) is delivered, then Read fails.  Used by the API-layer oracle of runBind only.
		k := len(body)
		if carrier == "cut" {
			k /= 2
		}
		r.Body = io.NopCloser(io.MultiReader(strings.NewReader(body[:k]), bindFailReader{}))
	case "preform":
		// NOT a carrier of the protocol: an earlier handler has left a parsed form on the request (r.Form / r.PostForm are
		// public fields; after a method override they hold the body of the ORIGINAL request).  Used by an oracle of runBind.
		r.Form = url.Values{"v": {"LEAKED-FORM"}, "q": {"LEAKED-FORM"}}
		r.PostForm = url.Values{"v": {"LEAKED-POSTFORM"}}
	case "newreq":
		nr, err := http.NewRequest("POST", "http://example.test/p", bytes.NewReader([]byte(body)))
		if err != nil {
			return nil, false
		}
		r.Body, r.GetBody, r.ContentLength = nr.Body, nr.GetBody, nr.ContentLength
	case "wire":
		if len(hdr) != 0 {
			return nil, false
		}
		r.Header["User-Agent"] = []string{""} // not sent
		if body == "" {
			r.Body = http.NoBody // the client sends no body ("Content-Length: 0" for a body method), not an empty chunked one
		}
		var b bytes.Buffer
		if err := r.Write(&b); err != nil {
			return nil, false
		}
		rr, err := http.ReadRequest(bufio.NewReader(&b))
		if err != nil || b.Len() != 0 {
			return nil, false
		}
		var wantCT []string
		if ctype != "" {
			wantCT = []string{ctype}
		}
		if rr.Method != method || rr.URL == nil || rr.URL.Path != "/p" || rr.URL.RawQuery != rawq || rr.URL.ForceQuery ||
			!reflect.DeepEqual(rr.Header["Content-Type"], wantCT) || rr.ContentLength != int64(len(body)) ||
			len(rr.TransferEncoding) != 0 || rr.Body == nil || (body == "") != (rr.Body == http.NoBody) {
			return nil, false
		}
		for k := range rr.Header {
			if k != "Content-Type" && k != "Content-Length" {
				return nil, false
			}
		}
		r = rr
	default:
		return nil, false
	}
	return r, true
}

// bindFailReader fails every Read (the rest of a body whose connection broke)
type bindFailReader struct{}

func (bindFailReader) Read([]byte) (int, error) { return 0, io.ErrUnexpectedEOF }

// bindPlainKeys: no two keys of the query that are equal up to case, no nested keys (`v.x`, `v[0]`)
func bindPlainKeys(rawq string) bool {
	vals, err := url.ParseQuery(rawq)
	if err != nil {
		return false
	}
	seen := map[string]bool{}
	for k := range vals {
		lk := strings.ToLower(k)
		if seen[lk] || strings.ContainsAny(k, ".[]") {
			return false
		}
		seen[lk] = true
	}
	return true
}

// carrierOK: may this bind travel by this carrier (decided from the inputs and net/http only, never from rux)
func carrierOK(carrier, api, method, ctype, rawq, body string, hdr [][2]string) bool {
	if strings.HasPrefix(api, "header") && carrier == "wire" {
		return false // a parsed request has header fields of its own (Content-Length)
	}
	_, ok := mkReqC(carrier, method, ctype, rawq, body, hdr)
	return ok
}

func mkCtx(r *http.Request) *rux.Context {
	c := &rux.Context{}
	c.Init(httptest.NewRecorder(), r)
	return c
}

/**************** verdicts of the stdlib parameters ****************/

func mclassOf(ctype string) (cls, boundary string) {
	ct := ctype
	if ct == "" {
		ct = "application/octet-stream"
	}
	mt, params, err := mime.ParseMediaType(ct)
	if err != nil {
		return "bad", ""
	}
	switch mt {
	case "application/x-www-form-urlencoded":
		return "urlenc", ""
	case "multipart/form-data":
		if b, ok := params["boundary"]; ok {
			return "mpart", b
		}
		return "mpartnb", ""
	}
	return "other", ""
}

func jsonVerdict(body string) (res string) {
	defer func() {
		if recover() != nil {
			res = "?"
		}
	}()
	var t bT
	if err := json.NewDecoder(strings.NewReader(body)).Decode(&t); err != nil {
		return "!"
	}
	return hx(t.V) + ":" + hx(t.Q)
}

func xmlVerdict(body string) (res string) {
	defer func() {
		if recover() != nil {
			res = "?"
		}
	}()
	var t bT
	if err := xml.NewDecoder(strings.NewReader(body)).Decode(&t); err != nil {
		return "!"
	}
	return hx(t.V) + ":" + hx(t.Q)
}

func pairList(ps [][2]string) string {
	if len(ps) == 0 {
		return "-"
	}
	out := make([]string, len(ps))
	for i, p := range ps {
		out[i] = hx(p[0]) + ":" + hx(p[1])
	}
	return strings.Join(out, ",")
}

func parsePairList(s string) [][2]string {
	if s == "-" {
		return nil
	}
	var out [][2]string
	for _, kv := range strings.Split(s, ",") {
		ab := strings.SplitN(kv, ":", 2)
		if len(ab) != 2 {
			panic("harness: bad pair list " + s)
		}
		out = append(out, [2]string{mustUnhx(ab[0]), mustUnhx(ab[1])})
	}
	return out
}

func multipartVerdict(ctype, body string) (res string) {
	defer func() {
		if recover() != nil {
			res = "?"
		}
	}()
	cls, boundary := mclassOf(ctype)
	if cls != "mpart" {
		return "!"
	}
	form, err := multipart.NewReader(strings.NewReader(body), boundary).ReadForm(32 << 20)
	if err != nil {
		return "!"
	}
	defer form.RemoveAll()
	keys := make([]string, 0, len(form.Value))
	for k := range form.Value {
		keys = append(keys, k)
	}
	sort.Strings(keys)
	var ps [][2]string
	for _, k := range keys {
		for _, v := range form.Value[k] {
			ps = append(ps, [2]string{k, v})
		}
	}
	return pairList(ps)
}

// bindLine assembles a bind op; the verdict fields are computed here, from the raw inputs only.
func bindLine(api, val, method, ctype, rawq, body string, hdr [][2]string) string {
	cls, _ := mclassOf(ctype)
	return strings.Join([]string{"bind", api, val, hx(method), hx(ctype), cls, hx(rawq), hx(body), pairList(hdr),
		jsonVerdict(body), xmlVerdict(body), multipartVerdict(ctype, body)}, " ")
}

// bindLineC: the bind travels by the given carrier (a plain bind when that is not possible)
func bindLineC(carrier, api, val, method, ctype, rawq, body string, hdr [][2]string) string {
	line := bindLine(api, val, method, ctype, rawq, body, hdr)
	if carrier == "rd" || !carrierOK(carrier, api, method, ctype, rawq, body, hdr) {
		return line
	}
	return "bindc " + carrier + " " + strings.TrimPrefix(line, "bind ")
}

/**************** running one bind ****************/

// callBind runs one entry point on a fresh request and returns the canonical answer.
func callBind(carrier, api, method, ctype, rawq, body string, hdr [][2]string, t *bT) (ans string) {
	must := api == "pkgmust" || strings.HasSuffix(api, ".must")
	defer func() {
		if v := recover(); v != nil {
			if _, isRuntime := v.(runtime.Error); !isRuntime {
				if _, isErr := v.(error); isErr && must {
					ans = "panic:err" // the documented behaviour of the Must variants
					return
				}
			}
			ans = panicClass(v)
		}
	}()
	r, ok := mkReqC(carrier, method, ctype, rawq, body, hdr)
	if !ok {
		return "bad-op"
	}
	var err error
	binderOf := func(name string) binding.Binder {
		switch name {
		case "form":
			return binding.Form
		case "query":
			return binding.Query
		case "header":
			return binding.Header
		case "json":
			return binding.JSON
		case "xml":
			return binding.XML
		}
		panic("harness: bad binder " + name)
	}
	switch api {
	case "auto":
		err = binding.Auto(r, t)
	case "pkgbind":
		err = binding.Bind(r, t)
	case "pkgmust":
		binding.MustBind(r, t)
	case "ctxbind":
		err = mkCtx(r).Bind(t)
	case "ctxauto":
		err = mkCtx(r).AutoBind(t)
	default:
		parts := strings.SplitN(api, ".", 2)
		if len(parts) != 2 {
			panic("harness: bad api " + api)
		}
		name, how := parts[0], parts[1]
		switch how {
		case "bind":
			err = binderOf(name).Bind(r, t)
		case "should":
			err = mkCtx(r).ShouldBind(t, binderOf(name))
		case "must":
			mkCtx(r).MustBind(t, binderOf(name))
		case "name":
			err = binding.GetBinder(name).Bind(r, t)
		case "ctx":
			switch name {
			case "form":
				err = mkCtx(r).BindForm(t)
			case "json":
				err = mkCtx(r).BindJSON(t)
			case "xml":
				err = mkCtx(r).BindXML(t)
			default:
				panic("harness: bad api " + api)
			}
		case "vals":
			vals, _ := url.ParseQuery(rawq)
			switch name {
			case "form":
				err = binding.Form.BindValues(vals, t)
			case "query":
				err = binding.Query.BindValues(vals, t)
			case "header":
				err = binding.Header.BindValues(r.Header, t)
			default:
				panic("harness: bad api " + api)
			}
		case "bytes":
			switch name {
			case "json":
				err = binding.JSON.BindBytes([]byte(body), t)
			case "xml":
				err = binding.XML.BindBytes([]byte(body), t)
			default:
				panic("harness: bad api " + api)
			}
		default:
			panic("harness: bad api " + api)
		}
	}
	if err != nil {
		return "err"
	}
	return "ok " + hx(t.V) + " " + hx(t.Q)
}

func runBind(carrier string, f []string) (ans string, oracle []string) {
	api, val := f[1], f[2]
	method, ctype, rawq, body := mustUnhx(f[3]), mustUnhx(f[4]), mustUnhx(f[6]), mustUnhx(f[7])
	hdr := parsePairList(f[8])
	defer binding.ResetValidator()
	cv := setValidator(val)
	t := &bT{}
	ans = callBind(carrier, api, method, ctype, rawq, body, hdr, t)
	ok := strings.HasPrefix(ans, "ok ")
	if strings.HasPrefix(ans, "panic:") && ans != "panic:err" {
		oracle = append(oracle, fmt.Sprintf("C18 never a panic: %s through %s (method %q, Content-Type %q, query %q, body %q, body carrier %s)", ans, api, method, ctype, rawq, body, carrier))
	}
	if ok && val != "off" && !bTRule(t) {
		oracle = append(oracle, fmt.Sprintf("C18 validated: bind through %s succeeded with V=%q, which violates the struct's rules (validator %s)", api, t.V, val))
	}
	// automatic binding reads the REQUEST only: the registry of named binders (binding.Register / Remove, used by
	// GetBinder) has no say in it - the same JSON / XML bind with the json / xml entries taken out gives the same answer
	// (only for the JSON / XML sources: their decoders are deterministic, formam's handling of keys that differ in case only is not)
	isBodyMethod := method == "POST" || method == "PUT" || method == "PATCH"
	if (api == "auto" || api == "pkgbind" || api == "ctxauto" || api == "ctxbind") && isBodyMethod &&
		(strings.Contains(ctype, "/json") || strings.Contains(ctype, "/xml")) && !strings.Contains(ctype, "/x-www-form-urlencoded") &&
		!strings.Contains(ctype, "/form-data") && carrierOK(carrier, api, method, ctype, rawq, body, hdr) {
		saved := map[string]binding.Binder{}
		for _, n := range []string{"json", "xml"} {
			if b, has := binding.Binders[n]; has {
				saved[n] = b
			}
		}
		binding.Remove("json", "xml")
		cv2 := setValidator(val)
		t2 := &bT{}
		ans2 := callBind(carrier, api, method, ctype, rawq, body, hdr, t2)
		for n, b := range saved {
			binding.Register(n, b)
		}
		_ = cv2
		if ans2 != ans {
			oracle = append(oracle, fmt.Sprintf("C18 source: bind through %s (method %q, Content-Type %q) answers %q, and %q once the named binders json and xml are removed from the registry", api, method, ctype, ans, ans2))
		}
	}
	// a body that cannot be read to its end is malformed input.  For a url-encoded form on a body method net/http's
	// ParseForm reports the read error, so the bind fails - through the binding package and through the Context
	// methods, which ARE those calls on c.Req (a Context method must not succeed with the part that did arrive).
	// Half of the body arrives (cut), or all of it and then an error instead of EOF (cutend).
	// (Only this source: JSON/XML decoders stop reading at the end of the value, multipart readers at the final
	// boundary; formam's answer for keys that differ in case only depends on map order.)
	if mt, _, merr := mime.ParseMediaType(ctype); merr == nil && mt == "application/x-www-form-urlencoded" && isBodyMethod && carrier == "rd" && body != "" {
		apis := []string{}
		switch {
		case (api == "auto" || api == "pkgbind" || api == "pkgmust" || api == "ctxbind" || api == "ctxauto") && strings.Contains(ctype, "/x-www-form-urlencoded"):
			// (Auto looks for the lower-case spelling; with another spelling it takes another source)
			apis = []string{"auto", "ctxbind", "ctxauto"}
		case strings.HasPrefix(api, "form.") && api != "form.vals":
			apis = []string{"form.bind", "form.should", "form.must", "form.ctx"}
		}
		for _, cut := range []string{"cut", "cutend"} {
			for _, ap := range apis {
				setValidator(val)
				if a1 := callBind(cut, ap, method, ctype, rawq, body, hdr, &bT{}); a1 != "err" && a1 != "panic:err" {
					oracle = append(oracle, fmt.Sprintf("C18 malformed input: a url-encoded body that breaks off (%s, %d bytes, method %q, Content-Type %q) bound through %s answers %q", cut, len(body), method, ctype, ap, a1))
				}
			}
		}
		setValidator(val)
	}
	// methods without a body bind the QUERY STRING of the URL: a parsed form that an earlier handler left on the request
	// (r.Form, r.PostForm) is not a source.  (Skipped when keys differ in case only or are nested: formam's answer then
	// depends on map order.)
	if !isBodyMethod && carrier == "rd" && (api == "auto" || api == "pkgbind" || api == "ctxbind" || api == "ctxauto" || api == "query.bind") && bindPlainKeys(rawq) {
		setValidator(val)
		if a2 := callBind("preform", api, method, ctype, rawq, body, hdr, &bT{}); a2 != ans {
			oracle = append(oracle, fmt.Sprintf("C18 source: %s on method %q with the query %q answers %q, and %q when the request carries a parsed form from an earlier handler", api, method, rawq, ans, a2))
		}
		setValidator(val)
	}
	if cv != nil {
		if ok && cv.calls != 1 {
			oracle = append(oracle, fmt.Sprintf("C18 validated: successful bind through %s called the validator %d times (want exactly 1)", api, cv.calls))
		}
		if !ok && cv.calls > 1 {
			oracle = append(oracle, fmt.Sprintf("C18 validated: failed bind through %s called the validator %d times", api, cv.calls))
		}
		// the configured validator is asked about WHATEVER was bound: a pointer to a pointer to the struct (the decoder
		// allocates), a map, a slice - "nothing to check" is the validator's decision, not the binder's
		if strings.HasPrefix(api, "json.") {
			var pp *bT
			var mp map[string]interface{}
			var sl []interface{}
			var anyv interface{}
			for _, tg := range []struct {
				name string
				ptr  interface{}
			}{{"**struct", &pp}, {"*map", &mp}, {"*slice", &sl}, {"*interface", &anyv}} {
				cv2 := setValidator(val)
				err := func() (err error) {
					defer func() {
						if v := recover(); v != nil {
							err = fmt.Errorf("panic: %v", v)
						}
					}()
					return binding.JSON.BindBytes([]byte(body), tg.ptr)
				}()
				if err == nil && cv2 != nil && cv2.calls != 1 {
					oracle = append(oracle, fmt.Sprintf("C18 validated: JSON body %q bound into a %s succeeded, the enabled validator was called %d times (want exactly 1)", body, tg.name, cv2.calls))
				}
			}
		}
	}
	return
}

/**************** src: which source does Auto read ****************/

const probeBoundary = "XPROBEX"

func multipartBody(boundary string, kvs [][2]string) string {
	var b bytes.Buffer
	w := multipart.NewWriter(&b)
	if err := w.SetBoundary(boundary); err != nil {
		_ = w.SetBoundary(probeBoundary)
	}
	for _, kv := range kvs {
		_ = w.WriteField(kv[0], kv[1])
	}
	_ = w.Close()
	return b.String()
}

type probeRes struct {
	panicked string
	err      error
	v        string
	read     bool // body was read
	parsed   bool // r.PostForm != nil afterwards (ParseForm ran)
}

func probe(method, ctype, body string) (p probeRes) {
	r, tb := mkReq(method, ctype, "v=A", body, nil)
	t := &bT{}
	defer func() {
		if v := recover(); v != nil {
			p.panicked = panicClass(v)
		}
	}()
	p.err = binding.Auto(r, t)
	p.v, p.read, p.parsed = t.V, tb.reads > 0, r.PostForm != nil
	return
}

// inferSource classifies the behaviour of binding.Auto by what came out, not by how Auto is written.
func inferSource(method, ctype string) string {
	binding.DisableValidator()
	defer binding.ResetValidator()
	_, boundary := mclassOf(ctype)
	if boundary == "" {
		boundary = probeBoundary
	}
	ps := []probeRes{
		probe(method, ctype, "v=B"),
		probe(method, ctype, multipartBody(boundary, [][2]string{{"v", "M"}})),
		probe(method, ctype, `{"v":"C"}`),
		probe(method, ctype, `<T><v>D</v></T>`),
	}
	for _, p := range ps {
		if p.panicked != "" {
			return p.panicked
		}
	}
	all := func(pred func(probeRes) bool) bool {
		for _, p := range ps {
			if !pred(p) {
				return false
			}
		}
		return true
	}
	okv := func(p probeRes, v string) bool { return p.err == nil && p.v == v }
	switch {
	case all(func(p probeRes) bool { return okv(p, "A") && !p.read }):
		return "query"
	case okv(ps[2], "C"):
		return "json"
	case okv(ps[3], "D"):
		return "xml"
	case okv(ps[0], "B"):
		return "form"
	case okv(ps[1], "M"):
		return "multipart"
	case all(func(p probeRes) bool { return okv(p, "") && p.parsed }):
		return "form" // ParseForm ran, the media type is not exactly application/x-www-form-urlencoded: empty PostForm
	case all(func(p probeRes) bool {
		return errors.Is(p.err, http.ErrNotMultipart) || errors.Is(p.err, http.ErrMissingBoundary)
	}):
		return "multipart"
	case all(func(p probeRes) bool { return p.err != nil && p.parsed }):
		return "form" // ParseForm ran and failed (the header does not parse)
	case all(func(p probeRes) bool { return p.err != nil && !p.parsed && !p.read }):
		return "unsupported"
	}
	desc := ""
	for _, p := range ps {
		desc += fmt.Sprintf("[err=%v v=%q read=%v parsed=%v]", p.err != nil, p.v, p.read, p.parsed)
	}
	return "ambiguous:" + strings.ReplaceAll(desc, " ", ",")
}

/**************** net/url ops ****************/

func valsStr(v url.Values) string {
	if len(v) == 0 {
		return "-"
	}
	keys := make([]string, 0, len(v))
	for k := range v {
		keys = append(keys, k)
	}
	sort.Strings(keys)
	out := make([]string, len(keys))
	for i, k := range keys {
		vs := make([]string, len(v[k]))
		for j, x := range v[k] {
			vs[j] = hx(x)
		}
		out[i] = hx(k) + ":" + strings.Join(vs, "/")
	}
	return strings.Join(out, ",")
}

/**************** rt: sampled round trips of representative structs ****************/

type rtScalars struct {
	I   int    `form:"i" query:"i" json:"i" xml:"i"`
	I8  int8   `form:"i8" query:"i8" json:"i8" xml:"i8"`
	I64 int64  `form:"i64" query:"i64" json:"i64" xml:"i64"`
	U   uint   `form:"u" query:"u" json:"u" xml:"u"`
	U16 uint16 `form:"u16" query:"u16" json:"u16" xml:"u16"`
	S   string `form:"s" query:"s" json:"s" xml:"s"`
	S2  string `form:"s2" query:"s2" json:"s2" xml:"s2"`
	B   bool   `form:"b" query:"b" json:"b" xml:"b"`
	B2  bool   `form:"b2" query:"b2" json:"b2" xml:"b2"`
}

type rtSlices struct {
	Tags  []string `form:"tags" query:"tags" json:"tags" xml:"tags"`
	Nums  []int    `form:"nums" query:"nums" json:"nums" xml:"nums"`
	Big   []int64  `form:"big" query:"big" json:"big" xml:"big"`
	Flags []bool   `form:"flags" query:"flags" json:"flags" xml:"flags"`
}

type rtUser struct {
	Name   string   `form:"name" query:"name" json:"name" xml:"name"`
	Age    int      `form:"age" query:"age" json:"age" xml:"age"`
	Admin  bool     `form:"admin" query:"admin" json:"admin" xml:"admin"`
	Tags   []string `form:"tags" query:"tags" json:"tags" xml:"tags"`
	Scores []int32  `form:"scores" query:"scores" json:"scores" xml:"scores"`
	Inner  rtInner  `form:"inner" query:"inner" json:"inner" xml:"inner"`
}

type rtInner struct {
	X int    `form:"x" query:"x" json:"x" xml:"x"`
	S string `form:"s" query:"s" json:"s" xml:"s"`
}

var rtTypes = []string{"scalars", "slices", "user"}

// string classes: "bytes" = arbitrary bytes (percent-encoding and multipart carry them), "utf8" = valid UTF-8
// (JSON), "xml" = characters XML 1.0 can carry.
func genString(r *Rand, class string) string {
	n := r.PickInt([]int{0, 0, 1, 1, 2, 3, 5, 8, 13})
	var b strings.Builder
	sep := []string{"&", "=", "+", "%", " ", ";", "/", "?", "#", ",", "%26", "%zz", "<", ">", "\"", "'", "\\", "&amp;", "]]>", "[", "]", "."}
	uni := []string{"é", "ß", "日本", "🙂", "Ω", " ", " ", "ñ", "ı", "́"}
	for i := 0; i < n; i++ {
		switch x := r.Intn(10); {
		case x < 3:
			b.WriteString(r.Pick(sep))
		case x < 5:
			b.WriteString(r.Pick(uni))
		case x < 8:
			b.WriteByte(byte('a' + r.Intn(26)))
		case x < 9:
			switch class {
			case "bytes":
				b.WriteByte(byte(r.Intn(256)))
			case "utf8":
				b.WriteString(r.Pick([]string{"\x00", "\x01", "\t", "\n", "\r", "\x7f", " ", "\ufeff"}))
			default:
				b.WriteString(r.Pick([]string{"\t", "\n", "\r", "\r\n", " ", "  "}))
			}
		default:
			b.WriteByte(byte('0' + r.Intn(10)))
		}
	}
	return b.String()
}

func genInt64(r *Rand, bits int) int64 {
	max := int64(1)<<(uint(bits)-1) - 1
	switch r.Intn(8) {
	case 0:
		return 0
	case 1:
		return max
	case 2:
		return -max - 1
	case 3:
		return -1
	case 4:
		return int64(r.Intn(100))
	default:
		v := int64(r.U64() >> 1)
		if bits < 64 {
			v %= max + 1
		}
		if r.Bool() {
			v = -v
		}
		return v
	}
}

func genUint64(r *Rand, bits int) uint64 {
	switch r.Intn(5) {
	case 0:
		return 0
	case 1:
		if bits == 64 {
			return ^uint64(0)
		}
		return uint64(1)<<uint(bits) - 1
	default:
		v := r.U64()
		if bits < 64 {
			v %= uint64(1) << uint(bits)
		}
		return v
	}
}

// rtCorpus: hand-picked values (id "c<k>").
func rtCorpus(typ, class string) []interface{} {
	hard := "a&b=c+d %;é/?#"
	if class == "bytes" {
		hard += "\xff\x00"
	}
	switch typ {
	case "scalars":
		return []interface{}{
			&rtScalars{},
			&rtScalars{I: -1, I8: -128, I64: -9223372036854775808, U: 18446744073709551615, U16: 65535, S: hard, S2: "日本 🙂", B: true, B2: false},
			&rtScalars{I: 9223372036854775807, I8: 127, I64: 9223372036854775807, S: " ", S2: "+", B2: true},
			&rtScalars{S: "%zz", S2: "&amp;<>\"'"},
		}
	case "slices":
		return []interface{}{
			&rtSlices{},
			&rtSlices{Tags: []string{"a"}, Nums: []int{0}, Big: []int64{-9223372036854775808}, Flags: []bool{false}},
			&rtSlices{Tags: []string{"", "", hard, "x,y", "a&tags=b"}, Nums: []int{1, -2, 3}, Big: []int64{9223372036854775807, 0}, Flags: []bool{true, false, true}},
			&rtSlices{Tags: []string{""}},
		}
	default:
		return []interface{}{
			&rtUser{},
			&rtUser{Name: "inhere", Age: 12},
			&rtUser{Name: hard, Age: -3, Admin: true, Tags: []string{"x", ""}, Scores: []int32{-2147483648, 2147483647}, Inner: rtInner{X: 7, S: "in.ner[0]"}},
		}
	}
}

func genRtValue(typ, class string, r *Rand) interface{} {
	switch typ {
	case "scalars":
		return &rtScalars{I: int(genInt64(r, 64)), I8: int8(genInt64(r, 8)), I64: genInt64(r, 64), U: uint(genUint64(r, 64)),
			U16: uint16(genUint64(r, 16)), S: genString(r, class), S2: genString(r, class), B: r.Bool(), B2: r.Bool()}
	case "slices":
		v := &rtSlices{}
		for i, n := 0, r.Intn(4); i < n; i++ {
			v.Tags = append(v.Tags, genString(r, class))
		}
		for i, n := 0, r.Intn(4); i < n; i++ {
			v.Nums = append(v.Nums, int(genInt64(r, 64)))
		}
		for i, n := 0, r.Intn(3); i < n; i++ {
			v.Big = append(v.Big, genInt64(r, 64))
		}
		for i, n := 0, r.Intn(4); i < n; i++ {
			v.Flags = append(v.Flags, r.Bool())
		}
		return v
	default:
		v := &rtUser{Name: genString(r, class), Age: int(genInt64(r, 32)), Admin: r.Bool(), Inner: rtInner{X: int(genInt64(r, 16)), S: genString(r, class)}}
		for i, n := 0, r.Intn(3); i < n; i++ {
			v.Tags = append(v.Tags, genString(r, class))
		}
		for i, n := 0, r.Intn(3); i < n; i++ {
			v.Scores = append(v.Scores, int32(genInt64(r, 32)))
		}
		return v
	}
}

func classOfFormat(format string) string {
	switch format {
	case "json":
		return "utf8"
	case "xml":
		return "xml"
	}
	return "bytes"
}

func rtValue(typ, format, id string) interface{} {
	class := classOfFormat(format)
	if strings.HasPrefix(id, "c") {
		c := rtCorpus(typ, class)
		return c[atoi(id[1:])%len(c)]
	}
	seed, err := strconv.ParseUint(id[1:], 10, 64)
	if err != nil {
		panic("harness: bad rt value id " + id)
	}
	return genRtValue(typ, class, &Rand{s: seed})
}

func rtZero(typ string) interface{} {
	switch typ {
	case "scalars":
		return &rtScalars{}
	case "slices":
		return &rtSlices{}
	}
	return &rtUser{}
}

// toValues writes a struct as url.Values the way an HTML form / query string carries it: one key per field
// (the tag name), repeated keys for slices, `outer.inner` for nested structs.
func toValues(prefix string, v reflect.Value, out url.Values) {
	t := v.Type()
	for i := 0; i < t.NumField(); i++ {
		key := prefix + t.Field(i).Tag.Get("form")
		f := v.Field(i)
		switch f.Kind() {
		case reflect.Struct:
			toValues(key+".", f, out)
		case reflect.Slice:
			for j := 0; j < f.Len(); j++ {
				out[key] = append(out[key], scalarStr(f.Index(j)))
			}
		default:
			out[key] = []string{scalarStr(f)}
		}
	}
}

func scalarStr(f reflect.Value) string {
	switch f.Kind() {
	case reflect.String:
		return f.String()
	case reflect.Bool:
		return strconv.FormatBool(f.Bool())
	case reflect.Int, reflect.Int8, reflect.Int16, reflect.Int32, reflect.Int64:
		return strconv.FormatInt(f.Int(), 10)
	case reflect.Uint, reflect.Uint8, reflect.Uint16, reflect.Uint32, reflect.Uint64:
		return strconv.FormatUint(f.Uint(), 10)
	}
	panic("harness: unsupported kind " + f.Kind().String())
}

// normalise nil vs empty slices (no format distinguishes them)
func normSlices(v reflect.Value) {
	for i := 0; i < v.NumField(); i++ {
		f := v.Field(i)
		switch f.Kind() {
		case reflect.Slice:
			if f.Len() == 0 {
				f.Set(reflect.Zero(f.Type()))
			}
		case reflect.Struct:
			normSlices(f)
		}
	}
}

func runRt(f []string) (ans string, oracle []string) {
	format, api, typ, id := f[1], f[2], f[3], f[4]
	defer binding.ResetValidator()
	binding.ResetValidator()
	defer func() {
		if v := recover(); v != nil {
			ans = panicClass(v)
			oracle = append(oracle, fmt.Sprintf("C18 never a panic: round trip %s/%s/%s %s: %v", format, api, typ, id, v))
		}
	}()
	want := rtValue(typ, format, id)
	got := rtZero(typ)
	method, ctype, rawq, body := "POST", "", "", ""
	switch format {
	case "form":
		vals := url.Values{}
		toValues("", reflect.ValueOf(want).Elem(), vals)
		ctype, body = "application/x-www-form-urlencoded", vals.Encode()
		if api == "form.vals" {
			rawq = body
		}
	case "query":
		vals := url.Values{}
		toValues("", reflect.ValueOf(want).Elem(), vals)
		method, rawq = "GET", vals.Encode()
	case "multipart":
		vals := url.Values{}
		toValues("", reflect.ValueOf(want).Elem(), vals)
		keys := make([]string, 0, len(vals))
		for k := range vals {
			keys = append(keys, k)
		}
		sort.Strings(keys)
		var kvs [][2]string
		for _, k := range keys {
			for _, v := range vals[k] {
				kvs = append(kvs, [2]string{k, v})
			}
		}
		ctype, body = "multipart/form-data; boundary="+probeBoundary, multipartBody(probeBoundary, kvs)
	case "json":
		b, err := json.Marshal(want)
		if err != nil {
			panic("harness: json.Marshal: " + err.Error())
		}
		ctype, body = "application/json", string(b)
	case "xml":
		b, err := xml.Marshal(want)
		if err != nil {
			panic("harness: xml.Marshal: " + err.Error())
		}
		ctype, body = "application/xml; charset=utf-8", string(b)
	default:
		panic("harness: bad format " + format)
	}
	r, _ := mkReq(method, ctype, rawq, body, nil)
	var err error
	switch api {
	case "auto":
		err = binding.Auto(r, got)
	case "ctxbind":
		err = mkCtx(r).Bind(got)
	case "form.bind":
		err = binding.Form.Bind(r, got)
	case "form.ctx":
		err = mkCtx(r).BindForm(got)
	case "form.vals":
		vals, _ := url.ParseQuery(rawq)
		err = binding.Form.BindValues(vals, got)
	case "query.bind":
		err = binding.Query.Bind(r, got)
	case "query.should":
		err = mkCtx(r).ShouldBind(got, binding.Query)
	case "json.bind":
		err = binding.JSON.Bind(r, got)
	case "json.ctx":
		err = mkCtx(r).BindJSON(got)
	case "json.bytes":
		err = binding.JSON.BindBytes([]byte(body), got)
	case "xml.bind":
		err = binding.XML.Bind(r, got)
	case "xml.ctx":
		err = mkCtx(r).BindXML(got)
	case "xml.bytes":
		err = binding.XML.BindBytes([]byte(body), got)
	default:
		panic("harness: bad rt api " + api)
	}
	if err != nil {
		return "err", []string{fmt.Sprintf("C18 round trip (sampled, %s via %s): binding the encoding of %+v failed: %v", format, api, want, err)}
	}
	normSlices(reflect.ValueOf(want).Elem())
	normSlices(reflect.ValueOf(got).Elem())
	if !reflect.DeepEqual(want, got) {
		return "neq", []string{fmt.Sprintf("C18 round trip (sampled, %s via %s): encoded %+v, bound back %+v", format, api, want, got)}
	}
	return "eq", nil
}

/**************** Run ****************/

func (bindEngine) Run(ops []string) (ans []string, oracle []string) {
	// every case starts and ends with a fresh standard validator (tbind ops with validator mode `keep` share one)
	binding.ResetValidator()
	defer binding.ResetValidator()
	for _, op := range ops {
		f := strings.Fields(op)
		var o []string
		a := func() (res string) {
			defer func() {
				if v := recover(); v != nil {
					res = panicClass(v)
					o = append(o, fmt.Sprintf("C18 never a panic: %v on %q", v, op))
				}
			}()
			switch f[0] {
			case "src":
				return inferSource(mustUnhx(f[1]), mustUnhx(f[2]))
			case "bind":
				if len(f) != 12 {
					return "bad-op"
				}
				r, oo := runBind("rd", f)
				o = append(o, oo...)
				return r
			case "bindc":
				if len(f) != 13 {
					return "bad-op"
				}
				r, oo := runBind(f[1], f[1:])
				o = append(o, oo...)
				return r
			case "tbind": // engine_bind_vt.go
				if len(f) != 13 {
					return "bad-op"
				}
				r, oo := vtRun(f)
				o = append(o, oo...)
				return r
			case "esc":
				return "s " + hx(url.QueryEscape(mustUnhx(f[1])))
			case "unesc":
				s, err := url.QueryUnescape(mustUnhx(f[1]))
				if err != nil {
					return "err"
				}
				return "ok " + hx(s)
			case "pq":
				v, err := url.ParseQuery(mustUnhx(f[1]))
				return "v " + valsStr(v) + " " + b2s(err != nil)
			case "enc":
				v := url.Values{}
				for _, kv := range parsePairList(f[1]) {
					v[kv[0]] = append(v[kv[0]], kv[1])
				}
				return "s " + hx(v.Encode())
			case "rt":
				r, oo := runRt(f)
				o = append(o, oo...)
				return r
			}
			return "bad-op"
		}()
		ans = append(ans, a)
		oracle = append(oracle, o...)
	}
	return
}

/**************** corpus ****************/

var stdMethods = []string{"GET", "POST", "PUT", "PATCH", "DELETE", "OPTIONS", "HEAD", "CONNECT", "TRACE"}

func jsonBody(v, q string) string {
	b, _ := json.Marshal(map[string]string{"v": v, "q": q})
	return string(b)
}

func xmlBody(v, q string) string {
	b, _ := xml.Marshal(bT{V: v, Q: q})
	return string(b)
}

func formBody(v, q string) string { return url.Values{"v": {v}, "q": {q}}.Encode() }

// probeOps: the src op plus one bind per body kind for one (method, ctype) — the distinct values A/B/M/C/D
// reveal the source in the bind answers as well.
func probeOps(method, ctype, val string) []string {
	_, boundary := mclassOf(ctype)
	if boundary == "" {
		boundary = probeBoundary
	}
	q := "v=A&q=Q"
	return []string{
		"src " + hx(method) + " " + hx(ctype),
		bindLine("auto", val, method, ctype, q, "v=B", nil),
		bindLine("auto", val, method, ctype, q, multipartBody(boundary, [][2]string{{"v", "M"}}), nil),
		bindLine("auto", val, method, ctype, q, `{"v":"C"}`, nil),
		bindLine("auto", val, method, ctype, q, `<T><v>D</v></T>`, nil),
		bindLine("auto", val, method, ctype, q, "", nil),
		// no body at all: http.NoBody directly, and what http.ReadRequest hands over (when the method and the
		// header survive the wire; a plain bind otherwise)
		bindLineC("nobody", "auto", val, method, ctype, q, "", nil),
		bindLineC("wire", "auto", val, method, ctype, q, "", nil),
	}
}

func (bindEngine) Corpus() []Case {
	var cs []Case
	add := func(tag string, ops ...string) { cs = append(cs, Case{Ops: ops, Tag: "corpus-" + tag}) }

	// the whole documented decision table: 9 methods + lower case + junk x the documented types
	types := []string{"application/x-www-form-urlencoded", "multipart/form-data; boundary=" + probeBoundary, "application/json",
		"application/xml", "text/xml", "text/plain", "", "application/json; charset=utf-8", "application/x-www-form-urlencoded; charset=UTF-8"}
	methods := append(append([]string{}, stdMethods...), "post", "put", "patch", "Post", "", "POSTX", " POST", "PUT ", "PATCHY", "P", "get")
	for _, m := range methods {
		var ops []string
		for _, ct := range types {
			ops = append(ops, "src "+hx(m)+" "+hx(ct))
		}
		add("table", ops...)
	}
	// substring tests on the raw header: order of the tests, parameters that contain a marker, case
	for _, ct := range []string{
		"multipart/mixed; boundary=a/json", "text/plain; x=/xml", "Application/JSON", "APPLICATION/X-WWW-FORM-URLENCODED",
		"application/json; x=/x-www-form-urlencoded", "application/xml; x=/json", "application/json; x=/form-data",
		"multipart/form-data; boundary=" + probeBoundary + "; x=/x-www-form-urlencoded", "application/vnd.api+json", "application/ld+json",
		"image/svg+xml", "application/jsonx", "text/json", "text/x-www-form-urlencoded", "x/form-data", "multipart/form-data",
		"application/x-www-form-urlencoded; charset", "multipart/form-data; boundary", "/json", "/xml", "json", "application/xmlish",
		"APPLICATION/json", "application/x-www-form-urlencoded ; charset=utf-8", ";", "application/json;",
		"application/xml; a=/form-data", "multipart/form-data; x=\"/xml\"; boundary=" + probeBoundary, "multipart/form-data; x=\"/json\"; boundary=" + probeBoundary,
		"application/json; x=\"/xml\"", "application/xml; x=\"/json\"", "application/x-www-form-urlencoded; x=\"/json\"", "text/xml; x=\"/x-www-form-urlencoded\"",
	} {
		add("markers", probeOps("POST", ct, "off")...)
		add("markers", probeOps("PATCH", ct, "std")...)
	}
	// what each branch reads: the form branch reads the body only; Form.Bind merges; a malformed URL query fails the
	// form and multipart branches but not the query branch
	ue := "application/x-www-form-urlencoded"
	add("reads",
		bindLine("auto", "std", "POST", ue, "v=A&q=Q", "v=B", nil),
		bindLine("form.bind", "std", "POST", ue, "v=A&q=Q", "v=B", nil),
		bindLine("form.ctx", "std", "POST", ue, "q=Q", "v=B", nil),
		bindLine("form.bind", "std", "GET", ue, "v=A&q=Q", "v=B", nil),
		bindLine("auto", "std", "POST", ue, "v=A&q=%zz", "v=B", nil),
		bindLine("auto", "std", "GET", ue, "v=A&q=%zz", "v=B", nil),
		bindLine("auto", "std", "POST", ue, "v=A;q=Q", "v=B", nil),
		bindLine("auto", "std", "POST", ue, "", "v=B&q=%zz", nil),
		bindLine("auto", "std", "POST", ue, "", "v=B;q=1", nil),
		bindLine("auto", "std", "POST", "multipart/form-data; boundary=XB", "v=%zz", multipartBody("XB", [][2]string{{"v", "M"}}), nil),
		bindLine("auto", "std", "POST", "multipart/form-data; boundary=XB", "v=A", multipartBody("XB", [][2]string{{"v", "M"}, {"q", "Q2"}}), nil),
		bindLine("auto", "std", "POST", "multipart/form-data; boundary=XB", "v=A", "v=B", nil),
		bindLine("auto", "std", "POST", "multipart/form-data; boundary=XB", "v=A", "", nil),
		bindLine("auto", "std", "POST", ue, "", "v=1&v=2&q=3&q=4", nil),
		bindLine("auto", "std", "POST", ue, "", "v=B&zz=1", nil),
		bindLine("auto", "std", "POST", ue, "", "=x&v=B", nil),
		bindLine("query.bind", "std", "POST", ue, "v=A", "v=B", nil),
		bindLine("header.bind", "std", "GET", "", "", "", [][2]string{{"v", "H"}, {"q", "HQ"}}),
		bindLine("header.bind", "std", "GET", "text/plain", "", "", [][2]string{{"v", "H"}}),
		bindLine("header.vals", "cnt", "GET", "", "", "", [][2]string{{"v", "H"}, {"X-Other", "1"}}),
	)
	// a body method WITHOUT a body (http.NoBody: Content-Length 0 on a server, NewRequest(.., nil)) is still a body
	// method: the source is chosen by the Content-Type, the (empty) body is read, the URL query is not. Only the
	// single binders that read the query by definition (Form.Bind merges, Query.Bind) see v=A.
	for _, m := range []string{"POST", "PUT", "PATCH", "GET", "DELETE", "post"} {
		var ops []string
		for _, ct := range []string{ue, "multipart/form-data; boundary=XB", "application/json", "application/json; charset=utf-8", "text/xml",
			"application/xml", "text/plain", ""} {
			for _, carrier := range []string{"nobody", "newreq", "wire", "nop", "chunk"} {
				ops = append(ops, bindLineC(carrier, "auto", "std", m, ct, "v=A&q=Q", "", nil))
			}
			ops = append(ops, bindLineC("nobody", "ctxbind", "off", m, ct, "v=A&q=Q", "", nil), bindLineC("nobody", "pkgmust", "cnt", m, ct, "v=A", "", nil))
		}
		add("nobody", ops...)
	}
	add("nobody",
		bindLineC("nobody", "form.bind", "std", "POST", ue, "v=A&q=Q", "", nil),
		bindLineC("nobody", "form.ctx", "std", "POST", "application/json", "v=A", "", nil),
		bindLineC("nobody", "query.bind", "std", "POST", "application/json", "v=A", "", nil),
		bindLineC("nobody", "json.bind", "std", "POST", "application/json", "v=A", "", nil),
		bindLineC("nobody", "xml.ctx", "off", "PUT", "text/xml", "v=A", "", nil),
		bindLineC("nobody", "json.must", "std", "PATCH", "", "v=A", "", nil),
		bindLineC("nobody", "auto", "std", "POST", ue, "v=A&q=%zz", "", nil), // ParseForm still fails on the malformed URL query
		bindLineC("nobody", "auto", "off", "POST", ue, "v=A", "", nil),
		bindLineC("wire", "auto", "std", "POST", "application/json", "v=A", `{"v":"C"}`, nil),
		bindLineC("wire", "auto", "std", "PUT", ue, "v=A", "v=B&q=1", nil),
		bindLineC("newreq", "auto", "std", "PATCH", "text/xml", "v=A", `<T><v>D</v></T>`, nil),
		bindLineC("nop", "auto", "std", "POST", "multipart/form-data; boundary=XB", "v=A", multipartBody("XB", [][2]string{{"v", "M"}}), nil),
	)
	// validation: no values at all for the chosen source, a rule violation, validator off, exactly one call
	for _, val := range []string{"std", "cnt", "off"} {
		add("validate",
			bindLine("auto", val, "GET", "", "", "", nil),
			bindLine("auto", val, "DELETE", "application/json", "q=Q", `{"v":"C"}`, nil),
			bindLine("auto", val, "POST", ue, "v=A", "", nil),
			bindLine("auto", val, "POST", ue, "v=A", "q=Q", nil),
			bindLine("auto", val, "POST", ue, "v=A", "v=bad", nil),
			bindLine("auto", val, "POST", ue, "v=A", "v=", nil),
			bindLine("auto", val, "POST", "text/x-www-form-urlencoded", "v=A", "v=B", nil),
			bindLine("auto", val, "PUT", "application/json", "v=A", `{}`, nil),
			bindLine("auto", val, "PUT", "application/json", "v=A", `{"v":"bad"}`, nil),
			bindLine("auto", val, "PUT", "application/json", "v=A", `{"v":""}`, nil),
			bindLine("auto", val, "PUT", "application/json", "v=A", `null`, nil),
			bindLine("auto", val, "PUT", "application/json", "v=A", ``, nil),
			bindLine("auto", val, "PATCH", "text/xml", "v=A", `<T/>`, nil),
			bindLine("auto", val, "PATCH", "text/xml", "v=A", `<T><v>bad</v></T>`, nil),
			bindLine("auto", val, "PATCH", "text/xml", "v=A", ``, nil),
			bindLine("auto", val, "POST", "multipart/form-data; boundary=XB", "v=A", multipartBody("XB", nil), nil),
			bindLine("auto", val, "POST", "multipart/form-data; boundary=XB", "v=A", multipartBody("XB", [][2]string{{"v", "bad"}}), nil),
			bindLine("pkgmust", val, "POST", "application/json", "", `{"v":"bad"}`, nil),
			bindLine("pkgmust", val, "POST", "application/json", "", `{"v":"C"}`, nil),
			bindLine("json.must", val, "POST", "", "", `{}`, nil),
			bindLine("xml.must", val, "POST", "", "", `<T><v>D</v></T>`, nil),
			bindLine("form.must", val, "POST", ue, "", `q=1`, nil),
			bindLine("query.must", val, "GET", "", "v=bad", ``, nil),
			bindLine("ctxbind", val, "POST", "application/json", "", `{"v":"C","q":"Q"}`, nil),
			bindLine("ctxauto", val, "POST", "application/json", "", `{"q":"Q"}`, nil),
			bindLine("pkgbind", val, "GET", "", "q=Q", ``, nil),
			bindLine("json.ctx", val, "GET", "", "", `{"v":"C"}`, nil),
			bindLine("xml.ctx", val, "GET", "", "", `<T></T>`, nil),
			bindLine("json.should", val, "GET", "", "", `{"v":"bad"}`, nil),
			bindLine("xml.bytes", val, "GET", "", "", `<T><v>D</v></T>`, nil),
			bindLine("json.bytes", val, "GET", "", "", `{}`, nil),
			bindLine("json.name", val, "GET", "", "", `{"v":"C"}`, nil),
			bindLine("form.vals", val, "GET", "", "q=1", ``, nil),
			bindLine("query.vals", val, "GET", "", "v=1", ``, nil),
		)
	}
	// malformed bodies: error, never a panic
	for _, body := range []string{"{", `{"v":`, `{"v":1}`, `[]`, `"x"`, `{"v":"C"`, `{"v":"C"} trailing`, "\x00", "\xff\xfe", "<", "<T>", "<T><v>D</T>",
		"<T><v>D</v>", "<?xml version=\"1.0\"?>", "<T v='1'/>", "&", "<T>&bogus;</T>", "%", "v=%", "v=%2", "v=%zz&v=B", "&&&", "===", "v", ";", "--XB\r\n", "--XB--", "--XB\r\nContent-Disposition: form-data; name=\"v\"\r\n\r\nM", strings.Repeat("[", 300), strings.Repeat("<a>", 300)} {
		var ops []string
		for _, ct := range []string{ue, "multipart/form-data; boundary=XB", "application/json", "application/xml"} {
			ops = append(ops, bindLine("auto", "cnt", "POST", ct, "", body, nil))
		}
		ops = append(ops, bindLine("auto", "cnt", "GET", "", body, "", nil), bindLine("form.bind", "std", "PUT", ue, body, body, nil),
			bindLine("json.bytes", "std", "GET", "", "", body, nil), bindLine("xml.bytes", "std", "GET", "", "", body, nil))
		add("malformed", ops...)
	}
	// percent-encoding
	add("codec", "esc "+hx("a&b=c+d %;é/~_-.\x00\xff"), "unesc "+hx("a%26b%3Dc%2Bd+%25%3B%C3%A9"), "unesc "+hx("%"), "unesc "+hx("%2"), "unesc "+hx("%2g"),
		"unesc "+hx("%g2"), "unesc "+hx("ok%"), "unesc "+hx("%41%4a%4A"), "unesc -", "esc -", "pq -", "pq "+hx("v=A&q=Q&v=B&x;y=1&=z&&k"), "pq "+hx("a=%zz&b=1"),
		"pq "+hx("%zz=1&b=1"), "pq "+hx("a==b&c=d=e"), "pq "+hx("&"), "pq "+hx("a+b=c+d"), "pq "+hx("a;b"), "enc -",
		"enc "+pairList([][2]string{{"v", "B&"}, {"q", "1"}, {"v", "C"}}), "enc "+pairList([][2]string{{"b", ""}, {"", "x"}, {"a", " "}, {"B", "é"}, {"ab", "1"}, {"a", "2"}}))
	// sampled codec round trips, every format and entry point on the hand-picked values
	for _, typ := range rtTypes {
		var ops []string
		for k := 0; k < 4; k++ {
			for _, fa := range rtFormatApis {
				ops = append(ops, fmt.Sprintf("rt %s %s %s c%d", fa[0], fa[1], typ, k))
			}
		}
		add("roundtrip", ops...)
	}
	cs = append(cs, vtCorpus()...) // several struct types under one validator (engine_bind_vt.go)
	return cs
}

var rtFormatApis = [][2]string{
	{"form", "auto"}, {"form", "ctxbind"}, {"form", "form.bind"}, {"form", "form.ctx"}, {"form", "form.vals"},
	{"query", "auto"}, {"query", "query.bind"}, {"query", "query.should"}, {"multipart", "auto"},
	{"json", "auto"}, {"json", "json.bind"}, {"json", "json.ctx"}, {"json", "json.bytes"},
	{"xml", "auto"}, {"xml", "xml.bind"}, {"xml", "xml.ctx"}, {"xml", "xml.bytes"},
}

/**************** generators ****************/

func genMethod(r *Rand) string {
	switch x := r.Intn(20); {
	case x < 9:
		return r.Pick([]string{"POST", "PUT", "PATCH"})
	case x < 14:
		return r.Pick(stdMethods)
	case x < 16:
		return strings.ToLower(r.Pick(stdMethods))
	case x < 18:
		m := r.Pick([]string{"POST", "PUT", "PATCH"})
		switch r.Intn(6) {
		case 0:
			return m + "X"
		case 1:
			return " " + m
		case 2:
			return m + " "
		case 3:
			return m[:len(m)-1]
		case 4:
			return strings.ToUpper(m[:1]) + strings.ToLower(m[1:])
		default:
			return m + m
		}
	default:
		n := r.Intn(6)
		b := make([]byte, n)
		for i := range b {
			b[i] = byte(r.Intn(256))
		}
		return string(b)
	}
}

var baseTypes = []string{
	"application/x-www-form-urlencoded", "application/x-www-form-urlencoded", "multipart/form-data", "multipart/form-data",
	"application/json", "application/json", "application/xml", "text/xml",
	"text/plain", "application/octet-stream", "text/html", "multipart/mixed", "application/vnd.api+json", "application/soap+xml",
	"application/jsonx", "text/json", "text/x-www-form-urlencoded", "x/form-data", "application/xml-dtd", "json", "xml", "*/*",
}

var ctParams = []string{
	"", "", "", "; charset=utf-8", ";charset=UTF-8", " ; charset=utf-8", "; boundary=" + probeBoundary, "; boundary=\"X B\"", "; boundary=XB; charset=utf-8",
	"; charset", ";", "; ", "; x=/json", "; x=/xml", "; a=/form-data", "; b=/x-www-form-urlencoded", "; boundary=a/json", "; x=\"/xml\"", ", text/xml", "; q=0.9",
}

func genCType(r *Rand) string {
	switch x := r.Intn(20); {
	case x < 1:
		return ""
	case x < 2:
		n := r.Intn(12)
		b := make([]byte, n)
		for i := range b {
			b[i] = r.Pick([]string{"/", "j", "s", "o", "n", "x", "m", "l", ";", " ", "=", "-", "a", "\xff", "\"", "f", "d", "t"})[0]
		}
		return string(b)
	}
	base := r.Pick(baseTypes)
	switch r.Intn(8) {
	case 0:
		base = strings.ToUpper(base)
	case 1:
		base = strings.ToUpper(base[:1]) + base[1:]
	case 2:
		if i := strings.IndexByte(base, '/'); i >= 0 {
			base = base[:i] + strings.ToUpper(base[i:])
		}
	}
	ct := base + r.Pick(ctParams)
	if strings.HasPrefix(base, "multipart/form-data") && !strings.Contains(ct, "boundary") && r.Chance(2, 3) {
		ct += "; boundary=" + probeBoundary
	}
	if r.Chance(1, 12) {
		ct += r.Pick(ctParams)
	}
	return ct
}

func genFieldValue(r *Rand) string {
	switch x := r.Intn(12); {
	case x < 2:
		return ""
	case x < 3:
		return "bad"
	case x < 4:
		return r.Pick([]string{" ", "Bad", "bad ", "0", "a&b=c+d %;", "é日本🙂", "%zz", "\xff", "\x00", "v=B"})
	default:
		return genString(r, "bytes")
	}
}

func genQueryString(r *Rand) string {
	switch x := r.Intn(14); {
	case x < 2:
		return ""
	case x < 8:
		vals := url.Values{}
		if r.Chance(3, 4) {
			vals["v"] = []string{genFieldValue(r)}
			if r.Chance(1, 5) {
				vals["v"] = append(vals["v"], genFieldValue(r))
			}
		}
		if r.Chance(1, 2) {
			vals["q"] = []string{genFieldValue(r)}
		}
		return vals.Encode()
	case x < 10:
		// raw, hand-assembled (order, duplicates, empty pieces, unknown keys)
		var parts []string
		for i, n := 0, r.Range(1, 4); i < n; i++ {
			parts = append(parts, r.Pick([]string{"v=" + url.QueryEscape(genFieldValue(r)), "q=" + url.QueryEscape(genFieldValue(r)), "v", "q=", "", "=x", "zz=1", "v=1=2", "v=a+b", "V=1", "v.x=1", "v[0]=1", "q]=1"}))
		}
		return strings.Join(parts, "&")
	case x < 12:
		// malformed escapes / semicolons
		return r.Pick([]string{"v=%", "v=%2", "v=%zz", "%zz=1", "v=A;q=Q", "v=A&q=%zz", "q=%zz&v=A", ";", "v=A&;", "v=A&q=%g1", "%", "v=B&q=1%"})
	default:
		n := r.Intn(10)
		b := make([]byte, n)
		for i := range b {
			b[i] = r.Pick([]string{"v", "q", "=", "&", "%", "+", ";", "2", "a", "\xff", " ", "z"})[0]
		}
		return string(b)
	}
}

func genBody(r *Rand, kind int, ctype string) string {
	v, q := genFieldValue(r), genFieldValue(r)
	switch kind {
	case 0:
		return genQueryString(r)
	case 1:
		_, boundary := mclassOf(ctype)
		if boundary == "" {
			boundary = probeBoundary
		}
		var kvs [][2]string
		if r.Chance(4, 5) {
			kvs = append(kvs, [2]string{"v", v})
		}
		if r.Chance(1, 2) {
			kvs = append(kvs, [2]string{"q", q})
		}
		if r.Chance(1, 10) {
			kvs = append(kvs, [2]string{"zz", "1"})
		}
		b := multipartBody(boundary, kvs)
		if r.Chance(1, 8) && len(b) > 0 {
			b = b[:r.Intn(len(b))]
		}
		return b
	case 2:
		switch r.Intn(10) {
		case 0:
			return `{}`
		case 1:
			return r.Pick([]string{`null`, `[]`, `{"v":1}`, `{"v":null}`, `{"v":["a"]}`, `"x"`, `{"V":"up"}`, `{"v":"C","zz":1}`, `{"v":"C"} {"v":"E"}`, ` {"v":"C"}x`})
		case 2:
			b := jsonBody(v, q)
			return b[:r.Intn(len(b)+1)]
		case 3:
			b, _ := json.Marshal(map[string]string{"v": v})
			return string(b)
		}
		return jsonBody(v, q)
	case 3:
		switch r.Intn(10) {
		case 0:
			return r.Pick([]string{`<T/>`, `<T></T>`, `<r/>`})
		case 1:
			return r.Pick([]string{`<T><v>D</v><zz>1</zz></T>`, `<T v="attr"/>`, `<?xml version="1.0"?><T><v>D</v></T>`, `<T><v>D</v></T><T><v>E</v></T>`, `<T><v><![CDATA[a&b]]></v></T>`, `<T><v>D</v><v>E</v></T>`, `<T><V>up</V></T>`})
		case 2:
			b := xmlBody(v, q)
			return b[:r.Intn(len(b)+1)]
		}
		return xmlBody(v, q)
	case 4:
		return ""
	default:
		n := r.PickInt([]int{1, 2, 3, 5, 8, 16, 40})
		b := make([]byte, n)
		for i := range b {
			if r.Chance(1, 2) {
				b[i] = r.Pick([]string{"{", "}", "<", ">", "\"", ":", "v", "=", "&", "%", "-", "\r", "\n", "/", "T", "[", "]", ","})[0]
			} else {
				b[i] = byte(r.Intn(256))
			}
		}
		return string(b)
	}
}

func genValidator(r *Rand) string {
	return r.Pick([]string{"std", "std", "cnt", "cnt", "off", "offcnt"})
}

var autoApis = []string{"auto", "auto", "auto", "pkgbind", "pkgmust", "ctxbind", "ctxauto"}
var oneApis = []string{
	"form.bind", "form.should", "form.must", "form.ctx", "form.name", "form.vals",
	"query.bind", "query.should", "query.must", "query.name", "query.vals",
	"header.bind", "header.should", "header.must", "header.name", "header.vals",
	"json.bind", "json.should", "json.must", "json.ctx", "json.name", "json.bytes",
	"xml.bind", "xml.should", "xml.must", "xml.ctx", "xml.name", "xml.bytes",
}

func genHeaders(r *Rand) [][2]string {
	var h [][2]string
	if r.Chance(3, 4) {
		h = append(h, [2]string{"v", genFieldValue(r)})
	}
	if r.Chance(1, 3) {
		h = append(h, [2]string{"q", genFieldValue(r)})
	}
	if r.Chance(1, 6) {
		h = append(h, [2]string{r.Pick([]string{"X-Other", "Accept", "v", "q"}), "1"})
	}
	return h
}

func (bindEngine) Gen(r *Rand, tier string) Case {
	if r.Chance(1, 12) { // several struct types bound under ONE validator (engine_bind_vt.go)
		return vtGen(r, tier)
	}
	switch x := r.Intn(22); {
	case x >= 20: // a body method with an empty body x every way of carrying "no body" x a query string that would bind
		m := r.Pick([]string{"POST", "PUT", "PATCH"})
		if r.Chance(1, 8) {
			m = genMethod(r)
		}
		var ops []string
		for i, n := 0, r.Range(1, 3); i < n; i++ {
			ct := genCType(r)
			if r.Chance(1, 2) {
				ct = r.Pick(baseTypes[:10]) + r.Pick(ctParams[:7])
			}
			q := r.Pick([]string{"v=A&q=Q", "v=A", "q=Q&v=A", "v=bad", "q=Q"})
			if r.Chance(1, 4) {
				q = genQueryString(r)
			}
			val := genValidator(r)
			for _, carrier := range bodyCarriers {
				api := "auto"
				if r.Chance(1, 4) {
					api = r.Pick(autoApis)
				} else if r.Chance(1, 8) {
					api = r.Pick(oneApis)
				}
				ops = append(ops, bindLineC(carrier, api, val, m, ct, q, "", nil))
			}
		}
		return Case{Ops: ops, Tag: "nobody"}
	case x < 6: // decision table: one (method, content type), all body kinds
		m, ct := genMethod(r), genCType(r)
		ops := probeOps(m, ct, genValidator(r))
		ops = append(ops, bindLineC(r.Pick(bodyCarriers[1:]), r.Pick(autoApis), genValidator(r), m, ct, genQueryString(r), "", nil))
		tag := "table-query"
		if m == "POST" || m == "PUT" || m == "PATCH" {
			tag = "table-body"
		}
		return Case{Ops: ops, Tag: tag}
	case x < 11: // values: well-formed requests through every entry point
		var ops []string
		for i, n := 0, r.Range(2, 6); i < n; i++ {
			m, ct := genMethod(r), genCType(r)
			if r.Chance(2, 3) {
				m = r.Pick([]string{"POST", "PUT", "PATCH", "GET", "DELETE"})
				ct = r.Pick(baseTypes[:8]) + r.Pick(ctParams[:7])
			}
			kind := r.Intn(5)
			body := genBody(r, kind, ct)
			api := r.Pick(autoApis)
			var hdr [][2]string
			if r.Chance(1, 2) {
				api = r.Pick(oneApis)
				if strings.HasPrefix(api, "header") {
					hdr = genHeaders(r)
					if r.Chance(2, 3) {
						ct = ""
					}
				}
			}
			carrier := "rd"
			if body == "" && r.Chance(2, 3) {
				carrier = r.Pick(bodyCarriers)
			} else if r.Chance(1, 4) {
				carrier = r.Pick([]string{"nop", "newreq", "wire", "chunk", "chunk"})
			}
			ops = append(ops, bindLineC(carrier, api, genValidator(r), m, ct, genQueryString(r), body, hdr))
		}
		return Case{Ops: ops, Tag: "values"}
	case x < 14: // malformed: arbitrary bytes as body and query against every source
		body := genBody(r, 5, "")
		if r.Chance(1, 3) {
			body = genBody(r, r.Range(1, 3), "multipart/form-data; boundary=XB")
			if len(body) > 0 {
				i := r.Intn(len(body))
				body = body[:i] + string([]byte{byte(r.Intn(256))}) + body[i+1:]
			}
		}
		var ops []string
		for _, ct := range []string{"application/x-www-form-urlencoded", "multipart/form-data; boundary=XB", "application/json", "text/xml"} {
			ops = append(ops, bindLine(r.Pick(autoApis), genValidator(r), r.Pick([]string{"POST", "PUT", "PATCH"}), ct, "", body, nil))
		}
		ops = append(ops, bindLine("auto", "cnt", "GET", "", body, "", nil), bindLine(r.Pick(oneApis), genValidator(r), "POST", "application/x-www-form-urlencoded", genQueryString(r), body, genHeaders(r)))
		return Case{Ops: ops, Tag: "malformed"}
	case x < 17: // net/url codec
		var ops []string
		alpha := []string{"%", "+", "&", "=", ";", " ", "a", "Z", "0", "9", "f", "F", "g", "~", "-", "_", ".", "/", "\xff", "\x00", "é", "2", "6"}
		str := func(max int) string {
			var b strings.Builder
			for i, n := 0, r.Intn(max+1); i < n; i++ {
				if r.Chance(1, 6) {
					b.WriteByte(byte(r.Intn(256)))
				} else {
					b.WriteString(r.Pick(alpha))
				}
			}
			return b.String()
		}
		for i, n := 0, r.Range(3, 10); i < n; i++ {
			switch r.Intn(4) {
			case 0:
				ops = append(ops, "esc "+hx(str(10)))
			case 1:
				s := str(10)
				if r.Chance(1, 3) {
					s = url.QueryEscape(s)
				}
				ops = append(ops, "unesc "+hx(s))
			case 2:
				s := genQueryString(r)
				if r.Chance(1, 3) {
					s = str(16)
				}
				ops = append(ops, "pq "+hx(s))
			default:
				var ps [][2]string
				keys := []string{"v", "q", "", "a b", "k&", "é", str(3), str(3)}
				for j, m := 0, r.Intn(6); j < m; j++ {
					ps = append(ps, [2]string{r.Pick(keys), str(5)})
				}
				ops = append(ops, "enc "+pairList(ps))
			}
		}
		return Case{Ops: ops, Tag: "codec"}
	default: // sampled round trips
		var ops []string
		for i, n := 0, r.Range(2, 6); i < n; i++ {
			fa := rtFormatApis[r.Intn(len(rtFormatApis))]
			ops = append(ops, fmt.Sprintf("rt %s %s %s s%d", fa[0], fa[1], r.Pick(rtTypes), r.U64()>>1))
		}
		return Case{Ops: ops, Tag: "roundtrip"}
	}
}
